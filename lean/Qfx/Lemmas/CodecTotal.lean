/- C09 (codec part): the parser never faults after the fixes of D2 / D3 — every Go index and slice expression of the parse path is in range -/
import Qfx.Lemmas.CodecParse
import Qfx.Lemmas.Values
namespace Qfx

def NoFault {α} (r : Res α) : Prop := ∀ w, r ≠ .fault w

theorem parseUIntLoop_nofault (b : Bytes) (n : Int) : NoFault (parseUIntLoop b n) := by
  induction b generalizing n with
  | nil => intro w h; cases h
  | cons c cs ih =>
    intro w h
    simp only [parseUIntLoop] at h
    split at h
    · exact ih _ w h
    · cases h

theorem parseUInt_nofault (b : Bytes) : NoFault (parseUInt b) := by
  intro w h
  unfold parseUInt at h
  split at h
  · cases h
  · exact parseUIntLoop_nofault _ _ w h

theorem atoi_nofault (b : Bytes) : NoFault (atoi b) := by
  intro w h
  cases b with
  | nil => exact parseUInt_nofault _ w h
  | cons c cs =>
    simp only [atoi] at h
    split at h
    · cases hp : parseUInt cs with
      | ok n => rw [hp] at h; cases h
      | err e => rw [hp] at h; cases h
      | fault x => exact parseUInt_nofault cs x hp
    · exact parseUInt_nofault _ w h

/-- digits only (after an optional '-'): an accepted integer text contains no `=` -/
theorem parseUIntLoop_ok_digits (b : Bytes) (n v : Int) (h : parseUIntLoop b n = .ok v) : ∀ c ∈ b, isDigit c = true := by
  induction b generalizing n with
  | nil => intro c hc; simp at hc
  | cons x xs ih =>
    simp only [parseUIntLoop] at h
    split at h
    · rename_i hx
      intro c hc
      rcases List.mem_cons.1 hc with e | e
      · subst e; exact hx
      · exact ih _ h c e
    · cases h

theorem atoi_ok_no_eq (b : Bytes) (v : Int) (h : atoi b = .ok v) : ∀ c ∈ b, c ≠ cEq := by
  have dig : ∀ x, isDigit x = true → x ≠ cEq := by
    intro x hx; have := (isDigit_iff x).1 hx; unfold cEq; omega
  cases b with
  | nil => intro c hc; simp at hc
  | cons c cs =>
    simp only [atoi] at h
    split at h
    · rename_i hc
      cases hp : parseUInt cs with
      | ok n =>
        intro x hx
        rcases List.mem_cons.1 hx with e | e
        · subst e; rw [hc]; decide
        · unfold parseUInt at hp
          split at hp
          · cases hp
          · exact dig x (parseUIntLoop_ok_digits _ _ _ hp x e)
      | err e => rw [hp] at h; cases h
      | fault x => rw [hp] at h; cases h
    · intro x hx
      unfold parseUInt at h
      split at h
      · cases h
      · exact dig x (parseUIntLoop_ok_digits _ _ _ h x hx)

theorem findSep_spec (raw : Bytes) (s : Nat) (h : findSep raw = .ok s) : raw[s]? = some cEq ∧ 1 ≤ s := by
  unfold findSep at h
  simp only [] at h
  split at h
  · rename_i s' hfast
    injection h with h; subst h
    split at hfast
    · split at hfast
      · injection hfast with e; subst e; rename_i h1; exact ⟨h1, by omega⟩
      · split at hfast
        · injection hfast with e; subst e; rename_i h1; exact ⟨h1, by omega⟩
        · split at hfast
          · injection hfast with e; subst e; rename_i h1; exact ⟨h1, by omega⟩
          · split at hfast
            · injection hfast with e; subst e; rename_i h1; exact ⟨h1, by omega⟩
            · cases hfast
    · cases hfast
  · split at h
    · cases h
    · cases h
    · rename_i s' hne hidx
      injection h with h; subst h
      refine ⟨(indexByte_spec raw cEq _ hidx).1, ?_⟩
      cases s' with
      | zero => exact absurd rfl hne
      | succ k => omega


theorem sliceR_nofault {α} (b : List α) (lo hi : Nat) (h : lo ≤ hi ∧ hi ≤ b.length) : ∃ r, sliceR b lo hi = .ok r := by
  unfold sliceR; simp [h]

/-- `parse` does not fault when the first `=` of the slice is not its last byte -/
theorem parse_nofault (raw : Bytes)
    (h : ∀ s, raw[s]? = some cEq → (∀ j, j < s → raw[j]? ≠ some cEq) → s + 1 ≤ raw.length - 1) : NoFault (TagValue.parse raw) := by
  intro w hw
  unfold TagValue.parse at hw
  cases hs : findSep raw with
  | err e => rw [hs] at hw; cases hw
  | fault x =>
    unfold findSep at hs
    simp only [] at hs
    split at hs
    · cases hs
    · split at hs <;> cases hs
  | ok s =>
    rw [hs] at hw
    obtain ⟨hat, hpos⟩ := findSep_spec raw s hs
    have hlt : s < raw.length := by
      rcases Nat.lt_or_ge s raw.length with h1 | h1
      · exact h1
      · rw [List.getElem?_eq_none_iff.2 h1] at hat; cases hat
    obtain ⟨tagB, htb⟩ := sliceR_nofault raw 0 s ⟨by omega, by omega⟩
    have htb' : tagB = raw.take s := by
      unfold sliceR at htb; simp only [show 0 ≤ s ∧ s ≤ raw.length from ⟨by omega, by omega⟩, if_true] at htb
      injection htb with htb; rw [← htb]; simp
    simp only [htb] at hw
    cases ha : atoi tagB with
    | err e => rw [ha] at hw; cases hw
    | fault x => exact atoi_nofault tagB x ha
    | ok tag =>
      rw [ha] at hw
      have hno := atoi_ok_no_eq tagB tag ha
      have hfirst : ∀ j, j < s → raw[j]? ≠ some cEq := by
        intro j hj hc
        have : raw[j]? = (raw.take s)[j]? := by rw [List.getElem?_take]; simp [hj]
        rw [this, ← htb'] at hc
        exact hno cEq (List.mem_of_getElem? hc) rfl
      have hb := h s hat hfirst
      obtain ⟨v, hv⟩ := sliceR_nofault raw (s + 1) (raw.length - 1) ⟨hb, by omega⟩
      simp only [hv] at hw
      cases hw

theorem indexByte_lt (b : Bytes) (c e : Nat) (h : indexByte b c = some e) : e < b.length := by
  have := (indexByte_spec b c e h).1
  rcases Nat.lt_or_ge e b.length with h1 | h1
  · exact h1
  · rw [List.getElem?_eq_none_iff.2 h1] at this; cases this

theorem extractField_nofault (b : Bytes) : NoFault (extractField b).2 := by
  intro w hw
  unfold extractField at hw
  split at hw
  · cases hw
  · rename_i e he
    have hlt := indexByte_lt b SOH e he
    obtain ⟨raw, hraw⟩ := sliceR_nofault b 0 (e + 1) ⟨by omega, by omega⟩
    have hraw' : raw = b.take (e + 1) := by
      unfold sliceR at hraw; simp only [show 0 ≤ e + 1 ∧ e + 1 ≤ b.length from ⟨by omega, by omega⟩, if_true] at hraw
      injection hraw with hraw; rw [← hraw]; simp
    simp only [hraw] at hw
    apply parse_nofault raw ?_ w hw
    intro s hs _
    have hlen : raw.length = e + 1 := by rw [hraw']; simp; omega
    have hse : s < e + 1 := by
      rcases Nat.lt_or_ge s raw.length with h1 | h1
      · omega
      · rw [List.getElem?_eq_none_iff.2 h1] at hs; cases hs
    have hne : s ≠ e := by
      intro e'
      subst e'
      have h1 : raw[s]? = b[s]? := by rw [hraw', List.getElem?_take]; simp
      rw [h1, (indexByte_spec b SOH s he).1] at hs
      injection hs with hs; exact absurd hs (by decide)
    rw [hlen]; omega

theorem extractXML_nofault (b : Bytes) (n : Int) (hn : n > 0) : NoFault (extractXMLDataField Fixes.cur b n).2 := by
  intro w hw
  unfold extractXMLDataField at hw
  split at hw
  · cases hw
  · rename_i e he
    simp only [] at hw
    split at hw
    · simp [Fixes.cur] at hw
    · rename_i hc
      have hlt := indexByte_lt b cEq e he
      have hk : ((e : Int) + n + 1 + 1).toNat ≤ b.length := by omega
      have hk2 : ((e : Int) + n + 1 + 1).toNat ≥ e + 3 := by omega
      apply parse_nofault _ ?_ w hw
      intro s hs hfirst
      have hlen : (b.take ((e : Int) + n + 1 + 1).toNat).length = ((e : Int) + n + 1 + 1).toNat := by simp; omega
      have hse : s ≤ e := by
        rcases Nat.lt_or_ge e s with h1 | h1
        · exfalso
          apply hfirst e h1
          rw [List.getElem?_take]; simp [show e < ((e : Int) + n + 1 + 1).toNat by omega]
          exact (indexByte_spec b cEq e he).1
        · exact h1
      rw [hlen]; omega


/-! ## the parse loop never faults (after the fixes) -/

/-- header invariant during a parse: every header field is a one-element view inside the field array -/
def HdrOK (fields : List TagValue) (hd : FieldMap) : Prop :=
  ∀ k f, alFind hd.lookup k = some f → ∃ s, f = .view s 1 ∧ s < fields.length

def ModeOK (fields : List TagValue) : Mode → Prop
  | .main => True
  | .grp dmStart _ _ => dmStart < fields.length

theorem HdrOK.set {fields : List TagValue} {hd : FieldMap} (h : HdrOK fields hd) (i : Nat) (tv : TagValue) :
    HdrOK (fields.set i tv) hd := by
  intro k f hf; obtain ⟨s, h1, h2⟩ := h k f hf; exact ⟨s, h1, by simpa using h2⟩

theorem HdrOK.add {fields : List TagValue} {hd : FieldMap} (h : HdrOK fields hd) (t : Tag) (idx : Nat) (hi : idx < fields.length) :
    HdrOK fields (hd.add t (.view idx 1)) := by
  intro k f hf
  simp only [FieldMap.add] at hf
  by_cases e : k = t
  · subst e; rw [alFind_insert_self] at hf; injection hf with hf; exact ⟨idx, hf.symm, hi⟩
  · rw [alFind_insert_other _ _ _ _ e] at hf; exact h k f hf

theorem HdrOK.empty (fields : List TagValue) (o : OrdKind) : HdrOK fields (FieldMap.empty o) := by
  intro k f hf; simp [FieldMap.empty, alFind] at hf

theorem getInt_nofault {fields : List TagValue} {hd : FieldMap} (h : HdrOK fields hd) (t : Tag) : NoFault (hd.getInt fields t) := by
  intro w hw
  unfold FieldMap.getInt FieldMap.getBytes at hw
  cases hf : alFind hd.lookup t with
  | none => simp [hf] at hw
  | some f =>
    obtain ⟨s, hs, hlt⟩ := h t f hf
    subst hs
    have : ∃ tv, Field.head fields (.view s 1) = .ok tv := by
      have hne : ((fields.drop s).take 1)[0]? = some (fields[s]'hlt) := by
        rw [List.getElem?_take]; simp [List.getElem?_eq_getElem hlt]
      exact ⟨fields[s]'hlt, by simp [Field.head, Field.items, idxR, hne]⟩
    obtain ⟨tv, htv⟩ := this
    simp only [hf, htv] at hw
    cases ha : atoi tv.value with
    | ok v => rw [ha] at hw; cases hw
    | err e => rw [ha] at hw; cases hw
    | fault x => exact atoi_nofault _ x ha

theorem mainSwitch_ok (fx : Fixes) (d : Dicts) (fields : List TagValue) (idx : Nat) (tv : TagValue) (c : PCore)
    (h : HdrOK fields c.header) (hi : idx < fields.length) :
    HdrOK fields (mainSwitch fx d fields idx tv c).1.header ∧ ∀ m, (mainSwitch fx d fields idx tv c).2 = some m → ModeOK fields m := by
  unfold mainSwitch
  split
  · exact ⟨h.add _ _ hi, fun m hm => by cases hm⟩
  · split
    · exact ⟨h, fun m hm => by cases hm⟩
    · split
      · exact ⟨h, fun m hm => by injection hm with hm; subst hm; exact hi⟩
      · exact ⟨h, fun m hm => by cases hm⟩

theorem xmlLenOf_cases (fields : List TagValue) (hd : FieldMap) (h : HdrOK fields hd) : ∃ v, xmlLenOf fields hd = .ok v := by
  unfold xmlLenOf
  cases hg : hd.getInt fields 212 with
  | ok v => exact ⟨v, rfl⟩
  | err e => exact ⟨0, rfl⟩
  | fault x => exact absurd hg (getInt_nofault h 212 x)

theorem tailStep_ok (fields : List TagValue) (tv : TagValue) (c : PCore) (h : HdrOK fields c.header) :
    ∃ c2 b, tailStep fields tv c = .ok (c2, b) ∧ c2.header = c.header := by
  by_cases h10 : tv.tag = 10
  · exact ⟨c, true, by simp [tailStep, h10], rfl⟩
  · by_cases hfb : c.foundBody = true
    · by_cases h212 : tv.tag = 212
      · obtain ⟨v, hv⟩ := xmlLenOf_cases fields c.header h
        exact ⟨{ c with xmlDataLen := v }, false, by simp [tailStep, h10, hfb, h212, hv], rfl⟩
      · exact ⟨c, false, by simp [tailStep, h10, hfb, h212], rfl⟩
    · by_cases h212 : tv.tag = 212
      · obtain ⟨v, hv⟩ := xmlLenOf_cases fields c.header h
        exact ⟨{ c with bodyBytes := c.rawBytes, xmlDataLen := v }, false, by simp [tailStep, h10, hfb, h212, hv], rfl⟩
      · exact ⟨{ c with bodyBytes := c.rawBytes }, false, by simp [tailStep, h10, hfb, h212], rfl⟩

theorem finishParse_nofault (fields : List TagValue) (c : PCore) (h : HdrOK fields c.header) : NoFault (finishParse fields c) := by
  intro w hw
  simp only [finishParse] at hw
  rw [(finishAdjust_keeps c).1] at hw
  cases hg : c.header.getInt fields 9 with
  | ok v => rw [hg] at hw; simp only [] at hw; split at hw <;> cases hw
  | err e => rw [hg] at hw; cases hw
  | fault x => exact getInt_nofault h 9 x hg

theorem addDm_ok (fields : List TagValue) (dmStart idx : Nat) (c : PCore) (h : dmStart < fields.length) :
    ∃ c1, addDm fields dmStart idx c = .ok c1 ∧ c1.header = c.header := by
  unfold addDm
  have : idxR fields dmStart = .ok (fields[dmStart]'h) := by simp [idxR, List.getElem?_eq_getElem h]
  rw [this]; exact ⟨_, rfl, rfl⟩


theorem grpSwitch_ok (d : Dicts) (fields : List TagValue) (idx : Nat) (tv : TagValue) (dmStart : Nat) (tags : List Tag)
    (gf : List DNode) (c : PCore) (hd : dmStart < fields.length) (hi : idx < fields.length) (h : HdrOK fields c.header) :
    ∃ c1 mo, grpSwitch Fixes.cur d fields idx tv dmStart tags gf c = .ok (c1, mo) ∧ HdrOK fields c1.header ∧
      ∀ m, mo = some m → ModeOK fields m := by
  obtain ⟨cT1, hT1, hT1h⟩ := addDm_ok fields dmStart idx c hd
  obtain ⟨cB1, hB1, hB1h⟩ := addDm_ok fields dmStart idx { c with trailerBytes := c.rawBytes } hd
  have hB1h' : cB1.header = c.header := hB1h
  unfold grpSwitch
  simp only [Fixes.cur, if_true]
  split
  · split
    · exact ⟨_, _, rfl, h, fun m hm => by injection hm with hm; subst hm; exact hd⟩
    · exact ⟨_, _, rfl, h, fun m hm => by injection hm with hm; subst hm; exact hd⟩
  · split
    · simp only [hT1]
      exact ⟨_, _, rfl, by rw [show ({ cT1 with header := cT1.header.add tv.tag (.view idx 1) } : PCore).header = cT1.header.add tv.tag (.view idx 1) from rfl, hT1h]; exact h.add _ _ hi,
        fun m hm => by cases hm⟩
    · split
      · simp only [hT1]
        exact ⟨_, _, rfl, by show HdrOK fields cT1.header; rw [hT1h]; exact h, fun m hm => by cases hm⟩
      · split
        · simp only [hB1]
          exact ⟨_, _, rfl, by rw [hB1h']; exact h, fun m hm => by injection hm with hm; subst hm; exact hi⟩
        · split
          · split
            · exact ⟨_, _, rfl, h, fun m hm => by injection hm with hm; subst hm; exact hd⟩
            · exact ⟨_, _, rfl, h, fun m hm => by injection hm with hm; subst hm; exact hd⟩
          · simp only [hB1]
            exact ⟨_, _, rfl, by show HdrOK fields cB1.header; rw [hB1h']; exact h, fun m hm => by cases hm⟩


/-- what one iteration of the parse loop can do (after the fixes): stop with an error, end in the final check, or continue
    at the next index with the invariants intact -/
inductive StepOutcome (d : Dicts) (fields : List TagValue) (idx : Nat) (r : Res (List TagValue × PCore)) : Prop where
  | err (e : String) (h : r = .err e)
  | finish (fields' : List TagValue) (c' : PCore) (hh : HdrOK fields' c'.header) (h : r = finishParse fields' c')
  | next (m' : Mode) (fields' : List TagValue) (c' : PCore) (hl : fields'.length = fields.length)
      (hh : HdrOK fields' c'.header) (hm : ModeOK fields' m') (h : r = parseLoop Fixes.cur d m' fields' (idx + 1) c')

theorem after_switch (d : Dicts) (fields fields' : List TagValue) (idx : Nat) (tv : TagValue) (c1 : PCore)
    (hl : fields'.length = fields.length) (hh : HdrOK fields' c1.header) :
    StepOutcome d fields idx
      (match tailStep fields' tv c1 with
       | .ok (c2, true) => finishParse fields' c2
       | .ok (c2, false) => parseLoop Fixes.cur d .main fields' (idx + 1) c2
       | .err e => .err e
       | .fault w => .fault w) := by
  obtain ⟨c2, b, ht, hc2⟩ := tailStep_ok fields' tv c1 hh
  rw [ht]
  cases b with
  | true => exact .finish fields' c2 (by rw [hc2]; exact hh) rfl
  | false => exact .next .main fields' c2 hl (by rw [hc2]; exact hh) trivial rfl

theorem parseLoop_step (d : Dicts) (mode : Mode) (fields : List TagValue) (idx : Nat) (c : PCore)
    (hh : HdrOK fields c.header) (hm : ModeOK fields mode) (hidx : idx < fields.length) :
    StepOutcome d fields idx (parseLoop Fixes.cur d mode fields idx c) := by
  rw [parseLoop]
  simp only [hidx, dite_true]
  cases mode with
  | main =>
    simp only []
    -- the extraction
    have hex : ∀ (ex : Bytes × Res TagValue) (c0 : PCore), NoFault ex.2 → c0.header = c.header →
        StepOutcome d fields idx
          (match ex.2 with
           | .err e => .err e
           | .fault w => .fault w
           | .ok tv =>
             match mainSwitch Fixes.cur d (fields.set idx tv) idx tv { c0 with rawBytes := ex.1 } with
             | (c1, some m) => parseLoop Fixes.cur d m (fields.set idx tv) (idx + 1) c1
             | (c1, none) =>
               match tailStep (fields.set idx tv) tv c1 with
               | .ok (c2, true) => finishParse (fields.set idx tv) c2
               | .ok (c2, false) => parseLoop Fixes.cur d .main (fields.set idx tv) (idx + 1) c2
               | .err e => .err e
               | .fault w => .fault w) := by
      intro ex c0 hnf hc0
      cases hr : ex.2 with
      | err e => exact .err e rfl
      | fault w => exact absurd hr (hnf w)
      | ok tv =>
        simp only []
        have hl : (fields.set idx tv).length = fields.length := by simp
        have hh' : HdrOK (fields.set idx tv) ({ c0 with rawBytes := ex.1 } : PCore).header := by
          show HdrOK _ c0.header; rw [hc0]; exact hh.set idx tv
        obtain ⟨h1, h2⟩ := mainSwitch_ok Fixes.cur d (fields.set idx tv) idx tv { c0 with rawBytes := ex.1 } hh' (by rw [hl]; exact hidx)
        cases hms : mainSwitch Fixes.cur d (fields.set idx tv) idx tv { c0 with rawBytes := ex.1 } with
        | mk c1 mo =>
          rw [hms] at h1 h2
          cases mo with
          | some m => exact .next m _ c1 hl h1 (h2 m rfl) rfl
          | none => exact after_switch d fields _ idx tv c1 hl h1
    by_cases hx : c.xmlDataLen > 0
    · simp only [hx, if_true]
      exact hex (extractXMLDataField Fixes.cur c.rawBytes c.xmlDataLen) { c with xmlDataLen := 0, xmlDataMsg := true } (extractXML_nofault _ _ hx) rfl
    · simp only [hx, if_false]
      exact hex (extractField c.rawBytes) c (extractField_nofault _) rfl
  | grp dmStart tags gf =>
    simp only []
    cases hr : (extractField c.rawBytes).2 with
    | fault w => exact absurd hr (extractField_nofault _ w)
    | err e =>
      simp only []
      have hl : (fields.set idx fields[idx]).length = fields.length := by simp
      obtain ⟨c1, mo, hg, h1, h2⟩ := grpSwitch_ok d (fields.set idx fields[idx]) idx fields[idx] dmStart tags gf
        { c with rawBytes := (extractField c.rawBytes).1 } (by rw [hl]; exact hm) (by rw [hl]; exact hidx) (hh.set idx _)
      rw [hg]
      cases mo with
      | some m => exact .next m _ c1 hl h1 (h2 m rfl) rfl
      | none => exact after_switch d fields _ idx _ c1 hl h1
    | ok tv =>
      simp only []
      have hl : (fields.set idx tv).length = fields.length := by simp
      obtain ⟨c1, mo, hg, h1, h2⟩ := grpSwitch_ok d (fields.set idx tv) idx tv dmStart tags gf
        { c with rawBytes := (extractField c.rawBytes).1 } (by rw [hl]; exact hm) (by rw [hl]; exact hidx) (hh.set idx _)
      rw [hg]
      cases mo with
      | some m => exact .next m _ c1 hl h1 (h2 m rfl) rfl
      | none => exact after_switch d fields _ idx _ c1 hl h1


theorem parseLoop_nofault (d : Dicts) : ∀ (n : Nat) (mode : Mode) (fields : List TagValue) (idx : Nat) (c : PCore),
    fields.length - idx = n → HdrOK fields c.header → ModeOK fields mode → NoFault (parseLoop Fixes.cur d mode fields idx c) := by
  intro n
  induction n with
  | zero =>
    intro mode fields idx c hn hh hm w hw
    have : ¬ idx < fields.length := by omega
    rw [parseLoop] at hw
    simp only [this, dite_false, outOfFields, Fixes.cur, if_true] at hw
    cases mode with
    | main => cases hw
    | grp dmStart tags gf =>
      simp only [] at hw
      obtain ⟨c1, h1, h1h⟩ := addDm_ok fields dmStart idx c hm
      rw [h1] at hw
      simp only [] at hw
      split at hw
      · split at hw
        · exact finishParse_nofault fields c1 (by rw [h1h]; exact hh) w hw
        · cases hw
      · cases hw
  | succ n ih =>
    intro mode fields idx c hn hh hm
    have hidx : idx < fields.length := by omega
    cases parseLoop_step d mode fields idx c hh hm hidx with
    | err e h => intro w hw; rw [h] at hw; cases hw
    | finish fields' c' hh' h => rw [h]; exact finishParse_nofault fields' c' hh'
    | next m' fields' c' hl hh' hm' h => rw [h]; exact ih m' fields' (idx + 1) c' (by omega) hh' hm'

theorem extractSpecific_cases (t : Tag) (fields : List TagValue) (idx : Nat) (raw : Bytes) (hd : FieldMap) :
    (∃ e, extractSpecific Fixes.cur t fields idx raw hd = .err e) ∨
    (∃ tv rem, idx < fields.length ∧ extractSpecific Fixes.cur t fields idx raw hd = .ok (fields.set idx tv, rem, hd.add tv.tag (.view idx 1))) := by
  by_cases hi : idx < fields.length
  · cases hp : extractField raw with
    | mk rem r =>
      cases r with
      | err e => exact Or.inl ⟨e, by unfold extractSpecific; simp [hi, hp]⟩
      | fault w => exact absurd (by rw [hp]) (extractField_nofault raw w)
      | ok tv =>
        by_cases ht : tv.tag ≠ t
        · exact Or.inl ⟨"fields out of order", by unfold extractSpecific; simp [hi, hp, ht]⟩
        · exact Or.inr ⟨tv, rem, hi, by unfold extractSpecific; simp [hi, hp, ht]⟩
  · exact Or.inl ⟨"message ends without CheckSum", by unfold extractSpecific; simp [hi, Fixes.cur]⟩

/-- NO BYTES FROM THE WIRE CAN MAKE THE PARSER PANIC (after the fixes of D2 and D3): for every input and every dictionaries,
    `ParseMessageWithDataDictionary` into a fresh message returns a message or an error, never an index / slice fault -/
theorem parseMessage_nofault (d : Dicts) (w : Bytes) : NoFault (parseMessage Fixes.cur d w) := by
  intro x hx
  simp only [parseMessage] at hx
  split at hx
  · cases hx
  · rcases extractSpecific_cases 8 (List.replicate (countByte w SOH) TagValue.zero) 0 w (FieldMap.empty .header) with ⟨e, h1⟩ | ⟨tv1, r1, hi1, h1⟩
    · rw [h1] at hx; cases hx
    · rw [h1] at hx
      simp only [] at hx
      rcases extractSpecific_cases 9 ((List.replicate (countByte w SOH) TagValue.zero).set 0 tv1) 1 r1 ((FieldMap.empty .header).add tv1.tag (.view 0 1)) with ⟨e, h2⟩ | ⟨tv2, r2, hi2, h2⟩
      · rw [h2] at hx; cases hx
      · rw [h2] at hx
        simp only [] at hx
        rcases extractSpecific_cases 35 (((List.replicate (countByte w SOH) TagValue.zero).set 0 tv1).set 1 tv2) 2 r2
            (((FieldMap.empty .header).add tv1.tag (.view 0 1)).add tv2.tag (.view 1 1)) with ⟨e, h3⟩ | ⟨tv3, r3, hi3, h3⟩
        · rw [h3] at hx; cases hx
        · rw [h3] at hx
          simp only [] at hx
          have hh : HdrOK ((((List.replicate (countByte w SOH) TagValue.zero).set 0 tv1).set 1 tv2).set 2 tv3)
              ((((FieldMap.empty .header).add tv1.tag (.view 0 1)).add tv2.tag (.view 1 1)).add tv3.tag (.view 2 1)) := by
            have h0 := HdrOK.empty ((((List.replicate (countByte w SOH) TagValue.zero).set 0 tv1).set 1 tv2).set 2 tv3) .header
            have l0 : 0 < ((((List.replicate (countByte w SOH) TagValue.zero).set 0 tv1).set 1 tv2).set 2 tv3).length := by simp at hi1 ⊢; omega
            have l1 : 1 < ((((List.replicate (countByte w SOH) TagValue.zero).set 0 tv1).set 1 tv2).set 2 tv3).length := by simp at hi2 ⊢; omega
            have l2 : 2 < ((((List.replicate (countByte w SOH) TagValue.zero).set 0 tv1).set 1 tv2).set 2 tv3).length := by simp at hi3 ⊢; omega
            exact ((h0.add _ 0 l0).add _ 1 l1).add _ 2 l2
          cases hl : parseLoop Fixes.cur d .main ((((List.replicate (countByte w SOH) TagValue.zero).set 0 tv1).set 1 tv2).set 2 tv3) 3
              { header := (((FieldMap.empty .header).add tv1.tag (.view 0 1)).add tv2.tag (.view 1 1)).add tv3.tag (.view 2 1),
                body := FieldMap.empty .normal, trailer := FieldMap.empty .trailer, bodyBytes := [], rawBytes := r3,
                trailerBytes := [], foundBody := false, foundTrailer := false, xmlDataLen := 0, xmlDataMsg := false } with
          | ok r => rw [hl] at hx; cases hx
          | err e => rw [hl] at hx; cases hx
          | fault y => exact parseLoop_nofault d _ .main _ 3 _ rfl hh trivial y hl


/-! ## range invariant of all sections; getters never fault on a parsed message -/

/-- every field of the map is a non-empty view inside the field array -/
def ViewsOK (fields : List TagValue) (fm : FieldMap) : Prop :=
  ∀ k f, alFind fm.lookup k = some f → ∃ s n, f = .view s n ∧ 1 ≤ n ∧ s + n ≤ fields.length

structure SecsOK (fields : List TagValue) (c : PCore) : Prop where
  h : HdrOK fields c.header
  b : ViewsOK fields c.body
  t : ViewsOK fields c.trailer

def ModeOK' (idx : Nat) : Mode → Prop
  | .main => True
  | .grp dmStart _ _ => dmStart < idx

theorem ViewsOK.set {fields : List TagValue} {fm : FieldMap} (h : ViewsOK fields fm) (i : Nat) (tv : TagValue) :
    ViewsOK (fields.set i tv) fm := by
  intro k f hf; obtain ⟨s, n, h1, h2, h3⟩ := h k f hf; exact ⟨s, n, h1, h2, by simpa using h3⟩

theorem ViewsOK.add {fields : List TagValue} {fm : FieldMap} (h : ViewsOK fields fm) (t : Tag) (s n : Nat) (h1 : 1 ≤ n)
    (h2 : s + n ≤ fields.length) : ViewsOK fields (fm.add t (.view s n)) := by
  intro k f hf
  simp only [FieldMap.add] at hf
  by_cases e : k = t
  · subst e; rw [alFind_insert_self] at hf; injection hf with hf; exact ⟨s, n, hf.symm, h1, h2⟩
  · rw [alFind_insert_other _ _ _ _ e] at hf; exact h k f hf

theorem ViewsOK.empty (fields : List TagValue) (o : OrdKind) : ViewsOK fields (FieldMap.empty o) := by
  intro k f hf; simp [FieldMap.empty, alFind] at hf

theorem SecsOK.set {fields : List TagValue} {c : PCore} (h : SecsOK fields c) (i : Nat) (tv : TagValue) : SecsOK (fields.set i tv) c :=
  ⟨h.h.set i tv, h.b.set i tv, h.t.set i tv⟩

theorem mainSwitch_secs (fx : Fixes) (d : Dicts) (fields : List TagValue) (idx : Nat) (tv : TagValue) (c : PCore)
    (h : SecsOK fields c) (hi : idx < fields.length) :
    SecsOK fields (mainSwitch fx d fields idx tv c).1 ∧ ∀ m, (mainSwitch fx d fields idx tv c).2 = some m → ModeOK' (idx + 1) m := by
  unfold mainSwitch
  split
  · exact ⟨⟨h.h.add _ _ hi, h.b, h.t⟩, fun m hm => by cases hm⟩
  · split
    · exact ⟨⟨h.h, h.b, h.t.add _ idx 1 (by omega) (by omega)⟩, fun m hm => by cases hm⟩
    · split
      · exact ⟨⟨h.h, h.b, h.t⟩, fun m hm => by injection hm with hm; subst hm; show idx < idx + 1; omega⟩
      · exact ⟨⟨h.h, h.b.add _ idx 1 (by omega) (by omega), h.t⟩, fun m hm => by cases hm⟩

theorem tailStep_secs (fields : List TagValue) (tv : TagValue) (c : PCore) (h : SecsOK fields c) :
    ∃ c2 b, tailStep fields tv c = .ok (c2, b) ∧ SecsOK fields c2 := by
  by_cases h10 : tv.tag = 10
  · exact ⟨c, true, by simp [tailStep, h10], h⟩
  · by_cases hfb : c.foundBody = true
    · by_cases h212 : tv.tag = 212
      · obtain ⟨v, hv⟩ := xmlLenOf_cases fields c.header h.h
        exact ⟨{ c with xmlDataLen := v }, false, by simp [tailStep, h10, hfb, h212, hv], ⟨h.h, h.b, h.t⟩⟩
      · exact ⟨c, false, by simp [tailStep, h10, hfb, h212], h⟩
    · by_cases h212 : tv.tag = 212
      · obtain ⟨v, hv⟩ := xmlLenOf_cases fields c.header h.h
        exact ⟨{ c with bodyBytes := c.rawBytes, xmlDataLen := v }, false, by simp [tailStep, h10, hfb, h212, hv], ⟨h.h, h.b, h.t⟩⟩
      · exact ⟨{ c with bodyBytes := c.rawBytes }, false, by simp [tailStep, h10, hfb, h212], ⟨h.h, h.b, h.t⟩⟩

theorem addDm_secs (fields : List TagValue) (dmStart idx : Nat) (c : PCore) (h : SecsOK fields c) (hd : dmStart < idx) (hi : idx < fields.length) :
    ∃ c1, addDm fields dmStart idx c = .ok c1 ∧ SecsOK fields c1 ∧ c1.rawBytes = c.rawBytes := by
  unfold addDm
  have hlt : dmStart < fields.length := by omega
  have : idxR fields dmStart = .ok (fields[dmStart]'hlt) := by simp [idxR, List.getElem?_eq_getElem hlt]
  rw [this]
  exact ⟨_, rfl, ⟨h.h, h.b.add _ dmStart (idx - dmStart) (by omega) (by omega), h.t⟩, rfl⟩


theorem SecsOK.withTrailerBytes {fields : List TagValue} {c : PCore} (h : SecsOK fields c) (tb : Bytes) :
    SecsOK fields { c with trailerBytes := tb } := ⟨h.h, h.b, h.t⟩

theorem grpSwitch_secs (d : Dicts) (fields : List TagValue) (idx : Nat) (tv : TagValue) (dmStart : Nat) (tags : List Tag)
    (gf : List DNode) (c : PCore) (hd : dmStart < idx) (hi : idx < fields.length) (h : SecsOK fields c) :
    ∃ c1 mo, grpSwitch Fixes.cur d fields idx tv dmStart tags gf c = .ok (c1, mo) ∧ SecsOK fields c1 ∧
      ∀ m, mo = some m → ModeOK' (idx + 1) m := by
  obtain ⟨cT1, hT1, sT1, _⟩ := addDm_secs fields dmStart idx c h hd hi
  obtain ⟨cB1, hB1, sB1, _⟩ := addDm_secs fields dmStart idx { c with trailerBytes := c.rawBytes } (h.withTrailerBytes _) hd hi
  have hB : SecsOK fields { c with trailerBytes := c.rawBytes } := h.withTrailerBytes _
  have mk : ∀ (ds : Nat) (tg : List Tag) (g : List DNode), ds ≤ idx → ∀ m, some (Mode.grp ds tg g) = some m → ModeOK' (idx + 1) m := by
    intro ds tg g hds m hm; injection hm with hm; subst hm; show ds < idx + 1; omega
  unfold grpSwitch
  simp only [Fixes.cur, if_true]
  split
  · split
    · exact ⟨_, _, rfl, hB, mk _ _ _ (by omega)⟩
    · exact ⟨_, _, rfl, hB, mk _ _ _ (by omega)⟩
  · split
    · simp only [hT1]
      exact ⟨_, _, rfl, ⟨sT1.h.add _ _ hi, sT1.b, sT1.t⟩, fun m hm => by cases hm⟩
    · split
      · simp only [hT1]
        exact ⟨_, _, rfl, ⟨sT1.h, sT1.b, sT1.t.add _ idx 1 (by omega) (by omega)⟩, fun m hm => by cases hm⟩
      · split
        · simp only [hB1]
          exact ⟨_, _, rfl, sB1, mk _ _ _ (by omega)⟩
        · split
          · split
            · exact ⟨_, _, rfl, hB, mk _ _ _ (by omega)⟩
            · exact ⟨_, _, rfl, hB, mk _ _ _ (by omega)⟩
          · simp only [hB1]
            exact ⟨_, _, rfl, ⟨sB1.h, sB1.b.add _ idx 1 (by omega) (by omega), sB1.t⟩, fun m hm => by cases hm⟩

/-- one iteration, with the range invariant of all three sections -/
inductive StepOutcome' (d : Dicts) (fields : List TagValue) (idx : Nat) (r : Res (List TagValue × PCore)) : Prop where
  | err (e : String) (h : r = .err e)
  | finish (fields' : List TagValue) (c' : PCore) (hh : SecsOK fields' c') (h : r = finishParse fields' c')
  | next (m' : Mode) (fields' : List TagValue) (c' : PCore) (hl : fields'.length = fields.length)
      (hh : SecsOK fields' c') (hm : ModeOK' (idx + 1) m') (h : r = parseLoop Fixes.cur d m' fields' (idx + 1) c')

theorem after_switch' (d : Dicts) (fields fields' : List TagValue) (idx : Nat) (tv : TagValue) (c1 : PCore)
    (hl : fields'.length = fields.length) (hh : SecsOK fields' c1) :
    StepOutcome' d fields idx
      (match tailStep fields' tv c1 with
       | .ok (c2, true) => finishParse fields' c2
       | .ok (c2, false) => parseLoop Fixes.cur d .main fields' (idx + 1) c2
       | .err e => .err e
       | .fault w => .fault w) := by
  obtain ⟨c2, b, ht, hc2⟩ := tailStep_secs fields' tv c1 hh
  rw [ht]
  cases b with
  | true => exact .finish fields' c2 hc2 rfl
  | false => exact .next .main fields' c2 hl hc2 trivial rfl

theorem parseLoop_step' (d : Dicts) (mode : Mode) (fields : List TagValue) (idx : Nat) (c : PCore)
    (hh : SecsOK fields c) (hm : ModeOK' idx mode) (hidx : idx < fields.length) :
    StepOutcome' d fields idx (parseLoop Fixes.cur d mode fields idx c) := by
  rw [parseLoop]
  simp only [hidx, dite_true]
  cases mode with
  | main =>
    simp only []
    have hex : ∀ (ex : Bytes × Res TagValue) (c0 : PCore), NoFault ex.2 → SecsOK fields c0 →
        StepOutcome' d fields idx
          (match ex.2 with
           | .err e => .err e
           | .fault w => .fault w
           | .ok tv =>
             match mainSwitch Fixes.cur d (fields.set idx tv) idx tv { c0 with rawBytes := ex.1 } with
             | (c1, some m) => parseLoop Fixes.cur d m (fields.set idx tv) (idx + 1) c1
             | (c1, none) =>
               match tailStep (fields.set idx tv) tv c1 with
               | .ok (c2, true) => finishParse (fields.set idx tv) c2
               | .ok (c2, false) => parseLoop Fixes.cur d .main (fields.set idx tv) (idx + 1) c2
               | .err e => .err e
               | .fault w => .fault w) := by
      intro ex c0 hnf hc0
      cases hr : ex.2 with
      | err e => exact .err e rfl
      | fault w => exact absurd hr (hnf w)
      | ok tv =>
        simp only []
        have hl : (fields.set idx tv).length = fields.length := by simp
        have hh' : SecsOK (fields.set idx tv) ({ c0 with rawBytes := ex.1 } : PCore) := ⟨hc0.h.set idx tv, hc0.b.set idx tv, hc0.t.set idx tv⟩
        obtain ⟨h1, h2⟩ := mainSwitch_secs Fixes.cur d (fields.set idx tv) idx tv { c0 with rawBytes := ex.1 } hh' (by rw [hl]; exact hidx)
        cases hms : mainSwitch Fixes.cur d (fields.set idx tv) idx tv { c0 with rawBytes := ex.1 } with
        | mk c1 mo =>
          rw [hms] at h1 h2
          cases mo with
          | some m => exact .next m _ c1 hl h1 (h2 m rfl) rfl
          | none => exact after_switch' d fields _ idx tv c1 hl h1
    by_cases hx : c.xmlDataLen > 0
    · simp only [hx, if_true]
      exact hex (extractXMLDataField Fixes.cur c.rawBytes c.xmlDataLen) { c with xmlDataLen := 0, xmlDataMsg := true }
        (extractXML_nofault _ _ hx) ⟨hh.h, hh.b, hh.t⟩
    · simp only [hx, if_false]
      exact hex (extractField c.rawBytes) c (extractField_nofault _) hh
  | grp dmStart tags gf =>
    simp only []
    cases hr : (extractField c.rawBytes).2 with
    | fault w => exact absurd hr (extractField_nofault _ w)
    | err e =>
      simp only []
      have hl : (fields.set idx fields[idx]).length = fields.length := by simp
      obtain ⟨c1, mo, hg, h1, h2⟩ := grpSwitch_secs d (fields.set idx fields[idx]) idx fields[idx] dmStart tags gf
        { c with rawBytes := (extractField c.rawBytes).1 } hm (by rw [hl]; exact hidx) ⟨hh.h.set idx _, hh.b.set idx _, hh.t.set idx _⟩
      rw [hg]
      cases mo with
      | some m => exact .next m _ c1 hl h1 (h2 m rfl) rfl
      | none => exact after_switch' d fields _ idx _ c1 hl h1
    | ok tv =>
      simp only []
      have hl : (fields.set idx tv).length = fields.length := by simp
      obtain ⟨c1, mo, hg, h1, h2⟩ := grpSwitch_secs d (fields.set idx tv) idx tv dmStart tags gf
        { c with rawBytes := (extractField c.rawBytes).1 } hm (by rw [hl]; exact hidx) ⟨hh.h.set idx _, hh.b.set idx _, hh.t.set idx _⟩
      rw [hg]
      cases mo with
      | some m => exact .next m _ c1 hl h1 (h2 m rfl) rfl
      | none => exact after_switch' d fields _ idx _ c1 hl h1

theorem addDm_eq' (fields : List TagValue) (dmStart idx : Nat) (c : PCore) (h : dmStart < fields.length) :
    addDm fields dmStart idx c = .ok { c with body := c.body.add (fields[dmStart]).tag (.view dmStart (idx - dmStart)) } := by
  unfold addDm
  simp [idxR, List.getElem?_eq_getElem h]

theorem finishParse_secs (fields : List TagValue) (c : PCore) (h : SecsOK fields c) (r : List TagValue × PCore)
    (hr : finishParse fields c = .ok r) : SecsOK r.1 r.2 := by
  simp only [finishParse] at hr
  split at hr
  · split at hr
    · cases hr
    · injection hr with hr; subst hr
      obtain ⟨k1, _, k3, k4⟩ := finishAdjust_keeps c
      exact ⟨by rw [k1]; exact h.h, by rw [k3]; exact h.b, by rw [k4]; exact h.t⟩
  · cases hr
  · cases hr

theorem parseLoop_secs (d : Dicts) : ∀ (n : Nat) (mode : Mode) (fields : List TagValue) (idx : Nat) (c : PCore),
    fields.length - idx = n → idx ≤ fields.length → SecsOK fields c → ModeOK' idx mode → ∀ r, parseLoop Fixes.cur d mode fields idx c = .ok r → SecsOK r.1 r.2 := by
  intro n
  induction n with
  | zero =>
    intro mode fields idx c hn hle hh hm r hr
    have : ¬ idx < fields.length := by omega
    rw [parseLoop] at hr
    simp only [this, dite_false, outOfFields, Fixes.cur, if_true] at hr
    cases mode with
    | main => cases hr
    | grp dmStart tags gf =>
      simp only [] at hr
      have hdm : dmStart < idx := hm
      by_cases hlt : dmStart < fields.length
      · rw [addDm_eq' fields dmStart idx c hlt] at hr
        simp only [] at hr
        split at hr
        · split at hr
          · exact finishParse_secs fields ({ c with body := c.body.add (fields[dmStart]).tag (.view dmStart (idx - dmStart)) } : PCore)
              ⟨hh.h, hh.b.add _ dmStart (idx - dmStart) (by omega) (by omega), hh.t⟩ r hr
          · cases hr
        · cases hr
      · unfold addDm at hr
        simp [idxR, List.getElem?_eq_none_iff.2 (by omega : fields.length ≤ dmStart)] at hr
  | succ n ih =>
    intro mode fields idx c hn _ hh hm r hr
    have hidx : idx < fields.length := by omega
    cases parseLoop_step' d mode fields idx c hh hm hidx with
    | err e h => rw [h] at hr; cases hr
    | finish fields' c' hh' h => rw [h] at hr; exact finishParse_secs fields' c' hh' r hr
    | next m' fields' c' hl hh' hm' h => rw [h] at hr; exact ih m' fields' (idx + 1) c' (by omega) (by omega) hh' hm' r hr


theorem ViewsOK.ofHdr {fields : List TagValue} {fm : FieldMap} (h : HdrOK fields fm) : ViewsOK fields fm := by
  intro k f hf; obtain ⟨s, h1, h2⟩ := h k f hf; exact ⟨s, 1, h1, by omega, by omega⟩

/-- the sections of every successfully parsed message hold only non-empty views inside `Message.fields` -/
theorem parseMessage_views (d : Dicts) (w : Bytes) (m : Message) (hm : parseMessage Fixes.cur d w = .ok m) :
    ViewsOK m.fields m.header ∧ ViewsOK m.fields m.body ∧ ViewsOK m.fields m.trailer := by
  simp only [parseMessage] at hm
  split at hm
  · cases hm
  · rcases extractSpecific_cases 8 (List.replicate (countByte w SOH) TagValue.zero) 0 w (FieldMap.empty .header) with ⟨e, h1⟩ | ⟨tv1, r1, hi1, h1⟩
    · rw [h1] at hm; cases hm
    · rw [h1] at hm
      simp only [] at hm
      rcases extractSpecific_cases 9 ((List.replicate (countByte w SOH) TagValue.zero).set 0 tv1) 1 r1 ((FieldMap.empty .header).add tv1.tag (.view 0 1)) with ⟨e, h2⟩ | ⟨tv2, r2, hi2, h2⟩
      · rw [h2] at hm; cases hm
      · rw [h2] at hm
        simp only [] at hm
        rcases extractSpecific_cases 35 (((List.replicate (countByte w SOH) TagValue.zero).set 0 tv1).set 1 tv2) 2 r2
            (((FieldMap.empty .header).add tv1.tag (.view 0 1)).add tv2.tag (.view 1 1)) with ⟨e, h3⟩ | ⟨tv3, r3, hi3, h3⟩
        · rw [h3] at hm; cases hm
        · rw [h3] at hm
          simp only [] at hm
          have hh : HdrOK ((((List.replicate (countByte w SOH) TagValue.zero).set 0 tv1).set 1 tv2).set 2 tv3)
              ((((FieldMap.empty .header).add tv1.tag (.view 0 1)).add tv2.tag (.view 1 1)).add tv3.tag (.view 2 1)) := by
            have h0 := HdrOK.empty ((((List.replicate (countByte w SOH) TagValue.zero).set 0 tv1).set 1 tv2).set 2 tv3) .header
            have l0 : 0 < ((((List.replicate (countByte w SOH) TagValue.zero).set 0 tv1).set 1 tv2).set 2 tv3).length := by simp at hi1 ⊢; omega
            have l1 : 1 < ((((List.replicate (countByte w SOH) TagValue.zero).set 0 tv1).set 1 tv2).set 2 tv3).length := by simp at hi2 ⊢; omega
            have l2 : 2 < ((((List.replicate (countByte w SOH) TagValue.zero).set 0 tv1).set 1 tv2).set 2 tv3).length := by simp at hi3 ⊢; omega
            exact ((h0.add _ 0 l0).add _ 1 l1).add _ 2 l2
          cases hl : parseLoop Fixes.cur d .main ((((List.replicate (countByte w SOH) TagValue.zero).set 0 tv1).set 1 tv2).set 2 tv3) 3
              { header := (((FieldMap.empty .header).add tv1.tag (.view 0 1)).add tv2.tag (.view 1 1)).add tv3.tag (.view 2 1),
                body := FieldMap.empty .normal, trailer := FieldMap.empty .trailer, bodyBytes := [], rawBytes := r3,
                trailerBytes := [], foundBody := false, foundTrailer := false, xmlDataLen := 0, xmlDataMsg := false } with
          | err e => rw [hl] at hm; cases hm
          | fault y => rw [hl] at hm; cases hm
          | ok r =>
            rw [hl] at hm
            obtain ⟨fs, c'⟩ := r
            injection hm with hm; subst hm
            have := parseLoop_secs d _ .main _ 3 _ rfl (by simp at hi3 ⊢; omega) ⟨hh, ViewsOK.empty _ _, ViewsOK.empty _ _⟩ trivial (fs, c') hl
            exact ⟨ViewsOK.ofHdr this.h, this.b, this.t⟩

/-! ### the getters never fault on such maps -/

theorem head_view_ok (fields : List TagValue) (s n : Nat) (h1 : 1 ≤ n) (h2 : s + n ≤ fields.length) :
    ∃ tv, Field.head fields (.view s n) = .ok tv := by
  have hlt : s < fields.length := by omega
  have hne : ((fields.drop s).take n)[0]? = some (fields[s]'hlt) := by
    rw [List.getElem?_take]; simp [List.getElem?_eq_getElem hlt]; omega
  exact ⟨fields[s]'hlt, by simp [Field.head, Field.items, idxR, hne]⟩

theorem getBytes_nofault {fields : List TagValue} {fm : FieldMap} (h : ViewsOK fields fm) (t : Tag) : NoFault (fm.getBytes fields t) := by
  intro w hw
  unfold FieldMap.getBytes at hw
  cases hf : alFind fm.lookup t with
  | none => simp [hf] at hw
  | some f =>
    obtain ⟨s, n, hs, h1, h2⟩ := h t f hf
    subst hs
    obtain ⟨tv, htv⟩ := head_view_ok fields s n h1 h2
    simp [hf, htv] at hw

theorem getInt_nofault' {fields : List TagValue} {fm : FieldMap} (h : ViewsOK fields fm) (t : Tag) : NoFault (fm.getInt fields t) := by
  intro w hw
  unfold FieldMap.getInt at hw
  cases hb : fm.getBytes fields t with
  | ok b =>
    rw [hb] at hw; simp only [] at hw
    cases ha : atoi b with
    | ok v => rw [ha] at hw; cases hw
    | err e => rw [ha] at hw; cases hw
    | fault x => exact atoi_nofault _ x ha
  | err e => rw [hb] at hw; cases hw
  | fault x => exact getBytes_nofault h t x hb

theorem findItem_nil_none (t : Tag) : findItem [] t = none := rfl

theorem read_nofault : ∀ (fuel : Nat),
    (∀ (tmpl : List Item) (tv : List TagValue) (done : List GEntry) (cur : Option GEntry), NoFault (readLoop fuel tmpl tv done cur)) ∧
    (∀ (tmpl : List Item) (tv : List TagValue), tv ≠ [] → NoFault (readGroup fuel tmpl tv)) := by
  intro fuel
  induction fuel with
  | zero => exact ⟨fun _ _ _ _ w hw => by simp [readLoop] at hw, fun _ _ _ w hw => by simp [readGroup] at hw⟩
  | succ fuel ih =>
    obtain ⟨ihL, ihG⟩ := ih
    constructor
    · intro tmpl tv done cur w hw
      cases tv with
      | nil => simp [readLoop] at hw
      | cons t0 rest =>
        simp only [readLoop] at hw
        cases hf : findItem tmpl t0.tag with
        | none => simp [hf] at hw
        | some it =>
          simp only [hf] at hw
          cases tmpl with
          | nil => simp [findItem] at hf
          | cons dd tr =>
            cases it with
            | elem tg =>
              simp only [] at hw
              split at hw
              · exact ihL _ _ _ _ w hw
              · exact ihL _ _ _ _ w hw
            | group tg gtm =>
              simp only [] at hw
              cases hg : readGroup fuel gtm (t0 :: rest) with
              | ok r =>
                rw [hg] at hw
                obtain ⟨tv', gs⟩ := r
                simp only [] at hw
                split at hw
                · exact ihL _ _ _ _ w hw
                · exact ihL _ _ _ _ w hw
              | err e => rw [hg] at hw; cases hw
              | fault x => exact ihG gtm (t0 :: rest) (by simp) x hg
    · intro tmpl tv hne w hw
      cases tv with
      | nil => exact absurd rfl hne
      | cons t0 rest =>
        simp only [readGroup] at hw
        cases ha : atoi t0.value with
        | err e => rw [ha] at hw; cases hw
        | fault x => exact atoi_nofault _ x ha
        | ok n =>
          rw [ha] at hw
          simp only [] at hw
          split at hw
          · cases hw
          · cases hl : readLoop fuel tmpl rest [] none with
            | ok r =>
              rw [hl] at hw
              obtain ⟨tv', gs⟩ := r
              simp only [] at hw
              split at hw <;> cases hw
            | err e => rw [hl] at hw; cases hw
            | fault x => exact ihL _ _ _ _ x hl

theorem getGroup_nofault {fields : List TagValue} {fm : FieldMap} (h : ViewsOK fields fm) (t : Tag) (f : Field)
    (hf : alFind fm.lookup t = some f) (tmpl : List Item) : NoFault (getGroup tmpl (f.full fields)) := by
  obtain ⟨s, n, hs, h1, h2⟩ := h t f hf
  subst hs
  have hne : (Field.view s n).full fields ≠ [] := by
    simp only [Field.full]
    intro e
    have := congrArg List.length e
    simp at this; omega
  intro w hw
  unfold getGroup at hw
  cases hg : readGroup (readFuel ((Field.view s n).full fields)) tmpl ((Field.view s n).full fields) with
  | ok r => rw [hg] at hw; cases hw
  | err e => rw [hg] at hw; cases hw
  | fault x => exact (read_nofault _).2 tmpl _ hne x hg


end Qfx
