/-
  Fidelity of the parse for EVERY well-formed wire message under ANY dictionaries: a loop invariant that does not look at what the
  dictionaries make of the fields (`WInv`, `wire_step`, `wire_loop`, `parse_wire_anydict`).  No condition on the dictionaries: even when a repeating
  group lists CheckSum, `parseGroup` swallows the field, runs out of fields, and `doParsing` ends the loop on the field parsed last.
-/
import Qfx.Lemmas.CodecTotal
import Qfx.Lemmas.CodecDictStack
namespace Qfx
open Qfx.Spec

variable {d : Dicts}

/-- what the loop keeps while it walks a wire message without XMLDataLen and without a further BodyLength field -/
structure WInv (fields : List TagValue) (c : PCore) : Prop where
  secs : SecsOK fields c
  xlen : c.xmlDataLen = 0
  xmsg : c.xmlDataMsg = false
  nine : alFind c.header.lookup 9 = some (.view 1 1)

theorem addDm_eq (fields : List TagValue) (dmStart idx : Nat) (c : PCore) (h : dmStart < fields.length) :
    addDm fields dmStart idx c = .ok { c with body := c.body.add (fields[dmStart]).tag (.view dmStart (idx - dmStart)) } := by
  unfold addDm
  simp [idxR, List.getElem?_eq_getElem h]

theorem mainSwitch_keeps (fx : Fixes) (fields : List TagValue) (idx : Nat) (tv : TagValue) (c : PCore) (h9 : tv.tag ≠ 9) :
    (mainSwitch fx d fields idx tv c).1.rawBytes = c.rawBytes ∧ (mainSwitch fx d fields idx tv c).1.xmlDataLen = c.xmlDataLen ∧
    (mainSwitch fx d fields idx tv c).1.xmlDataMsg = c.xmlDataMsg ∧
    alFind (mainSwitch fx d fields idx tv c).1.header.lookup 9 = alFind c.header.lookup 9 := by
  unfold mainSwitch
  split
  · exact ⟨rfl, rfl, rfl, by simp only [FieldMap.add]; exact alFind_insert_other _ _ _ _ (Ne.symm h9)⟩
  · split
    · exact ⟨rfl, rfl, rfl, rfl⟩
    · split <;> exact ⟨rfl, rfl, rfl, rfl⟩

theorem grpSwitch_keeps (fields : List TagValue) (idx : Nat) (tv : TagValue) (dmStart : Nat) (tags : List Tag) (gf : List DNode)
    (c c1 : PCore) (mo : Option Mode) (hd : dmStart < fields.length) (h9 : tv.tag ≠ 9)
    (h : grpSwitch Fixes.cur d fields idx tv dmStart tags gf c = .ok (c1, mo)) :
    c1.rawBytes = c.rawBytes ∧ c1.xmlDataLen = c.xmlDataLen ∧ c1.xmlDataMsg = c.xmlDataMsg ∧
    alFind c1.header.lookup 9 = alFind c.header.lookup 9 := by
  unfold grpSwitch at h
  simp only [Fixes.cur, if_true, addDm_eq _ _ _ _ hd] at h
  have hk : alFind (c.header.add tv.tag (.view idx 1)).lookup 9 = alFind c.header.lookup 9 := by
    simp only [FieldMap.add]; exact alFind_insert_other _ _ _ _ (Ne.symm h9)
  repeat' split at h
  all_goals (first
    | (injection h with h; injection h with h1 h2; subst h1; exact ⟨rfl, rfl, rfl, rfl⟩)
    | (injection h with h; injection h with h1 h2; subst h1; exact ⟨rfl, rfl, rfl, hk⟩)
    | cases h)


/-- `parseGroup` only ever continues inside `parseGroup` -/
theorem grpSwitch_some_grp (fields : List TagValue) (idx : Nat) (tv : TagValue) (dmStart : Nat) (tags : List Tag)
    (gf : List DNode) (c c1 : PCore) (m : Mode) (hd : dmStart < fields.length)
    (hs : grpSwitch Fixes.cur d fields idx tv dmStart tags gf c = .ok (c1, some m)) : ∃ j t g, m = .grp j t g := by
  unfold grpSwitch at hs
  simp only [Fixes.cur, if_true, addDm_eq _ _ _ _ hd] at hs
  repeat' split at hs
  all_goals (first
    | (injection hs with hs; injection hs with _ h2; injection h2 with h2; subst h2; exact ⟨_, _, _, rfl⟩)
    | (injection hs with hs; injection hs with _ h2; cases h2)
    | cases hs)

theorem WInv.ndTail {fields : List TagValue} {c : PCore} (h : WInv fields c) : WInv fields (ndTail c) := by
  obtain ⟨k1, k2, k3, k4, k5, k6⟩ := ndTail_raw c
  exact ⟨⟨by rw [k4]; exact h.secs.h, by rw [k5]; exact h.secs.b, by rw [k6]; exact h.secs.t⟩, by rw [k2]; exact h.xlen,
    by rw [k3]; exact h.xmsg, by rw [k4]; exact h.nine⟩

/-- ONE ITERATION on a wire field, any mode, any dictionaries: the field is stored and the loop goes on; CheckSum ends it — or, when
    the dictionary lists CheckSum inside a repeating group, is swallowed by `parseGroup`, which then runs out of fields -/
theorem wire_step (mode : Mode) (fields : List TagValue) (idx : Nat) (c : PCore) (tv : TagValue) (raw' : Bytes)
    (hinv : WInv fields c) (hm : ModeOK' idx mode) (hidx : idx < fields.length)
    (hex : extractField c.rawBytes = (raw', .ok tv)) (h212 : tv.tag ≠ 212) (h9 : tv.tag ≠ 9) :
    (tv.tag = 10 →
      (∃ c', parseLoop Fixes.cur d mode fields idx c = finishParse (fields.set idx tv) c' ∧
        alFind c'.header.lookup 9 = some (.view 1 1) ∧ c'.xmlDataMsg = false) ∨
      (∃ j t g c', parseLoop Fixes.cur d mode fields idx c = parseLoop Fixes.cur d (.grp j t g) (fields.set idx tv) (idx + 1) c' ∧
        WInv (fields.set idx tv) c' ∧ j < idx + 1)) ∧
    (tv.tag ≠ 10 → ∃ m' c', parseLoop Fixes.cur d mode fields idx c = parseLoop Fixes.cur d m' (fields.set idx tv) (idx + 1) c' ∧
        WInv (fields.set idx tv) c' ∧ ModeOK' (idx + 1) m' ∧ c'.rawBytes = raw') := by
  have hl : (fields.set idx tv).length = fields.length := by simp
  have hsec0 : SecsOK (fields.set idx tv) ({ c with rawBytes := raw' } : PCore) :=
    ⟨hinv.secs.h.set idx tv, hinv.secs.b.set idx tv, hinv.secs.t.set idx tv⟩
  have after : ∀ c1 : PCore, SecsOK (fields.set idx tv) c1 → c1.rawBytes = raw' → c1.xmlDataLen = 0 → c1.xmlDataMsg = false →
      alFind c1.header.lookup 9 = some (.view 1 1) →
      (tv.tag = 10 → tailStep (fields.set idx tv) tv c1 = .ok (c1, true)) ∧
      (tv.tag ≠ 10 → tailStep (fields.set idx tv) tv c1 = .ok (ndTail c1, false) ∧ WInv (fields.set idx tv) (ndTail c1) ∧
        (ndTail c1).rawBytes = raw') := by
    intro c1 hs hr hx hxm hn
    refine ⟨fun h10 => tailStep_10 _ _ _ h10, fun h10 => ⟨tailStep_nd _ _ _ h10 h212, (WInv.mk hs hx hxm hn).ndTail, ?_⟩⟩
    rw [(ndTail_raw c1).1]; exact hr
  rw [parseLoop]
  simp only [hidx, dite_true]
  cases mode with
  | main =>
    have hx : ¬ (c.xmlDataLen > 0) := by rw [hinv.xlen]; decide
    simp only [hx, if_false, hex]
    obtain ⟨k1, k2, k3, k4⟩ := mainSwitch_keeps (d := d) Fixes.cur (fields.set idx tv) idx tv { c with rawBytes := raw' } h9
    obtain ⟨s1, s2⟩ := mainSwitch_secs Fixes.cur d (fields.set idx tv) idx tv { c with rawBytes := raw' } hsec0 (by rw [hl]; exact hidx)
    cases hms : mainSwitch Fixes.cur d (fields.set idx tv) idx tv { c with rawBytes := raw' } with
    | mk c1 mo =>
      rw [hms] at k1 k2 k3 k4 s1 s2
      simp only at k1 k2 k3 k4 s1 s2
      cases mo with
      | some m =>
        have hnot10 : tv.tag ≠ 10 := by
          intro h10
          have ht : isTrailerField d tv.tag = true := by rw [h10]; simp [isTrailerField, Tag.isTrailer, staticTrailerTags]
          unfold mainSwitch at hms
          by_cases hh : isHeaderField d tv.tag = true
          · simp [hh] at hms
          · simp [hh, ht] at hms
        refine ⟨fun h10 => absurd h10 hnot10, fun _ => ⟨m, c1, rfl, ⟨s1, by rw [k2]; exact hinv.xlen, by rw [k3]; exact hinv.xmsg,
          by rw [k4]; exact hinv.nine⟩, s2 m rfl, k1⟩⟩
      | none =>
        obtain ⟨a1, a2⟩ := after c1 s1 k1 (by rw [k2]; exact hinv.xlen) (by rw [k3]; exact hinv.xmsg) (by rw [k4]; exact hinv.nine)
        refine ⟨fun h10 => Or.inl ?_, fun h10 => ?_⟩
        · simp only [a1 h10]
          exact ⟨c1, rfl, by rw [k4]; exact hinv.nine, by rw [k3]; exact hinv.xmsg⟩
        · obtain ⟨b1, b2, b3⟩ := a2 h10
          simp only [b1]
          exact ⟨.main, ndTail c1, rfl, b2, trivial, b3⟩
  | grp dmStart tags gf =>
    have hdm : dmStart < idx := hm
    simp only [hex]
    obtain ⟨c1, mo, hg, s1, s2⟩ := grpSwitch_secs d (fields.set idx tv) idx tv dmStart tags gf { c with rawBytes := raw' } hdm
      (by rw [hl]; exact hidx) hsec0
    have hdl : dmStart < (fields.set idx tv).length := by rw [hl]; omega
    obtain ⟨k1, k2, k3, k4⟩ := grpSwitch_keeps (d := d) (fields.set idx tv) idx tv dmStart tags gf { c with rawBytes := raw' } c1 mo
      hdl h9 hg
    simp only at k1 k2 k3 k4
    rw [hg]
    cases mo with
    | some m =>
      have hinv1 : WInv (fields.set idx tv) c1 := ⟨s1, by rw [k2]; exact hinv.xlen, by rw [k3]; exact hinv.xmsg, by rw [k4]; exact hinv.nine⟩
      refine ⟨fun _ => Or.inr ?_, fun _ => ⟨m, c1, rfl, hinv1, s2 m rfl, k1⟩⟩
      obtain ⟨j, t, g, e⟩ := grpSwitch_some_grp (d := d) _ idx tv dmStart tags gf _ c1 m hdl hg
      subst e
      exact ⟨j, t, g, c1, rfl, hinv1, s2 _ rfl⟩
    | none =>
      obtain ⟨a1, a2⟩ := after c1 s1 k1 (by rw [k2]; exact hinv.xlen) (by rw [k3]; exact hinv.xmsg) (by rw [k4]; exact hinv.nine)
      refine ⟨fun h10 => Or.inl ?_, fun h10 => ?_⟩
      · simp only [a1 h10]
        exact ⟨c1, rfl, by rw [k4]; exact hinv.nine, by rw [k3]; exact hinv.xmsg⟩
      · obtain ⟨b1, b2, b3⟩ := a2 h10
        simp only [b1]
        exact ⟨.main, ndTail c1, rfl, b2, trivial, b3⟩

/-- `parseGroup` has swallowed CheckSum as a group member and finds no field left: the group is added to the body, and `doParsing`, looking
    at the field parsed last, ends the loop -/
theorem grp_out_of_fields (fields : List TagValue) (idx j : Nat) (t : List Tag) (g : List DNode) (c : PCore) (tv : TagValue)
    (hlen : idx + 1 = fields.length) (hj : j < idx + 1) (hlast : fields[idx]? = some tv) (h10 : tv.tag = 10) :
    parseLoop Fixes.cur d (.grp j t g) fields (idx + 1) c =
      finishParse fields { c with body := c.body.add (fields[j]'(by omega)).tag (.view j (idx + 1 - j)) } := by
  rw [parseLoop]
  have : ¬ (idx + 1 < fields.length) := by omega
  simp only [this, dite_false, outOfFields, Fixes.cur, if_true]
  rw [addDm_eq fields j (idx + 1) c (by omega)]
  simp only [Nat.add_sub_cancel, hlast, h10, if_true]

theorem wire_loop (t10 : TagValue) (hw10 : IsWire t10) (h10 : t10.tag = 10) (tl : Bytes) :
    ∀ (rest : List TagValue) (mode : Mode) (fields : List TagValue) (idx : Nat) (c : PCore),
    (∀ tv ∈ rest, IsWire tv ∧ tv.tag ≠ 10 ∧ tv.tag ≠ 212 ∧ tv.tag ≠ 9) → WInv fields c → ModeOK' idx mode →
    c.rawBytes = wireOf rest ++ (t10.bytes ++ tl) → idx + rest.length + 1 = fields.length →
    ∃ c', parseLoop Fixes.cur d mode fields idx c = finishParse (setRange fields idx (rest ++ [t10])) c' ∧
      alFind c'.header.lookup 9 = some (.view 1 1) ∧ c'.xmlDataMsg = false := by
  intro rest
  induction rest with
  | nil =>
    intro mode fields idx c _ hinv hm hraw hlen
    have hex : extractField c.rawBytes = (tl, .ok t10) := by
      rw [hraw]; simpa [wireOf] using extractField_wire t10 tl hw10
    have hidx : idx < fields.length := by simp at hlen; omega
    rcases (wire_step (d := d) mode fields idx c t10 tl hinv hm hidx hex (by rw [h10]; decide) (by rw [h10]; decide)).1 h10 with
      ⟨c', h1, h2, h3⟩ | ⟨j, t, g, c', h1, hinv', hj⟩
    · exact ⟨c', by simpa [setRange] using h1, h2, h3⟩
    · have e1 := grp_out_of_fields (d := d) (fields.set idx t10) idx j t g c' t10 (by simp at hlen ⊢; omega) hj
        (by simp [hidx]) h10
      rw [h1, e1]
      have hjl : j < (fields.set idx t10).length := by simp; omega
      refine ⟨{ c' with body := c'.body.add ((fields.set idx t10)[j]'hjl).tag (.view j (idx + 1 - j)) }, ?_, hinv'.nine, hinv'.xmsg⟩
      simp only [List.nil_append, setRange]
  | cons tv r ih =>
    intro mode fields idx c hall hinv hm hraw hlen
    obtain ⟨hw, hn10, hn212, hn9⟩ := hall tv (by simp)
    have hex : extractField c.rawBytes = (wireOf r ++ (t10.bytes ++ tl), .ok tv) := by
      rw [hraw]
      have : wireOf (tv :: r) ++ (t10.bytes ++ tl) = tv.bytes ++ (wireOf r ++ (t10.bytes ++ tl)) := by simp [wireOf, List.append_assoc]
      rw [this]; exact extractField_wire tv _ hw
    obtain ⟨m', c1, h1, hinv1, hm1, hraw1⟩ := (wire_step (d := d) mode fields idx c tv _ hinv hm
      (by simp at hlen; omega) hex hn212 hn9).2 hn10
    obtain ⟨c', h2, h3, h4⟩ := ih m' (fields.set idx tv) (idx + 1) c1 (fun x hx => hall x (by simp [hx])) hinv1 hm1 hraw1
      (by simp at hlen ⊢; omega)
    refine ⟨c', ?_, h3, h4⟩
    rw [h1, h2]
    simp only [List.cons_append, setRange]

/-- EVERY WELL-FORMED WIRE MESSAGE PARSES FAITHFULLY UNDER ANY DICTIONARIES WHATSOEVER (none, application, transport + application;
    repeating groups of any depth and adjacency, custom header/trailer tags, even a dictionary that lists CheckSum inside a group) -/
theorem parse_wire_anydict (t8 t9 t35 : TagValue) (pre : List TagValue) (t10 : TagValue)
    (hw : WireMsg t8 t9 t35 pre t10)
    (hbl : atoi t9.value = .ok ((fieldsLength (t8 :: t9 :: t35 :: (pre ++ [t10])) : Nat) : Int)) :
    ∃ c', parseMessage Fixes.cur d (wireOf (t8 :: t9 :: t35 :: (pre ++ [t10]))) =
      .ok (msgOf (wireOf (t8 :: t9 :: t35 :: (pre ++ [t10]))) (t8 :: t9 :: t35 :: (pre ++ [t10])) c') := by
  have hrestW : ∀ tv ∈ pre ++ [t10], IsWire tv := by
    intro tv htv
    simp only [List.mem_append, List.mem_singleton] at htv
    rcases htv with h | e
    · exact (hw.wpre tv h).1
    · subst e; exact hw.w10
  rw [parseMessage_lead Fixes.cur t8 t9 t35 _ hw.w8 hw.w9 hw.w35 hrestW hw.tag8 hw.tag9 hw.tag35]
  have hwire : wireOf (pre ++ [t10]) = wireOf pre ++ (t10.bytes ++ []) := by simp [wireOf]
  rw [hwire]
  have hinv0 : WInv ([t8, t9, t35] ++ List.replicate (pre ++ [t10]).length TagValue.zero) (ndInit t8 t9 t35 (wireOf pre ++ (t10.bytes ++ []))) := by
    refine ⟨⟨?_, ?_, ?_⟩, rfl, rfl, ?_⟩
    · intro k f hf
      simp only [ndInit, FieldMap.add, FieldMap.empty] at hf
      by_cases e35 : k = t35.tag
      · subst e35; rw [alFind_insert_self] at hf; injection hf with hf; exact ⟨2, hf.symm, by simp⟩
      · rw [alFind_insert_other _ _ _ _ e35] at hf
        by_cases e9 : k = t9.tag
        · subst e9; rw [alFind_insert_self] at hf; injection hf with hf; exact ⟨1, hf.symm, by simp⟩
        · rw [alFind_insert_other _ _ _ _ e9] at hf
          by_cases e8 : k = t8.tag
          · subst e8; rw [alFind_insert_self] at hf; injection hf with hf; exact ⟨0, hf.symm, by simp⟩
          · rw [alFind_insert_other _ _ _ _ e8] at hf; simp [alFind] at hf
    · intro k f hf; simp [ndInit, FieldMap.empty, alFind] at hf
    · intro k f hf; simp [ndInit, FieldMap.empty, alFind] at hf
    · simp [ndInit, FieldMap.add, FieldMap.empty, alInsert, alFind, hw.tag8, hw.tag9, hw.tag35]
  obtain ⟨c', h1, h2, h3⟩ := wire_loop (d := d) t10 hw.w10 hw.tag10 [] pre .main _ 3 _
    (fun tv h => ⟨(hw.wpre tv h).1, (hw.wpre tv h).2.1, (hw.wpre tv h).2.2, hw.single9 tv h⟩) hinv0 trivial rfl (by simp; omega)
  rw [h1]
  have hsr := setRange_replicate TagValue.zero (pre ++ [t10]) [t8, t9, t35]
  simp only [List.length_cons, List.length_nil] at hsr
  rw [hsr]
  have hF : [t8, t9, t35] ++ (pre ++ [t10]) = t8 :: t9 :: t35 :: (pre ++ [t10]) := rfl
  rw [hF, finish_ok _ c' t9 h2 (by simp) hbl h3]
  exact ⟨_, rfl⟩

end Qfx
