import Qfx.Lemmas.TsShape
namespace Qfx
open Qfx.Spec
set_option linter.unusedSimpArgs false

theorem ts_rw_17 (b : Bytes) (h : b.length = 17) (t : Ts) (p : Prec) (hr : readTs b = .ok (t, p)) : writeTs p t = b := by
  obtain ⟨a0, a1, a2, a3, a4, a5, a6, a7, a8, a9, a10, a11, a12, a13, a14, a15, a16, rfl⟩ := list_len_17 b h
  simp [readTs, readTsWith, precOfLen, fixedNum, Prec.fracDigits] at hr
  repeat' split at hr
  all_goals (try (simp at hr; done))
  all_goals (try (cases hr; done))
  all_goals (
    simp only [Option.ite_none_right_eq_some, Option.some.injEq, isDigit_iff, digitsVal, List.foldl_cons, List.foldl_nil] at *
    cases hr
    simp only [writeTs, pad, digitsW, Prec.fracDigits, Prec.unit, if_true, if_false, List.append_assoc, List.nil_append, List.cons_append, List.append_nil, Nat.succ_ne_zero,
      ↓reduceIte]
    simp only [List.cons.injEq, and_true]
    omega)

theorem ts_rw_21 (b : Bytes) (h : b.length = 21) (t : Ts) (p : Prec) (hr : readTs b = .ok (t, p)) : writeTs p t = b := by
  obtain ⟨a0, a1, a2, a3, a4, a5, a6, a7, a8, a9, a10, a11, a12, a13, a14, a15, a16, a17, a18, a19, a20, rfl⟩ := list_len_21 b h
  simp [readTs, readTsWith, precOfLen, fixedNum, Prec.fracDigits] at hr
  repeat' split at hr
  all_goals (try (simp at hr; done))
  all_goals (try (cases hr; done))
  all_goals (
    simp only [Option.ite_none_right_eq_some, Option.some.injEq, isDigit_iff, digitsVal, List.foldl_cons, List.foldl_nil] at *
    cases hr
    simp only [writeTs, pad, digitsW, Prec.fracDigits, Prec.unit, if_true, if_false, List.append_assoc, List.nil_append, List.cons_append, List.append_nil, Nat.succ_ne_zero,
      ↓reduceIte]
    simp only [List.cons.injEq, and_true]
    omega)

theorem ts_rw_24 (b : Bytes) (h : b.length = 24) (t : Ts) (p : Prec) (hr : readTs b = .ok (t, p)) : writeTs p t = b := by
  obtain ⟨a0, a1, a2, a3, a4, a5, a6, a7, a8, a9, a10, a11, a12, a13, a14, a15, a16, a17, a18, a19, a20, a21, a22, a23, rfl⟩ := list_len_24 b h
  simp [readTs, readTsWith, precOfLen, fixedNum, Prec.fracDigits] at hr
  repeat' split at hr
  all_goals (try (simp at hr; done))
  all_goals (try (cases hr; done))
  all_goals (
    simp only [Option.ite_none_right_eq_some, Option.some.injEq, isDigit_iff, digitsVal, List.foldl_cons, List.foldl_nil] at *
    cases hr
    simp only [writeTs, pad, digitsW, Prec.fracDigits, Prec.unit, if_true, if_false, List.append_assoc, List.nil_append, List.cons_append, List.append_nil, Nat.succ_ne_zero,
      ↓reduceIte]
    simp only [List.cons.injEq, and_true]
    omega)

set_option maxHeartbeats 4000000 in
theorem ts_rw_27 (b : Bytes) (h : b.length = 27) (t : Ts) (p : Prec) (hr : readTs b = .ok (t, p)) : writeTs p t = b := by
  obtain ⟨a0, a1, a2, a3, a4, a5, a6, a7, a8, a9, a10, a11, a12, a13, a14, a15, a16, a17, a18, a19, a20, a21, a22, a23, a24, a25, a26, rfl⟩ := list_len_27 b h
  simp [readTs, readTsWith, precOfLen, fixedNum, Prec.fracDigits] at hr
  repeat' split at hr
  all_goals (try (simp at hr; done))
  all_goals (try (cases hr; done))
  all_goals (
    simp only [Option.ite_none_right_eq_some, Option.some.injEq, isDigit_iff, digitsVal, List.foldl_cons, List.foldl_nil] at *
    cases hr
    simp only [writeTs, pad, digitsW, Prec.fracDigits, Prec.unit, if_true, if_false, List.append_assoc, List.nil_append, List.cons_append, List.append_nil, Nat.succ_ne_zero,
      ↓reduceIte]
    simp only [List.cons.injEq, and_true]
    omega)

/-- reading an accepted text and writing it back reproduces the text -/
theorem ts_read_write (b : Bytes) (t : Ts) (p : Prec) (hr : readTs b = .ok (t, p)) : writeTs p t = b := by
  by_cases h17 : b.length = 17
  · exact ts_rw_17 b h17 t p hr
  · by_cases h21 : b.length = 21
    · exact ts_rw_21 b h21 t p hr
    · by_cases h24 : b.length = 24
      · exact ts_rw_24 b h24 t p hr
      · by_cases h27 : b.length = 27
        · exact ts_rw_27 b h27 t p hr
        · simp [readTs, readTsWith, precOfLen, h17, h21, h24, h27] at hr
end Qfx
