/-
  The generic frame theorem lifted to `step`, `traceOf`, `runEvents` (defined in Props/C01.lean): under a policy,
  every observation of a whole history satisfies `N` and the store stays `S`-related to the initial one.
-/
import Qfx.Lemmas.SessPool
import Qfx.Props.C01
namespace Qfx.Sess
open Qfx

variable {N : Obs → Prop} {S : Store → Store → Prop} [hp : Policy N S] {P : InMsg → Prop}

omit hp in
theorem poolInv_clearLog (s : Sess) (h : PoolInv P s) : PoolInv P s.clearLog := h

theorem step_good (s : Sess) (e : Ev) (hP : PoolHyp N S P s.cfg) (hc : CfgHyp N S s.cfg) (h : PoolInv P s) (he : EvOK N S P s.cfg e) :
    (∀ o ∈ (step s e).2.1, N o) ∧ S s.store (step s e).1.store ∧ (step s e).1.cfg = s.cfg ∧ PoolInv P (step s e).1 := by
  have g := good_stepCore (N := N) (S := S) s.clearLog e hP hc (poolInv_clearLog s h) he
  unfold step
  simp only []
  generalize stepCore s.clearLog e = r at g
  obtain ⟨s', status⟩ := r
  obtain ⟨⟨hcfg, ⟨extra, hl, hn⟩, hst⟩, hpool⟩ := g
  simp only [] at hcfg hl hst hpool ⊢
  refine ⟨?_, hst, hcfg, hpool⟩
  intro o ho
  rw [hl] at ho
  simp [Sess.clearLog] at ho
  exact hn o ho

theorem run_good (s : Sess) (evs : List Ev) (hP : PoolHyp N S P s.cfg) (hc : CfgHyp N S s.cfg) (h : PoolInv P s)
    (he : ∀ e ∈ evs, EvOK N S P s.cfg e) :
    (∀ o ∈ _root_.traceOf s evs, N o) ∧ S s.store (_root_.runEvents s evs).store ∧ (_root_.runEvents s evs).cfg = s.cfg
      ∧ PoolInv P (_root_.runEvents s evs) := by
  induction evs generalizing s with
  | nil => exact ⟨(by intro o ho; cases ho), hp.sRefl _, rfl, h⟩
  | cons e es ih =>
    obtain ⟨h1, h2, h3, h4⟩ := step_good (N := N) (S := S) s e hP hc h (he e List.mem_cons_self)
    obtain ⟨i1, i2, i3, i4⟩ := ih (step s e).1 (by rw [h3]; exact hP) (by rw [h3]; exact hc) h4
      (fun e' he' => by rw [h3]; exact he e' (List.mem_cons_of_mem _ he'))
    simp only [_root_.traceOf, _root_.runEvents]
    refine ⟨?_, hp.sTrans h2 i2, i3.trans h3, i4⟩
    intro o ho
    rcases List.mem_append.1 ho with ho | ho
    · exact h1 o ho
    · exact i1 o ho

omit hp in
theorem poolInv_init (cfg : Cfg) (s0 t0 : Int) : PoolInv P (initSess cfg s0 t0) :=
  ⟨(by intro m hm; cases hm), (by intro p hp; cases hp)⟩

end Qfx.Sess
