/- helper lemmas for C10 / C11 / C13: association lists, the bookkeeping invariant of FieldMap, the section orderings -/
import Qfx.Spec.Codec
namespace Qfx

/-! ## association lists -/

theorem alFind_insert_self {β} (l : List (Tag × β)) (t : Tag) (v : β) : alFind (alInsert l t v) t = some v := by
  induction l with
  | nil => simp [alInsert, alFind]
  | cons p r ih =>
    obtain ⟨k, x⟩ := p
    by_cases h : k = t
    · simp [alInsert, alFind, h]
    · simp [alInsert, alFind, h, ih]

theorem alFind_insert_other {β} (l : List (Tag × β)) (t t' : Tag) (v : β) (hne : t' ≠ t) :
    alFind (alInsert l t v) t' = alFind l t' := by
  induction l with
  | nil => simp [alInsert, alFind, Ne.symm hne]
  | cons p r ih =>
    obtain ⟨k, x⟩ := p
    by_cases h : k = t
    · subst h; simp [alInsert, alFind, Ne.symm hne]
    · by_cases h2 : k = t'
      · subst h2; simp [alInsert, alFind, h]
      · simp [alInsert, alFind, h, h2, ih]

theorem alFind_erase_self {β} (l : List (Tag × β)) (t : Tag) : alFind (alErase l t) t = none := by
  induction l with
  | nil => simp [alErase, alFind]
  | cons p r ih =>
    obtain ⟨k, x⟩ := p
    by_cases h : k = t
    · simp [alErase, h, ih]
    · simp [alErase, h, alFind, ih]

theorem alFind_erase_other {β} (l : List (Tag × β)) (t t' : Tag) (hne : t' ≠ t) :
    alFind (alErase l t) t' = alFind l t' := by
  induction l with
  | nil => simp [alErase, alFind]
  | cons p r ih =>
    obtain ⟨k, x⟩ := p
    by_cases h : k = t
    · subst h; simp [alErase, alFind, ih, Ne.symm hne]
    · by_cases h2 : k = t'
      · subst h2; simp [alErase, alFind, h]
      · simp [alErase, alFind, h, h2, ih]

theorem mem_alKeys_iff {β} (l : List (Tag × β)) (t : Tag) : t ∈ alKeys l ↔ (alFind l t).isSome = true := by
  induction l with
  | nil => simp [alKeys, alFind]
  | cons p r ih =>
    obtain ⟨k, x⟩ := p
    by_cases h : k = t
    · simp [alKeys, alFind, h]
    · simp only [alKeys] at ih
      simp [alKeys, alFind, h, ih, Ne.symm h]

theorem alKeys_insert {β} (l : List (Tag × β)) (t : Tag) (v : β) :
    alKeys (alInsert l t v) = if (alFind l t).isSome then alKeys l else alKeys l ++ [t] := by
  induction l with
  | nil => simp [alInsert, alFind, alKeys]
  | cons p r ih =>
    obtain ⟨k, x⟩ := p
    by_cases h : k = t
    · simp [alInsert, alFind, alKeys, h]
    · simp only [alKeys] at ih
      simp only [alInsert, alFind, alKeys, h, if_false, List.map_cons, ih]
      split <;> simp

theorem alKeys_erase {β} (l : List (Tag × β)) (t : Tag) : alKeys (alErase l t) = (alKeys l).filter (· ≠ t) := by
  induction l with
  | nil => simp [alErase, alKeys]
  | cons p r ih =>
    obtain ⟨k, x⟩ := p
    simp only [alKeys] at ih
    by_cases h : k = t
    · simp [alErase, alKeys, h, ih]
    · simp [alErase, alKeys, h, ih]

/-! ## the bookkeeping invariant: order list and lookup map are two views of the same field set -/

structure FMInv (m : FieldMap) : Prop where
  tagsNodup : m.tags.Nodup
  keysNodup : (alKeys m.lookup).Nodup
  same : ∀ t, t ∈ m.tags ↔ t ∈ alKeys m.lookup

theorem FMInv.empty (o : OrdKind) : FMInv (FieldMap.empty o) := ⟨by simp [FieldMap.empty], by simp [FieldMap.empty, alKeys], by simp [FieldMap.empty, alKeys]⟩

theorem nodup_append_singleton {l : List Tag} {t : Tag} (h : l.Nodup) (hn : t ∉ l) : (l ++ [t]).Nodup := by
  rw [List.nodup_append]
  refine ⟨h, by simp, ?_⟩
  intro a ha b hb
  simp at hb; subst hb
  intro e; subst e; exact hn ha

/-- replacing / adding the entry of `t` in the map, appending `t` to the order list iff the map missed -/
theorem FMInv.put {m : FieldMap} (h : FMInv m) (t : Tag) (f : Field) :
    FMInv { m with tags := if (alFind m.lookup t).isSome then m.tags else m.tags ++ [t], lookup := alInsert m.lookup t f } := by
  by_cases hf : (alFind m.lookup t).isSome = true
  · refine ⟨by simpa [hf] using h.tagsNodup, by simpa [alKeys_insert, hf] using h.keysNodup, ?_⟩
    intro x; simpa [alKeys_insert, hf] using h.same x
  · have hk : t ∉ alKeys m.lookup := by rw [mem_alKeys_iff]; exact hf
    have ht : t ∉ m.tags := fun c => hk ((h.same t).1 c)
    refine ⟨by simpa [hf] using nodup_append_singleton h.tagsNodup ht,
            by simpa [alKeys_insert, hf] using nodup_append_singleton h.keysNodup hk, ?_⟩
    intro x; simp [alKeys_insert, hf, h.same x]

theorem FMInv.setGroup {m : FieldMap} (h : FMInv m) (t : Tag) (tvs : List TagValue) : FMInv (m.setGroup t tvs) :=
  h.put t (.owned tvs)

theorem FMInv.add {m : FieldMap} (h : FMInv m) (t : Tag) (f : Field) : FMInv (m.add t f) := h.put t f

theorem FMInv.setTV {m : FieldMap} (h : FMInv m) (tv : TagValue) (r : SetRes) (hr : m.setTV tv = .ok r) : FMInv r.fm := by
  unfold FieldMap.setTV at hr
  split at hr
  · rename_i x y hfind
    injection hr with hr; subst hr
    have := h.put tv.tag (.owned [tv]); simpa [hfind] using this
  · cases hr
  · rename_i s n hfind
    injection hr with hr; subst hr
    have := h.put tv.tag (.view s 1); simpa [hfind] using this
  · rename_i hfind
    injection hr with hr; subst hr
    have := h.put tv.tag (.owned [tv]); simpa [hfind] using this

theorem FMInv.remove {m : FieldMap} (h : FMInv m) (t : Tag) : FMInv (m.remove t) := by
  refine ⟨h.tagsNodup.erase t, ?_, ?_⟩
  · simp only [FieldMap.remove, alKeys_erase]; exact h.keysNodup.sublist List.filter_sublist
  · intro x
    simp only [FieldMap.remove, alKeys_erase, List.mem_filter, h.tagsNodup.mem_erase_iff, h.same x]
    simp [and_comm]

theorem FMInv.clear {m : FieldMap} : FMInv m.clear := ⟨by simp [FieldMap.clear], by simp [FieldMap.clear, alKeys], by simp [FieldMap.clear, alKeys]⟩

theorem FMInv.copy {m : FieldMap} (h : FMInv m) (arr : List TagValue) : FMInv (m.copy arr) := by
  have hk : alKeys (m.lookup.map (fun p => (p.1, Field.owned (p.2.items arr)))) = alKeys m.lookup := by
    simp [alKeys, List.map_map, Function.comp_def]
  exact ⟨h.tagsNodup, by simpa [FieldMap.copy, hk] using h.keysNodup, by intro x; simpa [FieldMap.copy, hk] using h.same x⟩

/-- the ORIGINAL `Remove` breaks the invariant (D5): the tag stays in the order list -/
theorem removeOrig_breaks : ¬ FMInv ((((FieldMap.empty .normal).setGroup 58 []).removeOrig 58)) := by
  intro h
  have := (h.same 58).1 (by decide)
  simp [FieldMap.removeOrig, FieldMap.setGroup, FieldMap.empty, alInsert, alFind, alErase, alKeys] at this

/-! ## orderings -/

def OrdKind.le (o : OrdKind) (a b : Tag) : Bool := !o.less b a

theorem sortTags_perm (o : OrdKind) (l : List Tag) : (sortTags o l).Perm l := List.mergeSort_perm _ _

theorem headerRank_cases (t : Int) :
    (t = 8 ∧ headerRank t = 1) ∨ (t = 9 ∧ headerRank t = 2) ∨ (t = 35 ∧ headerRank t = 3) ∨
    (t ≠ 8 ∧ t ≠ 9 ∧ t ≠ 35 ∧ headerRank t = 4294967295) := by
  unfold headerRank
  by_cases h8 : t = 8
  · simp [h8]
  · by_cases h9 : t = 9
    · simp [h9]
    · by_cases h35 : t = 35
      · simp [h35]
      · simp [h8, h9, h35]

/-- a section ordering (header, body, trailer): the Go comparator is a strict total order on tags -/
def OrdKind.isSection : OrdKind → Bool
  | .group _ => false
  | _ => true

theorem le_total (o : OrdKind) (ho : o.isSection = true) (a b : Int) : (o.le a b || o.le b a) = true := by
  cases o with
  | normal => simp [OrdKind.le, OrdKind.less]; omega
  | header =>
    rcases headerRank_cases a with ⟨ea, ha⟩ | ⟨ea, ha⟩ | ⟨ea, ha⟩ | ⟨a8, a9, a35, ha⟩ <;>
    rcases headerRank_cases b with ⟨eb, hb⟩ | ⟨eb, hb⟩ | ⟨eb, hb⟩ | ⟨b8, b9, b35, hb⟩ <;>
    simp only [OrdKind.le, OrdKind.less, ha, hb] <;> simp <;> omega
  | trailer =>
    simp only [OrdKind.le, OrdKind.less]
    by_cases ha : a = 10 <;> by_cases hb : b = 10 <;> simp [ha, hb] <;> omega
  | group _ => simp [OrdKind.isSection] at ho

theorem le_trans (o : OrdKind) (ho : o.isSection = true) (a b c : Int) (h1 : o.le a b = true) (h2 : o.le b c = true) :
    o.le a c = true := by
  cases o with
  | normal =>
    simp [OrdKind.le, OrdKind.less] at h1 h2 ⊢; omega
  | header =>
    rcases headerRank_cases a with ⟨ea, ha⟩ | ⟨ea, ha⟩ | ⟨ea, ha⟩ | ⟨a8, a9, a35, ha⟩ <;>
    rcases headerRank_cases b with ⟨eb, hb⟩ | ⟨eb, hb⟩ | ⟨eb, hb⟩ | ⟨b8, b9, b35, hb⟩ <;>
    rcases headerRank_cases c with ⟨ec, hc⟩ | ⟨ec, hc⟩ | ⟨ec, hc⟩ | ⟨c8, c9, c35, hc⟩ <;>
    simp only [OrdKind.le, OrdKind.less, ha, hb, hc] at h1 h2 ⊢ <;> simp at h1 h2 ⊢ <;> omega
  | trailer =>
    simp only [OrdKind.le, OrdKind.less] at *
    by_cases ha : a = 10 <;> by_cases hb : b = 10 <;> by_cases hc : c = 10 <;> simp [ha, hb, hc] at h1 h2 ⊢ <;> omega
  | group _ => simp [OrdKind.isSection] at ho

theorem le_antisymm (o : OrdKind) (ho : o.isSection = true) (a b : Int) (h1 : o.le a b = true) (h2 : o.le b a = true) : a = b := by
  cases o with
  | normal =>
    simp [OrdKind.le, OrdKind.less] at h1 h2 ⊢; omega
  | header =>
    rcases headerRank_cases a with ⟨ea, ha⟩ | ⟨ea, ha⟩ | ⟨ea, ha⟩ | ⟨a8, a9, a35, ha⟩ <;>
    rcases headerRank_cases b with ⟨eb, hb⟩ | ⟨eb, hb⟩ | ⟨eb, hb⟩ | ⟨b8, b9, b35, hb⟩ <;>
    simp only [OrdKind.le, OrdKind.less, ha, hb] at h1 h2 <;> simp at h1 h2 <;> omega
  | trailer =>
    simp only [OrdKind.le, OrdKind.less] at *
    by_cases ha : a = 10 <;> by_cases hb : b = 10 <;> simp [ha, hb] at h1 h2 <;> omega
  | group _ => simp [OrdKind.isSection] at ho

theorem sortTags_sorted (o : OrdKind) (ho : o.isSection = true) (l : List Tag) :
    (sortTags o l).Pairwise (fun a b => o.le a b = true) :=
  List.pairwise_mergeSort (le := fun a b => !o.less b a) (le_trans o ho) (le_total o ho) l

/-- the sorted order list is determined by the *set* of tags: `sort.Sort`'s result does not depend on insertion order -/
theorem sortTags_eq_of_perm (o : OrdKind) (ho : o.isSection = true) {l₁ l₂ : List Tag} (h : l₁.Perm l₂) :
    sortTags o l₁ = sortTags o l₂ := by
  apply List.Perm.eq_of_pairwise (le := fun a b => o.le a b = true)
  · intro a b _ _ h1 h2; exact le_antisymm o ho a b h1 h2
  · exact sortTags_sorted o ho l₁
  · exact sortTags_sorted o ho l₂
  · exact (sortTags_perm o l₁).trans (h.trans (sortTags_perm o l₂).symm)

theorem FMInv.perm {m : FieldMap} (h : FMInv m) : m.tags.Perm (alKeys m.lookup) :=
  (List.perm_ext_iff_of_nodup h.tagsNodup h.keysNodup).2 h.same

theorem FMInv.write {m : FieldMap} (h : FMInv m) (arr : List TagValue) : FMInv (m.write arr).2 := by
  have hp := sortTags_perm m.ord m.tags
  exact ⟨hp.nodup_iff.2 h.tagsNodup, h.keysNodup, fun t => by simpa [FieldMap.write] using (hp.mem_iff.trans (h.same t))⟩

/-! ## write -/

theorem writeTags_congr (arr : List TagValue) (l₁ l₂ : List (Tag × Field)) (h : ∀ t, alFind l₁ t = alFind l₂ t) (ts : List Tag) :
    writeTags arr l₁ ts = writeTags arr l₂ ts := by
  induction ts with
  | nil => rfl
  | cons t r ih => simp [writeTags, h t, ih]

theorem writeTags_eq_flatMap (arr : List TagValue) (l : List (Tag × Field)) (ts : List Tag) :
    writeTags arr l ts = (ts.filterMap (alFind l)).flatMap (fieldBytes arr) := by
  induction ts with
  | nil => rfl
  | cons t r ih =>
    cases hf : alFind l t <;> simp [writeTags, hf, ih]

end Qfx

namespace Qfx

theorem filterMap_congr_mem {α β} {f g : α → Option β} {l : List α} (h : ∀ a ∈ l, f a = g a) :
    l.filterMap f = l.filterMap g := by
  induction l with
  | nil => rfl
  | cons a r ih =>
    have ha := h a (by simp)
    have hr := ih (fun b hb => h b (by simp [hb]))
    simp only [List.filterMap_cons, ha, hr]

/-- with duplicate-free keys, looking every key up returns the entries in order -/
theorem filterMap_find_keys {β} (l : List (Tag × β)) (h : (alKeys l).Nodup) :
    (alKeys l).filterMap (alFind l) = l.map (·.2) := by
  induction l with
  | nil => rfl
  | cons p r ih =>
    obtain ⟨k, x⟩ := p
    have hcons : alKeys ((k, x) :: r) = k :: alKeys r := rfl
    rw [hcons, List.nodup_cons] at h
    have hk : ∀ t ∈ alKeys r, alFind ((k, x) :: r) t = alFind r t := by
      intro t ht
      have : k ≠ t := fun e => h.1 (by rw [e]; exact ht)
      simp [alFind, this]
    rw [hcons, List.filterMap_cons]
    have h0 : alFind ((k, x) :: r) k = some x := by simp [alFind]
    rw [h0, filterMap_congr_mem hk, ih h.2]
    rfl

/-- under the invariant the fields written are exactly the fields of the lookup map, each once (as a permutation) -/
theorem written_fields_perm {m : FieldMap} (h : FMInv m) :
    ((sortTags m.ord m.tags).filterMap (alFind m.lookup)).Perm (m.lookup.map (·.2)) := by
  have hp : (sortTags m.ord m.tags).Perm (alKeys m.lookup) := (sortTags_perm _ _).trans h.perm
  have := hp.filterMap (alFind m.lookup)
  rwa [filterMap_find_keys _ h.keysNodup] at this

end Qfx

namespace Qfx

/-! ## operation sequences on one section -/

/-- the FieldMap API as used through Header / Body / Trailer (after the fixes) -/
inductive FOp where
  | set (tv : TagValue)                       -- SetBytes / SetString / SetInt / SetBool / SetField / Set
  | setGroup (t : Tag) (tvs : List TagValue)  -- SetGroup(Write())
  | remove (t : Tag)
  | clear
  | copy (arr : List TagValue)                -- CopyInto a fresh map, continue on the copy
  deriving Inhabited

def FOp.apply (m : FieldMap) : FOp → Res FieldMap
  | .set tv => (match m.setTV tv with | .ok r => .ok r.fm | .err e => .err e | .fault w => .fault w)
  | .setGroup t tvs => .ok (m.setGroup t tvs)
  | .remove t => .ok (m.remove t)
  | .clear => .ok m.clear
  | .copy arr => .ok (m.copy arr)

def runFOps : List FOp → FieldMap → Res FieldMap
  | [], m => .ok m
  | op :: r, m => (match op.apply m with | .ok m' => runFOps r m' | .err e => .err e | .fault w => .fault w)

theorem FOp.apply_inv {m m' : FieldMap} (h : FMInv m) (op : FOp) (hr : op.apply m = .ok m') : FMInv m' := by
  cases op with
  | set tv =>
    simp only [FOp.apply] at hr
    cases hs : m.setTV tv with
    | ok r => rw [hs] at hr; injection hr with hr; subst hr; exact h.setTV tv r hs
    | err e => rw [hs] at hr; cases hr
    | fault w => rw [hs] at hr; cases hr
  | setGroup t tvs => simp only [FOp.apply] at hr; injection hr with hr; subst hr; exact h.setGroup t tvs
  | remove t => simp only [FOp.apply] at hr; injection hr with hr; subst hr; exact h.remove t
  | clear => simp only [FOp.apply] at hr; injection hr with hr; subst hr; exact FMInv.clear
  | copy arr => simp only [FOp.apply] at hr; injection hr with hr; subst hr; exact h.copy arr

theorem runFOps_inv (ops : List FOp) : ∀ (m m' : FieldMap), FMInv m → runFOps ops m = .ok m' → FMInv m' := by
  induction ops with
  | nil => intro m m' h hr; simp only [runFOps] at hr; injection hr with hr; subst hr; exact h
  | cons op r ih =>
    intro m m' h hr
    simp only [runFOps] at hr
    cases ha : op.apply m with
    | ok m1 => rw [ha] at hr; exact ih m1 m' (FOp.apply_inv h op ha) hr
    | err e => rw [ha] at hr; cases hr
    | fault w => rw [ha] at hr; cases hr

/-! ## length / total accounting -/

def tvLen (tv : TagValue) : Nat := tv.bytes.length
def tvSum (tv : TagValue) : Nat := tv.bytes.sum

theorem fieldBytes_length (arr : List TagValue) (f : Field) : (fieldBytes arr f).length = ((f.items arr).map tvLen).sum := by
  simp [fieldBytes, List.length_flatten, List.map_map, Function.comp_def]; rfl

theorem sum_flatten_nat (L : List (List Nat)) : L.flatten.sum = (L.map List.sum).sum := by
  induction L with
  | nil => rfl
  | cons a r ih => simp [List.sum_append, ih]

theorem fieldBytes_sum (arr : List TagValue) (f : Field) : (fieldBytes arr f).sum = ((f.items arr).map tvSum).sum := by
  simp [fieldBytes, sum_flatten_nat, List.map_map, Function.comp_def]; rfl

theorem length_flatMap_nat {α} (l : List α) (g : α → List Nat) : (l.flatMap g).length = (l.map (fun a => (g a).length)).sum := by
  induction l with
  | nil => rfl
  | cons a r ih => simp [List.flatMap_cons, ih]

theorem sum_flatMap_nat {α} (l : List α) (g : α → List Nat) : (l.flatMap g).sum = (l.map (fun a => (g a).sum)).sum := by
  induction l with
  | nil => rfl
  | cons a r ih => simp [List.flatMap_cons, List.sum_append, ih]

/-- a sum over TagValues splits into the part `p` keeps and the part it skips -/
theorem sum_filter_split (l : List TagValue) (g : TagValue → Nat) (p : TagValue → Bool) :
    (l.map g).sum = ((l.filter p).map g).sum + ((l.filter (fun x => !p x)).map g).sum := by
  induction l with
  | nil => rfl
  | cons a r ih =>
    cases hp : p a <;> simp [hp, ih] <;> omega

/-- bytes of TagValues that `length` skips (tags 8, 9, 10) -/
def FieldMap.skipLen (arr : List TagValue) (m : FieldMap) : Nat :=
  (m.lookup.map (fun p => (((p.2.items arr).filter (fun tv => !decide (tv.tag ≠ 8 ∧ tv.tag ≠ 9 ∧ tv.tag ≠ 10))).map tvLen).sum)).sum

/-- byte sum of TagValues that `total` skips (tag 10) -/
def FieldMap.skipSum (arr : List TagValue) (m : FieldMap) : Nat :=
  (m.lookup.map (fun p => (((p.2.items arr).filter (fun tv => !decide (tv.tag ≠ 10))).map tvSum).sum)).sum

theorem sum_map_add {α} (l : List α) (f g : α → Nat) : (l.map (fun a => f a + g a)).sum = (l.map f).sum + (l.map g).sum := by
  induction l with
  | nil => rfl
  | cons a r ih => simp [ih]; omega

end Qfx

/-! ## message-level invariant -/

namespace Qfx

structure MInv (m : Message) : Prop where
  h : FMInv m.header
  b : FMInv m.body
  t : FMInv m.trailer
  oh : m.header.ord = .header
  ob : m.body.ord = .normal
  ot : m.trailer.ord = .trailer

theorem MInv.new : MInv Message.new :=
  ⟨FMInv.empty _, FMInv.empty _, FMInv.empty _, rfl, rfl, rfl⟩

theorem setTV_ord {m : FieldMap} {tv : TagValue} {r : SetRes} (h : m.setTV tv = .ok r) : r.fm.ord = m.ord := by
  unfold FieldMap.setTV at h
  split at h <;> first | (injection h with h; subst h; rfl) | cases h

/-- replacing one section by a map that keeps the invariant and the comparator keeps the message invariant -/
theorem MInv.withSec {m : Message} (hm : MInv m) (s : Sec) (fm : FieldMap) (hf : FMInv fm) (ho : fm.ord = (m.sec s).ord) :
    MInv (m.withSec s fm) := by
  cases s
  · exact ⟨hf, hm.b, hm.t, by simpa [Message.withSec, Message.sec, hm.oh] using ho, hm.ob, hm.ot⟩
  · exact ⟨hm.h, hf, hm.t, hm.oh, by simpa [Message.withSec, Message.sec, hm.ob] using ho, hm.ot⟩
  · exact ⟨hm.h, hm.b, hf, hm.oh, hm.ob, by simpa [Message.withSec, Message.sec, hm.ot] using ho⟩

theorem MInv.fields {m : Message} (hm : MInv m) (fs : List TagValue) : MInv { m with fields := fs } :=
  ⟨hm.h, hm.b, hm.t, hm.oh, hm.ob, hm.ot⟩

theorem MInv.sec {m : Message} (hm : MInv m) (s : Sec) : FMInv (m.sec s) := by
  cases s
  · exact hm.h
  · exact hm.b
  · exact hm.t

theorem MInv.setBytes {m m' : Message} (hm : MInv m) (s : Sec) (t : Tag) (v : Bytes)
    (h : m.setBytes Fixes.cur s t v = .ok m') : MInv m' := by
  simp only [Message.setBytes, Fixes.cur, if_true] at h
  split at h
  · rename_i r hr
    have hi : FMInv r.fm := (hm.sec s).setTV _ r hr
    have ho : r.fm.ord = (m.sec s).ord := setTV_ord hr
    have hw := hm.withSec s r.fm hi ho
    split at h
    · injection h with h; subst h; exact hw.fields _
    · injection h with h; subst h; exact hw
  · cases h
  · cases h


theorem MInv.remove {m : Message} (hm : MInv m) (s : Sec) (t : Tag) : MInv (m.remove Fixes.cur s t) := by
  simp only [Message.remove, Fixes.cur, if_true]
  exact hm.withSec s _ ((hm.sec s).remove t) rfl

theorem MInv.clear {m : Message} (hm : MInv m) (s : Sec) : MInv (m.clear s) :=
  hm.withSec s _ FMInv.clear rfl

theorem MInv.setGroup {m m' : Message} (hm : MInv m) (s : Sec) (t : Tag) (tm : List Item) (es : List (List GFld))
    (h : m.setGroup s t tm es = .ok m') : MInv m' := by
  simp only [Message.setGroup] at h
  split at h
  · injection h with h; subst h; exact hm.withSec s _ ((hm.sec s).setGroup t _) rfl
  · cases h
  · cases h

theorem MInv.copy {m m' : Message} (hm : MInv m) (h : m.copy Fixes.cur = .ok m') : MInv m' := by
  simp only [Message.copy, copyFM, Fixes.cur, if_true] at h
  injection h with h; subst h
  exact ⟨hm.h.copy _, hm.b.copy _, hm.t.copy _, hm.oh, hm.ob, hm.ot⟩

theorem MInv.cook {m m' : Message} (hm : MInv m) (bl bt : Nat) (h : m.cook Fixes.cur bl bt = .ok m') : MInv m' := by
  simp only [Message.cook, Message.setInt] at h
  split at h
  · rename_i m1 h1; exact (hm.setBytes _ _ _ h1).setBytes _ _ _ h
  · cases h
  · cases h

theorem MInv.writeAll {m : Message} (hm : MInv m) : MInv (m.writeAll none).2 := by
  simp only [Message.writeAll]
  exact ⟨hm.h.write m.fields, hm.b.write m.fields, hm.t.write m.fields, hm.oh, hm.ob, hm.ot⟩

/-- the Message API (after the fixes), on any of the three sections -/
inductive MOp where
  | set (s : Sec) (t : Tag) (v : Bytes)
  | setInt (s : Sec) (t : Tag) (v : Int)
  | setBool (s : Sec) (t : Tag) (v : Bool)
  | setGroup (s : Sec) (t : Tag) (tmpl : List Item) (entries : List (List GFld))
  | remove (s : Sec) (t : Tag)
  | clear (s : Sec)
  | copy
  | build       -- `String()` / `Bytes()`: cooks 9 and 10, sorts the order lists
  deriving Inhabited

def MOp.apply (m : Message) : MOp → Res Message
  | .set s t v => m.setBytes Fixes.cur s t v
  | .setInt s t v => m.setInt Fixes.cur s t v
  | .setBool s t v => m.setBool Fixes.cur s t v
  | .setGroup s t tm es => m.setGroup s t tm es
  | .remove s t => .ok (m.remove Fixes.cur s t)
  | .clear s => .ok (m.clear s)
  | .copy => m.copy Fixes.cur
  | .build => (match m.build Fixes.cur with | .ok r => .ok r.2 | .err e => .err e | .fault w => .fault w)

def runMOps : List MOp → Message → Res Message
  | [], m => .ok m
  | op :: r, m => (match op.apply m with | .ok m' => runMOps r m' | .err e => .err e | .fault w => .fault w)

theorem MInv.build {m : Message} (hm : MInv m) (bytes : Bytes) (m' : Message) (h : m.build Fixes.cur = .ok (bytes, m')) :
    MInv m' ∧ ∃ m1, m.cook Fixes.cur (m.body.length m.fields) (m.body.total m.fields) = .ok m1 ∧ MInv m1 ∧
      bytes = (m1.header.write m1.fields).1 ++ (m1.body.write m1.fields).1 ++ (m1.trailer.write m1.fields).1 := by
  simp only [Message.build] at h
  split at h
  · rename_i m1 h1
    have hc := hm.cook _ _ h1
    injection h with h
    have hb : bytes = (m1.writeAll none).1 := by rw [h]
    have hm' : m' = (m1.writeAll none).2 := by rw [h]
    subst hm'
    exact ⟨hc.writeAll, m1, h1, hc, by rw [hb]; simp [Message.writeAll]⟩
  · cases h
  · cases h

theorem MOp.apply_inv {m m' : Message} (hm : MInv m) (op : MOp) (h : op.apply m = .ok m') : MInv m' := by
  cases op with
  | set s t v => exact hm.setBytes s t v h
  | setInt s t v => exact hm.setBytes s t _ h
  | setBool s t v => exact hm.setBytes s t _ h
  | setGroup s t tm es => exact hm.setGroup s t tm es h
  | remove s t => simp only [MOp.apply] at h; injection h with h; subst h; exact hm.remove s t
  | clear s => simp only [MOp.apply] at h; injection h with h; subst h; exact hm.clear s
  | copy => exact hm.copy h
  | build =>
    simp only [MOp.apply] at h
    split at h
    · rename_i r hr; injection h with h; subst h; exact (hm.build r.1 r.2 hr).1
    · cases h
    · cases h

theorem runMOps_inv (ops : List MOp) : ∀ (m m' : Message), MInv m → runMOps ops m = .ok m' → MInv m' := by
  induction ops with
  | nil => intro m m' h hr; simp only [runMOps] at hr; injection hr with hr; subst hr; exact h
  | cons op r ih =>
    intro m m' h hr
    simp only [runMOps] at hr
    cases ha : op.apply m with
    | ok m1 => rw [ha] at hr; exact ih m1 m' (MOp.apply_inv h op ha) hr
    | err e => rw [ha] at hr; cases hr
    | fault w => rw [ha] at hr; cases hr

end Qfx
