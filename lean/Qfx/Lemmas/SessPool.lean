/-
  Generic frame machinery over Qfx.Model.Session, shared by the whole-history theorems of C06 and C07.

  `Rel N S s s'`  : same configuration, the log of `s'` extends the log of `s` by observations satisfying `N`,
                    the stores are related by the preorder `S`.
  `RelF N S s s'` : additionally the state and the inbound buffer are untouched (true of everything outside the
                    setState / drainIn / incoming / checkSessionTime block).
  `Policy N S`    : what `N` and `S` must allow unconditionally (writes, persisting, advancing the expected number).
  Resets, callbacks and the logon notification are allowed only through explicit hypotheses of the lemmas.
-/
import Qfx.Lemmas.SessC06
namespace Qfx.Sess
open Qfx

class Policy (N : Obs → Prop) (S : Store → Store → Prop) : Prop where
  sRefl : ∀ a, S a a
  sTrans : ∀ {a b c}, S a b → S b c → S a c
  nWire : ∀ m, N (.wire m)
  nSaved : ∀ a b c, N (.saved a b c)
  nIncS : N .incS
  nIncT : N .incT
  nSetT : ∀ n, N (.setT n)
  nArm : ∀ n, N (.armPeer n)
  nClosed : N .closed
  nOnLogout : N .onLogout
  nRefresh : N .refresh
  sPersist : ∀ (st : Store) seq m, S st { st with msgs := (seq, m) :: st.msgs, sender := st.sender + 1 }
  sIncS : ∀ (st : Store), S st { st with sender := st.sender + 1 }
  sTarget : ∀ (st : Store) n, st.target ≤ n → S st { st with target := n }

/-- the policy tolerates a store reset -/
def ResetOK (N : Obs → Prop) (S : Store → Store → Prop) : Prop := N .reset ∧ ∀ st : Store, S st st.reset

structure Rel (N : Obs → Prop) (S : Store → Store → Prop) (s s' : Sess) : Prop where
  cfg : s'.cfg = s.cfg
  log : ∃ extra : List Obs, s'.log = extra ++ s.log ∧ ∀ o ∈ extra, N o
  store : S s.store s'.store

structure RelF (N : Obs → Prop) (S : Store → Store → Prop) (s s' : Sess) : Prop extends Rel N S s s' where
  st : s'.st = s.st
  inbox : s'.inbox = s.inbox

/-- the policy that allows everything (used for pure frame facts: cfg / st / inbox / log extension) -/
instance trivPolicy : Policy (fun _ => True) (fun _ _ => True) where
  sRefl := fun _ => trivial
  sTrans := fun _ _ => trivial
  nWire := fun _ => trivial
  nSaved := fun _ _ _ => trivial
  nIncS := trivial
  nIncT := trivial
  nSetT := fun _ => trivial
  nArm := fun _ => trivial
  nClosed := trivial
  nOnLogout := trivial
  nRefresh := trivial
  sPersist := fun _ _ _ => trivial
  sIncS := fun _ => trivial
  sTarget := fun _ _ _ => trivial

theorem triv_resetOK : ResetOK (fun _ => True) (fun _ _ => True) := ⟨trivial, fun _ => trivial⟩

section
variable {N : Obs → Prop} {S : Store → Store → Prop} [hp : Policy N S]

theorem Rel.refl (s : Sess) : Rel N S s s := ⟨rfl, ⟨[], rfl, by simp⟩, hp.sRefl _⟩

theorem Rel.trans {a b c : Sess} (h1 : Rel N S a b) (h2 : Rel N S b c) : Rel N S a c := by
  obtain ⟨c1, ⟨e1, l1, n1⟩, s1⟩ := h1
  obtain ⟨c2, ⟨e2, l2, n2⟩, s2⟩ := h2
  refine ⟨c2.trans c1, ⟨e2 ++ e1, by rw [l2, l1, List.append_assoc], ?_⟩, hp.sTrans s1 s2⟩
  intro o ho
  rcases List.mem_append.1 ho with h | h
  · exact n2 o h
  · exact n1 o h

theorem RelF.refl (s : Sess) : RelF N S s s := ⟨Rel.refl s, rfl, rfl⟩

theorem RelF.trans {a b c : Sess} (h1 : RelF N S a b) (h2 : RelF N S b c) : RelF N S a c :=
  ⟨h1.toRel.trans h2.toRel, h2.st.trans h1.st, h2.inbox.trans h1.inbox⟩

/-- field updates that touch none of cfg / log / store / st / inbox -/
theorem RelF.of_eq {s s' : Sess} (h1 : s'.cfg = s.cfg) (h2 : s'.log = s.log) (h3 : s'.store = s.store)
    (h4 : s'.st = s.st) (h5 : s'.inbox = s.inbox) : RelF N S s s' :=
  ⟨⟨h1, ⟨[], by simp [h2], by simp⟩, by rw [h3]; exact hp.sRefl _⟩, h4, h5⟩

theorem RelF.emit (s : Sess) (o : Obs) (h : N o) : RelF N S s (s.emit o) :=
  ⟨⟨rfl, ⟨[o], rfl, by simpa using h⟩, hp.sRefl _⟩, rfl, rfl⟩

/-! ### primitives -/

theorem relF_persistOut (s : Sess) (seq : Int) (m : OutMsg) : RelF N S s (s.persistOut seq m) := by
  unfold Sess.persistOut
  split
  · exact ⟨⟨rfl, ⟨[.saved seq m.kind (resendable m)], rfl, by simpa using hp.nSaved _ _ _⟩, hp.sPersist _ _ _⟩, rfl, rfl⟩
  · exact ⟨⟨rfl, ⟨[.incS], rfl, by simpa using hp.nIncS⟩, hp.sIncS _⟩, rfl, rfl⟩

theorem relF_sendQueued (s : Sess) : RelF N S s (sendQueued s) := by
  unfold sendQueued
  split
  · refine ⟨⟨rfl, ⟨(s.toSend.map Obs.wire).reverse, rfl, ?_⟩, hp.sRefl _⟩, rfl, rfl⟩
    intro o ho
    simp only [List.mem_reverse, List.mem_map] at ho
    obtain ⟨m, _, rfl⟩ := ho
    exact hp.nWire m
  · exact RelF.refl s

omit hp in
theorem relF_storeReset (s : Sess) (hro : ResetOK N S) : RelF N S s s.storeReset :=
  ⟨⟨rfl, ⟨[.reset], rfl, by simpa using hro.1⟩, hro.2 _⟩, rfl, rfl⟩

theorem relF_incrTarget (s : Sess) : RelF N S s (incrTarget s) :=
  ⟨⟨rfl, ⟨[.incT], rfl, by simpa using hp.nIncT⟩, hp.sTarget _ _ (by omega)⟩, rfl, rfl⟩

theorem relF_setT (s : Sess) (n : Int) (h : s.store.target ≤ n) : RelF N S s ((s.setTarget n).emit (.setT n)) :=
  ⟨⟨rfl, ⟨[.setT n], rfl, by simpa using hp.nSetT n⟩, hp.sTarget _ _ h⟩, rfl, rfl⟩

/-- an outbound message that makes `prep` reset the store: a Logon carrying ResetSeqNumFlag=Y -/
def resetLogon (m : OutMsg) : Bool := m.kind == "A" && m.f.get? 141 == some "Y"

omit hp in
theorem resetLogon_stamp (s : Sess) (m : OutMsg) : resetLogon (stamp s m) = resetLogon m := by simp [resetLogon]
omit hp in
theorem resetLogon_asNew (m : OutMsg) : resetLogon m.asNew = resetLogon m := rfl
omit hp in
theorem resetLogon_re (o : OutMsg) (m : InMsg) : resetLogon (o.inReplyTo m) = resetLogon o := rfl

theorem relF_prepCore (s : Sess) (m : OutMsg) (h : ResetOK N S ∨ resetLogon m = false) : RelF N S s (prepCore s m).2 := by
  unfold prepCore
  simp only []
  split
  · split
    · rename_i hc
      rcases h with h | h
      · exact ((relF_storeReset s h).trans (RelF.of_eq (s := s.storeReset) (s' := s.storeReset.setSentReset true) rfl rfl rfl rfl rfl)).trans
          (relF_persistOut _ _ _)
      · simp [resetLogon] at h hc; simp_all
    · exact relF_persistOut _ _ _
  · split
    · exact RelF.refl s
    · exact relF_persistOut _ _ _

theorem relF_prep (s : Sess) (m : OutMsg) (h : ResetOK N S ∨ resetLogon m = false) : RelF N S s (prep s m).2 :=
  relF_prepCore s (stamp s m) (by rw [resetLogon_stamp]; exact h)

theorem relF_queueForSend (s : Sess) (m : OutMsg) (h : ResetOK N S ∨ resetLogon m = false) : RelF N S s (queueForSend s m) := by
  unfold queueForSend
  have h1 := relF_prep s m h
  generalize prep s m = r at h1
  obtain ⟨o, s'⟩ := r
  cases o with
  | none => exact h1
  | some m' => exact h1.trans (RelF.of_eq rfl rfl rfl rfl rfl)

theorem relF_sendInReplyTo (s : Sess) (m : OutMsg) (h : ResetOK N S ∨ resetLogon m = false) : RelF N S s (sendInReplyTo s m) := by
  unfold sendInReplyTo
  split
  · exact relF_queueForSend s _ (by rw [resetLogon_asNew]; exact h)
  · have h1 := relF_prep s m h
    generalize prep s m = r at h1
    obtain ⟨o, s'⟩ := r
    cases o with
    | none => exact h1
    | some m' => exact (h1.trans (RelF.of_eq (s' := s'.setToSend (s'.toSend ++ [m'])) rfl rfl rfl rfl rfl)).trans (relF_sendQueued _)

theorem relF_dropAndSend (s : Sess) (m : OutMsg) (h : ResetOK N S ∨ resetLogon m = false) : RelF N S s (dropAndSend s m) := by
  unfold dropAndSend
  have h1 := relF_prep s m h
  generalize prep s m = r at h1
  obtain ⟨o, s'⟩ := r
  cases o with
  | none => exact h1
  | some m' => exact (h1.trans (RelF.of_eq (s' := s'.setToSend [m']) rfl rfl rfl rfl rfl)).trans (relF_sendQueued _)

theorem relF_enqueueAndSend (s : Sess) (m : OutMsg) : RelF N S s (enqueueAndSend s m) := by
  unfold enqueueAndSend
  simp only []
  split
  · exact (RelF.of_eq (N := N) (S := S) (s := s) (s' := (s.setToSend []).setToSend ((s.setToSend []).toSend ++ [m])) rfl rfl rfl rfl rfl).trans (relF_sendQueued _)
  · exact (RelF.of_eq (N := N) (S := S) (s := s) (s' := s.setToSend (s.toSend ++ [m])) rfl rfl rfl rfl rfl).trans (relF_sendQueued _)

theorem relF_dropAndReset (s : Sess) (hro : ResetOK N S) : RelF N S s (dropAndReset s) := by
  unfold dropAndReset
  exact (RelF.of_eq (N := N) (S := S) (s := s) (s' := s.setToSend []) rfl rfl rfl rfl rfl).trans (relF_storeReset _ hro)

omit hp in
theorem resetLogon_logonMsgX (s : Sess) (reset : Bool) (nx : Option Int) : resetLogon (logonMsgX s reset nx) = reset := by
  unfold resetLogon logonMsgX mkOut nxTag
  cases reset <;> cases nx <;> simp [Fields.get?] <;> split <;> simp

omit hp in
theorem resetLogon_logonMsg (s : Sess) (reset : Bool) : resetLogon (logonMsg s reset) = reset := resetLogon_logonMsgX s reset _

theorem relF_sendLogonInReplyTo (s : Sess) (reset : Bool) (h : ResetOK N S ∨ reset = false) : RelF N S s (sendLogonInReplyTo s reset) :=
  relF_dropAndSend s _ (by rw [resetLogon_logonMsg]; exact h)

theorem relF_sendLogonRe (s : Sess) (reset : Bool) (m : InMsg) (h : ResetOK N S ∨ reset = false) : RelF N S s (sendLogonRe s reset m) :=
  relF_dropAndSend s _ (by rw [resetLogon_re]; unfold logonMsgRe; rw [resetLogon_logonMsgX]; exact h)

theorem relF_sendLogout (s : Sess) : RelF N S s (sendLogout s) := relF_sendInReplyTo s _ (Or.inr rfl)
theorem relF_initiateLogout (s : Sess) : RelF N S s (initiateLogout s) := relF_sendLogout s

theorem relF_sendResendRequest (s : Sess) (b e : Int) : RelF N S s (sendResendRequest s b e).1 := by
  unfold sendResendRequest
  simp only []
  split <;> exact relF_sendInReplyTo s _ (Or.inr rfl)

omit hp in
theorem resetLogon_rejectMsg (cfg : Cfg) (m : InMsg) (r : Nat) (t : Option Nat) (b : Bool) : resetLogon (rejectMsg cfg m r t b) = false := by
  unfold rejectMsg resetLogon
  simp only []
  split
  · split <;> simp [mkOut]
  · simp [mkOut]

theorem relF_doReject (s : Sess) (m : InMsg) (r : Nat) (t : Option Nat) (b : Bool) : RelF N S s (doReject s m r t b) :=
  relF_sendInReplyTo s _ (Or.inr (by rw [resetLogon_re]; exact resetLogon_rejectMsg _ _ _ _ _))

/-! ### composition: peel the outermost model function -/
section peel
variable {s x : Sess}
theorem rpeel_incrTarget (h : RelF N S s x) : RelF N S s (incrTarget x) := h.trans (relF_incrTarget x)
theorem rpeel_doReject (m : InMsg) (r : Nat) (t : Option Nat) (b : Bool) (h : RelF N S s x) : RelF N S s (doReject x m r t b) := h.trans (relF_doReject x m r t b)
theorem rpeel_initiateLogout (h : RelF N S s x) : RelF N S s (initiateLogout x) := h.trans (relF_initiateLogout x)
theorem rpeel_sendLogout (h : RelF N S s x) : RelF N S s (sendLogout x) := h.trans (relF_sendLogout x)
theorem rpeel_sendInReplyTo (m : OutMsg) (hm : ResetOK N S ∨ resetLogon m = false) (h : RelF N S s x) : RelF N S s (sendInReplyTo x m) := h.trans (relF_sendInReplyTo x m hm)
theorem rpeel_dropAndSend (m : OutMsg) (hm : ResetOK N S ∨ resetLogon m = false) (h : RelF N S s x) : RelF N S s (dropAndSend x m) := h.trans (relF_dropAndSend x m hm)
theorem rpeel_dropAndReset (hro : ResetOK N S) (h : RelF N S s x) : RelF N S s (dropAndReset x) := h.trans (relF_dropAndReset x hro)
theorem rpeel_storeReset (hro : ResetOK N S) (h : RelF N S s x) : RelF N S s x.storeReset := h.trans (relF_storeReset x hro)
theorem rpeel_enqueueAndSend (m : OutMsg) (h : RelF N S s x) : RelF N S s (enqueueAndSend x m) := h.trans (relF_enqueueAndSend x m)
theorem rpeel_sendQueued (h : RelF N S s x) : RelF N S s (sendQueued x) := h.trans (relF_sendQueued x)
theorem rpeel_sendLogonInReplyTo (r : Bool) (hr : ResetOK N S ∨ r = false) (h : RelF N S s x) : RelF N S s (sendLogonInReplyTo x r) := h.trans (relF_sendLogonInReplyTo x r hr)
theorem rpeel_sendResendRequest (b e : Int) (h : RelF N S s x) : RelF N S s (sendResendRequest x b e).1 := h.trans (relF_sendResendRequest x b e)
theorem rpeel_sendLogonRe (r : Bool) (m : InMsg) (hr : ResetOK N S ∨ r = false) (h : RelF N S s x) : RelF N S s (sendLogonRe x r m) := h.trans (relF_sendLogonRe x r m hr)
theorem rpeel_setReplyLast (v : Option Int) (h : RelF N S s x) : RelF N S s (x.setReplyLast v) := h.trans (RelF.of_eq rfl rfl rfl rfl rfl)
theorem rpeel_emit (o : Obs) (ho : N o) (h : RelF N S s x) : RelF N S s (x.emit o) := h.trans (RelF.emit x o ho)
theorem rpeel_emit_arm (n : Int) (h : RelF N S s x) : RelF N S s (x.emit (.armPeer n)) := rpeel_emit _ (hp.nArm n) h
theorem rpeel_emit_closed (h : RelF N S s x) : RelF N S s (x.emit .closed) := rpeel_emit _ hp.nClosed h
theorem rpeel_emit_onLogout (h : RelF N S s x) : RelF N S s (x.emit .onLogout) := rpeel_emit _ hp.nOnLogout h
theorem rpeel_emit_refresh (h : RelF N S s x) : RelF N S s (x.emit .refresh) := rpeel_emit _ hp.nRefresh h
theorem rpeel_setHb (v : Int) (h : RelF N S s x) : RelF N S s (x.setHb v) := h.trans (RelF.of_eq rfl rfl rfl rfl rfl)
theorem rpeel_setSentReset (b : Bool) (h : RelF N S s x) : RelF N S s (x.setSentReset b) := h.trans (RelF.of_eq rfl rfl rfl rfl rfl)
theorem rpeel_setToSend (q : List OutMsg) (h : RelF N S s x) : RelF N S s (x.setToSend q) := h.trans (RelF.of_eq rfl rfl rfl rfl rfl)
theorem rpeel_setOut (b : Bool) (h : RelF N S s x) : RelF N S s (x.setOut b) := h.trans (RelF.of_eq rfl rfl rfl rfl rfl)
theorem rpeel_setPendingStop (h : RelF N S s x) : RelF N S s x.setPendingStop := h.trans (RelF.of_eq rfl rfl rfl rfl rfl)
theorem rpeel_setStopped (h : RelF N S s x) : RelF N S s x.setStopped := h.trans (RelF.of_eq rfl rfl rfl rfl rfl)
omit hp in
theorem rpeel_ite {a b : Sess} (c : Prop) [Decidable c] (ha : RelF N S s a) (hb : RelF N S s b) : RelF N S s (if c then a else b) := by
  split <;> assumption
end peel
end

/-- one peeling step -/
syntax "rel_step" : tactic
macro_rules | `(tactic| rel_step) => `(tactic| assumption)
macro_rules | `(tactic| rel_step) => `(tactic| exact RelF.refl _)
macro_rules | `(tactic| rel_step) => `(tactic| apply rpeel_incrTarget)
macro_rules | `(tactic| rel_step) => `(tactic| apply rpeel_doReject)
macro_rules | `(tactic| rel_step) => `(tactic| apply rpeel_initiateLogout)
macro_rules | `(tactic| rel_step) => `(tactic| apply rpeel_sendLogout)
macro_rules | `(tactic| rel_step) => `(tactic| apply rpeel_sendInReplyTo _ (Or.inr rfl))
macro_rules | `(tactic| rel_step) => `(tactic| apply rpeel_dropAndSend _ (Or.inr rfl))
macro_rules | `(tactic| rel_step) => `(tactic| apply rpeel_dropAndReset (by assumption))
macro_rules | `(tactic| rel_step) => `(tactic| apply rpeel_storeReset (by assumption))
macro_rules | `(tactic| rel_step) => `(tactic| apply rpeel_enqueueAndSend)
macro_rules | `(tactic| rel_step) => `(tactic| apply rpeel_sendQueued)
macro_rules | `(tactic| rel_step) => `(tactic| apply rpeel_sendLogonInReplyTo _ (by first | exact Or.inl (by assumption) | exact Or.inr rfl | assumption))
macro_rules | `(tactic| rel_step) => `(tactic| apply rpeel_sendResendRequest)
macro_rules | `(tactic| rel_step) => `(tactic| apply rpeel_sendLogonRe _ _ (by first | exact Or.inl (by assumption) | exact Or.inr rfl | assumption))
macro_rules | `(tactic| rel_step) => `(tactic| apply rpeel_setReplyLast)
macro_rules | `(tactic| rel_step) => `(tactic| apply rpeel_emit _ (by assumption))
macro_rules | `(tactic| rel_step) => `(tactic| apply rpeel_emit_arm)
macro_rules | `(tactic| rel_step) => `(tactic| apply rpeel_emit_closed)
macro_rules | `(tactic| rel_step) => `(tactic| apply rpeel_emit_onLogout)
macro_rules | `(tactic| rel_step) => `(tactic| apply rpeel_emit_refresh)
macro_rules | `(tactic| rel_step) => `(tactic| apply rpeel_setHb)
macro_rules | `(tactic| rel_step) => `(tactic| apply rpeel_setSentReset)
macro_rules | `(tactic| rel_step) => `(tactic| apply rpeel_setToSend)
macro_rules | `(tactic| rel_step) => `(tactic| apply rpeel_setOut)
macro_rules | `(tactic| rel_step) => `(tactic| apply rpeel_setPendingStop)
macro_rules | `(tactic| rel_step) => `(tactic| apply rpeel_setStopped)
macro_rules | `(tactic| rel_step) => `(tactic| apply rpeel_ite)

macro "rel_peel" : tactic => `(tactic| with_reducible (repeat rel_step))

macro "rel_cases" : tactic => `(tactic| (
  (repeat' split)
  all_goals (try dsimp only)
  all_goals (repeat' split)
  all_goals (try dsimp only)
  all_goals (repeat' split)
  all_goals (try dsimp only)
  all_goals rel_peel))

section
variable {N : Obs → Prop} {S : Store → Store → Prop} [hp : Policy N S]

theorem relF_doTargetTooLow (s : Sess) (m : InMsg) : RelF N S s (doTargetTooLow s m).1 := by
  unfold doTargetTooLow
  rel_cases

/-! ### the pool of inbound messages: what is buffered or stashed satisfies `P` -/

def stashOf : SState → List (Int × InMsg)
  | .resend st _ _ | .pendingResend st _ _ => st
  | _ => []

def StashOK (P : InMsg → Prop) (st : SState) : Prop := ∀ p ∈ stashOf st, P p.2

def PoolInv (P : InMsg → Prop) (s : Sess) : Prop := (∀ m ∈ s.inbox, P m) ∧ StashOK P s.st

omit hp in
theorem curResend_stash {s : Sess} {st : List (Int × InMsg)} {c f : Int} (h : curResend s = some (st, c, f)) : st = stashOf s.st := by
  unfold curResend at h
  split at h
  · rename_i heq; cases h; rw [heq]; rfl
  · rename_i heq
    split at h
    · cases h; rw [heq]; rfl
    · cases h
  · cases h

omit hp in
theorem stashInsert_ok {P : InMsg → Prop} (st : List (Int × InMsg)) (n : Int) (m : InMsg) (hm : P m) (hs : ∀ p ∈ st, P p.2) :
    ∀ p ∈ stashInsert st n m, P p.2 := by
  intro p hp
  unfold stashInsert at hp
  rcases List.mem_cons.1 hp with rfl | hp
  · exact hm
  · exact hs p (List.mem_filter.1 hp).1

/-- outcome of a handler: related session, and the next state's stash stays within the pool -/
structure HOut (N : Obs → Prop) (S : Store → Store → Prop) (P : InMsg → Prop) (s : Sess) (r : Sess × SState) : Prop where
  rel : RelF N S s r.1
  stash : StashOK P r.2

omit hp in
theorem stashOK_plain {P : InMsg → Prop} (st : SState) (h : stashOf st = []) : StashOK P st := by
  intro p hp; rw [h] at hp; cases hp

theorem hout_doTargetTooLow {P : InMsg → Prop} (s : Sess) (m : InMsg) : HOut N S P s (doTargetTooLow s m) := by
  refine ⟨relF_doTargetTooLow s m, ?_⟩
  unfold doTargetTooLow
  repeat' split
  all_goals (try dsimp only)
  all_goals (repeat' split)
  all_goals exact stashOK_plain _ rfl

theorem hout_processReject {P : InMsg → Prop} (s : Sess) (m : InMsg) (r : Rej) (hm : P m) (hs : StashOK P s.st) :
    HOut N S P s (processReject s m r) := by
  unfold processReject
  split
  · split
    · rename_i st c f hcur
      refine ⟨RelF.refl s, ?_⟩
      have := curResend_stash hcur
      subst this
      exact stashInsert_ok _ _ _ hm hs
    · split
      rename_i recv exp _ _ _ _ _ _ heq
      refine ⟨?_, ?_⟩
      · have := relF_sendResendRequest (N := N) (S := S) s exp (recv - 1)
        rw [heq] at this; exact this
      · exact stashInsert_ok _ _ _ hm (by intro p hp; cases hp)
  · exact hout_doTargetTooLow s m
  · exact ⟨by rel_peel, stashOK_plain _ rfl⟩
  · exact ⟨by rel_peel, stashOK_plain _ rfl⟩
  · split
    · exact ⟨by rel_peel, stashOK_plain _ rfl⟩
    · exact ⟨by rel_peel, stashOK_plain _ rfl⟩

/-! ### handlers -/

/-- what the policy must allow for one inbound message `m` of the pool -/
structure MsgHyp (N : Obs → Prop) (S : Store → Store → Prop) (P : InMsg → Prop) (cfg : Cfg) (m : InMsg) : Prop where
  p : P m
  /-- the callback observation is allowed once the message-level gate holds -/
  cb : GateMsg cfg m → ∀ s' : Sess, N (cbObs s' m)
  /-- a Logon is shown to FromAdmin after validation only -/
  cbA : kindOf m = "A" → Valid cfg m → ∀ s' : Sess, N (cbObs s' m)
  onLogon : kindOf m = "A" → GateMsg cfg m → callbackVerdict m = none → N .onLogon
  ro : ResetOK N S ∨ (kindOf m = "A" → logonResetFlag m = false)

def NoResetCfg (cfg : Cfg) : Prop := cfg.resetOnLogon = false ∧ cfg.resetOnLogout = false ∧ cfg.resetOnDisconnect = false

def CfgHyp (N : Obs → Prop) (S : Store → Store → Prop) (cfg : Cfg) : Prop := ResetOK N S ∨ NoResetCfg cfg

theorem relF_verifySelect {P : InMsg → Prop} (s : Sess) (m : InMsg) (th tl ai : Bool) (h : MsgHyp N S P s.cfg m) :
    RelF N S s (verifySelect s m th tl ai).1 := by
  rcases verifySelect_cases s m th tl ai with h1 | ⟨_, hg, _, _, he⟩
  · rw [h1]; exact RelF.refl s
  · rw [he]; exact RelF.emit s _ (h.cb hg s)

theorem relF_verifySelect_eq {P : InMsg → Prop} {s : Sess} {m : InMsg} {th tl ai : Bool} {r : Sess × Option Rej}
    (hr : verifySelect s m th tl ai = r) (h : MsgHyp N S P s.cfg m) : RelF N S s r.1 := by
  rw [← hr]; exact relF_verifySelect s m th tl ai h

omit hp in
theorem MsgHyp.of_cfg {P : InMsg → Prop} {cfg cfg' : Cfg} {m : InMsg} (h : MsgHyp N S P cfg m) (hc : cfg' = cfg) : MsgHyp N S P cfg' m := by
  rw [hc]; exact h

theorem hout_trans {P : InMsg → Prop} {s x : Sess} {r : Sess × SState} (h1 : RelF N S s x) (h2 : HOut N S P x r) : HOut N S P s r :=
  ⟨h1.trans h2.rel, h2.stash⟩

omit hp in
theorem StashOK.of_st {P : InMsg → Prop} {s x : Sess} (h : StashOK P s.st) (hx : x.st = s.st) : StashOK P x.st := by rw [hx]; exact h

/-- after a failed verification: the reaction -/
theorem hout_reject {P : InMsg → Prop} {s x : Sess} (m : InMsg) (r : Rej) (hm : P m) (hs : StashOK P s.st) (h : RelF N S s x) :
    HOut N S P s (processReject x m r) :=
  hout_trans h (hout_processReject x m r hm (hs.of_st h.st))

theorem hout_handleTestRequest {P : InMsg → Prop} (s : Sess) (m : InMsg) (h : MsgHyp N S P s.cfg m) (hs : StashOK P s.st) :
    HOut N S P s (handleTestRequest s m) := by
  unfold handleTestRequest
  have hv := relF_verifySelect s m true true true h
  generalize verifySelect s m true true true = r at hv
  obtain ⟨s', o⟩ := r
  cases o with
  | some r => exact hout_reject m r h.p hs hv
  | none =>
    dsimp only
    refine ⟨?_, stashOK_plain _ rfl⟩
    dsimp only
    split
    · exact (hv.trans (relF_sendInReplyTo _ _ (Or.inr rfl))).trans (relF_incrTarget _)
    · exact hv.trans (relF_incrTarget _)

theorem hout_handleLogout {P : InMsg → Prop} (s : Sess) (m : InMsg) (h : MsgHyp N S P s.cfg m) (hc : CfgHyp N S s.cfg)
    (hs : StashOK P s.st) : HOut N S P s (handleLogout s m) := by
  unfold handleLogout
  have hv := relF_verifySelect s m false false true h
  generalize verifySelect s m false false true = r at hv
  obtain ⟨s', o⟩ := r
  cases o with
  | some r => exact hout_reject m r h.p hs hv
  | none =>
    dsimp only
    generalize hs2 : (if s'.st.loggedOn = true then sendInReplyTo s' ((mkOut "5" []).inReplyTo m) else s') = s2
    have h2 : RelF N S s s2 := by rw [← hs2]; rel_peel
    split
    · rename_i hr
      rcases hc with hro | hno
      · exact ⟨by rel_peel, stashOK_plain _ rfl⟩
      · rw [h2.cfg, hno.2.1] at hr; cases hr
    · refine ⟨?_, ?_⟩
      · rel_cases
      · repeat' split
        all_goals exact stashOK_plain _ rfl

theorem hout_handleSequenceReset_core {P : InMsg → Prop} (s : Sess) (m : InMsg) (gf : Bool) (h : MsgHyp N S P s.cfg m) (hs : StashOK P s.st) :
    HOut N S P s (match verifySelect s m gf gf true with
      | (s, some r) => processReject s m r
      | (s, none) =>
        match getInt m 36 with
        | .val n =>
          if n > s.store.target then ((s.setTarget n).emit (.setT n), SState.inSession)
          else if n < s.store.target then (doReject s m 5 none false, SState.inSession)
          else (s, SState.inSession)
        | _ => (s, SState.inSession)) := by
  have hv := relF_verifySelect s m gf gf true h
  generalize verifySelect s m gf gf true = r at hv
  obtain ⟨s', o⟩ := r
  cases o with
  | some r => exact hout_reject m r h.p hs hv
  | none =>
    dsimp only
    split
    · split
      · rename_i n _ hgt
        exact ⟨hv.trans (relF_setT s' n (by omega)), stashOK_plain _ rfl⟩
      · split
        · exact ⟨by rel_peel, stashOK_plain _ rfl⟩
        · exact ⟨hv, stashOK_plain _ rfl⟩
    · exact ⟨hv, stashOK_plain _ rfl⟩

theorem hout_handleSequenceReset {P : InMsg → Prop} (s : Sess) (m : InMsg) (h : MsgHyp N S P s.cfg m) (hs : StashOK P s.st) :
    HOut N S P s (handleSequenceReset s m) := by
  unfold handleSequenceReset
  split
  · exact hout_processReject s m _ h.p hs
  · exact hout_handleSequenceReset_core s m _ h hs

theorem relF_resendLoop (s : Sess) (a b : Int) (l : List (Int × OutMsg)) : RelF N S s (resendLoop s a b l).1 := by
  induction l generalizing s a b with
  | nil => exact RelF.refl s
  | cons p rest ih =>
    obtain ⟨n, m⟩ := p
    simp only [resendLoop]
    split
    · exact ih s a (n + 1)
    · split
      · exact ih s a (n + 1)
      · try dsimp only
        split
        · exact ((relF_enqueueAndSend s _).trans (relF_enqueueAndSend _ _)).trans (ih _ _ _)
        · exact (relF_enqueueAndSend s _).trans (ih _ _ _)

theorem relF_resendMessages (s : Sess) (b e : Int) : RelF N S s (resendMessages s b e) := by
  unfold resendMessages
  split
  · exact RelF.refl s
  · split
    · exact relF_enqueueAndSend s _
    · have hl := relF_resendLoop (N := N) (S := S) s b b (s.store.range b e)
      generalize resendLoop s b b (s.store.range b e) = r at hl
      obtain ⟨s', x, y⟩ := r
      try dsimp only at hl ⊢
      split
      · exact hl.trans (relF_enqueueAndSend s' _)
      · exact hl

theorem rpeel_resendMessages {s x : Sess} (b e : Int) (h : RelF N S s x) : RelF N S s (resendMessages x b e) :=
  h.trans (relF_resendMessages x b e)
end
macro_rules | `(tactic| rel_step) => `(tactic| apply rpeel_resendMessages)
section
variable {N : Obs → Prop} {S : Store → Store → Prop} [hp : Policy N S]

theorem hout_handleResendRequest {P : InMsg → Prop} (s : Sess) (m : InMsg) (h : MsgHyp N S P s.cfg m) (hs : StashOK P s.st) :
    HOut N S P s (handleResendRequest s m) := by
  unfold handleResendRequest
  have hv := relF_verifySelect s m false false true h
  generalize verifySelect s m false false true = r at hv
  obtain ⟨s', o⟩ := r
  cases o with
  | some r => exact hout_reject m r h.p hs hv
  | none =>
    dsimp only
    split
    · split
      · refine ⟨?_, ?_⟩
        · rel_cases
        · repeat' split
          all_goals exact stashOK_plain _ rfl
      · exact hout_reject m _ h.p hs hv
    · exact hout_reject m _ h.p hs hv

/-! ### Logon -/

theorem relF_logonReply (s : Sess) (m : InMsg) (flag : Bool) (h : ResetOK N S ∨ flag = false) : RelF N S s (logonReply s m flag) := by
  unfold logonReply
  rel_cases

theorem relF_nxEval (s : Sess) (m : InMsg) (ns : Int) : RelF N S s (nxEval s m ns).1 := by
  unfold nxEval
  rel_cases

theorem relF_logonFinish (s : Sess) (m : InMsg) (ns : Int) (h : N .onLogon) : RelF N S s (logonFinish s m ns).1 := by
  unfold logonFinish
  have h0 : RelF N S s (nxEval (((s.setSentReset false).emit (.armPeer (1200 * s.hb))).emit .onLogon) m ns).1 :=
    RelF.trans (by rel_peel) (relF_nxEval _ m ns)
  generalize nxEval _ m ns = r at h0
  obtain ⟨x, o⟩ := r
  cases o with
  | some r => exact h0
  | none =>
    dsimp only at h0 ⊢
    rel_cases

theorem relF_logonRefused (s : Sess) (m : InMsg) : RelF N S s (logonRefused s m) := by
  unfold logonRefused
  rel_cases

theorem relF_logonTail (s : Sess) (m : InMsg) (ns : Int) (hflag : ResetOK N S ∨ logonResetFlag m = false) (h : N .onLogon) :
    RelF N S s (logonTail s m ns).1 := by
  unfold logonTail
  split
  · exact relF_logonRefused s m
  · exact (relF_logonReply s m _ hflag).trans (relF_logonFinish _ m _ h)

/-- what the policy must allow for one inbound Logon `m` processed in state `s` -/
structure LogonHyp (N : Obs → Prop) (S : Store → Store → Prop) (s : Sess) (m : InMsg) : Prop where
  cbA : Valid s.cfg m → ∀ s' : Sess, N (cbObs s' m)
  onLogon : GateMsg s.cfg m → TimeGate s m → callbackVerdict m = none → N .onLogon
  ro : ResetOK N S ∨ logonResetFlag m = false

omit hp in
theorem MsgHyp.logon {P : InMsg → Prop} {s : Sess} {m : InMsg} (h : MsgHyp N S P s.cfg m) (hk : kindOf m = "A") : LogonHyp N S s m :=
  ⟨h.cbA hk, fun hg _ hv => h.onLogon hk hg hv, by
    rcases h.ro with hro | hf
    · exact Or.inl hro
    · exact Or.inr (hf hk)⟩

omit hp in
theorem curResend_congr {a b : Sess} (h1 : a.st = b.st) (h2 : a.cfg = b.cfg) : curResend a = curResend b := by
  unfold curResend; rw [h1, h2]

omit hp in
theorem timeGate_congr {a b : Sess} (m : InMsg) (h1 : a.st = b.st) (h2 : a.cfg = b.cfg) (h : TimeGate b m) : TimeGate a m := by
  unfold TimeGate at h ⊢; rw [curResend_congr h1 h2, h2]; exact h

theorem relF_handleLogon' (s : Sess) (m : InMsg) (h : LogonHyp N S s m)
    (hc : CfgHyp N S s.cfg) : RelF N S s (handleLogon s m).1 := by
  unfold handleLogon
  split
  · exact RelF.refl s
  · generalize hs1 : (if (!s.cfg.initiator && s.cfg.refreshOnLogon) = true then s.emit Obs.refresh else s) = s1
    have h1 : RelF N S s s1 := by rw [← hs1]; rel_peel
    simp only []
    rcases verifyAppImpl_cases s1 m with ⟨hne, he⟩ | ⟨_, r, he⟩
    · rw [he]
      rw [h1.cfg] at hne
      have h2 : RelF N S s (s1.emit (cbObs s1 m)) := h1.trans (RelF.emit _ _ (h.cbA hne s1))
      generalize s1.emit (cbObs s1 m) = s2 at h2
      cases hcv : callbackVerdict m with
      | some r => exact h2
      | none =>
        simp only []
        generalize hs3 : (if ((if s2.cfg.initiator = true then false else s2.cfg.resetOnLogon) || logonResetFlag m && !s2.sentReset) = true
            then dropAndReset s2 else s2) = s3
        have hflag : ResetOK N S ∨ logonResetFlag m = false := h.ro
        have h3 : RelF N S s s3 := by
          rw [← hs3]
          by_cases hr : ((if s2.cfg.initiator = true then false else s2.cfg.resetOnLogon) || logonResetFlag m && !s2.sentReset) = true
          · rw [if_pos hr]
            rcases hc with hro | hno
            · rel_peel
            · rcases hflag with hro | hf
              · rel_peel
              · rw [h2.cfg, hno.1, hf] at hr; simp at hr
          · rw [if_neg hr]; exact h2
        have hv1 := verifySelect_noApp s3 m false true
        have hv2 := verifySelect_pass s3 m false true false
        generalize verifySelect s3 m false true false = r2 at hv1 hv2
        obtain ⟨s4, o2⟩ := r2
        simp only [] at hv1 hv2
        subst hv1
        cases o2 with
        | some r => exact h3
        | none =>
          obtain ⟨hb, hcc, htg, _, _⟩ := hv2 rfl
          rw [h3.cfg] at hb hcc
          have htg' : TimeGate s m := timeGate_congr m h3.st.symm h3.cfg.symm htg
          exact h3.trans (relF_logonTail _ m _ hflag (h.onLogon ⟨hb, hcc, hne⟩ htg' hcv))
    · rw [he]; exact h1

theorem relF_handleLogon {P : InMsg → Prop} (s : Sess) (m : InMsg) (hk : kindOf m = "A") (h : MsgHyp N S P s.cfg m)
    (hc : CfgHyp N S s.cfg) : RelF N S s (handleLogon s m).1 := relF_handleLogon' s m (h.logon hk) hc

/-! ### dispatch -/

omit hp in
theorem kind_of_beq {m : InMsg} {k : String} (h : (kindOf m == k) = true) : kindOf m = k := by simpa using h

theorem hout_inSessionFixMsgIn {P : InMsg → Prop} (s : Sess) (m : InMsg) (h : MsgHyp N S P s.cfg m) (hc : CfgHyp N S s.cfg)
    (hs : StashOK P s.st) : HOut N S P s (inSessionFixMsgIn s m) := by
  unfold inSessionFixMsgIn
  simp only []
  split
  · rename_i hk
    have hl := relF_handleLogon s m (kind_of_beq hk) h hc
    generalize handleLogon s m = r at hl
    obtain ⟨s', o⟩ := r
    cases o with
    | some e => exact ⟨hl.trans (relF_sendInReplyTo s' ((mkOut "5" []).inReplyTo m) (Or.inr rfl)), stashOK_plain _ rfl⟩
    | none => exact ⟨hl, stashOK_plain _ rfl⟩
  · split
    · exact hout_handleLogout s m h hc hs
    · split
      · exact hout_handleResendRequest s m h hs
      · split
        · exact hout_handleSequenceReset s m h hs
        · split
          · exact hout_handleTestRequest s m h hs
          · have hv := relF_verifySelect s m true true true h
            generalize verifySelect s m true true true = r at hv
            obtain ⟨s', o⟩ := r
            cases o with
            | some r => exact hout_reject m r h.p hs hv
            | none => exact ⟨hv.trans (relF_incrTarget s'), stashOK_plain _ rfl⟩

/-- the hypotheses under which every message of the pool may be processed in configuration `cfg` -/
def PoolHyp (N : Obs → Prop) (S : Store → Store → Prop) (P : InMsg → Prop) (cfg : Cfg) : Prop := ∀ m, P m → MsgHyp N S P cfg m

theorem relF_drainStash {P : InMsg → Prop} (fuel : Nat) (s : Sess) (stash : List (Int × InMsg)) (last : SState)
    (hP : PoolHyp N S P s.cfg) (hc : CfgHyp N S s.cfg) (hs : StashOK P s.st) (hst : ∀ p ∈ stash, P p.2) (hl : StashOK P last) :
    RelF N S s (drainStash fuel s stash last).1 ∧ StashOK P (drainStash fuel s stash last).2.1
      ∧ ∀ p ∈ (drainStash fuel s stash last).2.2, P p.2 := by
  induction fuel generalizing s stash last with
  | zero => exact ⟨RelF.refl s, hl, hst⟩
  | succ n ih =>
    unfold drainStash
    split
    · exact ⟨RelF.refl s, hl, hst⟩
    · simp only []
      rename_i nn m hf
      have hm : P m := hst (nn, m) (List.mem_of_find?_eq_some hf)
      have h1 := hout_inSessionFixMsgIn s m (hP m hm) hc hs
      generalize inSessionFixMsgIn s m = r at h1
      obtain ⟨s', nx⟩ := r
      obtain ⟨h1r, h1s⟩ := h1
      simp only [] at h1r h1s ⊢
      have hst' : ∀ p ∈ stash.filter (fun x => x.1 != nn), P p.2 := fun p hp => hst p (List.mem_filter.1 hp).1
      split
      · exact ⟨h1r, h1s, hst'⟩
      · have := ih s' _ nx (by rw [h1r.cfg]; exact hP) (by rw [h1r.cfg]; exact hc) (hs.of_st h1r.st) hst' h1s
        exact ⟨h1r.trans this.1, this.2⟩

theorem relF_sRR_eq {s : Sess} {b e : Int} {r : Sess × Int × Int} (hr : sendResendRequest s b e = r) : RelF N S s r.1 := by
  rw [← hr]; exact relF_sendResendRequest s b e

theorem drain_eq {P : InMsg → Prop} {fuel : Nat} {s : Sess} {stash : List (Int × InMsg)} {last : SState}
    {r : Sess × SState × List (Int × InMsg)} (hr : drainStash fuel s stash last = r)
    (hP : PoolHyp N S P s.cfg) (hc : CfgHyp N S s.cfg) (hs : StashOK P s.st) (hst : ∀ p ∈ stash, P p.2) (hl : StashOK P last) :
    RelF N S s r.1 ∧ StashOK P r.2.1 ∧ ∀ p ∈ r.2.2, P p.2 := by
  rw [← hr]; exact relF_drainStash fuel s stash last hP hc hs hst hl

omit hp in
theorem stashOK_resend {P : InMsg → Prop} (st : List (Int × InMsg)) (c f : Int) (h : ∀ p ∈ st, P p.2) : StashOK P (.resend st c f) := h

theorem hout_resendFixMsgIn {P : InMsg → Prop} (s : Sess) (stash : List (Int × InMsg)) (cur fin : Int) (m : InMsg)
    (h : MsgHyp N S P s.cfg m) (hP : PoolHyp N S P s.cfg) (hc : CfgHyp N S s.cfg) (hs : StashOK P s.st)
    (hst : ∀ p ∈ stash, P p.2) : HOut N S P s (resendFixMsgIn s stash cur fin m) := by
  unfold resendFixMsgIn
  have h1 := hout_inSessionFixMsgIn s m h hc hs
  generalize inSessionFixMsgIn s m = r at h1
  obtain ⟨s', nx⟩ := r
  obtain ⟨h1r, h1s⟩ := h1
  simp only [] at h1r h1s ⊢
  split
  · exact ⟨h1r, h1s⟩
  · have hP' : PoolHyp N S P s'.cfg := by rw [h1r.cfg]; exact hP
    have hc' : CfgHyp N S s'.cfg := by rw [h1r.cfg]; exact hc
    have hs' : StashOK P s'.st := hs.of_st h1r.st
    repeat' split
    all_goals (try dsimp only)
    all_goals first
      | exact ⟨h1r, stashOK_plain _ rfl⟩
      | exact ⟨h1r, hst⟩
      | exact ⟨h1r, h1s⟩
      | exact ⟨h1r.trans (relF_sendResendRequest _ _ _), hst⟩
      | exact ⟨h1r.trans (relF_sendResendRequest _ _ _), h1s⟩
      | (have hd := drain_eq (N := N) (S := S) (by assumption) hP' hc' hs' (by split <;> first | exact h1s | exact hst) h1s
         refine ⟨h1r.trans hd.1, ?_⟩
         first
           | exact hd.2.1
           | exact hd.2.2)

theorem relF_shutdownWithReason (s : Sess) (m : InMsg) (incr : Bool) : RelF N S s (shutdownWithReason s m incr).1 := by
  unfold shutdownWithReason
  show RelF N S s (if incr = true then incrTarget (dropAndSend s ((mkOut "5" []).inReplyTo m)) else dropAndSend s ((mkOut "5" []).inReplyTo m))
  rel_peel

theorem relF_handleLogon_eq {s : Sess} {m : InMsg} {r : Sess × Option LogonErr} (hr : handleLogon s m = r)
    (h : LogonHyp N S s m) (hc : CfgHyp N S s.cfg) : RelF N S s r.1 := by
  rw [← hr]; exact relF_handleLogon' s m h hc

omit hp in
theorem logonFixMsgIn_plain (s : Sess) (m : InMsg) : stashOf (logonFixMsgIn s m).2 = [] := by
  unfold logonFixMsgIn
  repeat' split
  all_goals rfl

theorem relF_logonFixMsgIn' (s : Sess) (m : InMsg) (h : kindOf m = "A" → LogonHyp N S s m) (hc : CfgHyp N S s.cfg) :
    RelF N S s (logonFixMsgIn s m).1 := by
  unfold logonFixMsgIn
  split
  · exact RelF.refl s
  · rename_i hk
    have hk' : kindOf m = "A" := by simpa using hk
    repeat' split
    all_goals (try dsimp only)
    all_goals (
      have hh := relF_handleLogon_eq (by assumption : handleLogon s m = _) (h hk') hc
      first
        | exact hh
        | exact hh.trans (relF_shutdownWithReason _ _ _)
        | exact hh.trans (relF_sRR_eq (by assumption))
        | exact hh.trans (relF_sendResendRequest _ _ _))

theorem hout_logonFixMsgIn {P : InMsg → Prop} (s : Sess) (m : InMsg) (h : MsgHyp N S P s.cfg m) (hc : CfgHyp N S s.cfg) :
    HOut N S P s (logonFixMsgIn s m) :=
  ⟨relF_logonFixMsgIn' s m (fun hk => h.logon hk) hc, stashOK_plain _ (logonFixMsgIn_plain s m)⟩

theorem hout_fixMsgInCore {P : InMsg → Prop} (s : Sess) (m : InMsg) (h : MsgHyp N S P s.cfg m) (hP : PoolHyp N S P s.cfg)
    (hc : CfgHyp N S s.cfg) (hs : StashOK P s.st) : HOut N S P s (fixMsgInCore s m) := by
  unfold fixMsgInCore
  split
  · exact ⟨RelF.refl s, stashOK_plain _ rfl⟩
  · exact ⟨RelF.refl s, stashOK_plain _ rfl⟩
  · exact hout_logonFixMsgIn s m h hc
  · have h1 := hout_inSessionFixMsgIn s m h hc hs
    generalize inSessionFixMsgIn s m = r at h1
    obtain ⟨s', nx⟩ := r
    dsimp only
    split <;> exact ⟨h1.rel, stashOK_plain _ rfl⟩
  · exact hout_inSessionFixMsgIn s m h hc hs
  · exact hout_inSessionFixMsgIn s m h hc hs
  · rename_i st c f heq
    exact hout_resendFixMsgIn s _ _ _ m h hP hc hs (by have := hs; rw [heq] at this; exact this)
  · rename_i st c f heq
    exact hout_resendFixMsgIn s _ _ _ m h hP hc hs (by have := hs; rw [heq] at this; exact this)

theorem relF_discMid (s : Sess) (hc : CfgHyp N S s.cfg) : RelF N S s (discMid s) := by
  unfold discMid
  simp only []
  generalize hs1 : (if (s.st.loggedOn || match s.st with | SState.logout => true | SState.logon => s.cfg.initiator | x => false) = true
      then s.emit Obs.onLogout else s) = s1
  have h1 : RelF N S s s1 := by rw [← hs1]; rel_peel
  have h2 : RelF N S s (if s1.cfg.resetOnDisconnect = true then dropAndReset s1 else s1) := by
    split
    · rename_i hr
      rcases hc with hro | hno
      · rel_peel
      · rw [h1.cfg, hno.2.2] at hr; cases hr
    · exact h1
  generalize (if s1.cfg.resetOnDisconnect = true then dropAndReset s1 else s1) = s2 at h2
  rel_peel

/-! ### the setState / drainIn / incoming / checkSessionTime block -/

/-- field updates that touch none of cfg / log / store -/
theorem Rel.of_eq {s s' : Sess} (h1 : s'.cfg = s.cfg) (h2 : s'.log = s.log) (h3 : s'.store = s.store) : Rel N S s s' :=
  ⟨h1, ⟨[], by simp [h2], by simp⟩, by rw [h3]; exact hp.sRefl _⟩

/-- related to `s`, and the pool invariant holds -/
def Good (N : Obs → Prop) (S : Store → Store → Prop) (P : InMsg → Prop) (s s' : Sess) : Prop := Rel N S s s' ∧ PoolInv P s'

theorem Good.refl {P : InMsg → Prop} {s : Sess} (h : PoolInv P s) : Good N S P s s := ⟨Rel.refl s, h⟩

theorem Good.trans {P : InMsg → Prop} {a b c : Sess} (h1 : Good N S P a b) (h2 : Good N S P b c) : Good N S P a c :=
  ⟨h1.1.trans h2.1, h2.2⟩

theorem Good.relF {P : InMsg → Prop} {a b c : Sess} (h1 : Good N S P a b) (h2 : RelF N S b c) : Good N S P a c :=
  ⟨h1.1.trans h2.toRel, ⟨by rw [h2.inbox]; exact h1.2.1, by unfold StashOK; rw [h2.st]; exact h1.2.2⟩⟩

theorem Good.setSt {P : InMsg → Prop} {a b : Sess} (h1 : Good N S P a b) (next : SState) (hn : StashOK P next) : Good N S P a (b.setSt next) :=
  ⟨h1.1.trans (Rel.of_eq rfl rfl rfl), ⟨h1.2.1, hn⟩⟩

theorem Good.closeInbox {P : InMsg → Prop} {a b : Sess} (h1 : Good N S P a b) : Good N S P a b.closeInbox :=
  ⟨h1.1.trans (Rel.of_eq rfl rfl rfl), ⟨(by intro m hm; cases hm), h1.2.2⟩⟩

theorem Good.setInbox {P : InMsg → Prop} {a b : Sess} (h1 : Good N S P a b) (ib : List InMsg) (hib : ∀ m ∈ ib, P m) : Good N S P a (b.setInbox ib) :=
  ⟨h1.1.trans (Rel.of_eq rfl rfl rfl), ⟨hib, h1.2.2⟩⟩

omit hp in
theorem Good.cfg {P : InMsg → Prop} {a b : Sess} (h1 : Good N S P a b) : b.cfg = a.cfg := h1.1.cfg

theorem rel_mutual {P : InMsg → Prop} (cfg : Cfg) (hP : PoolHyp N S P cfg) (hc : CfgHyp N S cfg) : ∀ fuel : Nat,
    (∀ s next, s.cfg = cfg → PoolInv P s → StashOK P next → Good N S P s (setState fuel s next)) ∧
    (∀ s, s.cfg = cfg → PoolInv P s → Good N S P s (drainIn fuel s)) ∧
    (∀ s m, s.cfg = cfg → PoolInv P s → (∀ x, m = some x → P x) → Good N S P s (incoming fuel s m)) ∧
    (∀ s a b, s.cfg = cfg → PoolInv P s → (b = true ∨ ResetOK N S) → Good N S P s (checkSessionTime fuel s a b)) := by
  intro fuel
  induction fuel with
  | zero =>
    refine ⟨?_, ?_, ?_, ?_⟩
    · intro s next _ h hn; unfold setState; exact (Good.refl h).setSt next hn
    · intro s _ h; unfold drainIn; exact Good.refl h
    · intro s m _ h _; unfold incoming; exact Good.refl h
    · intro s a b _ h _; unfold checkSessionTime; exact Good.refl h
  | succ n ih =>
    obtain ⟨ihS, ihD, ihI, ihC⟩ := ih
    refine ⟨?_, ?_, ?_, ?_⟩
    · intro s next hcfg h hn
      unfold setState
      simp only []
      split
      · generalize hx : (if s.st.connected = true then (drainIn n (discMid (drainIn n s))).closeInbox else s) = x
        have hxG : Good N S P s x := by
          rw [← hx]; split
          · have g1 := ihD s hcfg h
            have g2 := g1.relF (relF_discMid _ (by rw [g1.cfg, hcfg]; exact hc))
            have g3 := g2.trans (ihD _ (by rw [g2.cfg, hcfg]) g2.2)
            exact g3.closeInbox
          · exact Good.refl h
        have hx2 : Good N S P s (if x.pendingStop = true then x.setStopped else x) := by
          split
          · exact hxG.relF (RelF.of_eq rfl rfl rfl rfl rfl)
          · exact hxG
        exact hx2.setSt next hn
      · exact (Good.refl h).setSt next hn
    · intro s hcfg h
      unfold drainIn
      split
      · exact Good.refl h
      · split
        · exact Good.refl h
        · rename_i m rest heq
          have hm : P m := h.1 m (by rw [heq]; exact List.mem_cons_self)
          have hrest : ∀ x ∈ rest, P x := fun x hx => h.1 x (by rw [heq]; exact List.mem_cons_of_mem _ hx)
          have g1 : Good N S P s (s.setInbox rest) := (Good.refl h).setInbox rest hrest
          have g2 := g1.trans (ihI _ (some m) (by rw [g1.cfg, hcfg]) g1.2 (by intro x hx; cases hx; exact hm))
          exact g2.trans (ihD _ (by rw [g2.cfg, hcfg]) g2.2)
    · intro s m hcfg h hm
      unfold incoming
      simp only []
      have g1 := ihC s true true hcfg h (Or.inl rfl)
      generalize checkSessionTime n s true true = s1 at g1
      split
      · exact g1
      · have hcfg1 : s1.cfg = cfg := by rw [g1.cfg, hcfg]
        cases m with
        | none => exact g1.relF (by rel_peel)
        | some m =>
          simp only []
          have hmm : P m := hm m rfl
          have hf := hout_fixMsgInCore s1 m (by rw [hcfg1]; exact hP m hmm) (by rw [hcfg1]; exact hP) (by rw [hcfg1]; exact hc) g1.2.2
          generalize fixMsgInCore s1 m = r at hf
          obtain ⟨s2, nx⟩ := r
          obtain ⟨hfr, hfs⟩ := hf
          have g2 := g1.relF hfr
          have g3 := g2.trans (ihS s2 nx (by rw [g2.cfg, hcfg]) g2.2 hfs)
          exact g3.relF (by rel_peel)
    · intro s a b hcfg h hb
      unfold checkSessionTime
      simp only []
      split
      · have g1 : Good N S P s (if s.st.loggedOn = true then sendLogout s else s) := (Good.refl h).relF (by rel_peel)
        exact g1.trans (ihS _ _ (by rw [g1.cfg, hcfg]) g1.2 (stashOK_plain _ rfl))
      · generalize hx : (if (!s.st.sessionTime) = true then setState n s SState.latent else s) = x
        have hxG : Good N S P s x := by
          rw [← hx]; split
          · exact ihS _ _ hcfg h (stashOK_plain _ rfl)
          · exact Good.refl h
        split
        · rename_i hsame
          have hro : ResetOK N S := by
            rcases hb with hb | hb
            · rw [hb] at hsame; simp at hsame
            · exact hb
          have g2 : Good N S P s (dropAndReset (if x.st.loggedOn = true then sendLogout x else x)) := hxG.relF (by rel_peel)
          exact g2.trans (ihS _ _ (by rw [g2.cfg, hcfg]) g2.2 (stashOK_plain _ rfl))
        · exact hxG

/-! ### events -/

theorem relF_inSessionTimeout (s : Sess) (e : TimerEv) : RelF N S s (inSessionTimeout s e).1 := by
  unfold inSessionTimeout
  rel_cases

theorem relF_ist_eq {s : Sess} {e : TimerEv} {r : Sess × Bool} (hr : inSessionTimeout s e = r) : RelF N S s r.1 := by
  rw [← hr]; exact relF_inSessionTimeout s e

theorem hout_timeoutCore {P : InMsg → Prop} (s : Sess) (e : TimerEv) (hs : StashOK P s.st) : HOut N S P s (timeoutCore s e) := by
  unfold timeoutCore
  split
  all_goals (try (rename_i heq; rw [heq] at hs))
  all_goals (repeat' split)
  all_goals (try dsimp only)
  all_goals first
    | exact ⟨RelF.refl s, stashOK_plain _ rfl⟩
    | exact ⟨RelF.refl s, hs⟩
    | exact ⟨relF_ist_eq (by assumption), stashOK_plain _ rfl⟩
    | exact ⟨relF_ist_eq (by assumption), hs⟩
    | exact ⟨relF_inSessionTimeout s e, stashOK_plain _ rfl⟩
    | exact ⟨relF_inSessionTimeout s e, hs⟩

omit hp in
theorem shouldSendReset_false (s : Sess) (h : NoResetCfg s.cfg) : shouldSendReset s = false := by
  unfold shouldSendReset
  split
  · rfl
  · simp [h.1, h.2.1, h.2.2]

theorem good_connect {P : InMsg → Prop} (s : Sess) (hc : CfgHyp N S s.cfg) (h : PoolInv P s) : Good N S P s (connect s).1 := by
  unfold connect
  split
  · exact Good.refl h
  · split
    · dsimp only
      split
      · rename_i hr
        rcases hc with hro | hno
        · exact (Good.refl h).relF (by rel_peel)
        · rw [hno.2.2] at hr; cases hr
      · exact Good.refl h
    · have g0 : Good N S P s s.openConn := ⟨Rel.of_eq rfl rfl rfl, ⟨(by intro m hm; cases hm), h.2⟩⟩
      dsimp only
      split
      · exact g0.setSt _ (stashOK_plain _ rfl)
      · dsimp only
        refine Good.setSt ?_ _ (stashOK_plain _ rfl)
        generalize hs1 : (if s.openConn.cfg.refreshOnLogon = true then s.openConn.emit Obs.refresh else s.openConn) = s1
        have h1 : RelF N S s.openConn s1 := by rw [← hs1]; rel_peel
        generalize hs2 : (if s1.cfg.resetOnLogon = true then dropAndReset s1 else s1) = s2
        have h2 : RelF N S s.openConn s2 := by
          rw [← hs2]; split
          · rename_i hr
            rcases hc with hro | hno
            · rel_peel
            · have : s1.cfg = s.cfg := h1.cfg
              rw [this, hno.1] at hr; cases hr
          · exact h1
        refine g0.relF (h2.trans (relF_sendLogonInReplyTo _ _ ?_))
        rcases hc with hro | hno
        · exact Or.inl hro
        · exact Or.inr (shouldSendReset_false _ (by have : s2.cfg = s.cfg := h2.cfg; rw [this]; exact hno))

theorem hout_stopNext {P : InMsg → Prop} (s : Sess) (hs : StashOK P s.st) : HOut N S P s (stopNext s) := by
  unfold stopNext
  split
  all_goals first
    | exact ⟨relF_initiateLogout s, stashOK_plain _ rfl⟩
    | exact ⟨RelF.refl s, stashOK_plain _ rfl⟩
    | exact ⟨RelF.refl s, hs⟩

/-- what the policy needs to know about an event -/
def EvOK (N : Obs → Prop) (S : Store → Store → Prop) (P : InMsg → Prop) (cfg : Cfg) : Ev → Prop
  | .incomingMsg m => ∀ x, m = some x → P x
  | .arrive m => P m
  | .send m => ResetOK N S ∨ resetLogon m = false
  | .sessionTime _ sm => sm = true ∨ ResetOK N S
  | .resetTime _ => ResetOK N S ∨ cfg.resetSeqTime = none
  | _ => True

/-- CheckResetTime: nothing when ResetSeqTime is not configured; otherwise at most the reset Logon -/
theorem relF_checkResetTime (s : Sess) (now : Int) (h : ResetOK N S ∨ s.cfg.resetSeqTime = none) :
    RelF N S s (checkResetTime s now) := by
  have hset : ∀ x : Sess, RelF N S x (x.setLastChecked now) := fun x => RelF.of_eq rfl rfl rfl rfl rfl
  unfold checkResetTime
  split
  · exact RelF.refl s
  · rename_i rs hrs
    rcases h with hro | hno
    · repeat' split
      all_goals (try dsimp only)
      all_goals first
        | exact hset _
        | exact (relF_sendLogonInReplyTo _ _ (Or.inl hro)).trans (hset _)
    · rw [hno] at hrs; cases hrs

theorem good_stepCore {P : InMsg → Prop} (s : Sess) (e : Ev) (hP : PoolHyp N S P s.cfg) (hc : CfgHyp N S s.cfg) (h : PoolInv P s)
    (he : EvOK N S P s.cfg e) : Good N S P s (stepCore s e).1 := by
  obtain ⟨hS, hD, hI, hC⟩ := rel_mutual s.cfg hP hc (fuelOf s)
  unfold stepCore
  simp only []
  cases e with
  | connect => exact good_connect s hc h
  | incomingMsg m => exact hI s m rfl h he
  | arrive m =>
    dsimp only; split
    · exact (Good.refl h).setInbox _ (by
        intro x hx
        rcases List.mem_append.1 hx with hx | hx
        · exact h.1 x hx
        · simp at hx; subst hx; exact he)
    · exact Good.refl h
  | pop =>
    dsimp only
    split
    · exact Good.refl h
    · split
      · exact Good.refl h
      · rename_i m rest heq
        have hm : P m := h.1 m (by rw [heq]; exact List.mem_cons_self)
        have hrest : ∀ x ∈ rest, P x := fun x hx => h.1 x (by rw [heq]; exact List.mem_cons_of_mem _ hx)
        have g1 : Good N S P s (s.setInbox rest) := (Good.refl h).setInbox rest hrest
        exact g1.trans (hI _ (some m) g1.cfg g1.2 (by intro x hx; cases hx; exact hm))
  | timeout ev =>
    dsimp only
    have g1 := hC s true true rfl h (Or.inl rfl)
    have h2 := hout_timeoutCore (N := N) (S := S) _ ev g1.2.2
    generalize timeoutCore (checkSessionTime (fuelOf s) s true true) ev = r at h2
    obtain ⟨s2, nx⟩ := r
    have g2 := g1.relF h2.rel
    exact g2.trans (hS s2 nx g2.cfg g2.2 h2.stash)
  | disconnected =>
    dsimp only; split
    · exact hS _ _ rfl h (stashOK_plain _ rfl)
    · exact Good.refl h
  | stop =>
    dsimp only
    have g1 : Good N S P s s.setPendingStop := (Good.refl h).relF (RelF.of_eq rfl rfl rfl rfl rfl)
    have h2 := hout_stopNext (N := N) (S := S) s.setPendingStop g1.2.2
    generalize stopNext s.setPendingStop = r at h2
    obtain ⟨s2, nx⟩ := r
    have g2 := g1.relF h2.rel
    exact g2.trans (hS s2 nx g2.cfg g2.2 h2.stash)
  | send m =>
    dsimp only
    have h1 := relF_prep (N := N) (S := S) s m he
    generalize prep s m = r at h1
    obtain ⟨o, s2⟩ := r
    cases o with
    | none => exact (Good.refl h).relF h1
    | some m' => exact ((Good.refl h).relF h1).relF (RelF.of_eq rfl rfl rfl rfl rfl)
  | flush =>
    dsimp only
    have g1 := hC s true true rfl h (Or.inl rfl)
    split
    · exact g1.relF (relF_sendQueued _)
    · exact g1.relF (RelF.of_eq rfl rfl rfl rfl rfl)
  | sessionTime r sm => exact hC s r sm rfl h he
  | resetTime now => exact (Good.refl h).relF (relF_checkResetTime s now he)
end
end Qfx.Sess
