/-
  Lemmas for C12: the parser of Qfx.Model.Framer refines the whole-stream functions of Qfx.Spec.Framer
  under the abstraction  abs p = p.buf ++ (unread chunks).flatten.
-/
import Qfx.Model.Framer
import Qfx.Spec.Framer
import Qfx.Lemmas.Values
namespace Qfx.Framer
open Qfx Qfx.Spec

/-! ## bytes.Index -/

theorem isPrefixOf_iff (d s : Bytes) : d.isPrefixOf s = true ↔ d <+: s := List.isPrefixOf_iff_prefix

theorem indexOf_bound {d : Bytes} : ∀ {s : Bytes} {i : Nat}, indexOf d s = some i → i + d.length ≤ s.length := by
  intro s
  induction s with
  | nil =>
    intro i h
    simp only [indexOf] at h
    split at h
    · cases h; simp_all
    · cases h
  | cons x xs ih =>
    intro i h
    simp only [indexOf] at h
    split at h
    · rename_i hp
      cases h
      have := ((isPrefixOf_iff _ _).1 hp).length_le
      simpa using this
    · cases hx : indexOf d xs with
      | none => simp [hx] at h
      | some j =>
        simp only [hx, Option.map_some, Option.some.injEq] at h
        have := ih hx
        simp only [List.length_cons]; omega

/-- the first occurrence inside a prefix of the data stays the first occurrence when more data arrive -/
theorem indexOf_append {d : Bytes} : ∀ {s : Bytes} {i : Nat} (t : Bytes), indexOf d s = some i → indexOf d (s ++ t) = some i := by
  intro s
  induction s with
  | nil =>
    intro i t h
    simp only [indexOf] at h
    split at h
    · rename_i hd
      cases h
      have : d = [] := by simpa using hd
      subst this
      cases t <;> simp [indexOf]
    · cases h
  | cons x xs ih =>
    intro i t h
    have hb := indexOf_bound h
    simp only [indexOf] at h
    simp only [List.cons_append, indexOf]
    split at h
    · rename_i hp
      cases h
      have : d.isPrefixOf (x :: (xs ++ t)) = true := by
        rw [isPrefixOf_iff] at hp ⊢
        exact hp.trans (by simpa using List.prefix_append (x :: xs) t)
      simp [this]
    · rename_i hp
      cases hx : indexOf d xs with
      | none => simp [hx] at h
      | some j =>
        simp only [hx, Option.map_some, Option.some.injEq] at h
        have hnp : ¬ d.isPrefixOf (x :: (xs ++ t)) = true := by
          intro hq
          apply hp
          rw [isPrefixOf_iff] at hq ⊢
          have h2 : (x :: xs) <+: (x :: (xs ++ t)) := by simpa using List.prefix_append (x :: xs) t
          exact List.prefix_of_prefix_length_le hq h2 (by simp only [List.length_cons] at hb ⊢; omega)
        simp [hnp, ih t hx, h]

/-! ## the abstraction and the buffer invariant -/

/-- everything the parser has not yet turned into a frame: buffered bytes, then unread bytes -/
def abs (p : P) : Bytes := p.buf ++ p.rd.chunks.flatten

/-- the window fits into bigBuffer (`len(buffer) + spare = cap(buffer) ≤ len(bigBuffer)`) -/
def Inv (p : P) : Prop := p.buf.length + p.spare ≤ p.big

theorem inv_init (rd : Reader) : Inv (P.init rd) := by simp [Inv, P.init]

theorem abs_init (rd : Reader) : abs (P.init rd) = rd.chunks.flatten := by simp [abs, P.init]

theorem grow_spec (p : P) (h : Inv p) :
    Inv (grow p) ∧ (grow p).buf = p.buf ∧ (grow p).rd = p.rd ∧ 0 < (grow p).spare := by
  unfold Inv at *
  unfold grow
  split
  · rename_i hs
    split
    · rename_i hb
      have : p.buf.length = 0 := by omega
      have hnil : p.buf = [] := List.eq_nil_of_length_eq_zero this
      simp [defaultBufSize, hnil]
    · rename_i hb
      split
      · rename_i h2
        refine ⟨by simp only; omega, rfl, rfl, ?_⟩
        simp only; omega
      · rename_i h2
        refine ⟨by simp only; omega, rfl, rfl, ?_⟩
        simp only; omega
  · exact ⟨h, rfl, rfl, by omega⟩

theorem read_spec (r : Reader) (room : Nat) (hroom : 0 < room) :
    r.chunks.flatten = (r.read room).1 ++ (r.read room).2.2.chunks.flatten ∧
    (r.read room).1.length ≤ room ∧
    (((r.read room).1.length = 0 ∧ (r.read room).2.1 = true) → r.chunks.flatten = []) ∧
    (r.read room).2.2.endErr = r.endErr := by
  unfold Reader.read
  cases hc : r.chunks with
  | nil => simp [hc]
  | cons c cs =>
    simp only [List.flatten_cons, List.length_take]
    refine ⟨?_, by omega, ?_, trivial⟩
    · split
      · rename_i hk
        have : c.take (min c.length room) = c := by rw [hk]; exact List.take_length
        rw [this]
      · simp only [List.flatten_cons, ← List.append_assoc, List.take_append_drop]
    · intro ⟨h0, he⟩
      have hc0 : c.length = 0 := by omega
      have hcn : c = [] := List.eq_nil_of_length_eq_zero hc0
      subst hcn
      simp only [List.length_nil, Nat.zero_min, if_true, Bool.and_eq_true, List.isEmpty_iff] at he
      simp [he.2]

theorem readMore_spec {p : P} {n : Nat} {e : Bool} {p' : P} (hinv : Inv p) (h : readMore p = .ok (n, e, p')) :
    Inv p' ∧ abs p' = abs p ∧ p.buf.length ≤ p'.buf.length ∧ ((n = 0 ∧ e = true) → p.rd.chunks.flatten = []) ∧
    p'.rd.endErr = p.rd.endErr := by
  obtain ⟨gi, gb, gr, gs⟩ := grow_spec p hinv
  unfold readMore fill at h
  split at h
  · cases h
  · simp only [Res.ok.injEq, Prod.mk.injEq] at h
    obtain ⟨hn, he, hp⟩ := h
    obtain ⟨r1, r2, r3, r4⟩ := read_spec (grow p).rd (grow p).spare gs
    subst hp hn he
    unfold Inv at *
    simp only [abs, List.length_append]
    refine ⟨by omega, ?_, by rw [gb]; omega, ?_, ?_⟩
    · rw [gb, List.append_assoc, ← r1, gr]
    · intro hh; rw [← gr]; exact r3 hh
    · rw [r4, gr]

theorem readMore_no_fault {p : P} {w : String} (hinv : Inv p) (h : readMore p = .fault w) : False := by
  obtain ⟨_, _, _, gs⟩ := grow_spec p hinv
  unfold readMore fill at h
  split at h
  · omega
  · cases h

theorem readMore_no_err {p : P} {x : String} (h : readMore p = .err x) : False := by
  unfold readMore fill at h
  split at h <;> cases h

/-! ## the search loop: a function of `abs` alone -/

theorem findFrom_of_buf {off : Nat} {d : Bytes} {p : P} {j : Nat} (hle : ¬ off > p.buf.length)
    (hj : indexOf d (p.buf.drop off) = some j) : findFrom off d (abs p) = some (j + off) := by
  have hle' : off ≤ p.buf.length := by omega
  unfold findFrom abs
  have : off ≤ (p.buf ++ p.rd.chunks.flatten).length := by simp only [List.length_append]; omega
  simp only [this, if_true]
  rw [List.drop_append_of_le_length hle', indexOf_append _ hj]
  rfl

theorem findFrom_eof {off : Nat} {d : Bytes} {p : P} (hfl : p.rd.chunks.flatten = [])
    (h : off > p.buf.length ∨ indexOf d (p.buf.drop off) = none) : findFrom off d (abs p) = none := by
  unfold findFrom abs
  rw [hfl, List.append_nil]
  rcases h with h | h
  · have : ¬ off ≤ p.buf.length := by omega
    simp [this]
  · simp [h]

/-- `findIndexAfterOffset` returns the first occurrence at or after `off` in buffered ++ unread bytes, having pulled it
    (completely) into the buffer without disturbing `abs`; it fails with EOF exactly when there is none. -/
theorem findIdx_spec (off : Nat) (d : Bytes) (p : P) (hinv : Inv p) :
    (∀ i, findFrom off d (abs p) = some i →
        ∃ p', findIdx off d p = .ok (i, p') ∧ Inv p' ∧ abs p' = abs p ∧ i + d.length ≤ p'.buf.length ∧
          p.buf.length ≤ p'.buf.length ∧ p'.rd.endErr = p.rd.endErr) ∧
    (findFrom off d (abs p) = none → findIdx off d p = .err p.rd.endErr) := by
  fun_induction findIdx off d p with
  | case1 p hgt n e p1 hrm hne =>
    obtain ⟨_, _, _, hfl, _⟩ := readMore_spec hinv hrm
    have := findFrom_eof (off := off) (d := d) (hfl hne) (Or.inl hgt)
    simp [this]
  | case2 p hgt n e p1 hrm hne ih =>
    obtain ⟨hi1, ha1, hl1, _, he1⟩ := readMore_spec hinv hrm
    have := ih hi1
    rw [ha1, he1] at this
    refine ⟨?_, this.2⟩
    intro i hi
    obtain ⟨p', h1, h2, h3, h4, h5, h6⟩ := this.1 i hi
    exact ⟨p', h1, h2, h3, h4, by omega, h6⟩
  | case3 p hgt x hrm => exact (readMore_no_err hrm).elim
  | case4 p hgt w hrm => exact (readMore_no_fault hinv hrm).elim
  | case5 p hle j hidx =>
    have hf := findFrom_of_buf hle hidx
    rw [hf]
    refine ⟨?_, by simp⟩
    intro i hi
    simp only [Option.some.injEq] at hi
    subst hi
    refine ⟨p, rfl, hinv, rfl, ?_, Nat.le_refl _, rfl⟩
    have := indexOf_bound hidx
    simp only [List.length_drop] at this
    omega
  | case6 p hle hidx n e p1 hrm hne =>
    obtain ⟨_, _, _, hfl, _⟩ := readMore_spec hinv hrm
    have := findFrom_eof (off := off) (d := d) (hfl hne) (Or.inr hidx)
    simp [this]
  | case7 p hle hidx n e p1 hrm hne ih =>
    obtain ⟨hi1, ha1, hl1, _, he1⟩ := readMore_spec hinv hrm
    have := ih hi1
    rw [ha1, he1] at this
    refine ⟨?_, this.2⟩
    intro i hi
    obtain ⟨p', h1, h2, h3, h4, h5, h6⟩ := this.1 i hi
    exact ⟨p', h1, h2, h3, h4, by omega, h6⟩
  | case8 p hle hidx x hrm => exact (readMore_no_err hrm).elim
  | case9 p hle hidx w hrm => exact (readMore_no_fault hinv hrm).elim

theorem findIndexAfterOffset_nat (n : Nat) (d : Bytes) (p : P) : findIndexAfterOffset (n : Int) d p = findIdx n d p := by
  unfold findIndexAfterOffset
  have : ¬ ((n : Int) < 0) := by omega
  simp [this]

theorem findFrom_ge {off : Nat} {d s : Bytes} {i : Nat} (h : findFrom off d s = some i) : off ≤ i := by
  unfold findFrom at h
  split at h
  · cases hx : indexOf d (s.drop off) with
    | none => simp [hx] at h
    | some j => simp only [hx, Option.map_some, Option.some.injEq] at h; omega
  · cases h

theorem abs_take {p : P} {k : Nat} (hk : k ≤ p.buf.length) : (abs p).take k = p.buf.take k := by
  unfold abs; exact List.take_append_of_le_length hk

theorem abs_drop {p : P} {k : Nat} (hk : k ≤ p.buf.length) : abs { p with buf := p.buf.drop k } = (abs p).drop k := by
  unfold abs; simp only; rw [List.drop_append_of_le_length hk]

/-- `jumpLength` computes `bodyEnd` of `abs` -/
theorem jumpLengthG_spec (g : Bool) (p : P) (hinv : Inv p) :
    match bodyEnd g p.rd.endErr (abs p) with
    | .ok be => ∃ p', jumpLengthG g p = .ok (be, p') ∧ Inv p' ∧ abs p' = abs p ∧ p'.rd.endErr = p.rd.endErr
    | .err x => jumpLengthG g p = .err x
    | .fault w => jumpLengthG g p = .fault w := by
  unfold bodyEnd jumpLengthG
  have hz : findIndexAfterOffset 0 dLen p = findIdx 0 dLen p := findIndexAfterOffset_nat 0 dLen p
  rw [hz]
  have s1 := findIdx_spec 0 dLen p hinv
  cases h1 : findFrom 0 dLen (abs p) with
  | none => simp only [s1.2 h1]
  | some li =>
    obtain ⟨p1, f1, i1, a1, b1, _, e1⟩ := s1.1 li h1
    simp only [f1]
    rw [findIndexAfterOffset_nat]
    have s2 := findIdx_spec (li + 3) dSOH p1 i1
    rw [a1, e1] at s2
    cases h2 : findFrom (li + 3) dSOH (abs p) with
    | none => simp only [s2.2 h2]
    | some off =>
      obtain ⟨p2, f2, i2, a2, b2, _, e2⟩ := s2.1 off h2
      have hge := findFrom_ge h2
      simp only [f2]
      by_cases heq : off = li + 3
      · simp only [heq, if_true]
      · simp only [heq, if_false]
        simp only [dSOH, List.length_cons, List.length_nil] at b2
        have hb : li + 3 ≤ off ∧ off ≤ p2.buf.length := ⟨hge, by omega⟩
        simp only [hb, and_self, not_true_eq_false, if_false]
        rw [← a2, abs_take hb.2]
        cases hat : atoi (List.drop (li + 3) (List.take off p2.buf)) with
        | ok n =>
          simp only
          by_cases hn : n ≤ 0
          · simp only [hn, if_true]
          · simp only [hn, if_false]
            by_cases hg : (g && decide (wrap64 ((off : Int) + n) < (off : Int))) = true
            · simp only [hg, if_true]
            · simp only [hg]
              exact ⟨p2, rfl, i2, rfl, e2⟩
        | err x => simp only
        | fault w => simp only

/-- `ReadMessage` computes `nextFrame` of `abs` and leaves the rest of the stream as the new `abs` -/
theorem readMessageG_spec (g : Bool) (p : P) (hinv : Inv p) :
    match nextFrame g p.rd.endErr (abs p) with
    | .ok (m, r) => ∃ p', readMessageG g p = .ok (m, p') ∧ Inv p' ∧ abs p' = r ∧ p'.rd.endErr = p.rd.endErr
    | .err x => readMessageG g p = .err x
    | .fault w => readMessageG g p = .fault w := by
  unfold nextFrame readMessageG findStart
  have hz : findIndexAfterOffset 0 dBegin p = findIdx 0 dBegin p := findIndexAfterOffset_nat 0 dBegin p
  rw [hz]
  have s1 := findIdx_spec 0 dBegin p hinv
  cases h1 : findFrom 0 dBegin (abs p) with
  | none => simp only [s1.2 h1]
  | some start =>
    obtain ⟨p1, f1, i1, a1, b1, _, e1⟩ := s1.1 start h1
    simp only [f1]
    have hst : ¬ start > p1.buf.length := by omega
    simp only [hst, if_false]
    have hst' : start ≤ p1.buf.length := by omega
    have i2 : Inv { p1 with buf := p1.buf.drop start } := by
      unfold Inv at *; simp only [List.length_drop]; omega
    have a2 : abs { p1 with buf := p1.buf.drop start } = (abs p).drop start := by rw [abs_drop hst', a1]
    have s2 := jumpLengthG_spec g _ i2
    rw [a2] at s2
    simp only [e1] at s2
    cases hbe : bodyEnd g p.rd.endErr (List.drop start (abs p)) with
    | err x => rw [hbe] at s2; simp only [s2]
    | fault w => rw [hbe] at s2; simp only [s2]
    | ok be =>
      rw [hbe] at s2
      obtain ⟨p3, f3, i3, a3, e3⟩ := s2
      simp only [f3]
      unfold findEndAfterOffset findIndexAfterOffset
      by_cases hneg : be < 0
      · simp only [hneg, if_true]
      · simp only [hneg, if_false]
        have s4 := findIdx_spec be.toNat dCk p3 i3
        rw [a3, e3] at s4
        cases h4 : findFrom be.toNat dCk (List.drop start (abs p)) with
        | none => simp only [s4.2 h4]
        | some e1 =>
          obtain ⟨p4, f4, i4, a4, b4, _, e4⟩ := s4.1 e1 h4
          simp only [f4]
          have hn5 : ¬ ((e1 : Int) + 1 < 0) := by omega
          have ht5 : ((e1 : Int) + 1).toNat = e1 + 1 := by omega
          simp only [hn5, if_false, ht5]
          have s5 := findIdx_spec (e1 + 1) dSOH p4 i4
          rw [a4, e4] at s5
          cases h5 : findFrom (e1 + 1) dSOH (List.drop start (abs p)) with
          | none => simp only [s5.2 h5]
          | some e2 =>
            obtain ⟨p5, f5, i5, a5, b5, _, e5⟩ := s5.1 e2 h5
            simp only [f5]
            simp only [dSOH, List.length_cons, List.length_nil] at b5
            have hle : ¬ e2 + 1 > p5.buf.length := by omega
            have hle' : e2 + 1 ≤ p5.buf.length := by omega
            simp only [hle, if_false]
            have ht : List.take (e2 + 1) (List.drop start (abs p)) = p5.buf.take (e2 + 1) := by
              rw [← a5, abs_take hle']
            rw [ht]
            refine ⟨_, rfl, ?_, ?_, ?_⟩
            · unfold Inv at *; simp only [List.length_drop]; omega
            · rw [abs_drop hle', a5]
            · exact e5

/-- `readLoop` over the parser = the whole-stream function of `abs` -/
theorem runG_eq (g : Bool) (p : P) (hinv : Inv p) : runG g p = framesWholeG g p.rd.endErr (abs p) := by
  fun_induction runG g p with
  | case1 p m p' h o ih =>
    have sp := readMessageG_spec g p hinv
    rw [framesWholeG]
    split
    · rename_i m2 r hn
      rw [hn] at sp
      obtain ⟨p2, f2, i2, a2, e2⟩ := sp
      rw [h] at f2
      simp only [Res.ok.injEq, Prod.mk.injEq] at f2
      obtain ⟨hm, hp⟩ := f2
      subst hm hp
      have := ih i2
      rw [a2, e2] at this
      simp only [o, this]
    · rename_i c hn
      rw [hn] at sp; rw [h] at sp; cases sp
    · rename_i w hn
      rw [hn] at sp; rw [h] at sp; cases sp
  | case2 p c h =>
    have sp := readMessageG_spec g p hinv
    rw [framesWholeG]
    split
    · rename_i m2 r hn
      rw [hn] at sp
      obtain ⟨p2, f2, _⟩ := sp
      rw [h] at f2; cases f2
    · rename_i c2 hn
      rw [hn] at sp; rw [h] at sp
      simp only [Res.err.injEq] at sp
      rw [sp]
    · rename_i w hn
      rw [hn] at sp; rw [h] at sp; cases sp
  | case3 p w h =>
    have sp := readMessageG_spec g p hinv
    rw [framesWholeG]
    split
    · rename_i m2 r hn
      rw [hn] at sp
      obtain ⟨p2, f2, _⟩ := sp
      rw [h] at f2; cases f2
    · rename_i c2 hn
      rw [hn] at sp; rw [h] at sp; cases sp
    · rename_i w2 hn
      rw [hn] at sp; rw [h] at sp
      simp only [Res.fault.injEq] at sp
      rw [sp]

/-! ## no fault (with the overflow guard) -/

theorem err_triv (x : String) :
    (∀ w, (Res.err x : Res Int) ≠ .fault w) ∧ (∀ be, (Res.err x : Res Int) = .ok be → 0 ≤ be) :=
  ⟨(by intro w h; cases h), (by intro be h; cases h)⟩

theorem bodyEnd_guarded (ee : String) (s : Bytes) :
    (∀ w, bodyEnd true ee s ≠ .fault w) ∧ (∀ be, bodyEnd true ee s = .ok be → 0 ≤ be) := by
  unfold bodyEnd
  split
  · exact err_triv _
  · split
    · exact err_triv _
    · rename_i off _
      split
      · exact err_triv _
      · split
        · rename_i n hat
          split
          · exact err_triv _
          · split
            · exact err_triv _
            · rename_i hg
              refine ⟨(by intro w h; cases h), ?_⟩
              intro be h
              simp only [Res.ok.injEq] at h
              simp only [Bool.true_and, decide_eq_true_eq] at hg
              omega
        · exact err_triv _
        · rename_i w hat
          have := atoi_not_fault _ ▸ congrArg Res.isFault hat
          simp [Res.isFault] at this

theorem nextFrame_guarded_no_fault (ee : String) (s : Bytes) (w : String) : nextFrame true ee s ≠ .fault w := by
  unfold nextFrame
  split
  · intro h; cases h
  · simp only
    split
    · rename_i be hbe
      have := (bodyEnd_guarded _ _).2 be hbe
      have hn : ¬ be < 0 := by omega
      simp only [hn, if_false]
      split
      · intro h; cases h
      · split <;> (intro h; cases h)
    · intro h; cases h
    · rename_i w2 hbe
      exact ((bodyEnd_guarded _ _).1 w2 hbe).elim

theorem framesWhole_no_fault (ee : String) (s : Bytes) (w : String) : (framesWholeG true ee s).end_ ≠ .fault w := by
  fun_induction framesWholeG true ee s with
  | case1 s m r h o ih => simpa using ih
  | case2 s c h => intro h2; cases h2
  | case3 s w2 h => exact (nextFrame_guarded_no_fault ee s w2 h).elim

end Qfx.Framer
