/-
  C05 liveness, part l: the link while a replay is worked off.  `Seg`: a run of messages covering the numbers from the
  receiver's expected number onwards without holes; `chain_B`: delivering such a run moves the expected number to its end.
-/
import Qfx.Lemmas.LinkC05k
namespace Qfx.Link
open Qfx Qfx.Sess

theorem ctxOK_B {cfgA cfgB : Cfg} (hcf : CfgsOK cfgA cfgB) {l : LSt} (h : LInv cfgA cfgB l) (hb : l.a.store.sender ≤ maxSeq)
    (rcv : List (String × String)) (d : List String) : CtxOK (mkCtx l.b l.a rcv d) :=
  ⟨by simp only [mkCtx, h.cb]; exact hcf.pb, by simp only [mkCtx, h.cb]; exact hcf.nb, by simp only [mkCtx, h.ca, h.cb]; exact hcf.ts.symm,
    by simp only [mkCtx, h.ca, h.cb]; exact hcf.st.symm, by simp only [mkCtx, h.ca, h.cb]; exact hcf.bs.symm,
    by simp only [mkCtx, h.ca]; exact hcf.ne1, by simp only [mkCtx, h.ca]; exact hcf.ne2, h.ab.sok, hb,
    by simp only [mkCtx, h.cb]; exact hcf.vdb, by simp only [mkCtx, h.cb]; exact hcf.nxb⟩

/-- the fields of the link after a delivery to B -/
theorem deliverB_fields (l : LSt) (m : OutMsg) (rest : List OutMsg) (hq : l.a2b = m :: rest) :
    (lstep l (.deliver .B)).1.a = l.a ∧ (lstep l (.deliver .B)).1.a2b = rest ∧
    (lstep l (.deliver .B)).1.b = (step l.b (.incomingMsg (some (toIn l.a.cfg m)))).1 ∧
    (lstep l (.deliver .B)).1.b2a = l.b2a ++ wiresOf (step l.b (.incomingMsg (some (toIn l.a.cfg m)))).2.1 ∧
    (lstep l (.deliver .B)).1.sentA = l.sentA ∧ (lstep l (.deliver .B)).1.sentB = l.sentB := by
  simp [lstep, hq, onSide]

/-- kinds that need no answer and no special treatment -/
def QuietK (k : String) : Prop := k ≠ "A" ∧ k ≠ "5" ∧ k ≠ "2" ∧ k ≠ "4" ∧ k ≠ "1"

/-- a run of messages written from store `st` that covers the numbers from `t` to `E` without holes: gap fills and
    messages that need no answer, each starting where the previous one ended -/
inductive Seg (st : Store) : Int → List OutMsg → Int → Prop
  | nil (t : Int) : Seg st t [] t
  | gap {t e E : Int} {lt : Option Int} {rest : List OutMsg} (hw : Wire st (gapFillL t e lt)) (h : Seg st e rest E) :
      Seg st t (gapFillL t e lt :: rest) E
  | msg {t E : Int} {m : OutMsg} {rest : List OutMsg} (hw : Wire st m) (hs : m.seq = t) (hk : QuietK m.kind)
      (h : Seg st (t + 1) rest E) : Seg st t (m :: rest) E

theorem Seg.le {st : Store} (hs : StoreOK st) {t E : Int} {l : List OutMsg} (h : Seg st t l E) : t ≤ E := by
  induction h with
  | nil t => exact Int.le_refl _
  | gap hw _ ih =>
    obtain ⟨b, e, l', heq, hbe, _⟩ := wire_gap_inv hs hw rfl
    have h1 := congrArg OutMsg.seq heq
    have h2 := congrArg OutMsg.f heq
    simp only [gapFillL, gapFill, List.cons.injEq, Prod.mk.injEq, true_and, and_true] at h1 h2
    have := toString_int_inj h2
    omega
  | msg _ _ _ _ ih => omega

/-- the receiver's state while a replay is worked off: in session, or in the resend state with nothing stashed and the
    whole gap requested at once -/
def RecvSt (st : SState) : Prop := st = .inSession ∨ ∃ fin, st = .resend [] 0 fin

/-- the state after the expected number has reached `t'` -/
def stAt (st : SState) (t' : Int) : SState :=
  match st with
  | .resend [] 0 fin => if fin ≥ t' then .resend [] 0 fin else .inSession
  | st => st

theorem recvSt_stAt {st : SState} (h : RecvSt st) (t' : Int) : RecvSt (stAt st t') := by
  rcases h with rfl | ⟨fin, rfl⟩
  · exact Or.inl rfl
  · simp only [stAt]; split
    · exact Or.inr ⟨fin, rfl⟩
    · exact Or.inl rfl

theorem stAt_stAt {st : SState} (h : RecvSt st) (t1 t2 : Int) (hle : t1 ≤ t2) : stAt (stAt st t1) t2 = stAt st t2 := by
  rcases h with rfl | ⟨fin, rfl⟩
  · rfl
  · simp only [stAt]
    by_cases h1 : fin ≥ t1
    · simp [h1, stAt]
    · have h2 : ¬ fin ≥ t2 := by omega
      simp [h1, h2, stAt]

theorem recvSt_loggedOn {st : SState} (h : RecvSt st) : st.loggedOn = true := by
  rcases h with rfl | ⟨fin, rfl⟩ <;> rfl

theorem recvSt_connected {st : SState} (h : RecvSt st) : st.connected = true := by
  rcases h with rfl | ⟨fin, rfl⟩ <;> rfl

/-- `fixMsgInCore` in a receiving state, from the in-session result -/
theorem res_recv {s : Sess} {im : InMsg} {n : Int} {W q : List OutMsg} {t' : Int} (hst : RecvSt s.st)
    (h : Res s (inSessionFixMsgIn s im) n W q t' .inSession) (hg : getBool im 123 ≠ .garbled) :
    Res s (fixMsgInCore s im) n W q t' (stAt s.st t') := by
  rcases hst with h1 | ⟨fin, h1⟩
  · have : fixMsgInCore s im = inSessionFixMsgIn s im := by unfold fixMsgInCore; rw [h1]
    rw [this, h1]; exact h
  · have : fixMsgInCore s im = resendFixMsgIn s [] 0 fin im := by unfold fixMsgInCore; rw [h1]
    rw [this, h1]
    exact res_resendFix fin h hg

theorem wire_no123 {P : Store} (hP : StoreOK P) {m : OutMsg} (hw : Wire P m) (hk4 : m.kind ≠ "4") : m.f.get? 123 = none := by
  cases hw with
  | stored h => exact get?_none_of_tags _ _ (fun p hp => ((hP.ent _ h).2.2.2.f p hp).2.2.2.2)
  | @resent m0 h happ =>
    rw [resent_get? m0 123 (by decide) (by decide)]
    exact get?_none_of_tags _ _ (fun p hp => ((hP.ent _ h).2.2.2.f p hp).2.2.2.2)
  | gap b e => exact absurd rfl hk4

theorem getBool_missing (im : InMsg) (t : Nat) (h : im.f.get? t = none) : getBool im t = .missing := by
  unfold getBool; rw [h]

/-- one delivery to B whose handler result is known: the link afterwards -/
theorem deliverB_gen {cfgA cfgB : Cfg} (hcf : CfgsOK cfgA cfgB) {l : LSt} (h : LInv cfgA cfgB l) {m : OutMsg} {rest : List OutMsg}
    (hq : l.a2b = m :: rest) (hcon : l.b.st.connected = true) (hb : Bnd l) {n : Int} {W q : List OutMsg} {t' : Int} {nx : SState}
    (hres : Res l.b.clearLog (fixMsgInCore l.b.clearLog (toIn l.a.cfg m)) n W q t' nx) (hnx : nx.connected = true)
    (hb1 : l.b.store.sender + n ≤ maxSeq) :
    let l' := (lstep l (.deliver .B)).1
    LInv cfgA cfgB l' ∧ l'.a = l.a ∧ l'.a2b = rest ∧ l'.b2a = l.b2a ++ W ∧ l'.b.st = nx ∧ l'.b.store.target = t' ∧
      l'.b.store.sender = l.b.store.sender + n ∧ l'.b.toSend = q ∧ l'.b.out = l.b.out ∧ l'.sentA = l.sentA ∧ l'.sentB = l.sentB ∧
      Grow true l.b.store l'.b.store := by
  intro l'
  obtain ⟨f1, f2, f3, f4, f5, f6⟩ := deliverB_fields l m rest hq
  have hs := stepIs_incoming l.b (toIn l.a.cfg m) hcon hres hnx
  have hbnd : Bnd l' := by
    refine ⟨?_, ?_⟩
    · show (lstep l (.deliver .B)).1.a.store.sender ≤ _; rw [f1]; exact hb.1
    · show (lstep l (.deliver .B)).1.b.store.sender ≤ _; rw [f3, hs.snd]; exact hb1
  have hinv := LInv_lstep hcf h (.deliver .B) trivial hb hbnd
  refine ⟨hinv, f1, f2, ?_, ?_, ?_, ?_, ?_, ?_, f5, f6, ?_⟩
  · show (lstep l (.deliver .B)).1.b2a = _; rw [f4, hs.w]
  · show (lstep l (.deliver .B)).1.b.st = _; rw [f3]; exact hs.st
  · show (lstep l (.deliver .B)).1.b.store.target = _; rw [f3]; exact hs.tgt
  · show (lstep l (.deliver .B)).1.b.store.sender = _; rw [f3]; exact hs.snd
  · show (lstep l (.deliver .B)).1.b.toSend = _; rw [f3]; exact hs.q
  · show (lstep l (.deliver .B)).1.b.out = _; rw [f3]; exact hs.out
  · show Grow true l.b.store (lstep l (.deliver .B)).1.b.store; rw [f3]; exact hs.grow

/-- B works off a run of messages at the head of `a2b`: the expected number ends where the run ends, B sends nothing,
    A is untouched -/
theorem chain_B {cfgA cfgB : Cfg} (hcf : CfgsOK cfgA cfgB) {st : Store} {t E : Int} {chain : List OutMsg} (hseg : Seg st t chain E) :
    ∀ (l : LSt) (rest : List OutMsg), LInv cfgA cfgB l → l.a.store = st → l.a2b = chain ++ rest → RecvSt l.b.st → stAt l.b.st t = l.b.st →
      l.b.store.target = t → l.b.out = true → Bnd l →
      let l' := runL l (List.replicate chain.length (.deliver .B))
      LInv cfgA cfgB l' ∧ l'.a = l.a ∧ l'.a2b = rest ∧ l'.b2a = l.b2a ∧ l'.b.st = stAt l.b.st E ∧ l'.b.store.target = E ∧
        l'.b.store.sender = l.b.store.sender ∧ l'.b.toSend = l.b.toSend ∧ l'.b.out = true ∧ l'.sentA = l.sentA ∧ l'.sentB = l.sentB ∧
        Grow true l.b.store l'.b.store := by
  induction hseg with
  | nil t =>
    intro l rest h _ hq hst hfix ht ho _
    have hq2 : l.a2b = rest := by simpa using hq
    exact ⟨h, rfl, hq2, rfl, hfix.symm, ht, rfl, rfl, ho, rfl, rfl, Grow.refl _ _⟩
  | @gap t e E lt rest' hw hrest ih =>
    intro l rest h hst0 hq hst hfix ht ho hb
    subst hst0
    have hq' : l.a2b = gapFillL t e lt :: (rest' ++ rest) := by simpa using hq
    have hctx := ctxOK_B hcf h hb.1 (noteRcv l.rcvB (toIn l.a.cfg (gapFillL t e lt))) l.dlvB
    have hr1 := res_gapFill hctx (s := l.b.clearLog) rfl t e lt hw ht.symm
    have hg : getBool (toIn l.a.cfg (gapFillL t e lt)) 123 ≠ .garbled := by
      rw [getBool_Y _ _ (by rw [toIn_get_body _ _ 123 (by decide)]; simp [gapFillL, gapFill, get?_cons])]; simp
    have hr2 := res_recv (s := l.b.clearLog) hst hr1 hg
    obtain ⟨k1, k2, k3, k4, k5, k6, k7, k8, k9, k10, k11, k12⟩ :=
      deliverB_gen hcf h hq' (recvSt_connected hst) hb hr2 (recvSt_connected (recvSt_stAt hst e)) (by have := hb.2; omega)
    have hte : t ≤ e := (Seg.gap hw (Seg.nil e)).le h.ab.sok |> fun x => x
    have hbnd' : Bnd (lstep l (.deliver .B)).1 := ⟨by rw [k2]; exact hb.1, by rw [k7]; have := hb.2; omega⟩
    have := ih (lstep l (.deliver .B)).1 rest k1 (by rw [k2]) k3 (by rw [k5]; exact recvSt_stAt hst e)
      (by rw [k5]; exact stAt_stAt hst e e (Int.le_refl _)) k6 (by rw [k9]; exact ho) hbnd'
    obtain ⟨j1, j2, j3, j4, j5, j6, j7, j8, j9, j10, j11, j12⟩ := this
    have hle : e ≤ E := hrest.le h.ab.sok
    simp only [List.length_cons, List.replicate_succ, runL]
    refine ⟨j1, j2.trans k2, j3, ?_, ?_, j6, ?_, ?_, j9, j10.trans k10, j11.trans k11, k12.trans j12⟩
    · rw [j4, k4]; simp
    · rw [j5, k5]; exact stAt_stAt hst e E hle
    · rw [j7, k7]; omega
    · rw [j8, k8]; rfl
  | @msg t E m rest' hw hs hk hrest ih =>
    intro l rest h hst0 hq hst hfix ht ho hb
    subst hst0
    have hq' : l.a2b = m :: (rest' ++ rest) := by simpa using hq
    have hctx := ctxOK_B hcf h hb.1 (noteRcv l.rcvB (toIn l.a.cfg m)) l.dlvB
    have hr1 := res_plain hctx (s := l.b.clearLog) rfl hw hk (by rw [hs]; exact ht.symm)
    have hg : getBool (toIn l.a.cfg m) 123 ≠ .garbled := by
      rw [getBool_missing _ _ (by rw [toIn_get_body _ _ 123 (by decide)]; exact wire_no123 h.ab.sok hw hk.2.2.2.1)]; simp
    have hr2 := res_recv (s := l.b.clearLog) hst hr1 hg
    have htt : l.b.clearLog.store.target = t := ht
    rw [htt] at hr2
    obtain ⟨k1, k2, k3, k4, k5, k6, k7, k8, k9, k10, k11, k12⟩ :=
      deliverB_gen hcf h hq' (recvSt_connected hst) hb hr2 (recvSt_connected (recvSt_stAt hst (t + 1))) (by have := hb.2; omega)
    have hbnd' : Bnd (lstep l (.deliver .B)).1 := ⟨by rw [k2]; exact hb.1, by rw [k7]; have := hb.2; omega⟩
    have := ih (lstep l (.deliver .B)).1 rest k1 (by rw [k2]) k3 (by rw [k5]; exact recvSt_stAt hst (t + 1))
      (by rw [k5]; exact stAt_stAt hst (t + 1) (t + 1) (Int.le_refl _)) k6 (by rw [k9]; exact ho) hbnd'
    obtain ⟨j1, j2, j3, j4, j5, j6, j7, j8, j9, j10, j11, j12⟩ := this
    have hle : t + 1 ≤ E := hrest.le h.ab.sok
    simp only [List.length_cons, List.replicate_succ, runL]
    refine ⟨j1, j2.trans k2, j3, ?_, ?_, j6, ?_, ?_, j9, j10.trans k10, j11.trans k11, k12.trans j12⟩
    · rw [j4, k4]; simp
    · rw [j5, k5]; exact stAt_stAt hst (t + 1) E hle
    · rw [j7, k7]; omega
    · rw [j8, k8]; rfl

end Qfx.Link
