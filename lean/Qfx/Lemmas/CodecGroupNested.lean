/- C13: `RepeatingGroup.Read` on groups whose members may themselves be repeating groups — compositional over the nesting depth -/
import Qfx.Lemmas.CodecGroup
namespace Qfx

/-- one member of an entry on the wire: the TagValues it occupies (one for an element, count + entries for a nested group) -/
structure Block where
  tag : Tag
  tvs : List TagValue

def serBlocks (e : List Block) : List TagValue := e.flatMap (·.tvs)

/-- a nested group's wire form `W` reads back (and is skipped) whenever what follows starts with a tag allowed by `S` -/
def NestedOK (S : Tag → Prop) (gtm : List Item) (W : List TagValue) : Prop :=
  ∀ fuel after, fuel ≥ 2 * W.length + 1 → (∀ f r, after = f :: r → S f.tag) →
    ∃ gs, readGroup fuel gtm (W ++ after) = .ok (after, gs)

/-- a well-formed member block for the template: an element field, or a nested group that reads back -/
def BlockOK (S : Tag → Prop) (tmpl : List Item) (b : Block) : Prop :=
  (∃ tv t, b.tvs = [tv] ∧ tv.tag = b.tag ∧ findItem tmpl b.tag = some (.elem t)) ∨
  (∃ t gtm t0 W, findItem tmpl b.tag = some (.group t gtm) ∧ b.tvs = t0 :: W ∧ t0.tag = b.tag ∧ NestedOK S gtm b.tvs)

def putAllB : GEntry → List Block → List TagValue → GEntry
  | g, [], _ => g
  | g, b :: r, after => putAllB (g.put b.tag (b.tvs ++ (serBlocks r ++ after))) r after

def readSpecB (after : List TagValue) : List (List Block) → List GEntry
  | [] => []
  | [] :: es => GEntry.empty :: readSpecB after es
  | (b :: e) :: es =>
    putAllB (GEntry.empty.put b.tag (b.tvs ++ (serBlocks e ++ ((es.flatMap serBlocks) ++ after)))) e ((es.flatMap serBlocks) ++ after)
      :: readSpecB after es

theorem readSpecB_length (after : List TagValue) (es : List (List Block)) : (readSpecB after es).length = es.length := by
  induction es with
  | nil => rfl
  | cons e r ih =>
    cases e with
    | nil => simp [readSpecB, ih]
    | cons b e => simp [readSpecB, ih]

/-- an entry: the delimiter element first, then blocks that are not the delimiter -/
def EntryOKB (S : Tag → Prop) (d : Tag) (tmpl : List Item) (e : List Block) : Prop :=
  ∃ tv e', e = ⟨d, [tv]⟩ :: e' ∧ tv.tag = d ∧ ∀ b ∈ e', b.tag ≠ d ∧ BlockOK S (.elem d :: tmpl) b

def tvCount (es : List (List Block)) : Nat := ((es.map serBlocks).map List.length).sum

theorem step_group (fuel : Nat) (d : Item) (tmpl : List Item) (f : TagValue) (rest tv' : List TagValue) (gs : List GEntry)
    (done : List GEntry) (g : GEntry) (t : Tag) (gtm : List Item)
    (hf : findItem (d :: tmpl) f.tag = some (.group t gtm)) (hd : f.tag ≠ d.tag)
    (hr : readGroup fuel gtm (f :: rest) = .ok (tv', gs)) :
    readLoop (fuel + 1) (d :: tmpl) (f :: rest) done (some g) =
      readLoop fuel (d :: tmpl) tv' done (some (g.put f.tag (f :: rest))) := by
  simp [readLoop, hf, hd, hr]


theorem findItem_some_tag (tmpl : List Item) (t : Tag) (it : Item) (h : findItem tmpl t = some it) : it.tag = t ∧ t ∈ tmplTags tmpl := by
  induction tmpl with
  | nil => simp [findItem] at h
  | cons x r ih =>
    simp only [findItem] at h
    split at h
    · rename_i hx; injection h with h; subst h; exact ⟨hx, by simp [tmplTags, hx]⟩
    · obtain ⟨h1, h2⟩ := ih h; exact ⟨h1, by simp only [tmplTags, List.map_cons, List.mem_cons] at h2 ⊢; exact Or.inr h2⟩

theorem BlockOK.head {S : Tag → Prop} {tmpl : List Item} {b : Block} (h : BlockOK S tmpl b) :
    ∃ t0 W, b.tvs = t0 :: W ∧ t0.tag = b.tag ∧ b.tag ∈ tmplTags tmpl := by
  rcases h with ⟨tv, t, h1, h2, h3⟩ | ⟨t, gtm, t0, W, h1, h2, h3, _⟩
  · exact ⟨tv, [], h1, h2, (findItem_some_tag _ _ _ h3).2⟩
  · exact ⟨t0, W, h2, h3, (findItem_some_tag _ _ _ h1).2⟩

theorem serBlocks_cons (b : Block) (r : List Block) : serBlocks (b :: r) = b.tvs ++ serBlocks r := by simp [serBlocks]

/-- whatever follows a block inside a well-formed sequence starts with a tag of `S` -/
theorem next_tag_ok (S : Tag → Prop) (d : Tag) (tmplr : List Item) (rest : List TagValue)
    (hS : ∀ t, t ∈ tmplTags (.elem d :: tmplr) → S t) (hSr : ∀ f r, rest = f :: r → S f.tag)
    (r : List Block) (hr : ∀ b ∈ r, b.tag ≠ d ∧ BlockOK S (.elem d :: tmplr) b)
    (es : List (List Block)) (hes : ∀ e ∈ es, EntryOKB S d tmplr e) :
    ∀ f r0, serBlocks r ++ (es.flatMap serBlocks ++ rest) = f :: r0 → S f.tag := by
  intro f r0 h
  cases r with
  | cons b r' =>
    obtain ⟨t0, W, h1, h2, h3⟩ := (hr b (by simp)).2.head
    rw [serBlocks_cons, h1] at h
    simp only [List.cons_append, List.cons.injEq] at h
    rw [← h.1, h2]; exact hS _ h3
  | nil =>
    cases es with
    | cons e es' =>
      obtain ⟨tv, e', he, htv, _⟩ := hes e (by simp)
      subst he
      simp only [serBlocks, List.flatMap_nil, List.nil_append, List.flatMap_cons, List.cons_append, List.cons.injEq] at h
      rw [← h.1, htv]; exact hS _ (by simp [tmplTags, Item.tag])
    | nil =>
      simp only [serBlocks, List.flatMap_nil, List.nil_append] at h
      exact hSr f r0 h


theorem tvCount_cons (e : List Block) (es : List (List Block)) : tvCount (e :: es) = (serBlocks e).length + tvCount es := by
  simp [tvCount]

theorem readLoop_blocks (S : Tag → Prop) (d : Tag) (tmplr : List Item) (rest : List TagValue)
    (hS : ∀ t, t ∈ tmplTags (.elem d :: tmplr) → S t) (hSr : ∀ f r, rest = f :: r → S f.tag)
    (hrest : ∀ f r, rest = f :: r → findItem (.elem d :: tmplr) f.tag = none) :
    ∀ (es : List (List Block)), (∀ e ∈ es, EntryOKB S d tmplr e) →
    ∀ (r : List Block), (∀ b ∈ r, b.tag ≠ d ∧ BlockOK S (.elem d :: tmplr) b) →
    ∀ (g : GEntry) (done : List GEntry) (fuel : Nat), fuel ≥ 2 * ((serBlocks r).length + tvCount es) + 2 →
      readLoop fuel (.elem d :: tmplr) (serBlocks r ++ (es.flatMap serBlocks ++ rest)) done (some g) =
        .ok (rest, done ++ [putAllB g r (es.flatMap serBlocks ++ rest)] ++ readSpecB rest es) := by
  -- one member block
  have member : ∀ (b : Block) (r : List Block) (es : List (List Block)) (g : GEntry) (done : List GEntry) (fuel : Nat),
      b.tag ≠ d → BlockOK S (.elem d :: tmplr) b → (∀ b' ∈ r, b'.tag ≠ d ∧ BlockOK S (.elem d :: tmplr) b') →
      (∀ e ∈ es, EntryOKB S d tmplr e) → fuel ≥ 2 * b.tvs.length + 1 →
      readLoop (fuel + 1) (.elem d :: tmplr) (serBlocks (b :: r) ++ (es.flatMap serBlocks ++ rest)) done (some g) =
        readLoop fuel (.elem d :: tmplr) (serBlocks r ++ (es.flatMap serBlocks ++ rest)) done
          (some (g.put b.tag (b.tvs ++ (serBlocks r ++ (es.flatMap serBlocks ++ rest))))) := by
    intro b r es g done fuel hne hb hr hes hf
    rcases hb with ⟨tv, t, h1, h2, h3⟩ | ⟨t, gtm, t0, W, h1, h2, h3, hN⟩
    · rw [serBlocks_cons, h1]
      simp only [List.cons_append, List.nil_append]
      rw [step_member fuel (.elem d) tmplr tv _ done g t (by rw [h2]; exact h3) (by rw [h2]; exact hne), h2]
    · rw [serBlocks_cons, h2]
      simp only [List.cons_append, List.append_assoc]
      have hafter := next_tag_ok S d tmplr rest hS hSr r hr es hes
      obtain ⟨gs, hread⟩ := hN fuel (serBlocks r ++ (es.flatMap serBlocks ++ rest)) hf hafter
      rw [h2] at hread
      simp only [List.cons_append] at hread
      rw [step_group fuel (.elem d) tmplr t0 _ _ gs done g t gtm (by rw [h3]; exact h1) (by rw [h3]; exact hne) hread, h3]
  intro es
  induction es with
  | nil =>
    intro _ r
    induction r with
    | nil =>
      intro _ g done fuel hf
      cases fuel with
      | zero => omega
      | succ fuel =>
        simp only [serBlocks, List.flatMap_nil, List.nil_append, putAllB, readSpecB, List.append_nil]
        cases hr : rest with
        | nil => rw [step_nil]; rfl
        | cons f rr => rw [step_stop _ _ _ _ _ _ (hrest f rr hr)]; rfl
    | cons b r ih =>
      intro hr g done fuel hf
      have hb := hr b (by simp)
      cases fuel with
      | zero => omega
      | succ fuel =>
        have hlen : (serBlocks (b :: r)).length = b.tvs.length + (serBlocks r).length := by rw [serBlocks_cons]; simp
        rw [member b r [] g done fuel hb.1 hb.2 (fun x hx => hr x (by simp [hx])) (by simp) (by rw [hlen] at hf; simp [tvCount] at hf; omega)]
        rw [ih (fun x hx => hr x (by simp [hx])) _ done fuel (by
          obtain ⟨t0, W, h1, _, _⟩ := hb.2.head
          rw [hlen, h1] at hf; simp [tvCount] at hf ⊢; omega)]
        rfl
  | cons e es ih =>
    intro hes r
    obtain ⟨tv0, e', hee, htv0, he'⟩ := hes e (by simp)
    subst hee
    induction r with
    | nil =>
      intro _ g done fuel hf
      cases fuel with
      | zero => omega
      | succ fuel =>
        have e1 : serBlocks [] ++ ((( ⟨d, [tv0]⟩ :: e') :: es).flatMap serBlocks ++ rest) =
            tv0 :: (serBlocks e' ++ (es.flatMap serBlocks ++ rest)) := by
          simp [serBlocks, List.flatMap_cons, List.append_assoc]
        rw [e1, step_delim fuel d tmplr tv0 _ done (some g) htv0, htv0,
          ih (fun x hx => hes x (by simp [hx])) e' he' _ _ fuel (by
            rw [tvCount_cons, serBlocks_cons] at hf; simp [serBlocks] at hf ⊢; omega)]
        simp [putAllB, readSpecB, finishGroups, serBlocks, List.append_assoc]
    | cons b r ihr =>
      intro hr g done fuel hf
      have hb := hr b (by simp)
      cases fuel with
      | zero => omega
      | succ fuel =>
        have hlen : (serBlocks (b :: r)).length = b.tvs.length + (serBlocks r).length := by rw [serBlocks_cons]; simp
        rw [member b r ((⟨d, [tv0]⟩ :: e') :: es) g done fuel hb.1 hb.2 (fun x hx => hr x (by simp [hx])) hes (by rw [hlen] at hf; omega)]
        rw [ihr (fun x hx => hr x (by simp [hx])) _ done fuel (by
          obtain ⟨t0, W, h1, _, _⟩ := hb.2.head
          rw [hlen, h1] at hf; simp at hf ⊢; omega)]
        rfl


theorem flatMap_serBlocks_length (es : List (List Block)) : (es.flatMap serBlocks).length = tvCount es := by
  induction es with
  | nil => rfl
  | cons e r ih => rw [List.flatMap_cons, List.length_append, ih, tvCount_cons]

/-- READ OF A GROUP WHOSE MEMBERS MAY BE NESTED GROUPS (compositional): if every nested group of every entry reads back
    (`BlockOK`), the whole group reads back, entry by entry, and hands back `rest` -/
theorem readGroup_blocks (S : Tag → Prop) (G d : Tag) (tmplr : List Item) (rest : List TagValue)
    (hS : ∀ t, t ∈ tmplTags (.elem d :: tmplr) → S t) (hSr : ∀ f r, rest = f :: r → S f.tag)
    (hrest : ∀ f r, rest = f :: r → findItem (.elem d :: tmplr) f.tag = none)
    (es : List (List Block)) (hes : ∀ e ∈ es, EntryOKB S d tmplr e) (hn : es.length < 9223372036854775808)
    (fuel : Nat) (hf : fuel ≥ 2 * (1 + tvCount es) + 1) :
    readGroup fuel (.elem d :: tmplr) (countTV G es.length :: (es.flatMap serBlocks ++ rest)) = .ok (rest, readSpecB rest es) := by
  cases fuel with
  | zero => omega
  | succ fuel =>
    have hval : (countTV G es.length).value = fmtNat es.length := rfl
    simp only [readGroup, hval, atoi_fmtNat _ hn]
    cases es with
    | nil => simp [readSpecB]
    | cons e es =>
      have hne : ¬ (((e :: es).length : Nat) : Int) = 0 := by simp; omega
      simp only [hne, if_false]
      obtain ⟨tv0, e', hee, htv0, he'⟩ := hes e (by simp)
      subst hee
      cases fuel with
      | zero => rw [tvCount_cons, serBlocks_cons] at hf; simp at hf; omega
      | succ fuel =>
        have e1 : ((⟨d, [tv0]⟩ :: e') :: es).flatMap serBlocks ++ rest = tv0 :: (serBlocks e' ++ (es.flatMap serBlocks ++ rest)) := by
          simp [serBlocks, List.flatMap_cons, List.append_assoc]
        rw [e1, step_delim fuel d tmplr tv0 _ [] none htv0, htv0,
          readLoop_blocks S d tmplr rest hS hSr hrest es (fun x hx => hes x (by simp [hx])) e' he' _ _ fuel
            (by rw [tvCount_cons, serBlocks_cons] at hf; simp [serBlocks] at hf ⊢; omega)]
        have hl := readSpecB_length rest ((⟨d, [tv0]⟩ :: e') :: es)
        simp only [finishGroups, List.nil_append, readSpecB] at hl ⊢
        simp only [List.length_cons] at hl
        simp [hl]

/-- hence such a group is itself a well-formed nested block for an enclosing group (arbitrary depth by iteration) -/
theorem nestedOK_of_entries (S S' : Tag → Prop) (G d : Tag) (tmplr : List Item)
    (hS : ∀ t, t ∈ tmplTags (.elem d :: tmplr) → S t)
    (hS' : ∀ t, S' t → S t ∧ findItem (.elem d :: tmplr) t = none)
    (es : List (List Block)) (hes : ∀ e ∈ es, EntryOKB S d tmplr e) (hn : es.length < 9223372036854775808) :
    NestedOK S' (.elem d :: tmplr) (countTV G es.length :: es.flatMap serBlocks) := by
  intro fuel after hf hafter
  refine ⟨readSpecB after es, ?_⟩
  have := readGroup_blocks S G d tmplr after hS (fun f r h => (hS' _ (hafter f r h)).1) (fun f r h => (hS' _ (hafter f r h)).2)
    es hes hn fuel (by rw [List.length_cons, flatMap_serBlocks_length] at hf; omega)
  simpa using this

/-- base case: a nested group without further nesting (flat template) -/
theorem nestedOK_flat (S' : Tag → Prop) (G d : Tag) (ts : List Tag) (hS' : ∀ t, S' t → t ∉ d :: ts)
    (es : List (List (Tag × Bytes))) (hes : ∀ e ∈ es, EntryOK d (d :: ts) e) (hn : es.length < 9223372036854775808) :
    NestedOK S' (flatTmpl (d :: ts)) (countTV G es.length :: es.flatMap serEntry) := by
  intro fuel after hf hafter
  refine ⟨readSpec after es, ?_⟩
  have := readGroup_flat G d ts after (fun f r h => hS' _ (hafter f r h)) es hes hn fuel
    (by rw [List.length_cons, flatMap_serEntry_length] at hf; omega)
  simpa using this


theorem putAllB_tags (g : GEntry) (r : List Block) (after : List TagValue) :
    (putAllB g r after).tags = g.tags ++ r.map (·.tag) := by
  induction r generalizing g with
  | nil => simp [putAllB]
  | cons b r ih => simp [putAllB, ih, GEntry.put, List.append_assoc]

theorem putAllB_find_absent (g : GEntry) (r : List Block) (after : List TagValue) (t : Tag) (h : ∀ b ∈ r, b.tag ≠ t) :
    alFind (putAllB g r after).lookup t = alFind g.lookup t := by
  induction r generalizing g with
  | nil => rfl
  | cons b r ih =>
    simp only [putAllB]
    rw [ih _ (fun q hq => h q (by simp [hq]))]
    exact alFind_insert_other _ _ _ _ (Ne.symm (h b (by simp)))

theorem putAllB_find (g : GEntry) (r : List Block) (after : List TagValue) (b : Block)
    (hnd : (r.map (·.tag)).Nodup) (hm : b ∈ r) :
    ∃ tail, alFind (putAllB g r after).lookup b.tag = some (b.tvs ++ tail) := by
  induction r generalizing g with
  | nil => simp at hm
  | cons x r ih =>
    simp only [List.map_cons, List.nodup_cons] at hnd
    simp only [putAllB]
    rcases List.mem_cons.1 hm with e | hm'
    · subst e
      refine ⟨serBlocks r ++ after, ?_⟩
      rw [putAllB_find_absent _ r after b.tag (fun q hq e => hnd.1 (by rw [← e]; exact List.mem_map_of_mem hq))]
      exact alFind_insert_self _ _ _
    · exact ih _ hnd.2 hm'

/-- entry `i` of the result: the tags of the i-th entry's blocks in wire order; each (distinct) tag maps to a range that starts
    with that block's TagValues (for a nested group: its count field and entries, ready to be read with the nested template) -/
theorem readSpecB_entry (S : Tag → Prop) (d : Tag) (tmplr : List Item) (rest : List TagValue) :
    ∀ (es : List (List Block)), (∀ e ∈ es, EntryOKB S d tmplr e) →
    ∀ (i : Nat) (e : List Block), es[i]? = some e →
      ∃ g : GEntry, (readSpecB rest es)[i]? = some g ∧ g.tags = e.map (·.tag) ∧
        ((e.map (·.tag)).Nodup → ∀ b ∈ e, ∃ tail, alFind g.lookup b.tag = some (b.tvs ++ tail)) := by
  intro es
  induction es with
  | nil => intro _ i e hi; simp at hi
  | cons e0 es ih =>
    intro hes i e hi
    obtain ⟨tv0, e', hee, _, _⟩ := hes e0 (by simp)
    subst hee
    cases i with
    | zero =>
      simp only [List.getElem?_cons_zero, Option.some.injEq] at hi
      subst hi
      refine ⟨putAllB GEntry.empty (⟨d, [tv0]⟩ :: e') (es.flatMap serBlocks ++ rest), rfl, ?_, ?_⟩
      · rw [putAllB_tags]; simp [GEntry.empty]
      · intro hnd b hb
        exact putAllB_find _ _ _ b hnd hb
    | succ i =>
      obtain ⟨g, hg, h2⟩ := ih (fun x hx => hes x (by simp [hx])) i e (by simpa using hi)
      exact ⟨g, by simpa [readSpecB] using hg, h2⟩


/-! ## `Write` of entries whose members may be nested groups (compositional) -/

/-- the TagValues a setter call contributes: one field, or the count field followed by what `Write` emits for the nested entries -/
def blockData : GFld → Option (Tag × List TagValue)
  | .fld t v => some (t, [TagValue.init t v])
  | .grp t tm es =>
    match writeEntries tm es with
    | .ok W => some (t, countTV t es.length :: W)
    | _ => none

/-- the latest TagValues a sequence of setter calls gives to `t` -/
def latestB : List (Tag × List TagValue) → Tag → Option (List TagValue)
  | [], _ => none
  | (k, v) :: r, t => match latestB r t with
                      | some x => some x
                      | none => if k = t then some v else none

def putAllFB : FieldMap → List (Tag × List TagValue) → FieldMap
  | fm, [] => fm
  | fm, (t, tvs) :: r => putAllFB (fm.put t (.owned tvs)) r

theorem buildEntry_blocks : ∀ (flds : List GFld) (bs : List (Tag × List TagValue)) (fm : FieldMap),
    flds.map blockData = bs.map some → fm.ownedNE → (∀ p ∈ bs, p.2 ≠ []) → buildEntry flds fm = .ok (putAllFB fm bs) := by
  intro flds
  induction flds with
  | nil =>
    intro bs fm h _ _
    cases bs with
    | nil => simp [buildEntry, putAllFB]
    | cons b r => simp at h
  | cons f r ih =>
    intro bs fm h ho hne
    cases bs with
    | nil => simp at h
    | cons b bs' =>
      simp only [List.map_cons, List.cons.injEq] at h
      obtain ⟨hb, hr⟩ := h
      obtain ⟨t, tvs⟩ := b
      have hnb : tvs ≠ [] := hne (t, tvs) (by simp)
      cases f with
      | fld t' v =>
        simp only [blockData, Option.some.injEq, Prod.mk.injEq] at hb
        obtain ⟨h1, h2⟩ := hb
        subst h1; subst h2
        obtain ⟨sr, hs, hfm⟩ := setBytes_ownedNE ho t' v
        simp only [buildEntry, hs, hfm, putAllFB]
        exact ih bs' _ hr (ownedNE_put ho _ _ _) (fun p hp => hne p (by simp [hp]))
      | grp t' tm es =>
        simp only [blockData] at hb
        cases hw : writeEntries tm es with
        | ok W =>
          rw [hw] at hb
          simp only [Option.some.injEq, Prod.mk.injEq] at hb
          obtain ⟨h1, h2⟩ := hb
          subst h1; subst h2
          simp only [buildEntry, hw, putAllFB]
          have hform : fm.setGroup t' (countTV t' es.length :: W) = fm.put t' (.owned (countTV t' es.length :: W)) := rfl
          rw [hform]
          exact ih bs' _ hr (ownedNE_put ho _ _ _) (fun p hp => hne p (by simp [hp]))
        | err e => rw [hw] at hb; cases hb
        | fault x => rw [hw] at hb; cases hb


theorem putAllFB_inv (e : List (Tag × List TagValue)) : ∀ (fm : FieldMap), FMInv fm → FMInv (putAllFB fm e) := by
  induction e with
  | nil => intro fm h; exact h
  | cons p r ih => intro fm h; obtain ⟨t, v⟩ := p; exact ih _ (h.put' _ _)

theorem putAllFB_ord (e : List (Tag × List TagValue)) : ∀ (fm : FieldMap), (putAllFB fm e).ord = fm.ord := by
  induction e with
  | nil => intro fm; rfl
  | cons p r ih => intro fm; obtain ⟨t, v⟩ := p; simp only [putAllFB]; rw [ih]; rfl

theorem putAllFB_find (e : List (Tag × List TagValue)) (t : Tag) : ∀ (fm : FieldMap),
    alFind (putAllFB fm e).lookup t =
      (match latestB e t with
       | some v => some (.owned v)
       | none => alFind fm.lookup t) := by
  induction e with
  | nil => intro fm; rfl
  | cons p r ih =>
    intro fm
    obtain ⟨k, v⟩ := p
    simp only [putAllFB, latestB]
    rw [ih]
    cases hl : latestB r t with
    | some x => rfl
    | none =>
      by_cases hk : k = t
      · subst hk; simp [put_find_self]
      · simp [hk, put_find_other _ _ _ _ (Ne.symm hk)]

theorem latestB_mem (e : List (Tag × List TagValue)) (t : Tag) (v : List TagValue) (h : latestB e t = some v) : (t, v) ∈ e := by
  induction e with
  | nil => simp [latestB] at h
  | cons p r ih =>
    obtain ⟨k, x⟩ := p
    simp only [latestB] at h
    cases hl : latestB r t with
    | some y => rw [hl] at h; injection h with h; subst h; exact List.mem_cons_of_mem _ (ih hl)
    | none =>
      rw [hl] at h
      by_cases hk : k = t
      · simp only [hk, if_true] at h; injection h with h; subst h; subst hk; simp
      · simp [hk] at h

/-- the member blocks of an entry as `Write` emits them: template order, each tag once, latest setter call -/
def canonB (ts : List Tag) (e : List (Tag × List TagValue)) : List Block :=
  ts.filterMap (fun t => (latestB e t).map (fun tvs => (⟨t, tvs⟩ : Block)))

theorem collectTags_putAllFB (e : List (Tag × List TagValue)) (o : OrdKind) (l : List Tag) :
    collectTags (putAllFB (FieldMap.empty o) e).lookup l = serBlocks (l.filterMap (fun t => (latestB e t).map (fun tvs => (⟨t, tvs⟩ : Block)))) := by
  induction l with
  | nil => rfl
  | cons t r ih =>
    simp only [collectTags, putAllFB_find, List.filterMap_cons]
    cases hl : latestB e t with
    | none =>
      have : alFind (FieldMap.empty o).lookup t = none := rfl
      simp only [this, List.nil_append, Option.map_none]
      exact ih
    | some v => simp [ih, Field.items, serBlocks]

theorem entryTVs_blocks (ts : List Tag) (hts : ts.Nodup) (e : List (Tag × List TagValue)) (hsub : ∀ p ∈ e, p.1 ∈ ts) :
    entryTVs (putAllFB (FieldMap.empty (.group ts)) e) = serBlocks (canonB ts e) := by
  have hi := putAllFB_inv e _ (FMInv.empty (.group ts))
  have hmem : ∀ t, t ∈ (putAllFB (FieldMap.empty (.group ts)) e).tags ↔ (latestB e t).isSome = true := by
    intro t
    rw [hi.same, mem_alKeys_iff, putAllFB_find]
    cases latestB e t <;> simp [FieldMap.empty, alFind]
  have hsubT : ∀ t ∈ (putAllFB (FieldMap.empty (.group ts)) e).tags, t ∈ ts := by
    intro t ht
    have := (hmem t).1 ht
    cases hl : latestB e t with
    | none => rw [hl] at this; cases this
    | some v => exact hsub _ (latestB_mem e t v hl)
  unfold entryTVs
  rw [putAllFB_ord, show (FieldMap.empty (OrdKind.group ts)).ord = .group ts from rfl,
    sortTags_group ts _ hts hi.tagsNodup hsubT, collectTags_putAllFB]
  unfold canonB
  have hf : ts.filter (fun t => (putAllFB (FieldMap.empty (.group ts)) e).tags.contains t) =
      ts.filter (fun t => ((latestB e t).map (fun tvs => (⟨t, tvs⟩ : Block))).isSome) := by
    apply List.filter_congr
    intro t _
    have := hmem t
    cases hc : (putAllFB (FieldMap.empty (.group ts)) e).tags.contains t <;> cases hs : (latestB e t).isSome <;> simp_all
  rw [hf, filterMap_filter_isSome]

/-- `Write` of entries whose members may be nested groups: per entry, the member blocks in template order — compositional:
    the nested groups' own `Write` results enter as given (`blockData`) -/
theorem writeEntries_blocks (tmpl : List Item) (hts : (tmplTags tmpl).Nodup) :
    ∀ (es : List (List GFld)) (bss : List (List (Tag × List TagValue))),
    es.map (fun e => e.map blockData) = bss.map (fun bs => bs.map some) →
    (∀ bs ∈ bss, ∀ p ∈ bs, p.1 ∈ tmplTags tmpl ∧ p.2 ≠ []) →
    writeEntries tmpl es = .ok (bss.flatMap (fun bs => serBlocks (canonB (tmplTags tmpl) bs))) := by
  intro es
  induction es with
  | nil =>
    intro bss h _
    cases bss with
    | nil => simp [writeEntries]
    | cons b r => simp at h
  | cons e r ih =>
    intro bss h hp
    cases bss with
    | nil => simp at h
    | cons bs bss' =>
      simp only [List.map_cons, List.cons.injEq] at h
      obtain ⟨he, hr⟩ := h
      have hne : (FieldMap.empty (.group (tmplTags tmpl))).ownedNE := by
        intro k f hf; simp [FieldMap.empty, alFind] at hf
      simp only [writeEntries]
      rw [buildEntry_blocks e bs _ he hne (fun p hpm => (hp bs (by simp) p hpm).2),
        ih bss' hr (fun x hx => hp x (by simp [hx]))]
      simp only [entryTVs_blocks (tmplTags tmpl) hts bs (fun p hpm => (hp bs (by simp) p hpm).1), List.flatMap_cons]


theorem canonB_mem (ts : List Tag) (e : List (Tag × List TagValue)) (b : Block) :
    b ∈ canonB ts e ↔ b.tag ∈ ts ∧ latestB e b.tag = some b.tvs := by
  unfold canonB
  rw [List.mem_filterMap]
  constructor
  · rintro ⟨a, ha, hm⟩
    cases hl : latestB e a with
    | none => rw [hl] at hm; cases hm
    | some x =>
      rw [hl] at hm; simp only [Option.map_some, Option.some.injEq] at hm
      subst hm; exact ⟨ha, hl⟩
  · rintro ⟨ha, hl⟩
    exact ⟨b.tag, ha, by rw [hl]; rfl⟩

theorem canonB_tags_sublist (ts : List Tag) (e : List (Tag × List TagValue)) : ((canonB ts e).map (·.tag)).Sublist ts := by
  unfold canonB
  induction ts with
  | nil => simp
  | cons t r ih =>
    rw [List.filterMap_cons]
    cases hl : latestB e t with
    | none => simp only [Option.map_none]; exact ih.cons _
    | some v => simp only [Option.map_some, List.map_cons]; exact ih.cons_cons _

theorem canonB_entryOK (S : Tag → Prop) (d : Tag) (tmplr : List Item) (hn : (tmplTags (.elem d :: tmplr)).Nodup)
    (bs : List (Tag × List TagValue)) (tv : TagValue) (hd : latestB bs d = some [tv]) (htv : tv.tag = d)
    (hb : ∀ p ∈ bs, BlockOK S (.elem d :: tmplr) ⟨p.1, p.2⟩) :
    EntryOKB S d tmplr (canonB (tmplTags (.elem d :: tmplr)) bs) := by
  have htags : tmplTags (.elem d :: tmplr) = d :: tmplTags tmplr := by simp [tmplTags, Item.tag]
  refine ⟨tv, canonB (tmplTags tmplr) bs, ?_, htv, ?_⟩
  · rw [htags]; unfold canonB; rw [List.filterMap_cons, hd]; rfl
  · intro b hbm
    obtain ⟨hm, hl⟩ := (canonB_mem _ _ b).1 hbm
    rw [htags, List.nodup_cons] at hn
    refine ⟨fun e => hn.1 (e ▸ hm), ?_⟩
    have := hb (b.tag, b.tvs) (latestB_mem bs b.tag b.tvs hl)
    exact this

/-- WRITE THEN READ, NESTED GROUPS (compositional): entries built by arbitrary setter calls — `Set…` of element fields and
    `SetGroup` of nested groups — on a template of distinct tags; the nested groups' own wire forms read back (`BlockOK`).
    `Write` followed by `Read` returns one entry per entry written; every tag set in an entry maps to a range that starts
    with the TagValues of its LATEST setter call (for a nested group: its count field and entries). -/
theorem roundtrip_nested (S : Tag → Prop) (G d : Tag) (tmplr : List Item) (hts : (tmplTags (.elem d :: tmplr)).Nodup)
    (rest : List TagValue)
    (hS : ∀ t, t ∈ tmplTags (.elem d :: tmplr) → S t) (hSr : ∀ f r, rest = f :: r → S f.tag)
    (hrest : ∀ f r, rest = f :: r → findItem (.elem d :: tmplr) f.tag = none)
    (es : List (List GFld)) (bss : List (List (Tag × List TagValue)))
    (hdata : es.map (fun e => e.map blockData) = bss.map (fun bs => bs.map some))
    (hb : ∀ bs ∈ bss, (∀ p ∈ bs, p.1 ∈ tmplTags (.elem d :: tmplr) ∧ BlockOK S (.elem d :: tmplr) ⟨p.1, p.2⟩) ∧
      ∃ tv, latestB bs d = some [tv] ∧ tv.tag = d)
    (hn : es.length < 9223372036854775808) :
    ∃ tvs gs, writeGroup G (.elem d :: tmplr) es = .ok tvs ∧ getGroup (.elem d :: tmplr) (tvs ++ rest) = .ok gs ∧
      gs.length = es.length ∧
      ∀ (i : Nat) (bs : List (Tag × List TagValue)), bss[i]? = some bs → ∃ g : GEntry, gs[i]? = some g ∧
        ∀ t tvs', latestB bs t = some tvs' → ∃ tail, alFind g.lookup t = some (tvs' ++ tail) := by
  have hlen : bss.length = es.length := by have := congrArg List.length hdata; simpa using this.symm
  have hw := writeEntries_blocks (.elem d :: tmplr) hts es bss hdata (fun bs hbs p hp =>
    ⟨((hb bs hbs).1 p hp).1, by obtain ⟨t0, W, h1, _, _⟩ := ((hb bs hbs).1 p hp).2.head; simp only at h1; rw [h1]; simp⟩)
  have hes' : ∀ e ∈ bss.map (canonB (tmplTags (.elem d :: tmplr))), EntryOKB S d tmplr e := by
    intro e he
    obtain ⟨bs, hbs, rfl⟩ := List.mem_map.1 he
    obtain ⟨tv, hd, htv⟩ := (hb bs hbs).2
    exact canonB_entryOK S d tmplr hts bs tv hd htv (fun p hp => ((hb bs hbs).1 p hp).2)
  have hfm : (bss.map (canonB (tmplTags (.elem d :: tmplr)))).flatMap serBlocks =
      bss.flatMap (fun bs => serBlocks (canonB (tmplTags (.elem d :: tmplr)) bs)) := by rw [List.flatMap_map]
  have hl2 : (bss.map (canonB (tmplTags (.elem d :: tmplr)))).length = es.length := by simp [hlen]
  have hfuel : readFuel (countTV G (bss.map (canonB (tmplTags (.elem d :: tmplr)))).length ::
      ((bss.map (canonB (tmplTags (.elem d :: tmplr)))).flatMap serBlocks ++ rest)) ≥
      2 * (1 + tvCount (bss.map (canonB (tmplTags (.elem d :: tmplr))))) + 1 := by
    have := flatMap_serBlocks_length (bss.map (canonB (tmplTags (.elem d :: tmplr))))
    simp [readFuel, this]; omega
  have hread := readGroup_blocks S G d tmplr rest hS hSr hrest _ hes' (by rw [hl2]; exact hn) _ hfuel
  refine ⟨countTV G es.length :: bss.flatMap (fun bs => serBlocks (canonB (tmplTags (.elem d :: tmplr)) bs)),
    readSpecB rest (bss.map (canonB (tmplTags (.elem d :: tmplr)))), ?_, ?_, by rw [readSpecB_length, hl2], ?_⟩
  · simp only [writeGroup, hw]
  · rw [hl2, hfm] at hread
    simp only [getGroup, List.cons_append]
    rw [hread]
  · intro i bs hi
    obtain ⟨g, hg, _, hfind⟩ := readSpecB_entry S d tmplr rest _ hes' i (canonB (tmplTags (.elem d :: tmplr)) bs) (by simp [hi])
    refine ⟨g, hg, ?_⟩
    intro t tvs' hl
    have hm : t ∈ tmplTags (.elem d :: tmplr) := ((hb bs (List.mem_of_getElem? hi)).1 _ (latestB_mem bs t tvs' hl)).1
    exact hfind ((canonB_tags_sublist _ bs).nodup hts) ⟨t, tvs'⟩ ((canonB_mem _ bs ⟨t, tvs'⟩).2 ⟨hm, hl⟩)


end Qfx
