/- C13: `RepeatingGroup.Read` on groups whose members may themselves be repeating groups — compositional over the nesting depth -/
import Qfx.Lemmas.CodecGroup
namespace Qfx

/-- one member of an entry on the wire: the TagValues it occupies (one for an element, count + entries for a nested group) -/
structure Block where
  tag : Tag
  tvs : List TagValue

def serBlocks (e : List Block) : List TagValue := e.flatMap (·.tvs)

/-- a nested group's wire form `W` reads back (and is skipped) whenever what follows starts with a tag allowed by `S` -/
def NestedOK (S : Tag → Prop) (gtm : List Item) (W : List TagValue) : Prop :=
  ∀ fuel after, fuel ≥ 2 * W.length + 1 → (∀ f r, after = f :: r → S f.tag) →
    ∃ gs, readGroup fuel gtm (W ++ after) = .ok (after, gs)

/-- a well-formed member block for the template: an element field, or a nested group that reads back -/
def BlockOK (S : Tag → Prop) (tmpl : List Item) (b : Block) : Prop :=
  (∃ tv t, b.tvs = [tv] ∧ tv.tag = b.tag ∧ findItem tmpl b.tag = some (.elem t)) ∨
  (∃ t gtm t0 W, findItem tmpl b.tag = some (.group t gtm) ∧ b.tvs = t0 :: W ∧ t0.tag = b.tag ∧ NestedOK S gtm b.tvs)

def putAllB : GEntry → List Block → List TagValue → GEntry
  | g, [], _ => g
  | g, b :: r, after => putAllB (g.put b.tag (b.tvs ++ (serBlocks r ++ after))) r after

def readSpecB (after : List TagValue) : List (List Block) → List GEntry
  | [] => []
  | [] :: es => GEntry.empty :: readSpecB after es
  | (b :: e) :: es =>
    putAllB (GEntry.empty.put b.tag (b.tvs ++ (serBlocks e ++ ((es.flatMap serBlocks) ++ after)))) e ((es.flatMap serBlocks) ++ after)
      :: readSpecB after es

theorem readSpecB_length (after : List TagValue) (es : List (List Block)) : (readSpecB after es).length = es.length := by
  induction es with
  | nil => rfl
  | cons e r ih =>
    cases e with
    | nil => simp [readSpecB, ih]
    | cons b e => simp [readSpecB, ih]

/-- an entry: the delimiter element first, then blocks that are not the delimiter -/
def EntryOKB (S : Tag → Prop) (d : Tag) (tmpl : List Item) (e : List Block) : Prop :=
  ∃ tv e', e = ⟨d, [tv]⟩ :: e' ∧ tv.tag = d ∧ ∀ b ∈ e', b.tag ≠ d ∧ BlockOK S (.elem d :: tmpl) b

def tvCount (es : List (List Block)) : Nat := ((es.map serBlocks).map List.length).sum

theorem step_group (fuel : Nat) (d : Item) (tmpl : List Item) (f : TagValue) (rest tv' : List TagValue) (gs : List GEntry)
    (done : List GEntry) (g : GEntry) (t : Tag) (gtm : List Item)
    (hf : findItem (d :: tmpl) f.tag = some (.group t gtm)) (hd : f.tag ≠ d.tag)
    (hr : readGroup fuel gtm (f :: rest) = .ok (tv', gs)) :
    readLoop (fuel + 1) (d :: tmpl) (f :: rest) done (some g) =
      readLoop fuel (d :: tmpl) tv' done (some (g.put f.tag (f :: rest))) := by
  simp [readLoop, hf, hd, hr]


theorem findItem_some_tag (tmpl : List Item) (t : Tag) (it : Item) (h : findItem tmpl t = some it) : it.tag = t ∧ t ∈ tmplTags tmpl := by
  induction tmpl with
  | nil => simp [findItem] at h
  | cons x r ih =>
    simp only [findItem] at h
    split at h
    · rename_i hx; injection h with h; subst h; exact ⟨hx, by simp [tmplTags, hx]⟩
    · obtain ⟨h1, h2⟩ := ih h; exact ⟨h1, by simp only [tmplTags, List.map_cons, List.mem_cons] at h2 ⊢; exact Or.inr h2⟩

theorem BlockOK.head {S : Tag → Prop} {tmpl : List Item} {b : Block} (h : BlockOK S tmpl b) :
    ∃ t0 W, b.tvs = t0 :: W ∧ t0.tag = b.tag ∧ b.tag ∈ tmplTags tmpl := by
  rcases h with ⟨tv, t, h1, h2, h3⟩ | ⟨t, gtm, t0, W, h1, h2, h3, _⟩
  · exact ⟨tv, [], h1, h2, (findItem_some_tag _ _ _ h3).2⟩
  · exact ⟨t0, W, h2, h3, (findItem_some_tag _ _ _ h1).2⟩

theorem serBlocks_cons (b : Block) (r : List Block) : serBlocks (b :: r) = b.tvs ++ serBlocks r := by simp [serBlocks]

/-- whatever follows a block inside a well-formed sequence starts with a tag of `S` -/
theorem next_tag_ok (S : Tag → Prop) (d : Tag) (tmplr : List Item) (rest : List TagValue)
    (hS : ∀ t, t ∈ tmplTags (.elem d :: tmplr) → S t) (hSr : ∀ f r, rest = f :: r → S f.tag)
    (r : List Block) (hr : ∀ b ∈ r, b.tag ≠ d ∧ BlockOK S (.elem d :: tmplr) b)
    (es : List (List Block)) (hes : ∀ e ∈ es, EntryOKB S d tmplr e) :
    ∀ f r0, serBlocks r ++ (es.flatMap serBlocks ++ rest) = f :: r0 → S f.tag := by
  intro f r0 h
  cases r with
  | cons b r' =>
    obtain ⟨t0, W, h1, h2, h3⟩ := (hr b (by simp)).2.head
    rw [serBlocks_cons, h1] at h
    simp only [List.cons_append, List.cons.injEq] at h
    rw [← h.1, h2]; exact hS _ h3
  | nil =>
    cases es with
    | cons e es' =>
      obtain ⟨tv, e', he, htv, _⟩ := hes e (by simp)
      subst he
      simp only [serBlocks, List.flatMap_nil, List.nil_append, List.flatMap_cons, List.cons_append, List.cons.injEq] at h
      rw [← h.1, htv]; exact hS _ (by simp [tmplTags, Item.tag])
    | nil =>
      simp only [serBlocks, List.flatMap_nil, List.nil_append] at h
      exact hSr f r0 h


theorem tvCount_cons (e : List Block) (es : List (List Block)) : tvCount (e :: es) = (serBlocks e).length + tvCount es := by
  simp [tvCount]

theorem readLoop_blocks (S : Tag → Prop) (d : Tag) (tmplr : List Item) (rest : List TagValue)
    (hS : ∀ t, t ∈ tmplTags (.elem d :: tmplr) → S t) (hSr : ∀ f r, rest = f :: r → S f.tag)
    (hrest : ∀ f r, rest = f :: r → findItem (.elem d :: tmplr) f.tag = none) :
    ∀ (es : List (List Block)), (∀ e ∈ es, EntryOKB S d tmplr e) →
    ∀ (r : List Block), (∀ b ∈ r, b.tag ≠ d ∧ BlockOK S (.elem d :: tmplr) b) →
    ∀ (g : GEntry) (done : List GEntry) (fuel : Nat), fuel ≥ 2 * ((serBlocks r).length + tvCount es) + 2 →
      readLoop fuel (.elem d :: tmplr) (serBlocks r ++ (es.flatMap serBlocks ++ rest)) done (some g) =
        .ok (rest, done ++ [putAllB g r (es.flatMap serBlocks ++ rest)] ++ readSpecB rest es) := by
  -- one member block
  have member : ∀ (b : Block) (r : List Block) (es : List (List Block)) (g : GEntry) (done : List GEntry) (fuel : Nat),
      b.tag ≠ d → BlockOK S (.elem d :: tmplr) b → (∀ b' ∈ r, b'.tag ≠ d ∧ BlockOK S (.elem d :: tmplr) b') →
      (∀ e ∈ es, EntryOKB S d tmplr e) → fuel ≥ 2 * b.tvs.length + 1 →
      readLoop (fuel + 1) (.elem d :: tmplr) (serBlocks (b :: r) ++ (es.flatMap serBlocks ++ rest)) done (some g) =
        readLoop fuel (.elem d :: tmplr) (serBlocks r ++ (es.flatMap serBlocks ++ rest)) done
          (some (g.put b.tag (b.tvs ++ (serBlocks r ++ (es.flatMap serBlocks ++ rest))))) := by
    intro b r es g done fuel hne hb hr hes hf
    rcases hb with ⟨tv, t, h1, h2, h3⟩ | ⟨t, gtm, t0, W, h1, h2, h3, hN⟩
    · rw [serBlocks_cons, h1]
      simp only [List.cons_append, List.nil_append]
      rw [step_member fuel (.elem d) tmplr tv _ done g t (by rw [h2]; exact h3) (by rw [h2]; exact hne), h2]
    · rw [serBlocks_cons, h2]
      simp only [List.cons_append, List.append_assoc]
      have hafter := next_tag_ok S d tmplr rest hS hSr r hr es hes
      obtain ⟨gs, hread⟩ := hN fuel (serBlocks r ++ (es.flatMap serBlocks ++ rest)) hf hafter
      rw [h2] at hread
      simp only [List.cons_append] at hread
      rw [step_group fuel (.elem d) tmplr t0 _ _ gs done g t gtm (by rw [h3]; exact h1) (by rw [h3]; exact hne) hread, h3]
  intro es
  induction es with
  | nil =>
    intro _ r
    induction r with
    | nil =>
      intro _ g done fuel hf
      cases fuel with
      | zero => omega
      | succ fuel =>
        simp only [serBlocks, List.flatMap_nil, List.nil_append, putAllB, readSpecB, List.append_nil]
        cases hr : rest with
        | nil => rw [step_nil]; rfl
        | cons f rr => rw [step_stop _ _ _ _ _ _ (hrest f rr hr)]; rfl
    | cons b r ih =>
      intro hr g done fuel hf
      have hb := hr b (by simp)
      cases fuel with
      | zero => omega
      | succ fuel =>
        have hlen : (serBlocks (b :: r)).length = b.tvs.length + (serBlocks r).length := by rw [serBlocks_cons]; simp
        rw [member b r [] g done fuel hb.1 hb.2 (fun x hx => hr x (by simp [hx])) (by simp) (by rw [hlen] at hf; simp [tvCount] at hf; omega)]
        rw [ih (fun x hx => hr x (by simp [hx])) _ done fuel (by
          obtain ⟨t0, W, h1, _, _⟩ := hb.2.head
          rw [hlen, h1] at hf; simp [tvCount] at hf ⊢; omega)]
        rfl
  | cons e es ih =>
    intro hes r
    obtain ⟨tv0, e', hee, htv0, he'⟩ := hes e (by simp)
    subst hee
    induction r with
    | nil =>
      intro _ g done fuel hf
      cases fuel with
      | zero => omega
      | succ fuel =>
        have e1 : serBlocks [] ++ ((( ⟨d, [tv0]⟩ :: e') :: es).flatMap serBlocks ++ rest) =
            tv0 :: (serBlocks e' ++ (es.flatMap serBlocks ++ rest)) := by
          simp [serBlocks, List.flatMap_cons, List.append_assoc]
        rw [e1, step_delim fuel d tmplr tv0 _ done (some g) htv0, htv0,
          ih (fun x hx => hes x (by simp [hx])) e' he' _ _ fuel (by
            rw [tvCount_cons, serBlocks_cons] at hf; simp [serBlocks] at hf ⊢; omega)]
        simp [putAllB, readSpecB, finishGroups, serBlocks, List.append_assoc]
    | cons b r ihr =>
      intro hr g done fuel hf
      have hb := hr b (by simp)
      cases fuel with
      | zero => omega
      | succ fuel =>
        have hlen : (serBlocks (b :: r)).length = b.tvs.length + (serBlocks r).length := by rw [serBlocks_cons]; simp
        rw [member b r ((⟨d, [tv0]⟩ :: e') :: es) g done fuel hb.1 hb.2 (fun x hx => hr x (by simp [hx])) hes (by rw [hlen] at hf; omega)]
        rw [ihr (fun x hx => hr x (by simp [hx])) _ done fuel (by
          obtain ⟨t0, W, h1, _, _⟩ := hb.2.head
          rw [hlen, h1] at hf; simp at hf ⊢; omega)]
        rfl


theorem flatMap_serBlocks_length (es : List (List Block)) : (es.flatMap serBlocks).length = tvCount es := by
  induction es with
  | nil => rfl
  | cons e r ih => rw [List.flatMap_cons, List.length_append, ih, tvCount_cons]

/-- READ OF A GROUP WHOSE MEMBERS MAY BE NESTED GROUPS (compositional): if every nested group of every entry reads back
    (`BlockOK`), the whole group reads back, entry by entry, and hands back `rest` -/
theorem readGroup_blocks (S : Tag → Prop) (G d : Tag) (tmplr : List Item) (rest : List TagValue)
    (hS : ∀ t, t ∈ tmplTags (.elem d :: tmplr) → S t) (hSr : ∀ f r, rest = f :: r → S f.tag)
    (hrest : ∀ f r, rest = f :: r → findItem (.elem d :: tmplr) f.tag = none)
    (es : List (List Block)) (hes : ∀ e ∈ es, EntryOKB S d tmplr e) (hn : es.length < 9223372036854775808)
    (fuel : Nat) (hf : fuel ≥ 2 * (1 + tvCount es) + 1) :
    readGroup fuel (.elem d :: tmplr) (countTV G es.length :: (es.flatMap serBlocks ++ rest)) = .ok (rest, readSpecB rest es) := by
  cases fuel with
  | zero => omega
  | succ fuel =>
    have hval : (countTV G es.length).value = fmtNat es.length := rfl
    simp only [readGroup, hval, atoi_fmtNat _ hn]
    cases es with
    | nil => simp [readSpecB]
    | cons e es =>
      have hne : ¬ (((e :: es).length : Nat) : Int) = 0 := by simp; omega
      simp only [hne, if_false]
      obtain ⟨tv0, e', hee, htv0, he'⟩ := hes e (by simp)
      subst hee
      cases fuel with
      | zero => rw [tvCount_cons, serBlocks_cons] at hf; simp at hf; omega
      | succ fuel =>
        have e1 : ((⟨d, [tv0]⟩ :: e') :: es).flatMap serBlocks ++ rest = tv0 :: (serBlocks e' ++ (es.flatMap serBlocks ++ rest)) := by
          simp [serBlocks, List.flatMap_cons, List.append_assoc]
        rw [e1, step_delim fuel d tmplr tv0 _ [] none htv0, htv0,
          readLoop_blocks S d tmplr rest hS hSr hrest es (fun x hx => hes x (by simp [hx])) e' he' _ _ fuel
            (by rw [tvCount_cons, serBlocks_cons] at hf; simp [serBlocks] at hf ⊢; omega)]
        have hl := readSpecB_length rest ((⟨d, [tv0]⟩ :: e') :: es)
        simp only [finishGroups, List.nil_append, readSpecB] at hl ⊢
        simp only [List.length_cons] at hl
        simp [hl]

/-- hence such a group is itself a well-formed nested block for an enclosing group (arbitrary depth by iteration) -/
theorem nestedOK_of_entries (S S' : Tag → Prop) (G d : Tag) (tmplr : List Item)
    (hS : ∀ t, t ∈ tmplTags (.elem d :: tmplr) → S t)
    (hS' : ∀ t, S' t → S t ∧ findItem (.elem d :: tmplr) t = none)
    (es : List (List Block)) (hes : ∀ e ∈ es, EntryOKB S d tmplr e) (hn : es.length < 9223372036854775808) :
    NestedOK S' (.elem d :: tmplr) (countTV G es.length :: es.flatMap serBlocks) := by
  intro fuel after hf hafter
  refine ⟨readSpecB after es, ?_⟩
  have := readGroup_blocks S G d tmplr after hS (fun f r h => (hS' _ (hafter f r h)).1) (fun f r h => (hS' _ (hafter f r h)).2)
    es hes hn fuel (by rw [List.length_cons, flatMap_serBlocks_length] at hf; omega)
  simpa using this

/-- base case: a nested group without further nesting (flat template) -/
theorem nestedOK_flat (S' : Tag → Prop) (G d : Tag) (ts : List Tag) (hS' : ∀ t, S' t → t ∉ d :: ts)
    (es : List (List (Tag × Bytes))) (hes : ∀ e ∈ es, EntryOK d (d :: ts) e) (hn : es.length < 9223372036854775808) :
    NestedOK S' (flatTmpl (d :: ts)) (countTV G es.length :: es.flatMap serEntry) := by
  intro fuel after hf hafter
  refine ⟨readSpec after es, ?_⟩
  have := readGroup_flat G d ts after (fun f r h => hS' _ (hafter f r h)) es hes hn fuel
    (by rw [List.length_cons, flatMap_serEntry_length] at hf; omega)
  simpa using this


theorem putAllB_tags (g : GEntry) (r : List Block) (after : List TagValue) :
    (putAllB g r after).tags = g.tags ++ r.map (·.tag) := by
  induction r generalizing g with
  | nil => simp [putAllB]
  | cons b r ih => simp [putAllB, ih, GEntry.put, List.append_assoc]

theorem putAllB_find_absent (g : GEntry) (r : List Block) (after : List TagValue) (t : Tag) (h : ∀ b ∈ r, b.tag ≠ t) :
    alFind (putAllB g r after).lookup t = alFind g.lookup t := by
  induction r generalizing g with
  | nil => rfl
  | cons b r ih =>
    simp only [putAllB]
    rw [ih _ (fun q hq => h q (by simp [hq]))]
    exact alFind_insert_other _ _ _ _ (Ne.symm (h b (by simp)))

theorem putAllB_find (g : GEntry) (r : List Block) (after : List TagValue) (b : Block)
    (hnd : (r.map (·.tag)).Nodup) (hm : b ∈ r) :
    ∃ tail, alFind (putAllB g r after).lookup b.tag = some (b.tvs ++ tail) := by
  induction r generalizing g with
  | nil => simp at hm
  | cons x r ih =>
    simp only [List.map_cons, List.nodup_cons] at hnd
    simp only [putAllB]
    rcases List.mem_cons.1 hm with e | hm'
    · subst e
      refine ⟨serBlocks r ++ after, ?_⟩
      rw [putAllB_find_absent _ r after b.tag (fun q hq e => hnd.1 (by rw [← e]; exact List.mem_map_of_mem hq))]
      exact alFind_insert_self _ _ _
    · exact ih _ hnd.2 hm'

/-- entry `i` of the result: the tags of the i-th entry's blocks in wire order; each (distinct) tag maps to a range that starts
    with that block's TagValues (for a nested group: its count field and entries, ready to be read with the nested template) -/
theorem readSpecB_entry (S : Tag → Prop) (d : Tag) (tmplr : List Item) (rest : List TagValue) :
    ∀ (es : List (List Block)), (∀ e ∈ es, EntryOKB S d tmplr e) →
    ∀ (i : Nat) (e : List Block), es[i]? = some e →
      ∃ g : GEntry, (readSpecB rest es)[i]? = some g ∧ g.tags = e.map (·.tag) ∧
        ((e.map (·.tag)).Nodup → ∀ b ∈ e, ∃ tail, alFind g.lookup b.tag = some (b.tvs ++ tail)) := by
  intro es
  induction es with
  | nil => intro _ i e hi; simp at hi
  | cons e0 es ih =>
    intro hes i e hi
    obtain ⟨tv0, e', hee, _, _⟩ := hes e0 (by simp)
    subst hee
    cases i with
    | zero =>
      simp only [List.getElem?_cons_zero, Option.some.injEq] at hi
      subst hi
      refine ⟨putAllB GEntry.empty (⟨d, [tv0]⟩ :: e') (es.flatMap serBlocks ++ rest), rfl, ?_, ?_⟩
      · rw [putAllB_tags]; simp [GEntry.empty]
      · intro hnd b hb
        exact putAllB_find _ _ _ b hnd hb
    | succ i =>
      obtain ⟨g, hg, h2⟩ := ih (fun x hx => hes x (by simp [hx])) i e (by simpa using hi)
      exact ⟨g, by simpa [readSpecB] using hg, h2⟩

end Qfx
