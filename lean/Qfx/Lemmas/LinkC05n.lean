/-
  C05 liveness, part n: single link steps with known handler results (delivery to A, flush, connect), the reply to a
  ResendRequest as a run (`seg_reply`), stores that hold every number (`LFull`).
-/
import Qfx.Lemmas.LinkC05m
namespace Qfx.Link
open Qfx Qfx.Sess

theorem deliverA_gen {cfgA cfgB : Cfg} (hcf : CfgsOK cfgA cfgB) {l : LSt} (h : LInv cfgA cfgB l) {m : OutMsg} {rest : List OutMsg}
    (hq : l.b2a = m :: rest) (hcon : l.a.st.connected = true) (hb : Bnd l) {n : Int} {W q : List OutMsg} {t' : Int} {nx : SState}
    (hres : Res l.a.clearLog (fixMsgInCore l.a.clearLog (toIn l.b.cfg m)) n W q t' nx) (hnx : nx.connected = true)
    (hb1 : l.a.store.sender + n ≤ maxSeq) :
    let l' := (lstep l (.deliver .A)).1
    LInv cfgA cfgB l' ∧ l'.b = l.b ∧ l'.b2a = rest ∧ l'.a2b = l.a2b ++ W ∧ l'.a.st = nx ∧ l'.a.store.target = t' ∧
      l'.a.store.sender = l.a.store.sender + n ∧ l'.a.toSend = q ∧ l'.a.out = l.a.out ∧ l'.sentA = l.sentA ∧ l'.sentB = l.sentB ∧
      Grow true l.a.store l'.a.store := by
  intro l'
  have := deliverB_gen hcf.symm (l := swapL l) (LInv_swap h) hq hcon (Bnd_swap hb) hres hnx hb1
  have e : (lstep (swapL l) (.deliver .B)).1 = swapL l' := lstep_swap_deliver l .A
  rw [e] at this
  obtain ⟨j1, j2, j3, j4, j5, j6, j7, j8, j9, j10, j11, j12⟩ := this
  exact ⟨LInv_swap j1, j2, j3, j4, j5, j6, j7, j8, j9, j11, j10, j12⟩

/-- B's run loop writes what is queued (B logged on and connected) -/
theorem flushB_gen {cfgA cfgB : Cfg} (hcf : CfgsOK cfgA cfgB) {l : LSt} (h : LInv cfgA cfgB l) (hl : l.b.st.loggedOn = true)
    (ho : l.b.out = true) (hb : Bnd l) :
    let l' := (lstep l (.flush .B)).1
    LInv cfgA cfgB l' ∧ l'.a = l.a ∧ l'.a2b = l.a2b ∧ l'.b2a = l.b2a ++ l.b.toSend ∧ l'.b.st = l.b.st ∧ l'.b.store.target = l.b.store.target ∧
      l'.b.store.sender = l.b.store.sender ∧ l'.b.toSend = [] ∧ l'.b.out = true ∧ l'.sentA = l.sentA ∧ l'.sentB = l.sentB ∧
      Grow true l.b.store l'.b.store := by
  intro l'
  have hs := stepIs_flush l.b hl ho
  have f3 : l'.b = (step l.b .flush).1 := rfl
  have f4 : l'.b2a = l.b2a ++ wiresOf (step l.b .flush).2.1 := rfl
  have hbnd : Bnd l' := ⟨hb.1, by show l'.b.store.sender ≤ _; rw [f3, hs.snd]; have := hb.2; omega⟩
  have hinv := LInv_lstep hcf h (.flush .B) trivial hb hbnd
  refine ⟨hinv, rfl, rfl, by rw [f4, hs.w], by rw [f3]; exact hs.st, by rw [f3]; exact hs.tgt, by rw [f3, hs.snd]; omega,
    by rw [f3]; exact hs.q, by rw [f3]; exact hs.out, rfl, rfl, by rw [f3]; exact hs.grow⟩

theorem flushA_gen {cfgA cfgB : Cfg} (hcf : CfgsOK cfgA cfgB) {l : LSt} (h : LInv cfgA cfgB l) (hl : l.a.st.loggedOn = true)
    (ho : l.a.out = true) (hb : Bnd l) :
    let l' := (lstep l (.flush .A)).1
    LInv cfgA cfgB l' ∧ l'.b = l.b ∧ l'.b2a = l.b2a ∧ l'.a2b = l.a2b ++ l.a.toSend ∧ l'.a.st = l.a.st ∧ l'.a.store.target = l.a.store.target ∧
      l'.a.store.sender = l.a.store.sender ∧ l'.a.toSend = [] ∧ l'.a.out = true ∧ l'.sentA = l.sentA ∧ l'.sentB = l.sentB ∧
      Grow true l.a.store l'.a.store := by
  intro l'
  have := flushB_gen hcf.symm (l := swapL l) (LInv_swap h) hl ho (Bnd_swap hb)
  have e : (lstep (swapL l) (.flush .B)).1 = swapL l' := lstep_swap_flush l .A
  rw [e] at this
  obtain ⟨j1, j2, j3, j4, j5, j6, j7, j8, j9, j10, j11, j12⟩ := this
  exact ⟨LInv_swap j1, j2, j3, j4, j5, j6, j7, j8, j9, j11, j10, j12⟩

/-- both engines disconnected, reset options off, A the initiator, B the acceptor: `connect` puts A's Logon on the wire -/
theorem connect_gen {cfgA cfgB : Cfg} (hcf : CfgsOK cfgA cfgB) (hia : cfgA.initiator = true) (hib : cfgB.initiator = false)
    {l : LSt} (h : LInv cfgA cfgB l) (hsa : l.a.st = .latent) (hsb : l.b.st = .latent) (hb : Bnd l) (hb1 : l.a.store.sender + 1 ≤ maxSeq) :
    let l' := (lstep l .connect).1
    ∃ mL, IsLogon cfgA mL ∧ mL.seq = l.a.store.sender ∧
      LInv cfgA cfgB l' ∧ l'.a2b = l.a2b ++ [mL] ∧ l'.b2a = l.b2a ∧
      l'.a.st = .logon ∧ l'.a.store.target = l.a.store.target ∧ l'.a.store.sender = l.a.store.sender + 1 ∧ l'.a.toSend = [] ∧ l'.a.out = true ∧
      l'.b.st = .logon ∧ l'.b.store.target = l.b.store.target ∧ l'.b.store.sender = l.b.store.sender ∧ l'.b.toSend = l.b.toSend ∧ l'.b.out = true ∧
      l'.sentA = l.sentA ∧ l'.sentB = l.sentB ∧ Grow true l.a.store l'.a.store ∧ Grow true l.b.store l'.b.store := by
  intro l'
  have hnra : NoResetCfg l.a.cfg := by rw [h.ca]; exact hcf.na
  have hnrb : NoResetCfg l.b.cfg := by rw [h.cb]; exact hcf.nb
  have hpa : l.a.cfg.persist = true := by rw [h.ca]; exact hcf.pa
  have hpb : l.b.cfg.persist = true := by rw [h.cb]; exact hcf.pb
  have hA : ∃ mL, IsLogon l.a.cfg mL ∧ mL.seq = l.a.store.sender ∧ StepIs l.a .connect .logon l.a.store.target 1 [mL] [] true := by
    rcases stepIs_connect hsa hnra hpa with ⟨_, r⟩ | ⟨hi, _⟩
    · exact r
    · rw [h.ca, hia] at hi; cases hi
  have sb : StepIs l.b .connect .logon l.b.store.target 0 [] l.b.toSend true := by
    rcases stepIs_connect hsb hnrb hpb with ⟨hi, _⟩ | ⟨_, r⟩
    · rw [h.cb, hib] at hi; cases hi
    · exact r
  obtain ⟨mL, hl1, hl2, sa⟩ := hA
  have fa : l'.a = (step l.a .connect).1 := rfl
  have fb : l'.b = (step l.b .connect).1 := rfl
  have f1 : l'.a2b = l.a2b ++ wiresOf (step l.a .connect).2.1 := rfl
  have f2 : l'.b2a = l.b2a ++ wiresOf (step l.b .connect).2.1 := rfl
  have hbnd : Bnd l' := ⟨by show l'.a.store.sender ≤ _; rw [fa, sa.snd]; exact hb1, by show l'.b.store.sender ≤ _; rw [fb, sb.snd]; have := hb.2; omega⟩
  have hinv := LInv_lstep hcf h .connect trivial hb hbnd
  refine ⟨mL, by rw [← h.ca]; exact hl1, hl2, hinv, by rw [f1, sa.w], by rw [f2, sb.w]; simp, by rw [fa]; exact sa.st, by rw [fa]; exact sa.tgt,
    by rw [fa]; exact sa.snd, by rw [fa]; exact sa.q, by rw [fa]; exact sa.out, by rw [fb]; exact sb.st, by rw [fb]; exact sb.tgt,
    by rw [fb, sb.snd]; omega, by rw [fb]; exact sb.q, by rw [fb]; exact sb.out, rfl, rfl, by rw [fa]; exact sa.grow, by rw [fb]; exact sb.grow⟩

theorem quiet_of_app {k : String} (h : isAdminKind k = false) : QuietK k := by
  refine ⟨?_, ?_, ?_, ?_, ?_⟩ <;> (intro hk; rw [hk] at h; revert h; decide)

theorem reply_msg_facts (st : Store) (hs : StoreOK st) (b e n : Int) (m : OutMsg) (hr : Rep.msg n m ∈ replyReps true st b e) :
    m.seq = n ∧ isAdminKind m.kind = false := by
  by_cases hbe : e < b
  · simp [replyReps, hbe] at hr
  · have hbe' : b ≤ e := by omega
    have h1 := C03_original_number st (filed_of_ok hs) true b e n m hr
    have hmem := mem_of_lookup st n m h1.2
    have h2 : (n, m) ∈ (replyReps true st b e).filterMap Rep.msg? := List.mem_filterMap.2 ⟨_, hr, rfl⟩
    rw [C03_replayed_exactly st b e hbe'] at h2
    have h3 := (List.mem_filter.1 h2).2
    simp only [replayable, Bool.and_eq_true, Bool.not_eq_eq_eq_not, Bool.not_true] at h3
    exact ⟨(hs.ent _ hmem).1, h3.1⟩

theorem seg_of_chain (st : Store) (lt : Option Int) {a c : Int} {reps : List Rep} (hc : Chain a reps c)
    (hw : ∀ r ∈ reps, Wire st (Rep.outR lt r)) (hm : ∀ n m, Rep.msg n m ∈ reps → m.seq = n ∧ isAdminKind m.kind = false) :
    Seg st a (reps.map (Rep.outR lt)) c := by
  induction hc with
  | nil a => exact .nil a
  | @cons a c r rest hlo hne h ih =>
    have ih' := ih (fun r' hr' => hw r' (List.mem_cons_of_mem _ hr')) (fun n m hr' => hm n m (List.mem_cons_of_mem _ hr'))
    cases r with
    | gap x y =>
      simp only [Rep.lo] at hlo
      subst hlo
      exact .gap (lt := lt) (hw _ List.mem_cons_self) ih'
    | msg n m =>
      simp only [Rep.lo] at hlo
      subst hlo
      obtain ⟨h1, h2⟩ := hm n m List.mem_cons_self
      exact .msg (hw _ List.mem_cons_self) (show (resent m).seq = n from h1) (quiet_of_app (show isAdminKind (resent m).kind = false from h2)) ih'

/-- the reply to a ResendRequest for `[b, e]` (every number of the range stored) is a run covering `b … e` -/
theorem seg_reply (st : Store) (hs : StoreOK st) (b e : Int) (hlo : -9223372036854775808 ≤ b) (hbe : b ≤ e) (he : e ≤ st.sender - 1)
    (lt : Option Int) (hall : st.HoldsAll b e) : Seg st b (replyPlanR lt true st b e) (e + 1) :=
  seg_of_chain st lt (C03_cover st b e hbe hall)
    (fun r hr => wire_reply st hs lt b e hlo he (Rep.outR lt r) (List.mem_map.2 ⟨r, hr, rfl⟩))
    (fun n m hr => reply_msg_facts st hs b e n m hr)

/-! ### every number used is stored -/

theorem full_step (s : Sess) (e : Ev) (hp : s.cfg.persist = true) (h : StoredAllInv true s.store) : StoredAllInv true (step s e).1.store := by
  have := (sp_step s e).2 StoredAllInv storedAllInv_closed (by rw [hp]; exact h)
  rwa [hp] at this

/-- both stores hold every number they have used -/
def LFull (l : LSt) : Prop := StoredAllInv true l.a.store ∧ StoredAllInv true l.b.store

theorem LFull_onSide {l : LSt} (hpa : l.a.cfg.persist = true) (hpb : l.b.cfg.persist = true) (h : LFull l) (side : Side) (e : Ev) :
    LFull (onSide l side e).1 := by
  cases side with
  | A => exact ⟨full_step l.a e hpa h.1, h.2⟩
  | B => exact ⟨h.1, full_step l.b e hpb h.2⟩

theorem onSide_cfg (l : LSt) (side : Side) (e : Ev) : (onSide l side e).1.a.cfg = l.a.cfg ∧ (onSide l side e).1.b.cfg = l.b.cfg := by
  cases side with
  | A => exact ⟨(sp_step l.a e).1, rfl⟩
  | B => exact ⟨rfl, (sp_step l.b e).1⟩

theorem LFull_lstep {l : LSt} (hpa : l.a.cfg.persist = true) (hpb : l.b.cfg.persist = true) (h : LFull l) (e : LEv) : LFull (lstep l e).1 := by
  cases e with
  | connect =>
    have h1 := LFull_onSide hpa hpb h .A .connect
    have c1 := onSide_cfg l .A .connect
    exact LFull_onSide (by rw [c1.1]; exact hpa) (by rw [c1.2]; exact hpb) h1 .B .connect
  | send side p =>
    have h1 := LFull_onSide hpa hpb h side (.send { kind := "D", seq := 0, f := [(9000, p)] })
    simp only [lstep]
    split
    · cases side <;> exact h1
    · exact h1
  | deliver to =>
    cases to with
    | A =>
      cases hq : l.b2a with
      | nil => simp only [lstep, hq]; exact h
      | cons m rest =>
        simp only [lstep, hq]
        exact LFull_onSide (l := { l with b2a := rest, rcvA := noteRcv l.rcvA (toIn l.b.cfg m) }) hpa hpb h .A _
    | B =>
      cases hq : l.a2b with
      | nil => simp only [lstep, hq]; exact h
      | cons m rest =>
        simp only [lstep, hq]
        exact LFull_onSide (l := { l with a2b := rest, rcvB := noteRcv l.rcvB (toIn l.a.cfg m) }) hpa hpb h .B _
  | cut =>
    have h1 := LFull_onSide (l := { l with a2b := [], b2a := [] }) hpa hpb h .A .disconnected
    have c1 := onSide_cfg { l with a2b := [], b2a := [] } .A .disconnected
    exact LFull_onSide (by rw [c1.1]; exact hpa) (by rw [c1.2]; exact hpb) h1 .B .disconnected
  | restart side => cases side <;> exact h
  | timer side ev => exact LFull_onSide hpa hpb h side _
  | flush side => exact LFull_onSide hpa hpb h side _

theorem LFull_init (cfgA cfgB : Cfg) : LFull (linkInit cfgA cfgB) := by
  have h0 : ∀ cfg : Cfg, StoredAllInv true (initSess cfg 1 1).store := by
    intro cfg _
    refine ⟨by simp [initSess], ?_, ?_, ?_, ?_⟩
    · intro q hq; simp [initSess] at hq
    · simp [initSess]
    · intro q hq; simp [initSess] at hq
    · intro n h1 h2; simp [initSess] at h2; omega
  exact ⟨h0 cfgA, h0 cfgB⟩

end Qfx.Link
