/-
  Qfx.Lemmas.Float — binary64 as exact arithmetic: the value function `scaled` is strictly increasing in the ordinal,
  the model's rounding `roundOrd` meets the declarative `Spec.Nearest`, and `Nearest` determines the ordinal.
  Core Lean only.
-/
import Qfx.Spec.Float
import Qfx.Lemmas.Decimal
namespace Qfx.F64
open Qfx Qfx.Spec Qfx.Dec

/-! ## the value function -/

theorem two_pow_pos (k : Nat) : 0 < 2 ^ k := Nat.pow_pos (by decide)

theorem two_pow_succ' (k : Nat) (h : 0 < k) : 2 ^ k = 2 * 2 ^ (k - 1) := by
  cases k with
  | zero => omega
  | succ k => simp [Nat.pow_succ]; omega

/-- normal form of an ordinal: `sh` = exponent above the first binade, `M` = the full (up to 53 bit) mantissa -/
theorem scaled_norm (sh M : Nat) (h1 : M < P53) (h2 : sh = 0 ∨ P52 ≤ M) :
    scaled (P52 * sh + M) = M * 2 ^ sh := by
  unfold scaled
  rcases h2 with h | h
  · subst h
    simp only [Nat.mul_zero, Nat.zero_add, Nat.pow_zero, Nat.mul_one]
    by_cases hM : M < P52
    · have : M / P52 = 0 := by omega
      simp [this]
    · have h1 : M / P52 = 1 := by omega
      have h2 : M % P52 = M - P52 := by omega
      rw [h1, h2]; simp; omega
  · have h3 : (P52 * sh + M) / P52 = sh + 1 := by omega
    have h4 : (P52 * sh + M) % P52 = M - P52 := by omega
    rw [h3, h4]
    have : P52 + (M - P52) = M := by omega
    simp [this]

theorem ord_norm (n : Nat) : ∃ sh M, n = P52 * sh + M ∧ M < P53 ∧ (sh = 0 ∨ P52 ≤ M) := by
  by_cases h : n < P52
  · exact ⟨0, n, by omega, by omega, Or.inl rfl⟩
  · exact ⟨n / P52 - 1, P52 + n % P52, by omega, by omega, Or.inr (by omega)⟩

theorem scaled_succ_norm (sh M : Nat) (h1 : M < P53) (h2 : sh = 0 ∨ P52 ≤ M) :
    scaled (P52 * sh + M + 1) = (M + 1) * 2 ^ sh := by
  by_cases hM : M + 1 < P53
  · have e : P52 * sh + M + 1 = P52 * sh + (M + 1) := by omega
    rw [e]; exact scaled_norm sh (M + 1) hM (by omega)
  · have hM' : M + 1 = P53 := by omega
    have h3 : P52 * sh + M + 1 = P52 * (sh + 1) + P52 := by omega
    rw [h3, scaled_norm (sh + 1) P52 (by omega) (by omega), hM', Nat.pow_succ]
    omega

theorem scaled_lt_succ (n : Nat) : scaled n < scaled (n + 1) := by
  obtain ⟨sh, M, rfl, h1, h2⟩ := ord_norm n
  rw [scaled_norm sh M h1 h2, scaled_succ_norm sh M h1 h2]
  exact Nat.mul_lt_mul_of_pos_right (by omega) (two_pow_pos sh)

theorem scaled_strictMono {a b : Nat} (h : a < b) : scaled a < scaled b := by
  induction b with
  | zero => omega
  | succ b ih =>
    by_cases hab : a = b
    · subst hab; exact scaled_lt_succ a
    · exact Nat.lt_trans (ih (by omega)) (scaled_lt_succ b)

theorem scaled_mono {a b : Nat} (h : a ≤ b) : scaled a ≤ scaled b := by
  by_cases hab : a = b
  · subst hab; exact Nat.le_refl _
  · exact Nat.le_of_lt (scaled_strictMono (by omega))

/-! ## the model's rounding function -/

theorem p53_eq : (2 : Nat) ^ 53 = P53 := by decide
theorem p52_eq : (2 : Nat) ^ 52 = P52 := by decide

/-- the intermediate quantities of `roundOrd`: the kept mantissa is normalised and brackets the rational -/
theorem roundOrd_parts (num den : Nat) (hd : 0 < den) :
    let Q := 2 ^ 1074 * num
    let F := Q / den
    let sh := F.log2 + 1 - 53
    let M := F / 2 ^ sh
    M < P53 ∧ (sh = 0 ∨ P52 ≤ M) ∧ M * 2 ^ sh * den ≤ Q ∧ Q < (M + 1) * 2 ^ sh * den := by
  intro Q F sh M
  have hF1 : F < 2 ^ (F.log2 + 1) := Nat.lt_log2_self
  have hp : 0 < 2 ^ sh := two_pow_pos sh
  have hlo : M * 2 ^ sh ≤ F := Nat.div_mul_le_self F (2 ^ sh)
  have hhi : F < (M + 1) * 2 ^ sh := by
    have := Nat.lt_mul_div_succ F hp
    rw [Nat.mul_comm] at this; exact this
  have hQlo : F * den ≤ Q := Nat.div_mul_le_self Q den
  have hQhi : Q < (F + 1) * den := by
    have := Nat.lt_mul_div_succ Q hd
    rw [Nat.mul_comm] at this; exact this
  have h3 : M * 2 ^ sh * den ≤ Q := Nat.le_trans (Nat.mul_le_mul_right den hlo) hQlo
  have h4 : Q < (M + 1) * 2 ^ sh * den :=
    Nat.lt_of_lt_of_le hQhi (Nat.mul_le_mul_right den hhi)
  refine ⟨?_, ?_, h3, h4⟩
  · by_cases hL : F.log2 + 1 ≤ 53
    · have hsh : sh = 0 := by omega
      have hM : M = F := by show F / 2 ^ sh = F; rw [hsh]; simp
      have : 2 ^ (F.log2 + 1) ≤ 2 ^ 53 := Nat.pow_le_pow_right (by decide) hL
      rw [p53_eq] at this; omega
    · have hL' : F.log2 + 1 = 53 + sh := by omega
      rw [hL', Nat.pow_add, p53_eq] at hF1
      exact (Nat.div_lt_iff_lt_mul hp).2 hF1
  · by_cases hL : F.log2 + 1 ≤ 53
    · left; omega
    · right
      have hF0 : F ≠ 0 := by
        intro h0; rw [h0] at hL; simp at hL
      have hL' : F.log2 = 52 + sh := by omega
      have := Nat.log2_self_le hF0
      rw [hL', Nat.pow_add, p52_eq] at this
      exact (Nat.le_div_iff_mul_le hp).2 this

theorem scaled_mul_lt {a b den : Nat} (h : a < b) (hd : 0 < den) : scaled a * den < scaled b * den :=
  Nat.mul_lt_mul_of_pos_right (scaled_strictMono h) hd

/-- between two adjacent doubles, at or below their midpoint (exactly at it only for an even lower one): the lower one is nearest -/
theorem nearest_of_lower (num den n : Nat) (hd : 0 < den)
    (h1 : scaled n * den ≤ 2 ^ 1074 * num) (h2 : 2 ^ 1074 * num < scaled (n + 1) * den)
    (h3 : 2 * (2 ^ 1074 * num) ≤ scaled n * den + scaled (n + 1) * den)
    (h4 : 2 * (2 ^ 1074 * num) = scaled n * den + scaled (n + 1) * den → n % 2 = 0) :
    Nearest num den n := by
  unfold Nearest distTo dist
  generalize 2 ^ 1074 * num = Q at *
  by_cases hn : n = 0
  · subst hn
    refine ⟨⟨by omega, fun h => by omega⟩, Or.inl rfl⟩
  · have hC := scaled_mul_lt (show n - 1 < n by omega) hd
    refine ⟨⟨by omega, fun h => h4 (by omega)⟩, Or.inr ⟨by omega, fun h => by omega⟩⟩

/-- … at or above the midpoint (exactly at it only for an even upper one): the upper one is nearest -/
theorem nearest_of_upper (num den n : Nat) (hd : 0 < den)
    (h1 : scaled n * den ≤ 2 ^ 1074 * num) (h2 : 2 ^ 1074 * num < scaled (n + 1) * den)
    (h3 : scaled n * den + scaled (n + 1) * den ≤ 2 * (2 ^ 1074 * num))
    (h4 : 2 * (2 ^ 1074 * num) = scaled n * den + scaled (n + 1) * den → (n + 1) % 2 = 0) :
    Nearest num den (n + 1) := by
  unfold Nearest distTo dist
  generalize 2 ^ 1074 * num = Q at *
  have hE := scaled_mul_lt (show n + 1 < n + 1 + 1 by omega) hd
  have e : n + 1 - 1 = n := by omega
  rw [e]
  refine ⟨⟨by omega, fun h => by omega⟩, Or.inr ⟨by omega, fun h => h4 (by omega)⟩⟩

/-- the model's rounding function meets the declarative specification, for every non-negative rational -/
theorem roundOrd_nearest (num den : Nat) (hd : 0 < den) : Nearest num den (roundOrd num den) := by
  have key := roundOrd_parts num den hd
  simp only at key
  unfold roundOrd
  simp only
  generalize 2 ^ 1074 * num / den = F at key ⊢
  generalize F.log2 + 1 - 53 = sh at key ⊢
  generalize F / 2 ^ sh = M at key ⊢
  obtain ⟨hM, hn, hlo, hhi⟩ := key
  have hA := scaled_norm sh M hM hn
  have hB := scaled_succ_norm sh M hM hn
  have hmid : (2 * M + 1) * 2 ^ sh * den = M * 2 ^ sh * den + (M + 1) * 2 ^ sh * den := by grind
  rw [← hA] at hlo hmid
  rw [← hB] at hhi hmid
  rw [hmid]
  have hpar : (P52 * sh + M) % 2 = M % 2 := by omega
  split
  · refine nearest_of_lower num den (P52 * sh + M) hd hlo hhi ?_ ?_ <;>
      (generalize 2 ^ 1074 * num = Q at *; omega)
  · split
    · refine nearest_of_upper num den (P52 * sh + M) hd hlo hhi ?_ ?_ <;>
        (generalize 2 ^ 1074 * num = Q at *; omega)
    · split
      · refine nearest_of_lower num den (P52 * sh + M) hd hlo hhi ?_ ?_ <;>
          (generalize 2 ^ 1074 * num = Q at *; omega)
      · refine nearest_of_upper num den (P52 * sh + M) hd hlo hhi ?_ ?_ <;>
          (generalize 2 ^ 1074 * num = Q at *; omega)

/-! ## `Nearest` determines the ordinal -/

theorem nearest_not_lt (num den a b : Nat) (hd : 0 < den) (hab : a < b)
    (ha : Nearest num den a) (hb : Nearest num den b) : False := by
  unfold Nearest distTo dist at ha hb
  generalize 2 ^ 1074 * num = Q at *
  obtain ⟨⟨ha1, ha2⟩, _⟩ := ha
  obtain ⟨_, hb'⟩ := hb
  rcases hb' with hb0 | ⟨hb1, hb2⟩
  · omega
  · have h1 := scaled_mul_lt (show a < a + 1 by omega) hd
    by_cases h : b = a + 1
    · subst h
      have e : a + 1 - 1 = a := by omega
      rw [e] at hb1 hb2
      have hEq : Q - scaled a * den + (scaled a * den - Q) = Q - scaled (a + 1) * den + (scaled (a + 1) * den - Q) := by omega
      have p1 := ha2 hEq
      have p2 := hb2 hEq.symm
      omega
    · have h2 : scaled (a + 1) * den ≤ scaled (b - 1) * den :=
        Nat.mul_le_mul_right den (scaled_mono (by omega))
      have h3 := scaled_mul_lt (show b - 1 < b by omega) hd
      omega

theorem nearest_unique (num den a b : Nat) (hd : 0 < den)
    (ha : Nearest num den a) (hb : Nearest num den b) : a = b := by
  by_cases h1 : a < b
  · exact (nearest_not_lt num den a b hd h1 ha hb).elim
  · by_cases h2 : b < a
    · exact (nearest_not_lt num den b a hd h2 hb ha).elim
    · omega

/-! ## the text: the model's splitting at the point and the spec's "integer part, decimals" agree on the grammar -/

/-- on a body of the grammar (digits, at most one point) the two ways of splitting coincide -/
theorem body_split (r : Bytes) (hg : floatBody r = true) :
    r.takeWhile (· ≠ cDot) = r.takeWhile isDigit ∧
    (r.dropWhile (· ≠ cDot)).drop 1 = (r.dropWhile isDigit).drop 1 ∧
    ((r.dropWhile isDigit).drop 1).all isDigit = true := by
  have hsplit : r.takeWhile isDigit ++ r.dropWhile isDigit = r := List.takeWhile_append_dropWhile
  have hip : (r.takeWhile isDigit).all isDigit = true := List.all_takeWhile
  have hno : 46 ∉ r.takeWhile isDigit := all_digit_ne _ hip 46 (by decide)
  unfold floatBody at hg
  simp only at hg
  unfold cDot
  cases hrest : r.dropWhile isDigit with
  | nil =>
    rw [hrest] at hsplit hg
    rw [List.append_nil] at hsplit
    rw [hsplit] at hno
    exact ⟨by rw [takeWhile_nodot r hno, hsplit], by rw [dropWhile_nodot r hno], rfl⟩
  | cons c fp =>
    rw [hrest] at hsplit hg
    simp only [Bool.and_eq_true, beq_iff_eq] at hg
    obtain ⟨⟨hc, hfp⟩, _⟩ := hg
    subst hc
    refine ⟨?_, ?_, by simpa using hfp⟩
    · conv => lhs; rw [← hsplit]
      exact takeWhile_dot _ _ hno
    · conv => lhs; rw [← hsplit]
      rw [dropWhile_dot _ _ hno]

theorem text_spec (b : Bytes) (hg : FloatGrammar b = true) :
    textNeg b = floatNeg b ∧ textMag b = floatNum b ∧ textScale b = (floatFrac b).length := by
  have core : ∀ r : Bytes, floatBody r = true →
      digitsVal (r.takeWhile (· ≠ cDot) ++ (r.dropWhile (· ≠ cDot)).drop 1)
        = digitsVal (r.takeWhile isDigit) * 10 ^ ((r.dropWhile isDigit).drop 1).length + digitsVal ((r.dropWhile isDigit).drop 1)
      ∧ ((r.dropWhile (· ≠ cDot)).drop 1).length = ((r.dropWhile isDigit).drop 1).length := by
    intro r hr
    obtain ⟨h1, h2, _⟩ := body_split r hr
    rw [h1, h2, digitsVal_append]
    exact ⟨rfl, rfl⟩
  cases b with
  | nil => simp [FloatGrammar, floatBody] at hg
  | cons c cs =>
    by_cases hc : c = 45
    · subst hc
      have hg' : floatBody cs = true := by simpa [FloatGrammar] using hg
      obtain ⟨e1, e2⟩ := core cs hg'
      have hneg : textNeg (45 :: cs) = true := by simp [textNeg, cMinus]
      have hbody : textBody (45 :: cs) = cs := by simp [textBody, hneg]
      refine ⟨by rw [hneg]; rfl, ?_, ?_⟩
      · unfold textMag; rw [hbody, e1]; rfl
      · unfold textScale; rw [hbody, e2]; rfl
    · have hg' : floatBody (c :: cs) = true := by
        unfold FloatGrammar at hg; split at hg
        · rename_i heq; simp at heq; exact absurd heq.1 hc
        · exact hg
      obtain ⟨e1, e2⟩ := core (c :: cs) hg'
      have hneg : textNeg (c :: cs) = false := by simp [textNeg, cMinus, hc]
      have hbody : textBody (c :: cs) = c :: cs := by simp [textBody, hneg]
      have hN : floatNeg (c :: cs) = false := by
        unfold floatNeg; split
        · rename_i heq; simp at heq; exact absurd heq.1 hc
        · rfl
      have hB : floatBodyOf (c :: cs) = c :: cs := by
        unfold floatBodyOf; split
        · rename_i heq; simp at heq; exact absurd heq.1 hc
        · rfl
      refine ⟨by rw [hneg, hN], ?_, ?_⟩
      · unfold textMag floatNum floatFrac; rw [hbody, hB, e1]
      · unfold textScale floatFrac; rw [hbody, hB, e2]

/-! ## `readFloat` on a text of the grammar, in the spec's vocabulary -/

theorem ordOf_mkBits (neg : Bool) (n : Nat) (h : n < infOrd) : ordOf (mkBits neg n) = n := by
  unfold ordOf mkBits; cases neg <;> simp <;> omega

theorem rne_some (neg : Bool) (num den : Nat) (h : roundOrd num den < infOrd) :
    roundNearestEven neg num den = some (mkBits neg (roundOrd num den)) := by
  unfold roundNearestEven; exact if_pos h

theorem rne_none (neg : Bool) (num den : Nat) (h : ¬ roundOrd num den < infOrd) :
    roundNearestEven neg num den = none := by
  unfold roundNearestEven; exact if_neg h

theorem readFloat_reject (b : Bytes) (hg : acceptFloat b = false) : readFloat b = .err "invalid syntax" := by
  unfold readFloat; rw [if_neg (by simp [hg])]

theorem readFloat_fin (b : Bytes) (hg : acceptFloat b = true) (hg' : FloatGrammar b = true)
    (hfin : roundOrd (floatNum b) (floatDen b) < infOrd) :
    readFloat b = .ok (mkBits (floatNeg b) (roundOrd (floatNum b) (floatDen b))) := by
  unfold readFloat
  rw [if_pos hg]
  obtain ⟨e1, e2, e3⟩ := text_spec b hg'
  have e4 : 10 ^ textScale b = floatDen b := by rw [e3]; rfl
  rw [e1, e2, e4, rne_some _ _ _ hfin]

theorem readFloat_inf (b : Bytes) (hg : acceptFloat b = true) (hg' : FloatGrammar b = true)
    (hfin : ¬ roundOrd (floatNum b) (floatDen b) < infOrd) :
    readFloat b = .err "value out of range" := by
  unfold readFloat
  rw [if_pos hg]
  obtain ⟨e1, e2, e3⟩ := text_spec b hg'
  have e4 : 10 ^ textScale b = floatDen b := by rw [e3]; rfl
  rw [e1, e2, e4, rne_none _ _ _ hfin]

/-! ## out of range = at or beyond the midpoint of the largest finite double and 2^1024 -/

theorem nearest_inf_iff (num den n : Nat) (hd : 0 < den) (hn : Nearest num den n) :
    ¬ n < infOrd ↔ Overflows num den = true := by
  unfold Overflows
  rw [decide_eq_true_iff]
  unfold Nearest distTo dist at hn
  generalize 2 ^ 1074 * num = Q at *
  obtain ⟨⟨hu1, hu2⟩, hl⟩ := hn
  have e1 : infOrd - 1 + 1 = infOrd := by omega
  have hTop := scaled_mul_lt (show infOrd - 1 < infOrd by omega) hd
  constructor
  · intro hge
    rcases hl with h0 | ⟨hl1, _⟩
    · omega
    · have h1 := scaled_mul_lt (show n - 1 < n by omega) hd
      have h2 : scaled (infOrd - 1) * den ≤ scaled (n - 1) * den := Nat.mul_le_mul_right den (scaled_mono (by omega))
      have h3 : scaled infOrd * den ≤ scaled n * den := Nat.mul_le_mul_right den (scaled_mono (by omega))
      rw [Nat.add_mul]; omega
  · intro hov hlt
    rw [Nat.add_mul] at hov
    have h1 := scaled_mul_lt (show n < n + 1 by omega) hd
    by_cases htop : n = infOrd - 1
    · subst htop
      rw [e1] at hu1 hu2 h1
      have := hu2 (by omega)
      omega
    · have h2 : scaled n * den < scaled (infOrd - 1) * den := scaled_mul_lt (by omega) hd
      have h3 : scaled (n + 1) * den ≤ scaled (infOrd - 1) * den := Nat.mul_le_mul_right den (scaled_mono (by omega))
      omega

theorem floatDen_pos (b : Bytes) : 0 < floatDen b := Nat.pow_pos (by decide)

end Qfx.F64
