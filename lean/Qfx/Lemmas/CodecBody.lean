/- C03 byte layer / C11: `bodyBytes` of a parsed message (no dictionary) -/
import Qfx.Lemmas.CodecParse
namespace Qfx

/-- the part of the loop state that determines `bodyBytes` -/
structure BB where
  foundBody : Bool
  foundTrailer : Bool
  bodyBytes : Bytes
  trailerBytes : Bytes
  deriving DecidableEq

def PCore.bb (c : PCore) : BB := ⟨c.foundBody, c.foundTrailer, c.bodyBytes, c.trailerBytes⟩

theorem runND_header_bb : ∀ (H : List TagValue) (idx : Nat) (tail : Bytes) (c : PCore),
    (∀ tv ∈ H, secND tv.tag = .h) → H ≠ [] → c.foundBody = false →
    (runND idx H tail c).bb = ⟨false, c.foundTrailer, tail, c.trailerBytes⟩ := by
  intro H
  induction H with
  | nil => intro idx tail c _ h; exact absurd rfl h
  | cons tv r ih =>
    intro idx tail c hH _ hfb
    have htv : Tag.isHeader tv.tag = true := by
      have := hH tv (by simp); unfold secND at this
      cases h : Tag.isHeader tv.tag with
      | true => rfl
      | false => simp [h] at this; split at this <;> cases this
    simp only [runND]
    have step : (ndTail (ndSwitch idx tv { c with rawBytes := wireOf r ++ tail })).bb = ⟨false, c.foundTrailer, wireOf r ++ tail, c.trailerBytes⟩ := by
      simp [ndSwitch, htv, ndTail, hfb, PCore.bb]
    cases r with
    | nil =>
      simp only [runND]
      rw [step]; simp [wireOf]
    | cons y ys =>
      have hc' : (ndTail (ndSwitch idx tv { c with rawBytes := wireOf (y :: ys) ++ tail })).foundBody = false := by
        have := congrArg BB.foundBody step; simpa [PCore.bb] using this
      rw [ih (idx + 1) tail _ (fun x hx => hH x (by simp [hx])) (by simp) hc']
      have h2 := congrArg BB.foundTrailer step
      have h3 := congrArg BB.trailerBytes step
      simp only [PCore.bb] at h2 h3
      rw [h2, h3]


theorem secND_b (t : Tag) (h : secND t = .b) : Tag.isHeader t = false ∧ Tag.isTrailer t = false := by
  unfold secND at h
  cases h1 : Tag.isHeader t with
  | true => simp [h1] at h
  | false =>
    cases h2 : Tag.isTrailer t with
    | true => simp [h1, h2] at h
    | false => exact ⟨rfl, rfl⟩

theorem secND_t (t : Tag) (h : secND t = .t) : Tag.isHeader t = false ∧ Tag.isTrailer t = true := by
  unfold secND at h
  cases h1 : Tag.isHeader t with
  | true => simp [h1] at h
  | false =>
    cases h2 : Tag.isTrailer t with
    | true => exact ⟨rfl, rfl⟩
    | false => simp [h1, h2] at h

theorem runND_body_bb : ∀ (B : List TagValue) (idx : Nat) (tail : Bytes) (c : PCore),
    (∀ tv ∈ B, secND tv.tag = .b) → B ≠ [] →
    (runND idx B tail c).bb = ⟨true, c.foundTrailer, (if c.foundBody then c.bodyBytes else c.bodyBytes), tail⟩ := by
  intro B
  induction B with
  | nil => intro idx tail c _ h; exact absurd rfl h
  | cons tv r ih =>
    intro idx tail c hB _
    obtain ⟨h1, h2⟩ := secND_b tv.tag (hB tv (by simp))
    simp only [runND]
    have step : (ndTail (ndSwitch idx tv { c with rawBytes := wireOf r ++ tail })).bb = ⟨true, c.foundTrailer, c.bodyBytes, wireOf r ++ tail⟩ := by
      simp [ndSwitch, h1, h2, ndTail, PCore.bb]
    cases r with
    | nil =>
      simp only [runND]
      rw [step]; simp [wireOf]
    | cons y ys =>
      rw [ih (idx + 1) tail _ (fun x hx => hB x (by simp [hx])) (by simp)]
      have h3 := congrArg BB.foundTrailer step
      have h4 := congrArg BB.bodyBytes step
      have h5 := congrArg BB.foundBody step
      simp only [PCore.bb] at h3 h4 h5
      simp [h3, h4, h5]

theorem runND_trailer_bb : ∀ (T : List TagValue) (idx : Nat) (tail : Bytes) (c : PCore),
    (∀ tv ∈ T, secND tv.tag = .t) → c.foundBody = true →
    (runND idx T tail c).bb = ⟨true, (if T.isEmpty then c.foundTrailer else true), c.bodyBytes, c.trailerBytes⟩ := by
  intro T
  induction T with
  | nil => intro idx tail c _ hfb; simp [runND, PCore.bb, hfb]
  | cons tv r ih =>
    intro idx tail c hT hfb
    obtain ⟨h1, h2⟩ := secND_t tv.tag (hT tv (by simp))
    simp only [runND]
    have step : (ndTail (ndSwitch idx tv { c with rawBytes := wireOf r ++ tail })).bb = ⟨true, true, c.bodyBytes, c.trailerBytes⟩ := by
      simp [ndSwitch, h1, h2, ndTail, PCore.bb, hfb]
    have hfb' : (ndTail (ndSwitch idx tv { c with rawBytes := wireOf r ++ tail })).foundBody = true := by
      have := congrArg BB.foundBody step; simpa [PCore.bb] using this
    rw [ih (idx + 1) tail _ (fun x hx => hT x (by simp [hx])) hfb']
    have h3 := congrArg BB.foundTrailer step
    have h4 := congrArg BB.bodyBytes step
    have h5 := congrArg BB.trailerBytes step
    simp only [PCore.bb] at h3 h4 h5
    simp [h3, h4, h5]

theorem runND_append : ∀ (a b : List TagValue) (idx : Nat) (tail : Bytes) (c : PCore),
    runND idx (a ++ b) tail c = runND (idx + a.length) b tail (runND idx a (wireOf b ++ tail) c) := by
  intro a
  induction a with
  | nil => intro b idx tail c; simp [runND]
  | cons x r ih =>
    intro b idx tail c
    simp only [List.cons_append, runND, List.length_cons]
    rw [ih]
    have e1 : wireOf (r ++ b) ++ tail = wireOf r ++ (wireOf b ++ tail) := by simp [wireOf, List.append_assoc]
    have e2 : idx + 1 + r.length = idx + (r.length + 1) := by omega
    rw [e1, e2]

/-- `bodyBytes` of a parsed message whose header fields, body fields and trailer fields come in this order (no dictionary):
    exactly the bytes of the body fields -/
theorem ndMessage_bodyBytes (t8 t9 t35 t10 : TagValue) (H B T : List TagValue) (h10 : t10.tag = 10)
    (hH : ∀ tv ∈ H, secND tv.tag = .h) (hHne : H ≠ []) (hB : ∀ tv ∈ B, secND tv.tag = .b) (hBne : B ≠ [])
    (hBw : ∀ tv ∈ B, tv.bytes ≠ []) (hT : ∀ tv ∈ T, secND tv.tag = .t) :
    (ndMessage t8 t9 t35 (H ++ (B ++ T)) t10).bodyBytes = wireOf B := by
  show (ndFinal t8 t9 t35 (H ++ (B ++ T)) t10).bodyBytes = wireOf B
  unfold ndFinal
  generalize hc0 : ndInit t8 t9 t35 (wireOf ((H ++ (B ++ T)) ++ [t10])) = c0
  have hfb0 : c0.foundBody = false := by rw [← hc0]; rfl
  rw [runND_append, runND_append]
  generalize hcH : runND 3 H (wireOf (B ++ T) ++ (t10.bytes ++ [])) c0 = cH
  have bbH : cH.bb = ⟨false, c0.foundTrailer, wireOf (B ++ T) ++ (t10.bytes ++ []), c0.trailerBytes⟩ := by
    rw [← hcH]; exact runND_header_bb H 3 _ c0 hH hHne hfb0
  generalize hcB : runND (3 + H.length) B (wireOf T ++ (t10.bytes ++ [])) cH = cB
  have bbB : cB.bb = ⟨true, cH.foundTrailer, cH.bodyBytes, wireOf T ++ (t10.bytes ++ [])⟩ := by
    rw [← hcB, runND_body_bb B _ _ cH hB hBne]; simp
  have hfbB : cB.foundBody = true := by have := congrArg BB.foundBody bbB; simpa [PCore.bb] using this
  generalize hcT : runND (3 + H.length + B.length) T (t10.bytes ++ []) cB = cT
  have bbT : cT.bb = ⟨true, (if T.isEmpty then cB.foundTrailer else true), cB.bodyBytes, cB.trailerBytes⟩ := by
    rw [← hcT]; exact runND_trailer_bb T _ _ cB hT hfbB
  have e1 : cT.foundBody = true := by have := congrArg BB.foundBody bbT; simpa [PCore.bb] using this
  have e2 : cT.bodyBytes = wireOf (B ++ T) ++ (t10.bytes ++ []) := by
    have a := congrArg BB.bodyBytes bbT; have b := congrArg BB.bodyBytes bbB; have c := congrArg BB.bodyBytes bbH
    simp only [PCore.bb] at a b c; rw [a, b, c]
  have e3 : cT.trailerBytes = wireOf T ++ (t10.bytes ++ []) := by
    have a := congrArg BB.trailerBytes bbT; have b := congrArg BB.trailerBytes bbB
    simp only [PCore.bb] at a b; rw [a, b]
  have h1 : Tag.isHeader t10.tag = false := by rw [h10]; decide
  have h2 : Tag.isTrailer t10.tag = true := by rw [h10]; decide
  have hlen : (wireOf (B ++ T) ++ (t10.bytes ++ [])).length > (wireOf T ++ (t10.bytes ++ [])).length := by
    have hb : 0 < (wireOf B).length := by
      cases B with
      | nil => exact absurd rfl hBne
      | cons x r =>
        have hx := hBw x (by simp)
        have : 0 < x.bytes.length := by cases hxb : x.bytes with | nil => exact absurd hxb hx | cons a b => simp
        simp [wireOf]; omega
    simp [wireOf, List.flatMap_append] at hb ⊢; omega
  simp only [finishAdjust, ndSwitch, h1, h2, Bool.false_eq_true, if_false, if_true, e1, Bool.not_true, Bool.and_false, e2, e3, hlen]
  simp [wireOf, List.flatMap_append, List.append_assoc]

end Qfx
