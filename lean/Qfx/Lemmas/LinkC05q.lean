/-
  C05 liveness, part q: the link never leaves its session time (`InTime`), every reachable link is `Down` after a cut,
  and the reconnect theorem `settle_reconnect`.
-/
import Qfx.Lemmas.LinkC05p
namespace Qfx.Link
open Qfx Qfx.Sess

/-! ### the state is never "outside the session time" along a link history -/

theorem st_doTargetTooLow (s : Sess) (m : InMsg) : (doTargetTooLow s m).2.sessionTime = true := by
  unfold doTargetTooLow
  repeat' split
  all_goals (try dsimp only)
  all_goals (repeat' split)
  all_goals rfl

theorem st_processReject (s : Sess) (m : InMsg) (r : Rej) : (processReject s m r).2.sessionTime = true := by
  unfold processReject
  split
  · split
    · rfl
    · rfl
  · exact st_doTargetTooLow s m
  · rfl
  · rfl
  · split <;> rfl

theorem st_inSession (s : Sess) (m : InMsg) : (inSessionFixMsgIn s m).2.sessionTime = true := by
  unfold inSessionFixMsgIn
  simp only []
  split
  · split <;> rfl
  · split
    · unfold handleLogout
      split
      · exact st_processReject _ _ _
      · dsimp only; repeat' split
        all_goals rfl
    · split
      · unfold handleResendRequest
        split
        · exact st_processReject _ _ _
        · split
          · split
            · dsimp only; repeat' split
              all_goals rfl
            · exact st_processReject _ _ _
          · exact st_processReject _ _ _
      · split
        · unfold handleSequenceReset
          split
          · exact st_processReject _ _ _
          · dsimp only
            split
            · exact st_processReject _ _ _
            · repeat' split
              all_goals rfl
        · split
          · unfold handleTestRequest
            split
            · exact st_processReject _ _ _
            · rfl
          · split
            · exact st_processReject _ _ _
            · rfl

theorem st_drainStash (fuel : Nat) (s : Sess) (stash : List (Int × InMsg)) (last : SState) (h : last.sessionTime = true) :
    (drainStash fuel s stash last).2.1.sessionTime = true := by
  induction fuel generalizing s stash last with
  | zero => exact h
  | succ n ih =>
    unfold drainStash
    split
    · exact h
    · simp only []
      rename_i nn m _
      have h1 := st_inSession s m
      generalize inSessionFixMsgIn s m = r at h1
      obtain ⟨s', nx⟩ := r
      simp only [] at h1 ⊢
      split
      · exact h1
      · exact ih _ _ _ h1

theorem st_drain_eq {fuel : Nat} {s : Sess} {stash : List (Int × InMsg)} {last : SState} {r : Sess × SState × List (Int × InMsg)}
    (hr : drainStash fuel s stash last = r) (h : last.sessionTime = true) : r.2.1.sessionTime = true := by
  rw [← hr]; exact st_drainStash fuel s stash last h

theorem st_resendFix (s : Sess) (stash : List (Int × InMsg)) (cur fin : Int) (m : InMsg) :
    (resendFixMsgIn s stash cur fin m).2.sessionTime = true := by
  unfold resendFixMsgIn
  have h1 := st_inSession s m
  generalize inSessionFixMsgIn s m = r at h1
  obtain ⟨s', nx⟩ := r
  simp only [] at h1 ⊢
  repeat' split
  all_goals (try dsimp only)
  all_goals first
    | exact h1
    | rfl
    | (have := st_drain_eq (by assumption) h1; simpa using this)

theorem st_logonFix (s : Sess) (m : InMsg) : (logonFixMsgIn s m).2.sessionTime = true := by
  unfold logonFixMsgIn shutdownWithReason
  repeat' split
  all_goals rfl

theorem st_fixMsgInCore (s : Sess) (m : InMsg) (h : s.st.sessionTime = true) : (fixMsgInCore s m).2.sessionTime = true := by
  unfold fixMsgInCore
  split
  · rfl
  · rename_i heq; rw [heq] at h; cases h
  · exact st_logonFix s m
  · have h1 := st_inSession s m
    generalize inSessionFixMsgIn s m = r at h1
    obtain ⟨s', nx⟩ := r
    dsimp only
    split <;> rfl
  · exact st_inSession s m
  · exact st_inSession s m
  · exact st_resendFix s _ _ _ m
  · exact st_resendFix s _ _ _ m

theorem setState_st (fuel : Nat) (s : Sess) (next : SState) : (setState fuel s next).st = next := by
  cases fuel with
  | zero => rfl
  | succ n => unfold setState; split <;> rfl

theorem st_mutual : ∀ fuel : Nat,
    (∀ s, s.st.sessionTime = true → (drainIn fuel s).st.sessionTime = true) ∧
    (∀ s m, s.st.sessionTime = true → (incoming fuel s m).st.sessionTime = true) ∧
    (∀ s, s.st.sessionTime = true → (checkSessionTime fuel s true true).st.sessionTime = true) := by
  intro fuel
  induction fuel with
  | zero =>
    refine ⟨?_, ?_, ?_⟩
    · intro s h; unfold drainIn; exact h
    · intro s m h; unfold incoming; exact h
    · intro s h; unfold checkSessionTime; exact h
  | succ n ih =>
    obtain ⟨ihD, ihI, ihC⟩ := ih
    refine ⟨?_, ?_, ?_⟩
    · intro s h
      unfold drainIn
      split
      · exact h
      · split
        · exact h
        · exact ihD _ (ihI _ _ h)
    · intro s m h
      unfold incoming
      simp only []
      have h1 := ihC s h
      generalize checkSessionTime n s true true = s1 at h1
      split
      · exact h1
      · cases m with
        | none => exact h1
        | some m =>
          simp only []
          have hf := st_fixMsgInCore s1 m h1
          generalize fixMsgInCore s1 m = r at hf
          obtain ⟨s2, nx⟩ := r
          show (setState n s2 nx).st.sessionTime = true
          rw [setState_st]; exact hf
    · intro s h
      unfold checkSessionTime
      simp only [Bool.not_true, Bool.false_eq_true, if_false, h]

theorem st_timeoutCore (s : Sess) (e : TimerEv) (h : s.st.sessionTime = true) : (timeoutCore s e).2.sessionTime = true := by
  unfold timeoutCore
  repeat' split
  all_goals (try dsimp only)
  all_goals first
    | rfl
    | (split <;> rfl)
    | (rename_i heq _; rw [heq] at h; exact h)
    | assumption

/-- the events the link model hands to an engine -/
def LinkEvK : Ev → Prop
  | .connect | .timeout _ | .disconnected | .flush | .send _ | .incomingMsg _ => True
  | _ => False

theorem st_step (s : Sess) (e : Ev) (he : LinkEvK e) (h : s.st.sessionTime = true) : (step s e).1.st.sessionTime = true := by
  obtain ⟨hD, hI, hC⟩ := st_mutual (fuelOf s.clearLog)
  have h' : s.clearLog.st.sessionTime = true := h
  show (stepCore s.clearLog e).1.clearLog.st.sessionTime = true
  show (stepCore s.clearLog e).1.st.sessionTime = true
  cases e with
  | connect =>
    show (connect s.clearLog).1.st.sessionTime = true
    unfold connect
    split
    · exact h'
    · simp only [h', Bool.not_true, Bool.false_eq_true, if_false]
      split <;> rfl
  | incomingMsg m => exact hI _ m h'
  | arrive m => exact he.elim
  | pop => exact he.elim
  | timeout ev =>
    unfold stepCore
    dsimp only
    have h1 := hC _ h'
    have h2 := st_timeoutCore _ ev h1
    generalize timeoutCore (checkSessionTime (fuelOf s.clearLog) s.clearLog true true) ev = r at h2
    obtain ⟨s2, nx⟩ := r
    show (setState _ s2 nx).st.sessionTime = true
    rw [setState_st]; exact h2
  | disconnected =>
    unfold stepCore
    dsimp only; split
    · rw [setState_st]; rfl
    · exact h'
  | stop => exact he.elim
  | send m =>
    unfold stepCore
    dsimp only
    have := (fr_prep s.clearLog m).st
    generalize prep s.clearLog m = r at this
    obtain ⟨o, s2⟩ := r
    cases o with
    | none => show s2.st.sessionTime = true; rw [this]; exact h'
    | some m' => show s2.st.sessionTime = true; rw [this]; exact h'
  | flush =>
    unfold stepCore
    dsimp only
    have h1 := hC _ h'
    split
    · rw [(fr_sendQueued _).st]; exact h1
    · exact h1
  | sessionTime r sm => exact he.elim
  | resetTime now => exact he.elim

theorem lstep_cfg (l : LSt) (e : LEv) : (lstep l e).1.a.cfg = l.a.cfg ∧ (lstep l e).1.b.cfg = l.b.cfg := by
  cases e with
  | connect =>
    have c1 := onSide_cfg l .A .connect
    have c2 := onSide_cfg (onSide l .A .connect).1 .B .connect
    exact ⟨c2.1.trans c1.1, c2.2.trans c1.2⟩
  | send side p =>
    have c1 := onSide_cfg l side (.send { kind := "D", seq := 0, f := [(9000, p)] })
    simp only [lstep]
    split
    · cases side <;> exact c1
    · exact c1
  | deliver to =>
    cases to with
    | A =>
      cases hq : l.b2a with
      | nil => simp [lstep, hq]
      | cons m rest =>
        simp only [lstep, hq]
        exact onSide_cfg { l with b2a := rest, rcvA := noteRcv l.rcvA (toIn l.b.cfg m) } .A _
    | B =>
      cases hq : l.a2b with
      | nil => simp [lstep, hq]
      | cons m rest =>
        simp only [lstep, hq]
        exact onSide_cfg { l with a2b := rest, rcvB := noteRcv l.rcvB (toIn l.a.cfg m) } .B _
  | cut =>
    have c1 := onSide_cfg { l with a2b := [], b2a := [] } .A .disconnected
    have c2 := onSide_cfg (onSide { l with a2b := [], b2a := [] } .A .disconnected).1 .B .disconnected
    exact ⟨c2.1.trans c1.1, c2.2.trans c1.2⟩
  | restart side => cases side <;> exact ⟨rfl, rfl⟩
  | timer side ev => exact onSide_cfg l side _
  | flush side => exact onSide_cfg l side _

/-- neither engine is "outside its session time" (the link model never moves the session clock) -/
def InTime (l : LSt) : Prop := l.a.st.sessionTime = true ∧ l.b.st.sessionTime = true

theorem InTime_onSide {l : LSt} (h : InTime l) (side : Side) (e : Ev) (he : LinkEvK e) : InTime (onSide l side e).1 := by
  cases side with
  | A => exact ⟨st_step l.a e he h.1, h.2⟩
  | B => exact ⟨h.1, st_step l.b e he h.2⟩

theorem InTime_lstep {l : LSt} (h : InTime l) (e : LEv) : InTime (lstep l e).1 := by
  cases e with
  | connect => exact InTime_onSide (InTime_onSide h .A .connect trivial) .B .connect trivial
  | send side p =>
    have h1 := InTime_onSide h side (.send { kind := "D", seq := 0, f := [(9000, p)] }) trivial
    simp only [lstep]
    split
    · cases side <;> exact h1
    · exact h1
  | deliver to =>
    cases to with
    | A =>
      cases hq : l.b2a with
      | nil => simp only [lstep, hq]; exact h
      | cons m rest =>
        simp only [lstep, hq]
        exact InTime_onSide (l := { l with b2a := rest, rcvA := noteRcv l.rcvA (toIn l.b.cfg m) }) h .A _ trivial
    | B =>
      cases hq : l.a2b with
      | nil => simp only [lstep, hq]; exact h
      | cons m rest =>
        simp only [lstep, hq]
        exact InTime_onSide (l := { l with a2b := rest, rcvB := noteRcv l.rcvB (toIn l.a.cfg m) }) h .B _ trivial
  | cut =>
    exact InTime_onSide (InTime_onSide (l := { l with a2b := [], b2a := [] }) h .A .disconnected trivial) .B .disconnected trivial
  | restart side => cases side <;> first | exact ⟨rfl, h.2⟩ | exact ⟨h.1, rfl⟩
  | timer side ev => exact InTime_onSide h side _ trivial
  | flush side => exact InTime_onSide h side _ trivial

theorem InTime_run (evs : List LEv) : ∀ l : LSt, InTime l → InTime (runL l evs) := by
  induction evs with
  | nil => intro l h; exact h
  | cons e es ih => intro l h; exact ih _ (InTime_lstep h e)

theorem InTime_init (cfgA cfgB : Cfg) : InTime (linkInit cfgA cfgB) := ⟨rfl, rfl⟩

theorem LFull_run {cfgA cfgB : Cfg} (hcf : CfgsOK cfgA cfgB) (evs : List LEv) : ∀ l : LSt, l.a.cfg = cfgA → l.b.cfg = cfgB → LFull l → LFull (runL l evs) := by
  induction evs with
  | nil => intro l _ _ h; exact h
  | cons e es ih =>
    intro l ha hb h
    have hpa : l.a.cfg.persist = true := by rw [ha]; exact hcf.pa
    have hpb : l.b.cfg.persist = true := by rw [hb]; exact hcf.pb
    refine ih _ ?_ ?_ (LFull_lstep hpa hpb h e)
    · exact (lstep_cfg l e).1.trans ha
    · exact (lstep_cfg l e).2.trans hb

theorem st_disconnected (s : Sess) (h : s.st.sessionTime = true) : (step s .disconnected).1.st = .latent := by
  show (stepCore s.clearLog .disconnected).1.st = .latent
  unfold stepCore
  dsimp only
  split
  · rw [setState_st]
  · rename_i hc
    show s.st = .latent
    have hc' : s.st.connected = false := by
      have : s.clearLog.st.connected = false := by simpa using hc
      exact this
    cases hst : s.st <;> simp_all [SState.connected, SState.sessionTime]

/-- the events of a settling schedule: a reconnect (cut, connect), deliveries, run-loop flushes of the send queue -/
def SettleEv (e : LEv) : Prop := e = .cut ∨ e = .connect ∨ IsDeliver e ∨ ∃ side, e = .flush side

/-- after a cut every reachable link is `Down` (given head-room for the numbers) -/
theorem down_of_cut {cfgA cfgB : Cfg} (hcf : CfgsOK cfgA cfgB) {l : LSt} (h : LInv cfgA cfgB l) (hf : LFull l) (ht : InTime l) (hb : Bnd l)
    (hb3 : (lstep l .cut).1.a.store.sender + 3 ≤ maxSeq ∧ (lstep l .cut).1.b.store.sender + 3 ≤ maxSeq) :
    Down cfgA cfgB (lstep l .cut).1 := by
  have hbnd : Bnd (lstep l .cut).1 := ⟨by have := hb3.1; omega, by have := hb3.2; omega⟩
  have p0 := persist_of hcf h
  refine ⟨LInv_lstep hcf h .cut trivial hb hbnd, LFull_lstep p0.1 p0.2 hf .cut, ?_, ?_, rfl, rfl, hb3.1, hb3.2⟩
  · show (step l.a .disconnected).1.st = .latent
    exact st_disconnected l.a ht.1
  · show (step l.b .disconnected).1.st = .latent
    exact st_disconnected l.b ht.2

/-- **liveness after a reconnect, no chunking.**  From any link state satisfying the invariants (in particular every
    state reachable by a fault history): cut, connect, deliver both Logons, flush both queues, then deliver what is in
    flight (ResendRequests, then the replays) — afterwards everything submitted has been delivered in both directions,
    nothing is in flight and both engines are in session -/
theorem settle_reconnect {cfgA cfgB : Cfg} (hl : LiveCfg cfgA cfgB) {l : LSt} (h : LInv cfgA cfgB l) (hf : LFull l) (ht : InTime l) (hb : Bnd l)
    (hb3 : (lstep l .cut).1.a.store.sender + 3 ≤ maxSeq ∧ (lstep l .cut).1.b.store.sender + 3 ≤ maxSeq) :
    ∃ sched, (∀ e ∈ sched, SettleEv e) ∧ Settled cfgA cfgB (runL l sched) ∧
      (runL l sched).sentA = l.sentA ∧ (runL l sched).sentB = l.sentB := by
  have hd := down_of_cut hl.ok h hf ht hb hb3
  have hc1 : (lstep l .cut).1.sentA = l.sentA := rfl
  have hc2 : (lstep l .cut).1.sentB = l.sentB := rfl
  generalize hl0 : (lstep l .cut).1 = l0 at hd hc1 hc2
  obtain ⟨hm, s1, s2⟩ := phase1 hl hd
  generalize hl5 : runL l0 [.connect, .deliver .B, .deliver .A, .flush .A, .flush .B] = l5 at hm s1 s2
  obtain ⟨sched2, hs2, hset, t1, t2⟩ := phase2 hl hm
  refine ⟨.cut :: ([.connect, .deliver .B, .deliver .A, .flush .A, .flush .B] ++ sched2), ?_, ?_, ?_, ?_⟩
  · intro e he
    rcases List.mem_cons.1 he with rfl | he
    · exact Or.inl rfl
    · rcases List.mem_append.1 he with he | he
      · simp only [List.mem_cons, List.not_mem_nil, or_false] at he
        rcases he with rfl | rfl | rfl | rfl | rfl
        · exact Or.inr (Or.inl rfl)
        · exact Or.inr (Or.inr (Or.inl ⟨.B, rfl⟩))
        · exact Or.inr (Or.inr (Or.inl ⟨.A, rfl⟩))
        · exact Or.inr (Or.inr (Or.inr ⟨.A, rfl⟩))
        · exact Or.inr (Or.inr (Or.inr ⟨.B, rfl⟩))
      · exact Or.inr (Or.inr (Or.inl (hs2 e he)))
  all_goals (
    have hrun : runL l (.cut :: ([.connect, .deliver .B, .deliver .A, .flush .A, .flush .B] ++ sched2)) = runL l5 sched2 := by
      rw [runL_cons, hl0, runL_append, hl5])
  · rw [hrun]; exact hset
  · rw [hrun, t1, s1, hc1]
  · rw [hrun, t2, s2, hc2]

theorem AllBnd.last {evs : List LEv} : ∀ {l : LSt}, AllBnd l evs → Bnd (runL l evs) := by
  induction evs with
  | nil => intro l h; exact h
  | cons e es ih => intro l h; exact ih h.2

end Qfx.Link
