/-
  C05 helper lemmas, part d: the sender role of one engine.  `Snd st0 s`: the store is well-formed and only grew
  (by administrative messages) since `st0`, everything queued or written is `Wire` of the store.  `SExt s s'`: a model
  function that neither delivers nor touches the expected number and preserves `Snd`.
-/
import Qfx.Lemmas.LinkC05c
import Qfx.Lemmas.SessFrame
import Qfx.Props.C03
namespace Qfx.Link
open Qfx Qfx.Sess

structure Snd (st0 : Store) (s : Sess) : Prop where
  persist : s.cfg.persist = true
  sok : StoreOK s.store
  grow : Grow true st0 s.store
  q : ∀ m ∈ s.toSend, Wire s.store m
  w : ∀ m, Obs.wire m ∈ s.log → Wire s.store m

structure SExt (s s' : Sess) : Prop where
  ext : Ext s s'
  cfg : s'.cfg = s.cfg
  snd : ∀ st0, Snd st0 s → Snd st0 s'

theorem SExt.refl (s : Sess) : SExt s s := ⟨Ext.refl s, rfl, fun _ h => h⟩
theorem SExt.trans {a b c : Sess} (h1 : SExt a b) (h2 : SExt b c) : SExt a c :=
  ⟨h1.ext.trans h2.ext, h2.cfg.trans h1.cfg, fun st0 h => h2.snd st0 (h1.snd st0 h)⟩

theorem SExt.of_eq {s s' : Sess} (h1 : s'.cfg = s.cfg) (h2 : s'.store = s.store) (h3 : s'.log = s.log) (h4 : s'.toSend = s.toSend) :
    SExt s s' :=
  ⟨Ext.of_eq (by rw [h2]) h3, h1, fun st0 h => ⟨by rw [h1]; exact h.persist, by rw [h2]; exact h.sok, by rw [h2]; exact h.grow,
    by rw [h2, h4]; exact h.q, by rw [h2, h3]; exact h.w⟩⟩

theorem SExt.emit (s : Sess) (o : Obs) (hn : neutral o = true) (hw : ∀ m, o ≠ .wire m) : SExt s (s.emit o) :=
  ⟨Ext.emit s o hn, rfl, fun st0 h => ⟨h.persist, h.sok, h.grow, h.q, by
    intro m hm
    simp only [Sess.emit, List.mem_cons] at hm
    rcases hm with hm | hm
    · exact absurd hm.symm (hw m)
    · exact h.w m hm⟩⟩

theorem sext_sendQueued (s : Sess) : SExt s (sendQueued s) := by
  refine ⟨ext_sendQueued s, (fr_sendQueued s).cfg, ?_⟩
  intro st0 h
  unfold sendQueued
  split
  · refine ⟨h.persist, h.sok, h.grow, (by intro m hm; cases hm), ?_⟩
    intro m hm
    simp only [List.mem_append, List.mem_reverse, List.mem_map] at hm
    rcases hm with ⟨x, hx, he⟩ | hm
    · cases he; exact h.q _ hx
    · exact h.w m hm
  · exact h

/-- replacing the queue by part of it -/
theorem sext_setToSend (s : Sess) (q : List OutMsg) (hq : ∀ x ∈ q, x ∈ s.toSend) : SExt s (s.setToSend q) :=
  ⟨Ext.of_eq rfl rfl, rfl, fun st0 h => ⟨h.persist, h.sok, h.grow, fun m hm => h.q m (hq m hm), h.w⟩⟩

/-! ### messages an engine composes -/

/-- an administrative message an engine composes (before numbering): well-formed, never a SequenceReset -/
structure OutOK (m : OutMsg) : Prop where
  ok : MsgOK m
  adm : isAdminKind m.kind = true

/-- header bookkeeping (tag 369, reply marker) does not matter here -/
theorem OutOK.stamp {m : OutMsg} (h : OutOK m) (s : Sess) : OutOK (stamp s m) := ⟨⟨h.ok.f, h.ok.ord, h.ok.k, h.ok.k4, h.ok.app, h.ok.rr⟩, h.adm⟩
theorem OutOK.asNew {m : OutMsg} (h : OutOK m) : OutOK m.asNew := ⟨⟨h.ok.f, h.ok.ord, h.ok.k, h.ok.k4, h.ok.app, h.ok.rr⟩, h.adm⟩
theorem OutOK.re {m : OutMsg} (h : OutOK m) (r : InMsg) : OutOK (m.inReplyTo r) := ⟨⟨h.ok.f, h.ok.ord, h.ok.k, h.ok.k4, h.ok.app, h.ok.rr⟩, h.adm⟩

theorem OutOK.no141 {m : OutMsg} (h : OutOK m) : m.f.get? 141 = none :=
  get?_none_of_tags _ _ (fun p hp => (h.ok.f p hp).2.1)

theorem outOK_mk (k : String) (f : Fields) (ha : isAdminKind k = true) (hk4 : k ≠ "4")
    (hf : ∀ p ∈ f, p.2 ≠ "" ∧ p.1 ≠ 141 ∧ p.1 ≠ 9001 ∧ p.1 ≠ 9000 ∧ p.1 ≠ 123)
    (hrr : k = "2" → ∃ x y : Int, Fields.get? f 7 = some (toString x) ∧ Fields.get? f 16 = some (toString y))
    (ho : SecOrd f) : OutOK (mkOut k f) := by
  refine ⟨⟨?_, ho, ?_, hk4, ?_, hrr⟩, ha⟩
  · intro p hp; have := hf p hp; exact ⟨this.1, this.2.1, this.2.2.1, fun _ => this.2.2.2.1, this.2.2.2.2⟩
  · intro h; simp only [mkOut] at h; rw [h] at ha; revert ha; decide
  · intro h; simp only [mkOut] at h; rw [h] at ha; cases ha

theorem outOK_logout : OutOK (mkOut "5" []) :=
  outOK_mk _ _ (by decide) (by decide) (by intro p hp; cases hp) (fun h => absurd h (by decide)) (SecOrd.body rfl)
theorem outOK_heartbeat : OutOK (mkOut "0" []) :=
  outOK_mk _ _ (by decide) (by decide) (by intro p hp; cases hp) (fun h => absurd h (by decide)) (SecOrd.body rfl)
theorem outOK_testRequest : OutOK (mkOut "1" [(112, "TEST")]) :=
  outOK_mk _ _ (by decide) (by decide) (by intro p hp; simp only [List.mem_singleton] at hp; subst hp; decide) (fun h => absurd h (by decide))
    (SecOrd.body rfl)
theorem outOK_hbReply (id : String) (h : id ≠ "") : OutOK (mkOut "0" [(112, id)]) :=
  outOK_mk _ _ (by decide) (by decide) (by intro p hp; simp only [List.mem_singleton] at hp; subst hp; exact ⟨h, by simp, by simp, by simp, by simp⟩)
    (fun h => absurd h (by decide)) (SecOrd.body rfl)
theorem outOK_resendRequest (b e : Int) : OutOK (mkOut "2" [(7, toString b), (16, toString e)]) :=
  outOK_mk _ _ (by decide) (by decide) (by
    intro p hp
    simp only [List.mem_cons, List.not_mem_nil, or_false] at hp
    rcases hp with rfl | rfl
    · exact ⟨toString_int_ne_empty _, by simp, by simp, by simp, by simp⟩
    · exact ⟨toString_int_ne_empty _, by simp, by simp, by simp, by simp⟩)
    (fun _ => ⟨b, e, by simp [get?_cons], by simp [get?_cons]⟩) (SecOrd.body rfl)

theorem outOK_logonX (s : Sess) (nx : Option Int) : OutOK (logonMsgX s false nx) := by
  unfold logonMsgX
  refine outOK_mk _ _ (by decide) (by decide) ?_ (fun h => absurd h (by decide)) (SecOrd.body (by
    simp only [Bool.false_eq_true, if_false, List.append_nil]
    cases nx <;> split <;> rfl))
  intro p hp
  simp only [Bool.false_eq_true, if_false, List.append_nil, List.mem_append, List.mem_singleton] at hp
  rcases hp with (rfl | hp) | hp
  · exact ⟨toString_int_ne_empty _, by simp, by simp, by simp, by simp⟩
  · split at hp
    · cases hp
    · rename_i hne
      simp only [List.mem_singleton] at hp; subst hp
      refine ⟨?_, by simp, by simp, by simp, by simp⟩
      intro h
      have h' : s.cfg.applVer = "" := h
      rw [h'] at hne; exact hne (by decide)
  · cases nx with
    | none => cases hp
    | some n =>
      simp only [nxTag, List.mem_singleton] at hp; subst hp
      exact ⟨toString_int_ne_empty _, by simp, by simp, by simp, by simp⟩

theorem outOK_logon (s : Sess) : OutOK (logonMsg s false) := outOK_logonX s _

theorem cp_ok (im : InMsg) (src dst : Nat) (p : Nat × String)
    (hp : p ∈ (match im.f.get? src with | some v => if v.isEmpty then ([] : Fields) else [(dst, v)] | none => [])) : p.1 = dst ∧ p.2 ≠ "" := by
  split at hp
  · split at hp
    · cases hp
    · rename_i hv
      simp only [List.mem_singleton] at hp; subst hp
      exact ⟨rfl, (isEmpty_false_iff _).1 (by simpa using hv)⟩
  · cases hp

/-- the routing tags a Reject can carry -/
def routeTag (t : Nat) : Bool := t == 56 || t == 57 || t == 143 || t == 49 || t == 50 || t == 142 || t == 128 || t == 129 || t == 115 || t == 116 || t == 145 || t == 144

theorem reverseRoute_ok (im : InMsg) : ∀ p ∈ reverseRoute im, routeTag p.1 = true ∧ p.2 ≠ "" := by
  intro p hp
  unfold reverseRoute at hp
  simp only [List.mem_append] at hp
  rcases hp with (((((((((hp | hp) | hp) | hp) | hp) | hp) | hp) | hp) | hp) | hp) | hp
  all_goals first
    | (have := cp_ok im _ _ p hp; exact ⟨by rw [this.1]; decide, this.2⟩)
    | (split at hp
       · split at hp
         · simp only [List.mem_append] at hp
           rcases hp with hp | hp
           · have := cp_ok im _ _ p hp; exact ⟨by rw [this.1]; decide, this.2⟩
           · have := cp_ok im _ _ p hp; exact ⟨by rw [this.1]; decide, this.2⟩
         · cases hp
       · cases hp)

theorem routeTag_header (t : Nat) (h : routeTag t = true) : Validate.isHeaderTag t = true := by
  unfold routeTag at h
  simp only [Bool.or_eq_true, beq_iff_eq] at h
  rcases h with ((((((((((rfl | rfl) | rfl) | rfl) | rfl) | rfl) | rfl) | rfl) | rfl) | rfl) | rfl) | rfl <;> decide

theorem outOK_reject (cfg : Cfg) (im : InMsg) (reason : Nat) (refTag : Option Nat) (hk : kindOf im ≠ "") :
    OutOK (rejectMsg cfg im reason refTag false) := by
  have hroute : ∀ p ∈ (reverseRoute im).filter (fun p => p.1 != 49 && p.1 != 56), p.2 ≠ "" ∧ p.1 ≠ 141 ∧ p.1 ≠ 9001 ∧ p.1 ≠ 9000 ∧ p.1 ≠ 123 := by
    intro p hp
    have := reverseRoute_ok im p (List.mem_filter.1 hp).1
    refine ⟨this.2, ?_, ?_, ?_, ?_⟩ <;> (intro h; rw [h] at this; exact absurd this.1 (by decide))
  have hseq : ∀ p ∈ (match getInt im 34 with | .val i => ([(45, toString i)] : Fields) | _ => []), p.2 ≠ "" ∧ p.1 ≠ 141 ∧ p.1 ≠ 9001 ∧ p.1 ≠ 9000 ∧ p.1 ≠ 123 := by
    intro p hp
    split at hp
    · simp only [List.mem_singleton] at hp; subst hp
      exact ⟨toString_int_ne_empty _, by simp, by simp, by simp, by simp⟩
    · cases hp
  have horoute : hdrOnly ((reverseRoute im).filter (fun p => p.1 != 49 && p.1 != 56)) = true := by
    unfold hdrOnly
    rw [List.all_eq_true]
    intro p hp
    exact routeTag_header _ (reverseRoute_ok im p (List.mem_filter.1 hp).1).1
  have hoseq : bodyOnly (match getInt im 34 with | .val i => ([(45, toString i)] : Fields) | _ => []) = true := by
    split <;> rfl
  unfold rejectMsg
  simp only [Bool.false_eq_true, if_false]
  split
  · refine outOK_mk _ _ (by decide) (by decide) ?_ (fun h => absurd h (by decide)) (by
      simp only [List.append_assoc]
      refine SecOrd.hdr_append horoute (SecOrd.body ?_)
      refine bodyOnly_append (by split <;> rfl) (bodyOnly_append (by split <;> rfl) (bodyOnly_append rfl hoseq)))
    intro p hp
    simp only [List.mem_append] at hp
    rcases hp with (((hp | hp) | hp) | hp) | hp
    · exact hroute p hp
    · split at hp
      · cases hp
      · simp only [List.mem_singleton] at hp; subst hp
        exact ⟨toString_nat_ne_empty _, by simp, by simp, by simp, by simp⟩
    · split at hp
      · simp only [List.mem_singleton] at hp; subst hp
        exact ⟨toString_nat_ne_empty _, by simp, by simp, by simp, by simp⟩
      · cases hp
    · simp only [List.mem_singleton] at hp; subst hp
      exact ⟨hk, by simp, by simp, by simp, by simp⟩
    · exact hseq p hp
  · refine outOK_mk _ _ (by decide) (by decide) ?_ (fun h => absurd h (by decide)) (SecOrd.hdr_append horoute (SecOrd.body hoseq))
    intro p hp
    simp only [List.mem_append] at hp
    rcases hp with hp | hp
    · exact hroute p hp
    · exact hseq p hp

/-! ### numbering, persisting, queueing -/

theorem prepCore_admin (s : Sess) (m : OutMsg) (hm : OutOK m) :
    prepCore s m = (some { m with seq := s.store.sender }, s.persistOut s.store.sender { m with seq := s.store.sender }) := by
  unfold prepCore
  simp only [hm.adm, if_true, hm.no141]
  simp

theorem prep_admin (s : Sess) (m : OutMsg) (hm : OutOK m) :
    prep s m = (some { stamp s m with seq := s.store.sender }, s.persistOut s.store.sender { stamp s m with seq := s.store.sender }) :=
  prepCore_admin s (stamp s m) (hm.stamp s)

theorem persistOut_eq (s : Sess) (n : Int) (m : OutMsg) (hp : s.cfg.persist = true) :
    s.persistOut n m = ({ s with store := { s.store with msgs := (n, m) :: s.store.msgs, sender := s.store.sender + 1 } }.emit
      (.saved n m.kind (resendable m))) := by
  unfold Sess.persistOut; simp [hp]

/-- the numbered message is persisted and the queue becomes any part of (old queue + the message) -/
theorem sext_push (s : Sess) (m : OutMsg) (hm : OutOK m) (q : List OutMsg)
    (hq : ∀ x ∈ q, x ∈ s.toSend ∨ x = { m with seq := s.store.sender }) :
    SExt s ((s.persistOut s.store.sender { m with seq := s.store.sender }).setToSend q) := by
  refine ⟨(ext_persistOut s _ _).trans (Ext.of_eq rfl rfl), (fr_persistOut s _ _).cfg, ?_⟩
  intro st0 h
  rw [persistOut_eq s _ _ h.persist]
  have hg := Grow.save true s.store { m with seq := s.store.sender } (fun _ => hm.adm)
  have hmem : Wire { s.store with msgs := (s.store.sender, { m with seq := s.store.sender }) :: s.store.msgs, sender := s.store.sender + 1 }
      { m with seq := s.store.sender } := .stored List.mem_cons_self
  refine ⟨h.persist, h.sok.save _ (hm.ok.withSeq _) rfl, h.grow.trans hg, ?_, ?_⟩
  · intro x hx
    rcases hq x hx with hx | hx
    · exact (h.q x hx).mono hg
    · rw [hx]; exact hmem
  · intro x hx
    simp only [Sess.emit, Sess.setToSend, List.mem_cons] at hx
    rcases hx with hx | hx
    · cases hx
    · exact (h.w x hx).mono hg

theorem sext_queueForSend (s : Sess) (m : OutMsg) (hm : OutOK m) : SExt s (queueForSend s m) := by
  unfold queueForSend
  rw [prep_admin s m hm]
  simp only []
  have hts : (s.persistOut s.store.sender { stamp s m with seq := s.store.sender }).toSend = s.toSend := by
    unfold Sess.persistOut; split <;> rfl
  rw [hts]
  exact sext_push s (stamp s m) (hm.stamp s) _ (by
    intro x hx
    rcases List.mem_append.1 hx with hx | hx
    · exact Or.inl hx
    · simp only [List.mem_singleton] at hx; exact Or.inr hx)

theorem sext_sendInReplyTo (s : Sess) (m : OutMsg) (hm : OutOK m) : SExt s (sendInReplyTo s m) := by
  unfold sendInReplyTo
  split
  · exact sext_queueForSend s _ hm.asNew
  · rw [prep_admin s m hm]
    simp only []
    have hts : (s.persistOut s.store.sender { stamp s m with seq := s.store.sender }).toSend = s.toSend := by
      unfold Sess.persistOut; split <;> rfl
    rw [hts]
    exact (sext_push s (stamp s m) (hm.stamp s) _ (by
      intro x hx
      rcases List.mem_append.1 hx with hx | hx
      · exact Or.inl hx
      · simp only [List.mem_singleton] at hx; exact Or.inr hx)).trans (sext_sendQueued _)

theorem sext_dropAndSend (s : Sess) (m : OutMsg) (hm : OutOK m) : SExt s (dropAndSend s m) := by
  unfold dropAndSend
  rw [prep_admin s m hm]
  simp only []
  exact (sext_push s (stamp s m) (hm.stamp s) _ (by
    intro x hx
    simp only [List.mem_singleton] at hx; exact Or.inr hx)).trans (sext_sendQueued _)

theorem sext_enqueueAndSend (s : Sess) (m : OutMsg) (hm : ∀ st0, Snd st0 s → Wire s.store m) : SExt s (enqueueAndSend s m) := by
  refine ⟨ext_enqueueAndSend s m, (fr_enqueueAndSend s m).cfg, ?_⟩
  intro st0 h
  unfold enqueueAndSend
  simp only []
  have hw := hm st0 h
  split
  · refine (sext_sendQueued _).snd st0 ⟨h.persist, h.sok, h.grow, ?_, h.w⟩
    intro x hx
    simp only [Sess.setToSend, List.nil_append, List.mem_singleton] at hx
    rw [hx]; exact hw
  · refine (sext_sendQueued _).snd st0 ⟨h.persist, h.sok, h.grow, ?_, h.w⟩
    intro x hx
    simp only [Sess.setToSend, List.mem_append, List.mem_singleton] at hx
    rcases hx with hx | hx
    · exact h.q x hx
    · rw [hx]; exact hw

theorem enqueueAndSend_store (s : Sess) (m : OutMsg) : (enqueueAndSend s m).store = s.store := by
  unfold enqueueAndSend sendQueued
  simp only []
  split <;> split <;> rfl

theorem snd_enqAll (st0 : Store) (s : Sess) (l : List OutMsg) (h : Snd st0 s) (hl : ∀ m ∈ l, Wire s.store m) :
    Snd st0 (enqAll s l) := by
  induction l generalizing s with
  | nil => exact h
  | cons m rest ih =>
    have h1 : enqAll s (m :: rest) = enqAll (enqueueAndSend s m) rest := rfl
    rw [h1]
    refine ih _ ((sext_enqueueAndSend s m (fun _ _ => hl m List.mem_cons_self)).snd st0 h) ?_
    intro x hx
    rw [enqueueAndSend_store]
    exact hl x (List.mem_cons_of_mem _ hx)

/-! ### the reply to a ResendRequest -/

theorem mem_of_lookup (st : Store) (n : Int) (m : OutMsg) (h : st.lookup n = some m) : (n, m) ∈ st.msgs := by
  simp only [Store.lookup, Option.map_eq_some_iff] at h
  obtain ⟨q, hq, rfl⟩ := h
  have hmem := List.mem_of_find?_eq_some hq
  have hk := List.find?_some hq
  have : q.1 = n := by simpa using hk
  rw [← this]; exact hmem

theorem lookup_of_mem (st : Store) (hd : Desc st.msgs) (n : Int) (m : OutMsg) (h : (n, m) ∈ st.msgs) : st.lookup n = some m := by
  cases hf : st.msgs.find? (·.1 == n) with
  | none =>
    have := List.find?_eq_none.1 hf (n, m) h
    simp at this
  | some q =>
    have hmem := List.mem_of_find?_eq_some hf
    have hk := List.find?_some hf
    have hq : q.1 = n := by simpa using hk
    have : q.2 = m := desc_unique st.msgs hd n q.2 m (by rw [← hq]; exact hmem) h
    simp only [Store.lookup, hf, Option.map_some, this]

theorem resendable_of_ok (m : OutMsg) (h : MsgOK m) (ha : isAdminKind m.kind = false) : resendable m = true := by
  obtain ⟨p, hp⟩ := h.app ha
  unfold resendable
  rw [hp]
  simp [get?_cons, get?_nil]

theorem filed_of_ok {st : Store} (h : StoreOK st) : st.Filed := fun p hp => (h.ent p hp).1

/-- every element of the reply is `Wire` of the store -/
theorem wire_reply (st : Store) (hs : StoreOK st) (l : Option Int) (b e : Int) (hb : -9223372036854775808 ≤ b) (he : e ≤ st.sender - 1) :
    ∀ x ∈ replyPlanR l true st b e, Wire st x := by
  intro x hx
  simp only [replyPlanR, List.mem_map] at hx
  obtain ⟨r, hr, rfl⟩ := hx
  by_cases hbe : e < b
  · simp [replyReps, hbe] at hr
  · have hbe' : b ≤ e := by omega
    cases r with
    | gap x y =>
      have hw := C03_nothing_outside true st b e _ hr
      simp only [Rep.lo, Rep.hi] at hw
      refine .gap x y l hw.2.1 (by omega) (by omega) ?_
      intro p hp h1 h2
      have hl := lookup_of_mem st hs.desc p.1 p.2 hp
      rcases C03_gapfill_only_admin_or_declined st b e hbe' x y hr p.1 h1 h2 p.2 hl with h | h
      · exact h
      · cases ha : isAdminKind p.2.kind with
        | true => rfl
        | false => rw [resendable_of_ok p.2 (hs.ent p hp).2.2.2 ha] at h; cases h
    | msg n m =>
      have h1 := C03_original_number st (filed_of_ok hs) true b e n m hr
      have hmem := mem_of_lookup st n m h1.2
      have hseq : m.seq = n := (hs.ent _ hmem).1
      have h2 : (n, m) ∈ (replyReps true st b e).filterMap Rep.msg? := List.mem_filterMap.2 ⟨_, hr, rfl⟩
      rw [C03_replayed_exactly st b e hbe'] at h2
      have h3 := (List.mem_filter.1 h2).2
      simp only [replayable, Bool.and_eq_true, Bool.not_eq_eq_eq_not, Bool.not_true] at h3
      exact .resent (by rw [hseq]; exact hmem) h3.1

theorem sext_resendMessages (s : Sess) (b e : Int) (hb : -9223372036854775808 ≤ b) (he : e ≤ s.store.sender - 1) :
    SExt s (resendMessages s b e) := by
  refine ⟨ext_resendMessages s b e, (fr_resendMessages s b e).cfg, ?_⟩
  intro st0 h
  rw [resendMessages_eq, h.persist]
  exact snd_enqAll st0 s _ h (wire_reply s.store h.sok _ b e hb he)

/-! ### composed senders -/

theorem sext_sendLogout (s : Sess) : SExt s (sendLogout s) := sext_sendInReplyTo s _ outOK_logout
theorem sext_initiateLogout (s : Sess) : SExt s (initiateLogout s) := sext_sendLogout s

theorem sext_sendResendRequest (s : Sess) (b e : Int) : SExt s (sendResendRequest s b e).1 := by
  unfold sendResendRequest
  simp only []
  split <;> exact sext_sendInReplyTo s _ (outOK_resendRequest _ _)

theorem sext_doReject (s : Sess) (im : InMsg) (r : Nat) (t : Option Nat) (hk : kindOf im ≠ "") : SExt s (doReject s im r t false) := by
  unfold doReject
  exact sext_sendInReplyTo s _ ((outOK_reject _ _ _ _ hk).re _)

theorem sext_sendLogonInReplyTo (s : Sess) : SExt s (sendLogonInReplyTo s false) := sext_dropAndSend s _ (outOK_logon s)
theorem sext_sendLogonRe (s : Sess) (m : InMsg) : SExt s (sendLogonRe s false m) := sext_dropAndSend s _ ((outOK_logonX s _).re m)

section peel
variable {s x : Sess}
theorem xpeel_sendLogout (h : SExt s x) : SExt s (sendLogout x) := h.trans (sext_sendLogout x)
theorem xpeel_initiateLogout (h : SExt s x) : SExt s (initiateLogout x) := h.trans (sext_initiateLogout x)
theorem xpeel_sendInReplyTo (m : OutMsg) (hm : OutOK m) (h : SExt s x) : SExt s (sendInReplyTo x m) := h.trans (sext_sendInReplyTo x m hm)
theorem xpeel_dropAndSend (m : OutMsg) (hm : OutOK m) (h : SExt s x) : SExt s (dropAndSend x m) := h.trans (sext_dropAndSend x m hm)
theorem xpeel_sendResendRequest (b e : Int) (h : SExt s x) : SExt s (sendResendRequest x b e).1 := h.trans (sext_sendResendRequest x b e)
theorem xpeel_doReject (im : InMsg) (r : Nat) (t : Option Nat) (hk : kindOf im ≠ "") (h : SExt s x) : SExt s (doReject x im r t false) :=
  h.trans (sext_doReject x im r t hk)
theorem xpeel_sendLogonInReplyTo (h : SExt s x) : SExt s (sendLogonInReplyTo x false) := h.trans (sext_sendLogonInReplyTo x)
theorem xpeel_sendLogonRe (m : InMsg) (h : SExt s x) : SExt s (sendLogonRe x false m) := h.trans (sext_sendLogonRe x m)
theorem xpeel_setReplyLast (v : Option Int) (h : SExt s x) : SExt s (x.setReplyLast v) := h.trans (SExt.of_eq rfl rfl rfl rfl)
theorem xpeel_sendQueued (h : SExt s x) : SExt s (sendQueued x) := h.trans (sext_sendQueued x)
theorem xpeel_emit (o : Obs) (hn : neutral o = true) (hw : ∀ m, o ≠ .wire m) (h : SExt s x) : SExt s (x.emit o) := h.trans (SExt.emit x o hn hw)
theorem xpeel_setToSend_nil (h : SExt s x) : SExt s (x.setToSend []) := h.trans (sext_setToSend x [] (by intro y hy; cases hy))
theorem xpeel_setHb (v : Int) (h : SExt s x) : SExt s (x.setHb v) := h.trans (SExt.of_eq rfl rfl rfl rfl)
theorem xpeel_setSentReset (b : Bool) (h : SExt s x) : SExt s (x.setSentReset b) := h.trans (SExt.of_eq rfl rfl rfl rfl)
theorem xpeel_setSt (st : SState) (h : SExt s x) : SExt s (x.setSt st) := h.trans (SExt.of_eq rfl rfl rfl rfl)
theorem xpeel_setOut (b : Bool) (h : SExt s x) : SExt s (x.setOut b) := h.trans (SExt.of_eq rfl rfl rfl rfl)
theorem xpeel_setInbox (ib : List InMsg) (h : SExt s x) : SExt s (x.setInbox ib) := h.trans (SExt.of_eq rfl rfl rfl rfl)
theorem xpeel_closeInbox (h : SExt s x) : SExt s x.closeInbox := h.trans (SExt.of_eq rfl rfl rfl rfl)
theorem xpeel_setPendingStop (h : SExt s x) : SExt s x.setPendingStop := h.trans (SExt.of_eq rfl rfl rfl rfl)
theorem xpeel_setStopped (h : SExt s x) : SExt s x.setStopped := h.trans (SExt.of_eq rfl rfl rfl rfl)
theorem xpeel_openConn (h : SExt s x) : SExt s x.openConn := h.trans (SExt.of_eq rfl rfl rfl rfl)
theorem xpeel_ite {a b : Sess} (c : Prop) [Decidable c] (ha : SExt s a) (hb : SExt s b) : SExt s (if c then a else b) := by
  split <;> assumption
end peel

/-- one peeling step for `SExt s (f (g … s))` goals -/
syntax "sx_step" : tactic
macro_rules | `(tactic| sx_step) => `(tactic| apply xpeel_sendLogout)
macro_rules | `(tactic| sx_step) => `(tactic| apply xpeel_initiateLogout)
macro_rules | `(tactic| sx_step) => `(tactic| apply xpeel_sendInReplyTo _ (by first | exact outOK_logout | exact outOK_heartbeat | exact outOK_testRequest | exact outOK_logout.re _ | exact OutOK.re (by assumption) _ | assumption))
macro_rules | `(tactic| sx_step) => `(tactic| apply xpeel_dropAndSend _ (by first | exact outOK_logout | exact outOK_logout.re _ | assumption))
macro_rules | `(tactic| sx_step) => `(tactic| apply xpeel_sendResendRequest)
macro_rules | `(tactic| sx_step) => `(tactic| apply xpeel_doReject _ _ _ (by assumption))
macro_rules | `(tactic| sx_step) => `(tactic| apply xpeel_sendLogonInReplyTo)
macro_rules | `(tactic| sx_step) => `(tactic| apply xpeel_sendLogonRe)
macro_rules | `(tactic| sx_step) => `(tactic| apply xpeel_setReplyLast)
macro_rules | `(tactic| sx_step) => `(tactic| apply xpeel_sendQueued)
macro_rules | `(tactic| sx_step) => `(tactic| (refine xpeel_emit _ ?hn ?hw ?_; (case hn => (simp [neutral]; done)); (case hw => (intro _; simp; done))))
macro_rules | `(tactic| sx_step) => `(tactic| apply xpeel_setToSend_nil)
macro_rules | `(tactic| sx_step) => `(tactic| apply xpeel_setHb)
macro_rules | `(tactic| sx_step) => `(tactic| apply xpeel_setSentReset)
macro_rules | `(tactic| sx_step) => `(tactic| apply xpeel_setSt)
macro_rules | `(tactic| sx_step) => `(tactic| apply xpeel_setOut)
macro_rules | `(tactic| sx_step) => `(tactic| apply xpeel_setInbox)
macro_rules | `(tactic| sx_step) => `(tactic| apply xpeel_closeInbox)
macro_rules | `(tactic| sx_step) => `(tactic| apply xpeel_setPendingStop)
macro_rules | `(tactic| sx_step) => `(tactic| apply xpeel_setStopped)
macro_rules | `(tactic| sx_step) => `(tactic| apply xpeel_openConn)
macro_rules | `(tactic| sx_step) => `(tactic| apply xpeel_ite)

macro "sx_peel" : tactic => `(tactic| with_reducible (repeat (first | assumption | exact SExt.refl _ | sx_step)))

macro "sx_cases" : tactic => `(tactic| (
  (repeat' split)
  all_goals (try dsimp only)
  all_goals (repeat' split)
  all_goals (try dsimp only)
  all_goals (repeat' split)
  all_goals (try dsimp only)
  all_goals sx_peel))

/-- a message numbered too low: the engine answers (Logout, or a Reject of a malformed duplicate) or ignores it; the
    expected number stays where it is as long as the message carries a SendingTime (always, between two engines) -/
theorem sext_doTargetTooLow (s : Sess) (im : InMsg) (d : Int) (h52 : getTime im 52 = .val d) (hk : kindOf im ≠ "") :
    SExt s (doTargetTooLow s im).1 := by
  unfold doTargetTooLow
  rw [h52]
  sx_cases
  all_goals contradiction

theorem sext_inSessionTimeout (s : Sess) (e : TimerEv) : SExt s (inSessionTimeout s e).1 := by
  unfold inSessionTimeout
  sx_cases

end Qfx.Link
