/-
  Helper lemmas for C04 / C20 over Qfx.Model.Session.

  * `Q k s s'`: `s'` is `s` after some processing that leaves the state tag, the configuration, the inbound buffer and
    the connection flag alone and has created at most `k` new ResendRequests (counted over everything written during the
    current event plus everything still queued).  One lemma per model function, composed by the `q_peel` tactic.
  * exact-result lemmas for the gap branch of the verification pipeline.
-/
import Qfx.Spec.SessionTypedC04
namespace Qfx.Sess
open Qfx

/-! ## what has been written / is queued -/

def notWire : Obs → Bool
  | .wire _ => false
  | _ => true

theorem wiresOf_cons_notWire (o : Obs) (l : List Obs) (h : notWire o = true) : wiresOf (o :: l) = wiresOf l := by
  cases o <;> simp_all [wiresOf, notWire]

theorem wiresOf_append (a b : List Obs) : wiresOf (a ++ b) = wiresOf a ++ wiresOf b := by
  simp [wiresOf, List.filterMap_append]

theorem wiresOf_map_wire (q : List OutMsg) : wiresOf (q.map Obs.wire) = q := by
  induction q with
  | nil => rfl
  | cons a q ih => simp_all [wiresOf]

theorem wiresOf_reverse (l : List Obs) : wiresOf l.reverse = (wiresOf l).reverse := by
  simp [wiresOf, List.filterMap_reverse]

theorem Q.refl (s : Sess) : Q 0 s s := ⟨rfl, rfl, rfl, rfl, rfl, Nat.le_refl _⟩

theorem Q.trans {j k : Nat} {a b c : Sess} (h1 : Q j a b) (h2 : Q k b c) : Q (j + k) a c :=
  ⟨h2.st.trans h1.st, h2.cfg.trans h1.cfg, h2.inbox.trans h1.inbox, h2.inboxOpen.trans h1.inboxOpen,
   h2.out.trans h1.out, by have := h1.rr; have := h2.rr; omega⟩

theorem Q.trans0 {k : Nat} {a b c : Sess} (h1 : Q k a b) (h2 : Q 0 b c) : Q k a c := h1.trans h2

theorem Q.mono {j k : Nat} {a b : Sess} (h : Q j a b) (hjk : j ≤ k) : Q k a b :=
  ⟨h.st, h.cfg, h.inbox, h.inboxOpen, h.out, by have := h.rr; omega⟩

/-- updates of fields the relation does not look at -/
theorem Q.of_eq {s s' : Sess} (h1 : s'.st = s.st) (h2 : s'.cfg = s.cfg) (h3 : s'.inbox = s.inbox)
    (h4 : s'.inboxOpen = s.inboxOpen) (h5 : s'.out = s.out) (h6 : s'.log = s.log) (h7 : s'.toSend = s.toSend) : Q 0 s s' :=
  ⟨h1, h2, h3, h4, h5, by simp [rrCount, h6, h7]⟩

theorem q_emit (s : Sess) (o : Obs) (h : notWire o = true) : Q 0 s (s.emit o) :=
  ⟨rfl, rfl, rfl, rfl, rfl, by simp [rrCount, Sess.emit, wiresOf_cons_notWire o s.log h]⟩

theorem q_storeReset (s : Sess) : Q 0 s s.storeReset :=
  ⟨rfl, rfl, rfl, rfl, rfl, by simp [rrCount, Sess.storeReset, Sess.emit, wiresOf_cons_notWire _ _ (rfl : notWire .reset = true)]⟩

theorem q_persistOut (s : Sess) (seq : Int) (m : OutMsg) : Q 0 s (s.persistOut seq m) := by
  unfold Sess.persistOut
  split
  · exact ⟨rfl, rfl, rfl, rfl, rfl, by simp [rrCount, Sess.emit, wiresOf_cons_notWire _ _ (rfl : notWire (.saved _ _ _) = true)]⟩
  · exact ⟨rfl, rfl, rfl, rfl, rfl, by simp [rrCount, Sess.emit, wiresOf_cons_notWire _ _ (rfl : notWire .incS = true)]⟩

theorem rrCount_sendQueued (s : Sess) : rrCount (sendQueued s) = rrCount s := by
  unfold sendQueued
  split
  · simp only [rrCount, wiresOf_append, wiresOf_reverse, wiresOf_map_wire, List.countP_append, List.countP_reverse,
      List.countP_nil]
    omega
  · rfl

theorem q_sendQueued (s : Sess) : Q 0 s (sendQueued s) := by
  refine ⟨?_, ?_, ?_, ?_, ?_, by rw [rrCount_sendQueued]; omega⟩ <;> (unfold sendQueued; split <;> rfl)

theorem rrCount_setToSend (s : Sess) (q : List OutMsg) :
    rrCount (s.setToSend q) = (wiresOf s.log).countP isRR + q.countP isRR := rfl

/-- appending one message to the queue: the budget grows only for a ResendRequest -/
theorem q_append (s : Sess) (m : OutMsg) : Q (if isRR m then 1 else 0) s (s.setToSend (s.toSend ++ [m])) := by
  refine ⟨rfl, rfl, rfl, rfl, rfl, ?_⟩
  rw [rrCount_setToSend]
  simp only [rrCount, List.countP_append, List.countP_cons, List.countP_nil]
  split <;> simp_all <;> omega

theorem q_replace (s : Sess) (m : OutMsg) : Q (if isRR m then 1 else 0) s (s.setToSend [m]) := by
  refine ⟨rfl, rfl, rfl, rfl, rfl, ?_⟩
  rw [rrCount_setToSend]
  simp only [rrCount, List.countP_cons, List.countP_nil]
  split <;> simp_all <;> omega

theorem q_clearQueue (s : Sess) : Q 0 s (s.setToSend []) := by
  refine ⟨rfl, rfl, rfl, rfl, rfl, ?_⟩
  rw [rrCount_setToSend]; simp [rrCount]

/-! ## sending -/

theorem q_prep (s : Sess) (m : OutMsg) : Q 0 s (prep s m).2 := by
  unfold prep prepCore
  simp only []
  split
  · split
    · exact ((q_storeReset s).trans0 (Q.of_eq (s := s.storeReset) (s' := s.storeReset.setSentReset true) rfl rfl rfl rfl rfl rfl rfl)).trans0 (q_persistOut _ _ _)
    · exact q_persistOut _ _ _
  · split
    · exact Q.refl s
    · exact q_persistOut _ _ _

theorem prepCore_kind (s : Sess) (m m' : OutMsg) (h : (prepCore s m).1 = some m') : m'.kind = m.kind := by
  unfold prepCore at h
  simp only [] at h
  split at h
  · split at h <;> (simp only [Option.some.injEq] at h; subst h; rfl)
  · split at h
    · cases h
    · simp only [Option.some.injEq] at h; subst h; rfl

theorem prep_kind (s : Sess) (m m' : OutMsg) (h : (prep s m).1 = some m') : m'.kind = m.kind := by
  rw [prepCore_kind s (stamp s m) m' h, stamp_kind]

theorem rrK_asNew (m : OutMsg) : rrK m.asNew = rrK m := rfl
theorem rrK_re (o : OutMsg) (m : InMsg) : rrK (o.inReplyTo m) = rrK o := rfl

theorem prep_isRR (s : Sess) (m m' : OutMsg) (h : (prep s m).1 = some m') : isRR m' = isRR m := by
  unfold isRR; rw [prep_kind s m m' h]


theorem q_queueForSend (s : Sess) (m : OutMsg) : Q (rrK m) s (queueForSend s m) := by
  unfold queueForSend
  have hp := q_prep s m
  have hk := prep_isRR s m
  generalize prep s m = r at hp hk
  obtain ⟨o, s'⟩ := r
  cases o with
  | none => exact hp.mono (Nat.zero_le _)
  | some m' =>
    have := hk m' rfl
    have h2 := q_append s' m'
    rw [this] at h2
    simpa [rrK] using hp.trans h2

theorem q_sendInReplyTo (s : Sess) (m : OutMsg) : Q (rrK m) s (sendInReplyTo s m) := by
  unfold sendInReplyTo
  split
  · exact q_queueForSend s m.asNew
  · have hp := q_prep s m
    have hk := prep_isRR s m
    generalize prep s m = r at hp hk
    obtain ⟨o, s'⟩ := r
    cases o with
    | none => exact hp.mono (Nat.zero_le _)
    | some m' =>
      have := hk m' rfl
      have h2 := q_append s' m'
      rw [this] at h2
      simpa [rrK] using (hp.trans h2).trans0 (q_sendQueued _)

theorem q_dropAndSend (s : Sess) (m : OutMsg) : Q (rrK m) s (dropAndSend s m) := by
  unfold dropAndSend
  have hp := q_prep s m
  have hk := prep_isRR s m
  generalize prep s m = r at hp hk
  obtain ⟨o, s'⟩ := r
  cases o with
  | none => exact hp.mono (Nat.zero_le _)
  | some m' =>
    have := hk m' rfl
    have h2 := q_replace s' m'
    rw [this] at h2
    simpa [rrK] using (hp.trans h2).trans0 (q_sendQueued _)

theorem q_enqueueAndSend (s : Sess) (m : OutMsg) : Q (rrK m) s (enqueueAndSend s m) := by
  unfold enqueueAndSend
  simp only []
  split
  · have h2 := q_append (s.setToSend []) m
    simpa [rrK] using ((q_clearQueue s).trans h2).trans0 (q_sendQueued _)
  · simpa [rrK] using (q_append s m).trans0 (q_sendQueued _)

theorem q_dropAndReset (s : Sess) : Q 0 s (dropAndReset s) := (q_clearQueue s).trans0 (q_storeReset _)

theorem q_incrTarget (s : Sess) : Q 0 s (incrTarget s) :=
  (Q.of_eq (s := s) (s' := s.setTarget (s.store.target + 1)) rfl rfl rfl rfl rfl rfl rfl).trans0 (q_emit _ _ rfl)

theorem isRR_rejectMsg (cfg : Cfg) (m : InMsg) (r : Nat) (t : Option Nat) (b : Bool) : isRR (rejectMsg cfg m r t b) = false := by
  unfold rejectMsg
  simp only []
  repeat' split
  all_goals rfl

theorem rrK_rejectMsg (cfg : Cfg) (m : InMsg) (r : Nat) (t : Option Nat) (b : Bool) : rrK (rejectMsg cfg m r t b) = 0 := by
  simp [rrK, isRR_rejectMsg]

theorem q_doReject (s : Sess) (m : InMsg) (r : Nat) (t : Option Nat) (b : Bool) : Q 0 s (doReject s m r t b) := by
  have := q_sendInReplyTo s ((rejectMsg s.cfg m r t b).inReplyTo m)
  rw [rrK_re, rrK_rejectMsg] at this; exact this

theorem q_sendLogout (s : Sess) : Q 0 s (sendLogout s) := q_sendInReplyTo s (mkOut "5" [])
theorem q_initiateLogout (s : Sess) : Q 0 s (initiateLogout s) := q_sendLogout s
theorem q_sendLogonInReplyTo (s : Sess) (r : Bool) : Q 0 s (sendLogonInReplyTo s r) := q_dropAndSend s (logonMsg s r)
theorem q_sendLogonRe (s : Sess) (r : Bool) (m : InMsg) : Q 0 s (sendLogonRe s r m) := q_dropAndSend s ((logonMsgRe s r m).inReplyTo m)

/-- the one place where a ResendRequest is created -/
theorem q_sendResendRequest (s : Sess) (b e : Int) : Q 1 s (sendResendRequest s b e).1 := by
  unfold sendResendRequest
  simp only []
  have h2 : ∀ f, Q 1 s (sendInReplyTo s (mkOut "2" f)) := fun f => q_sendInReplyTo s (mkOut "2" f)
  split <;> exact h2 _

/-! ## composition: peel the outermost model function -/
section peel
variable {k : Nat} {s x : Sess}
theorem peel_incrTarget (h : Q k s x) : Q k s (incrTarget x) := h.trans0 (q_incrTarget x)
theorem peel_doReject (m : InMsg) (r : Nat) (t : Option Nat) (b : Bool) (h : Q k s x) : Q k s (doReject x m r t b) := h.trans0 (q_doReject x m r t b)
theorem peel_initiateLogout (h : Q k s x) : Q k s (initiateLogout x) := h.trans0 (q_initiateLogout x)
theorem peel_sendLogout (h : Q k s x) : Q k s (sendLogout x) := h.trans0 (q_sendLogout x)
theorem peel_sendInReplyTo (m : OutMsg) (hm : rrK m = 0) (h : Q k s x) : Q k s (sendInReplyTo x m) := by
  have := q_sendInReplyTo x m; rw [hm] at this; exact h.trans0 this
theorem peel_dropAndSend (m : OutMsg) (hm : rrK m = 0) (h : Q k s x) : Q k s (dropAndSend x m) := by
  have := q_dropAndSend x m; rw [hm] at this; exact h.trans0 this
theorem peel_enqueueAndSend (m : OutMsg) (hm : rrK m = 0) (h : Q k s x) : Q k s (enqueueAndSend x m) := by
  have := q_enqueueAndSend x m; rw [hm] at this; exact h.trans0 this
theorem peel_dropAndReset (h : Q k s x) : Q k s (dropAndReset x) := h.trans0 (q_dropAndReset x)
theorem peel_storeReset (h : Q k s x) : Q k s x.storeReset := h.trans0 (q_storeReset x)
theorem peel_sendQueued (h : Q k s x) : Q k s (sendQueued x) := h.trans0 (q_sendQueued x)
theorem peel_sendLogonInReplyTo (r : Bool) (h : Q k s x) : Q k s (sendLogonInReplyTo x r) := h.trans0 (q_sendLogonInReplyTo x r)
theorem peel_sendLogonRe (r : Bool) (m : InMsg) (h : Q k s x) : Q k s (sendLogonRe x r m) := h.trans0 (q_sendLogonRe x r m)
theorem peel_setReplyLast (v : Option Int) (h : Q k s x) : Q k s (x.setReplyLast v) := h.trans0 (Q.of_eq rfl rfl rfl rfl rfl rfl rfl)
theorem peel_emit (o : Obs) (hn : notWire o = true) (h : Q k s x) : Q k s (x.emit o) := h.trans0 (q_emit x o hn)
theorem peel_setHb (hb : Int) (h : Q k s x) : Q k s (x.setHb hb) := h.trans0 (Q.of_eq rfl rfl rfl rfl rfl rfl rfl)
theorem peel_setSentReset (b : Bool) (h : Q k s x) : Q k s (x.setSentReset b) := h.trans0 (Q.of_eq rfl rfl rfl rfl rfl rfl rfl)
theorem peel_setTarget (n : Int) (h : Q k s x) : Q k s (x.setTarget n) := h.trans0 (Q.of_eq rfl rfl rfl rfl rfl rfl rfl)
theorem peel_ite (c : Prop) [Decidable c] {a b : Sess} (ha : Q k s a) (hb : Q k s b) : Q k s (if c then a else b) := by
  split <;> assumption
end peel

syntax "q_step" : tactic
macro_rules | `(tactic| q_step) => `(tactic| assumption)
macro_rules | `(tactic| q_step) => `(tactic| exact Q.refl _)
macro_rules | `(tactic| q_step) => `(tactic| apply peel_incrTarget)
macro_rules | `(tactic| q_step) => `(tactic| apply peel_doReject)
macro_rules | `(tactic| q_step) => `(tactic| apply peel_initiateLogout)
macro_rules | `(tactic| q_step) => `(tactic| apply peel_sendLogout)
macro_rules | `(tactic| q_step) => `(tactic| apply peel_sendInReplyTo _ (by with_unfolding_all rfl))
macro_rules | `(tactic| q_step) => `(tactic| apply peel_dropAndSend _ (by with_unfolding_all rfl))
macro_rules | `(tactic| q_step) => `(tactic| apply peel_enqueueAndSend _ (by with_unfolding_all rfl))
macro_rules | `(tactic| q_step) => `(tactic| apply peel_dropAndReset)
macro_rules | `(tactic| q_step) => `(tactic| apply peel_storeReset)
macro_rules | `(tactic| q_step) => `(tactic| apply peel_sendQueued)
macro_rules | `(tactic| q_step) => `(tactic| apply peel_sendLogonInReplyTo)
macro_rules | `(tactic| q_step) => `(tactic| apply peel_sendLogonRe)
macro_rules | `(tactic| q_step) => `(tactic| apply peel_setReplyLast)
macro_rules | `(tactic| q_step) => `(tactic| apply peel_emit _ (by with_unfolding_all rfl))
macro_rules | `(tactic| q_step) => `(tactic| apply peel_setHb)
macro_rules | `(tactic| q_step) => `(tactic| apply peel_setSentReset)
macro_rules | `(tactic| q_step) => `(tactic| apply peel_setTarget)
macro_rules | `(tactic| q_step) => `(tactic| apply peel_ite)

macro "q_peel" : tactic => `(tactic| with_reducible (repeat q_step))

macro "q_cases" : tactic => `(tactic| (
  (repeat' split)
  all_goals (try dsimp only)
  all_goals (repeat' split)
  all_goals (try dsimp only)
  all_goals (repeat' split)
  all_goals (try dsimp only)
  all_goals q_peel))

theorem q_doTargetTooLow (s : Sess) (m : InMsg) : Q 0 s (doTargetTooLow s m).1 := by
  unfold doTargetTooLow
  q_cases

/-! ## verification -/

theorem q_verifyAppImpl (s : Sess) (m : InMsg) : Q 0 s (verifyAppImpl s m).1 := by
  unfold verifyAppImpl
  split
  · exact Q.refl s
  · simp only []
    split <;> exact q_emit _ _ rfl

theorem q_verifySelect (s : Sess) (m : InMsg) (th tl ai : Bool) : Q 0 s (verifySelect s m th tl ai).1 := by
  unfold verifySelect
  repeat' split
  all_goals first | exact Q.refl s | exact q_verifyAppImpl s m

def Rej.isHigh : Rej → Bool
  | .tooHigh _ _ => true
  | _ => false

theorem verifyAppImpl_notHigh (s : Sess) (m : InMsg) (r : Rej) (h : (verifyAppImpl s m).2 = some r) : r.isHigh = false := by
  unfold verifyAppImpl at h
  split at h
  · rename_i r' hv
    simp only [Option.some.injEq] at h; subst h
    obtain ⟨_, _, rfl⟩ := validate_plain hv
    rfl
  · simp only [] at h
    unfold callbackVerdict at h
    split at h <;> first | (simp only [Option.some.injEq] at h; subst h; rfl) | cases h

theorem checkTooLow_notHigh (s : Sess) (m : InMsg) (r : Rej) (h : checkTooLow s m = some r) : r.isHigh = false := by
  unfold checkTooLow at h
  split at h
  · simp only [Option.some.injEq] at h; subst h; rfl
  · simp only [Option.some.injEq] at h; subst h; rfl
  · split at h
    · simp only [Option.some.injEq] at h; subst h; rfl
    · cases h

theorem checkBeginString_notHigh (s : Sess) (m : InMsg) (r : Rej) (h : checkBeginString s m = some r) : r.isHigh = false := by
  unfold checkBeginString at h
  split at h
  · simp only [Option.some.injEq] at h; subst h; rfl
  · split at h
    · simp only [Option.some.injEq] at h; subst h; rfl
    · cases h

theorem checkCompID_notHigh (s : Sess) (m : InMsg) (r : Rej) (h : checkCompID s m = some r) : r.isHigh = false := by
  unfold checkCompID at h
  split at h
  · simp only [Option.some.injEq] at h; subst h; rfl
  · simp only [Option.some.injEq] at h; subst h; rfl
  · repeat' split at h
    all_goals first | (simp only [Option.some.injEq] at h; subst h; rfl) | cases h

theorem checkSendingTime_notHigh (s : Sess) (m : InMsg) (r : Rej) (h : checkSendingTime s m = some r) : r.isHigh = false := by
  unfold checkSendingTime at h
  repeat' split at h
  all_goals first | (simp only [Option.some.injEq] at h; subst h; rfl) | cases h

/-- without the too-high gate the verification never reports a gap -/
theorem verifySelect_notHigh (s : Sess) (m : InMsg) (tl ai : Bool) (r : Rej)
    (h : (verifySelect s m false tl ai).2 = some r) : r.isHigh = false := by
  unfold verifySelect at h
  split at h
  · rename_i r' hc; simp only [Option.some.injEq] at h; subst h; exact checkBeginString_notHigh s m _ hc
  · split at h
    · rename_i r' hc; simp only [Option.some.injEq] at h; subst h; exact checkCompID_notHigh s m _ hc
    · split at h
      · rename_i r' hc; simp only [Option.some.injEq] at h; subst h
        split at hc
        · cases hc
        · exact checkSendingTime_notHigh s m _ hc
      · split at h
        · rename_i r' hc; simp only [Option.some.injEq] at h; subst h
          split at hc
          · exact checkTooLow_notHigh s m _ hc
          · cases hc
        · split at h
          · rename_i r' hc; simp at hc
          · split at h
            · exact verifyAppImpl_notHigh s m r h
            · cases h

theorem curResend_congr {s s' : Sess} (h1 : s'.st = s.st) (h2 : s'.cfg = s.cfg) : curResend s' = curResend s := by
  unfold curResend; rw [h1, h2]

theorem Q.curResend {k : Nat} {s s' : Sess} (h : Q k s s') : curResend s' = curResend s := curResend_congr h.st h.cfg

/-- budget of one inbound message: a gap found outside recovery may be answered by one ResendRequest -/
def K (s : Sess) : Nat := if (curResend s).isSome then 0 else 1

theorem Q.K {k : Nat} {s s' : Sess} (h : Q k s s') : K s' = K s := by unfold Sess.K; rw [h.curResend]

theorem q_processReject (s : Sess) (m : InMsg) (r : Rej) : Q (K s) s (processReject s m r).1 := by
  cases r with
  | tooHigh recv exp =>
    simp only [processReject]
    split
    · exact (Q.refl s).mono (Nat.zero_le _)
    · rename_i hc
      have := q_sendResendRequest s exp (recv - 1)
      generalize sendResendRequest s exp (recv - 1) = r at this
      obtain ⟨a, b, c⟩ := r
      simpa [K, hc] using this
  | tooLow a b => exact (q_doTargetTooLow s m).mono (Nat.zero_le _)
  | badBeginString => simp only [processReject]; exact (q_initiateLogout s).mono (Nat.zero_le _)
  | rejectLogon => simp only [processReject]; refine Q.mono (j := 0) ?_ (Nat.zero_le _); q_peel
  | plain a b c => simp only [processReject]; refine Q.mono (j := 0) ?_ (Nat.zero_le _); q_cases

theorem q_processReject_low (s : Sess) (m : InMsg) (r : Rej) (h : r.isHigh = false) : Q 0 s (processReject s m r).1 := by
  unfold processReject
  split
  · cases h
  · exact q_doTargetTooLow s m
  all_goals q_cases

theorem peel_processReject {s x : Sess} (m : InMsg) (r : Rej) (h : Q 0 s x) : Q (K s) s (processReject x m r).1 := by
  have := h.trans (q_processReject x m r)
  rw [h.K] at this; simpa using this

theorem peel_processReject_low {k : Nat} {s x : Sess} (m : InMsg) (r : Rej) (hr : r.isHigh = false) (h : Q k s x) :
    Q k s (processReject x m r).1 := h.trans0 (q_processReject_low x m r hr)

/-! ## handlers -/

theorem q_handleLogout (s : Sess) (m : InMsg) : Q 0 s (handleLogout s m).1 := by
  unfold handleLogout
  have hv := q_verifySelect s m false false true
  have hn := verifySelect_notHigh s m false true
  generalize verifySelect s m false false true = r at hv hn
  obtain ⟨s', o⟩ := r
  simp only [] at hv
  cases o with
  | some r => exact peel_processReject_low m r (hn r rfl) hv
  | none => dsimp only; q_cases

theorem q_handleTestRequest (s : Sess) (m : InMsg) : Q (K s) s (handleTestRequest s m).1 := by
  unfold handleTestRequest
  have hv := q_verifySelect s m true true true
  generalize verifySelect s m true true true = r at hv
  obtain ⟨s', o⟩ := r
  simp only [] at hv
  cases o with
  | some r => exact peel_processReject m r hv
  | none => dsimp only; refine Q.mono (j := 0) ?_ (Nat.zero_le _); q_cases

theorem q_handleSequenceReset_core (s : Sess) (m : InMsg) (gf : Bool) :
    Q (K s) s (match verifySelect s m gf gf true with
      | (s, some r) => processReject s m r
      | (s, none) =>
        match getInt m 36 with
        | .val n =>
          if n > s.store.target then ((s.setTarget n).emit (.setT n), SState.inSession)
          else if n < s.store.target then (doReject s m 5 none false, SState.inSession)
          else (s, SState.inSession)
        | _ => (s, SState.inSession)).1 := by
  have hv := q_verifySelect s m gf gf true
  generalize verifySelect s m gf gf true = r at hv
  obtain ⟨s', o⟩ := r
  simp only [] at hv
  cases o with
  | some r => exact peel_processReject m r hv
  | none => dsimp only; refine Q.mono (j := 0) ?_ (Nat.zero_le _); q_cases

theorem q_handleSequenceReset (s : Sess) (m : InMsg) : Q (K s) s (handleSequenceReset s m).1 := by
  unfold handleSequenceReset
  split
  · exact (q_processReject_low s m _ rfl).mono (Nat.zero_le _)
  · exact q_handleSequenceReset_core s m _

theorem rrK_resent (m : OutMsg) (h : ¬ isAdminKind m.kind = true) : rrK (resent m) = 0 := by
  have : (m.kind == "2") = false := by
    cases hk : (m.kind == "2")
    · rfl
    · exfalso; apply h; simp only [isAdminKind, hk, Bool.or_true, Bool.true_or]
  simp [rrK, isRR, resent, this]

theorem q_resendLoop (s : Sess) (a b : Int) (l : List (Int × OutMsg)) : Q 0 s (resendLoop s a b l).1 := by
  induction l generalizing s a b with
  | nil => exact Q.refl s
  | cons p rest ih =>
    obtain ⟨n, m⟩ := p
    simp only [resendLoop]
    split
    · exact ih s a (n + 1)
    · rename_i hk
      split
      · exact ih s a (n + 1)
      · try dsimp only
        have hr := rrK_resent m hk
        split
        · exact (peel_enqueueAndSend _ hr (peel_enqueueAndSend _ rfl (Q.refl s))).trans0 (ih _ _ _)
        · exact (peel_enqueueAndSend _ hr (Q.refl s)).trans0 (ih _ _ _)

theorem q_resendMessages (s : Sess) (b e : Int) : Q 0 s (resendMessages s b e) := by
  unfold resendMessages
  split
  · exact Q.refl s
  · split
    · exact peel_enqueueAndSend _ rfl (Q.refl s)
    · have hl := q_resendLoop s b b (s.store.range b e)
      generalize resendLoop s b b (s.store.range b e) = r at hl
      obtain ⟨s', x, y⟩ := r
      try dsimp only at hl ⊢
      split
      · exact peel_enqueueAndSend _ rfl hl
      · exact hl

theorem peel_resendMessages {k : Nat} {s x : Sess} (b e : Int) (h : Q k s x) : Q k s (resendMessages x b e) :=
  h.trans0 (q_resendMessages x b e)
macro_rules | `(tactic| q_step) => `(tactic| apply peel_resendMessages)

theorem q_handleResendRequest (s : Sess) (m : InMsg) : Q 0 s (handleResendRequest s m).1 := by
  unfold handleResendRequest
  have hv := q_verifySelect s m false false true
  have hn := verifySelect_notHigh s m false true
  generalize verifySelect s m false false true = r at hv hn
  obtain ⟨s', o⟩ := r
  simp only [] at hv
  cases o with
  | some r => exact peel_processReject_low m r (hn r rfl) hv
  | none =>
    dsimp only
    repeat' split
    all_goals (try dsimp only)
    all_goals first | exact peel_processReject_low m _ rfl hv | q_peel

theorem q_logonReply (s : Sess) (m : InMsg) (flag : Bool) : Q 0 s (logonReply s m flag) := by
  unfold logonReply
  q_cases

theorem q_nxEval (s : Sess) (m : InMsg) (ns : Int) : Q 0 s (nxEval s m ns).1 := by
  unfold nxEval
  q_cases

theorem q_logonFinish (s : Sess) (m : InMsg) (ns : Int) : Q 0 s (logonFinish s m ns).1 := by
  unfold logonFinish
  have h : Q 0 s (nxEval (((s.setSentReset false).emit (.armPeer (1200 * s.hb))).emit .onLogon) m ns).1 :=
    Q.trans0 (by q_peel) (q_nxEval _ m ns)
  generalize nxEval _ m ns = r at h
  obtain ⟨x, o⟩ := r
  cases o with
  | some r => exact h
  | none =>
    dsimp only at h ⊢
    q_cases

theorem q_logonRefused (s : Sess) (m : InMsg) : Q 0 s (logonRefused s m) := by
  unfold logonRefused
  q_cases

theorem q_logonTail (s : Sess) (m : InMsg) (ns : Int) : Q 0 s (logonTail s m ns).1 := by
  unfold logonTail
  split
  · exact q_logonRefused s m
  · exact (q_logonReply s m _).trans0 (q_logonFinish _ m _)

theorem q_handleLogon (s : Sess) (m : InMsg) : Q 0 s (handleLogon s m).1 := by
  unfold handleLogon
  split
  · exact Q.refl s
  · generalize hs1 : (if (!s.cfg.initiator && s.cfg.refreshOnLogon) = true then s.emit Obs.refresh else s) = s1
    have h1 : Q 0 s s1 := by rw [← hs1]; q_peel
    simp only []
    have hv := q_verifyAppImpl s1 m
    generalize verifyAppImpl s1 m = r at hv
    obtain ⟨s2, o⟩ := r
    simp only [] at hv
    have h2 := h1.trans0 hv
    cases o with
    | some r => exact h2
    | none =>
      simp only []
      generalize hs3 : (if ((if s2.cfg.initiator = true then false else s2.cfg.resetOnLogon) || logonResetFlag m && !s2.sentReset) = true
          then dropAndReset s2 else s2) = s3
      have h3 : Q 0 s s3 := by rw [← hs3]; q_peel
      have hv2 := q_verifySelect s3 m false true false
      generalize verifySelect s3 m false true false = r2 at hv2
      obtain ⟨s4, o2⟩ := r2
      simp only [] at hv2
      have h4 := h3.trans0 hv2
      cases o2 with
      | some r => exact h4
      | none => exact h4.trans0 (q_logonTail s4 m _)

theorem q_inSessionFixMsgIn (s : Sess) (m : InMsg) : Q (K s) s (inSessionFixMsgIn s m).1 := by
  unfold inSessionFixMsgIn
  simp only []
  split
  · have hl := q_handleLogon s m
    generalize handleLogon s m = r at hl
    obtain ⟨s', o⟩ := r
    refine Q.mono (j := 0) ?_ (Nat.zero_le _)
    cases o with
    | some e => exact hl.trans0 (by have := q_sendInReplyTo s' ((mkOut "5" []).inReplyTo m); exact this)
    | none => exact hl
  · split
    · exact (q_handleLogout s m).mono (Nat.zero_le _)
    · split
      · exact (q_handleResendRequest s m).mono (Nat.zero_le _)
      · split
        · exact q_handleSequenceReset s m
        · split
          · exact q_handleTestRequest s m
          · have hv := q_verifySelect s m true true true
            generalize verifySelect s m true true true = r at hv
            obtain ⟨s', o⟩ := r
            simp only [] at hv
            cases o with
            | some r => exact peel_processReject m r hv
            | none => dsimp only; refine Q.mono (j := 0) ?_ (Nat.zero_le _); q_peel

/-- inside a recovery no handler creates a ResendRequest -/
theorem q_inSessionFixMsgIn_rec (s : Sess) (m : InMsg) (h : (curResend s).isSome = true) : Q 0 s (inSessionFixMsgIn s m).1 := by
  have := q_inSessionFixMsgIn s m
  simpa [K, h] using this

theorem q_drainStash (fuel : Nat) (s : Sess) (stash : List (Int × InMsg)) (last : SState) (h : (curResend s).isSome = true) :
    Q 0 s (drainStash fuel s stash last).1 := by
  induction fuel generalizing s stash last with
  | zero => exact Q.refl s
  | succ n ih =>
    unfold drainStash
    split
    · exact Q.refl s
    · simp only []
      rename_i nn m _
      have h1 := q_inSessionFixMsgIn_rec s m h
      generalize inSessionFixMsgIn s m = r at h1
      obtain ⟨s', nx⟩ := r
      simp only [] at h1 ⊢
      split
      · exact h1
      · exact h1.trans0 (ih _ _ _ (by rw [h1.curResend]; exact h))

/-! ## exact results on the gap branch -/

theorem sendResendRequest_eq (s : Sess) (b e : Int) :
    sendResendRequest s b e = (sendInReplyTo s (rrMsg s.cfg b e), chunkCur s.cfg b e, e) := by
  unfold sendResendRequest rrMsg chunkEnd chunkCur
  by_cases hc : s.cfg.chunk = 0
  · simp [hc]
  · by_cases hlt : b + (s.cfg.chunk : Int) - 1 < e
    · simp [hc, hlt]
    · simp [hc, hlt]

theorem timeGate_none (s : Sess) (m : InMsg) (ht : (curResend s).isSome = true ∨ checkSendingTime s m = none) :
    (if (curResend s).isSome = true then none else checkSendingTime s m) = none := by
  rcases ht with h | h
  · simp [h]
  · simp [h]

theorem checkTooLow_ge (s : Sess) (m : InMsg) (n : Int) (hn : getInt m 34 = .val n) (h : s.store.target ≤ n) : checkTooLow s m = none := by
  unfold checkTooLow
  simp only [hn]
  split
  · omega
  · rfl

theorem checkTooHigh_gt (s : Sess) (m : InMsg) (n : Int) (hn : getInt m 34 = .val n) (h : n > s.store.target) :
    checkTooHigh s m = some (.tooHigh n s.store.target) := by
  unfold checkTooHigh
  simp only [hn, h, if_true]

theorem checkTooHigh_le (s : Sess) (m : InMsg) (n : Int) (hn : getInt m 34 = .val n) (h : n ≤ s.store.target) : checkTooHigh s m = none := by
  unfold checkTooHigh
  simp only [hn]
  split
  · omega
  · rfl

/-- a message that passes the identity/time gates with a number above the expected one: the pipeline reports the gap, nothing else happens -/
theorem verifySelect_high (s : Sess) (m : InMsg) (n : Int) (ai : Bool)
    (hb : checkBeginString s m = none) (hc : checkCompID s m = none)
    (ht : (curResend s).isSome = true ∨ checkSendingTime s m = none)
    (hn : getInt m 34 = .val n) (hgt : n > s.store.target) :
    verifySelect s m true true ai = (s, some (.tooHigh n s.store.target)) := by
  unfold verifySelect
  simp only [hb, hc, timeGate_none s m ht, if_true, checkTooLow_ge s m n hn (by omega), checkTooHigh_gt s m n hn hgt]

/-- … with the expected number: the pipeline goes on to the validator and the application -/
theorem verifySelect_exact (s : Sess) (m : InMsg) (ai : Bool)
    (hb : checkBeginString s m = none) (hc : checkCompID s m = none)
    (ht : (curResend s).isSome = true ∨ checkSendingTime s m = none)
    (hn : getInt m 34 = .val s.store.target) :
    verifySelect s m true true ai = if ai then verifyAppImpl s m else (s, none) := by
  unfold verifySelect
  simp only [hb, hc, timeGate_none s m ht, if_true, checkTooLow_ge s m _ hn (Int.le_refl _), checkTooHigh_le s m _ hn (Int.le_refl _)]

theorem inSessionFixMsgIn_high (s : Sess) (m : InMsg) (n : Int)
    (hb : checkBeginString s m = none) (hc : checkCompID s m = none)
    (ht : (curResend s).isSome = true ∨ checkSendingTime s m = none)
    (hk : SeqGated m) (hn : getInt m 34 = .val n) (hgt : n > s.store.target) :
    inSessionFixMsgIn s m = processReject s m (.tooHigh n s.store.target) := by
  have hv := verifySelect_high s m n true hb hc ht hn hgt
  unfold inSessionFixMsgIn
  have h1 : (kindOf m == "A") = false := by simpa using hk.notLogon
  have h2 : (kindOf m == "5") = false := by simpa using hk.notLogout
  have h3 : (kindOf m == "2") = false := by simpa using hk.notResend
  simp only [h1, h2, h3, Bool.false_eq_true, if_false]
  by_cases h4 : kindOf m = "4"
  · simp only [h4, beq_self_eq_true, if_true]
    unfold handleSequenceReset
    simp only [hk.gapFill h4, hv]
  · have h4' : (kindOf m == "4") = false := by simpa using h4
    simp only [h4', Bool.false_eq_true, if_false]
    by_cases h5 : kindOf m = "1"
    · simp only [h5, beq_self_eq_true, if_true]
      unfold handleTestRequest
      simp only [hv]
    · have h5' : (kindOf m == "1") = false := by simpa using h5
      simp only [h5', Bool.false_eq_true, if_false, hv]

theorem processReject_high_fresh (s : Sess) (m : InMsg) (n t : Int) (h : curResend s = none) :
    processReject s m (.tooHigh n t) =
      (sendInReplyTo s (rrMsg s.cfg t (n - 1)), .resend [(n, m)] (chunkCur s.cfg t (n - 1)) (n - 1)) := by
  simp only [processReject, h, sendResendRequest_eq, stashInsert, List.filter_nil]

theorem processReject_high_rec (s : Sess) (m : InMsg) (n t : Int) (st : List (Int × InMsg)) (c f : Int)
    (h : curResend s = some (st, c, f)) :
    processReject s m (.tooHigh n t) = (s, .resend (stashInsert st n m) c f) := by
  simp only [processReject, h]

/-! ## administrative replies in a logged-on state, field by field -/

theorem prep_admin (s : Sess) (m : OutMsg) (hk : isAdminKind m.kind = true) (hA : (m.kind == "A") = false) :
    prep s m = (some (numbered s m), s.persistOut s.store.sender (numbered s m)) := by
  unfold prep prepCore numbered
  simp only [stamp_kind, hk, hA, if_true, Bool.false_and, Bool.false_eq_true, if_false]

theorem sendInReplyTo_admin (s : Sess) (m : OutMsg) (hk : isAdminKind m.kind = true) (hA : (m.kind == "A") = false)
    (hl : s.st.loggedOn = true) :
    sendInReplyTo s m = sendQueued ((s.persistOut s.store.sender (numbered s m)).setToSend (s.toSend ++ [numbered s m])) := by
  unfold sendInReplyTo
  simp only [hl, Bool.not_true, Bool.false_eq_true, if_false, prep_admin s m hk hA]
  congr 1
  unfold Sess.persistOut; split <;> rfl

/-- a non-Logon administrative message sent from a logged-on state: numbered with the next outbound number, handed to the
    store, and written after everything already queued (or queued when there is no connection) -/
theorem adminSent (s : Sess) (m : OutMsg) (hk : isAdminKind m.kind = true) (hA : (m.kind == "A") = false)
    (hl : s.st.loggedOn = true) : AdminSent s m (sendInReplyTo s m) := by
  rw [sendInReplyTo_admin s m hk hA hl]
  unfold sendQueued Sess.persistOut
  by_cases hp : s.cfg.persist = true <;> by_cases ho : s.out = true <;>
    (constructor <;> simp [hp, ho, Sess.setToSend, Sess.emit, numbered, persistObs])

/-! ## lifting `fixMsgInCore` results to whole events -/

theorem connected_sessionTime (st : SState) (h : st.connected = true) : st.sessionTime = true := by
  cases st <;> simp_all [SState.connected, SState.sessionTime]

theorem loggedOn_connected (st : SState) (h : st.loggedOn = true) : st.connected = true := by
  cases st <;> simp_all [SState.connected, SState.loggedOn]

theorem checkSessionTime_noop (fuel : Nat) (s : Sess) (h : s.st.sessionTime = true) : checkSessionTime fuel s true true = s := by
  cases fuel with
  | zero => unfold checkSessionTime; rfl
  | succ n => unfold checkSessionTime; simp [h]

theorem setState_connected (fuel : Nat) (s : Sess) (next : SState) (h : next.connected = true) : setState fuel s next = s.setSt next := by
  cases fuel with
  | zero => unfold setState; rfl
  | succ n => unfold setState; simp [h]

theorem incoming_connected (fuel : Nat) (s : Sess) (m : InMsg) (hc : s.st.connected = true)
    (hnx : (fixMsgInCore s m).2.connected = true) :
    incoming (fuel + 1) s (some m) =
      ((fixMsgInCore s m).1.setSt (fixMsgInCore s m).2).emit (.armPeer (1200 * (fixMsgInCore s m).1.hb)) := by
  unfold incoming
  simp only [checkSessionTime_noop fuel s (connected_sessionTime _ hc), hc, Bool.not_true, Bool.false_eq_true, if_false]
  rw [setState_connected fuel _ _ hnx]
  rfl

theorem fuelOf_succ (s : Sess) : fuelOf s = (4 * s.inbox.length + 7) + 1 := rfl

/-- `Incoming` with a message on a connected session whose handler leaves it connected: the handler's result, the new
    state tag, and the peer timer re-armed last -/
theorem step_incoming (s : Sess) (m : InMsg) (hc : s.st.connected = true)
    (hnx : (fixMsgInCore s.clearLog m).2.connected = true) :
    step s (.incomingMsg (some m)) =
      ((((fixMsgInCore s.clearLog m).1.setSt (fixMsgInCore s.clearLog m).2).clearLog),
       (fixMsgInCore s.clearLog m).1.log.reverse ++ [.armPeer (1200 * (fixMsgInCore s.clearLog m).1.hb)], "ok") := by
  unfold step stepCore
  simp only [fuelOf_succ]
  rw [incoming_connected _ s.clearLog m hc hnx]
  simp [Sess.emit, Sess.clearLog, Sess.setSt]

theorem step_incoming_eq (s : Sess) (m : InMsg) (hc : s.st.connected = true) (r : Sess × SState)
    (hr : fixMsgInCore s.clearLog m = r) (hnx : r.2.connected = true) :
    step s (.incomingMsg (some m)) = ((r.1.setSt r.2).clearLog, r.1.log.reverse ++ [.armPeer (1200 * r.1.hb)], "ok") := by
  subst hr
  exact step_incoming s m hc hnx

/-! ## the recovery state: what happens after the in-session handler -/

theorem resendFixMsgIn_eq (s : Sess) (stash : List (Int × InMsg)) (cur fin : Int) (m : InMsg) :
    resendFixMsgIn s stash cur fin m =
      if !(inSessionFixMsgIn s m).2.loggedOn then inSessionFixMsgIn s m
      else resendBook (inSessionFixMsgIn s m).1 (inSessionFixMsgIn s m).2
            (sharedStash (inSessionFixMsgIn s m).1 (inSessionFixMsgIn s m).2 stash) cur fin m := by
  unfold resendFixMsgIn resendBook chunkPart drainPart sharedStash gapFillFlag
  generalize inSessionFixMsgIn s m = r
  obtain ⟨s', nx⟩ := r
  simp only []
  generalize getBool m 123 = g
  split
  · rfl
  · split
    · rfl
    · cases g <;> rfl

theorem chunkPart_eq (s : Sess) (stash : List (Int × InMsg)) (fin : Int) :
    chunkPart s stash fin =
      (sendInReplyTo s (rrMsg s.cfg s.store.target fin), .resend stash (chunkCur s.cfg s.store.target fin) fin) := by
  unfold chunkPart; rw [sendResendRequest_eq]

theorem q_drainPart (s : Sess) (nx : SState) (stash : List (Int × InMsg)) (h : (curResend s).isSome = true) :
    Q 0 s (drainPart s nx stash).1 := by
  unfold drainPart
  have := q_drainStash (stash.length + 1) s stash nx h
  generalize drainStash (stash.length + 1) s stash nx = r at this
  obtain ⟨a, b, c⟩ := r
  simp only []
  split <;> simp_all

/-- outcome of the recovery bookkeeping -/
inductive BookOut (s : Sess) (nx : SState) (stash : List (Int × InMsg)) (cur fin : Int) (m : InMsg) : Sess × SState → Prop
  | chunk (hc : cur ≠ 0) (hle : cur ≤ s.store.target) :
      BookOut s nx stash cur fin m
        (sendInReplyTo s (rrMsg s.cfg s.store.target fin), .resend stash (chunkCur s.cfg s.store.target fin) fin)
  | garbled (hg : getBool m 123 = .garbled) : BookOut s nx stash cur fin m (s, .latent)
  | stay (h1 : cur = 0 ∨ s.store.target ≤ cur) (h2 : s.store.target ≤ fin) : BookOut s nx stash cur fin m (s, .resend stash cur fin)
  | drain (h1 : cur = 0 ∨ s.store.target ≤ cur) (h2 : fin < s.store.target) : BookOut s nx stash cur fin m (drainPart s nx stash)

theorem resendBook_out (s : Sess) (nx : SState) (stash : List (Int × InMsg)) (cur fin : Int) (m : InMsg) :
    BookOut s nx stash cur fin m (resendBook s nx stash cur fin m) := by
  unfold resendBook
  by_cases h1 : (cur != 0 && decide (cur < s.store.target)) = true
  · rw [if_pos h1, chunkPart_eq]
    simp only [Bool.and_eq_true, bne_iff_ne, ne_eq, decide_eq_true_eq] at h1
    exact .chunk h1.1 (by omega)
  · rw [if_neg h1]
    have h1' : cur = 0 ∨ s.store.target ≤ cur := by
      simp only [Bool.and_eq_true, bne_iff_ne, ne_eq, decide_eq_true_eq, not_and, Int.not_lt] at h1
      by_cases hc : cur = 0
      · exact Or.inl hc
      · exact Or.inr (h1 hc)
    have key : BookOut s nx stash cur fin m
        (if (gapFillFlag m && cur != 0 && cur == s.store.target) = true then chunkPart s stash fin
         else if fin ≥ s.store.target then (s, .resend stash cur fin) else drainPart s nx stash) := by
      by_cases h2 : (gapFillFlag m && cur != 0 && cur == s.store.target) = true
      · rw [if_pos h2, chunkPart_eq]
        simp only [Bool.and_eq_true, bne_iff_ne, ne_eq, beq_iff_eq] at h2
        exact .chunk h2.1.2 (by omega)
      · rw [if_neg h2]
        by_cases h3 : fin ≥ s.store.target
        · rw [if_pos h3]; exact .stay h1' h3
        · rw [if_neg h3]; exact .drain h1' (by omega)
    cases hg : getBool m 123 with
    | garbled => exact .garbled hg
    | missing => exact key
    | val b => exact key

theorem fixMsgInCore_rec (s : Sess) (m : InMsg) (stash : List (Int × InMsg)) (cur fin : Int)
    (h : curResend s = some (stash, cur, fin)) : fixMsgInCore s m = resendFixMsgIn s stash cur fin m := by
  unfold curResend at h
  unfold fixMsgInCore
  split at h
  · rename_i st c f heq
    simp only [Option.some.injEq, Prod.mk.injEq] at h
    obtain ⟨rfl, rfl, rfl⟩ := h
    simp only [heq]
  · rename_i st c f heq
    split at h
    · simp only [Option.some.injEq, Prod.mk.injEq] at h
      obtain ⟨rfl, rfl, rfl⟩ := h
      simp only [heq]
    · cases h
  · cases h

/-- shape of one message processed in a recovery state: everything up to `s1` creates no ResendRequest; then possibly the
    request for the next chunk, beginning at the number expected at that moment -/
theorem resendFixMsgIn_shape (s : Sess) (stash : List (Int × InMsg)) (cur fin : Int) (m : InMsg)
    (h : (curResend s).isSome = true) :
    ∃ s1, Q 0 s s1 ∧
      ((resendFixMsgIn s stash cur fin m).1 = s1 ∨
       (cur ≠ 0 ∧ cur ≤ s1.store.target ∧ ∃ stash',
          resendFixMsgIn s stash cur fin m =
            (sendInReplyTo s1 (rrMsg s1.cfg s1.store.target fin), .resend stash' (chunkCur s1.cfg s1.store.target fin) fin))) := by
  rw [resendFixMsgIn_eq]
  have hq := q_inSessionFixMsgIn_rec s m h
  generalize inSessionFixMsgIn s m = r at hq
  obtain ⟨s', nx⟩ := r
  simp only [] at hq ⊢
  split
  · exact ⟨s', hq, Or.inl rfl⟩
  · have hb := resendBook_out s' nx (sharedStash s' nx stash) cur fin m
    generalize resendBook s' nx (sharedStash s' nx stash) cur fin m = out at hb
    cases hb with
    | chunk hc hle => exact ⟨s', hq, Or.inr ⟨hc, hle, _, rfl⟩⟩
    | garbled _ => exact ⟨s', hq, Or.inl rfl⟩
    | stay h1 h2 => exact ⟨s', hq, Or.inl rfl⟩
    | drain h1 h2 =>
      exact ⟨_, hq.trans0 (q_drainPart s' nx _ (by rw [hq.curResend]; exact h)), Or.inl rfl⟩

theorem q_resendFixMsgIn (s : Sess) (stash : List (Int × InMsg)) (cur fin : Int) (m : InMsg)
    (h : (curResend s).isSome = true) :
    Q (if cur ≠ 0 then 1 else 0) s (resendFixMsgIn s stash cur fin m).1 := by
  obtain ⟨s1, hq, hor⟩ := resendFixMsgIn_shape s stash cur fin m h
  rcases hor with h1 | ⟨hc, _, st', h2⟩
  · rw [h1]; exact hq.mono (Nat.zero_le _)
  · rw [h2]; simp only [hc, ne_eq, not_false_eq_true, if_true]
    have := hq.trans (q_sendInReplyTo s1 (rrMsg s1.cfg s1.store.target fin))
    simpa [rrK, rrMsg, isRR, mkOut] using this

/-! ## whole events with an empty inbound buffer -/

theorem drainIn_nil (fuel : Nat) (s : Sess) (h : s.inbox = []) : drainIn fuel s = s := by
  cases fuel with
  | zero => unfold drainIn; rfl
  | succ n => unfold drainIn; simp [h]

theorem discMid_inbox (s : Sess) : (discMid s).inbox = s.inbox := by
  unfold discMid
  simp only []
  repeat' split
  all_goals rfl

theorem rrCount_discMid (s : Sess) : rrCount (discMid s) ≤ rrCount s := by
  unfold discMid
  simp only []
  generalize hs1 : (if (s.st.loggedOn || match s.st with | .logout => true | .logon => s.cfg.initiator | _ => false) = true
    then s.emit Obs.onLogout else s) = s1
  have h1 : Q 0 s s1 := by rw [← hs1]; q_peel
  generalize hs2 : (if s1.cfg.resetOnDisconnect = true then dropAndReset s1 else s1) = s2
  have h2 : Q 0 s s2 := by rw [← hs2]; q_peel
  have := h2.rr
  split
  · have h3 : rrCount ((s2.setOut false).emit .closed) = rrCount s2 := by
      simp [rrCount, Sess.emit, Sess.setOut, wiresOf_cons_notWire _ _ (rfl : notWire .closed = true)]
    omega
  · omega

theorem rrCount_setState (fuel : Nat) (s : Sess) (nx : SState) (h : s.inbox = []) : rrCount (setState fuel s nx) ≤ rrCount s := by
  cases fuel with
  | zero => unfold setState; exact Nat.le_refl _
  | succ n =>
    unfold setState
    simp only []
    split
    · have key : rrCount (if s.st.connected = true then (drainIn n (discMid (drainIn n s))).closeInbox else s) ≤ rrCount s := by
        split
        · rw [drainIn_nil n s h, drainIn_nil n _ (by rw [discMid_inbox]; exact h)]
          exact rrCount_discMid s
        · exact Nat.le_refl _
      generalize (if s.st.connected = true then (drainIn n (discMid (drainIn n s))).closeInbox else s) = x at key
      split <;> exact key
    · exact Nat.le_refl _

theorem incoming_some (fuel : Nat) (s : Sess) (m : InMsg) (hc : s.st.connected = true) :
    incoming (fuel + 1) s (some m) =
      (setState fuel (fixMsgInCore s m).1 (fixMsgInCore s m).2).emit
        (.armPeer (1200 * (setState fuel (fixMsgInCore s m).1 (fixMsgInCore s m).2).hb)) := by
  unfold incoming
  simp only [checkSessionTime_noop fuel s (connected_sessionTime _ hc), hc, Bool.not_true, Bool.false_eq_true, if_false]

theorem rrAfter_step (s : Sess) (e : Ev) : rrAfter (step s e) = rrCount (stepCore s.clearLog e).1 := by
  simp [rrAfter, step, rrCount, wiresOf_reverse, Sess.clearLog]

theorem rrCount_clearLog (s : Sess) : rrCount s.clearLog = s.toSend.countP isRR := by
  simp [rrCount, Sess.clearLog, wiresOf]

/-- `Incoming(m)` in a recovery state with nothing buffered: at most the one next-chunk request, none at all when the
    whole rest was requested (`cur = 0`) -/
theorem rrAfter_incoming_rec (s : Sess) (m : InMsg) (stash : List (Int × InMsg)) (cur fin : Int)
    (h : curResend s = some (stash, cur, fin)) (hi : s.inbox = []) :
    rrAfter (step s (.incomingMsg (some m))) ≤ s.toSend.countP isRR + (if cur ≠ 0 then 1 else 0) := by
  rw [rrAfter_step]
  have hcs : curResend s.clearLog = some (stash, cur, fin) := h
  have hconn : s.clearLog.st.connected = true := by
    unfold curResend at hcs
    split at hcs <;> simp_all [SState.connected]
  have hq := q_resendFixMsgIn s.clearLog stash cur fin m (by rw [hcs]; rfl)
  rw [← fixMsgInCore_rec s.clearLog m stash cur fin hcs] at hq
  simp only [stepCore, fuelOf_succ]
  rw [incoming_some _ _ _ hconn]
  have h1 := rrCount_setState (4 * s.clearLog.inbox.length + 7) (fixMsgInCore s.clearLog m).1 (fixMsgInCore s.clearLog m).2
    (by rw [hq.inbox]; exact hi)
  have h2 := hq.rr
  rw [rrCount_clearLog] at h2
  generalize setState _ (fixMsgInCore s.clearLog m).1 (fixMsgInCore s.clearLog m).2 = x at h1 ⊢
  have h3 : rrCount (x.emit (.armPeer (1200 * x.hb))) = rrCount x := by
    simp [rrCount, Sess.emit, wiresOf_cons_notWire _ _ (rfl : notWire (.armPeer _) = true)]
  omega

theorem sharedStash_rec (s : Sess) (st' stash : List (Int × InMsg)) (c f : Int) (h : (curResend s).isSome = true) :
    sharedStash s (.resend st' c f) stash = st' := by
  unfold sharedStash
  cases hc : curResend s with
  | none => rw [hc] at h; cases h
  | some v => rfl

/-- a too-high message in a recovery state (recovery not yet complete: `target ≤ fin`): it is added to the stash; the
    session itself is untouched unless the current chunk has been satisfied, in which case the next chunk is requested -/
theorem resendFixMsgIn_high (s : Sess) (stash : List (Int × InMsg)) (cur fin : Int) (m : InMsg) (n : Int)
    (h : curResend s = some (stash, cur, fin))
    (hb : checkBeginString s m = none) (hc : checkCompID s m = none)
    (hk : SeqGated m) (hn : getInt m 34 = .val n) (hgt : n > s.store.target)
    (hg : getBool m 123 ≠ .garbled) (hfin : s.store.target ≤ fin) :
    resendFixMsgIn s stash cur fin m = (s, .resend (stashInsert stash n m) cur fin) ∨
    (cur ≠ 0 ∧ cur ≤ s.store.target ∧
      resendFixMsgIn s stash cur fin m =
        (sendInReplyTo s (rrMsg s.cfg s.store.target fin),
         .resend (stashInsert stash n m) (chunkCur s.cfg s.store.target fin) fin)) := by
  have hsome : (curResend s).isSome = true := by rw [h]; rfl
  rw [resendFixMsgIn_eq, inSessionFixMsgIn_high s m n hb hc (Or.inl hsome) hk hn hgt, processReject_high_rec s m n _ stash cur fin h]
  simp only [SState.loggedOn, Bool.not_true, Bool.false_eq_true, if_false, sharedStash_rec s _ stash cur fin hsome]
  have hbk := resendBook_out s (.resend (stashInsert stash n m) cur fin) (stashInsert stash n m) cur fin m
  generalize resendBook s (.resend (stashInsert stash n m) cur fin) (stashInsert stash n m) cur fin m = out at hbk
  cases hbk with
  | chunk hc hle => exact Or.inr ⟨hc, hle, rfl⟩
  | garbled hg' => exact absurd hg' hg
  | stay h1 h2 => exact Or.inl rfl
  | drain h1 h2 => omega

/-! ## in-sequence messages -/

theorem verifyAppImpl_clean (s : Sess) (m : InMsg) (hv : validate s.cfg m = none) :
    verifyAppImpl s m = (s.emit (cbObs s m), callbackVerdict m) := by
  unfold verifyAppImpl cbObs
  simp only [hv]
  split <;> rfl

/-- an in-sequence TestRequest that passes every gate: FromAdmin, the echo, the advance -/
theorem handleTestRequest_exact (s : Sess) (m : InMsg) (x : String)
    (hb : checkBeginString s m = none) (hc : checkCompID s m = none)
    (ht : (curResend s).isSome = true ∨ checkSendingTime s m = none)
    (hn : getInt m 34 = .val s.store.target) (hv : validate s.cfg m = none) (hcb : callbackVerdict m = none)
    (hx : m.f.get? 112 = some x) :
    handleTestRequest s m =
      (incrTarget (sendInReplyTo (s.emit (cbObs s m)) ((mkOut "0" [(112, x)]).inReplyTo m)), .inSession) := by
  unfold handleTestRequest
  rw [verifySelect_exact s m true hb hc ht hn]
  simp only [if_true, verifyAppImpl_clean s m hv, hcb, hx]

theorem inSessionFixMsgIn_testRequest (s : Sess) (m : InMsg) (x : String) (hk : kindOf m = "1")
    (hb : checkBeginString s m = none) (hc : checkCompID s m = none)
    (ht : (curResend s).isSome = true ∨ checkSendingTime s m = none)
    (hn : getInt m 34 = .val s.store.target) (hv : validate s.cfg m = none) (hcb : callbackVerdict m = none)
    (hx : m.f.get? 112 = some x) :
    inSessionFixMsgIn s m =
      (incrTarget (sendInReplyTo (s.emit (.fromAdmin "1" (seqText m))) ((mkOut "0" [(112, x)]).inReplyTo m)), .inSession) := by
  unfold inSessionFixMsgIn
  have e := handleTestRequest_exact s m x hb hc ht hn hv hcb hx
  have ecb : cbObs s m = .fromAdmin "1" (seqText m) := by simp [cbObs, hk, isAdminKind]
  rw [ecb] at e
  simp [hk, e]

/-- an in-sequence message of a plain kind that passes every gate and is accepted by the application: the callback, the advance -/
theorem inSessionFixMsgIn_plain (s : Sess) (m : InMsg) (hk : PlainKind m)
    (hb : checkBeginString s m = none) (hc : checkCompID s m = none)
    (ht : (curResend s).isSome = true ∨ checkSendingTime s m = none)
    (hn : getInt m 34 = .val s.store.target) (hv : validate s.cfg m = none) (hcb : callbackVerdict m = none) :
    inSessionFixMsgIn s m = (incrTarget (s.emit (cbObs s m)), .inSession) := by
  unfold inSessionFixMsgIn
  have h1 : (kindOf m == "A") = false := by simpa using hk.notLogon
  have h2 : (kindOf m == "5") = false := by simpa using hk.notLogout
  have h3 : (kindOf m == "2") = false := by simpa using hk.notResend
  have h4 : (kindOf m == "4") = false := by simpa using hk.notSeqReset
  have h5 : (kindOf m == "1") = false := by simpa using hk.notTestReq
  simp only [h1, h2, h3, h4, h5, Bool.false_eq_true, if_false, verifySelect_exact s m true hb hc ht hn, if_true,
    verifyAppImpl_clean s m hv, hcb]

/-! ## the gap found on the Logon -/

theorem kept_enqueueAndSend (s : Sess) (m : OutMsg) : Kept s (enqueueAndSend s m) := by
  unfold enqueueAndSend sendQueued
  simp only []
  repeat' split
  all_goals exact ⟨rfl, rfl, rfl⟩

theorem kept_nxEval (s : Sess) (m : InMsg) (ns : Int) : Kept s (nxEval s m ns).1 := by
  unfold nxEval
  repeat' split
  all_goals first | exact kept_enqueueAndSend s _ | exact ⟨rfl, rfl, rfl⟩

theorem logonFinish_high (s s' : Sess) (m : InMsg) (ns n t : Int) (hq : NxNoErr s.cfg)
    (h : logonFinish s m ns = (s', some (.rej (.tooHigh n t)))) :
    t = s'.store.target ∧ getInt m 34 = .val n ∧ n > t := by
  unfold logonFinish at h
  have he := nxEval_noErr (((s.setSentReset false).emit (.armPeer (1200 * s.hb))).emit .onLogon) m ns hq
  generalize nxEval _ m ns = r at h he
  obtain ⟨x, o⟩ := r
  simp only [] at he
  subst he
  simp only [] at h
  split at h
  · rename_i r' hc
    simp only [Prod.mk.injEq, Option.some.injEq, LogonErr.rej.injEq] at h
    obtain ⟨rfl, rfl⟩ := h
    unfold checkTooHigh at hc
    split at hc
    · cases hc
    · cases hc
    · rename_i n' hn
      split at hc
      · rename_i hgt
        simp only [Option.some.injEq, Rej.tooHigh.injEq] at hc
        obtain ⟨rfl, rfl⟩ := hc
        exact ⟨rfl, hn, hgt⟩
      · cases hc
  · simp at h

theorem logonTail_high (s s' : Sess) (m : InMsg) (ns n t : Int) (hq : NxNoErr s.cfg)
    (h : logonTail s m ns = (s', some (.rej (.tooHigh n t)))) :
    t = s'.store.target ∧ getInt m 34 = .val n ∧ n > t := by
  unfold logonTail at h
  split at h
  · simp at h
  · exact logonFinish_high _ s' m _ n t (by rw [(q_logonReply s m _).cfg]; exact hq) h

/-- the only way `handleLogon` reports a gap: the Logon was accepted, answered, the session notified, and its number is
    above the expected one.  `hq`: EnableNextExpectedMsgSeqNum off, or message persistence on — with the option and without
    persistence a peer's 789 different from our outbound number is reported by the same error, with `n` the peer's 789 and
    `t` our OUTBOUND number (`handleLogon_high_nx_nopersist` in Props/C04.lean) -/
theorem handleLogon_high (s s' : Sess) (m : InMsg) (n t : Int) (hq : NxNoErr s.cfg)
    (h : handleLogon s m = (s', some (.rej (.tooHigh n t)))) :
    t = s'.store.target ∧ getInt m 34 = .val n ∧ n > t := by
  unfold handleLogon at h
  split at h
  · simp at h
  · generalize hs1 : (if (!s.cfg.initiator && s.cfg.refreshOnLogon) = true then s.emit Obs.refresh else s) = s1 at h
    have h1 : Q 0 s s1 := by rw [← hs1]; q_peel
    simp only [] at h
    have hv := q_verifyAppImpl s1 m
    have hn1 := verifyAppImpl_notHigh s1 m
    generalize verifyAppImpl s1 m = r at hv hn1 h
    obtain ⟨s2, o⟩ := r
    simp only [] at hv hn1
    cases o with
    | some r =>
      simp only [Prod.mk.injEq, Option.some.injEq, LogonErr.rej.injEq] at h
      have := hn1 r rfl
      rw [h.2] at this; cases this
    | none =>
      simp only [] at h
      generalize hs3 : (if ((if s2.cfg.initiator = true then false else s2.cfg.resetOnLogon) || logonResetFlag m && !s2.sentReset) = true
          then dropAndReset s2 else s2) = s3 at h
      have h3 : Q 0 s s3 := by rw [← hs3]; exact (h1.trans0 hv).trans0 (by q_peel)
      have hv2 := q_verifySelect s3 m false true false
      have hn2 := verifySelect_notHigh s3 m true false
      generalize verifySelect s3 m false true false = r2 at hv2 hn2 h
      obtain ⟨s4, o2⟩ := r2
      simp only [] at hv2 hn2
      cases o2 with
      | some r =>
        simp only [Prod.mk.injEq, Option.some.injEq, LogonErr.rej.injEq] at h
        have := hn2 r rfl
        rw [h.2] at this; cases this
      | none =>
        simp only [] at h
        exact logonTail_high s4 s' m _ n t (by rw [(h3.trans0 hv2).cfg]; exact hq) h

/-- **Logon-detected gap**: the request for `[T, infinity]` (or the first chunk) is issued and the recovery state starts
    with an empty stash -/
theorem logonFixMsgIn_high (s s' : Sess) (m : InMsg) (n t : Int) (hk : kindOf m = "A") (hq : NxNoErr s.cfg)
    (h : handleLogon s m = (s', some (.rej (.tooHigh n t)))) :
    logonFixMsgIn s m = (sendInReplyTo s' (rrMsg s'.cfg s'.store.target (n - 1)), .resend [] (chunkCur s'.cfg s'.store.target (n - 1)) (n - 1)) := by
  obtain ⟨rfl, _, _⟩ := handleLogon_high s s' m n t hq h
  unfold logonFixMsgIn
  simp only [hk, bne_self_eq_false, Bool.false_eq_true, if_false, h, sendResendRequest_eq]

/-! the positive direction: a Logon that passes every check with a number above the expected one -/

theorem logonMsgX_noReset (s : Sess) (nx : Option Int) :
    ((logonMsgX s false nx).kind == "A" && (logonMsgX s false nx).f.get? 141 == some "Y") = false := by
  unfold logonMsgX mkOut Fields.get? nxTag
  cases nx <;> by_cases h : s.cfg.applVer.isEmpty = true <;> simp [h, List.find?]

theorem logonMsg_noReset (s : Sess) : ((logonMsg s false).kind == "A" && (logonMsg s false).f.get? 141 == some "Y") = false :=
  logonMsgX_noReset s _

theorem Kept.refl (s : Sess) : Kept s s := ⟨rfl, rfl, rfl⟩
theorem Kept.trans {a b c : Sess} (h1 : Kept a b) (h2 : Kept b c) : Kept a c :=
  ⟨h2.st.trans h1.st, h2.cfg.trans h1.cfg, h2.target.trans h1.target⟩

theorem kept_persistOut (s : Sess) (q : Int) (m : OutMsg) : Kept s (s.persistOut q m) := by
  unfold Sess.persistOut; split <;> exact ⟨rfl, rfl, rfl⟩

theorem kept_sendQueued (s : Sess) : Kept s (sendQueued s) := by
  unfold sendQueued; split <;> exact ⟨rfl, rfl, rfl⟩

/-- `dropAndSend` of a message for which the Logon-reset branch of `prepMessageForSend` is not taken -/
theorem kept_dropAndSend_noReset (s : Sess) (m : OutMsg) (hk : isAdminKind m.kind = true)
    (hn : (m.kind == "A" && m.f.get? 141 == some "Y") = false) : Kept s (dropAndSend s m) := by
  have hk' : isAdminKind (stamp s m).kind = true := by rw [stamp_kind]; exact hk
  have hn' : ((stamp s m).kind == "A" && (stamp s m).f.get? 141 == some "Y") = false := by rw [stamp_kind, stamp_f]; exact hn
  unfold dropAndSend prep prepCore
  generalize stamp s m = sm at hk' hn'
  simp only [hn', hk', if_true, Bool.false_eq_true, if_false]
  generalize ({ sm with seq := s.store.sender } : OutMsg) = om
  have h1 := kept_persistOut s s.store.sender om
  generalize s.persistOut s.store.sender om = sp at h1 ⊢
  have h2 : Kept sp (sp.setToSend [om]) := ⟨rfl, rfl, rfl⟩
  exact (h1.trans h2).trans (kept_sendQueued _)

theorem kept_sendLogonInReplyTo_noReset (s : Sess) : Kept s (sendLogonInReplyTo s false) :=
  kept_dropAndSend_noReset s _ rfl (logonMsg_noReset s)

theorem kept_sendLogonRe_noReset (s : Sess) (m : InMsg) : Kept s (sendLogonRe s false m) :=
  kept_dropAndSend_noReset s _ rfl (logonMsgX_noReset s _)

theorem kept_logonReply_noReset (s : Sess) (m : InMsg) : Kept s (logonReply s m false) := by
  unfold logonReply
  split
  · split
    · split
      · rename_i h' _
        exact Kept.trans (b := s.setHb h') ⟨rfl, rfl, rfl⟩ (kept_sendLogonRe_noReset _ m)
      · exact kept_sendLogonRe_noReset _ m
    · exact kept_sendLogonRe_noReset _ m
  · exact Kept.refl s

theorem checks_congr {s s' : Sess} (h : Kept s s') (m : InMsg) :
    checkBeginString s' m = checkBeginString s m ∧ checkCompID s' m = checkCompID s m ∧
    checkSendingTime s' m = checkSendingTime s m ∧ checkTooLow s' m = checkTooLow s m ∧
    checkTooHigh s' m = checkTooHigh s m ∧ curResend s' = curResend s := by
  refine ⟨?_, ?_, ?_, ?_, ?_, curResend_congr h.st h.cfg⟩
  · unfold checkBeginString; rw [h.cfg]
  · unfold checkCompID; rw [h.cfg]
  · unfold checkSendingTime; rw [h.cfg]
  · unfold checkTooLow; rw [h.target]
  · unfold checkTooHigh; rw [h.target]

/-- a Logon that passes the identity / time gates and is not below the expected number passes `verifySelect` -/
theorem verifySelect_logon_pass (s : Sess) (m : InMsg) (n : Int)
    (hb : checkBeginString s m = none) (hc : checkCompID s m = none)
    (ht : (curResend s).isSome = true ∨ checkSendingTime s m = none)
    (hn : getInt m 34 = .val n) (hge : s.store.target ≤ n) :
    verifySelect s m false true false = (s, none) := by
  unfold verifySelect
  simp only [hb, hc, timeGate_none s m ht, if_true, checkTooLow_ge s m n hn hge, Bool.false_eq_true, if_false]

/-- **the gap found on the Logon itself**: a Logon that the application accepts, that passes the gates and asks for no
    reset, carrying a number above the expected one: `handleLogon` answers it (acceptor), notifies, and reports the gap
    against the unchanged expected number -/
theorem handleLogon_gap (s : Sess) (m : InMsg) (n : Int)
    (hfixt : (s.cfg.bs == 5 && !(m.f.has 1137)) = false)
    (hv : validate s.cfg m = none) (hcb : callbackVerdict m = none)
    (hr1 : (if s.cfg.initiator then false else s.cfg.resetOnLogon) = false) (hr2 : logonResetFlag m = false)
    (hb : checkBeginString s m = none) (hc : checkCompID s m = none)
    (ht : (curResend s).isSome = true ∨ checkSendingTime s m = none)
    (hn : getInt m 34 = .val n) (hgt : n > s.store.target)
    (hnx : nxRefuses s m = false) (hq : NxNoErr s.cfg) :
    ∃ s', handleLogon s m = (s', some (.rej (.tooHigh n s.store.target))) ∧ Kept s s' := by
  unfold handleLogon
  simp only [hfixt, Bool.false_eq_true, if_false]
  generalize hs1 : (if (!s.cfg.initiator && s.cfg.refreshOnLogon) = true then s.emit Obs.refresh else s) = s1
  have k1 : Kept s s1 := by rw [← hs1]; split <;> exact ⟨rfl, rfl, rfl⟩
  have sr1 : s1.sentReset = s.sentReset := by rw [← hs1]; split <;> rfl
  simp only [verifyAppImpl_clean s1 m (by rw [k1.cfg]; exact hv), hcb]
  have k2 : Kept s (s1.emit (cbObs s1 m)) := k1.trans ⟨rfl, rfl, rfl⟩
  have hcond : ((if (s1.emit (cbObs s1 m)).cfg.initiator = true then false else (s1.emit (cbObs s1 m)).cfg.resetOnLogon) ||
      logonResetFlag m && !(s1.emit (cbObs s1 m)).sentReset) = false := by
    have : (s1.emit (cbObs s1 m)).cfg = s.cfg := k2.cfg
    rw [this, hr1, hr2]; rfl
  simp only [hcond, Bool.false_eq_true, if_false]
  obtain ⟨c1, c2, c3, c4, c5, c6⟩ := checks_congr k2 m
  rw [verifySelect_logon_pass _ m n (by rw [c1]; exact hb) (by rw [c2]; exact hc) (by rw [c6, c3]; exact ht) hn
    (by rw [k2.target]; omega)]
  have hst : (s1.emit (cbObs s1 m)).store = s.store := by rw [← hs1]; split <;> rfl
  have hnr : logonRefuses (s1.emit (cbObs s1 m)) m false = false := by
    have : nxRefuses (s1.emit (cbObs s1 m)) m = false := by
      unfold nxRefuses at hnx ⊢; rw [k2.cfg, hst]; exact hnx
    unfold logonRefuses; rw [this, Bool.and_false]
  unfold logonTail
  simp only [hr2, hnr, Bool.false_eq_true, if_false]
  have k3 := k2.trans (kept_logonReply_noReset (s1.emit (cbObs s1 m)) m)
  generalize logonReply (s1.emit (cbObs s1 m)) m false = s5 at k3
  generalize s.store.sender = ns
  unfold logonFinish
  have k4 : Kept s (nxEval (((s5.setSentReset false).emit (Obs.armPeer (1200 * s5.hb))).emit Obs.onLogon) m ns).1 :=
    (k3.trans (Kept.mk (s' := ((s5.setSentReset false).emit (Obs.armPeer (1200 * s5.hb))).emit Obs.onLogon) rfl rfl rfl)).trans
      (kept_nxEval _ m ns)
  have he := nxEval_noErr (((s5.setSentReset false).emit (Obs.armPeer (1200 * s5.hb))).emit Obs.onLogon) m ns
    (by show NxNoErr s5.cfg; rw [k3.cfg]; exact hq)
  generalize nxEval _ m ns = r at k4 he
  obtain ⟨x, o⟩ := r
  simp only [] at he k4
  subst he
  simp only []
  rw [checkTooHigh_gt _ m n hn (by rw [k4.target]; exact hgt)]
  exact ⟨_, by rw [k4.target], k4⟩

/-! ## the stash drain -/

theorem find_target {st : List (Int × InMsg)} {t n : Int} {m : InMsg} (h : st.find? (·.1 == t) = some (n, m)) :
    n = t ∧ (n, m) ∈ st ∧ (st.filter (·.1 != n)).length < st.length := by
  have h1 := List.find?_some h
  have h2 := List.mem_of_find?_eq_some h
  have hn : n = t := by simpa using h1
  refine ⟨hn, h2, ?_⟩
  rw [List.length_filter_lt_length_iff_exists]
  exact ⟨(n, m), h2, by simp⟩

/-- the drain stops only when the session was logged off by a stashed message or when no stashed message carries the
    expected number; everything it removed was processed in sequence -/
theorem drainStash_spec (fuel : Nat) (s : Sess) (stash : List (Int × InMsg)) (last : SState) (hf : stash.length < fuel) :
    Drained s stash (drainStash fuel s stash last).1 (drainStash fuel s stash last).2.2 ∧
    ((drainStash fuel s stash last).2.1.loggedOn = false ∨
     (drainStash fuel s stash last).2.2.find? (·.1 == (drainStash fuel s stash last).1.store.target) = none) := by
  induction fuel generalizing s stash last with
  | zero => omega
  | succ k ih =>
    unfold drainStash
    split
    · rename_i hnone
      exact ⟨.done s stash, Or.inr hnone⟩
    · rename_i n m hfind
      obtain ⟨hn, hmem, hlen⟩ := find_target hfind
      generalize hr : inSessionFixMsgIn s m = r
      obtain ⟨s1, nx⟩ := r
      dsimp only
      by_cases hl : (!nx.loggedOn) = true
      · rw [if_pos hl]
        refine ⟨.step n m hmem hn hr (.done _ _), Or.inl ?_⟩
        simpa using hl
      · rw [if_neg hl]
        obtain ⟨h1, h2⟩ := ih s1 (stash.filter (·.1 != n)) nx (by omega)
        exact ⟨.step n m hmem hn hr h1, h2⟩

/-- leaving recovery for normal operation: the triggering message was handled, then the stash was drained in sequence,
    and what is left of the stash holds no message with the expected number -/
theorem resendFixMsgIn_left (s : Sess) (stash : List (Int × InMsg)) (cur fin : Int) (m : InMsg)
    (hres : (resendFixMsgIn s stash cur fin m).2 = .inSession) :
    ∃ rest, Drained (inSessionFixMsgIn s m).1 (sharedStash (inSessionFixMsgIn s m).1 (inSessionFixMsgIn s m).2 stash)
        (resendFixMsgIn s stash cur fin m).1 rest ∧
      rest.find? (·.1 == (resendFixMsgIn s stash cur fin m).1.store.target) = none ∧
      fin < (inSessionFixMsgIn s m).1.store.target := by
  rw [resendFixMsgIn_eq] at hres ⊢
  generalize inSessionFixMsgIn s m = r at hres ⊢
  obtain ⟨s1, nx⟩ := r
  dsimp only at hres ⊢
  by_cases hl : (!nx.loggedOn) = true
  · rw [if_pos hl] at hres
    dsimp only at hres
    rw [hres] at hl; cases hl
  · rw [if_neg hl] at hres ⊢
    have hb := resendBook_out s1 nx (sharedStash s1 nx stash) cur fin m
    generalize resendBook s1 nx (sharedStash s1 nx stash) cur fin m = out at hb hres
    cases hb with
    | chunk _ _ => cases hres
    | garbled _ => cases hres
    | stay _ _ => cases hres
    | drain h1 h2 =>
      unfold drainPart at hres ⊢
      have hsp := drainStash_spec ((sharedStash s1 nx stash).length + 1) s1 (sharedStash s1 nx stash) nx (by omega)
      generalize drainStash ((sharedStash s1 nx stash).length + 1) s1 (sharedStash s1 nx stash) nx = d at hsp hres
      obtain ⟨s2, nx2, rest⟩ := d
      dsimp only at hsp hres ⊢
      cases nx2 with
      | resend a b c => cases hres
      | inSession =>
        refine ⟨rest, hsp.1, ?_, h2⟩
        rcases hsp.2 with h | h
        · cases h
        · exact h
      | _ => cases hres

/-! ## draining a contiguous run -/

theorem Clean.congr {s s' : Sess} {n : Int} {m : InMsg} (h : Clean s n m) (hc : s'.cfg = s.cfg) : Clean s' n m :=
  ⟨h.kind, by have := h.bs; unfold checkBeginString at this ⊢; rw [hc]; exact this,
   by have := h.comp; unfold checkCompID at this ⊢; rw [hc]; exact this, h.seq, by rw [hc]; exact h.valid, h.accepted⟩

theorem deliver_target (s : Sess) (m : InMsg) : (deliver s m).store.target = s.store.target + 1 := rfl
theorem deliver_cfg (s : Sess) (m : InMsg) : (deliver s m).cfg = s.cfg := rfl
theorem deliver_st (s : Sess) (m : InMsg) : (deliver s m).st = s.st := rfl

theorem inSessionFixMsgIn_clean (s : Sess) (m : InMsg) (h : Clean s s.store.target m)
    (ht : (curResend s).isSome = true ∨ checkSendingTime s m = none) :
    inSessionFixMsgIn s m = (deliver s m, .inSession) :=
  inSessionFixMsgIn_plain s m h.kind h.bs h.comp ht h.seq h.valid h.accepted

theorem drain_run (cnt : Nat) : ∀ (fuel : Nat) (s : Sess) (stash : List (Int × InMsg)) (last : SState),
    (curResend s).isSome = true →
    (∀ p ∈ stash, Clean s p.1 p.2) →
    (∀ p ∈ stash, s.store.target ≤ p.1 ∧ p.1 < s.store.target + cnt) →
    (∀ i : Nat, i < cnt → ∃ m, (s.store.target + i, m) ∈ stash) →
    stash.length < fuel →
    ∃ ms : List InMsg, ms.length = cnt ∧
      (∀ (i : Nat) (h : i < ms.length), (s.store.target + i, ms[i]) ∈ stash) ∧
      drainStash fuel s stash last = (ms.foldl deliver s, if cnt = 0 then last else .inSession, []) := by
  induction cnt with
  | zero =>
    intro fuel s stash last _ _ hrange _ hf
    have hnil : stash = [] := by
      apply List.eq_nil_iff_forall_not_mem.2
      intro p hp
      have := hrange p hp
      omega
    subst hnil
    refine ⟨[], rfl, ?_, ?_⟩
    · intro i h; cases h
    · cases fuel with
      | zero => cases hf
      | succ k => rfl
  | succ cnt ih =>
    intro fuel s stash last hcr hclean hrange hcover hf
    cases fuel with
    | zero => omega
    | succ k =>
      obtain ⟨m0, hm0⟩ := hcover 0 (by omega)
      have hsome : (stash.find? (·.1 == s.store.target)).isSome = true := by
        rw [List.find?_isSome]
        exact ⟨_, hm0, by simp⟩
      cases hfind : stash.find? (·.1 == s.store.target) with
      | none => rw [hfind] at hsome; cases hsome
      | some p =>
        obtain ⟨n, m⟩ := p
        obtain ⟨hn, hmem, hlen⟩ := find_target hfind
        subst hn
        have hcl : Clean s s.store.target m := hclean _ hmem
        have hproc := inSessionFixMsgIn_clean s m hcl (Or.inl hcr)
        have hcr' : (curResend (deliver s m)).isSome = true := by
          rw [curResend_congr (deliver_st s m) (deliver_cfg s m)]; exact hcr
        have hsub : ∀ p, p ∈ stash.filter (·.1 != s.store.target) → p ∈ stash ∧ p.1 ≠ s.store.target := by
          intro p hp
          simpa using hp
        obtain ⟨ms, hlenms, hidx, hdrain⟩ := ih k (deliver s m) (stash.filter (·.1 != s.store.target)) .inSession hcr'
          (by intro p hp; exact (hclean p (hsub p hp).1).congr (deliver_cfg s m))
          (by
            intro p hp
            have h1 := hrange p (hsub p hp).1
            have h2 := (hsub p hp).2
            rw [deliver_target]
            omega)
          (by
            intro i hi
            obtain ⟨mi, hmi⟩ := hcover (i + 1) (by omega)
            refine ⟨mi, ?_⟩
            rw [deliver_target]
            have e : s.store.target + 1 + (i : Int) = s.store.target + ((i + 1 : Nat) : Int) := by omega
            rw [e]
            simp only [List.mem_filter, bne_iff_ne, ne_eq]
            exact ⟨hmi, by omega⟩)
          (by omega)
        refine ⟨m :: ms, by simp [hlenms], ?_, ?_⟩
        · intro i h
          cases i with
          | zero => simpa using hmem
          | succ j =>
            have hj : j < ms.length := by simpa using h
            have := (hsub _ (hidx j hj)).1
            rw [deliver_target] at this
            have e : s.store.target + 1 + (j : Int) = s.store.target + ((j + 1 : Nat) : Int) := by omega
            rw [e] at this
            simpa using this
        · unfold drainStash
          simp only [hfind, hproc, SState.loggedOn, Bool.not_true, Bool.false_eq_true, if_false, hdrain, List.foldl_cons]
          simp

theorem foldl_deliver_target (ms : List InMsg) (s : Sess) : (ms.foldl deliver s).store.target = s.store.target + ms.length := by
  induction ms generalizing s with
  | nil => simp
  | cons m ms ih => simp only [List.foldl_cons, ih, deliver_target, List.length_cons]; omega

/-- **the last missing message arrives**: recovery state with everything requested (`cur = 0`), the message numbered
    `T = target ≥ fin` is clean, and the stash is the contiguous run `T+1 … T+cnt` of clean messages: the message and then
    the whole stash are delivered in order, the session is back in normal operation expecting `T+cnt+1` -/
theorem resend_complete (s : Sess) (stash : List (Int × InMsg)) (fin : Int) (m : InMsg) (cnt : Nat)
    (h : curResend s = some (stash, 0, fin))
    (hm : Clean s s.store.target m) (hg : getBool m 123 ≠ .garbled) (hfin : fin ≤ s.store.target)
    (hclean : ∀ p ∈ stash, Clean s p.1 p.2)
    (hrange : ∀ p ∈ stash, s.store.target + 1 ≤ p.1 ∧ p.1 < s.store.target + 1 + cnt)
    (hcover : ∀ i : Nat, i < cnt → ∃ mi, (s.store.target + 1 + i, mi) ∈ stash) :
    ∃ ms : List InMsg, ms.length = cnt ∧
      (∀ (i : Nat) (hi : i < ms.length), (s.store.target + 1 + i, ms[i]) ∈ stash) ∧
      fixMsgInCore s m = ((m :: ms).foldl deliver s, .inSession) := by
  have hcr : (curResend s).isSome = true := by rw [h]; rfl
  have hcr' : (curResend (deliver s m)).isSome = true := by
    rw [curResend_congr (deliver_st s m) (deliver_cfg s m)]; exact hcr
  obtain ⟨ms, hlen, hidx, hdrain⟩ := drain_run cnt (stash.length + 1) (deliver s m) stash .inSession hcr'
    (fun p hp => (hclean p hp).congr (deliver_cfg s m))
    (by intro p hp; rw [deliver_target]; exact hrange p hp)
    (by intro i hi; rw [deliver_target]; exact hcover i hi)
    (by omega)
  refine ⟨ms, hlen, by intro i hi; have := hidx i hi; rw [deliver_target] at this; exact this, ?_⟩
  rw [fixMsgInCore_rec s m stash 0 fin h, resendFixMsgIn_eq, inSessionFixMsgIn_clean s m hm (Or.inl hcr)]
  simp only [SState.loggedOn, Bool.not_true, Bool.false_eq_true, if_false]
  have hsh : sharedStash (deliver s m) .inSession stash = stash := rfl
  rw [hsh]
  have hb := resendBook_out (deliver s m) .inSession stash 0 fin m
  generalize resendBook (deliver s m) .inSession stash 0 fin m = out at hb
  cases hb with
  | chunk hc _ => exact absurd rfl hc
  | garbled hg' => exact absurd hg' hg
  | stay _ h2 => rw [deliver_target] at h2; omega
  | drain _ _ =>
    unfold drainPart
    rw [hdrain]
    simp only [List.foldl_cons]
    split <;> simp_all

theorem callbacks_deliver (s : Sess) (m : InMsg) :
    callbacks (deliver s m).log = callbacks s.log ++ [if isAdminKind (kindOf m) then Obs.fromAdmin (kindOf m) (seqText m) else Obs.fromApp (seqText m) s.store.target] := by
  unfold deliver incrTarget cbObs callbacks
  by_cases hk : isAdminKind (kindOf m) = true <;> simp [hk, Sess.emit, Sess.setTarget, List.filter_append]

theorem callbacks_foldl_deliver (ms : List InMsg) (s : Sess) :
    callbacks (ms.foldl deliver s).log = callbacks s.log ++ cbList s.store.target ms := by
  induction ms generalizing s with
  | nil => simp [cbList]
  | cons m ms ih =>
    simp only [List.foldl_cons, ih, callbacks_deliver, deliver_target, cbList, List.append_assoc, List.singleton_append]

/-! ## every event: ResendRequests are created only in reaction to inbound messages -/

theorem q_shutdownWithReason (s : Sess) (m : InMsg) (incr : Bool) : Q 0 s (shutdownWithReason s m incr).1 := by
  unfold shutdownWithReason
  dsimp only
  q_peel

theorem q_logonFixMsgIn (s : Sess) (m : InMsg) : Q 1 s (logonFixMsgIn s m).1 := by
  unfold logonFixMsgIn
  split
  · exact (Q.refl s).mono (Nat.zero_le _)
  · have hl := q_handleLogon s m
    generalize handleLogon s m = r at hl
    obtain ⟨s', o⟩ := r
    dsimp only at hl
    split
    all_goals (try dsimp only)
    all_goals first
      | (rename_i heq; cases heq; exact hl.mono (Nat.zero_le _))
      | (rename_i heq; cases heq; exact (hl.trans0 (q_shutdownWithReason _ m _)).mono (Nat.zero_le _))
      | (rename_i heq; cases heq; simpa using hl.trans (q_sendResendRequest _ _ _))
      | skip


theorem K_le_one (s : Sess) : K s ≤ 1 := by unfold K; split <;> omega

theorem q_fixMsgInCore (s : Sess) (m : InMsg) (hfix : s.cfg.lookThroughPending = true) : Q (inBudget s) s (fixMsgInCore s m).1 := by
  cases hst : s.st with
  | latent => simp only [fixMsgInCore, inBudget, curResend, hst]; exact (Q.refl s).mono (Nat.zero_le _)
  | notSessionTime => simp only [fixMsgInCore, inBudget, curResend, hst]; exact (Q.refl s).mono (Nat.zero_le _)
  | logon => simp only [fixMsgInCore, inBudget, curResend, hst]; exact q_logonFixMsgIn s m
  | logout =>
    simp only [fixMsgInCore, inBudget, curResend, hst]
    have h := (q_inSessionFixMsgIn s m).mono (K_le_one s)
    generalize inSessionFixMsgIn s m = r at h
    obtain ⟨s', nx⟩ := r
    dsimp only at h ⊢
    split <;> exact h
  | inSession => simp only [fixMsgInCore, inBudget, curResend, hst]; exact (q_inSessionFixMsgIn s m).mono (K_le_one s)
  | pendingIn => simp only [fixMsgInCore, inBudget, curResend, hst]; exact (q_inSessionFixMsgIn s m).mono (K_le_one s)
  | resend st c f =>
    have := q_resendFixMsgIn s st c f m (by simp [curResend, hst])
    simpa [fixMsgInCore, inBudget, curResend, hst] using this
  | pendingResend st c f =>
    have := q_resendFixMsgIn s st c f m (by simp [curResend, hst, hfix])
    simpa [fixMsgInCore, inBudget, curResend, hst, hfix] using this


theorem inBudget_le_one (s : Sess) : inBudget s ≤ 1 := by
  unfold inBudget
  split
  · split <;> omega
  · omega

theorem inbox_setState (fuel : Nat) (s : Sess) (nx : SState) (h : s.inbox = []) : (setState fuel s nx).inbox = [] := by
  cases fuel with
  | zero => unfold setState; exact h
  | succ n =>
    unfold setState
    dsimp only
    split
    · have key : (if s.st.connected = true then (drainIn n (discMid (drainIn n s))).closeInbox else s).inbox = [] := by
        split
        · rfl
        · exact h
      generalize (if s.st.connected = true then (drainIn n (discMid (drainIn n s))).closeInbox else s) = x at key
      split <;> exact key
    · exact h

/-- `s'` has no more ResendRequests written or queued than `s`, and still nothing buffered -/
structure NoNew (s s' : Sess) : Prop where
  rr : rrCount s' ≤ rrCount s
  inbox : s.inbox = [] → s'.inbox = []
  cfg : s'.cfg = s.cfg

theorem NoNew.refl (s : Sess) : NoNew s s := ⟨Nat.le_refl _, id, rfl⟩
theorem NoNew.trans {a b c : Sess} (h1 : NoNew a b) (h2 : NoNew b c) : NoNew a c :=
  ⟨Nat.le_trans h2.rr h1.rr, fun h => h2.inbox (h1.inbox h), h2.cfg.trans h1.cfg⟩
theorem Q.noNew {s s' : Sess} (h : Q 0 s s') : NoNew s s' := ⟨by simpa using h.rr, fun hi => by rw [h.inbox]; exact hi, h.cfg⟩

theorem discMid_cfg (s : Sess) : (discMid s).cfg = s.cfg := by
  unfold discMid
  dsimp only
  repeat' split
  all_goals rfl

theorem cfg_setState (fuel : Nat) (s : Sess) (nx : SState) (hi : s.inbox = []) : (setState fuel s nx).cfg = s.cfg := by
  cases fuel with
  | zero => unfold setState; rfl
  | succ n =>
    unfold setState
    dsimp only
    split
    · have key : (if s.st.connected = true then (drainIn n (discMid (drainIn n s))).closeInbox else s).cfg = s.cfg := by
        split
        · rw [drainIn_nil n s hi, drainIn_nil n _ (by rw [discMid_inbox]; exact hi)]
          exact discMid_cfg s
        · rfl
      generalize (if s.st.connected = true then (drainIn n (discMid (drainIn n s))).closeInbox else s) = x at key
      split <;> exact key
    · rfl

theorem noNew_setState (fuel : Nat) (s : Sess) (nx : SState) (hi : s.inbox = []) : NoNew s (setState fuel s nx) :=
  ⟨rrCount_setState fuel s nx hi, fun _ => inbox_setState fuel s nx hi, cfg_setState fuel s nx hi⟩

theorem noNew_checkSessionTime (fuel : Nat) (s : Sess) (a b : Bool) (hi : s.inbox = []) : NoNew s (checkSessionTime fuel s a b) := by
  cases fuel with
  | zero => unfold checkSessionTime; exact NoNew.refl s
  | succ n =>
    unfold checkSessionTime
    dsimp only
    split
    · have h1 : NoNew s (if s.st.loggedOn = true then sendLogout s else s) := by
        split
        · exact (q_sendLogout s).noNew
        · exact NoNew.refl s
      exact h1.trans (noNew_setState _ _ _ (h1.inbox hi))
    · have h1 : NoNew s (if (!s.st.sessionTime) = true then setState n s SState.latent else s) := by
        split
        · exact noNew_setState _ _ _ hi
        · exact NoNew.refl s
      generalize (if (!s.st.sessionTime) = true then setState n s SState.latent else s) = s1 at h1
      split
      · have h2 : NoNew s1 (if s1.st.loggedOn = true then sendLogout s1 else s1) := by
          split
          · exact (q_sendLogout s1).noNew
          · exact NoNew.refl s1
        generalize (if s1.st.loggedOn = true then sendLogout s1 else s1) = s2 at h2
        have h3 : NoNew s2 (dropAndReset s2) := (q_dropAndReset s2).noNew
        have h123 := (h1.trans h2).trans h3
        exact h123.trans (noNew_setState _ _ _ (h123.inbox hi))
      · exact h1

theorem q_inSessionTimeout (s : Sess) (e : TimerEv) : Q 0 s (inSessionTimeout s e).1 := by
  unfold inSessionTimeout
  q_cases

theorem q_timeoutCore (s : Sess) (e : TimerEv) : Q 0 s (timeoutCore s e).1 := by
  unfold timeoutCore
  have h := q_inSessionTimeout s e
  generalize inSessionTimeout s e = r at h
  obtain ⟨s', p⟩ := r
  split
  all_goals (try dsimp only at h ⊢)
  all_goals first | exact h | exact Q.refl s

theorem q_stopNext (s : Sess) : Q 0 s (stopNext s).1 := by
  unfold stopNext
  split
  all_goals (try dsimp only)
  all_goals first | exact q_initiateLogout s | exact Q.refl s

theorem noNew_connect (s : Sess) : NoNew s (connect s).1 := by
  unfold connect
  split
  · exact NoNew.refl s
  · split
    · dsimp only
      split
      · exact (q_dropAndReset s).noNew
      · exact NoNew.refl s
    · have h0 : NoNew s s.openConn := ⟨Nat.le_refl _, fun _ => rfl, rfl⟩
      dsimp only
      split
      · exact h0.trans ⟨Nat.le_refl _, id, rfl⟩
      · have h1 : Q 0 s.openConn (if s.openConn.cfg.refreshOnLogon = true then s.openConn.emit Obs.refresh else s.openConn) := by q_peel
        generalize (if s.openConn.cfg.refreshOnLogon = true then s.openConn.emit Obs.refresh else s.openConn) = s1 at h1
        have h2 : Q 0 s1 (if s1.cfg.resetOnLogon = true then dropAndReset s1 else s1) := by q_peel
        generalize (if s1.cfg.resetOnLogon = true then dropAndReset s1 else s1) = s2 at h2
        have h3 := q_sendLogonInReplyTo s2 (shouldSendReset s2)
        exact h0.trans (((h1.trans0 h2).trans0 h3).noNew.trans ⟨Nat.le_refl _, id, rfl⟩)


theorem st_setState (fuel : Nat) (s : Sess) (nx : SState) : (setState fuel s nx).st = nx := by
  cases fuel with
  | zero => unfold setState; rfl
  | succ n =>
    unfold setState
    dsimp only
    split
    · split <;> rfl
    · rfl

theorem noNew_emit (s : Sess) (o : Obs) (h : notWire o = true) : NoNew s (s.emit o) := (q_emit s o h).noNew

/-- `NoNew` with a budget -/
structure Grow (k : Nat) (s s' : Sess) : Prop where
  rr : rrCount s' ≤ rrCount s + k
  inbox : s.inbox = [] → s'.inbox = []
  cfg : s'.cfg = s.cfg

theorem NoNew.grow {s s' : Sess} (h : NoNew s s') (k : Nat) : Grow k s s' := ⟨by have := h.rr; omega, h.inbox, h.cfg⟩
theorem Grow.after {k : Nat} {a b c : Sess} (h1 : Grow k a b) (h2 : NoNew b c) : Grow k a c :=
  ⟨by have := h1.rr; have := h2.rr; omega, fun h => h2.inbox (h1.inbox h), h2.cfg.trans h1.cfg⟩
theorem NoNew.before {k : Nat} {a b c : Sess} (h1 : NoNew a b) (h2 : Grow k b c) : Grow k a c :=
  ⟨by have := h1.rr; have := h2.rr; omega, fun h => h2.inbox (h1.inbox h), h2.cfg.trans h1.cfg⟩
theorem Q.grow {k : Nat} {s s' : Sess} (h : Q k s s') : Grow k s s' := ⟨h.rr, fun hi => by rw [h.inbox]; exact hi, h.cfg⟩

theorem grow_incoming (fuel : Nat) (s : Sess) (m : InMsg) (hi : s.inbox = []) (hfix : s.cfg.lookThroughPending = true) :
    Grow (inBudget s) s (incoming (fuel + 1) s (some m)) := by
  by_cases hst : s.st.sessionTime = true
  · by_cases hc : s.st.connected = true
    · rw [incoming_some fuel s m hc]
      have hq := (q_fixMsgInCore s m hfix).grow
      have h1 := noNew_setState fuel (fixMsgInCore s m).1 (fixMsgInCore s m).2 (hq.inbox hi)
      generalize setState fuel (fixMsgInCore s m).1 (fixMsgInCore s m).2 = x at h1 ⊢
      exact (hq.after h1).after (noNew_emit x (.armPeer (1200 * x.hb)) rfl)
    · unfold incoming
      simp only [checkSessionTime_noop fuel s hst, hc, Bool.not_false, if_true]
      exact (NoNew.refl s).grow _
  · unfold incoming
    dsimp only
    have h0 := noNew_checkSessionTime fuel s true true hi
    have hst0 : (checkSessionTime fuel s true true).st.connected = false := by
      have hs : s.st = .notSessionTime := by
        cases h : s.st <;> simp_all [SState.sessionTime]
      cases fuel with
      | zero => unfold checkSessionTime; rw [hs]; rfl
      | succ n =>
        unfold checkSessionTime
        simp only [hs, SState.sessionTime, Bool.not_false, Bool.not_true, if_true, Bool.false_eq_true, if_false, st_setState]
        rfl
    generalize checkSessionTime fuel s true true = s0 at h0 hst0
    simp only [hst0, Bool.not_false, if_true]
    exact h0.grow _

theorem noNew_incoming_none (fuel : Nat) (s : Sess) (hi : s.inbox = []) : NoNew s (incoming fuel s none) := by
  cases fuel with
  | zero => unfold incoming; exact NoNew.refl s
  | succ n =>
    unfold incoming
    dsimp only
    have h0 := noNew_checkSessionTime n s true true hi
    generalize checkSessionTime n s true true = s0 at h0
    split
    · exact h0
    · exact h0.trans (noNew_emit s0 (.armPeer (1200 * s0.hb)) rfl)

theorem q_checkResetTime (s : Sess) (now : Int) : Q 0 s (checkResetTime s now) := by
  have hset : ∀ x : Sess, Q 0 x (x.setLastChecked now) := fun x => Q.of_eq rfl rfl rfl rfl rfl rfl rfl
  unfold checkResetTime
  repeat' split
  all_goals (try dsimp only)
  all_goals first
    | exact Q.refl _
    | exact hset _
    | exact (q_sendLogonInReplyTo _ _).trans0 (hset _)

/-- **every event, every state** (nothing buffered in the inbound channel, fixed code): the number of ResendRequests
    written or queued grows by at most the event's budget; the buffer stays empty unless the event is an arrival -/
theorem grow_stepCore (s : Sess) (e : Ev) (hi : s.inbox = []) (hfix : s.cfg.lookThroughPending = true)
    (hna : ∀ m, e ≠ .arrive m) : Grow (evBudget s e) s (stepCore s e).1 := by
  unfold stepCore
  cases e with
  | connect => exact (noNew_connect s).grow _
  | incomingMsg m =>
    cases m with
    | none => exact (noNew_incoming_none _ s hi).grow _
    | some m => dsimp only [evBudget]; rw [fuelOf_succ]; exact grow_incoming _ s m hi hfix
  | arrive m => exact absurd rfl (hna m)
  | pop =>
    dsimp only [evBudget]
    split
    · exact (NoNew.refl s).grow _
    · simp only [hi]; exact (NoNew.refl s).grow _
  | timeout ev =>
    dsimp only [evBudget]
    have h0 := noNew_checkSessionTime (fuelOf s) s true true hi
    generalize checkSessionTime (fuelOf s) s true true = s0 at h0
    have h1 := (q_timeoutCore s0 ev).noNew
    generalize timeoutCore s0 ev = r at h1
    obtain ⟨s1, nx⟩ := r
    dsimp only at h1 ⊢
    have h2 := noNew_setState (fuelOf s) s1 nx (h1.inbox (h0.inbox hi))
    exact ((h0.trans h1).trans h2).grow _
  | disconnected =>
    dsimp only [evBudget]
    split
    · exact (noNew_setState _ s _ hi).grow _
    · exact (NoNew.refl s).grow _
  | stop =>
    dsimp only [evBudget]
    have h0 : NoNew s s.setPendingStop := ⟨Nat.le_refl _, id, rfl⟩
    have h1 := (q_stopNext s.setPendingStop).noNew
    generalize stopNext s.setPendingStop = r at h1
    obtain ⟨s1, nx⟩ := r
    dsimp only at h1 ⊢
    have h2 := noNew_setState (fuelOf s) s1 nx (h1.inbox hi)
    exact ((h0.trans h1).trans h2).grow _
  | send m =>
    dsimp only [evBudget]
    have hq := (q_queueForSend s m).grow
    unfold queueForSend at hq
    generalize prep s m = r at hq
    obtain ⟨o, s'⟩ := r
    cases o with
    | none => exact hq
    | some m' => exact hq
  | flush =>
    dsimp only [evBudget]
    have h0 := noNew_checkSessionTime (fuelOf s) s true true hi
    generalize checkSessionTime (fuelOf s) s true true = s0 at h0
    split
    · exact (h0.trans (q_sendQueued s0).noNew).grow _
    · exact (h0.trans (q_clearQueue s0).noNew).grow _
  | sessionTime r sm => exact (noNew_checkSessionTime _ s r sm hi).grow _
  | resetTime now => exact (q_checkResetTime s now).noNew.grow _

theorem rrAfter_le (s : Sess) (e : Ev) (hi : s.inbox = []) (hfix : s.cfg.lookThroughPending = true) (hna : ∀ m, e ≠ .arrive m) :
    rrAfter (step s e) ≤ s.toSend.countP isRR + evBudget s e := by
  rw [rrAfter_step]
  have := (grow_stepCore s.clearLog e hi hfix hna).rr
  rw [rrCount_clearLog] at this
  exact this

theorem step_keeps (s : Sess) (e : Ev) (hi : s.inbox = []) (hfix : s.cfg.lookThroughPending = true) (hna : ∀ m, e ≠ .arrive m) :
    (step s e).1.inbox = [] ∧ (step s e).1.cfg.lookThroughPending = true := by
  have h := grow_stepCore s.clearLog e hi hfix hna
  exact ⟨h.inbox hi, by show (stepCore s.clearLog e).1.cfg.lookThroughPending = true; rw [h.cfg]; exact hfix⟩


/-! histories -/

theorem rr_history (evs : List Ev) : ∀ (s : Sess), s.inbox = [] → s.cfg.lookThroughPending = true →
    (∀ e ∈ evs, ∀ m, e ≠ .arrive m) →
    (wiresOf (histObs s evs)).countP isRR + (histEnd s evs).toSend.countP isRR ≤ s.toSend.countP isRR + histBudget s evs := by
  induction evs with
  | nil => intro s _ _ _; simp [histObs, histEnd, histBudget, wiresOf]
  | cons e es ih =>
    intro s hi hfix hna
    have hna' : ∀ m, e ≠ .arrive m := hna e (by simp)
    have h1 := rrAfter_le s e hi hfix hna'
    obtain ⟨hi', hfix'⟩ := step_keeps s e hi hfix hna'
    have h2 := ih (step s e).1 hi' hfix' (fun e' he' => hna e' (by simp [he']))
    simp only [histObs, histEnd, histBudget, wiresOf_append, List.countP_append]
    unfold rrAfter at h1
    omega


/-! ## concrete sessions for the non-vacuity checks (`#guard`s in Props) -/

def demoIn (cfg : Cfg) (kind : String) (seq : Int) (extra : Fields := []) : InMsg :=
  { f := [(8, bsName cfg.bs), (35, kind), (49, cfg.target), (56, cfg.sender), (34, toString seq), (52, "@0")] ++ extra }
def runEvs (s : Sess) (evs : List Ev) : Sess := evs.foldl (fun s e => (step s e).1) s
def obsOf (s : Sess) (evs : List Ev) : List Obs :=
  (evs.foldl (fun (p : Sess × List Obs) e => ((step p.1 e).1, p.2 ++ (step p.1 e).2.1)) (s, [])).2
/-- an acceptor after connect + Logon(1, 108=hb): normal operation, expecting 2, next outbound 2 -/
def demoUp (cfg : Cfg) (hb : String := "30") : Sess :=
  runEvs (initSess cfg 1 1) [.connect, .incomingMsg (some (demoIn cfg "A" 1 [(98, "0"), (108, hb)]))]
def isCallback : Obs → Bool
  | .fromApp _ _ | .fromAdmin _ _ => true
  | _ => false
def gotIs (g : Got Int) (n : Int) : Bool := match g with | .val v => v == n | _ => false
end Qfx.Sess
