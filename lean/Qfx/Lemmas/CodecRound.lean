/- C13: build, parse (no dictionary), GetGroup for a body group with a flat template -/
import Qfx.Lemmas.CodecWire
namespace Qfx
open Qfx.Spec

theorem tvs_split {fm : FieldMap} (hi : FMInv fm) (arr : List TagValue) (g : Tag) (f : Field)
    (hf : alFind fm.lookup g = some f) :
    ∃ a b : List Tag, g ∉ a ∧ g ∉ b ∧
      fm.tvs arr = (a.filterMap (alFind fm.lookup)).flatMap (Field.items arr) ++ f.items arr ++
        (b.filterMap (alFind fm.lookup)).flatMap (Field.items arr) := by
  have hmem : g ∈ sortTags fm.ord fm.tags := by
    rw [(sortTags_perm _ _).mem_iff, hi.same, mem_alKeys_iff, hf]; rfl
  obtain ⟨a, b, hab⟩ := List.append_of_mem hmem
  have hnd : (sortTags fm.ord fm.tags).Nodup := (sortTags_perm _ _).nodup_iff.2 hi.tagsNodup
  rw [hab] at hnd
  have hna : g ∉ a := by
    intro h
    have := (List.nodup_append.1 hnd).2.2 g h g (by simp)
    exact this rfl
  have hnb : g ∉ b := by
    have := (List.nodup_append.1 hnd).2.1
    rw [List.nodup_cons] at this; exact this.1
  refine ⟨a, b, hna, hnb, ?_⟩
  simp only [FieldMap.tvs, hab, List.filterMap_append, List.filterMap_cons, hf, List.flatMap_append, List.flatMap_cons,
    List.append_assoc]

theorem getElem?_append_cons_ne {α} (A Z : List α) (x y : α) (j : Nat) (h : (A ++ x :: Z)[j]? = some y) (hj : j ≠ A.length) :
    y ∈ A ∨ y ∈ Z := by
  rcases Nat.lt_or_ge j A.length with hlt | hge
  · rw [List.getElem?_append_left hlt] at h
    exact Or.inl (List.mem_of_getElem? h)
  · rw [List.getElem?_append_right hge] at h
    have : j - A.length ≠ 0 := by omega
    cases hk : j - A.length with
    | zero => exact absurd hk this
    | succ k =>
      rw [hk] at h
      simp only [List.getElem?_cons_succ] at h
      exact Or.inr (List.mem_of_getElem? h)


/-- a message whose body holds what `Write` emits for a group with a flat template, and no other TagValue of the message
    carries the group tag or a template tag -/
structure GroupIn (m : Message) (gtag d : Tag) (ts : List Tag) (es : List (List (Tag × Bytes))) : Prop where
  hg : alFind m.body.lookup gtag =
    some (.owned (countTV gtag es.length :: es.flatMap (fun e => serEntry (canon (d :: ts) e))))
  nodup : (d :: ts).Nodup
  entries : ∀ e ∈ es, (∀ p ∈ e, p.1 ∈ d :: ts) ∧ (latest e d).isSome = true
  small : es.length < 9223372036854775808
  gnot : gtag ∉ d :: ts
  gbody : secND gtag = .b
  no10 : (10 : Tag) ∉ d :: ts
  no9 : (9 : Tag) ∉ d :: ts
  others : ∀ s k l, alFind (m.sec s).lookup k = some (.owned l) → ¬ (s = .b ∧ k = gtag) →
    ∀ tv ∈ l, tv.tag ≠ gtag ∧ tv.tag ∉ d :: ts

theorem serEntry_tags (e : List (Tag × Bytes)) : ∀ tv ∈ serEntry e, ∃ p ∈ e, tv.tag = p.1 := by
  intro tv htv
  simp only [serEntry, List.mem_map] at htv
  obtain ⟨p, hp, rfl⟩ := htv
  exact ⟨p, hp, rfl⟩

theorem roundtrip_nodict_flat (fx : Fixes) (m : Message) (hb : Built m) (hw : Wired m) (tv8 : TagValue) (f35 : Field)
    (h8 : alFind m.header.lookup 8 = some (.owned [tv8])) (h35 : alFind m.header.lookup 35 = some f35)
    (gtag d : Tag) (ts : List Tag) (es : List (List (Tag × Bytes))) (hG : GroupIn m gtag d ts es)
    (bytes : Bytes) (m' : Message) (h : m.build Fixes.cur = .ok (bytes, m')) (hsmall : bytes.length < 9223372036854775808) :
    ∃ (p : Message) (f : Field) (gs : List GEntry),
      parseMessage fx Dicts.none bytes = .ok p ∧ alFind p.body.lookup gtag = some f ∧
      getGroup (flatTmpl (d :: ts)) (f.full p.fields) = .ok gs ∧ gs.length = es.length ∧
      ∀ (i : Nat) (e : List (Tag × Bytes)), es[i]? = some e → ∃ g : GEntry, gs[i]? = some g ∧
        ∀ t v, latest e t = some v → ∃ tail, alFind g.lookup t = some (TagValue.init t v :: tail) := by
  obtain ⟨t9, t35, restH, frontT, t10, hbytes, hwm, hbl, provH, provT, _⟩ := build_wire' m hb hw tv8 f35 h8 h35 bytes m' h hsmall
  obtain ⟨a, b, hna, hnb, hsplit⟩ := tvs_split hb.inv.b m.fields gtag _ hG.hg
  -- names
  let M := es.flatMap (fun e => serEntry (canon (d :: ts) e))
  let preB := (a.filterMap (alFind m.body.lookup)).flatMap (Field.items m.fields)
  let postB := (b.filterMap (alFind m.body.lookup)).flatMap (Field.items m.fields)
  have hBt : m.body.tvs m.fields = preB ++ (countTV gtag es.length :: M) ++ postB := hsplit
  -- tags of the members
  have hMtags : ∀ tv ∈ M, tv.tag ∈ d :: ts := by
    intro tv htv
    simp only [M, List.mem_flatMap] at htv
    obtain ⟨e, he, hm⟩ := htv
    obtain ⟨p, hp, hpt⟩ := serEntry_tags _ tv hm
    obtain ⟨t, v⟩ := p
    rw [hpt]; exact ((canon_mem (d :: ts) e t v).1 hp).1
  -- provenance: TagValues outside the group field
  have hother : ∀ (s : Sec) (k : Tag) (f : Field), alFind (m.sec s).lookup k = some f → ¬ (s = .b ∧ k = gtag) →
      ∀ tv ∈ f.items m.fields, tv.tag ≠ gtag ∧ tv.tag ∉ d :: ts := by
    intro s k f hf hne tv htv
    obtain ⟨l, hl⟩ := hb.secOwned s k f hf
    subst hl
    exact hG.others s k l hf hne tv htv
  have hsegB : ∀ (ks : List Tag), gtag ∉ ks → ∀ tv ∈ (ks.filterMap (alFind m.body.lookup)).flatMap (Field.items m.fields),
      tv.tag ≠ gtag ∧ tv.tag ∉ d :: ts := by
    intro ks hks
    apply tvs_of_tags m.fields m.body.lookup ks (fun tv => tv.tag ≠ gtag ∧ tv.tag ∉ d :: ts)
    intro t ht f hf tv htv
    exact hother .b t f hf (fun hc => hks (hc.2 ▸ ht)) tv htv
  have hH : ∀ tv ∈ t35 :: restH, tv.tag ≠ gtag ∧ tv.tag ∉ d :: ts := by
    intro tv htv
    obtain ⟨k, f, hf, hm⟩ := provH tv htv
    exact hother .h k f hf (fun hc => by cases hc.1) tv hm
  have hT : ∀ tv ∈ frontT, tv.tag ≠ gtag ∧ tv.tag ∉ d :: ts := by
    intro tv htv
    obtain ⟨k, f, hf, hm, _⟩ := provT tv htv
    exact hother .t k f hf (fun hc => by cases hc.1) tv hm
  have g8 : tv8.tag ≠ gtag ∧ tv8.tag ∉ d :: ts := hother .h 8 _ h8 (fun hc => by cases hc.1) tv8 (by simp [Field.items])
  have gns : gtag ≠ 9 ∧ gtag ≠ 10 := by
    have : secND gtag = .b := hG.gbody
    constructor
    · intro e; rw [e] at this; exact absurd this (by decide)
    · intro e; rw [e] at this; exact absurd this (by decide)
  -- the list split at the NumInGroup field
  let A := tv8 :: t9 :: t35 :: (restH ++ preB)
  let Z := postB ++ frontT ++ [t10]
  have hL : tv8 :: t9 :: t35 :: ((restH ++ m.body.tvs m.fields ++ frontT) ++ [t10]) = A ++ countTV gtag es.length :: (M ++ Z) := by
    rw [hBt]; simp [A, Z, List.append_assoc]
  have hA : ∀ tv ∈ A, tv.tag ≠ gtag := by
    intro tv htv
    simp only [A, List.mem_cons, List.mem_append] at htv
    rcases htv with e | e | e | e | e
    · subst e; exact g8.1
    · subst e; rw [hwm.tag9]; exact fun e => gns.1 e.symm
    · subst e; exact (hH tv (by simp)).1
    · exact (hH tv (by simp [e])).1
    · exact (hsegB a hna tv e).1
  have hZ : ∀ tv ∈ Z, tv.tag ≠ gtag ∧ tv.tag ∉ d :: ts := by
    intro tv htv
    simp only [Z, List.mem_append, List.mem_singleton] at htv
    rcases htv with (e | e) | e
    · exact hsegB b hnb tv e
    · exact hT tv e
    · subst e; rw [hwm.tag10]; exact ⟨fun e => gns.2 e.symm, hG.no10⟩
  have hMg : ∀ tv ∈ M, tv.tag ≠ gtag := fun tv htv e => hG.gnot (e ▸ hMtags tv htv)
  -- the parse
  have hparse := parse_wire_nodict fx tv8 t9 t35 _ t10 hwm hbl
  rw [← hbytes] at hparse
  -- position and uniqueness of the NumInGroup field
  have hj : (tv8 :: t9 :: t35 :: ((restH ++ m.body.tvs m.fields ++ frontT) ++ [t10]))[A.length]? = some (countTV gtag es.length) := by
    rw [hL, List.getElem?_append_right (Nat.le_refl _)]; simp
  have huniq : ∀ j' tv', (tv8 :: t9 :: t35 :: ((restH ++ m.body.tvs m.fields ++ frontT) ++ [t10]))[j']? = some tv' → j' ≠ A.length →
      tv'.tag ≠ (countTV gtag es.length).tag := by
    intro j' tv' hj' hne
    rw [hL] at hj'
    rcases getElem?_append_cons_ne A (M ++ Z) _ tv' j' hj' hne with hm | hm
    · exact hA tv' hm
    · rcases List.mem_append.1 hm with hm | hm
      · exact hMg tv' hm
      · exact (hZ tv' hm).1
  have hfind := ndFinal_find tv8 t9 t35 _ t10 hwm A.length (countTV gtag es.length) hj huniq
  have htagc : (countTV gtag es.length).tag = gtag := rfl
  rw [htagc, hG.gbody] at hfind
  -- read the group back
  have hes' : ∀ e ∈ es.map (canon (d :: ts)), EntryOK d (d :: ts) e := by
    intro e he
    obtain ⟨e0, he0, rfl⟩ := List.mem_map.1 he
    exact canon_entryOK d ts hG.nodup e0 (hG.entries e0 he0).2
  have hfollow : FollowerOK (d :: ts) Z := by
    intro f r hfr
    exact (hZ f (by rw [hfr]; simp)).2
  have hfm : (es.map (canon (d :: ts))).flatMap serEntry = M := by simp only [M, List.flatMap_map]
  have hlen : (es.map (canon (d :: ts))).length = es.length := by simp
  have hfull : (Field.view A.length 1).full (tv8 :: t9 :: t35 :: ((restH ++ m.body.tvs m.fields ++ frontT) ++ [t10])) =
      countTV gtag (es.map (canon (d :: ts))).length :: ((es.map (canon (d :: ts))).flatMap serEntry ++ Z) := by
    rw [hL, hlen, hfm]; simp [Field.full]
  have hfuel : readFuel (countTV gtag (es.map (canon (d :: ts))).length :: ((es.map (canon (d :: ts))).flatMap serEntry ++ Z)) ≥
      stepsOf (es.map (canon (d :: ts))) + 3 := by
    have := flatMap_serEntry_length (es.map (canon (d :: ts)))
    simp [readFuel, this]; omega
  have hread := readGroup_flat gtag d ts Z hfollow (es.map (canon (d :: ts))) hes' (by rw [hlen]; exact hG.small) _ hfuel
  refine ⟨_, .view A.length 1, readSpec Z (es.map (canon (d :: ts))), hparse, hfind, ?_, by rw [readSpec_length, hlen], ?_⟩
  · show getGroup _ ((Field.view A.length 1).full (tv8 :: t9 :: t35 :: ((restH ++ m.body.tvs m.fields ++ frontT) ++ [t10]))) = _
    rw [hfull]; simp only [getGroup, hread]
  · intro i e hi
    obtain ⟨g, hg, _, hfd⟩ := readSpec_entry d ts Z (es.map (canon (d :: ts))) hes' i (canon (d :: ts) e) (by simp [hi])
    refine ⟨g, hg, ?_⟩
    intro t v hl
    have hm : t ∈ d :: ts := (hG.entries e (List.mem_of_getElem? hi)).1 _ (latest_mem e t v hl)
    exact hfd ((canon_tags_sublist (d :: ts) e).nodup hG.nodup) t v ((canon_mem (d :: ts) e t v).2 ⟨hm, hl⟩)


/-- `SetGroup` of a group built by plain setter calls stores exactly what `Write` emits: count, then per entry the template
    tags that were set, in template order, with their latest values -/
theorem setGroup_stores (m m' : Message) (gtag d : Tag) (ts : List Tag) (hts : (d :: ts).Nodup) (es : List (List (Tag × Bytes)))
    (hes : ∀ e ∈ es, ∀ p ∈ e, p.1 ∈ d :: ts)
    (h : m.setGroup .b gtag (flatTmpl (d :: ts)) (es.map fldsOf) = .ok m') :
    alFind m'.body.lookup gtag = some (.owned (countTV gtag es.length :: es.flatMap (fun e => serEntry (canon (d :: ts) e)))) := by
  have hw := writeEntries_flat (d :: ts) hts es hes
  simp only [Message.setGroup, writeGroup, hw, List.length_map] at h
  injection h with h
  subst h
  simp only [Message.withSec, Message.sec, FieldMap.setGroup]
  exact alFind_insert_self _ _ _


/-- THE TRIP THROUGH THE WIRE FOR ANY GROUP FIELD (no dictionary): whatever TagValues `count :: M` the body holds under a
    body tag `gtag` that no other TagValue of the message carries — after `build` and `ParseMessage` the parsed body maps
    `gtag` to a field whose full extent is `count :: M ++ Z`, where every TagValue of `Z` is the CheckSum or comes from
    another field of the message -/
theorem trip_nodict_group_field (fx : Fixes) (m : Message) (hb : Built m) (hw : Wired m) (tv8 : TagValue) (f35 : Field)
    (h8 : alFind m.header.lookup 8 = some (.owned [tv8])) (h35 : alFind m.header.lookup 35 = some f35)
    (gtag : Tag) (g0 : TagValue) (M : List TagValue)
    (hg : alFind m.body.lookup gtag = some (.owned (g0 :: M))) (hg0 : g0.tag = gtag) (gbody : secND gtag = .b)
    (hMg : ∀ tv ∈ M, tv.tag ≠ gtag)
    (others : ∀ s k l, alFind (m.sec s).lookup k = some (.owned l) → ¬ (s = .b ∧ k = gtag) → ∀ tv ∈ l, tv.tag ≠ gtag)
    (bytes : Bytes) (m' : Message) (h : m.build Fixes.cur = .ok (bytes, m')) (hsmall : bytes.length < 9223372036854775808) :
    ∃ (p : Message) (f : Field) (Z : List TagValue),
      parseMessage fx Dicts.none bytes = .ok p ∧ alFind p.body.lookup gtag = some f ∧
      f.full p.fields = g0 :: (M ++ Z) ∧
      ∀ tv ∈ Z, tv.tag = 10 ∨ ∃ s k l, alFind (m.sec s).lookup k = some (.owned l) ∧ ¬ (s = .b ∧ k = gtag) ∧ tv ∈ l := by
  obtain ⟨t9, t35, restH, frontT, t10, hbytes, hwm, hbl, provH, provT, _⟩ := build_wire' m hb hw tv8 f35 h8 h35 bytes m' h hsmall
  obtain ⟨a, b, hna, hnb, hsplit⟩ := tvs_split hb.inv.b m.fields gtag _ hg
  let preB := (a.filterMap (alFind m.body.lookup)).flatMap (Field.items m.fields)
  let postB := (b.filterMap (alFind m.body.lookup)).flatMap (Field.items m.fields)
  have hBt : m.body.tvs m.fields = preB ++ (g0 :: M) ++ postB := hsplit
  -- provenance of TagValues outside the group field
  have prov : ∀ (s : Sec) (k : Tag) (f : Field), alFind (m.sec s).lookup k = some f → ∀ tv ∈ f.items m.fields,
      ∃ l, alFind (m.sec s).lookup k = some (.owned l) ∧ tv ∈ l := by
    intro s k f hf tv htv
    obtain ⟨l, hl⟩ := hb.secOwned s k f hf
    subst hl
    exact ⟨l, hf, htv⟩
  have hsegB : ∀ (ks : List Tag), gtag ∉ ks → ∀ tv ∈ (ks.filterMap (alFind m.body.lookup)).flatMap (Field.items m.fields),
      ∃ s k l, alFind (m.sec s).lookup k = some (.owned l) ∧ ¬ (s = .b ∧ k = gtag) ∧ tv ∈ l := by
    intro ks hks
    apply tvs_of_tags m.fields m.body.lookup ks
      (fun tv => ∃ s k l, alFind (m.sec s).lookup k = some (.owned l) ∧ ¬ (s = .b ∧ k = gtag) ∧ tv ∈ l)
    intro t ht f hf tv htv
    obtain ⟨l, hl, hm⟩ := prov .b t f hf tv htv
    exact ⟨.b, t, l, hl, (fun hc => hks (hc.2 ▸ ht)), hm⟩
  have hH : ∀ tv ∈ t35 :: restH, ∃ s k l, alFind (m.sec s).lookup k = some (.owned l) ∧ ¬ (s = .b ∧ k = gtag) ∧ tv ∈ l := by
    intro tv htv
    obtain ⟨k, f, hf, hm⟩ := provH tv htv
    obtain ⟨l, hl, hml⟩ := prov .h k f hf tv hm
    exact ⟨.h, k, l, hl, (fun hc => by cases hc.1), hml⟩
  have hT : ∀ tv ∈ frontT, ∃ s k l, alFind (m.sec s).lookup k = some (.owned l) ∧ ¬ (s = .b ∧ k = gtag) ∧ tv ∈ l := by
    intro tv htv
    obtain ⟨k, f, hf, hm, _⟩ := provT tv htv
    obtain ⟨l, hl, hml⟩ := prov .t k f hf tv hm
    exact ⟨.t, k, l, hl, (fun hc => by cases hc.1), hml⟩
  have tagOf : ∀ tv, (∃ s k l, alFind (m.sec s).lookup k = some (.owned l) ∧ ¬ (s = .b ∧ k = gtag) ∧ tv ∈ l) → tv.tag ≠ gtag := by
    intro tv ⟨s, k, l, hl, hne, hm⟩; exact others s k l hl hne tv hm
  have g8 : tv8.tag ≠ gtag := others .h 8 _ h8 (fun hc => by cases hc.1) tv8 (by simp)
  have gns : gtag ≠ 9 ∧ gtag ≠ 10 := by
    constructor
    · intro e; rw [e] at gbody; exact absurd gbody (by decide)
    · intro e; rw [e] at gbody; exact absurd gbody (by decide)
  let A := tv8 :: t9 :: t35 :: (restH ++ preB)
  let Z := postB ++ frontT ++ [t10]
  have hL : tv8 :: t9 :: t35 :: ((restH ++ m.body.tvs m.fields ++ frontT) ++ [t10]) = A ++ g0 :: (M ++ Z) := by
    rw [hBt]; simp [A, Z, List.append_assoc]
  have hA : ∀ tv ∈ A, tv.tag ≠ gtag := by
    intro tv htv
    simp only [A, List.mem_cons, List.mem_append] at htv
    rcases htv with e | e | e | e | e
    · subst e; exact g8
    · subst e; rw [hwm.tag9]; exact fun e => gns.1 e.symm
    · subst e; exact tagOf tv (hH tv (by simp))
    · exact tagOf tv (hH tv (by simp [e]))
    · exact tagOf tv (hsegB a hna tv e)
  have hZ : ∀ tv ∈ Z, tv.tag = 10 ∨ ∃ s k l, alFind (m.sec s).lookup k = some (.owned l) ∧ ¬ (s = .b ∧ k = gtag) ∧ tv ∈ l := by
    intro tv htv
    simp only [Z, List.mem_append, List.mem_singleton] at htv
    rcases htv with (e | e) | e
    · exact Or.inr (hsegB b hnb tv e)
    · exact Or.inr (hT tv e)
    · subst e; exact Or.inl hwm.tag10
  have hZg : ∀ tv ∈ Z, tv.tag ≠ gtag := by
    intro tv htv
    rcases hZ tv htv with e | e
    · rw [e]; exact fun e' => gns.2 e'.symm
    · exact tagOf tv e
  have hparse := parse_wire_nodict fx tv8 t9 t35 _ t10 hwm hbl
  rw [← hbytes] at hparse
  have hj : (tv8 :: t9 :: t35 :: ((restH ++ m.body.tvs m.fields ++ frontT) ++ [t10]))[A.length]? = some g0 := by
    rw [hL, List.getElem?_append_right (Nat.le_refl _)]; simp
  have huniq : ∀ j' tv', (tv8 :: t9 :: t35 :: ((restH ++ m.body.tvs m.fields ++ frontT) ++ [t10]))[j']? = some tv' → j' ≠ A.length →
      tv'.tag ≠ g0.tag := by
    intro j' tv' hj' hne
    rw [hL] at hj'
    rw [hg0]
    rcases getElem?_append_cons_ne A (M ++ Z) _ tv' j' hj' hne with hm | hm
    · exact hA tv' hm
    · rcases List.mem_append.1 hm with hm | hm
      · exact hMg tv' hm
      · exact hZg tv' hm
  have hfind := ndFinal_find tv8 t9 t35 _ t10 hwm A.length g0 hj huniq
  rw [hg0, gbody] at hfind
  refine ⟨_, .view A.length 1, Z, hparse, hfind, ?_, hZ⟩
  show (Field.view A.length 1).full (tv8 :: t9 :: t35 :: ((restH ++ m.body.tvs m.fields ++ frontT) ++ [t10])) = _
  rw [hL]; simp [Field.full]


end Qfx
