/-
  Lemmas for C08, fourth part: disconnecting (`discMid`, `setState`), the mutual recursion
  setState / drainIn / incoming / checkSessionTime by induction on fuel (with the fuel bound that makes the first
  drain of a disconnect complete), connect, and one whole event.
-/
import Qfx.Lemmas.SessC08c
namespace Qfx.Sess
open Qfx

/-! ## 11. disconnecting -/

theorem setState_connected (fuel : Nat) (s : Sess) (next : SState) (h : next.connected = true) :
    setState fuel s next = s.setSt next := by
  cases fuel with
  | zero => rfl
  | succ n => unfold setState; simp [h]

theorem c8o_onLogout (g : G8) : c8o g .onLogout = { g with cb := false, notified := true, ok := g.ok && !g.notified } := rfl
theorem c8o_closed (g : G8) : c8o g .closed = { g with conn := false, ok := g.ok && !g.cb } := rfl

/-- the ghost state after the middle part of a disconnect: nothing violated, notification flag down, no connection -/
def Down (g : G8) (s : Sess) : Prop := g.ok = true ∧ g.cb = false ∧ g.conn = false ∧ s.out = false

theorem discMid_down (g0 : G8) (s : Sess) (hW : WK g0 s) : Down (g8Of g0 (discMid s)) (discMid s) := by
  unfold discMid
  simp only []
  -- 1. the logout notification
  generalize hd : (s.st.loggedOn || match s.st with | SState.logout => true | SState.logon => s.cfg.initiator | x => false) = d
  generalize hs1 : (if d = true then s.emit Obs.onLogout else s) = s1
  have h1 : (g8Of g0 s1).ok = true ∧ (g8Of g0 s1).cb = false ∧ (g8Of g0 s1).conn = s1.out := by
    unfold WK at hW
    rw [← hs1]
    cases hdv : d
    · simp only [Bool.false_eq_true, if_false]
      refine ⟨hW.ok, ?_, hW.conn⟩
      rw [hW.cb]
      rw [hdv] at hd
      cases hst : s.st <;> simp_all [SState.loggedOn, SState.isLogout]
    · simp only [if_true]
      rw [g8Of_emit, c8o_onLogout]
      have hn : (g8Of g0 s).notified = false := by
        apply hW.notif
        rw [hdv] at hd
        cases hst : s.st <;> simp_all [SState.loggedOn, SState.isLogout, SState.isLogon]
      refine ⟨by simp [hW.ok, hn], rfl, hW.conn⟩
  -- 2. reset on disconnect
  generalize hs2 : (if s1.cfg.resetOnDisconnect = true then dropAndReset s1 else s1) = s2
  have h2 : (g8Of g0 s2).ok = true ∧ (g8Of g0 s2).cb = false ∧ (g8Of g0 s2).conn = s2.out := by
    rw [← hs2]
    split
    · have : g8Of g0 (dropAndReset s1) = g8Of g0 s1 := by
        show g8Of g0 ((s1.setToSend []).storeReset) = g8Of g0 s1
        rw [(sil_storeReset _).g8 g0]; rfl
      rw [this]; exact h1
    · exact h1
  -- 3. close
  split
  · rw [g8Of_emit, c8o_closed]
    have e : g8Of g0 (s2.setOut false) = g8Of g0 s2 := rfl
    rw [e]
    refine ⟨?_, h2.2.1, rfl, rfl⟩
    show ((g8Of g0 s2).ok && !(g8Of g0 s2).cb) = true
    rw [h2.1, h2.2.1]; rfl
  · rename_i ho
    have ho' : s2.out = false := by simpa using ho
    exact ⟨h2.1, h2.2.1, by rw [h2.2.2, ho'], ho'⟩

/-- from `Down`, any non-connected state gives the strong invariant -/
theorem Down.S {g : G8} {s : Sess} (h : Down g s) (st : SState) (hc : st.connected = false) : S g (s.setSt st) := by
  obtain ⟨h1, h2, h3, h4⟩ := h
  have hcls : (st.loggedOn || st.isLogon || st.isLogout) = false := by rw [← SState.connected_eq]; exact hc
  have hl : st.loggedOn = false := by cases hh : st.loggedOn <;> simp_all
  have hlo : st.isLogout = false := by cases hh : st.isLogout <;> simp_all
  have hli : st.isLogon = false := by cases hh : st.isLogon <;> simp_all
  refine ⟨{ ok := h1, conn := (by rw [h3]; exact h4.symm), cb := (by show g.cb = (st.loggedOn || st.isLogout); rw [h2, hl, hlo]; rfl),
            hs := (fun hcb => by rw [h2] at hcb; cases hcb),
            notif := (fun hh => by have : (st.loggedOn || st.isLogon || st.isLogout) = true := hh; rw [hcls] at this; cases this),
            fresh := (fun ho => by have : s.out = true := ho; rw [h4] at this; cases this),
            queue := (fun ho => by have : s.out = true := ho; rw [h4] at this; cases this),
            noconn := fun _ => h4 }, ?_⟩
  intro ho
  have : s.out = true := ho
  rw [h4] at this; cases this

/-- a state that is not connected: replacing it by another one that is not connected keeps the strong invariant -/
theorem W.toDown {g : G8} {s : Sess} (h : W g s) (hc : s.st.connected = false) : Down g s := by
  have hcls : (s.st.loggedOn || s.st.isLogon || s.st.isLogout) = false := by rw [← SState.connected_eq]; exact hc
  have hl : s.st.loggedOn = false := by cases hh : s.st.loggedOn <;> simp_all
  have hlo : s.st.isLogout = false := by cases hh : s.st.isLogout <;> simp_all
  have ho := h.noconn hcls
  exact ⟨h.ok, by rw [h.cb, hl, hlo]; rfl, by rw [h.conn, ho], ho⟩

theorem Down.congr {g : G8} {s r : Sess} (h : Down g s) (ho : r.out = s.out) : Down g r :=
  ⟨h.1, h.2.1, h.2.2.1, by rw [ho]; exact h.2.2.2⟩

/-! ## 12. the mutual recursion -/

theorem WK.congr {g0 : G8} {s r : Sess} (h : WK g0 s) (hlog : r.log = s.log) (h1 : r.st = s.st) (h4 : r.out = s.out)
    (h5 : r.cfg = s.cfg) (h6 : r.toSend = s.toSend) : WK g0 r := by
  unfold WK at *
  have : g8Of g0 r = g8Of g0 s := by unfold g8Of; rw [hlog]
  rw [this]
  exact W.congr h (by rw [h1]) (by rw [h1]) (by rw [h1]) h4 h5 h6
theorem SK.congr {g0 : G8} {s r : Sess} (h : SK g0 s) (hlog : r.log = s.log) (h1 : r.st = s.st) (h4 : r.out = s.out)
    (h5 : r.cfg = s.cfg) (h6 : r.toSend = s.toSend) : SK g0 r := by
  unfold SK at *
  have : g8Of g0 r = g8Of g0 s := by unfold g8Of; rw [hlog]
  rw [this]
  exact S.congr h (by rw [h1]) (by rw [h1]) (by rw [h1]) h4 h5 h6

/-- the end of a disconnect, once the first drain has left nothing pending -/
theorem setState_down (g0 : G8) (n : Nat) (s : Sess) (next : SState) (hn : next.connected = false) (hc : s.st.connected = true)
    (hD : WK g0 (drainIn n s)) (hp : pend (drainIn n s) = 0) : SK g0 (setState (n + 1) s next) := by
  unfold setState
  simp only [hn, Bool.not_false, if_true, hc]
  have hd := discMid_down g0 _ hD
  have hp2 : pend (discMid (drainIn n s)) = 0 := by rw [pend_discMid]; exact hp
  rw [drainIn_idle n _ hp2]
  generalize discMid (drainIn n s) = d at hd
  unfold SK
  split
  · exact (hd.congr (r := d.closeInbox.setStopped) rfl).S next hn
  · exact (hd.congr (r := d.closeInbox) rfl).S next hn

theorem setState_idle (g0 : G8) (n : Nat) (s : Sess) (next : SState) (hn : next.connected = false) (hc : s.st.connected = false)
    (hW : WK g0 s) : SK g0 (setState (n + 1) s next) := by
  unfold setState
  simp only [hn, Bool.not_false, if_true, hc, Bool.false_eq_true, if_false]
  have hd : Down (g8Of g0 s) s := W.toDown hW hc
  unfold SK
  split
  · exact (hd.congr (r := s.setStopped) rfl).S next hn
  · exact hd.S next hn

theorem c8_mutual (g0 : G8) : ∀ fuel : Nat,
    (∀ s next, next.connected = false → 4 * pend s + 2 ≤ fuel → WK g0 s → SK g0 (setState fuel s next)) ∧
    (∀ s, 4 * pend s + 1 ≤ fuel → WK g0 s → WK g0 (drainIn fuel s)) ∧
    (∀ s m, 4 * pend s + 4 ≤ fuel → (WK g0 s → WK g0 (incoming fuel s m)) ∧ (SK g0 s → SK g0 (incoming fuel s m))) ∧
    (∀ s a b, 4 * pend s + 3 ≤ fuel →
      (WK g0 s → WK g0 (checkSessionTime fuel s a b)) ∧ (SK g0 s → SK g0 (checkSessionTime fuel s a b))) := by
  intro fuel
  induction fuel with
  | zero =>
    refine ⟨?_, ?_, ?_, ?_⟩
    · intro s next _ hf; omega
    · intro s _ h; unfold drainIn; exact h
    · intro s m hf; omega
    · intro s a b hf; omega
  | succ n ih =>
    obtain ⟨ihS, ihD, ihI, ihC⟩ := ih
    have hPM := pend_mutual n
    refine ⟨?_, ?_, ?_, ?_⟩
    · -- setState
      intro s next hn hf hW
      cases hc : s.st.connected
      · exact setState_idle g0 n s next hn hc hW
      · exact setState_down g0 n s next hn hc (ihD s (by omega) hW) (drainIn_complete n s (by omega))
    · -- drainIn
      intro s hf hW
      unfold drainIn
      cases ho : s.inboxOpen
      · exact hW
      · cases hib : s.inbox with
        | nil => exact hW
        | cons m rest =>
          simp only [Bool.not_true, Bool.false_eq_true, if_false]
          have hp : pend (s.setInbox rest) + 1 = pend s := by simp [pend, Sess.setInbox, hib, ho]
          have h1 := (ihI (s.setInbox rest) (some m) (by omega)).1 (hW.congr rfl rfl rfl rfl rfl)
          have h2 := hPM.2.2.1 (s.setInbox rest) (some m)
          exact ihD _ (by omega) h1
    · -- incoming
      intro s m hf
      unfold incoming
      simp only []
      have hC := ihC s true true (by omega)
      have hpC := hPM.2.2.2 s true true
      generalize checkSessionTime n s true true = s1 at hC hpC
      split
      · exact hC
      · cases m with
        | none =>
          exact ⟨fun h => (hC.1 h).sil (Sil.emit _ _ rfl), fun h => (hC.2 h).sil (Sil.emit _ _ rfl)⟩
        | some m =>
          simp only []
          have hT := t8_fixMsgInCore g0 s1 m
          have hpf := (fr_fixMsgInCore s1 m).pend
          generalize fixMsgInCore s1 m = r at hT hpf
          obtain ⟨s2, nx⟩ := r
          dsimp only at hT hpf ⊢
          cases hnx : nx.connected
          · have hw : WK g0 s1 → SK g0 (setState n s2 nx) := fun h => by
              have := hT.w h
              simp only [hnx, Bool.false_eq_true, if_false] at this
              exact ihS s2 nx hnx (by omega) this
            exact ⟨fun h => ((hw (hC.1 h)).sil (Sil.emit _ _ rfl)).1, fun h => (hw (hC.2 h).1).sil (Sil.emit _ _ rfl)⟩
          · rw [setState_connected n s2 nx hnx]
            refine ⟨fun h => ?_, fun h => ?_⟩
            · have := hT.w (hC.1 h)
              simp only [hnx, if_true] at this
              exact this.sil (Sil.emit _ _ rfl)
            · have := hT.st (hC.2 h)
              simp only [hnx, if_true] at this
              exact this.sil (Sil.emit _ _ rfl)
    · -- checkSessionTime
      intro s a b hf
      unfold checkSessionTime
      simp only []
      have hlogout : ∀ x : Sess, P false g0 x (if x.st.loggedOn = true then sendLogout x else x) := by
        intro x
        split
        · rename_i hl
          exact qpeel_sendLogout (SState.loggedOn_not_logon _ hl) (P.refl _ _ _)
        · exact P.refl _ _ _
      split
      · have hp := hlogout s
        have hw : WK g0 s → SK g0 (setState n (if s.st.loggedOn = true then sendLogout s else s) .notSessionTime) := fun h =>
          ihS _ _ rfl (by rw [hp.fr.pend]; omega) (hp.w h)
        exact ⟨fun h => (hw h).1, fun h => hw h.1⟩
      · generalize hx : (if (!s.st.sessionTime) = true then setState n s SState.latent else s) = x
        have hxp : pend x ≤ pend s := by
          rw [← hx]; split
          · exact hPM.1 s _
          · exact Nat.le_refl _
        have hxW : (WK g0 s → WK g0 x) ∧ (SK g0 s → SK g0 x) := by
          rw [← hx]; split
          · have hw : WK g0 s → SK g0 (setState n s .latent) := fun h => ihS s _ rfl (by omega) h
            exact ⟨fun h => (hw h).1, fun h => hw h.1⟩
          · exact ⟨id, id⟩
        split
        · have hp := (hlogout x).pn (pn_dropAndReset g0 _)
          have hw : WK g0 x → SK g0 (setState n (dropAndReset (if x.st.loggedOn = true then sendLogout x else x)) .latent) := fun h =>
            ihS _ _ rfl (by rw [hp.fr.pend]; omega) (hp.w h)
          exact ⟨fun h => (hw (hxW.1 h)).1, fun h => hw (hxW.1 h.1)⟩
        · exact hxW

end Qfx.Sess
