/-
  Lemmas for C08, fourth part: disconnecting (`discMid`, `setState`), the mutual recursion
  setState / drainIn / incoming / checkSessionTime by induction on fuel (with the fuel bound that makes the first
  drain of a disconnect complete), connect, and one whole event.
-/
import Qfx.Lemmas.SessC08c
namespace Qfx.Sess
open Qfx

/-! ## 11. disconnecting -/

theorem c8o_onLogout (g : G8) : c8o g .onLogout = { g with cb := false, notified := true, ok := g.ok && !g.notified } := rfl
theorem c8o_closed (g : G8) : c8o g .closed = { g with conn := false, ok := g.ok && !g.cb } := rfl

/-- the ghost state after the middle part of a disconnect: nothing violated, notification flag down, no connection -/
def Down (g : G8) (s : Sess) : Prop := g.ok = true ∧ g.cb = false ∧ g.conn = false ∧ s.out = false

theorem discMid_down (g0 : G8) (s : Sess) (hW : WK g0 s) : Down (g8Of g0 (discMid s)) (discMid s) := by
  unfold discMid
  simp only []
  -- 1. the logout notification
  generalize hd : (s.st.loggedOn || match s.st with | SState.logout => true | SState.logon => s.cfg.initiator | x => false) = d
  generalize hs1 : (if d = true then s.emit Obs.onLogout else s) = s1
  have h1 : (g8Of g0 s1).ok = true ∧ (g8Of g0 s1).cb = false ∧ (g8Of g0 s1).conn = s1.out := by
    unfold WK at hW
    rw [← hs1]
    cases hdv : d
    · simp only [Bool.false_eq_true, if_false]
      refine ⟨hW.ok, ?_, hW.conn⟩
      rw [hW.cb]
      rw [hdv] at hd
      cases hst : s.st <;> simp_all [SState.loggedOn, SState.isLogout]
    · simp only [if_true]
      rw [g8Of_emit, c8o_onLogout]
      have hn : (g8Of g0 s).notified = false := by
        apply hW.notif
        rw [hdv] at hd
        cases hst : s.st <;> simp_all [SState.loggedOn, SState.isLogout, SState.isLogon]
      refine ⟨by simp [hW.ok, hn], rfl, hW.conn⟩
  -- 2. reset on disconnect
  generalize hs2 : (if s1.cfg.resetOnDisconnect = true then dropAndReset s1 else s1) = s2
  have h2 : (g8Of g0 s2).ok = true ∧ (g8Of g0 s2).cb = false ∧ (g8Of g0 s2).conn = s2.out := by
    rw [← hs2]
    split
    · have : g8Of g0 (dropAndReset s1) = g8Of g0 s1 := by
        show g8Of g0 ((s1.setToSend []).storeReset) = g8Of g0 s1
        rw [(sil_storeReset _).g8 g0]; rfl
      rw [this]; exact h1
    · exact h1
  -- 3. close
  split
  · rw [g8Of_emit, c8o_closed]
    have e : g8Of g0 (s2.setOut false) = g8Of g0 s2 := rfl
    rw [e]
    refine ⟨?_, h2.2.1, rfl, rfl⟩
    show ((g8Of g0 s2).ok && !(g8Of g0 s2).cb) = true
    rw [h2.1, h2.2.1]; rfl
  · rename_i ho
    have ho' : s2.out = false := by simpa using ho
    exact ⟨h2.1, h2.2.1, by rw [h2.2.2, ho'], ho'⟩

/-- from `Down`, any non-connected state gives the strong invariant -/
theorem Down.S {g : G8} {s : Sess} (h : Down g s) (st : SState) (hc : st.connected = false) : S g (s.setSt st) := by
  obtain ⟨h1, h2, h3, h4⟩ := h
  have hcls : (st.loggedOn || st.isLogon || st.isLogout) = false := by rw [← SState.connected_eq]; exact hc
  have hl : st.loggedOn = false := by cases hh : st.loggedOn <;> simp_all
  have hlo : st.isLogout = false := by cases hh : st.isLogout <;> simp_all
  have hli : st.isLogon = false := by cases hh : st.isLogon <;> simp_all
  refine ⟨{ ok := h1, conn := (by rw [h3]; exact h4.symm), cb := (by show g.cb = (st.loggedOn || st.isLogout); rw [h2, hl, hlo]; rfl),
            hs := (fun hcb => by rw [h2] at hcb; cases hcb),
            notif := (fun hh => by have : (st.loggedOn || st.isLogon || st.isLogout) = true := hh; rw [hcls] at this; cases this),
            fresh := (fun ho => by have : s.out = true := ho; rw [h4] at this; cases this),
            queue := (fun ho => by have : s.out = true := ho; rw [h4] at this; cases this),
            noconn := fun _ => h4 }, ?_⟩
  intro ho
  have : s.out = true := ho
  rw [h4] at this; cases this

/-- a state that is not connected: replacing it by another one that is not connected keeps the strong invariant -/
theorem W.toDown {g : G8} {s : Sess} (h : W g s) (hc : s.st.connected = false) : Down g s := by
  have hcls : (s.st.loggedOn || s.st.isLogon || s.st.isLogout) = false := by rw [← SState.connected_eq]; exact hc
  have hl : s.st.loggedOn = false := by cases hh : s.st.loggedOn <;> simp_all
  have hlo : s.st.isLogout = false := by cases hh : s.st.isLogout <;> simp_all
  have ho := h.noconn hcls
  exact ⟨h.ok, by rw [h.cb, hl, hlo]; rfl, by rw [h.conn, ho], ho⟩

theorem Down.congr {g : G8} {s r : Sess} (h : Down g s) (ho : r.out = s.out) : Down g r :=
  ⟨h.1, h.2.1, h.2.2.1, by rw [ho]; exact h.2.2.2⟩

/-! ## 12. the mutual recursion -/

theorem WK.congr {g0 : G8} {s r : Sess} (h : WK g0 s) (hlog : r.log = s.log) (h1 : r.st = s.st) (h4 : r.out = s.out)
    (h5 : r.cfg = s.cfg) (h6 : r.toSend = s.toSend) : WK g0 r := by
  unfold WK at *
  have : g8Of g0 r = g8Of g0 s := by unfold g8Of; rw [hlog]
  rw [this]
  exact W.congr h (by rw [h1]) (by rw [h1]) (by rw [h1]) h4 h5 h6
theorem SK.congr {g0 : G8} {s r : Sess} (h : SK g0 s) (hlog : r.log = s.log) (h1 : r.st = s.st) (h4 : r.out = s.out)
    (h5 : r.cfg = s.cfg) (h6 : r.toSend = s.toSend) : SK g0 r := by
  unfold SK at *
  have : g8Of g0 r = g8Of g0 s := by unfold g8Of; rw [hlog]
  rw [this]
  exact S.congr h (by rw [h1]) (by rw [h1]) (by rw [h1]) h4 h5 h6

/-- the end of a disconnect, once the first drain has left nothing pending -/
theorem setState_down (g0 : G8) (n : Nat) (s : Sess) (next : SState) (hn : next.connected = false) (hc : s.st.connected = true)
    (hD : WK g0 (drainIn n s)) (hp : pend (drainIn n s) = 0) : SK g0 (setState (n + 1) s next) := by
  unfold setState
  simp only [hn, Bool.not_false, if_true, hc]
  have hd := discMid_down g0 _ hD
  have hp2 : pend (discMid (drainIn n s)) = 0 := by rw [pend_discMid]; exact hp
  rw [drainIn_idle n _ hp2]
  generalize discMid (drainIn n s) = d at hd
  unfold SK
  split
  · exact (hd.congr (r := d.closeInbox.setStopped) rfl).S next hn
  · exact (hd.congr (r := d.closeInbox) rfl).S next hn

theorem setState_idle (g0 : G8) (n : Nat) (s : Sess) (next : SState) (hn : next.connected = false) (hc : s.st.connected = false)
    (hW : WK g0 s) : SK g0 (setState (n + 1) s next) := by
  unfold setState
  simp only [hn, Bool.not_false, if_true, hc, Bool.false_eq_true, if_false]
  have hd : Down (g8Of g0 s) s := W.toDown hW hc
  unfold SK
  split
  · exact (hd.congr (r := s.setStopped) rfl).S next hn
  · exact hd.S next hn

theorem c8_mutual (g0 : G8) : ∀ fuel : Nat,
    (∀ s next, next.connected = false → 4 * pend s + 2 ≤ fuel → WK g0 s → SK g0 (setState fuel s next)) ∧
    (∀ s, 4 * pend s + 1 ≤ fuel → WK g0 s → WK g0 (drainIn fuel s)) ∧
    (∀ s m, 4 * pend s + 4 ≤ fuel → (WK g0 s → WK g0 (incoming fuel s m)) ∧ (SK g0 s → SK g0 (incoming fuel s m))) ∧
    (∀ s a b, 4 * pend s + 3 ≤ fuel →
      (WK g0 s → WK g0 (checkSessionTime fuel s a b)) ∧ (SK g0 s → SK g0 (checkSessionTime fuel s a b))) := by
  intro fuel
  induction fuel with
  | zero =>
    refine ⟨?_, ?_, ?_, ?_⟩
    · intro s next _ hf; omega
    · intro s _ h; unfold drainIn; exact h
    · intro s m hf; omega
    · intro s a b hf; omega
  | succ n ih =>
    obtain ⟨ihS, ihD, ihI, ihC⟩ := ih
    have hPM := pend_mutual n
    refine ⟨?_, ?_, ?_, ?_⟩
    · -- setState
      intro s next hn hf hW
      cases hc : s.st.connected
      · exact setState_idle g0 n s next hn hc hW
      · exact setState_down g0 n s next hn hc (ihD s (by omega) hW) (drainIn_complete n s (by omega))
    · -- drainIn
      intro s hf hW
      unfold drainIn
      cases ho : s.inboxOpen
      · exact hW
      · cases hib : s.inbox with
        | nil => exact hW
        | cons m rest =>
          simp only [Bool.not_true, Bool.false_eq_true, if_false]
          have hp : pend (s.setInbox rest) + 1 = pend s := by simp [pend, Sess.setInbox, hib, ho]
          have h1 := (ihI (s.setInbox rest) (some m) (by omega)).1 (hW.congr rfl rfl rfl rfl rfl)
          have h2 := hPM.2.2.1 (s.setInbox rest) (some m)
          exact ihD _ (by omega) h1
    · -- incoming
      intro s m hf
      unfold incoming
      simp only []
      have hC := ihC s true true (by omega)
      have hpC := hPM.2.2.2 s true true
      generalize checkSessionTime n s true true = s1 at hC hpC
      split
      · exact hC
      · cases m with
        | none =>
          exact ⟨fun h => (hC.1 h).sil (Sil.emit _ _ rfl), fun h => (hC.2 h).sil (Sil.emit _ _ rfl)⟩
        | some m =>
          simp only []
          have hT := t8_fixMsgInCore g0 s1 m
          have hpf := (fr_fixMsgInCore s1 m).pend
          generalize fixMsgInCore s1 m = r at hT hpf
          obtain ⟨s2, nx⟩ := r
          dsimp only at hT hpf ⊢
          cases hnx : nx.connected
          · have hw : WK g0 s1 → SK g0 (setState n s2 nx) := fun h => by
              have := hT.w h
              simp only [hnx, Bool.false_eq_true, if_false] at this
              exact ihS s2 nx hnx (by omega) this
            exact ⟨fun h => ((hw (hC.1 h)).sil (Sil.emit _ _ rfl)).1, fun h => (hw (hC.2 h).1).sil (Sil.emit _ _ rfl)⟩
          · rw [setState_connected n s2 nx hnx]
            refine ⟨fun h => ?_, fun h => ?_⟩
            · have := hT.w (hC.1 h)
              simp only [hnx, if_true] at this
              exact this.sil (Sil.emit _ _ rfl)
            · have := hT.st (hC.2 h)
              simp only [hnx, if_true] at this
              exact this.sil (Sil.emit _ _ rfl)
    · -- checkSessionTime
      intro s a b hf
      unfold checkSessionTime
      simp only []
      have hlogout : ∀ x : Sess, P false g0 x (if x.st.loggedOn = true then sendLogout x else x) := by
        intro x
        split
        · rename_i hl
          exact qpeel_sendLogout (SState.loggedOn_not_logon _ hl) (P.refl _ _ _)
        · exact P.refl _ _ _
      split
      · have hp := hlogout s
        have hw : WK g0 s → SK g0 (setState n (if s.st.loggedOn = true then sendLogout s else s) .notSessionTime) := fun h =>
          ihS _ _ rfl (by rw [hp.fr.pend]; omega) (hp.w h)
        exact ⟨fun h => (hw h).1, fun h => hw h.1⟩
      · generalize hx : (if (!s.st.sessionTime) = true then setState n s SState.latent else s) = x
        have hxp : pend x ≤ pend s := by
          rw [← hx]; split
          · exact hPM.1 s _
          · exact Nat.le_refl _
        have hxW : (WK g0 s → WK g0 x) ∧ (SK g0 s → SK g0 x) := by
          rw [← hx]; split
          · have hw : WK g0 s → SK g0 (setState n s .latent) := fun h => ihS s _ rfl (by omega) h
            exact ⟨fun h => (hw h).1, fun h => hw h.1⟩
          · exact ⟨id, id⟩
        split
        · have hp := (hlogout x).pn (pn_dropAndReset g0 _)
          have hw : WK g0 x → SK g0 (setState n (dropAndReset (if x.st.loggedOn = true then sendLogout x else x)) .latent) := fun h =>
            ihS _ _ rfl (by rw [hp.fr.pend]; omega) (hp.w h)
          exact ⟨fun h => (hw (hxW.1 h)).1, fun h => hw (hxW.1 h.1)⟩
        · exact hxW

/-! ## 13. one event -/

theorem pend_le_inbox (s : Sess) : pend s ≤ s.inbox.length := by unfold pend; split <;> omega

/-- `SendAppMessages` while logged on -/
theorem pn_flush (g0 : G8) (s : Sess) (hl : s.st.loggedOn = true) : PN g0 s (sendQueued s) := by
  have hq := sendQueued_spec g0 s
  cases ho : s.out
  · rw [ho] at hq
    simp only [Bool.false_eq_true, if_false] at hq
    rw [hq.2]; exact PN.refl g0 s
  · rw [ho] at hq
    simp only [if_true] at hq
    have hg : WK g0 s → g8Of g0 (sendQueued s) = g8Of g0 s := by
      intro hW
      rw [hq.2.2]
      unfold WK at hW
      have hQ := hW.queue ho (Or.inl hl)
      have hcb : (g8Of g0 s).cb = true := by rw [hW.cb, hl]; rfl
      apply wr_quiet _ _ hW.ok (by rw [hW.conn]; exact ho)
      · cases hf : (g8Of g0 s).fresh
        · rfl
        · have := (hW.fresh ho hf).1
          rw [SState.loggedOn_not_logon _ hl] at this; cases this
      · exact hQ.1
      · intro x hx hap
        refine ⟨hW.hs hcb, ?_⟩
        cases hsl : (g8Of g0 s).sentLogout
        · rfl
        · have := hQ.2 hsl x hx
          rw [hap] at this; cases this
    have hw : WK g0 s → WK g0 (sendQueued s) := fun hW =>
      WK_queue hW hq.1 (hg hW) (fun _ _ => by rw [hq.2.1]; exact Q_nil _)
    exact ⟨hq.1, hw, fun hS => SK_of hS hq.1 (hw hS.1) (by rw [hg hS.1])⟩

/-- the application queues an application message -/
theorem SK_send (g0 : G8) (s : Sess) (m : OutMsg) (hadm : isAdminKind m.kind = false) (hS : SK g0 s) :
    SK g0 (match prep s m with
      | (none, s) => (s, "refused")
      | (some m, s) => (s.setToSend (s.toSend ++ [m]), "ok")).1 := by
  obtain ⟨hs, hm⟩ := prep_spec s m
  generalize prep s m = r at hs hm
  obtain ⟨o, s'⟩ := r
  dsimp only at hs hm
  rcases hm with hm | ⟨m', hm, hk, hf⟩
  · subst hm; exact hS.sil hs
  · subst hm
    dsimp only
    have hS' := hS.sil hs
    have h5 : (m'.kind == "5") = false := by
      rw [hk]
      cases h : m.kind == "5"
      · rfl
      · have : m.kind = "5" := by simpa using h
        rw [this] at hadm; revert hadm; decide
    have fr : Fr s' (s'.setToSend (s'.toSend ++ [m'])) := ⟨rfl, rfl, rfl, rfl, rfl⟩
    have hw : WK g0 (s'.setToSend (s'.toSend ++ [m'])) := by
      refine WK_queue hS'.1 fr rfl (fun ho hc => ?_)
      have hQ := hS'.1.queue ho hc
      have hsl : (g8Of g0 s').sentLogout = false := by
        apply hS'.2 ho
        rcases hc with hc | hc
        · rw [hc]; rfl
        · rw [hc.1]; simp
      refine ⟨?_, fun h => by rw [hsl] at h; cases h⟩
      intro x hx
      rcases List.mem_append.1 hx with hx | hx
      · exact hQ.1 x hx
      · simp only [List.mem_singleton] at hx; subst hx; exact h5
    exact SK_of hS' fr hw rfl

theorem c8Step_connected (g : G8) :
    c8Step g .connected = { conn := true, fresh := true, sentLogout := false, handshake := false, cb := g.cb, notified := false,
                            ok := g.ok && !g.conn && !g.cb } := rfl

/-- a Logon written by `dropAndSend` on an open connection: queue empty, ghost state advanced by that one write -/
theorem dropAndSend_logon_out (g0 : G8) (s : Sess) (m : OutMsg) (hk : m.kind = "A") (ho : s.out = true) :
    ∃ m', m'.kind = "A" ∧ Fr s (dropAndSend s m) ∧ (dropAndSend s m).toSend = [] ∧
      g8Of g0 (dropAndSend s m) = c8o (g8Of g0 s) (.wire m') := by
  unfold dropAndSend
  obtain ⟨m', hm, hk', _⟩ := prep_admin s m (by rw [hk]; decide)
  have hsil := (prep_spec s m).1
  generalize prep s m = r at hm hsil
  obtain ⟨o, s'⟩ := r
  dsimp only at hm hsil
  subst hm
  dsimp only
  have hq := sendQueued_spec g0 (s'.setToSend [m'])
  have ho' : (s'.setToSend [m']).out = true := by show s'.out = true; rw [hsil.fr.out]; exact ho
  rw [ho'] at hq
  simp only [if_true] at hq
  have frq : Fr s' (s'.setToSend [m']) := ⟨rfl, rfl, rfl, rfl, rfl⟩
  refine ⟨m', hk'.trans hk, (hsil.fr.trans frq).trans hq.1, hq.2.1, ?_⟩
  rw [hq.2.2]
  have : g8Of g0 (s'.setToSend [m']) = g8Of g0 s := hsil.g8 g0
  rw [this]; rfl

/-- the session a connecting initiator sends its Logon from -/
def connPre (s : Sess) : Sess :=
  let s := s.openConn
  let s := if s.cfg.refreshOnLogon then s.emit .refresh else s
  if s.cfg.resetOnLogon then dropAndReset s else s

theorem connect_already (s : Sess) (h : s.st.connected = true) : connect s = (s, "already") := by
  unfold connect; simp [h]
theorem connect_nottime (s : Sess) (h1 : s.st.connected = false) (h2 : s.st.sessionTime = false) :
    connect s = ((if s.cfg.resetOnDisconnect then dropAndReset s else s), "nottime") := by
  unfold connect; simp [h1, h2]
theorem connect_acceptor (s : Sess) (h1 : s.st.connected = false) (h2 : s.st.sessionTime = true) (h3 : s.cfg.initiator = false) :
    connect s = (s.openConn.setSt .logon, "ok") := by
  unfold connect
  have : s.openConn.cfg.initiator = false := h3
  simp [h1, h2, this]
theorem connect_initiator (s : Sess) (h1 : s.st.connected = false) (h2 : s.st.sessionTime = true) (h3 : s.cfg.initiator = true) :
    connect s = ((sendLogonInReplyTo (connPre s) (shouldSendReset (connPre s))).setSt .logon, "ok") := by
  unfold connect connPre
  have : s.openConn.cfg.initiator = true := h3
  simp [h1, h2, this]

/-- a successful connect: the marker, then (initiator) the Logon -/
theorem SK_connect (g : G8) (s : Sess) (hlog : s.log = []) (hS : S g s) :
    SK (if (connect s).2 == "ok" then c8Step g .connected else g) (connect s).1 := by
  have hg0 : ∀ g', g8Of g' s = g' := by intro g'; unfold g8Of; rw [hlog]; rfl
  have hSK : SK g s := by unfold SK; rw [hg0]; exact hS
  cases hc : s.st.connected
  · cases hst : s.st.sessionTime
    · rw [connect_nottime s hc hst]
      show SK g (if s.cfg.resetOnDisconnect = true then dropAndReset s else s)
      split
      · exact (pn_dropAndReset g s).st hSK
      · exact hSK
    · -- a connection starts
      have hd : Down g s := W.toDown hS.1 hc
      obtain ⟨d1, d2, d3, d4⟩ := hd
      cases hini : s.cfg.initiator
      · rw [connect_acceptor s hc hst hini]
        show SK (c8Step g .connected) (s.openConn.setSt .logon)
        unfold SK
        have : g8Of (c8Step g .connected) (s.openConn.setSt .logon) = c8Step g .connected := by
          unfold g8Of; show (List.foldl c8o _ s.log.reverse) = _; rw [hlog]; rfl
        rw [this, c8Step_connected]
        refine ⟨{ ok := (by simp [d1, d2, d3]), conn := rfl, cb := (by show g.cb = _; rw [d2]; rfl), hs := (fun h => by rw [d2] at h; cases h),
                  notif := fun _ => rfl, fresh := fun _ _ => ⟨rfl, hini, rfl⟩,
                  queue := (fun _ h => by
                    rcases h with h | h
                    · cases h
                    · have : s.cfg.initiator = true := h.2
                      rw [hini] at this; cases this),
                  noconn := (fun h => by cases h) }, fun _ _ => rfl⟩
      · rw [connect_initiator s hc hst hini]
        generalize hx : connPre s = x
        -- (after fix 8dffd53 the ResetOnLogon reset at connect also drops the queue: not silent, but invisible to the automaton)
        have hxs : x.out = true ∧ ∀ g0 : G8, g8Of g0 x = g8Of g0 s.openConn := by
          rw [← hx]
          unfold connPre
          dsimp only
          have h1 : Sil s.openConn (if s.openConn.cfg.refreshOnLogon = true then s.openConn.emit Obs.refresh else s.openConn) := by
            split
            · exact Sil.emit _ _ rfl
            · exact Sil.refl _
          generalize (if s.openConn.cfg.refreshOnLogon = true then s.openConn.emit Obs.refresh else s.openConn) = y at h1 ⊢
          split
          · refine ⟨by show y.out = true; rw [h1.fr.out]; rfl, fun g0 => ?_⟩
            have : g8Of g0 (dropAndReset y) = g8Of g0 y := by
              show g8Of g0 ((y.setToSend []).storeReset) = g8Of g0 y
              rw [(sil_storeReset _).g8 g0]; rfl
            rw [this, h1.g8]
          · exact ⟨by rw [h1.fr.out]; rfl, fun g0 => h1.g8 g0⟩
        have hxo : x.out = true := hxs.1
        obtain ⟨m', hk, fr, hq, hgd⟩ := dropAndSend_logon_out (c8Step g .connected) x (logonMsg x (shouldSendReset x)) rfl hxo
        show SK (c8Step g .connected) ((sendLogonInReplyTo x (shouldSendReset x)).setSt .logon)
        unfold SK
        rw [g8Of_setSt]
        unfold sendLogonInReplyTo
        rw [hgd, hxs.2]
        have : g8Of (c8Step g .connected) s.openConn = c8Step g .connected := by
          unfold g8Of; show (List.foldl c8o _ s.log.reverse) = _; rw [hlog]; rfl
        rw [this, c8o_wire, c8Step_connected]
        have hk5 : (m'.kind == "5") = false := by rw [hk]; rfl
        have hout : (dropAndSend x (logonMsg x (shouldSendReset x))).out = true := by rw [fr.out]; exact hxo
        refine ⟨{ ok := (by simp [d1, d2, d3, hk, appFirst, isAdminKind]), conn := hout.symm, cb := (by show g.cb = _; rw [d2]; rfl),
                  hs := (fun h => by have : g.cb = true := h; rw [d2] at this; cases this),
                  notif := fun _ => rfl, fresh := (fun _ h => by cases h),
                  queue := (fun _ _ => by show Q _ (dropAndSend x _).toSend; rw [hq]; exact Q_nil _),
                  noconn := (fun h => by cases h) }, fun _ _ => ?_⟩
        show (false || m'.kind == "5") = false
        rw [hk5]; rfl
  · rw [connect_already s hc]
    exact hSK

/-- the ghost state at the start of an event: the connection marker of a successful connect comes first -/
def g8Start (g : G8) (s : Sess) (e : Ev) : G8 :=
  match e with
  | .connect => if (connect s).2 == "ok" then c8Step g .connected else g
  | _ => g

theorem SK_setState (g0 : G8) (fuel : Nat) (s : Sess) (r : Sess × SState) (hT : T8 g0 s r) (hf : 4 * pend s + 2 ≤ fuel)
    (hS : SK g0 s) : SK g0 (setState fuel r.1 r.2) := by
  cases hc : r.2.connected
  · have := hT.st hS
    simp only [hc, Bool.false_eq_true, if_false] at this
    exact (c8_mutual g0 fuel).1 r.1 r.2 hc (by rw [hT.fr.pend]; exact hf) this
  · rw [setState_connected fuel r.1 r.2 hc]
    have := hT.st hS
    simp only [hc, if_true] at this
    exact this

/-- CheckResetTime: at most one Logon written through `dropAndSend` (fine in every state: the automaton accepts a Logon
    anywhere on an open connection, the queue is dropped), plus bookkeeping the invariant does not read -/
theorem SK_checkResetTime (g : G8) (s : Sess) (now : Int) (hSK : SK g s) : SK g (checkResetTime s now) := by
  have hset : ∀ x : Sess, SK g x → SK g (x.setLastChecked now) := fun x hx => hx.congr rfl rfl rfl rfl rfl
  unfold checkResetTime
  repeat' split
  all_goals (try dsimp only)
  all_goals first
    | exact hSK
    | exact hset _ hSK
    | exact hset _ ((pn_dropAndSend_logon g s (logonMsg s true) rfl).st hSK)

theorem SK_stepCore (g : G8) (s : Sess) (e : Ev) (hlog : s.log = []) (happ : appSend e = true) (hS : S g s) :
    SK (g8Start g s e) (stepCore s e).1 := by
  have hSK : SK g s := by unfold SK g8Of; rw [hlog]; exact hS
  have hpl := pend_le_inbox s
  obtain ⟨mS, mD, mI, mC⟩ := c8_mutual g (fuelOf s)
  have hPM := pend_mutual (fuelOf s)
  unfold stepCore
  simp only []
  cases e with
  | connect => exact SK_connect g s hlog hS
  | incomingMsg m => exact (mI s m (by unfold fuelOf; omega)).2 hSK
  | arrive m =>
    show SK g (if s.inboxOpen = true then (s.setInbox (s.inbox ++ [m]), "ok") else (s, "noconn")).1
    split
    · exact hSK.congr rfl rfl rfl rfl rfl
    · exact hSK
  | pop =>
    show SK g (if (!s.inboxOpen) = true then (s, "none") else
      match s.inbox with
      | [] => (s, "none")
      | m :: rest => (incoming (fuelOf s) (s.setInbox rest) (some m), "ok")).1
    split
    · exact hSK
    · split
      · exact hSK
      · rename_i m rest hib
        have hp : pend (s.setInbox rest) ≤ rest.length := pend_le_inbox _
        have hl : s.inbox.length = rest.length + 1 := by rw [hib]; rfl
        exact (mI (s.setInbox rest) (some m) (by unfold fuelOf; omega)).2 (hSK.congr rfl rfl rfl rfl rfl)
  | timeout ev =>
    show SK g (setState (fuelOf s) (timeoutCore (checkSessionTime (fuelOf s) s true true) ev).1
      (timeoutCore (checkSessionTime (fuelOf s) s true true) ev).2)
    have h1 := (mC s true true (by unfold fuelOf; omega)).2 hSK
    have hp1 := hPM.2.2.2 s true true
    exact SK_setState g _ _ _ (t8_timeoutCore g _ ev) (by unfold fuelOf at *; omega) h1
  | disconnected =>
    show SK g (if s.st.connected = true then setState (fuelOf s) s .latent else s)
    split
    · exact mS s .latent rfl (by unfold fuelOf; omega) hSK.1
    · exact hSK
  | stop =>
    show SK g (setState (fuelOf s) (stopNext s.setPendingStop).1 (stopNext s.setPendingStop).2)
    have h1 : SK g s.setPendingStop := hSK.congr rfl rfl rfl rfl rfl
    exact SK_setState g _ _ _ (t8_stopNext g _) (by unfold fuelOf; exact (by have : pend s.setPendingStop = pend s := rfl; omega)) h1
  | send m =>
    have hadm : isAdminKind m.kind = false := by simpa [appSend] using happ
    exact SK_send g s m hadm hSK
  | flush =>
    show SK g (if (checkSessionTime (fuelOf s) s true true).st.loggedOn = true then sendQueued (checkSessionTime (fuelOf s) s true true)
      else (checkSessionTime (fuelOf s) s true true).setToSend [])
    have h1 := (mC s true true (by unfold fuelOf; omega)).2 hSK
    split
    · rename_i hl
      exact (pn_flush g _ hl).st h1
    · exact (pn_setToSend_nil g _).st h1
  | sessionTime r sm => exact (mC s r sm (by unfold fuelOf; omega)).2 hSK
  | resetTime now => exact SK_checkResetTime g s now hSK

end Qfx.Sess
