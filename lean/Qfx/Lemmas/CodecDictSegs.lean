/-
  Dictionary-guided parse of a message with ANY NUMBER of repeating groups (each a `Walk2` group followed by a plain body field),
  plain fields in between: `8, 9, 35, (plain…, G=<n>, <members>, z)…, plain…, 10`.
-/
import Qfx.Lemmas.CodecDictWalk
namespace Qfx
open Qfx.Spec

variable {d : Dicts}

/-- from any point of the main loop: plain fields, the count field of `G`, the member fields -/
theorem main_to_walk2 {mt : Bytes} {G : Tag} {C : List DNode} (hg : OuterGroup d mt G C)
    (t35 g0 : TagValue) (preA M : List TagValue) (s' : GState) (hW : Walk2 d mt G C .outer M s') (Z : Bytes) (f0 : List TagValue)
    (idx : Nat) (c0 : PCore) (hv : t35.value = mt)
    (hpre : PlainFields d preA) (hg0 : IsWire g0) (hG : g0.tag = G)
    (hGh : isHeaderField d G = false) (hGt : isTrailerField d G = false)
    (hmt0 : MTInv f0 c0.header t35) (hi : 3 ≤ idx) (hx0 : c0.xmlDataLen = 0)
    (hraw0 : c0.rawBytes = wireOf preA ++ (g0.bytes ++ (wireOf M ++ Z)))
    (hlen : idx + preA.length + 1 + M.length ≤ f0.length) :
    parseLoop Fixes.cur d .main f0 idx c0 =
      parseLoop Fixes.cur d (s'.mode (idx + preA.length) G C) (setRange f0 idx (preA ++ g0 :: M)) (idx + preA.length + 1 + M.length)
        (memState { (runNDD d idx preA (g0.bytes ++ (wireOf M ++ Z)) c0) with
                      rawBytes := wireOf M ++ Z, foundBody := true, trailerBytes := wireOf M ++ Z } M Z) ∧
      s'.OK d mt G C := by
  have hP1 := parseLoop_prefixD (d := d) Fixes.cur preA f0 idx c0 (g0.bytes ++ (wireOf M ++ Z))
    (fun tv h => ⟨(hpre tv h).1, (hpre tv h).2.1, (hpre tv h).2.2.1⟩) (fun tv h => (hpre tv h).2.2.2.2.2) hx0 hraw0 (by omega)
  generalize hc1 : runNDD d idx preA (g0.bytes ++ (wireOf M ++ Z)) c0 = c1 at hP1 ⊢
  have hraw1 : c1.rawBytes = g0.bytes ++ (wireOf M ++ Z) := by rw [← hc1]; exact runNDD_raw' _ _ _ _ hraw0
  have hx1 : c1.xmlDataLen = 0 := by rw [← hc1, runNDD_xmlLen]; exact hx0
  have h35find1 : alFind c1.header.lookup 35 = some (.view 2 1) := by
    rw [← hc1, runNDD_header_find 35 preA idx _ c0 (fun tv h => (hpre tv h).2.2.2.2.1)]; exact hmt0.1
  have hidx1 : idx + preA.length < (setRange f0 idx preA).length := by rw [setRange_length]; omega
  have hex1 : extractField c1.rawBytes = (wireOf M ++ Z, .ok g0) := by rw [hraw1]; exact extractField_wire g0 _ hg0
  have hmt2 : MTInv ((setRange f0 idx preA).set (idx + preA.length) g0) c1.header t35 :=
    (MTInv.setRange ⟨h35find1, hmt0.2⟩ idx preA hi).set _ _ (by omega)
  obtain ⟨hnumG, hgfG⟩ := outer_walks hg _ c1.header t35 hmt2 hv
  have hP2 := parseLoop_enter_group (d := d) (setRange f0 idx preA) (idx + preA.length) c1 g0 (wireOf M ++ Z) C hidx1 hx1 hex1
    (by rw [hG]; exact hGh) (by rw [hG]; exact hGt) (by rw [hG]; exact hnumG) (by rw [hG]; exact hgfG)
  rw [hG] at hP2
  obtain ⟨hP3, hok⟩ := walk2_loop (d := d) t35 hv (idx + preA.length) hW ((setRange f0 idx preA).set (idx + preA.length) g0) (idx + preA.length + 1)
    { c1 with rawBytes := wireOf M ++ Z, foundBody := true, trailerBytes := wireOf M ++ Z } Z hg hmt2 (by omega) rfl
    (by simp [setRange_length]; omega)
  refine ⟨?_, hok⟩
  rw [hP1, hP2]
  show parseLoop Fixes.cur d (GState.outer.mode (idx + preA.length) G C) _ _ _ = _
  rw [hP3]
  have e1 : (setRange f0 idx preA).set (idx + preA.length) g0 = setRange f0 idx (preA ++ [g0]) := setRange_snoc _ _ _ _
  have e2 : setRange (setRange f0 idx (preA ++ [g0])) (idx + preA.length + 1) M = setRange f0 idx (preA ++ g0 :: M) := by
    have := setRange_append f0 idx (preA ++ [g0]) M
    simp only [List.length_append, List.length_singleton, List.append_assoc, List.singleton_append] at this
    rw [this]; congr 1
  rw [e1, e2]

/-- a run of the message: plain fields, a group (count field and member fields), the plain body field behind it -/
structure Seg where
  pre : List TagValue
  g0 : TagValue
  M : List TagValue
  z0 : TagValue

def Seg.flat (s : Seg) : List TagValue := s.pre ++ s.g0 :: (s.M ++ [s.z0])

structure SegOK (d : Dicts) (mt : Bytes) (s : Seg) : Prop where
  pre : PlainFields d s.pre
  grp : ∃ C s', OuterGroup d mt s.g0.tag C ∧ Walk2 d mt s.g0.tag C .outer s.M s' ∧ isGroupMember s.z0.tag C = false ∧
          isGroupMember s.z0.tag (s'.members C) = false
  wg0 : IsWire s.g0
  gh : isHeaderField d s.g0.tag = false
  gt : isTrailerField d s.g0.tag = false
  z : PlainFields d [s.z0]
  zh : isHeaderField d s.z0.tag = false
  zt : isTrailerField d s.z0.tag = false

/-- the loop state after one run -/
def segState (d : Dicts) (idx : Nat) (s : Seg) (tail : Bytes) (c : PCore) : PCore :=
  let c1 := runNDD d idx s.pre (s.g0.bytes ++ (wireOf s.M ++ (s.z0.bytes ++ tail))) c
  let j := idx + s.pre.length
  let cM := memState { c1 with rawBytes := wireOf s.M ++ (s.z0.bytes ++ tail), foundBody := true,
                               trailerBytes := wireOf s.M ++ (s.z0.bytes ++ tail) } s.M (s.z0.bytes ++ tail)
  ndTail { cM with rawBytes := tail, trailerBytes := tail,
                   body := (cM.body.add s.g0.tag (.view j (j + 1 + s.M.length - j))).add s.z0.tag (.view (j + 1 + s.M.length) 1) }

theorem Seg.flat_length (s : Seg) : s.flat.length = s.pre.length + 1 + s.M.length + 1 := by
  simp [Seg.flat]; omega

theorem Seg.flat_wire (s : Seg) (tail : Bytes) :
    wireOf s.flat ++ tail = wireOf s.pre ++ (s.g0.bytes ++ (wireOf s.M ++ (s.z0.bytes ++ tail))) := by
  simp [Seg.flat, wireOf, List.append_assoc]

theorem parseLoop_seg {mt : Bytes} (t35 : TagValue) (hv : t35.value = mt) (s : Seg) (hs : SegOK d mt s)
    (tail : Bytes) (f0 : List TagValue) (idx : Nat) (c0 : PCore)
    (hmt0 : MTInv f0 c0.header t35) (hi : 3 ≤ idx) (hx0 : c0.xmlDataLen = 0)
    (hraw0 : c0.rawBytes = wireOf s.flat ++ tail) (hlen : idx + s.flat.length ≤ f0.length) :
    parseLoop Fixes.cur d .main f0 idx c0 =
      parseLoop Fixes.cur d .main (setRange f0 idx s.flat) (idx + s.flat.length) (segState d idx s tail c0) := by
  obtain ⟨C, s', hg, hW, hzC, hzS⟩ := hs.grp
  rw [s.flat_wire] at hraw0
  rw [s.flat_length] at hlen
  obtain ⟨hP, hok⟩ := main_to_walk2 hg t35 s.g0 s.pre s.M s' hW (s.z0.bytes ++ tail) f0 idx c0 hv hs.pre hs.wg0 rfl hs.gh hs.gt
    hmt0 hi hx0 hraw0 (by omega)
  rw [hP]
  generalize hcM : memState { (runNDD d idx s.pre (s.g0.bytes ++ (wireOf s.M ++ (s.z0.bytes ++ tail))) c0) with
      rawBytes := wireOf s.M ++ (s.z0.bytes ++ tail), foundBody := true, trailerBytes := wireOf s.M ++ (s.z0.bytes ++ tail) } s.M (s.z0.bytes ++ tail) = cM
  have hcraw : cM.rawBytes = s.z0.bytes ++ tail := by rw [← hcM]; exact memState_raw _ _ _ rfl
  have hch : cM.header = (runNDD d idx s.pre (s.g0.bytes ++ (wireOf s.M ++ (s.z0.bytes ++ tail))) c0).header := by
    rw [← hcM]; exact (memState_keeps _ _ _).1
  generalize hF3 : setRange f0 idx (s.pre ++ s.g0 :: s.M) = F3
  have hF3len : F3.length = f0.length := by rw [← hF3, setRange_length]
  have hk : idx + s.pre.length + 1 + s.M.length < F3.length := by omega
  have hjF3 : F3[idx + s.pre.length]? = some s.g0 := by
    rw [← hF3]; exact setRange_getElem_self _ idx s.pre s.g0 s.M (by omega)
  have hj : (F3.set (idx + s.pre.length + 1 + s.M.length) s.z0)[idx + s.pre.length]? = some s.g0 := by
    rw [List.getElem?_set_ne (by omega)]; exact hjF3
  have hz0 := hs.z s.z0 (by simp)
  have hex : extractField cM.rawBytes = (tail, .ok s.z0) := by rw [hcraw]; exact extractField_wire s.z0 _ hz0.1
  have hmtM : MTInv (F3.set (idx + s.pre.length + 1 + s.M.length) s.z0) cM.header t35 := by
    refine MTInv.set ?_ _ _ (by omega)
    rw [← hF3]
    refine MTInv.setRange ⟨?_, hmt0.2⟩ idx _ hi
    rw [hch, runNDD_header_find 35 s.pre idx _ _ (fun tv h => (hs.pre tv h).2.2.2.2.1)]
    exact hmt0.1
  have hexit : parseLoop Fixes.cur d (s'.mode (idx + s.pre.length) s.g0.tag C) F3 (idx + s.pre.length + 1 + s.M.length) cM =
      parseLoop Fixes.cur d .main (F3.set (idx + s.pre.length + 1 + s.M.length) s.z0) (idx + s.pre.length + 1 + s.M.length + 1)
        (ndTail { cM with rawBytes := tail, trailerBytes := tail,
                          body := (cM.body.add s.g0.tag (.view (idx + s.pre.length) (idx + s.pre.length + 1 + s.M.length - (idx + s.pre.length)))).add s.z0.tag (.view (idx + s.pre.length + 1 + s.M.length) 1) }) := by
    cases s' with
    | outer => exact parseLoop_exit_body F3 _ (idx + s.pre.length) cM s.z0 s.g0 _ s.g0.tag C hk hj hex hzC hs.zh hs.zt hz0.2.2.2.2.2 hz0.2.1 hz0.2.2.1
    | inner N CN =>
      exact parseLoop_exit_nested_body hok F3 _ (idx + s.pre.length) cM s.z0 s.g0 t35 _ hk hmtM hv hj hex hzS hzC hs.zh hs.zt hz0.2.2.2.2.2 hz0.2.1 hz0.2.2.1
  rw [hexit]
  have hFeq : F3.set (idx + s.pre.length + 1 + s.M.length) s.z0 = setRange f0 idx s.flat := by
    rw [← hF3]
    have e1 : idx + s.pre.length + 1 + s.M.length = idx + (s.pre ++ s.g0 :: s.M).length := by simp; omega
    rw [e1, setRange_snoc]
    congr 1
    simp [Seg.flat]
  have hidx : idx + s.pre.length + 1 + s.M.length + 1 = idx + s.flat.length := by rw [s.flat_length]; omega
  rw [hFeq, hidx]
  subst hcM
  rfl


/-- the TagValues of a run that are entered into the section maps: the group's members are not -/
def Seg.adds (s : Seg) : List TagValue := s.pre ++ [s.g0, s.z0]

theorem segState_raw (idx : Nat) (s : Seg) (tail : Bytes) (c : PCore) :
    (segState d idx s tail c).rawBytes = tail ∧ (segState d idx s tail c).xmlDataLen = c.xmlDataLen ∧
    (segState d idx s tail c).xmlDataMsg = c.xmlDataMsg := by
  simp only [segState]
  refine ⟨(ndTail_raw _).1, ?_, ?_⟩
  · rw [(ndTail_raw _).2.1]
    show (memState _ s.M _).xmlDataLen = _
    rw [(memState_keeps _ _ _).2.2.2.1]
    show (runNDD d idx s.pre _ c).xmlDataLen = _
    rw [runNDD_xmlLen]
  · rw [(ndTail_raw _).2.2.1]
    show (memState _ s.M _).xmlDataMsg = _
    rw [(memState_keeps _ _ _).2.2.2.2.1]
    show (runNDD d idx s.pre _ c).xmlDataMsg = _
    rw [runNDD_xml]

theorem segState_header (idx : Nat) (s : Seg) (tail : Bytes) (c : PCore) :
    (segState d idx s tail c).header = (runNDD d idx s.pre (s.g0.bytes ++ (wireOf s.M ++ (s.z0.bytes ++ tail))) c).header := by
  simp only [segState]
  rw [(ndTail_raw _).2.2.2.1]
  show (memState _ s.M _).header = _
  rw [(memState_keeps _ _ _).1]

theorem segState_trailer (idx : Nat) (s : Seg) (tail : Bytes) (c : PCore) :
    (segState d idx s tail c).trailer = (runNDD d idx s.pre (s.g0.bytes ++ (wireOf s.M ++ (s.z0.bytes ++ tail))) c).trailer := by
  simp only [segState]
  rw [(ndTail_raw _).2.2.2.2.2]
  show (memState _ s.M _).trailer = _
  rw [(memState_keeps _ _ _).2.2.1]

theorem segState_body (idx : Nat) (s : Seg) (tail : Bytes) (c : PCore) :
    (segState d idx s tail c).body =
      ((runNDD d idx s.pre (s.g0.bytes ++ (wireOf s.M ++ (s.z0.bytes ++ tail))) c).body.add s.g0.tag
          (.view (idx + s.pre.length) (1 + s.M.length))).add s.z0.tag (.view (idx + s.pre.length + 1 + s.M.length) 1) := by
  simp only [segState]
  rw [(ndTail_raw _).2.2.2.2.1]
  show ((memState _ s.M _).body.add _ _).add _ _ = _
  rw [(memState_keeps _ _ _).2.1]
  have e : idx + s.pre.length + 1 + s.M.length - (idx + s.pre.length) = 1 + s.M.length := by omega
  rw [e]

theorem segState_find_absent (idx : Nat) (s : Seg) (tail : Bytes) (c : PCore) (k : Tag) (sec : Sec)
    (h : ∀ tv ∈ s.adds, tv.tag ≠ k) :
    alFind ((segState d idx s tail c).sec sec).lookup k = alFind (c.sec sec).lookup k := by
  have hpre : ∀ tv ∈ s.pre, tv.tag ≠ k := fun tv htv => h tv (by simp [Seg.adds, htv])
  have hg : s.g0.tag ≠ k := h s.g0 (by simp [Seg.adds])
  have hz : s.z0.tag ≠ k := h s.z0 (by simp [Seg.adds])
  cases sec
  · show alFind (segState d idx s tail c).header.lookup k = _
    rw [segState_header]
    exact runNDD_find_absent k .h s.pre idx _ c hpre
  · show alFind (segState d idx s tail c).body.lookup k = _
    rw [segState_body]
    simp only [FieldMap.add]
    rw [alFind_insert_other _ _ _ _ (Ne.symm hz), alFind_insert_other _ _ _ _ (Ne.symm hg)]
    exact runNDD_find_absent k .b s.pre idx _ c hpre
  · show alFind (segState d idx s tail c).trailer.lookup k = _
    rw [segState_trailer]
    exact runNDD_find_absent k .t s.pre idx _ c hpre

theorem segState_find_group (idx : Nat) (s : Seg) (tail : Bytes) (c : PCore) (h : s.z0.tag ≠ s.g0.tag) :
    alFind (segState d idx s tail c).body.lookup s.g0.tag = some (.view (idx + s.pre.length) (1 + s.M.length)) := by
  rw [segState_body]
  simp only [FieldMap.add]
  rw [alFind_insert_other _ _ _ _ (Ne.symm h), alFind_insert_self]

/-- the loop state after a list of runs -/
def runSegs (d : Dicts) : Nat → List Seg → Bytes → PCore → PCore
  | _, [], _, c => c
  | idx, s :: r, tail, c => runSegs d (idx + s.flat.length) r tail (segState d idx s (wireOf (r.flatMap Seg.flat) ++ tail) c)

theorem runSegs_keeps : ∀ (segs : List Seg) (idx : Nat) (tail : Bytes) (c : PCore),
    (runSegs d idx segs tail c).xmlDataLen = c.xmlDataLen ∧ (runSegs d idx segs tail c).xmlDataMsg = c.xmlDataMsg := by
  intro segs
  induction segs with
  | nil => intro idx tail c; exact ⟨rfl, rfl⟩
  | cons s r ih =>
    intro idx tail c
    simp only [runSegs]
    obtain ⟨h1, h2⟩ := ih (idx + s.flat.length) tail (segState d idx s (wireOf (r.flatMap Seg.flat) ++ tail) c)
    rw [h1, h2]
    exact ⟨(segState_raw _ _ _ _).2.1, (segState_raw _ _ _ _).2.2⟩

theorem runSegs_raw : ∀ (segs : List Seg) (idx : Nat) (tail : Bytes) (c : PCore),
    c.rawBytes = wireOf (segs.flatMap Seg.flat) ++ tail → (runSegs d idx segs tail c).rawBytes = tail := by
  intro segs
  induction segs with
  | nil => intro idx tail c h; simpa [runSegs, wireOf] using h
  | cons s r ih =>
    intro idx tail c _
    simp only [runSegs]
    exact ih _ _ _ (segState_raw _ _ _ _).1

theorem runSegs_find_absent (k : Tag) (sec : Sec) : ∀ (segs : List Seg) (idx : Nat) (tail : Bytes) (c : PCore),
    (∀ tv ∈ segs.flatMap Seg.adds, tv.tag ≠ k) →
    alFind ((runSegs d idx segs tail c).sec sec).lookup k = alFind (c.sec sec).lookup k := by
  intro segs
  induction segs with
  | nil => intro idx tail c _; rfl
  | cons s r ih =>
    intro idx tail c h
    simp only [runSegs]
    rw [ih _ _ _ (fun tv htv => h tv (by simp only [List.flatMap_cons, List.mem_append]; exact Or.inr htv))]
    exact segState_find_absent _ _ _ _ _ _ (fun tv htv => h tv (by simp only [List.flatMap_cons, List.mem_append]; exact Or.inl htv))


theorem parseLoop_segs {mt : Bytes} (t35 : TagValue) (hv : t35.value = mt) :
    ∀ (segs : List Seg), (∀ s ∈ segs, SegOK d mt s) → ∀ (tail : Bytes) (f0 : List TagValue) (idx : Nat) (c0 : PCore),
    MTInv f0 c0.header t35 → 3 ≤ idx → c0.xmlDataLen = 0 →
    c0.rawBytes = wireOf (segs.flatMap Seg.flat) ++ tail → idx + (segs.flatMap Seg.flat).length ≤ f0.length →
    parseLoop Fixes.cur d .main f0 idx c0 =
      parseLoop Fixes.cur d .main (setRange f0 idx (segs.flatMap Seg.flat)) (idx + (segs.flatMap Seg.flat).length) (runSegs d idx segs tail c0) ∧
    alFind (runSegs d idx segs tail c0).header.lookup 35 = some (.view 2 1) := by
  intro segs
  induction segs with
  | nil => intro _ tail f0 idx c0 hmt _ _ _ _; exact ⟨by simp [setRange, runSegs], hmt.1⟩
  | cons s r ih =>
    intro hok tail f0 idx c0 hmt hi hx hraw hlen
    have hs := hok s (by simp)
    have hraw' : c0.rawBytes = wireOf s.flat ++ (wireOf (r.flatMap Seg.flat) ++ tail) := by
      rw [hraw]; simp [wireOf_append, List.append_assoc]
    have hlen' : idx + s.flat.length + (r.flatMap Seg.flat).length ≤ f0.length := by
      simp only [List.flatMap_cons, List.length_append] at hlen; omega
    have h1 := parseLoop_seg (d := d) t35 hv s hs (wireOf (r.flatMap Seg.flat) ++ tail) f0 idx c0 hmt hi hx hraw' (by omega)
    have hmt1 : MTInv (setRange f0 idx s.flat) (segState d idx s (wireOf (r.flatMap Seg.flat) ++ tail) c0).header t35 := by
      refine MTInv.setRange ⟨?_, hmt.2⟩ idx _ hi
      rw [segState_header, runNDD_header_find 35 s.pre idx _ _ (fun tv h => (hs.pre tv h).2.2.2.2.1)]
      exact hmt.1
    obtain ⟨h2, h35⟩ := ih (fun x hx => hok x (by simp [hx])) tail (setRange f0 idx s.flat) (idx + s.flat.length)
      (segState d idx s (wireOf (r.flatMap Seg.flat) ++ tail) c0) hmt1 (by omega)
      (by rw [(segState_raw _ _ _ _).2.1]; exact hx) (segState_raw _ _ _ _).1 (by rw [setRange_length]; omega)
    refine ⟨?_, by simpa [runSegs] using h35⟩
    rw [h1, h2]
    simp only [runSegs, List.flatMap_cons, List.length_append]
    rw [setRange_append, Nat.add_assoc]


theorem runSegs_append : ∀ (A B : List Seg) (idx : Nat) (tail : Bytes) (c : PCore),
    runSegs d idx (A ++ B) tail c =
      runSegs d (idx + (A.flatMap Seg.flat).length) B tail (runSegs d idx A (wireOf (B.flatMap Seg.flat) ++ tail) c) := by
  intro A
  induction A with
  | nil => intro B idx tail c; simp [runSegs]
  | cons s r ih =>
    intro B idx tail c
    simp only [List.cons_append, runSegs, List.flatMap_cons, List.length_append, List.flatMap_append]
    rw [ih]
    simp only [wireOf_append, List.append_assoc, Nat.add_assoc]

/-- PARSE WITH THE DICTIONARY, ANY NUMBER OF GROUPS: `8, 9, 35, (plain…, G=<n>, <members>, z)…, plain…, 10` -/
theorem parse_dict_segs {mt : Bytes} (t8 t9 t35 t10 : TagValue) (segs : List Seg) (post : List TagValue)
    (hw8 : IsWire t8) (hw9 : IsWire t9) (hw35 : IsWire t35) (hw10 : IsWire t10)
    (h8 : t8.tag = 8) (h9 : t9.tag = 9) (h35 : t35.tag = 35) (h10 : t10.tag = 10) (hv : t35.value = mt)
    (hsegs : ∀ s ∈ segs, SegOK d mt s) (hpost : PlainFields d post)
    (hng10 : NoGroupTag d 10) (hh10 : isHeaderField d 10 = false)
    (hbl : atoi t9.value = .ok ((fieldsLength (t8 :: t9 :: t35 :: (segs.flatMap Seg.flat ++ (post ++ [t10]))) : Nat) : Int)) :
    ∃ m, parseMessage Fixes.cur d (wireOf (t8 :: t9 :: t35 :: (segs.flatMap Seg.flat ++ (post ++ [t10])))) = .ok m ∧
      m.fields = t8 :: t9 :: t35 :: (segs.flatMap Seg.flat ++ (post ++ [t10])) ∧
      m.raw = some (wireOf (t8 :: t9 :: t35 :: (segs.flatMap Seg.flat ++ (post ++ [t10])))) ∧
      ∀ (A : List Seg) (s : Seg) (B : List Seg), segs = A ++ s :: B →
        (∀ tv ∈ s.z0 :: (B.flatMap Seg.adds ++ post), tv.tag ≠ s.g0.tag) →
        alFind m.body.lookup s.g0.tag = some (.view (3 + (A.flatMap Seg.flat).length + s.pre.length) (1 + s.M.length)) := by
  have hsegW : ∀ s ∈ segs, ∀ tv ∈ s.flat, IsWire tv := by
    intro s hs tv htv
    have hok := hsegs s hs
    obtain ⟨C, s', _, hW, _, _⟩ := hok.grp
    simp only [Seg.flat, List.mem_append, List.mem_cons, List.mem_nil_iff, or_false] at htv
    rcases htv with h | e | h | e
    · exact (hok.pre tv h).1
    · subst e; exact hok.wg0
    · exact hW.wire tv h
    · subst e; exact (hok.z s.z0 (by simp)).1
  have hrestW : ∀ tv ∈ segs.flatMap Seg.flat ++ (post ++ [t10]), IsWire tv := by
    intro tv htv
    simp only [List.mem_append, List.mem_flatMap, List.mem_singleton] at htv
    rcases htv with ⟨s, hs, h⟩ | h | e
    · exact hsegW s hs tv h
    · exact (hpost tv h).1
    · subst e; exact hw10
  rw [parseMessage_lead Fixes.cur t8 t9 t35 _ hw8 hw9 hw35 hrestW h8 h9 h35]
  have hwire : wireOf (segs.flatMap Seg.flat ++ (post ++ [t10])) =
      wireOf (segs.flatMap Seg.flat) ++ (wireOf post ++ (t10.bytes ++ [])) := by
    simp [wireOf, List.append_assoc]
  rw [hwire]
  generalize hA : segs.flatMap Seg.flat = Afl at *
  have hlenR : (Afl ++ (post ++ [t10])).length = Afl.length + post.length + 1 := by simp; omega
  generalize hc0 : ndInit t8 t9 t35 (wireOf Afl ++ (wireOf post ++ (t10.bytes ++ []))) = c0
  have hraw0 : c0.rawBytes = wireOf Afl ++ (wireOf post ++ (t10.bytes ++ [])) := by rw [← hc0]; rfl
  have hx0 : c0.xmlDataLen = 0 := by rw [← hc0]; rfl
  have hxm0 : c0.xmlDataMsg = false := by rw [← hc0]; rfl
  have h35find0 : alFind c0.header.lookup 35 = some (.view 2 1) := by
    rw [← hc0]; simp [ndInit, FieldMap.add, FieldMap.empty, alInsert, alFind, h8, h9, h35]
  have h9find0 : alFind c0.header.lookup 9 = some (.view 1 1) := by
    rw [← hc0]; simp [ndInit, FieldMap.add, FieldMap.empty, alInsert, alFind, h8, h9, h35]
  obtain ⟨hP, _⟩ := parseLoop_segs (d := d) t35 hv segs hsegs (wireOf post ++ (t10.bytes ++ []))
    ([t8, t9, t35] ++ List.replicate (Afl ++ (post ++ [t10])).length TagValue.zero) 3 c0
    ⟨h35find0, by simp⟩ (by omega) hx0 (by rw [hA]; exact hraw0) (by rw [hA]; simp [hlenR]; omega)
  rw [hA] at hP
  rw [hP]
  generalize hc4 : runSegs d 3 segs (wireOf post ++ (t10.bytes ++ [])) c0 = c4
  have hc4x : c4.xmlDataLen = 0 := by rw [← hc4, (runSegs_keeps _ _ _ _).1]; exact hx0
  have hc4xm : c4.xmlDataMsg = false := by rw [← hc4, (runSegs_keeps _ _ _ _).2]; exact hxm0
  have hc4raw : c4.rawBytes = wireOf post ++ (t10.bytes ++ []) := by
    rw [← hc4]; exact runSegs_raw _ _ _ _ (by rw [hA]; exact hraw0)
  have h9seg : ∀ tv ∈ segs.flatMap Seg.adds, tv.tag ≠ 9 := by
    intro tv htv
    obtain ⟨s, hs, h⟩ := List.mem_flatMap.1 htv
    have hok := hsegs s hs
    simp only [Seg.adds, List.mem_append, List.mem_cons, List.mem_singleton, List.mem_nil_iff, or_false] at h
    rcases h with h | e | e
    · exact (hok.pre tv h).2.2.2.1
    · subst e
      intro e9
      have := hok.gh
      rw [e9] at this
      simp [isHeaderField, Tag.isHeader, staticHeaderTags] at this
    · subst e; exact (hok.z s.z0 (by simp)).2.2.2.1
  rw [parseLoop_ndD Fixes.cur post _ (3 + Afl.length) c4 t10 []
    (fun tv h => ⟨(hpost tv h).1, (hpost tv h).2.1, (hpost tv h).2.2.1⟩)
    (fun tv h => (hpost tv h).2.2.2.2.2) (by rw [h10]; exact hng10) hw10 h10 hc4x hc4raw
    (by simp [setRange_length, hlenR]; omega)]
  have hFeq : setRange (setRange ([t8, t9, t35] ++ List.replicate (Afl ++ (post ++ [t10])).length TagValue.zero) 3 Afl) (3 + Afl.length) (post ++ [t10]) =
      t8 :: t9 :: t35 :: (Afl ++ (post ++ [t10])) := by
    rw [← setRange_append]
    have := setRange_replicate TagValue.zero (Afl ++ (post ++ [t10])) [t8, t9, t35]
    simpa using this
  rw [hFeq]
  generalize hC5 : ndSwitchD d (3 + Afl.length + post.length) t10
      { (runNDD d (3 + Afl.length) post (t10.bytes ++ []) c4) with rawBytes := [] } = C5
  have hC5hb := ndSwitchD_10 (d := d) (3 + Afl.length + post.length) t10
      { (runNDD d (3 + Afl.length) post (t10.bytes ++ []) c4) with rawBytes := [] } h10 hh10
  rw [hC5] at hC5hb
  have e9 : alFind C5.header.lookup 9 = some (.view 1 1) := by
    rw [hC5hb.1]
    show alFind (runNDD d _ post _ c4).header.lookup 9 = _
    rw [runNDD_header_find 9 post _ _ c4 (fun tv h => (hpost tv h).2.2.2.1), ← hc4]
    have := runSegs_find_absent (d := d) 9 .h segs 3 (wireOf post ++ (t10.bytes ++ [])) c0 h9seg
    simp only [PCore.sec] at this
    rw [this]; exact h9find0
  have hxm5 : C5.xmlDataMsg = false := by
    rw [← hC5, (ndSwitchD_raw _ _ _).2.2]
    show (runNDD d _ post _ c4).xmlDataMsg = false
    rw [runNDD_xml]; exact hc4xm
  rw [finish_ok _ C5 t9 e9 (by simp) hbl hxm5]
  refine ⟨_, rfl, rfl, rfl, ?_⟩
  intro A s B hsplit huniq
  show alFind (finishAdjust C5).body.lookup s.g0.tag = _
  rw [(finishAdjust_keeps _).2.2.1, hC5hb.2]
  show alFind ((runNDD d _ post _ c4).sec .b).lookup s.g0.tag = _
  rw [runNDD_find_absent s.g0.tag .b post _ _ c4 (fun tv h => huniq tv (by simp [h]))]
  rw [← hc4, hsplit, runSegs_append]
  simp only [runSegs]
  rw [runSegs_find_absent s.g0.tag .b B _ _ _ (fun tv h => huniq tv (by simp [h]))]
  show alFind (segState d _ s _ _).body.lookup s.g0.tag = _
  rw [segState_find_group _ _ _ _ (huniq s.z0 (by simp))]

end Qfx
