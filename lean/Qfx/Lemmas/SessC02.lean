/-
  Invariant machinery for the sequential layer of C02 over Qfx.Model.Session (pattern of Lemmas/SessC01.lean):
  ghost monitor `g2Of` folded over the observation log, invariant `K`, neutral extensions `Ext`, one preservation
  lemma per model function, the mutual-recursion lemma by induction on fuel.
-/
import Qfx.Spec.SessionTypedC02
namespace Qfx.Sess.C02
open Qfx Qfx.Sess

def g2Of (p : Bool) (g0 : G2) (s : Sess) : G2 := s.log.reverse.foldl (g2Step p) g0

/-- invariant: the monitor is happy, its counter is the store's next outbound number, persistence is as configured,
    and (with persistence) every queued message is a replay or has been saved -/
def K (p : Bool) (g0 : G2) (s : Sess) : Prop :=
  (g2Of p g0 s).ok = true ∧ (g2Of p g0 s).S = s.store.sender ∧ s.cfg.persist = p ∧
  (p = true → ∀ m ∈ s.toSend, covered (g2Of p g0 s) m = true)

theorem g2Of_emit (p : Bool) (g0 : G2) (s : Sess) (o : Obs) : g2Of p g0 (s.emit o) = g2Step p (g2Of p g0 s) o := by
  simp [g2Of, Sess.emit, List.foldl_append]

def neutral : Obs → Bool
  | .reset | .saved _ _ _ | .incS | .wire _ => false
  | _ => true

theorem g2Step_neutral (p : Bool) (g : G2) (o : Obs) (h : neutral o = true) : g2Step p g o = g := by
  cases o <;> simp_all [g2Step, neutral]

theorem foldl_neutral (p : Bool) (g : G2) (l : List Obs) (h : l.all neutral = true) : l.foldl (g2Step p) g = g := by
  induction l generalizing g with
  | nil => rfl
  | cons o l ih =>
    simp only [List.all_cons, Bool.and_eq_true] at h
    simp only [List.foldl_cons, g2Step_neutral p g o h.1]; exact ih g h.2

/-- `s'` extends the log of `s` by neutral observations only and leaves outbound counter, queue and configuration alone -/
structure Ext (s s' : Sess) : Prop where
  snd : s'.store.sender = s.store.sender
  q : s'.toSend = s.toSend
  cfg : s'.cfg = s.cfg
  log : ∃ extra : List Obs, s'.log = extra ++ s.log ∧ extra.all neutral = true

theorem Ext.refl (s : Sess) : Ext s s := ⟨rfl, rfl, rfl, [], rfl, rfl⟩

theorem Ext.trans {a b c : Sess} (h1 : Ext a b) (h2 : Ext b c) : Ext a c := by
  obtain ⟨t1, q1, c1, e1, l1, n1⟩ := h1
  obtain ⟨t2, q2, c2, e2, l2, n2⟩ := h2
  refine ⟨t2.trans t1, q2.trans q1, c2.trans c1, e2 ++ e1, ?_, ?_⟩
  · rw [l2, l1, List.append_assoc]
  · simp [List.all_append, n1, n2]

theorem Ext.emit (s : Sess) (o : Obs) (h : neutral o = true) : Ext s (s.emit o) :=
  ⟨rfl, rfl, rfl, [o], rfl, by simp [h]⟩

theorem Ext.g2 {s s' : Sess} (h : Ext s s') (p : Bool) (g0 : G2) : g2Of p g0 s' = g2Of p g0 s := by
  obtain ⟨_, _, _, e, l, n⟩ := h
  unfold g2Of
  rw [l, List.reverse_append, List.foldl_append]
  exact foldl_neutral _ _ _ (by simpa using n)

/-- preservation of the invariant -/
def Pres (p : Bool) (g0 : G2) (s s' : Sess) : Prop := K p g0 s → K p g0 s'

theorem Pres.refl (p : Bool) (g0 : G2) (s : Sess) : Pres p g0 s s := id
theorem Pres.trans {p : Bool} {g0 : G2} {a b c : Sess} (h1 : Pres p g0 a b) (h2 : Pres p g0 b c) : Pres p g0 a c :=
  fun h => h2 (h1 h)

theorem Ext.pres {s s' : Sess} (h : Ext s s') (p : Bool) (g0 : G2) : Pres p g0 s s' := by
  intro hk
  unfold K at *
  rw [h.g2 p g0, h.snd, h.q, h.cfg]; exact hk

/-- field updates that touch neither the log, the outbound counter, the queue nor the configuration -/
theorem Ext.of_eq {s s' : Sess} (h1 : s'.store.sender = s.store.sender) (h2 : s'.toSend = s.toSend)
    (h3 : s'.cfg = s.cfg) (h4 : s'.log = s.log) : Ext s s' :=
  ⟨h1, h2, h3, [], by simp [h4], rfl⟩

/-! ### the monitor's saved list only grows -/

theorem saved_mono_step (p : Bool) (g : G2) (o : Obs) : ∀ x ∈ g.saved, x ∈ (g2Step p g o).saved := by
  intro x hx
  cases o <;> simp [g2Step, hx]

theorem covered_mono {g g' : G2} {m : OutMsg} (h : ∀ x ∈ g.saved, x ∈ g'.saved) (hc : covered g m = true) :
    covered g' m = true := by
  unfold covered at *
  simp only [Bool.or_eq_true, Bool.not_eq_true', List.contains_iff_mem] at *
  rcases hc with hc | hc
  · exact Or.inl hc
  · exact Or.inr (h _ hc)

/-! ### primitives -/

theorem pres_storeReset (p : Bool) (g0 : G2) (s : Sess) : Pres p g0 s s.storeReset := by
  intro ⟨hok, hS, hc, hq⟩
  unfold K Sess.storeReset
  rw [g2Of_emit]
  have hg : g2Of p g0 { s with store := s.store.reset } = g2Of p g0 s := rfl
  rw [hg]
  refine ⟨by simpa [g2Step] using hok, by simp [g2Step, Sess.emit, Store.reset], hc, ?_⟩
  intro hp m hm
  exact covered_mono (saved_mono_step p _ _) (hq hp m hm)

/-- persisting under the store's own next number: the monitor agrees, and the message is covered from now on -/
theorem K_persistOut (p : Bool) (g0 : G2) (s : Sess) (m : OutMsg) (h : K p g0 s) :
    K p g0 (s.persistOut s.store.sender m) ∧
    (p = true → ∀ m' : OutMsg, m'.seq = s.store.sender → m'.kind = m.kind → resendable m' = resendable m →
        covered (g2Of p g0 (s.persistOut s.store.sender m)) m' = true) := by
  obtain ⟨hok, hS, hc, hq⟩ := h
  unfold Sess.persistOut
  split
  · rename_i hp
    have hpp : p = true := by rw [← hc]; exact hp
    constructor
    · unfold K
      rw [g2Of_emit]
      have hg : g2Of p g0 { s with store := { s.store with msgs := (s.store.sender, m) :: s.store.msgs, sender := s.store.sender + 1 } } = g2Of p g0 s := rfl
      rw [hg]
      refine ⟨by simp [g2Step, hok, hS], by simp [g2Step, Sess.emit, hS], hc, ?_⟩
      intro _ m' hm'
      exact covered_mono (saved_mono_step p _ _) (hq hpp m' hm')
    · intro _ m' h1 h2 h3
      rw [g2Of_emit]
      simp only [covered, g2Step, Bool.or_eq_true, Bool.not_eq_true', List.contains_iff_mem]
      right
      rw [h1, h2, h3]; simp
  · rename_i hp
    have hpp : p = false := by rw [← hc]; simpa using hp
    constructor
    · unfold K
      rw [g2Of_emit]
      have hg : g2Of p g0 { s with store := { s.store with sender := s.store.sender + 1 } } = g2Of p g0 s := rfl
      rw [hg]
      refine ⟨by simpa [g2Step] using hok, by simp [g2Step, Sess.emit, hS], hc, ?_⟩
      intro h; rw [hpp] at h; cases h
    · intro h; rw [hpp] at h; cases h

/-- writing the whole queue: every message is covered, so the monitor accepts each write -/
theorem foldl_wire_ok (p : Bool) (g : G2) (l : List OutMsg) (hok : g.ok = true)
    (hc : p = true → ∀ m ∈ l, covered g m = true) :
    (l.map Obs.wire).foldl (g2Step p) g = g := by
  induction l with
  | nil => rfl
  | cons m l ih =>
    simp only [List.map_cons, List.foldl_cons]
    have h1 : g2Step p g (.wire m) = g := by
      obtain ⟨S, ok, sv⟩ := g
      simp only at hok
      subst hok
      simp only [g2Step]
      cases p with
      | false => simp
      | true => simp [hc rfl m (by simp)]
    rw [h1]
    exact ih (fun hp x hx => hc hp x (by simp [hx]))

theorem pres_sendQueued (p : Bool) (g0 : G2) (s : Sess) : Pres p g0 s (sendQueued s) := by
  intro ⟨hok, hS, hc, hq⟩
  unfold sendQueued
  split
  · unfold K
    have hg : g2Of p g0 { s with log := (s.toSend.map Obs.wire).reverse ++ s.log, toSend := [] } = g2Of p g0 s := by
      unfold g2Of
      simp only [List.reverse_append, List.reverse_reverse, List.foldl_append]
      exact foldl_wire_ok p _ _ hok hq
    rw [hg]
    exact ⟨hok, hS, hc, fun _ m hm => by simp at hm⟩
  · exact ⟨hok, hS, hc, hq⟩

theorem K_setToSend_nil {p : Bool} {g0 : G2} {s : Sess} (h : K p g0 s) : K p g0 (s.setToSend []) := by
  obtain ⟨hok, hS, hc, _⟩ := h
  exact ⟨hok, hS, hc, fun _ m hm => by simp [Sess.setToSend] at hm⟩

theorem K_setToSend_snoc {p : Bool} {g0 : G2} {s : Sess} {m : OutMsg} (h : K p g0 s)
    (hm : p = true → covered (g2Of p g0 s) m = true) : K p g0 (s.setToSend (s.toSend ++ [m])) := by
  obtain ⟨hok, hS, hc, hq⟩ := h
  refine ⟨hok, hS, hc, fun hp x hx => ?_⟩
  simp only [Sess.setToSend, List.mem_append, List.mem_singleton] at hx
  rcases hx with hx | hx
  · exact hq hp x hx
  · subst hx; exact hm hp

theorem K_setToSend_single {p : Bool} {g0 : G2} {s : Sess} {m : OutMsg} (h : K p g0 s)
    (hm : p = true → covered (g2Of p g0 s) m = true) : K p g0 (s.setToSend [m]) := by
  obtain ⟨hok, hS, hc, _⟩ := h
  refine ⟨hok, hS, hc, fun hp x hx => ?_⟩
  simp only [Sess.setToSend, List.mem_singleton] at hx
  subst hx; exact hm hp

/-! ### sending -/

/-- prepMessageForSend: the invariant survives and the numbered message, if any, is covered -/
theorem K_prepCore (p : Bool) (g0 : G2) (s : Sess) (m : OutMsg) (h : K p g0 s) :
    K p g0 (prepCore s m).2 ∧ (∀ m', (prepCore s m).1 = some m' → p = true → covered (g2Of p g0 (prepCore s m).2) m' = true) := by
  unfold prepCore
  simp only []
  split
  · split
    · have h1 : K p g0 (s.storeReset.setSentReset true) :=
        (Ext.of_eq (s := s.storeReset) (s' := s.storeReset.setSentReset true) rfl rfl rfl rfl).pres p g0 (pres_storeReset p g0 s h)
      obtain ⟨a, b⟩ := K_persistOut p g0 (s.storeReset.setSentReset true) { m with seq := (s.storeReset.setSentReset true).store.sender } h1
      refine ⟨a, fun m' hm' hp => ?_⟩
      simp only [Option.some.injEq] at hm'
      subst hm'
      exact b hp _ rfl rfl rfl
    · obtain ⟨a, b⟩ := K_persistOut p g0 s { m with seq := s.store.sender } h
      refine ⟨a, fun m' hm' hp => ?_⟩
      simp only [Option.some.injEq] at hm'
      subst hm'
      exact b hp _ rfl rfl rfl
  · split
    · exact ⟨h, fun m' hm' => by cases hm'⟩
    · obtain ⟨a, b⟩ := K_persistOut p g0 s { m with seq := s.store.sender } h
      refine ⟨a, fun m' hm' hp => ?_⟩
      simp only [Option.some.injEq] at hm'
      subst hm'
      exact b hp _ rfl rfl rfl

theorem K_prep (p : Bool) (g0 : G2) (s : Sess) (m : OutMsg) (h : K p g0 s) :
    K p g0 (prep s m).2 ∧ (∀ m', (prep s m).1 = some m' → p = true → covered (g2Of p g0 (prep s m).2) m' = true) :=
  K_prepCore p g0 s (stamp s m) h

theorem pres_queueForSend (p : Bool) (g0 : G2) (s : Sess) (m : OutMsg) : Pres p g0 s (queueForSend s m) := by
  intro h
  unfold queueForSend
  have hp := K_prep p g0 s m h
  generalize prep s m = r at hp
  obtain ⟨o, s'⟩ := r
  cases o with
  | none => exact hp.1
  | some m' => exact K_setToSend_snoc hp.1 (hp.2 m' rfl)

theorem pres_sendInReplyTo (p : Bool) (g0 : G2) (s : Sess) (m : OutMsg) : Pres p g0 s (sendInReplyTo s m) := by
  intro h
  unfold sendInReplyTo
  split
  · exact pres_queueForSend p g0 s _ h
  · have hp := K_prep p g0 s m h
    generalize prep s m = r at hp
    obtain ⟨o, s'⟩ := r
    cases o with
    | none => exact hp.1
    | some m' => exact pres_sendQueued p g0 _ (K_setToSend_snoc hp.1 (hp.2 m' rfl))

theorem pres_dropAndSend (p : Bool) (g0 : G2) (s : Sess) (m : OutMsg) : Pres p g0 s (dropAndSend s m) := by
  intro h
  unfold dropAndSend
  have hp := K_prep p g0 s m h
  generalize prep s m = r at hp
  obtain ⟨o, s'⟩ := r
  cases o with
  | none => exact hp.1
  | some m' => exact pres_sendQueued p g0 _ (K_setToSend_single hp.1 (hp.2 m' rfl))

theorem covered_of_dup (g : G2) (m : OutMsg) (h : firstTime m = false) : covered g m = true := by
  simp [covered, h]

/-- EnqueueBytesAndSend of a replayed message or gap fill -/
theorem pres_enqueueAndSend (p : Bool) (g0 : G2) (s : Sess) (m : OutMsg) (hd : firstTime m = false) :
    Pres p g0 s (enqueueAndSend s m) := by
  intro h
  unfold enqueueAndSend
  simp only []
  split
  · exact pres_sendQueued p g0 _ (K_setToSend_snoc (K_setToSend_nil h) (fun _ => covered_of_dup _ m hd))
  · exact pres_sendQueued p g0 _ (K_setToSend_snoc h (fun _ => covered_of_dup _ m hd))

theorem pres_dropAndReset (p : Bool) (g0 : G2) (s : Sess) : Pres p g0 s (dropAndReset s) := by
  intro h
  unfold dropAndReset
  exact pres_storeReset p g0 _ (K_setToSend_nil h)

theorem pres_sendLogonInReplyTo (p : Bool) (g0 : G2) (s : Sess) (r : Bool) : Pres p g0 s (sendLogonInReplyTo s r) := pres_dropAndSend p g0 s _
theorem pres_sendLogout (p : Bool) (g0 : G2) (s : Sess) : Pres p g0 s (sendLogout s) := pres_sendInReplyTo p g0 s _
theorem pres_initiateLogout (p : Bool) (g0 : G2) (s : Sess) : Pres p g0 s (initiateLogout s) := pres_sendLogout p g0 s

theorem pres_sendResendRequest (p : Bool) (g0 : G2) (s : Sess) (b e : Int) : Pres p g0 s (sendResendRequest s b e).1 := by
  unfold sendResendRequest
  simp only []
  split <;> exact pres_sendInReplyTo p g0 s _

theorem pres_doReject (p : Bool) (g0 : G2) (s : Sess) (m : InMsg) (r : Nat) (t : Option Nat) (b : Bool) :
    Pres p g0 s (doReject s m r t b) :=
  pres_sendInReplyTo p g0 s _

/-! ### replayed messages carry PossDupFlag=Y -/

theorem Fields.get_set_same (f : Fields) (t : Nat) (v : String) : (Fields.set f t v).get? t = some v := by
  unfold Fields.set Fields.get? Fields.has
  split
  · rename_i hany
    induction f with
    | nil => simp at hany
    | cons q f ih =>
      simp only [List.map_cons, List.find?_cons]
      by_cases hq : q.1 == t
      · simp [hq]
      · simp only [hq, Bool.false_eq_true, if_false]
        simp only [List.any_cons, hq, Bool.false_or] at hany
        exact ih hany
  · rename_i hany
    have : f.find? (fun q => q.1 == t) = none := by
      simp only [List.find?_eq_none]
      intro x hx hxe
      exact hany (List.any_eq_true.2 ⟨x, hx, hxe⟩)
    simp [List.find?_append, this]

theorem find_map_other (f : Fields) (t t' : Nat) (v : String) (h : t' ≠ t) :
    (List.find? (fun x => x.fst == t') (List.map (fun q => if (q.fst == t) = true then (t, v) else q) f)) =
      List.find? (fun x => x.fst == t') f := by
  induction f with
  | nil => rfl
  | cons q f ih =>
    simp only [List.map_cons, List.find?_cons]
    by_cases hq : q.1 == t
    · have hq' : q.1 = t := by simpa using hq
      have h1 : (q.1 == t') = false := by simp [hq', Ne.symm h]
      have h2 : (t == t') = false := by simp [Ne.symm h]
      simp only [hq, if_true, h1, h2]
      exact ih
    · simp only [hq, Bool.false_eq_true, if_false]
      by_cases hq2 : q.1 == t'
      · simp [hq2]
      · simp only [hq2]
        exact ih

theorem Fields.get_set_other (f : Fields) (t t' : Nat) (v : String) (h : t' ≠ t) :
    (Fields.set f t v).get? t' = f.get? t' := by
  unfold Fields.set Fields.get? Fields.has
  split
  · rw [find_map_other f t t' v h]
  · have h2 : (t == t') = false := by simp [Ne.symm h]
    simp [List.find?_append, h2]

theorem firstTime_gapFill (b e : Int) : firstTime (gapFill b e) = false := by
  simp [firstTime, gapFill, Fields.get?]

theorem firstTime_gapFillR (s : Sess) (b e : Int) : firstTime (gapFillR s b e) = false := firstTime_gapFill b e

theorem firstTime_resent (m : OutMsg) : firstTime (resent m) = false := by
  simp only [firstTime, resent]
  rw [Fields.get_set_other _ 122 43 _ (by decide), Fields.get_set_same]
  simp

/-! ### verification never touches the outbound side -/

theorem ext_verifyAppImpl (s : Sess) (m : InMsg) : Ext s (verifyAppImpl s m).1 := by
  unfold verifyAppImpl
  split
  · exact Ext.refl s
  · simp only []
    split
    · exact Ext.emit _ _ rfl
    · exact Ext.emit _ _ rfl

theorem ext_verifySelect (s : Sess) (m : InMsg) (th tl ai : Bool) : Ext s (verifySelect s m th tl ai).1 := by
  unfold verifySelect
  repeat' split
  all_goals first | exact Ext.refl s | exact ext_verifyAppImpl s m

theorem ext_incrTarget (s : Sess) : Ext s (incrTarget s) :=
  ⟨rfl, rfl, rfl, [.incT], rfl, rfl⟩

/-! ### composition lemmas: peel the outermost model function -/
section peel
variable {p : Bool} {g0 : G2} {s x : Sess}
theorem peel_incrTarget (h : Pres p g0 s x) : Pres p g0 s (incrTarget x) := h.trans ((ext_incrTarget x).pres p g0)
theorem peel_doReject (m : InMsg) (r : Nat) (t : Option Nat) (b : Bool) (h : Pres p g0 s x) : Pres p g0 s (doReject x m r t b) := h.trans (pres_doReject p g0 x m r t b)
theorem peel_initiateLogout (h : Pres p g0 s x) : Pres p g0 s (initiateLogout x) := h.trans (pres_initiateLogout p g0 x)
theorem peel_sendLogout (h : Pres p g0 s x) : Pres p g0 s (sendLogout x) := h.trans (pres_sendLogout p g0 x)
theorem peel_sendInReplyTo (m : OutMsg) (h : Pres p g0 s x) : Pres p g0 s (sendInReplyTo x m) := h.trans (pres_sendInReplyTo p g0 x m)
theorem peel_dropAndSend (m : OutMsg) (h : Pres p g0 s x) : Pres p g0 s (dropAndSend x m) := h.trans (pres_dropAndSend p g0 x m)
theorem peel_dropAndReset (h : Pres p g0 s x) : Pres p g0 s (dropAndReset x) := h.trans (pres_dropAndReset p g0 x)
theorem peel_storeReset (h : Pres p g0 s x) : Pres p g0 s x.storeReset := h.trans (pres_storeReset p g0 x)
theorem peel_sendQueued (h : Pres p g0 s x) : Pres p g0 s (sendQueued x) := h.trans (pres_sendQueued p g0 x)
theorem peel_sendLogonInReplyTo (r : Bool) (h : Pres p g0 s x) : Pres p g0 s (sendLogonInReplyTo x r) := h.trans (pres_sendLogonInReplyTo p g0 x r)
theorem peel_sendResendRequest (b e : Int) (h : Pres p g0 s x) : Pres p g0 s (sendResendRequest x b e).1 := h.trans (pres_sendResendRequest p g0 x b e)
theorem peel_sendLogonRe (r : Bool) (m : InMsg) (h : Pres p g0 s x) : Pres p g0 s (sendLogonRe x r m) := h.trans (pres_dropAndSend p g0 x _)
theorem peel_setReplyLast (v : Option Int) (hp : Pres p g0 s x) : Pres p g0 s (x.setReplyLast v) := hp.trans ((Ext.of_eq (s := x) rfl rfl rfl rfl).pres p g0)
theorem peel_emit (o : Obs) (hn : neutral o = true) (h : Pres p g0 s x) : Pres p g0 s (x.emit o) := h.trans ((Ext.emit x o hn).pres p g0)
theorem peel_setToSend_nil (h : Pres p g0 s x) : Pres p g0 s (x.setToSend []) := fun hk => K_setToSend_nil (h hk)
theorem peel_setTarget (n : Int) (h : Pres p g0 s x) : Pres p g0 s (x.setTarget n) := h.trans ((Ext.of_eq (s := x) rfl rfl rfl rfl).pres p g0)
theorem peel_setHb (hb : Int) (hp : Pres p g0 s x) : Pres p g0 s (x.setHb hb) := hp.trans ((Ext.of_eq (s := x) rfl rfl rfl rfl).pres p g0)
theorem peel_setSentReset (b : Bool) (hp : Pres p g0 s x) : Pres p g0 s (x.setSentReset b) := hp.trans ((Ext.of_eq (s := x) rfl rfl rfl rfl).pres p g0)
theorem peel_setSt (st : SState) (hp : Pres p g0 s x) : Pres p g0 s (x.setSt st) := hp.trans ((Ext.of_eq (s := x) rfl rfl rfl rfl).pres p g0)
theorem peel_setOut (b : Bool) (hp : Pres p g0 s x) : Pres p g0 s (x.setOut b) := hp.trans ((Ext.of_eq (s := x) rfl rfl rfl rfl).pres p g0)
theorem peel_setInbox (ib : List InMsg) (hp : Pres p g0 s x) : Pres p g0 s (x.setInbox ib) := hp.trans ((Ext.of_eq (s := x) rfl rfl rfl rfl).pres p g0)
theorem peel_closeInbox (hp : Pres p g0 s x) : Pres p g0 s x.closeInbox := hp.trans ((Ext.of_eq (s := x) rfl rfl rfl rfl).pres p g0)
theorem peel_setPendingStop (hp : Pres p g0 s x) : Pres p g0 s x.setPendingStop := hp.trans ((Ext.of_eq (s := x) rfl rfl rfl rfl).pres p g0)
theorem peel_setStopped (hp : Pres p g0 s x) : Pres p g0 s x.setStopped := hp.trans ((Ext.of_eq (s := x) rfl rfl rfl rfl).pres p g0)
theorem peel_openConn (hp : Pres p g0 s x) : Pres p g0 s x.openConn := hp.trans ((Ext.of_eq (s := x) rfl rfl rfl rfl).pres p g0)
theorem pres_ite {a b : Sess} (c : Prop) [Decidable c] (ha : Pres p g0 s a) (hb : Pres p g0 s b) : Pres p g0 s (if c then a else b) := by
  split <;> assumption
end peel

/-- one peeling step; extended with `macro_rules` as more lemmas become available -/
syntax "c2_step" : tactic
macro_rules | `(tactic| c2_step) => `(tactic| assumption)
macro_rules | `(tactic| c2_step) => `(tactic| exact Pres.refl _ _ _)
macro_rules | `(tactic| c2_step) => `(tactic| apply peel_incrTarget)
macro_rules | `(tactic| c2_step) => `(tactic| apply peel_doReject)
macro_rules | `(tactic| c2_step) => `(tactic| apply peel_initiateLogout)
macro_rules | `(tactic| c2_step) => `(tactic| apply peel_sendLogout)
macro_rules | `(tactic| c2_step) => `(tactic| apply peel_sendInReplyTo)
macro_rules | `(tactic| c2_step) => `(tactic| apply peel_dropAndSend)
macro_rules | `(tactic| c2_step) => `(tactic| apply peel_dropAndReset)
macro_rules | `(tactic| c2_step) => `(tactic| apply peel_storeReset)
macro_rules | `(tactic| c2_step) => `(tactic| apply peel_sendQueued)
macro_rules | `(tactic| c2_step) => `(tactic| apply peel_sendLogonInReplyTo)
macro_rules | `(tactic| c2_step) => `(tactic| apply peel_sendResendRequest)
macro_rules | `(tactic| c2_step) => `(tactic| apply peel_sendLogonRe)
macro_rules | `(tactic| c2_step) => `(tactic| apply peel_setReplyLast)
macro_rules | `(tactic| c2_step) => `(tactic| apply peel_emit _ (by simp [neutral]))
macro_rules | `(tactic| c2_step) => `(tactic| apply peel_setToSend_nil)
macro_rules | `(tactic| c2_step) => `(tactic| apply peel_setTarget)
macro_rules | `(tactic| c2_step) => `(tactic| apply peel_setHb)
macro_rules | `(tactic| c2_step) => `(tactic| apply peel_setSentReset)
macro_rules | `(tactic| c2_step) => `(tactic| apply peel_setSt)
macro_rules | `(tactic| c2_step) => `(tactic| apply peel_setOut)
macro_rules | `(tactic| c2_step) => `(tactic| apply peel_setInbox)
macro_rules | `(tactic| c2_step) => `(tactic| apply peel_closeInbox)
macro_rules | `(tactic| c2_step) => `(tactic| apply peel_setPendingStop)
macro_rules | `(tactic| c2_step) => `(tactic| apply peel_setStopped)
macro_rules | `(tactic| c2_step) => `(tactic| apply peel_openConn)
macro_rules | `(tactic| c2_step) => `(tactic| apply pres_ite)

/-- close `Pres p g0 s (f₁ (f₂ … x))` goals by peeling model functions down to an assumption or to `s` itself -/
macro "c2_peel" : tactic => `(tactic| with_reducible (repeat c2_step))

macro "c2_cases" : tactic => `(tactic| (
  (repeat' split)
  all_goals (try dsimp only)
  all_goals (repeat' split)
  all_goals (try dsimp only)
  all_goals (repeat' split)
  all_goals (try dsimp only)
  all_goals c2_peel))

theorem pres_doTargetTooLow (p : Bool) (g0 : G2) (s : Sess) (m : InMsg) : Pres p g0 s (doTargetTooLow s m).1 := by
  unfold doTargetTooLow
  c2_cases

theorem pres_processReject (p : Bool) (g0 : G2) (s : Sess) (m : InMsg) (r : Rej) : Pres p g0 s (processReject s m r).1 := by
  unfold processReject
  split
  · split
    · exact Pres.refl p g0 s
    · split
      rename_i recv exp _ _ _ _ _ _ heq
      have := pres_sendResendRequest p g0 s exp (recv - 1)
      rw [heq] at this; exact this
  · exact pres_doTargetTooLow p g0 s m
  all_goals c2_cases

theorem peel_processReject {p : Bool} {g0 : G2} {s x : Sess} (m : InMsg) (r : Rej) (h : Pres p g0 s x) :
    Pres p g0 s (processReject x m r).1 :=
  h.trans (pres_processReject p g0 x m r)
macro_rules | `(tactic| c2_step) => `(tactic| apply peel_processReject)

theorem pres_handleLogout (p : Bool) (g0 : G2) (s : Sess) (m : InMsg) : Pres p g0 s (handleLogout s m).1 := by
  unfold handleLogout
  have hv := (ext_verifySelect s m false false true).pres p g0
  generalize verifySelect s m false false true = r at hv
  obtain ⟨s', o⟩ := r
  cases o with
  | some r => exact peel_processReject m r hv
  | none => dsimp only; c2_cases

theorem pres_handleTestRequest (p : Bool) (g0 : G2) (s : Sess) (m : InMsg) : Pres p g0 s (handleTestRequest s m).1 := by
  unfold handleTestRequest
  have hv := (ext_verifySelect s m true true true).pres p g0
  generalize verifySelect s m true true true = r at hv
  obtain ⟨s', o⟩ := r
  cases o with
  | some r => exact peel_processReject m r hv
  | none => dsimp only; c2_cases

theorem pres_handleSequenceReset_core (p : Bool) (g0 : G2) (s : Sess) (m : InMsg) (gf : Bool) :
    Pres p g0 s (match verifySelect s m gf gf true with
      | (s, some r) => processReject s m r
      | (s, none) =>
        match getInt m 36 with
        | .val n =>
          if n > s.store.target then ((s.setTarget n).emit (.setT n), SState.inSession)
          else if n < s.store.target then (doReject s m 5 none false, SState.inSession)
          else (s, SState.inSession)
        | _ => (s, SState.inSession)).1 := by
  have hv := (ext_verifySelect s m gf gf true).pres p g0
  generalize verifySelect s m gf gf true = r at hv
  obtain ⟨s', o⟩ := r
  cases o with
  | some r => exact peel_processReject m r hv
  | none => dsimp only; c2_cases

theorem pres_handleSequenceReset (p : Bool) (g0 : G2) (s : Sess) (m : InMsg) : Pres p g0 s (handleSequenceReset s m).1 := by
  unfold handleSequenceReset
  split
  · exact pres_processReject p g0 s m _
  · exact pres_handleSequenceReset_core p g0 s m _

theorem pres_resendLoop (p : Bool) (g0 : G2) (s : Sess) (a b : Int) (l : List (Int × OutMsg)) :
    Pres p g0 s (resendLoop s a b l).1 := by
  induction l generalizing s a b with
  | nil => exact Pres.refl p g0 s
  | cons q rest ih =>
    obtain ⟨n, m⟩ := q
    simp only [resendLoop]
    split
    · exact ih s a (n + 1)
    · split
      · exact ih s a (n + 1)
      · try dsimp only
        split
        · exact ((pres_enqueueAndSend p g0 s _ (firstTime_gapFillR _ _ _)).trans
            (pres_enqueueAndSend p g0 _ _ (firstTime_resent m))).trans (ih _ _ _)
        · exact (pres_enqueueAndSend p g0 s _ (firstTime_resent m)).trans (ih _ _ _)

theorem pres_resendMessages (p : Bool) (g0 : G2) (s : Sess) (b e : Int) : Pres p g0 s (resendMessages s b e) := by
  unfold resendMessages
  split
  · exact Pres.refl p g0 s
  · split
    · exact pres_enqueueAndSend p g0 s _ (firstTime_gapFillR _ _ _)
    · have hl := pres_resendLoop p g0 s b b (s.store.range b e)
      generalize resendLoop s b b (s.store.range b e) = r at hl
      obtain ⟨s', x, y⟩ := r
      try dsimp only at hl ⊢
      split
      · exact hl.trans (pres_enqueueAndSend p g0 s' _ (firstTime_gapFillR _ _ _))
      · exact hl

theorem peel_resendMessages {p : Bool} {g0 : G2} {s x : Sess} (b e : Int) (h : Pres p g0 s x) :
    Pres p g0 s (resendMessages x b e) :=
  h.trans (pres_resendMessages p g0 x b e)
macro_rules | `(tactic| c2_step) => `(tactic| apply peel_resendMessages)

theorem pres_handleResendRequest (p : Bool) (g0 : G2) (s : Sess) (m : InMsg) : Pres p g0 s (handleResendRequest s m).1 := by
  unfold handleResendRequest
  have hv := (ext_verifySelect s m false false true).pres p g0
  generalize verifySelect s m false false true = r at hv
  obtain ⟨s', o⟩ := r
  simp only [] at hv
  cases o with
  | some r => exact peel_processReject m r hv
  | none => dsimp only; c2_cases

theorem pres_logonReply (p : Bool) (g0 : G2) (s : Sess) (m : InMsg) (flag : Bool) : Pres p g0 s (logonReply s m flag) := by
  unfold logonReply
  c2_cases

theorem firstTime_gapFillRe (s : Sess) (m : InMsg) (b e : Int) : firstTime (gapFillRe s m b e) = false := firstTime_gapFill b e

theorem pres_nxEval (p : Bool) (g0 : G2) (s : Sess) (m : InMsg) (ns : Int) : Pres p g0 s (nxEval s m ns).1 := by
  unfold nxEval
  split
  · split
    · split
      · split
        · exact pres_enqueueAndSend p g0 s _ (firstTime_gapFillRe _ _ _ _)
        · exact Pres.refl p g0 s
      · exact Pres.refl p g0 s
    · exact Pres.refl p g0 s
  · exact Pres.refl p g0 s

theorem pres_logonFinish (p : Bool) (g0 : G2) (s : Sess) (m : InMsg) (ns : Int) : Pres p g0 s (logonFinish s m ns).1 := by
  unfold logonFinish
  have h : Pres p g0 s (nxEval (((s.setSentReset false).emit (.armPeer (1200 * s.hb))).emit .onLogon) m ns).1 :=
    Pres.trans (by c2_peel) (pres_nxEval p g0 _ m ns)
  generalize nxEval _ m ns = r at h
  obtain ⟨x, o⟩ := r
  cases o with
  | some r => exact h
  | none =>
    dsimp only at h ⊢
    c2_cases

theorem pres_logonRefused (p : Bool) (g0 : G2) (s : Sess) (m : InMsg) : Pres p g0 s (logonRefused s m) := by
  unfold logonRefused
  c2_cases

theorem pres_logonTail (p : Bool) (g0 : G2) (s : Sess) (m : InMsg) (ns : Int) : Pres p g0 s (logonTail s m ns).1 := by
  unfold logonTail
  split
  · exact pres_logonRefused p g0 s m
  · exact (pres_logonReply p g0 s m _).trans (pres_logonFinish p g0 _ m _)

theorem pres_handleLogon (p : Bool) (g0 : G2) (s : Sess) (m : InMsg) : Pres p g0 s (handleLogon s m).1 := by
  unfold handleLogon
  split
  · exact Pres.refl p g0 s
  · generalize hs1 : (if (!s.cfg.initiator && s.cfg.refreshOnLogon) = true then s.emit Obs.refresh else s) = s1
    have h1 : Pres p g0 s s1 := by rw [← hs1]; c2_peel
    simp only []
    have hv := (ext_verifyAppImpl s1 m).pres p g0
    generalize verifyAppImpl s1 m = r at hv
    obtain ⟨s2, o⟩ := r
    simp only [] at hv
    have h2 := h1.trans hv
    cases o with
    | some r => exact h2
    | none =>
      simp only []
      generalize hs3 : (if ((if s2.cfg.initiator = true then false else s2.cfg.resetOnLogon) || logonResetFlag m && !s2.sentReset) = true
          then dropAndReset s2 else s2) = s3
      have h3 : Pres p g0 s s3 := by rw [← hs3]; c2_peel
      have hv2 := (ext_verifySelect s3 m false true false).pres p g0
      generalize verifySelect s3 m false true false = r2 at hv2
      obtain ⟨s4, o2⟩ := r2
      simp only [] at hv2
      have h4 := h3.trans hv2
      cases o2 with
      | some r => exact h4
      | none => exact h4.trans (pres_logonTail p g0 s4 m _)

theorem pres_inSessionFixMsgIn (p : Bool) (g0 : G2) (s : Sess) (m : InMsg) : Pres p g0 s (inSessionFixMsgIn s m).1 := by
  unfold inSessionFixMsgIn
  simp only []
  split
  · have hl := pres_handleLogon p g0 s m
    generalize handleLogon s m = r at hl
    obtain ⟨s', o⟩ := r
    cases o with
    | some e => exact hl.trans (pres_sendInReplyTo p g0 s' ((mkOut "5" []).inReplyTo m))
    | none => exact hl
  · split
    · exact pres_handleLogout p g0 s m
    · split
      · exact pres_handleResendRequest p g0 s m
      · split
        · exact pres_handleSequenceReset p g0 s m
        · split
          · exact pres_handleTestRequest p g0 s m
          · have hv := (ext_verifySelect s m true true true).pres p g0
            generalize verifySelect s m true true true = r at hv
            obtain ⟨s', o⟩ := r
            simp only [] at hv ⊢
            cases o with
            | some r => exact peel_processReject m r hv
            | none => exact peel_incrTarget hv

theorem K_drainStash (p : Bool) (g0 : G2) (fuel : Nat) (s : Sess) (stash : List (Int × InMsg)) (last : SState)
    (h : K p g0 s) : K p g0 (drainStash fuel s stash last).1 := by
  induction fuel generalizing s stash last with
  | zero => exact h
  | succ n ih =>
    unfold drainStash
    split
    · exact h
    · simp only []
      rename_i nn m _
      have h1 := pres_inSessionFixMsgIn p g0 s m h
      generalize inSessionFixMsgIn s m = r at h1
      obtain ⟨s', nx⟩ := r
      simp only [] at h1 ⊢
      split
      · exact h1
      · exact ih _ _ _ h1

theorem K_sRR_eq {p : Bool} {g0 : G2} {s : Sess} {b e : Int} {r : Sess × Int × Int}
    (hr : sendResendRequest s b e = r) (h : K p g0 s) : K p g0 r.1 := by
  rw [← hr]; exact pres_sendResendRequest p g0 s b e h

theorem K_drain_eq {p : Bool} {g0 : G2} {fuel : Nat} {s : Sess} {stash : List (Int × InMsg)} {last : SState}
    {r : Sess × SState × List (Int × InMsg)} (hr : drainStash fuel s stash last = r) (h : K p g0 s) : K p g0 r.1 := by
  rw [← hr]; exact K_drainStash p g0 fuel s stash last h

theorem K_resendFixMsgIn (p : Bool) (g0 : G2) (s : Sess) (stash : List (Int × InMsg)) (cur fin : Int) (m : InMsg)
    (h : K p g0 s) : K p g0 (resendFixMsgIn s stash cur fin m).1 := by
  unfold resendFixMsgIn
  have h1 := pres_inSessionFixMsgIn p g0 s m h
  generalize inSessionFixMsgIn s m = r at h1
  obtain ⟨s', nx⟩ := r
  simp only [] at h1 ⊢
  repeat' split
  all_goals (try dsimp only)
  all_goals first
    | exact h1
    | exact pres_sendResendRequest p g0 _ _ _ h1
    | exact K_sRR_eq (by assumption) h1
    | exact K_drain_eq (by assumption) h1

theorem K_shutdownWithReason (p : Bool) (g0 : G2) (s : Sess) (m : InMsg) (incr : Bool) (h : K p g0 s) :
    K p g0 (shutdownWithReason s m incr).1 := by
  unfold shutdownWithReason
  have : Pres p g0 s (if incr = true then incrTarget (dropAndSend s ((mkOut "5" []).inReplyTo m)) else dropAndSend s ((mkOut "5" []).inReplyTo m)) := by c2_peel
  exact this h

theorem K_handleLogon_eq {p : Bool} {g0 : G2} {s : Sess} {m : InMsg} {r : Sess × Option LogonErr}
    (hr : handleLogon s m = r) (h : K p g0 s) : K p g0 r.1 := by
  rw [← hr]; exact pres_handleLogon p g0 s m h

theorem K_logonFixMsgIn (p : Bool) (g0 : G2) (s : Sess) (m : InMsg) (h : K p g0 s) : K p g0 (logonFixMsgIn s m).1 := by
  unfold logonFixMsgIn
  split
  · exact h
  · repeat' split
    all_goals (try dsimp only)
    all_goals (
      have hh := K_handleLogon_eq (by assumption : handleLogon s m = _) h
      first
        | exact hh
        | exact K_shutdownWithReason p g0 _ _ _ hh
        | exact K_sRR_eq (by assumption) hh)

theorem K_fixMsgInCore (p : Bool) (g0 : G2) (s : Sess) (m : InMsg) (h : K p g0 s) : K p g0 (fixMsgInCore s m).1 := by
  unfold fixMsgInCore
  split
  · exact h
  · exact h
  · exact K_logonFixMsgIn p g0 s m h
  · have h1 := pres_inSessionFixMsgIn p g0 s m h
    generalize inSessionFixMsgIn s m = r at h1
    obtain ⟨s', nx⟩ := r
    dsimp only
    split <;> exact h1
  · exact pres_inSessionFixMsgIn p g0 s m h
  · exact pres_inSessionFixMsgIn p g0 s m h
  · exact K_resendFixMsgIn p g0 s _ _ _ m h
  · exact K_resendFixMsgIn p g0 s _ _ _ m h

theorem pres_discMid (p : Bool) (g0 : G2) (s : Sess) : Pres p g0 s (discMid s) := by
  unfold discMid
  simp only []
  c2_peel

theorem K_mutual (p : Bool) (g0 : G2) : ∀ fuel : Nat,
    (∀ s next, K p g0 s → K p g0 (setState fuel s next)) ∧
    (∀ s, K p g0 s → K p g0 (drainIn fuel s)) ∧
    (∀ s m, K p g0 s → K p g0 (incoming fuel s m)) ∧
    (∀ s a b, K p g0 s → K p g0 (checkSessionTime fuel s a b)) := by
  intro fuel
  induction fuel with
  | zero =>
    refine ⟨?_, ?_, ?_, ?_⟩
    · intro s next h; unfold setState; exact (by c2_peel : Pres p g0 s _) h
    · intro s h; unfold drainIn; exact h
    · intro s m h; unfold incoming; exact h
    · intro s a b h; unfold checkSessionTime; exact h
  | succ n ih =>
    obtain ⟨ihS, ihD, ihI, ihC⟩ := ih
    refine ⟨?_, ?_, ?_, ?_⟩
    · intro s next h
      unfold setState
      simp only []
      split
      · generalize hx : (if s.st.connected = true then (drainIn n (discMid (drainIn n s))).closeInbox else s) = x
        have hxJ : K p g0 x := by
          rw [← hx]; split
          · exact (by c2_peel : Pres p g0 (drainIn n (discMid (drainIn n s))) _) (ihD _ (pres_discMid p g0 _ (ihD s h)))
          · exact h
        exact (by c2_peel : Pres p g0 x _) hxJ
      · exact (by c2_peel : Pres p g0 s _) h
    · intro s h
      unfold drainIn
      split
      · exact h
      · split
        · exact h
        · exact ihD _ (ihI _ _ ((by c2_peel : Pres p g0 s _) h))
    · intro s m h
      unfold incoming
      simp only []
      have h1 := ihC s true true h
      generalize checkSessionTime n s true true = s1 at h1
      split
      · exact h1
      · cases m with
        | none => exact (by c2_peel : Pres p g0 s1 _) h1
        | some m =>
          simp only []
          have hf := K_fixMsgInCore p g0 s1 m h1
          generalize fixMsgInCore s1 m = r at hf
          obtain ⟨s2, nx⟩ := r
          exact (by c2_peel : Pres p g0 (setState n s2 nx) _) (ihS s2 nx hf)
    · intro s a b h
      unfold checkSessionTime
      simp only []
      split
      · exact ihS _ _ ((by c2_peel : Pres p g0 s _) h)
      · generalize hx : (if (!s.st.sessionTime) = true then setState n s SState.latent else s) = x
        have hxJ : K p g0 x := by
          rw [← hx]; split
          · exact ihS _ _ h
          · exact h
        split
        · exact ihS _ _ ((by c2_peel : Pres p g0 x _) hxJ)
        · exact hxJ

theorem pres_inSessionTimeout (p : Bool) (g0 : G2) (s : Sess) (e : TimerEv) : Pres p g0 s (inSessionTimeout s e).1 := by
  unfold inSessionTimeout
  c2_cases

theorem K_ist_eq {p : Bool} {g0 : G2} {s : Sess} {e : TimerEv} {r : Sess × Bool} (hr : inSessionTimeout s e = r)
    (h : K p g0 s) : K p g0 r.1 := by
  rw [← hr]; exact pres_inSessionTimeout p g0 s e h

theorem K_timeoutCore (p : Bool) (g0 : G2) (s : Sess) (e : TimerEv) (h : K p g0 s) : K p g0 (timeoutCore s e).1 := by
  unfold timeoutCore
  repeat' split
  all_goals (try dsimp only)
  all_goals first
    | exact h
    | exact pres_inSessionTimeout p g0 s e h
    | exact K_ist_eq (by assumption) h

theorem K_connect (p : Bool) (g0 : G2) (s : Sess) (h : K p g0 s) : K p g0 (connect s).1 := by
  unfold connect
  repeat' split
  all_goals (try simp only [apply_ite Prod.fst])
  all_goals exact (by c2_peel : Pres p g0 s _) h

theorem K_stopNext (p : Bool) (g0 : G2) (s : Sess) (h : K p g0 s) : K p g0 (stopNext s).1 := by
  unfold stopNext
  repeat' split
  all_goals (try dsimp only)
  all_goals first | exact h | exact (by c2_peel : Pres p g0 s _) h

theorem peel_setLastChecked {p : Bool} {g0 : G2} {s x : Sess} (n : Int) (hp : Pres p g0 s x) : Pres p g0 s (x.setLastChecked n) :=
  hp.trans ((Ext.of_eq (s := x) rfl rfl rfl rfl).pres p g0)
macro_rules | `(tactic| c2_step) => `(tactic| apply peel_setLastChecked)

theorem pres_checkResetTime (p : Bool) (g0 : G2) (s : Sess) (now : Int) : Pres p g0 s (checkResetTime s now) := by
  unfold checkResetTime
  repeat' split
  all_goals (try dsimp only)
  all_goals c2_peel

theorem K_stepCore (p : Bool) (g0 : G2) (s : Sess) (e : Ev) (h : K p g0 s) : K p g0 (stepCore s e).1 := by
  obtain ⟨hS, hD, hI, hC⟩ := K_mutual p g0 (fuelOf s)
  unfold stepCore
  simp only []
  cases e with
  | connect => exact K_connect p g0 s h
  | incomingMsg m => exact hI s m h
  | arrive m => dsimp only; split <;> first | exact h | exact (by c2_peel : Pres p g0 s _) h
  | pop =>
    dsimp only
    split
    · exact h
    · split
      · exact h
      · exact hI _ _ ((by c2_peel : Pres p g0 s _) h)
  | timeout ev =>
    dsimp only
    have h1 := hC s true true h
    have h2 := K_timeoutCore p g0 _ ev h1
    generalize timeoutCore (checkSessionTime (fuelOf s) s true true) ev = r at h2
    obtain ⟨s2, nx⟩ := r
    exact hS s2 nx h2
  | disconnected => dsimp only; split <;> first | exact h | exact hS _ _ h
  | stop =>
    dsimp only
    have h1 : K p g0 s.setPendingStop := (by c2_peel : Pres p g0 s _) h
    have h2 := K_stopNext p g0 _ h1
    generalize stopNext s.setPendingStop = r at h2
    obtain ⟨s2, nx⟩ := r
    exact hS s2 nx h2
  | send m =>
    dsimp only
    have hp := K_prep p g0 s m h
    generalize prep s m = r at hp
    obtain ⟨o, s2⟩ := r
    cases o with
    | none => exact hp.1
    | some m' => exact K_setToSend_snoc hp.1 (hp.2 m' rfl)
  | flush =>
    dsimp only
    have h1 := hC s true true h
    split
    · exact pres_sendQueued p g0 _ h1
    · exact K_setToSend_nil h1
  | sessionTime r sm => exact hC s r sm h
  | resetTime now => exact pres_checkResetTime p g0 s now h

end Qfx.Sess.C02
