/-
  C05 helper lemmas, part i: the degenerate configurations with an empty CompID.  No message can then pass the CompID check
  of the engine that receives it (`checkCompID` refuses an empty SenderCompID / TargetCompID whatever the validator
  settings are), so no Logon is ever accepted and nothing is ever delivered (generic frame machinery of Lemmas/SessPool
  with the policy "no application delivery").
-/
import Qfx.Lemmas.LinkC05h
namespace Qfx.Link
open Qfx Qfx.Sess

/-- "this observation is not a delivery to the application" -/
def NoApp : Obs → Prop := fun o => ∀ sq t, o ≠ .fromApp sq t

instance noAppPolicy : Policy NoApp TS where
  sRefl := fun _ => trivial
  sTrans := fun _ _ => trivial
  nWire := fun _ _ _ h => by cases h
  nSaved := fun _ _ _ _ _ h => by cases h
  nIncS := fun _ _ h => by cases h
  nIncT := fun _ _ h => by cases h
  nSetT := fun _ _ _ h => by cases h
  nArm := fun _ _ _ h => by cases h
  nClosed := fun _ _ h => by cases h
  nOnLogout := fun _ _ h => by cases h
  nRefresh := fun _ _ h => by cases h
  sPersist := fun _ _ _ => trivial
  sIncS := fun _ => trivial
  sTarget := fun _ _ _ => trivial

theorem noApp_resetOK : ResetOK NoApp TS := ⟨(fun _ _ h => by cases h), fun _ => trivial⟩

/-- a message that cannot pass the CompID check of an engine configured with `cfg` -/
def Bad (cfg : Cfg) (im : InMsg) : Prop := ¬ CompOK cfg im

theorem cbObs_admin_noApp (s' : Sess) (m : InMsg) (hk : kindOf m = "A") : NoApp (cbObs s' m) := by
  intro sq t h
  unfold cbObs at h
  rw [hk] at h
  simp [isAdminKind] at h

theorem poolHyp_bad (cfg : Cfg) : PoolHyp NoApp TS (Bad cfg) cfg :=
  fun m hm => ⟨hm, fun hg _ => absurd hg.comp hm, fun hk _ s' => cbObs_admin_noApp s' m hk, (fun _ hg _ _ _ _ => absurd hg.comp hm),
    Or.inl noApp_resetOK⟩

/-- with an empty CompID in its configuration an engine refuses every message -/
theorem bad_any (cfg : Cfg) (h : cfg.sender = "" ∨ cfg.target = "") (im : InMsg) : Bad cfg im := by
  intro hc
  rcases h with h | h
  · have := hc.2.2.2; rw [h] at this; simp at this
  · have := hc.2.2.1; rw [h] at this; simp at this

theorem deliveredSeqs_noApp (obs : List Obs) (h : ∀ o ∈ obs, NoApp o) : deliveredSeqs obs = [] := by
  induction obs with
  | nil => rfl
  | cons o obs ih =>
    have ho := h o List.mem_cons_self
    have := ih (fun o' ho' => h o' (List.mem_cons_of_mem _ ho'))
    unfold deliveredSeqs at this ⊢
    rw [List.filterMap_cons]
    cases o with
    | fromApp sq t => exact absurd rfl (ho sq t)
    | _ => simpa using this

/-- nothing has been delivered and everything buffered or stashed is refused by the CompID check -/
structure LInvD (l : LSt) : Prop where
  da : l.dlvA = []
  db : l.dlvB = []
  pa : PoolInv (Bad l.a.cfg) l.a
  pb : PoolInv (Bad l.b.cfg) l.b

theorem step_bad (s : Sess) (e : Ev) (hp : PoolInv (Bad s.cfg) s) (he : EvOK NoApp TS (Bad s.cfg) s.cfg e) :
    deliveredSeqs (step s e).2.1 = [] ∧ (step s e).1.cfg = s.cfg ∧ PoolInv (Bad s.cfg) (step s e).1 := by
  obtain ⟨h1, _, h3, h4⟩ := step_good (N := NoApp) (S := TS) s e (poolHyp_bad _) (Or.inl noApp_resetOK) hp he
  exact ⟨deliveredSeqs_noApp _ h1, h3, h4⟩

def sideCfg (l : LSt) : Side → Cfg
  | .A => l.a.cfg
  | .B => l.b.cfg

theorem LInvD_onSide {l : LSt} (h : LInvD l) (side : Side) (e : Ev)
    (he : EvOK NoApp TS (Bad (sideCfg l side)) (sideCfg l side) e) :
    LInvD (onSide l side e).1 ∧ (onSide l side e).1.a.cfg = l.a.cfg ∧ (onSide l side e).1.b.cfg = l.b.cfg := by
  cases side with
  | A =>
    obtain ⟨h1, h2, h3⟩ := step_bad l.a e h.pa he
    simp only [onSide, h1, List.map_nil, List.append_nil]
    exact ⟨⟨h.da, h.db, by rw [h2]; exact h3, h.pb⟩, h2, trivial⟩
  | B =>
    obtain ⟨h1, h2, h3⟩ := step_bad l.b e h.pb he
    simp only [onSide, h1, List.map_nil, List.append_nil]
    exact ⟨⟨h.da, h.db, h.pa, by rw [h2]; exact h3⟩, trivial, h2⟩

theorem poolInv_restart (s : Sess) : PoolInv (Bad (restartSess s).cfg) (restartSess s) :=
  ⟨(by intro m hm; cases hm), (by intro p hp; cases hp)⟩

theorem evOK_trivial (side : Side) (l : LSt) (e : Ev) (h : ∀ P cfg, EvOK NoApp TS P cfg e) :
    EvOK NoApp TS (Bad (sideCfg l side)) (sideCfg l side) e := h _ _

theorem LInvD_lstep {cfgA cfgB : Cfg} (hbad : (cfgA.sender = "" ∨ cfgA.target = "") ∧ (cfgB.sender = "" ∨ cfgB.target = ""))
    {l : LSt} (h : LInvD l) (hca : l.a.cfg = cfgA) (hcb : l.b.cfg = cfgB) (e : LEv) :
    LInvD (lstep l e).1 ∧ (lstep l e).1.a.cfg = cfgA ∧ (lstep l e).1.b.cfg = cfgB := by
  cases e with
  | connect =>
    obtain ⟨k1, a1, b1⟩ := LInvD_onSide h .A .connect trivial
    obtain ⟨k2, a2, b2⟩ := LInvD_onSide k1 .B .connect trivial
    exact ⟨k2, (a2.trans a1).trans hca, (b2.trans b1).trans hcb⟩
  | send side p =>
    obtain ⟨k1, a1, b1⟩ := LInvD_onSide h side (.send { kind := "D", seq := 0, f := [(9000, p)] })
      (evOK_trivial side l _ (fun _ _ => Or.inl noApp_resetOK))
    simp only [lstep]
    split
    · cases side <;> exact ⟨⟨k1.da, k1.db, k1.pa, k1.pb⟩, a1.trans hca, b1.trans hcb⟩
    · exact ⟨k1, a1.trans hca, b1.trans hcb⟩
  | deliver to =>
    cases to with
    | A =>
      cases hq : l.b2a with
      | nil => simp only [lstep, hq]; exact ⟨h, hca, hcb⟩
      | cons m rest =>
        simp only [lstep, hq]
        have h1 : LInvD { l with b2a := rest, rcvA := noteRcv l.rcvA (toIn l.b.cfg m) } := ⟨h.da, h.db, h.pa, h.pb⟩
        obtain ⟨k1, a1, b1⟩ := LInvD_onSide h1 .A (.incomingMsg (some (toIn l.b.cfg m)))
          (by intro x _; exact bad_any _ (by show l.a.cfg.sender = "" ∨ l.a.cfg.target = ""; rw [hca]; exact hbad.1) x)
        exact ⟨k1, a1.trans hca, b1.trans hcb⟩
    | B =>
      cases hq : l.a2b with
      | nil => simp only [lstep, hq]; exact ⟨h, hca, hcb⟩
      | cons m rest =>
        simp only [lstep, hq]
        have h1 : LInvD { l with a2b := rest, rcvB := noteRcv l.rcvB (toIn l.a.cfg m) } := ⟨h.da, h.db, h.pa, h.pb⟩
        obtain ⟨k1, a1, b1⟩ := LInvD_onSide h1 .B (.incomingMsg (some (toIn l.a.cfg m)))
          (by intro x _; exact bad_any _ (by show l.b.cfg.sender = "" ∨ l.b.cfg.target = ""; rw [hcb]; exact hbad.2) x)
        exact ⟨k1, a1.trans hca, b1.trans hcb⟩
  | cut =>
    have h0 : LInvD { l with a2b := [], b2a := [] } := ⟨h.da, h.db, h.pa, h.pb⟩
    obtain ⟨k1, a1, b1⟩ := LInvD_onSide h0 .A .disconnected trivial
    obtain ⟨k2, a2, b2⟩ := LInvD_onSide k1 .B .disconnected trivial
    exact ⟨⟨k2.da, k2.db, k2.pa, k2.pb⟩, (a2.trans a1).trans hca, (b2.trans b1).trans hcb⟩
  | restart side =>
    cases side with
    | A => exact ⟨⟨h.da, h.db, poolInv_restart _, h.pb⟩, hca, hcb⟩
    | B => exact ⟨⟨h.da, h.db, h.pa, poolInv_restart _⟩, hca, hcb⟩
  | timer side ev =>
    obtain ⟨k1, a1, b1⟩ := LInvD_onSide h side (.timeout ev) (evOK_trivial side l _ (fun _ _ => trivial))
    exact ⟨k1, a1.trans hca, b1.trans hcb⟩
  | flush side =>
    obtain ⟨k1, a1, b1⟩ := LInvD_onSide h side .flush (evOK_trivial side l _ (fun _ _ => trivial))
    exact ⟨k1, a1.trans hca, b1.trans hcb⟩

theorem LInvD_run {cfgA cfgB : Cfg} (hbad : (cfgA.sender = "" ∨ cfgA.target = "") ∧ (cfgB.sender = "" ∨ cfgB.target = ""))
    (evs : List LEv) : ∀ l : LSt, LInvD l → l.a.cfg = cfgA → l.b.cfg = cfgB → LInvD (runL l evs) := by
  induction evs with
  | nil => intro l h _ _; exact h
  | cons e es ih =>
    intro l h ha hb
    obtain ⟨k, a, b⟩ := LInvD_lstep hbad h ha hb e
    exact ih _ k a b

theorem LInvD_init (cfgA cfgB : Cfg) : LInvD (linkInit cfgA cfgB) :=
  ⟨rfl, rfl, ⟨(by intro m hm; cases hm), (by intro p hp; cases hp)⟩, ⟨(by intro m hm; cases hm), (by intro p hp; cases hp)⟩⟩

theorem safe_of_LInvD {l : LSt} (h : LInvD l) : safe l.sentA l.sentB l.dlvA l.dlvB = true := by
  unfold safe; rw [h.da, h.db]; simp [isPrefix]

/-! ### an application message with an empty payload value -/

theorem bsName_ne_empty (n : Nat) : bsName n ≠ "" := by
  unfold bsName
  split <;> decide

/-- the default validator with ValidateFieldsHaveValues on (its default) refuses an application message whose payload id
    is empty: tag specified without a value, RefTagID 9000 -/
theorem validate_empty_payload (rcfg cfg : Cfg) (n : Int) (hs : cfg.sender ≠ "") (ht : cfg.target ≠ "")
    (happ : rcfg.validator.app = none) (hhv : rcfg.validator.settings.checkHaveValues = true) :
    validate rcfg (toIn cfg (appMsg n "")) = some (noValue 9000) := by
  have ne : ∀ v : String, v ≠ "" → (wireValue v).isEmpty = false := fun v h => wireValue_nonempty v ((isEmpty_false_iff _).2 h)
  have h1 := ne _ (bsName_ne_empty cfg.bs)
  have h2 := ne _ hs
  have h3 := ne _ ht
  have h4 := ne _ (toString_int_ne_empty n)
  have h5 : (wireValue "D").isEmpty = false := ne _ (by decide)
  have h6 : (wireValue "@0").isEmpty = false := ne _ (by decide)
  have h7 : (wireValue "").isEmpty = true := by rfl
  have hd : dupF (appMsg n "") = [] := by simp [dupF, appMsg, Qfx.Link.get?_cons, Qfx.Link.get?_nil]
  have ho : origF (appMsg n "") = [] := by simp [origF, appMsg, Fields.has]
  have hr : restF (appMsg n "") = [(9000, "")] := by simp [restF, appMsg]
  rw [validate_noDict rcfg _ happ, hdr_has35 _ _ (toIn_has35 cfg _)]
  simp only [Bool.not_true, Bool.false_eq_true, if_false]
  have hfields : (toPMsg rcfg.validator.tr (toIn cfg (appMsg n ""))).fields =
      [tvOf (8, bsName cfg.bs), { tag := 9, value := [48] }, tvOf (35, "D"), tvOf (49, cfg.sender), tvOf (56, cfg.target),
       tvOf (34, toString n), tvOf (52, "@0"), tvOf (9000, ""), { tag := 10, value := [48, 48, 48] }] := by
    unfold toPMsg wireFields
    rw [toIn_f, hd, ho, hr]
    rfl
  unfold Validate.validateFieldContent
  rw [hfields, hhv]
  simp only [Bool.not_true, Bool.false_and, Bool.false_eq_true, if_false]
  have hh : ∀ t, t ∈ [8, 9, 35, 49, 56, 34, 52] → Validate.isHeaderTag t = true := by decide
  simp only [Validate.fieldContentLoop, tvOf, Bool.true_and, h1, h2, h3, h4, h5, h6, h7, Bool.false_eq_true, if_false, if_true,
    hh 8 (by decide), hh 9 (by decide), hh 35 (by decide), hh 49 (by decide), hh 56 (by decide), hh 34 (by decide), hh 52 (by decide),
    show ([48] : Bytes).isEmpty = false from rfl]
  rfl

end Qfx.Link
