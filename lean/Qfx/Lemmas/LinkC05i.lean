/-
  C05 helper lemmas, part i: the degenerate configurations with an empty CompID.  Every message either engine writes then
  carries an empty header value, the peer's validator refuses it before any callback, so nothing is ever delivered
  (generic frame machinery of Lemmas/SessPool with the policy "no application delivery").
-/
import Qfx.Lemmas.LinkC05h
namespace Qfx.Link
open Qfx Qfx.Sess

/-- "this observation is not a delivery to the application" -/
def NoApp : Obs → Prop := fun o => ∀ sq t, o ≠ .fromApp sq t

instance noAppPolicy : Policy NoApp TS where
  sRefl := fun _ => trivial
  sTrans := fun _ _ => trivial
  nWire := fun _ _ _ h => by cases h
  nSaved := fun _ _ _ _ _ h => by cases h
  nIncS := fun _ _ h => by cases h
  nIncT := fun _ _ h => by cases h
  nSetT := fun _ _ _ h => by cases h
  nArm := fun _ _ _ h => by cases h
  nClosed := fun _ _ h => by cases h
  nOnLogout := fun _ _ h => by cases h
  nRefresh := fun _ _ h => by cases h
  sPersist := fun _ _ _ => trivial
  sIncS := fun _ => trivial
  sTarget := fun _ _ _ => trivial

theorem noApp_resetOK : ResetOK NoApp TS := ⟨(fun _ _ h => by cases h), fun _ => trivial⟩

/-- a message with an empty value somewhere -/
def Bad (im : InMsg) : Prop := ¬ NoEmpty im

theorem poolHyp_bad (cfg : Cfg) : PoolHyp NoApp TS Bad cfg :=
  fun _ hm => ⟨hm, fun hg _ => absurd hg.valid hm, fun _ hv _ => absurd hv hm, (fun _ _ _ _ _ h => by cases h), Or.inl noApp_resetOK⟩

theorem bad_toIn (cfg : Cfg) (m : OutMsg) (h : cfg.sender = "" ∨ cfg.target = "") : Bad (toIn cfg m) := by
  intro hne
  rcases h with h | h
  · have := hne (49, cfg.sender) (by rw [toIn_f]; simp)
    rw [h] at this; simp at this
  · have := hne (56, cfg.target) (by rw [toIn_f]; simp)
    rw [h] at this; simp at this

theorem deliveredSeqs_noApp (obs : List Obs) (h : ∀ o ∈ obs, NoApp o) : deliveredSeqs obs = [] := by
  induction obs with
  | nil => rfl
  | cons o obs ih =>
    have ho := h o List.mem_cons_self
    have := ih (fun o' ho' => h o' (List.mem_cons_of_mem _ ho'))
    unfold deliveredSeqs at this ⊢
    rw [List.filterMap_cons]
    cases o with
    | fromApp sq t => exact absurd rfl (ho sq t)
    | _ => simpa using this

/-- nothing has been delivered and everything buffered or stashed is refused by the validator -/
structure LInvD (l : LSt) : Prop where
  da : l.dlvA = []
  db : l.dlvB = []
  pa : PoolInv Bad l.a
  pb : PoolInv Bad l.b

theorem step_bad (s : Sess) (e : Ev) (hp : PoolInv Bad s) (he : EvOK NoApp TS Bad s.cfg e) :
    deliveredSeqs (step s e).2.1 = [] ∧ (step s e).1.cfg = s.cfg ∧ PoolInv Bad (step s e).1 := by
  obtain ⟨h1, _, h3, h4⟩ := step_good (N := NoApp) (S := TS) s e (poolHyp_bad _) (Or.inl noApp_resetOK) hp he
  exact ⟨deliveredSeqs_noApp _ h1, h3, h4⟩

theorem LInvD_onSide {l : LSt} (h : LInvD l) (side : Side) (e : Ev) (he : ∀ cfg, EvOK NoApp TS Bad cfg e) :
    LInvD (onSide l side e).1 ∧ (onSide l side e).1.a.cfg = l.a.cfg ∧ (onSide l side e).1.b.cfg = l.b.cfg := by
  cases side with
  | A =>
    obtain ⟨h1, h2, h3⟩ := step_bad l.a e h.pa (he _)
    simp only [onSide, h1, List.map_nil, List.append_nil]
    exact ⟨⟨h.da, h.db, h3, h.pb⟩, h2, trivial⟩
  | B =>
    obtain ⟨h1, h2, h3⟩ := step_bad l.b e h.pb (he _)
    simp only [onSide, h1, List.map_nil, List.append_nil]
    exact ⟨⟨h.da, h.db, h.pa, h3⟩, trivial, h2⟩

theorem poolInv_restart (s : Sess) : PoolInv Bad (restartSess s) := ⟨(by intro m hm; cases hm), (by intro p hp; cases hp)⟩

theorem LInvD_lstep {cfgA cfgB : Cfg} (hbad : (cfgA.sender = "" ∨ cfgA.target = "") ∧ (cfgB.sender = "" ∨ cfgB.target = ""))
    {l : LSt} (h : LInvD l) (hca : l.a.cfg = cfgA) (hcb : l.b.cfg = cfgB) (e : LEv) :
    LInvD (lstep l e).1 ∧ (lstep l e).1.a.cfg = cfgA ∧ (lstep l e).1.b.cfg = cfgB := by
  cases e with
  | connect =>
    obtain ⟨k1, a1, b1⟩ := LInvD_onSide h .A .connect (fun _ => trivial)
    obtain ⟨k2, a2, b2⟩ := LInvD_onSide k1 .B .connect (fun _ => trivial)
    exact ⟨k2, (a2.trans a1).trans hca, (b2.trans b1).trans hcb⟩
  | send side p =>
    obtain ⟨k1, a1, b1⟩ := LInvD_onSide h side (.send { kind := "D", seq := 0, f := [(9000, p)] }) (fun _ => Or.inl noApp_resetOK)
    simp only [lstep]
    split
    · cases side <;> exact ⟨⟨k1.da, k1.db, k1.pa, k1.pb⟩, a1.trans hca, b1.trans hcb⟩
    · exact ⟨k1, a1.trans hca, b1.trans hcb⟩
  | deliver to =>
    cases to with
    | A =>
      cases hq : l.b2a with
      | nil => simp only [lstep, hq]; exact ⟨h, hca, hcb⟩
      | cons m rest =>
        simp only [lstep, hq]
        have h1 : LInvD { l with b2a := rest, rcvA := noteRcv l.rcvA (toIn l.b.cfg m) } := ⟨h.da, h.db, h.pa, h.pb⟩
        obtain ⟨k1, a1, b1⟩ := LInvD_onSide h1 .A (.incomingMsg (some (toIn l.b.cfg m)))
          (by intro _ x hx; cases hx; exact bad_toIn _ _ (by rw [hcb]; exact hbad.2))
        exact ⟨k1, a1.trans hca, b1.trans hcb⟩
    | B =>
      cases hq : l.a2b with
      | nil => simp only [lstep, hq]; exact ⟨h, hca, hcb⟩
      | cons m rest =>
        simp only [lstep, hq]
        have h1 : LInvD { l with a2b := rest, rcvB := noteRcv l.rcvB (toIn l.a.cfg m) } := ⟨h.da, h.db, h.pa, h.pb⟩
        obtain ⟨k1, a1, b1⟩ := LInvD_onSide h1 .B (.incomingMsg (some (toIn l.a.cfg m)))
          (by intro _ x hx; cases hx; exact bad_toIn _ _ (by rw [hca]; exact hbad.1))
        exact ⟨k1, a1.trans hca, b1.trans hcb⟩
  | cut =>
    have h0 : LInvD { l with a2b := [], b2a := [] } := ⟨h.da, h.db, h.pa, h.pb⟩
    obtain ⟨k1, a1, b1⟩ := LInvD_onSide h0 .A .disconnected (fun _ => trivial)
    obtain ⟨k2, a2, b2⟩ := LInvD_onSide k1 .B .disconnected (fun _ => trivial)
    exact ⟨⟨k2.da, k2.db, k2.pa, k2.pb⟩, (a2.trans a1).trans hca, (b2.trans b1).trans hcb⟩
  | restart side =>
    cases side with
    | A => exact ⟨⟨h.da, h.db, poolInv_restart _, h.pb⟩, hca, hcb⟩
    | B => exact ⟨⟨h.da, h.db, h.pa, poolInv_restart _⟩, hca, hcb⟩
  | timer side ev =>
    obtain ⟨k1, a1, b1⟩ := LInvD_onSide h side (.timeout ev) (fun _ => trivial)
    exact ⟨k1, a1.trans hca, b1.trans hcb⟩
  | flush side =>
    obtain ⟨k1, a1, b1⟩ := LInvD_onSide h side .flush (fun _ => trivial)
    exact ⟨k1, a1.trans hca, b1.trans hcb⟩

theorem LInvD_run {cfgA cfgB : Cfg} (hbad : (cfgA.sender = "" ∨ cfgA.target = "") ∧ (cfgB.sender = "" ∨ cfgB.target = ""))
    (evs : List LEv) : ∀ l : LSt, LInvD l → l.a.cfg = cfgA → l.b.cfg = cfgB → LInvD (runL l evs) := by
  induction evs with
  | nil => intro l h _ _; exact h
  | cons e es ih =>
    intro l h ha hb
    obtain ⟨k, a, b⟩ := LInvD_lstep hbad h ha hb e
    exact ih _ k a b

theorem LInvD_init (cfgA cfgB : Cfg) : LInvD (linkInit cfgA cfgB) :=
  ⟨rfl, rfl, ⟨(by intro m hm; cases hm), (by intro p hp; cases hp)⟩, ⟨(by intro m hm; cases hm), (by intro p hp; cases hp)⟩⟩

theorem safe_of_LInvD {l : LSt} (h : LInvD l) : safe l.sentA l.sentB l.dlvA l.dlvB = true := by
  unfold safe; rw [h.da, h.db]; simp [isPrefix]

/-! ### an application message with an empty payload value -/

theorem bsName_ne_empty (n : Nat) : bsName n ≠ "" := by
  unfold bsName
  split <;> decide

theorem validate_empty_payload (cfg : Cfg) (n : Int) (hs : cfg.sender ≠ "") (ht : cfg.target ≠ "") :
    validate (toIn cfg (appMsg n "")) = some (noValue 9000) := by
  have h1 : (bsName cfg.bs).isEmpty = false := (isEmpty_false_iff _).2 (bsName_ne_empty _)
  have h2 : cfg.sender.isEmpty = false := (isEmpty_false_iff _).2 hs
  have h3 : cfg.target.isEmpty = false := (isEmpty_false_iff _).2 ht
  have h4 : (toString n).isEmpty = false := (isEmpty_false_iff _).2 (toString_int_ne_empty n)
  have h5 : ("D" : String).isEmpty = false := by decide
  have h6 : ("@0" : String).isEmpty = false := by decide
  have h7 : ("" : String).isEmpty = true := by decide
  have hd : dupF (appMsg n "") = [] := by simp [dupF, appMsg, Qfx.Link.get?_cons, Qfx.Link.get?_nil]
  have ho : origF (appMsg n "") = [] := by simp [origF, appMsg, Fields.has]
  have hr : restF (appMsg n "") = [(9000, "")] := by simp [restF, appMsg]
  unfold validate
  rw [toIn_f, hd, ho, hr]
  simp only [List.nil_append, List.cons_append, List.find?_cons, h1, h2, h3, h4, h5, h6, h7, appMsg]

end Qfx.Link
