/-
  C05 helper lemmas, part b: the store as a list filed by number (payloads of its application messages, the part
  below a number, prefixes), well-formed stored messages, what can be in flight (`Wire`), growth of a store.
-/
import Qfx.Lemmas.LinkC05a
import Qfx.Spec.Link
namespace Qfx.Link
open Qfx Qfx.Sess

/-! ### payload lists -/

/-- payload of a stored message, if it is an application message -/
def pay (p : Int × OutMsg) : Option String := if isAdminKind p.2.kind then none else p.2.f.get? 9000

/-- payloads of the application messages of a store list (latest first), in the order they were stored -/
def appPay : List (Int × OutMsg) → List String
  | [] => []
  | p :: l => appPay l ++ (pay p).toList

/-- the stored messages numbered below `t` -/
def below (t : Int) (l : List (Int × OutMsg)) : List (Int × OutMsg) := l.filter (fun p => decide (p.1 < t))

/-- latest first, each number once -/
def Desc (l : List (Int × OutMsg)) : Prop := l.Pairwise (fun a b => b.1 < a.1)

theorem appPay_append (x y : List (Int × OutMsg)) : appPay (x ++ y) = appPay y ++ appPay x := by
  induction x with
  | nil => simp [appPay]
  | cons p x ih => simp [appPay, ih, List.append_assoc]

theorem appPay_admin (l : List (Int × OutMsg)) (h : ∀ p ∈ l, isAdminKind p.2.kind = true) : appPay l = [] := by
  induction l with
  | nil => rfl
  | cons p l ih =>
    simp only [appPay, ih (fun q hq => h q (List.mem_cons_of_mem _ hq)), pay, h p List.mem_cons_self, if_true]
    rfl

theorem below_all (t : Int) (l : List (Int × OutMsg)) (h : ∀ p ∈ l, p.1 < t) : below t l = l := by
  unfold below
  rw [List.filter_eq_self]
  intro p hp; simpa using h p hp

theorem below_none (t : Int) (l : List (Int × OutMsg)) (h : ∀ p ∈ l, t ≤ p.1) : below t l = [] := by
  unfold below
  rw [List.filter_eq_nil_iff]
  intro p hp
  have := h p hp
  simp only [decide_eq_true_eq]; omega

theorem below_append (t : Int) (x y : List (Int × OutMsg)) : below t (x ++ y) = below t x ++ below t y := by
  simp [below]

theorem Desc.tail {p : Int × OutMsg} {l : List (Int × OutMsg)} (h : Desc (p :: l)) : Desc l := (List.pairwise_cons.1 h).2
theorem Desc.head {p : Int × OutMsg} {l : List (Int × OutMsg)} (h : Desc (p :: l)) : ∀ q ∈ l, q.1 < p.1 := (List.pairwise_cons.1 h).1

/-- a store list splits at any number: the part at or above it, then the part below it -/
theorem desc_split (t : Int) (l : List (Int × OutMsg)) (h : Desc l) :
    l = l.filter (fun p => decide (t ≤ p.1)) ++ below t l := by
  induction l with
  | nil => rfl
  | cons p l ih =>
    by_cases hp : t ≤ p.1
    · have h1 : ¬ p.1 < t := by omega
      have ih' := ih h.tail
      unfold below at ih'
      simp only [below, List.filter_cons, hp, h1, decide_true, decide_false, if_true, List.cons_append, Bool.false_eq_true, if_false]
      rw [← ih']
    · have hall : ∀ q ∈ p :: l, q.1 < t := by
        intro q hq
        rcases List.mem_cons.1 hq with rfl | hq
        · omega
        · have := h.head q hq; omega
      rw [below_all t _ hall]
      have : (p :: l).filter (fun p => decide (t ≤ p.1)) = [] := by
        rw [List.filter_eq_nil_iff]
        intro q hq
        have := hall q hq
        simp only [decide_eq_true_eq]; omega
      rw [this]; rfl

theorem desc_below (t : Int) (l : List (Int × OutMsg)) (h : Desc l) : Desc (below t l) :=
  List.Pairwise.sublist List.filter_sublist h

theorem below_below (b e : Int) (l : List (Int × OutMsg)) (hbe : b ≤ e) : below b (below e l) = below b l := by
  unfold below
  rw [List.filter_filter]
  congr 1
  funext p
  by_cases h : p.1 < b
  · have : p.1 < e := by omega
    simp [h, this]
  · simp [h]

/-- the part below `e` is the part in `[b, e)` followed by the part below `b` -/
theorem below_split (b e : Int) (l : List (Int × OutMsg)) (h : Desc l) (hbe : b ≤ e) :
    below e l = l.filter (fun p => decide (b ≤ p.1) && decide (p.1 < e)) ++ below b l := by
  have h1 := desc_split b (below e l) (desc_below e l h)
  rw [below_below b e l hbe] at h1
  have h2 : (below e l).filter (fun p => decide (b ≤ p.1)) = l.filter (fun p => decide (b ≤ p.1) && decide (p.1 < e)) := by
    unfold below; rw [List.filter_filter]
  rw [h2] at h1; exact h1

theorem isPrefix_append (a t : List String) : isPrefix a (a ++ t) = true := by
  induction a with
  | nil => simp [isPrefix]
  | cons x xs ih => simp [isPrefix, ih]

/-- what lies below any number is a prefix (in storing order) of everything -/
theorem isPrefix_below (t : Int) (l : List (Int × OutMsg)) (h : Desc l) : isPrefix (appPay (below t l)) (appPay l) = true := by
  have h1 := desc_split t l h
  have : appPay l = appPay (below t l) ++ appPay (l.filter (fun p => decide (t ≤ p.1))) := by
    conv => lhs; rw [h1]
    rw [appPay_append]
  rw [this]
  exact isPrefix_append _ _

/-- advancing by one over the stored message `t` -/
theorem mid_one (t : Int) (m : OutMsg) (l : List (Int × OutMsg)) (h : Desc l) (hm : (t, m) ∈ l) :
    l.filter (fun p => decide (t ≤ p.1) && decide (p.1 < t + 1)) = [(t, m)] := by
  induction l with
  | nil => cases hm
  | cons p l ih =>
    rcases List.mem_cons.1 hm with rfl | hm'
    · have : l.filter (fun p => decide (t ≤ p.1) && decide (p.1 < t + 1)) = [] := by
        rw [List.filter_eq_nil_iff]
        intro q hq
        have := h.head q hq
        simp only [Bool.and_eq_true, decide_eq_true_eq] at this ⊢; omega
      have ht : t < t + 1 := by omega
      simp [List.filter_cons, this, ht]
    · have h1 := h.head _ hm'
      simp only at h1
      have : ¬ (t ≤ p.1 ∧ p.1 < t + 1) := by omega
      simp only [List.filter_cons, Bool.and_eq_true, decide_eq_true_eq, this, if_false]
      simpa using ih h.tail hm'

theorem adv_one (t : Int) (m : OutMsg) (l : List (Int × OutMsg)) (h : Desc l) (hm : (t, m) ∈ l) :
    appPay (below (t + 1) l) = appPay (below t l) ++ (pay (t, m)).toList := by
  rw [below_split t (t + 1) l h (by omega), appPay_append, mid_one t m l h hm]
  simp [appPay]

theorem adv_gap (b e : Int) (l : List (Int × OutMsg)) (h : Desc l) (hbe : b ≤ e)
    (hadm : ∀ p ∈ l, b ≤ p.1 → p.1 < e → isAdminKind p.2.kind = true) :
    appPay (below e l) = appPay (below b l) := by
  have hmid : appPay (l.filter (fun p => decide (b ≤ p.1) && decide (p.1 < e))) = [] := by
    apply appPay_admin
    intro p hp
    have := List.mem_filter.1 hp
    simp only [Bool.and_eq_true, decide_eq_true_eq] at this
    exact hadm p this.1 this.2.1 this.2.2
  rw [below_split b e l h hbe, appPay_append, hmid]
  simp

/-- a number is stored at most once -/
theorem desc_unique (l : List (Int × OutMsg)) (h : Desc l) (n : Int) (a b : OutMsg) (ha : (n, a) ∈ l) (hb : (n, b) ∈ l) : a = b := by
  induction l with
  | nil => cases ha
  | cons p l ih =>
    rcases List.mem_cons.1 ha with rfl | ha' <;> rcases List.mem_cons.1 hb with hb' | hb'
    · cases hb'; rfl
    · have := h.head _ hb'; simp at this
    · subst hb'; have := h.head _ ha'; simp at this
    · exact ih h.tail ha' hb'

end Qfx.Link
