/-
  Lemmas for C08, third part: the stash drain, the resend state, the logon state, `fixMsgInCore`, timeouts, stop.
-/
import Qfx.Lemmas.SessC08b
namespace Qfx.Sess
open Qfx

/-! ## 7. state classes -/

/-- same class: the invariants cannot tell the two states apart -/
def SameCls (a b : SState) : Prop := a.loggedOn = b.loggedOn ∧ a.isLogon = b.isLogon ∧ a.isLogout = b.isLogout

theorem SameCls.refl (a : SState) : SameCls a a := ⟨rfl, rfl, rfl⟩
theorem SameCls.of_loggedOn {a b : SState} (ha : a.loggedOn = true) (hb : b.loggedOn = true) : SameCls a b :=
  ⟨ha.trans hb.symm, (SState.loggedOn_not_logon _ ha).trans (SState.loggedOn_not_logon _ hb).symm,
   (SState.loggedOn_not_logout _ ha).trans (SState.loggedOn_not_logout _ hb).symm⟩

theorem W.setSt {g : G8} {s : Sess} {st : SState} (h : W g s) (hc : SameCls st s.st) : W g (s.setSt st) :=
  h.congr hc.1 hc.2.1 hc.2.2 rfl rfl rfl
theorem S.setSt {g : G8} {s : Sess} {st : SState} (h : S g s) (hc : SameCls st s.st) : S g (s.setSt st) :=
  h.congr hc.1 hc.2.1 hc.2.2 rfl rfl rfl
theorem W.unsetSt {g : G8} {s : Sess} {st : SState} (h : W g (s.setSt st)) (hc : SameCls st s.st) : W g s :=
  h.congr hc.1.symm hc.2.1.symm hc.2.2.symm rfl rfl rfl
theorem S.unsetSt {g : G8} {s : Sess} {st : SState} (h : S g (s.setSt st)) (hc : SameCls st s.st) : S g s :=
  h.congr hc.1.symm hc.2.1.symm hc.2.2.symm rfl rfl rfl

theorem eff_sameCls (cur nx : SState) (hn : (cur.loggedOn || cur.isLogout) = true) (hnx : nx.loggedOn = true) :
    SameCls (eff cur nx) cur := by
  unfold eff
  cases hlo : cur.isLogout
  · have hl : cur.loggedOn = true := by rw [hlo] at hn; simpa using hn
    simp only [Bool.false_eq_true, if_false]
    exact SameCls.of_loggedOn hnx hl
  · simp only [if_true]
    exact ⟨(SState.logout_not_loggedOn _ hlo).symm, (SState.logout_not_logon _ hlo).symm, hlo.symm⟩

/-- a handler of the logged-on states that stays logged on has preserved both invariants in the state it ran in -/
theorem H8.back {g0 : G8} {s x : Sess} {nx : SState} (h : H8 g0 s (x, nx)) (hn : (s.st.loggedOn || s.st.isLogout) = true)
    (hnx : nx.loggedOn = true) : P true g0 s x := by
  have hc : nx.connected = true := by rw [SState.connected_eq, hnx]; rfl
  have hcls : SameCls (eff s.st nx) x.st := by rw [h.fr.st]; exact eff_sameCls s.st nx hn hnx
  refine ⟨h.fr, fun hW => ?_, fun _ hS => ?_⟩
  · have := h.w hW
    simp only [hc, if_true] at this
    exact W.unsetSt this hcls
  · have := h.st hS
    simp only [hc, if_true] at this
    exact S.unsetSt this hcls

/-- only the class of the next state matters -/
theorem H8.congr_next {g0 : G8} {s x : Sess} {nx nx' : SState} (h : H8 g0 s (x, nx)) (hnx : nx.loggedOn = true)
    (hnx' : nx'.loggedOn = true) (hn : (s.st.loggedOn || s.st.isLogout) = true) : H8 g0 s (x, nx') :=
  H8.same hn hnx' (h.back hn hnx)

theorem h8_drainStash (g0 : G8) (fuel : Nat) : ∀ (s : Sess) (stash : List (Int × InMsg)) (last : SState),
    (s.st.loggedOn || s.st.isLogout) = true → last.loggedOn = true →
    H8 g0 s ((drainStash fuel s stash last).1, (drainStash fuel s stash last).2.1) := by
  induction fuel with
  | zero => intro s stash last hn hl; exact H8.same hn hl (P.refl _ _ _)
  | succ n ih =>
    intro s stash last hn hl
    unfold drainStash
    split
    · exact H8.same hn hl (P.refl _ _ _)
    · simp only []
      rename_i nn m _
      have h1 := h8_inSessionFixMsgIn g0 s m hn
      generalize inSessionFixMsgIn s m = r at h1
      obtain ⟨s', nx⟩ := r
      simp only [] at h1 ⊢
      split
      · exact h1
      · rename_i hnx
        have hnx' : nx.loggedOn = true := by simpa using hnx
        have hb := h1.back hn hnx'
        exact H8.after hb (ih s' _ nx (by rw [hb.fr.st]; exact hn) hnx')

theorem h8_drain_eq {g0 : G8} {fuel : Nat} {s : Sess} {stash : List (Int × InMsg)} {last : SState}
    {r : Sess × SState × List (Int × InMsg)} (hr : drainStash fuel s stash last = r)
    (hn : (s.st.loggedOn || s.st.isLogout) = true) (hl : last.loggedOn = true) : H8 g0 s (r.1, r.2.1) := by
  rw [← hr]; exact h8_drainStash g0 fuel s stash last hn hl

theorem p_sRR_eq {b : Bool} {g0 : G8} {s x : Sess} {bq e : Int} {r : Sess × Int × Int} (hr : sendResendRequest x bq e = r)
    (h : P b g0 s x) : P b g0 s r.1 := by
  rw [← hr]; exact qpeel_sendResendRequest bq e h

theorem h8_resendFixMsgIn (g0 : G8) (s : Sess) (stash : List (Int × InMsg)) (cur fin : Int) (m : InMsg)
    (hl : s.st.loggedOn = true) : H8 g0 s (resendFixMsgIn s stash cur fin m) := by
  have hn : (s.st.loggedOn || s.st.isLogout) = true := by rw [hl]; rfl
  unfold resendFixMsgIn
  have h1 := h8_inSessionFixMsgIn g0 s m hn
  generalize inSessionFixMsgIn s m = r at h1
  obtain ⟨s', nx⟩ := r
  simp only [] at h1 ⊢
  split
  · exact h1
  · rename_i hnx
    have hnx' : nx.loggedOn = true := by simpa using hnx
    have hb := h1.back hn hnx'
    have hn' : (s'.st.loggedOn || s'.st.isLogout) = true := by rw [hb.fr.st]; exact hn
    repeat' split
    all_goals (try dsimp only)
    all_goals first
      | exact H8.same hn rfl hb
      | exact H8.down hb
      | exact H8.same hn rfl (p_sRR_eq (by assumption) hb)
      | exact H8.same hn rfl (qpeel_sendResendRequest _ _ hb)
      | (have hd := h8_drain_eq (g0 := g0) (by assumption) hn' hnx'
         first
           | exact H8.after hb (H8.congr_next hd rfl rfl hn')
           | exact H8.after hb hd)

/-! ## 8. the logon state -/

/-- the logon handshake completes: from the logon state, after neutral steps to `x` with the Logon out, the logon
    notification, and possibly a queued ResendRequest, into a logged-on state -/
theorem logon_done (g0 : G8) (s x z : Sess) (nx : SState) (hl : s.st.isLogon = true) (hx : P true g0 s x)
    (hready : WK g0 s → Ready g0 x) (hnx : nx.loggedOn = true) (fr : Fr x z)
    (hg : WK g0 s → g8Of g0 z = c8o (g8Of g0 x) .onLogon)
    (hq : ∀ g, Q g x.toSend → Q g z.toSend) :
    H8 g0 s (z, nx) := by
  have hc : nx.connected = true := by rw [SState.connected_eq, hnx]; rfl
  have heff : eff s.st nx = nx := by unfold eff; rw [SState.logon_not_logout _ hl]; rfl
  have hxl : x.st.isLogon = true := by rw [hx.fr.st]; exact hl
  have key : WK g0 s → WK g0 (z.setSt nx) := by
    intro hW
    have hWx := hx.w hW
    have hr := hready hW
    unfold Ready at hr
    unfold WK at hWx ⊢
    rw [g8Of_setSt, hg hW, c8o_onLogon]
    generalize g8Of g0 x = g at hWx hr
    have hQ : z.out = true → Q g z.toSend := by
      intro ho
      have hox : x.out = true := by rw [← fr.out]; exact ho
      have hQx : Q g x.toSend := by
        cases hini : x.cfg.initiator
        · rw [(hr hox).2 hini]; exact Q_nil _
        · exact hWx.queue hox (Or.inr ⟨hxl, hini⟩)
      exact hq g hQx
    exact { ok := hWx.ok
            conn := (by show g.conn = z.out; rw [fr.out]; exact hWx.conn)
            cb := (by show true = (nx.loggedOn || nx.isLogout); rw [hnx]; rfl)
            hs := fun _ => rfl
            notif := fun _ => hWx.notif (by rw [hxl]; simp)
            fresh := (fun ho hf => by
              have hox : x.out = true := by rw [← fr.out]; exact ho
              have := (hr hox).1
              rw [this] at hf; cases hf)
            queue := fun ho _ => hQ ho
            noconn := (fun h => by
              have h' : (nx.loggedOn || nx.isLogon || nx.isLogout) = false := h
              rw [hnx] at h'; cases h') }
  refine ⟨hx.fr.trans fr, (by cases nx <;> first | rfl | cases hnx), fun hW => ?_, fun hS => ?_⟩
  · simp only [hc, if_true, heff]; exact key hW
  · simp only [hc, if_true, heff]
    refine ⟨key hS.1, fun ho _ => ?_⟩
    have hSx := hx.st rfl hS
    have hox : x.out = true := by rw [← fr.out]; exact ho
    have := hSx.2 hox (by rw [hxl]; simp)
    show (g8Of g0 (z.setSt nx)).sentLogout = false
    rw [g8Of_setSt, hg hS.1, c8o_onLogon]; exact this

theorem h8_shutdownWithReason {b : Bool} (g0 : G8) (s x : Sess) (m : InMsg) (incr : Bool) (h : P b g0 s x) :
    H8 g0 s (shutdownWithReason x m incr) := by
  unfold shutdownWithReason
  dsimp only
  have h' := h.weaken
  apply H8.down (b := false)
  q_peel

theorem sendResendRequest_is (y : Sess) (a b : Int) : ∃ f, (sendResendRequest y a b).1 = sendInReplyTo y (mkOut "2" f) := by
  unfold sendResendRequest
  dsimp only
  split <;> exact ⟨_, rfl⟩

/-- the evaluation of the peer's tag 789 while the state tag still is `logon` (the handshake is being completed): nothing;
    or the gap fill, written behind the Logon with the queue dropped (EnqueueBytesAndSend while not logged on) or — without
    a connection — left alone in the queue -/
theorem nxEval_logon (g0 : G8) (y : Sess) (m : InMsg) (ns : Int) (hyl : y.st.loggedOn = false) :
    Fr y (nxEval y m ns).1 ∧
    (((nxEval y m ns).1.toSend = y.toSend ∧ g8Of g0 (nxEval y m ns).1 = g8Of g0 y) ∨
     ∃ m', (m'.kind == "5") = false ∧ appFirst m' = false ∧
       (y.out = true → (nxEval y m ns).1.toSend = [] ∧ g8Of g0 (nxEval y m ns).1 = wr (g8Of g0 y) [m']) ∧
       (y.out = false → (nxEval y m ns).1.toSend = [m'] ∧ g8Of g0 (nxEval y m ns).1 = g8Of g0 y)) := by
  have hk : ∀ o : OutMsg, (o.kind == "5") = false → appFirst o = false →
      Fr y (enqueueAndSend y o) ∧
      (((enqueueAndSend y o).toSend = y.toSend ∧ g8Of g0 (enqueueAndSend y o) = g8Of g0 y) ∨
       ∃ m', (m'.kind == "5") = false ∧ appFirst m' = false ∧
         (y.out = true → (enqueueAndSend y o).toSend = [] ∧ g8Of g0 (enqueueAndSend y o) = wr (g8Of g0 y) [m']) ∧
         (y.out = false → (enqueueAndSend y o).toSend = [m'] ∧ g8Of g0 (enqueueAndSend y o) = g8Of g0 y)) := by
    intro o h5 ha
    have hkq : y.keptQueue = [] := by unfold Sess.keptQueue; rw [hyl]; rfl
    cases enqueueAndSend_spec g0 y o with
    | refused hs => exact ⟨hs.fr, Or.inl ⟨hs.q, hs.g8 g0⟩⟩
    | sent m' hk hf fr hh =>
      rw [hkq] at hh
      refine ⟨fr, Or.inr ⟨m', by rw [hk]; exact h5, by unfold appFirst at ha ⊢; rw [hk, hf]; exact ha, ?_, ?_⟩⟩
      · intro ho; rw [ho] at hh; simpa using hh
      · intro ho; rw [ho] at hh; simpa using hh
  unfold nxEval
  repeat' split
  all_goals first
    | exact ⟨Fr.refl y, Or.inl ⟨rfl, rfl⟩⟩
    | exact hk _ (gapFillRe_ok _ _ _ _).1 (gapFillRe_ok _ _ _ _).2

theorem h8_logonFixMsgIn (g0 : G8) (s : Sess) (m : InMsg) (hl : s.st.isLogon = true) : H8 g0 s (logonFixMsgIn s m) := by
  unfold logonFixMsgIn
  split
  · exact H8.down (P.refl false g0 s)
  · rename_i hk
    have hk' : kindOf m = "A" := by simpa using hk
    have hadm : isAdminKind (kindOf m) = true := by rw [hk']; decide
    rcases handleLogon_shape g0 s m hadm with ⟨e, he, hnt, hp⟩ | ⟨x, ns, hx, hready, heq, n, hn⟩
    · generalize handleLogon s m = r at he hp
      obtain ⟨s', o⟩ := r
      dsimp only at he hp
      subst he
      split
      · rename_i heq; cases heq
      · rename_i heq; cases heq; exact h8_shutdownWithReason g0 s _ m true hp
      · rename_i heq; cases heq; exact h8_shutdownWithReason g0 s _ m false hp
      · rename_i heq; cases heq; cases hnt
      · rename_i heq; cases heq; exact H8.down hp
    · rw [heq]
      have hxl' : x.st.loggedOn = false := by rw [hx.fr.st]; exact SState.logon_not_loggedOn _ hl
      have hy0 : Fr x (((x.setSentReset false).emit (.armPeer (1200 * x.hb))).emit .onLogon) := ⟨rfl, rfl, rfl, rfl, rfl⟩
      have hgy0 : g8Of g0 (((x.setSentReset false).emit (.armPeer (1200 * x.hb))).emit .onLogon) = c8o (g8Of g0 x) .onLogon := by
        rw [g8Of_emit, g8Of_emit]; rfl
      have hq0 : (((x.setSentReset false).emit (.armPeer (1200 * x.hb))).emit .onLogon).toSend = x.toSend := rfl
      have hspec := logonFinish_spec x m ns n hn
      dsimp only at hspec
      generalize ((x.setSentReset false).emit (.armPeer (1200 * x.hb))).emit .onLogon = y0 at hy0 hgy0 hq0 hspec
      obtain ⟨fy, hcase⟩ := nxEval_logon g0 y0 m ns (by rw [hy0.st]; exact hxl')
      have hy : Fr x (nxEval y0 m ns).1 := hy0.trans fy
      have hgy : WK g0 s → g8Of g0 (nxEval y0 m ns).1 = c8o (g8Of g0 x) .onLogon := by
        intro hW
        rcases hcase with ⟨_, hg⟩ | ⟨m', h5, ha, hc1, hc2⟩
        · rw [hg, hgy0]
        · cases ho : y0.out
          · rw [(hc2 ho).2, hgy0]
          · rw [(hc1 ho).2, hgy0]
            have hox : x.out = true := by rw [← hy0.out]; exact ho
            have hWx := hx.w hW
            have hr := hready hW (SState.logon_not_loggedOn _ hl)
            unfold Ready at hr
            unfold WK at hWx
            have := wr_quiet (c8o (g8Of g0 x) .onLogon) [m'] (by rw [c8o_onLogon]; exact hWx.ok)
              (by rw [c8o_onLogon]; show (g8Of g0 x).conn = true; rw [hWx.conn]; exact hox)
              (by rw [c8o_onLogon]; exact (hr hox).1)
              (fun z hz => by simp only [List.mem_singleton] at hz; subst hz; exact h5)
              (fun z hz hap => by simp only [List.mem_singleton] at hz; subst hz; rw [ha] at hap; cases hap)
            exact this
      have hyq : ∀ g, Q g x.toSend → Q g (nxEval y0 m ns).1.toSend := by
        intro g hQ
        rcases hcase with ⟨hq, _⟩ | ⟨m', h5, ha, hc1, hc2⟩
        · rw [hq, hq0]; exact hQ
        · cases ho : y0.out
          · rw [(hc2 ho).1]; exact Q_append g [] m' (Q_nil g) h5 ha
          · rw [(hc1 ho).1]; exact Q_nil g
      rcases hspec with h | ⟨a, b, h⟩
      · rw [h]
        dsimp only
        exact logon_done g0 s x _ _ hl hx (fun hW => hready hW (SState.logon_not_loggedOn _ hl)) rfl (hy.trans (fr_incrTarget _))
          (fun hW => by rw [(sil_incrTarget _).g8 g0, hgy hW]) hyq
      · rw [h]
        dsimp only
        generalize (nxEval y0 m ns).1 = y at hy hgy hyq
        have hsp : ∀ mm : OutMsg, (mm.kind == "5") = false → appFirst mm = false →
            Fr y (sendInReplyTo y mm) ∧ g8Of g0 (sendInReplyTo y mm) = g8Of g0 y ∧
            ((sendInReplyTo y mm).toSend = y.toSend ∨ ∃ m', (sendInReplyTo y mm).toSend = y.toSend ++ [m'] ∧ (m'.kind == "5") = false ∧ appFirst m' = false) := by
          intro mm h5 ha
          have hyl : y.st.loggedOn = false := by rw [hy.st]; exact hxl'
          cases sendInReplyTo_spec g0 y mm with
          | refused hs => exact ⟨hs.fr, hs.g8 g0, Or.inl hs.q⟩
          | sent m' hk hf fr hh =>
            rw [hyl] at hh
            simp only [Bool.false_and, Bool.false_eq_true, if_false] at hh
            refine ⟨fr, hh.2, Or.inr ⟨m', hh.1, by rw [hk]; exact h5, ?_⟩⟩
            unfold appFirst at ha ⊢; rw [hk, hf]; exact ha
        obtain ⟨ff, hff⟩ := sendResendRequest_is y b (a - 1)
        obtain ⟨f1, f2, f3⟩ := hsp (mkOut "2" ff) rfl (appFirst_admin _ rfl)
        rw [← hff] at f1 f2 f3
        refine logon_done g0 s x _ _ hl hx (fun hW => hready hW (SState.logon_not_loggedOn _ hl)) rfl (hy.trans f1)
          (fun hW => by rw [f2, hgy hW]) (fun g hQ => ?_)
        rcases f3 with f3 | ⟨m', f3, h5, ha⟩
        · rw [f3]; exact hyq g hQ
        · rw [f3]; exact Q_append _ _ _ (hyq g hQ) h5 ha

/-! ## 9. what `setState` is handed: handler outcomes with the real next state -/

/-- outcome of the state's message / timeout / stop handler: connected next state ⇒ both invariants with it in place;
    otherwise the weak invariant with the old state in place -/
structure T8 (g0 : G8) (s : Sess) (r : Sess × SState) : Prop where
  fr : Fr s r.1
  w : WK g0 s → if r.2.connected then WK g0 (r.1.setSt r.2) else WK g0 r.1
  st : SK g0 s → if r.2.connected then SK g0 (r.1.setSt r.2) else WK g0 r.1

theorem T8.same {g0 : G8} {s x : Sess} {nx : SState} (h : P true g0 s x) (hc : SameCls nx s.st) : T8 g0 s (x, nx) := by
  have hc' : SameCls nx x.st := by rw [h.fr.st]; exact hc
  refine ⟨h.fr, fun hW => ?_, fun hS => ?_⟩
  · split
    · exact W.setSt (h.w hW) hc'
    · exact h.w hW
  · split
    · exact S.setSt (h.st rfl hS) hc'
    · exact (h.st rfl hS).1

theorem T8.down {b : Bool} {g0 : G8} {s x : Sess} {nx : SState} (h : P b g0 s x) (hc : nx.connected = false) : T8 g0 s (x, nx) :=
  ⟨h.fr, fun hW => by simp only [hc, Bool.false_eq_true, if_false]; exact h.w hW,
   fun hS => by simp only [hc, Bool.false_eq_true, if_false]; exact h.w hS.1⟩

theorem T8.ofH8 {g0 : G8} {s : Sess} {r : Sess × SState} (h : H8 g0 s r) (hlo : s.st.isLogout = false) : T8 g0 s r := by
  have he : eff s.st r.2 = r.2 := by unfold eff; rw [hlo]; rfl
  refine ⟨h.fr, fun hW => ?_, fun hS => ?_⟩
  · have := h.w hW; rw [he] at this; exact this
  · have := h.st hS; rw [he] at this; exact this

theorem t8_fixMsgInCore (g0 : G8) (s : Sess) (m : InMsg) : T8 g0 s (fixMsgInCore s m) := by
  unfold fixMsgInCore
  split
  · exact T8.down (P.refl false g0 s) rfl
  · exact T8.down (P.refl false g0 s) rfl
  · rename_i hst
    exact T8.ofH8 (h8_logonFixMsgIn g0 s m (by rw [hst]; rfl)) (by rw [hst]; rfl)
  · rename_i hst
    have hn : (s.st.loggedOn || s.st.isLogout) = true := by rw [hst]; rfl
    have h1 := h8_inSessionFixMsgIn g0 s m hn
    generalize inSessionFixMsgIn s m = r at h1
    obtain ⟨s', nx⟩ := r
    dsimp only
    have heff : ∀ nx, eff s.st nx = .logout := by intro nx; unfold eff; rw [hst]; rfl
    have hcon : nx.connected = true → T8 g0 s (s', .logout) := by
      intro hc
      refine ⟨h1.fr, fun hW => ?_, fun hS => ?_⟩
      · have := h1.w hW; simp only [hc, if_true, heff] at this; exact this
      · have := h1.st hS; simp only [hc, if_true, heff] at this; exact this
    have hnst := h1.nst
    cases nx with
    | latent =>
      refine ⟨h1.fr, fun hW => ?_, fun hS => ?_⟩
      · exact h1.w hW
      · exact h1.st hS
    | notSessionTime => cases hnst
    | _ => exact hcon rfl
  · rename_i hst
    exact T8.ofH8 (h8_inSessionFixMsgIn g0 s m (by rw [hst]; rfl)) (by rw [hst]; rfl)
  · rename_i hst
    exact T8.ofH8 (h8_inSessionFixMsgIn g0 s m (by rw [hst]; rfl)) (by rw [hst]; rfl)
  · rename_i hst
    exact T8.ofH8 (h8_resendFixMsgIn g0 s _ _ _ m (by rw [hst]; rfl)) (by rw [hst]; rfl)
  · rename_i hst
    exact T8.ofH8 (h8_resendFixMsgIn g0 s _ _ _ m (by rw [hst]; rfl)) (by rw [hst]; rfl)

/-! ## 10. timeouts and stop -/

theorem p_inSessionTimeout (g0 : G8) (s : Sess) (e : TimerEv) : P true g0 s (inSessionTimeout s e).1 := by
  unfold inSessionTimeout
  q_cases

theorem p_ist_eq {g0 : G8} {s : Sess} {e : TimerEv} {r : Sess × Bool} (hr : inSessionTimeout s e = r) : P true g0 s r.1 := by
  rw [← hr]; exact p_inSessionTimeout g0 s e

theorem t8_timeoutCore (g0 : G8) (s : Sess) (e : TimerEv) : T8 g0 s (timeoutCore s e) := by
  unfold timeoutCore
  split
  all_goals (try dsimp only)
  · rename_i hst
    exact T8.same (p_inSessionTimeout g0 s e) (by rw [hst]; split <;> exact ⟨rfl, rfl, rfl⟩)
  · rename_i hst
    exact T8.same (p_inSessionTimeout g0 s e) (by rw [hst]; split <;> exact ⟨rfl, rfl, rfl⟩)
  · rename_i hst
    split
    · exact T8.down (P.refl false g0 s) rfl
    · exact T8.same (P.refl true g0 s) (by rw [hst]; exact ⟨rfl, rfl, rfl⟩)
  · rename_i hst
    split
    · exact T8.down (P.refl false g0 s) rfl
    · exact T8.same (P.refl true g0 s) (by rw [hst]; exact ⟨rfl, rfl, rfl⟩)
  · rename_i hst
    split
    · exact T8.down (P.refl false g0 s) rfl
    · exact T8.same (P.refl true g0 s) (by rw [hst]; exact ⟨rfl, rfl, rfl⟩)
  · rename_i hst
    split
    · exact T8.down (P.refl false g0 s) rfl
    · exact T8.same (P.refl true g0 s) (by rw [hst]; exact ⟨rfl, rfl, rfl⟩)
  · exact T8.same (P.refl true g0 s) (SameCls.refl _)

theorem T8.logout {b : Bool} {g0 : G8} {s x : Sess} (hn : (s.st.loggedOn || s.st.isLogout) = true) (h : P b g0 s x) :
    T8 g0 s (x, .logout) := by
  have h8 := H8.logout hn h
  have he : eff s.st .logout = .logout := by unfold eff; split <;> rfl
  refine ⟨h.fr, fun hW => ?_, fun hS => ?_⟩
  · have := h8.w hW; rw [he] at this; exact this
  · have := h8.st hS; rw [he] at this; exact this

theorem t8_stopNext (g0 : G8) (s : Sess) : T8 g0 s (stopNext s) := by
  unfold stopNext
  split
  · rename_i hst
    have hn : (s.st.loggedOn || s.st.isLogout) = true := by rw [hst]; rfl
    have hnl := notif_not_logon hn
    exact T8.logout hn (by q_peel : P false g0 s (initiateLogout s))
  · rename_i hst
    have hn : (s.st.loggedOn || s.st.isLogout) = true := by rw [hst]; rfl
    have hnl := notif_not_logon hn
    exact T8.logout hn (by q_peel : P false g0 s (initiateLogout s))
  · rename_i hst
    have hn : (s.st.loggedOn || s.st.isLogout) = true := by rw [hst]; rfl
    have hnl := notif_not_logon hn
    exact T8.logout hn (by q_peel : P false g0 s (initiateLogout s))
  · rename_i hst
    have hn : (s.st.loggedOn || s.st.isLogout) = true := by rw [hst]; rfl
    have hnl := notif_not_logon hn
    exact T8.logout hn (by q_peel : P false g0 s (initiateLogout s))
  · exact T8.down (P.refl false g0 s) rfl
  · exact T8.same (P.refl true g0 s) (SameCls.refl _)

end Qfx.Sess
