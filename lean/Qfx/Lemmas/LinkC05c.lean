/-
  C05 helper lemmas, part c: well-formed stored messages, what can be in flight (`Wire`), growth of a store, the proof
  context of one engine step (`Ctx`: the peer's store and configuration are fixed during the step), and what the
  verification pipeline does with a message the peer wrote.
-/
import Qfx.Lemmas.LinkC05b
import Qfx.Lemmas.SessPool
namespace Qfx.Link
open Qfx Qfx.Sess

/-- Go's largest `int`: the model's numbers are unbounded, the wire parser wraps at 64 bits -/
def maxSeq : Int := 9223372036854775807

theorem wrap64_in (x : Int) : inInt64 (wrap64 x) := by unfold wrap64 inInt64; omega

theorem parseUIntLoop_in64 (cs : Bytes) (n : Int) (hn : inInt64 n) (v : Int) (h : parseUIntLoop cs n = .ok v) : inInt64 v := by
  induction cs generalizing n with
  | nil => simp only [parseUIntLoop, Res.ok.injEq] at h; rw [← h]; exact hn
  | cons c cs ih =>
    simp only [parseUIntLoop] at h
    split at h
    · exact ih _ (wrap64_in _) h
    · cases h

theorem atoi_in64 (b : Bytes) (v : Int) (h : atoi b = .ok v) : inInt64 v := by
  have h0 : inInt64 0 := by unfold inInt64; omega
  have hp : ∀ d w, parseUInt d = .ok w → inInt64 w := by
    intro d w hw
    unfold parseUInt at hw
    split at hw
    · cases hw
    · exact parseUIntLoop_in64 d 0 h0 w hw
  unfold atoi at h
  split at h
  · exact hp _ _ h
  · split at h
    · split at h
      · simp only [Res.ok.injEq] at h; rw [← h]; exact wrap64_in _
      · rename_i r hr
        exact (hr v h).elim
    · exact hp _ _ h

theorem getInt_in64 (m : InMsg) (t : Nat) (v : Int) (h : getInt m t = .val v) : inInt64 v := by
  unfold getInt at h
  split at h
  · cases h
  · split at h
    · rename_i i hi; cases h; exact atoi_in64 _ _ hi
    · cases h

/-! ### stored messages -/

/-- fields an engine writes: no empty value, no ResetSeqNumFlag, no scripted verdict; no payload on administrative kinds;
    no GapFillFlag (only the unstored SequenceReset-GapFill carries one) -/
def FOK (admin : Bool) (f : Fields) : Prop := ∀ p ∈ f, p.2 ≠ "" ∧ p.1 ≠ 141 ∧ p.1 ≠ 9001 ∧ (admin = true → p.1 ≠ 9000) ∧ p.1 ≠ 123

structure MsgOK (m : OutMsg) : Prop where
  f : FOK (isAdminKind m.kind) m.f
  /-- header fields (the routing fields of a Reject) first, then body fields: what the peer's validator checks -/
  ord : SecOrd m.f
  k : m.kind ≠ ""
  k4 : m.kind ≠ "4"
  app : isAdminKind m.kind = false → ∃ p, m.f = [(9000, p)]
  rr : m.kind = "2" → ∃ x y : Int, m.f.get? 7 = some (toString x) ∧ m.f.get? 16 = some (toString y)

theorem MsgOK.withSeq {m : OutMsg} (h : MsgOK m) (n : Int) : MsgOK { m with seq := n } := ⟨h.f, h.ord, h.k, h.k4, h.app, h.rr⟩

/-- filed by number, each number once (latest first), every stored message well-formed -/
structure StoreOK (st : Store) : Prop where
  pos : 1 ≤ st.sender
  desc : Desc st.msgs
  ent : ∀ p ∈ st.msgs, p.2.seq = p.1 ∧ 1 ≤ p.1 ∧ p.1 < st.sender ∧ MsgOK p.2

/-- a gap fill with header tag 369 = `l` (`generateSequenceReset` fills the header in reply to the ResendRequest) -/
def gapFillL (b e : Int) (l : Option Int) : OutMsg := { gapFill b e with last := l }

/-- what an engine with store `st` can have put on the wire (or still holds in its send queue) -/
inductive Wire (st : Store) : OutMsg → Prop
  | stored {m : OutMsg} (h : (m.seq, m) ∈ st.msgs) : Wire st m
  | resent {m : OutMsg} (h : (m.seq, m) ∈ st.msgs) (happ : isAdminKind m.kind = false) : Wire st (resent m)
  | gap (b e : Int) (l : Option Int) (hbe : b < e) (he : e ≤ st.sender) (hb : -9223372036854775808 ≤ b)
      (hadm : ∀ p ∈ st.msgs, b ≤ p.1 → p.1 < e → isAdminKind p.2.kind = true) : Wire st (gapFillL b e l)

/-- `st'` is `st` with newer messages filed on top (all administrative when `adm`) -/
def Grow (adm : Bool) (st st' : Store) : Prop :=
  st.sender ≤ st'.sender ∧ ∃ new, st'.msgs = new ++ st.msgs ∧ ∀ p ∈ new, st.sender ≤ p.1 ∧ (adm = true → isAdminKind p.2.kind = true)

theorem Grow.refl (adm : Bool) (st : Store) : Grow adm st st := ⟨Int.le_refl _, [], rfl, by intro p hp; cases hp⟩

theorem Grow.trans {adm : Bool} {a b c : Store} (h1 : Grow adm a b) (h2 : Grow adm b c) : Grow adm a c := by
  obtain ⟨s1, n1, e1, p1⟩ := h1
  obtain ⟨s2, n2, e2, p2⟩ := h2
  refine ⟨by omega, n2 ++ n1, by rw [e2, e1, List.append_assoc], ?_⟩
  intro p hp
  rcases List.mem_append.1 hp with hp | hp
  · have := p2 p hp; exact ⟨by omega, this.2⟩
  · exact p1 p hp

theorem Grow.weaken {adm : Bool} {a b : Store} (h : Grow adm a b) : Grow false a b := by
  obtain ⟨s1, n1, e1, p1⟩ := h
  exact ⟨s1, n1, e1, fun p hp => ⟨(p1 p hp).1, by intro h; cases h⟩⟩

theorem Grow.target {adm : Bool} {a b : Store} (h : Grow adm a b) (n : Int) : Grow adm a { b with target := n } := h

theorem Wire.mono {adm : Bool} {st st' : Store} (hg : Grow adm st st') {m : OutMsg} (h : Wire st m) : Wire st' m := by
  obtain ⟨hs, new, he, hn⟩ := hg
  cases h with
  | stored h => exact .stored (by rw [he]; exact List.mem_append_right _ h)
  | resent h happ => exact .resent (by rw [he]; exact List.mem_append_right _ h) happ
  | gap b e l hbe hle hb hadm =>
    refine .gap b e l hbe (by omega) hb ?_
    intro p hp h1 h2
    rw [he] at hp
    rcases List.mem_append.1 hp with hp | hp
    · have := (hn p hp).1; omega
    · exact hadm p hp h1 h2

theorem Grow.appPay {st st' : Store} (h : Grow true st st') : appPay st'.msgs = appPay st.msgs := by
  obtain ⟨_, new, he, hn⟩ := h
  rw [he, appPay_append, appPay_admin new (fun p hp => (hn p hp).2 rfl)]
  simp

theorem Grow.below {adm : Bool} {st st' : Store} (h : Grow adm st st') (t : Int) (ht : t ≤ st.sender) :
    below t st'.msgs = below t st.msgs := by
  obtain ⟨_, new, he, hn⟩ := h
  rw [he, below_append, below_none t new (fun p hp => by have := (hn p hp).1; omega)]
  rfl

/-- persisting one more message -/
theorem StoreOK.save {st : Store} (h : StoreOK st) (m : OutMsg) (hm : MsgOK m) (hs : m.seq = st.sender) :
    StoreOK { st with msgs := (st.sender, m) :: st.msgs, sender := st.sender + 1 } := by
  refine ⟨by have := h.pos; simp only; omega, ?_, ?_⟩
  · exact List.pairwise_cons.2 ⟨fun q hq => (h.ent q hq).2.2.1, h.desc⟩
  · intro p hp
    rcases List.mem_cons.1 hp with rfl | hp
    · exact ⟨hs, h.pos, by simp only; omega, hm⟩
    · obtain ⟨a, b, c, d⟩ := h.ent p hp
      exact ⟨a, b, by simp only; omega, d⟩

theorem Grow.save (adm : Bool) (st : Store) (m : OutMsg) (ha : adm = true → isAdminKind m.kind = true) :
    Grow adm st { st with msgs := (st.sender, m) :: st.msgs, sender := st.sender + 1 } :=
  ⟨by simp only; omega, [(st.sender, m)], rfl, by
    intro p hp
    simp only [List.mem_singleton] at hp; subst hp
    exact ⟨Int.le_refl _, ha⟩⟩

theorem StoreOK.target {st : Store} (h : StoreOK st) (n : Int) : StoreOK { st with target := n } := ⟨h.pos, h.desc, h.ent⟩

/-! ### facts about anything in flight -/

structure WFacts (m : OutMsg) : Prop where
  k : m.kind ≠ ""
  vals : ∀ p ∈ m.f, p.2 ≠ "" ∧ p.1 ≠ 141 ∧ p.1 ≠ 9001
  in64 : inInt64 m.seq
  ord : SecOrd (restF m)

theorem in64_of_range (n : Int) (h1 : 1 ≤ n) (h2 : n ≤ maxSeq) : inInt64 n := by
  unfold maxSeq at h2; unfold inInt64; omega

theorem resent_fields (p : String) : Fields.set (Fields.set [(9000, p)] 43 "Y") 122 "+" = [(9000, p), (43, "Y"), (122, "+")] := by
  simp [Fields.set, Fields.has]

theorem wire_facts {P : Store} (hP : StoreOK P) (hb : P.sender ≤ maxSeq) {m : OutMsg} (h : Wire P m) : WFacts m := by
  cases h with
  | stored h =>
    obtain ⟨_, h1, h2, ok⟩ := hP.ent _ h
    simp only at h1 h2
    exact ⟨ok.k, fun p hp => ⟨(ok.f p hp).1, (ok.f p hp).2.1, (ok.f p hp).2.2.1⟩, in64_of_range _ h1 (by omega), ok.ord.filter _⟩
  | @resent m0 h happ =>
    obtain ⟨_, h1, h2, ok⟩ := hP.ent _ h
    simp only at h1 h2
    obtain ⟨pl, hpl⟩ := ok.app happ
    have hf : (resent m0).f = [(9000, pl), (43, "Y"), (122, "+")] := by
      show Fields.set (Fields.set m0.f 43 "Y") 122 "+" = _
      rw [hpl]; exact resent_fields pl
    refine ⟨ok.k, ?_, (show inInt64 m0.seq from in64_of_range _ h1 (by omega)),
      (by unfold restF; rw [hf]; exact SecOrd.body (by rfl))⟩
    have hv := ok.f (9000, pl) (by rw [hpl]; exact List.mem_singleton_self _)
    intro p hp
    rw [hf] at hp
    simp only [List.mem_cons, List.not_mem_nil, or_false] at hp
    rcases hp with rfl | rfl | rfl
    · exact ⟨hv.1, by simp, by simp⟩
    · exact ⟨by simp, by simp, by simp⟩
    · exact ⟨by simp, by simp, by simp⟩
  | gap b e l hbe he hb' hadm =>
    refine ⟨(show "4" ≠ "" by decide), ?_, (show inInt64 b by unfold inInt64; unfold maxSeq at hb; omega), SecOrd.body (by rfl)⟩
    intro p hp
    simp only [gapFillL, gapFill, List.mem_cons, List.not_mem_nil, or_false] at hp
    rcases hp with rfl | rfl | rfl | rfl
    · exact ⟨toString_int_ne_empty _, by simp, by simp⟩
    · exact ⟨by simp, by simp, by simp⟩
    · exact ⟨by simp, by simp, by simp⟩
    · exact ⟨by simp, by simp, by simp⟩

/-! ### the context of one engine step -/

structure Ctx where
  cfg : Cfg                       -- the stepping engine's configuration
  pcfg : Cfg                      -- the peer's
  st0 : Store                     -- the stepping engine's store before the step
  P : Store                       -- the peer's store (fixed during the step)
  rcv : List (String × String)    -- the ghost table of payloads received by the stepping engine
  d0 : List String                -- payloads delivered before the step

structure CtxOK (c : Ctx) : Prop where
  persist : c.cfg.persist = true
  nr : NoResetCfg c.cfg
  snd : c.cfg.sender = c.pcfg.target
  tgt : c.cfg.target = c.pcfg.sender
  bs : c.cfg.bs = c.pcfg.bs
  ne1 : c.pcfg.sender ≠ ""
  ne2 : c.pcfg.target ≠ ""
  pok : StoreOK c.P
  bound : c.P.sender ≤ maxSeq
  /-- no data dictionary is configured on the stepping engine (the default validator, under any of its settings) -/
  vd : c.cfg.validator.app = none
  /-- EnableNextExpectedMsgSeqNum is off on the stepping engine (with it a Logon is followed by a gap fill over whatever the
      peer's tag 789 says is missing — application messages included: nothing is replayed) -/
  nx : c.cfg.nextExpected = false

/-- the ghost table knows the payload of `m` under its number -/
def Noted (rcv : List (String × String)) (m : OutMsg) : Prop :=
  ∀ p, m.f.get? 9000 = some p → payloadOf rcv (toString m.seq) = p

/-- what may be handed to the stepping engine, buffered or stashed: something the peer wrote, noted in the ghost table -/
def PoolP (c : Ctx) (im : InMsg) : Prop := ∃ m, im = toIn c.pcfg m ∧ Wire c.P m ∧ Noted c.rcv m

section facts
variable {c : Ctx} (hc : CtxOK c) {s : Sess} (hs : s.cfg = c.cfg) {m : OutMsg} (hw : Wire c.P m)
include hc hs hw

theorem pf_begin : BeginOK s.cfg (toIn c.pcfg m) := by
  unfold BeginOK; rw [toIn_get8, hs, hc.bs]

theorem pf_comp : CompOK s.cfg (toIn c.pcfg m) := by
  unfold CompOK
  rw [toIn_get49, toIn_get56, hs, hc.snd, hc.tgt]
  exact ⟨rfl, rfl, (isEmpty_false_iff _).2 hc.ne1, (isEmpty_false_iff _).2 hc.ne2⟩

theorem pf_time : TimeGate s (toIn c.pcfg m) :=
  Or.inr (Or.inr ⟨0, getTime_at0 _ _ (toIn_get52 _ _), by omega, by omega⟩)

omit hs in
theorem pf_noEmpty : NoEmpty (toIn c.pcfg m) :=
  toIn_noEmpty _ _ hc.ne1 hc.ne2 (wire_facts hc.pok hc.bound hw).k (fun p hp => ((wire_facts hc.pok hc.bound hw).vals p hp).1)

/-- the stepping engine's validator accepts what the peer wrote -/
theorem pf_valid : Valid s.cfg (toIn c.pcfg m) :=
  toIn_valid s.cfg c.pcfg m (toIn_noEmpty _ _ hc.ne1 hc.ne2 (wire_facts hc.pok hc.bound hw).k
    (fun p hp => ((wire_facts hc.pok hc.bound hw).vals p hp).1)) (wire_facts hc.pok hc.bound hw).ord (by rw [hs]; exact hc.vd)

omit hs in
theorem pf_cb : callbackVerdict (toIn c.pcfg m) = none := by
  unfold callbackVerdict
  rw [toIn_get_body _ _ 9001 (by decide), get?_none_of_tags m.f 9001 (fun p hp => ((wire_facts hc.pok hc.bound hw).vals p hp).2.2)]

omit hs in
theorem pf_seq : getInt (toIn c.pcfg m) 34 = .val m.seq :=
  getInt_of_get? _ _ _ (toIn_get34 _ _) (wire_facts hc.pok hc.bound hw).in64

omit hs in
theorem pf_flag : logonResetFlag (toIn c.pcfg m) = false := by
  unfold logonResetFlag getBool
  rw [toIn_get_body _ _ 141 (by decide), get?_none_of_tags m.f 141 (fun p hp => ((wire_facts hc.pok hc.bound hw).vals p hp).2.1)]

/-- the verification pipeline on a message the peer wrote: only the sequence checks can fail -/
theorem verifySelect_pool (th tl ai : Bool) :
    verifySelect s (toIn c.pcfg m) th tl ai =
      if tl = true ∧ m.seq < s.store.target then (s, some (.tooLow m.seq s.store.target))
      else if th = true ∧ s.store.target < m.seq then (s, some (.tooHigh m.seq s.store.target))
      else if ai = true then (s.emit (cbObs s (toIn c.pcfg m)), none) else (s, none) := by
  unfold verifySelect
  rw [(checkBeginString_none_iff s _).2 (pf_begin hc hs hw), (checkCompID_none_iff s _).2 (pf_comp hc hs hw),
    (timeGate_iff s _).2 (pf_time hc hs hw)]
  simp only []
  unfold checkTooLow checkTooHigh
  rw [pf_seq hc hw]
  simp only []
  cases tl <;> cases th <;> simp only [Bool.false_eq_true, if_false, if_true, false_and, true_and]
  · cases ai
    · rfl
    · simp only [if_true]; rw [verifyAppImpl_pass s _ (pf_valid hc hs hw), pf_cb hc hw]
  · by_cases h : s.store.target < m.seq
    · have : m.seq > s.store.target := h
      simp [h, this]
    · have : ¬ m.seq > s.store.target := h
      simp only [h, this, if_false]
      cases ai
      · rfl
      · simp only [if_true]; rw [verifyAppImpl_pass s _ (pf_valid hc hs hw), pf_cb hc hw]
  · by_cases h : m.seq < s.store.target
    · simp [h]
    · simp only [h, if_false]
      cases ai
      · rfl
      · simp only [if_true]; rw [verifyAppImpl_pass s _ (pf_valid hc hs hw), pf_cb hc hw]
  · by_cases h : m.seq < s.store.target
    · simp [h]
    · simp only [h, if_false]
      by_cases h2 : s.store.target < m.seq
      · have : m.seq > s.store.target := h2
        simp [h2, this]
      · have : ¬ m.seq > s.store.target := h2
        simp only [h2, this, if_false]
        cases ai
        · rfl
        · simp only [if_true]; rw [verifyAppImpl_pass s _ (pf_valid hc hs hw), pf_cb hc hw]

end facts

/-- the generic pool machinery (Lemmas/SessPool) applies with the trivial policy -/
theorem poolHyp_triv (P : InMsg → Prop) (cfg : Cfg) : PoolHyp (fun _ => True) (fun _ _ => True) P cfg :=
  fun _ hm => ⟨hm, fun _ _ => trivial, fun _ _ _ => trivial, fun _ _ _ => trivial, Or.inl triv_resetOK⟩

theorem cfgHyp_triv (cfg : Cfg) : CfgHyp (fun _ => True) (fun _ _ => True) cfg := Or.inl triv_resetOK

end Qfx.Link
