/-
  Store invariants over whole histories: any property of (persistence flag, message store) that is closed under the
  four store mutations the session performs (reset, save-under-the-next-number, count-without-saving, set-target)
  holds after every model function, hence after every event history.  One relation `SP s s'` ("`s'` is reached from
  `s` by such mutations, same configuration"), one lemma per model function.
-/
import Qfx.Model.Session
namespace Qfx.Sess
open Qfx

structure StoreClosed (P : Bool → Store → Prop) : Prop where
  reset : ∀ p st, P p st → P p st.reset
  save : ∀ st (m : OutMsg), P true st → m.seq = st.sender →
    P true { st with msgs := (st.sender, m) :: st.msgs, sender := st.sender + 1 }
  inc : ∀ st, P false st → P false { st with sender := st.sender + 1 }
  target : ∀ p st n, P p st → P p { st with target := n }

def SP (s s' : Sess) : Prop :=
  s'.cfg = s.cfg ∧ ∀ P, StoreClosed P → P s.cfg.persist s.store → P s.cfg.persist s'.store

theorem SP.refl (s : Sess) : SP s s := ⟨rfl, fun _ _ h => h⟩
theorem SP.trans {a b c : Sess} (h1 : SP a b) (h2 : SP b c) : SP a c :=
  ⟨h2.1.trans h1.1, fun P hc h => by have := h2.2 P hc (by rw [h1.1]; exact h1.2 P hc h); rwa [h1.1] at this⟩
theorem SP.of_eq {s s' : Sess} (h1 : s'.cfg = s.cfg) (h2 : s'.store = s.store) : SP s s' :=
  ⟨h1, fun _ _ h => by rw [h2]; exact h⟩

theorem sp_storeReset (s : Sess) : SP s s.storeReset := ⟨rfl, fun _ hc h => hc.reset _ _ h⟩
theorem sp_setTarget (s : Sess) (n : Int) : SP s (s.setTarget n) := ⟨rfl, fun _ hc h => hc.target _ _ n h⟩
theorem sp_incrTarget (s : Sess) : SP s (incrTarget s) := ⟨rfl, fun _ hc h => hc.target _ _ _ h⟩

theorem sp_persistOut (s : Sess) (m : OutMsg) (hm : m.seq = s.store.sender) : SP s (s.persistOut s.store.sender m) := by
  unfold Sess.persistOut
  split
  · rename_i hp
    exact ⟨rfl, fun P hc h => by rw [hp] at h ⊢; exact hc.save _ m h hm⟩
  · rename_i hp
    have hp' : s.cfg.persist = false := by simpa using hp
    exact ⟨rfl, fun P hc h => by rw [hp'] at h ⊢; exact hc.inc _ h⟩

theorem sp_sendQueued (s : Sess) : SP s (sendQueued s) := by
  unfold sendQueued; split
  · exact SP.of_eq rfl rfl
  · exact SP.refl s

theorem sp_prep (s : Sess) (m : OutMsg) : SP s (prep s m).2 := by
  unfold prep prepCore
  simp only []
  split
  · split
    · exact ((sp_storeReset s).trans (SP.of_eq (s := s.storeReset) (s' := s.storeReset.setSentReset true) rfl rfl)).trans
        (sp_persistOut _ _ rfl)
    · exact sp_persistOut _ _ rfl
  · split
    · exact SP.refl s
    · exact sp_persistOut _ _ rfl

section peel
variable {s x : Sess}
theorem speel_emit (o : Obs) (h : SP s x) : SP s (x.emit o) := h.trans (SP.of_eq rfl rfl)
theorem speel_setToSend (q : List OutMsg) (h : SP s x) : SP s (x.setToSend q) := h.trans (SP.of_eq rfl rfl)
theorem speel_setSt (st : SState) (h : SP s x) : SP s (x.setSt st) := h.trans (SP.of_eq rfl rfl)
theorem speel_setOut (b : Bool) (h : SP s x) : SP s (x.setOut b) := h.trans (SP.of_eq rfl rfl)
theorem speel_setInbox (ib : List InMsg) (h : SP s x) : SP s (x.setInbox ib) := h.trans (SP.of_eq rfl rfl)
theorem speel_closeInbox (h : SP s x) : SP s x.closeInbox := h.trans (SP.of_eq rfl rfl)
theorem speel_setSentReset (b : Bool) (h : SP s x) : SP s (x.setSentReset b) := h.trans (SP.of_eq rfl rfl)
theorem speel_setPendingStop (h : SP s x) : SP s x.setPendingStop := h.trans (SP.of_eq rfl rfl)
theorem speel_setStopped (h : SP s x) : SP s x.setStopped := h.trans (SP.of_eq rfl rfl)
theorem speel_setHb (hb : Int) (h : SP s x) : SP s (x.setHb hb) := h.trans (SP.of_eq rfl rfl)
theorem speel_openConn (h : SP s x) : SP s x.openConn := h.trans (SP.of_eq rfl rfl)
theorem speel_clearLog (h : SP s x) : SP s x.clearLog := h.trans (SP.of_eq rfl rfl)
theorem speel_setTarget (n : Int) (h : SP s x) : SP s (x.setTarget n) := h.trans (sp_setTarget x n)
theorem speel_storeReset (h : SP s x) : SP s x.storeReset := h.trans (sp_storeReset x)
theorem speel_incrTarget (h : SP s x) : SP s (incrTarget x) := h.trans (sp_incrTarget x)
theorem speel_sendQueued (h : SP s x) : SP s (sendQueued x) := h.trans (sp_sendQueued x)
theorem speel_ite (c : Prop) [Decidable c] {a b : Sess} (ha : SP s a) (hb : SP s b) : SP s (if c then a else b) := by
  split <;> assumption
end peel

syntax "sp_step" : tactic
macro_rules | `(tactic| sp_step) => `(tactic| assumption)
macro_rules | `(tactic| sp_step) => `(tactic| exact SP.refl _)
macro_rules | `(tactic| sp_step) => `(tactic| apply speel_emit)
macro_rules | `(tactic| sp_step) => `(tactic| apply speel_setToSend)
macro_rules | `(tactic| sp_step) => `(tactic| apply speel_setSt)
macro_rules | `(tactic| sp_step) => `(tactic| apply speel_setOut)
macro_rules | `(tactic| sp_step) => `(tactic| apply speel_setInbox)
macro_rules | `(tactic| sp_step) => `(tactic| apply speel_closeInbox)
macro_rules | `(tactic| sp_step) => `(tactic| apply speel_setSentReset)
macro_rules | `(tactic| sp_step) => `(tactic| apply speel_setPendingStop)
macro_rules | `(tactic| sp_step) => `(tactic| apply speel_setStopped)
macro_rules | `(tactic| sp_step) => `(tactic| apply speel_setHb)
macro_rules | `(tactic| sp_step) => `(tactic| apply speel_openConn)
macro_rules | `(tactic| sp_step) => `(tactic| apply speel_clearLog)
macro_rules | `(tactic| sp_step) => `(tactic| apply speel_setTarget)
macro_rules | `(tactic| sp_step) => `(tactic| apply speel_storeReset)
macro_rules | `(tactic| sp_step) => `(tactic| apply speel_incrTarget)
macro_rules | `(tactic| sp_step) => `(tactic| apply speel_sendQueued)
macro_rules | `(tactic| sp_step) => `(tactic| apply speel_ite)

macro "sp_peel" : tactic => `(tactic| with_reducible (repeat sp_step))
macro "sp_cases" : tactic => `(tactic| (
  (repeat' split)
  all_goals (try dsimp only)
  all_goals (repeat' split)
  all_goals (try dsimp only)
  all_goals (repeat' split)
  all_goals (try dsimp only)
  all_goals sp_peel))

theorem sp_queueForSend (s : Sess) (m : OutMsg) : SP s (queueForSend s m) := by
  unfold queueForSend
  have hp := sp_prep s m
  generalize prep s m = r at hp
  obtain ⟨o, s'⟩ := r
  cases o <;> sp_peel

theorem sp_sendInReplyTo (s : Sess) (m : OutMsg) : SP s (sendInReplyTo s m) := by
  unfold sendInReplyTo
  split
  · exact sp_queueForSend s _
  · have hp := sp_prep s m
    generalize prep s m = r at hp
    obtain ⟨o, s'⟩ := r
    cases o <;> sp_peel

theorem sp_dropAndSend (s : Sess) (m : OutMsg) : SP s (dropAndSend s m) := by
  unfold dropAndSend
  have hp := sp_prep s m
  generalize prep s m = r at hp
  obtain ⟨o, s'⟩ := r
  cases o <;> sp_peel

theorem sp_enqueueAndSend (s : Sess) (m : OutMsg) : SP s (enqueueAndSend s m) := by
  unfold enqueueAndSend
  simp only []
  sp_peel

theorem sp_dropAndReset (s : Sess) : SP s (dropAndReset s) := by unfold dropAndReset; sp_peel

section peel2
variable {s x : Sess}
theorem speel_sendInReplyTo (m : OutMsg) (h : SP s x) : SP s (sendInReplyTo x m) := h.trans (sp_sendInReplyTo x m)
theorem speel_dropAndSend (m : OutMsg) (h : SP s x) : SP s (dropAndSend x m) := h.trans (sp_dropAndSend x m)
theorem speel_enqueueAndSend (m : OutMsg) (h : SP s x) : SP s (enqueueAndSend x m) := h.trans (sp_enqueueAndSend x m)
theorem speel_dropAndReset (h : SP s x) : SP s (dropAndReset x) := h.trans (sp_dropAndReset x)
theorem speel_sendLogonInReplyTo (r : Bool) (h : SP s x) : SP s (sendLogonInReplyTo x r) := h.trans (sp_dropAndSend x _)
theorem speel_sendLogonRe (r : Bool) (m : InMsg) (h : SP s x) : SP s (sendLogonRe x r m) := h.trans (sp_dropAndSend x _)
theorem speel_setReplyLast (v : Option Int) (h : SP s x) : SP s (x.setReplyLast v) := h.trans (SP.of_eq rfl rfl)
theorem speel_sendLogout (h : SP s x) : SP s (sendLogout x) := h.trans (sp_sendInReplyTo x _)
theorem speel_initiateLogout (h : SP s x) : SP s (initiateLogout x) := h.trans (sp_sendInReplyTo x _)
theorem speel_doReject (m : InMsg) (r : Nat) (t : Option Nat) (b : Bool) (h : SP s x) : SP s (doReject x m r t b) :=
  h.trans (sp_sendInReplyTo x _)
theorem sp_sendResendRequest (s : Sess) (b e : Int) : SP s (sendResendRequest s b e).1 := by
  unfold sendResendRequest; simp only []; split <;> exact sp_sendInReplyTo s _
theorem speel_sendResendRequest (b e : Int) (h : SP s x) : SP s (sendResendRequest x b e).1 := h.trans (sp_sendResendRequest x b e)
end peel2
macro_rules | `(tactic| sp_step) => `(tactic| apply speel_sendInReplyTo)
macro_rules | `(tactic| sp_step) => `(tactic| apply speel_dropAndSend)
macro_rules | `(tactic| sp_step) => `(tactic| apply speel_enqueueAndSend)
macro_rules | `(tactic| sp_step) => `(tactic| apply speel_dropAndReset)
macro_rules | `(tactic| sp_step) => `(tactic| apply speel_sendLogonInReplyTo)
macro_rules | `(tactic| sp_step) => `(tactic| apply speel_sendLogonRe)
macro_rules | `(tactic| sp_step) => `(tactic| apply speel_setReplyLast)
macro_rules | `(tactic| sp_step) => `(tactic| apply speel_sendLogout)
macro_rules | `(tactic| sp_step) => `(tactic| apply speel_initiateLogout)
macro_rules | `(tactic| sp_step) => `(tactic| apply speel_doReject)
macro_rules | `(tactic| sp_step) => `(tactic| apply speel_sendResendRequest)

theorem sp_sRR_eq {s : Sess} {b e : Int} {r : Sess × Int × Int} (hr : sendResendRequest s b e = r) : SP s r.1 := by
  rw [← hr]; exact sp_sendResendRequest s b e

theorem sp_verifyAppImpl (s : Sess) (m : InMsg) : SP s (verifyAppImpl s m).1 := by
  unfold verifyAppImpl; sp_cases

theorem sp_verifySelect (s : Sess) (m : InMsg) (a b c : Bool) : SP s (verifySelect s m a b c).1 := by
  unfold verifySelect
  repeat' split
  all_goals first | exact SP.refl s | exact sp_verifyAppImpl s m

theorem sp_doTargetTooLow (s : Sess) (m : InMsg) : SP s (doTargetTooLow s m).1 := by
  unfold doTargetTooLow; sp_cases

theorem sp_processReject (s : Sess) (m : InMsg) (r : Rej) : SP s (processReject s m r).1 := by
  unfold processReject
  split
  · split
    · exact SP.refl s
    · split
      rename_i recv exp _ _ _ _ _ _ heq
      have := sp_sendResendRequest s exp (recv - 1)
      rw [heq] at this; exact this
  · exact sp_doTargetTooLow s m
  all_goals sp_cases

theorem speel_processReject {s x : Sess} (m : InMsg) (r : Rej) (h : SP s x) : SP s (processReject x m r).1 :=
  h.trans (sp_processReject x m r)
macro_rules | `(tactic| sp_step) => `(tactic| apply speel_processReject)

theorem sp_resendLoop (s : Sess) (a b : Int) (l : List (Int × OutMsg)) : SP s (resendLoop s a b l).1 := by
  induction l generalizing s a b with
  | nil => exact SP.refl s
  | cons p rest ih =>
    obtain ⟨n, m⟩ := p
    simp only [resendLoop]
    split
    · exact ih s a (n + 1)
    · split
      · exact ih s a (n + 1)
      · try dsimp only
        split
        · exact ((sp_enqueueAndSend s _).trans (sp_enqueueAndSend _ _)).trans (ih _ _ _)
        · exact (sp_enqueueAndSend s _).trans (ih _ _ _)

theorem sp_resendMessages (s : Sess) (b e : Int) : SP s (resendMessages s b e) := by
  unfold resendMessages
  split
  · exact SP.refl s
  · split
    · exact sp_enqueueAndSend s _
    · have hl := sp_resendLoop s b b (s.store.range b e)
      generalize resendLoop s b b (s.store.range b e) = r at hl
      obtain ⟨s', x, y⟩ := r
      try dsimp only at hl ⊢
      split
      · exact hl.trans (sp_enqueueAndSend s' _)
      · exact hl

theorem speel_resendMessages {s x : Sess} (b e : Int) (h : SP s x) : SP s (resendMessages x b e) := h.trans (sp_resendMessages x b e)
macro_rules | `(tactic| sp_step) => `(tactic| apply speel_resendMessages)

/-- the four handlers that start with `verifySelect` -/
theorem sp_handleLogout (s : Sess) (m : InMsg) : SP s (handleLogout s m).1 := by
  unfold handleLogout
  have hv := sp_verifySelect s m false false true
  generalize verifySelect s m false false true = r at hv
  obtain ⟨s', o⟩ := r
  cases o with
  | some r => exact speel_processReject m r hv
  | none => dsimp only; sp_cases

theorem sp_handleTestRequest (s : Sess) (m : InMsg) : SP s (handleTestRequest s m).1 := by
  unfold handleTestRequest
  have hv := sp_verifySelect s m true true true
  generalize verifySelect s m true true true = r at hv
  obtain ⟨s', o⟩ := r
  cases o with
  | some r => exact speel_processReject m r hv
  | none => dsimp only; sp_cases

theorem sp_handleSequenceReset_core (s : Sess) (m : InMsg) (gf : Bool) :
    SP s (match verifySelect s m gf gf true with
      | (s, some r) => processReject s m r
      | (s, none) =>
        match getInt m 36 with
        | .val n =>
          if n > s.store.target then ((s.setTarget n).emit (.setT n), SState.inSession)
          else if n < s.store.target then (doReject s m 5 none false, SState.inSession)
          else (s, SState.inSession)
        | _ => (s, SState.inSession)).1 := by
  have hv := sp_verifySelect s m gf gf true
  generalize verifySelect s m gf gf true = r at hv
  obtain ⟨s', o⟩ := r
  cases o with
  | some r => exact speel_processReject m r hv
  | none => dsimp only; sp_cases

theorem sp_handleSequenceReset (s : Sess) (m : InMsg) : SP s (handleSequenceReset s m).1 := by
  unfold handleSequenceReset
  split
  · exact sp_processReject s m _
  · exact sp_handleSequenceReset_core s m _

theorem sp_handleResendRequest (s : Sess) (m : InMsg) : SP s (handleResendRequest s m).1 := by
  unfold handleResendRequest
  have hv := sp_verifySelect s m false false true
  generalize verifySelect s m false false true = r at hv
  obtain ⟨s', o⟩ := r
  simp only [] at hv
  cases o with
  | some r => exact speel_processReject m r hv
  | none => dsimp only; sp_cases

theorem sp_logonReply (s : Sess) (m : InMsg) (flag : Bool) : SP s (logonReply s m flag) := by
  unfold logonReply; sp_cases

theorem sp_nxEval (s : Sess) (m : InMsg) (ns : Int) : SP s (nxEval s m ns).1 := by
  unfold nxEval
  sp_cases

theorem sp_logonFinish (s : Sess) (m : InMsg) (ns : Int) : SP s (logonFinish s m ns).1 := by
  unfold logonFinish
  have h : SP s (nxEval (((s.setSentReset false).emit (.armPeer (1200 * s.hb))).emit .onLogon) m ns).1 :=
    SP.trans (by sp_peel) (sp_nxEval _ m ns)
  generalize nxEval _ m ns = r at h
  obtain ⟨x, o⟩ := r
  cases o with
  | some r => exact h
  | none =>
    dsimp only at h ⊢
    sp_cases

theorem sp_logonRefused (s : Sess) (m : InMsg) : SP s (logonRefused s m) := by
  unfold logonRefused
  sp_cases

theorem sp_logonTail (s : Sess) (m : InMsg) (ns : Int) : SP s (logonTail s m ns).1 := by
  unfold logonTail
  split
  · exact sp_logonRefused s m
  · exact (sp_logonReply s m _).trans (sp_logonFinish _ m _)

theorem sp_handleLogon (s : Sess) (m : InMsg) : SP s (handleLogon s m).1 := by
  unfold handleLogon
  split
  · exact SP.refl s
  · generalize hs1 : (if (!s.cfg.initiator && s.cfg.refreshOnLogon) = true then s.emit Obs.refresh else s) = s1
    have h1 : SP s s1 := by rw [← hs1]; sp_peel
    simp only []
    have hv := sp_verifyAppImpl s1 m
    generalize verifyAppImpl s1 m = r at hv
    obtain ⟨s2, o⟩ := r
    simp only [] at hv
    have h2 := h1.trans hv
    cases o with
    | some r => exact h2
    | none =>
      simp only []
      generalize hs3 : (if ((if s2.cfg.initiator = true then false else s2.cfg.resetOnLogon) || logonResetFlag m && !s2.sentReset) = true
          then dropAndReset s2 else s2) = s3
      have h3 : SP s s3 := by rw [← hs3]; sp_peel
      have hv2 := sp_verifySelect s3 m false true false
      generalize verifySelect s3 m false true false = r2 at hv2
      obtain ⟨s4, o2⟩ := r2
      simp only [] at hv2
      have h4 := h3.trans hv2
      cases o2 with
      | some r => exact h4
      | none => exact h4.trans (sp_logonTail s4 m _)

theorem sp_inSessionFixMsgIn (s : Sess) (m : InMsg) : SP s (inSessionFixMsgIn s m).1 := by
  unfold inSessionFixMsgIn
  simp only []
  split
  · have hl := sp_handleLogon s m
    generalize handleLogon s m = r at hl
    obtain ⟨s', o⟩ := r
    cases o with
    | some e => exact speel_sendInReplyTo ((mkOut "5" []).inReplyTo m) hl
    | none => exact hl
  · split
    · exact sp_handleLogout s m
    · split
      · exact sp_handleResendRequest s m
      · split
        · exact sp_handleSequenceReset s m
        · split
          · exact sp_handleTestRequest s m
          · have hv := sp_verifySelect s m true true true
            generalize verifySelect s m true true true = r at hv
            obtain ⟨s', o⟩ := r
            cases o with
            | some r => exact speel_processReject m r hv
            | none => exact speel_incrTarget hv

theorem sp_drainStash (fuel : Nat) (s : Sess) (stash : List (Int × InMsg)) (last : SState) :
    SP s (drainStash fuel s stash last).1 := by
  induction fuel generalizing s stash last with
  | zero => exact SP.refl s
  | succ n ih =>
    unfold drainStash
    split
    · exact SP.refl s
    · simp only []
      rename_i nn m _
      have h1 := sp_inSessionFixMsgIn s m
      generalize inSessionFixMsgIn s m = r at h1
      obtain ⟨s', nx⟩ := r
      simp only [] at h1 ⊢
      split
      · exact h1
      · exact h1.trans (ih _ _ _)

theorem sp_drain_eq {fuel : Nat} {s : Sess} {stash : List (Int × InMsg)} {last : SState} {r : Sess × SState × List (Int × InMsg)}
    (hr : drainStash fuel s stash last = r) : SP s r.1 := by
  rw [← hr]; exact sp_drainStash fuel s stash last

theorem sp_resendFixMsgIn (s : Sess) (stash : List (Int × InMsg)) (cur fin : Int) (m : InMsg) :
    SP s (resendFixMsgIn s stash cur fin m).1 := by
  unfold resendFixMsgIn
  have h1 := sp_inSessionFixMsgIn s m
  generalize inSessionFixMsgIn s m = r at h1
  obtain ⟨s', nx⟩ := r
  simp only [] at h1 ⊢
  repeat' split
  all_goals (try dsimp only)
  all_goals first
    | exact h1
    | exact h1.trans (sp_sendResendRequest _ _ _)
    | exact h1.trans (sp_sRR_eq (by assumption))
    | exact h1.trans (sp_drain_eq (by assumption))

theorem sp_shutdownWithReason (s : Sess) (m : InMsg) (incr : Bool) : SP s (shutdownWithReason s m incr).1 := by
  unfold shutdownWithReason
  show SP s (if incr = true then incrTarget (dropAndSend s ((mkOut "5" []).inReplyTo m)) else dropAndSend s ((mkOut "5" []).inReplyTo m))
  sp_peel

theorem sp_handleLogon_eq {s : Sess} {m : InMsg} {r : Sess × Option LogonErr} (hr : handleLogon s m = r) : SP s r.1 := by
  rw [← hr]; exact sp_handleLogon s m

theorem sp_logonFixMsgIn (s : Sess) (m : InMsg) : SP s (logonFixMsgIn s m).1 := by
  unfold logonFixMsgIn
  split
  · exact SP.refl s
  · repeat' split
    all_goals (try dsimp only)
    all_goals (
      have hh := sp_handleLogon_eq (by assumption : handleLogon s m = _)
      first
        | exact hh
        | exact hh.trans (sp_shutdownWithReason _ _ _)
        | exact hh.trans (sp_sRR_eq (by assumption)))

theorem sp_fixMsgInCore (s : Sess) (m : InMsg) : SP s (fixMsgInCore s m).1 := by
  unfold fixMsgInCore
  split
  · exact SP.refl s
  · exact SP.refl s
  · exact sp_logonFixMsgIn s m
  · have h1 := sp_inSessionFixMsgIn s m
    generalize inSessionFixMsgIn s m = r at h1
    obtain ⟨s', nx⟩ := r
    dsimp only
    split <;> exact h1
  · exact sp_inSessionFixMsgIn s m
  · exact sp_inSessionFixMsgIn s m
  · exact sp_resendFixMsgIn s _ _ _ m
  · exact sp_resendFixMsgIn s _ _ _ m

theorem sp_discMid (s : Sess) : SP s (discMid s) := by
  unfold discMid
  simp only []
  sp_peel

theorem sp_mutual : ∀ fuel : Nat,
    (∀ s next, SP s (setState fuel s next)) ∧
    (∀ s, SP s (drainIn fuel s)) ∧
    (∀ s m, SP s (incoming fuel s m)) ∧
    (∀ s a b, SP s (checkSessionTime fuel s a b)) := by
  intro fuel
  induction fuel with
  | zero =>
    refine ⟨?_, ?_, ?_, ?_⟩
    · intro s next; unfold setState; sp_peel
    · intro s; unfold drainIn; exact SP.refl s
    · intro s m; unfold incoming; exact SP.refl s
    · intro s a b; unfold checkSessionTime; exact SP.refl s
  | succ n ih =>
    obtain ⟨ihS, ihD, ihI, ihC⟩ := ih
    refine ⟨?_, ?_, ?_, ?_⟩
    · intro s next
      unfold setState
      simp only []
      split
      · generalize hx : (if s.st.connected = true then (drainIn n (discMid (drainIn n s))).closeInbox else s) = x
        have hxJ : SP s x := by
          rw [← hx]; split
          · exact speel_closeInbox (((ihD s).trans (sp_discMid _)).trans (ihD _))
          · exact SP.refl s
        sp_peel
      · sp_peel
    · intro s
      unfold drainIn
      split
      · exact SP.refl s
      · split
        · exact SP.refl s
        · rename_i m rest _
          exact ((SP.of_eq (s := s) (s' := s.setInbox rest) rfl rfl).trans (ihI _ _)).trans (ihD _)
    · intro s m
      unfold incoming
      simp only []
      have h1 := ihC s true true
      generalize checkSessionTime n s true true = s1 at h1
      split
      · exact h1
      · cases m with
        | none => sp_peel
        | some m =>
          simp only []
          have hf := sp_fixMsgInCore s1 m
          generalize fixMsgInCore s1 m = r at hf
          obtain ⟨s2, nx⟩ := r
          exact speel_emit _ ((h1.trans hf).trans (ihS s2 nx))
    · intro s a b
      unfold checkSessionTime
      simp only []
      split
      · exact (by sp_peel : SP s (if s.st.loggedOn = true then sendLogout s else s)).trans (ihS _ _)
      · generalize hx : (if (!s.st.sessionTime) = true then setState n s SState.latent else s) = x
        have hxJ : SP s x := by
          rw [← hx]; split
          · exact ihS _ _
          · exact SP.refl s
        split
        · exact (by sp_peel : SP s (dropAndReset (if x.st.loggedOn = true then sendLogout x else x))).trans (ihS _ _)
        · exact hxJ

theorem sp_inSessionTimeout (s : Sess) (e : TimerEv) : SP s (inSessionTimeout s e).1 := by
  unfold inSessionTimeout; sp_cases

theorem sp_ist_eq {s : Sess} {e : TimerEv} {r : Sess × Bool} (hr : inSessionTimeout s e = r) : SP s r.1 := by
  rw [← hr]; exact sp_inSessionTimeout s e

theorem sp_timeoutCore (s : Sess) (e : TimerEv) : SP s (timeoutCore s e).1 := by
  unfold timeoutCore
  repeat' split
  all_goals (try dsimp only)
  all_goals first
    | exact SP.refl s
    | exact sp_inSessionTimeout s e
    | exact sp_ist_eq (by assumption)

theorem sp_connect (s : Sess) : SP s (connect s).1 := by
  unfold connect
  repeat' split
  all_goals (try simp only [apply_ite Prod.fst])
  all_goals sp_peel

theorem sp_stopNext (s : Sess) : SP s (stopNext s).1 := by
  unfold stopNext
  repeat' split
  all_goals (try dsimp only)
  all_goals sp_peel

theorem speel_setLastChecked {s x : Sess} (n : Int) (h : SP s x) : SP s (x.setLastChecked n) := h.trans (SP.of_eq rfl rfl)
macro_rules | `(tactic| sp_step) => `(tactic| apply speel_setLastChecked)

theorem sp_checkResetTime (s : Sess) (now : Int) : SP s (checkResetTime s now) := by
  unfold checkResetTime
  repeat' split
  all_goals (try dsimp only)
  all_goals sp_peel

theorem sp_stepCore (s : Sess) (e : Ev) : SP s (stepCore s e).1 := by
  obtain ⟨hS, hD, hI, hC⟩ := sp_mutual (fuelOf s)
  unfold stepCore
  simp only []
  cases e with
  | connect => exact sp_connect s
  | incomingMsg m => exact hI s m
  | arrive m => dsimp only; split <;> sp_peel
  | pop =>
    dsimp only
    split
    · exact SP.refl s
    · split
      · exact SP.refl s
      · exact (SP.of_eq (s := s) rfl rfl).trans (hI _ _)
  | timeout ev =>
    dsimp only
    have h1 := hC s true true
    have h2 := sp_timeoutCore (checkSessionTime (fuelOf s) s true true) ev
    generalize timeoutCore (checkSessionTime (fuelOf s) s true true) ev = r at h2
    obtain ⟨s2, nx⟩ := r
    exact (h1.trans h2).trans (hS s2 nx)
  | disconnected => dsimp only; split <;> first | exact SP.refl s | exact hS _ _
  | stop =>
    dsimp only
    have h1 : SP s s.setPendingStop := SP.of_eq rfl rfl
    have h2 := sp_stopNext s.setPendingStop
    generalize stopNext s.setPendingStop = r at h2
    obtain ⟨s2, nx⟩ := r
    exact (h1.trans h2).trans (hS s2 nx)
  | send m =>
    dsimp only
    have hp := sp_prep s m
    generalize prep s m = r at hp
    obtain ⟨o, s2⟩ := r
    cases o with
    | none => exact hp
    | some m' => exact speel_setToSend _ hp
  | flush =>
    dsimp only
    have h1 := hC s true true
    split <;> sp_peel
  | sessionTime r sm => exact hC s r sm
  | resetTime now => exact sp_checkResetTime s now

theorem sp_step (s : Sess) (e : Ev) : SP s (step s e).1 := by
  unfold step
  exact (((SP.of_eq (s := s) (s' := s.clearLog) rfl rfl)).trans (sp_stepCore s.clearLog e)).trans (SP.of_eq rfl rfl)

end Qfx.Sess
