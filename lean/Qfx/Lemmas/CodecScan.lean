/- C10: the independent scanner of Qfx.Spec.Codec inverts the wire form of canonical fields and accepts every built message -/
import Qfx.Lemmas.CodecWire
namespace Qfx
open Qfx.Spec

def wfOf (tv : TagValue) : WField := { tagText := fmtInt tv.tag, val := tv.value, raw := tv.bytes }

theorem fmtInt_inj (a b : Int) (ha : inInt64 a) (hb : inInt64 b) (h : fmtInt a = fmtInt b) : a = b := by
  have h1 := atoi_fmtInt a ha
  have h2 := atoi_fmtInt b hb
  rw [h] at h1
  rw [h1] at h2
  injection h2

theorem scanLoop_cons (fuel : Nat) (x : Nat) (xs : Bytes) (e : Nat) (he : indexByte (x :: xs) SOH = some e) :
    scanLoop (fuel + 1) (x :: xs) 0 =
      (match indexByte ((x :: xs).take (e + 1)) cEq with
       | none => none
       | some 0 => none
       | some eq =>
         let f : WField := { tagText := ((x :: xs).take (e + 1)).take eq, val := (((x :: xs).take (e + 1)).take e).drop (eq + 1), raw := (x :: xs).take (e + 1) }
         (scanLoop fuel ((x :: xs).drop (e + 1)) (if f.tagText = [50, 49, 50] then smallNat f.val else 0)).map (f :: ·)) := by
  simp only [scanLoop, he, Nat.lt_irrefl, if_false]
  rfl


theorem scanLoop_ne (fuel : Nat) (b : Bytes) (e : Nat) (hb : b ≠ []) (he : indexByte b SOH = some e) :
    scanLoop (fuel + 1) b 0 =
      (match indexByte (b.take (e + 1)) cEq with
       | none => none
       | some 0 => none
       | some eq =>
         let f : WField := { tagText := (b.take (e + 1)).take eq, val := ((b.take (e + 1)).take e).drop (eq + 1), raw := b.take (e + 1) }
         (scanLoop fuel (b.drop (e + 1)) (if f.tagText = [50, 49, 50] then smallNat f.val else 0)).map (f :: ·)) := by
  cases b with
  | nil => exact absurd rfl hb
  | cons x xs => exact scanLoop_cons fuel x xs e he

theorem fmtInt_212 : fmtInt 212 = [50, 49, 50] := by
  have h1 : fmtNat 2 = [50] := by rw [fmtNat]; simp
  have h2 : fmtNat 21 = [50, 49] := by rw [fmtNat]; simp [h1]
  have h3 : fmtNat 212 = [50, 49, 50] := by rw [fmtNat]; simp [h2]
  simp [fmtInt, h3]

/-- one step of the independent scanner on a canonical field -/
theorem scanLoop_step (fuel : Nat) (tv : TagValue) (rest : Bytes) (hc : CanonTV tv) (hx : tv.tag ≠ 212) :
    scanLoop (fuel + 1) (tv.bytes ++ rest) 0 = (scanLoop fuel rest 0).map (wfOf tv :: ·) := by
  have hw := canonTV_isWire tv hc
  obtain ⟨hinit, hval, hin⟩ := hc
  have hbytes : tv.bytes = fmtInt tv.tag ++ cEq :: (tv.value ++ [SOH]) := by
    have : tv.bytes = (TagValue.init tv.tag tv.value).bytes := by rw [← hinit]
    rw [this]; simp [TagValue.init]
  have hchars := fmtInt_chars tv.tag
  have hne := fmtInt_ne_nil tv.tag
  have hlen : tv.bytes.length = (fmtInt tv.tag).length + 1 + tv.value.length + 1 := by rw [hbytes]; simp; omega
  have hpos : 1 ≤ (fmtInt tv.tag).length := by
    cases h : fmtInt tv.tag with
    | nil => exact absurd h hne
    | cons a r => simp
  have hsoh : indexByte (tv.bytes ++ rest) SOH = some (tv.bytes.length - 1) := by
    have e : tv.bytes ++ rest = (fmtInt tv.tag ++ cEq :: tv.value) ++ SOH :: rest := by rw [hbytes]; simp
    rw [e, indexByte_append_first]
    · rw [hbytes]; simp
    · intro x hxm
      simp only [List.mem_append, List.mem_cons] at hxm
      rcases hxm with h | h | h
      · exact (hchars x h).2
      · subst h; decide
      · exact hval x h
  have hb : tv.bytes ++ rest ≠ [] := by
    intro h
    have h2 : tv.bytes = [] := (List.append_eq_nil_iff.1 h).1
    rw [h2] at hlen; simp at hlen
  have e1 : tv.bytes.length - 1 + 1 = tv.bytes.length := by omega
  rw [scanLoop_ne fuel _ _ hb hsoh, e1]
  have htake : (tv.bytes ++ rest).take tv.bytes.length = tv.bytes := by simp
  have hdrop : (tv.bytes ++ rest).drop tv.bytes.length = rest := by simp
  rw [htake, hdrop]
  have hidx : indexByte tv.bytes cEq = some (fmtInt tv.tag).length := by
    rw [hbytes]; exact indexByte_append_first _ _ cEq (fun x hx => (hchars x hx).1)
  rw [hidx]
  have htt : tv.bytes.take (fmtInt tv.tag).length = fmtInt tv.tag := by rw [hbytes]; simp
  have hv : (tv.bytes.take (tv.bytes.length - 1)).drop ((fmtInt tv.tag).length + 1) = tv.value := by
    rw [hlen, hbytes]
    have e1 : fmtInt tv.tag ++ cEq :: (tv.value ++ [SOH]) = (fmtInt tv.tag ++ cEq :: tv.value) ++ [SOH] := by simp
    have e2 : (fmtInt tv.tag).length + 1 + tv.value.length + 1 - 1 = (fmtInt tv.tag ++ cEq :: tv.value).length := by simp; omega
    rw [e1, e2, List.take_left']
    have e3 : fmtInt tv.tag ++ cEq :: tv.value = (fmtInt tv.tag ++ [cEq]) ++ tv.value := by simp
    have e4 : (fmtInt tv.tag).length + 1 = (fmtInt tv.tag ++ [cEq]).length := by simp
    rw [e3, e4, List.drop_left']
    rfl
    rfl
  have hnot : ¬ fmtInt tv.tag = [50, 49, 50] := by
    intro h
    rw [← fmtInt_212] at h
    exact hx (fmtInt_inj _ _ hin (by unfold inInt64; omega) h)
  cases hk : (fmtInt tv.tag).length with
  | zero => omega
  | succ k =>
    simp only []
    rw [← hk, htt, hv]
    simp only [hnot, if_false]
    rfl

theorem scanLoop_canon : ∀ (L : List TagValue) (fuel : Nat), (∀ tv ∈ L, CanonTV tv ∧ tv.tag ≠ 212) → fuel > L.length →
    scanLoop fuel (wireOf L) 0 = some (L.map wfOf) := by
  intro L
  induction L with
  | nil =>
    intro fuel _ hf
    cases fuel with
    | zero => simp at hf
    | succ f => simp [wireOf, scanLoop]
  | cons tv r ih =>
    intro fuel h hf
    cases fuel with
    | zero => simp at hf
    | succ f =>
      have e : wireOf (tv :: r) = tv.bytes ++ wireOf r := by simp [wireOf]
      rw [e, scanLoop_step f tv _ (h tv (by simp)).1 (h tv (by simp)).2, ih f (fun x hx => h x (by simp [hx])) (by simp at hf; omega)]
      rfl


/-! ## the scanner's well-formedness predicate on a built message -/

theorem fmtInt_8 : fmtInt 8 = [56] := by
  have h : fmtNat 8 = [56] := by rw [fmtNat]; simp
  simp [fmtInt, h]
theorem fmtInt_9 : fmtInt 9 = [57] := by
  have h : fmtNat 9 = [57] := by rw [fmtNat]; simp
  simp [fmtInt, h]
theorem fmtInt_35 : fmtInt 35 = [51, 53] := by
  have h1 : fmtNat 3 = [51] := by rw [fmtNat]; simp
  have h : fmtNat 35 = [51, 53] := by rw [fmtNat]; simp [h1]
  simp [fmtInt, h]
theorem fmtInt_10 : fmtInt 10 = [49, 48] := by
  have h1 : fmtNat 1 = [49] := by rw [fmtNat]; simp
  have h : fmtNat 10 = [49, 48] := by rw [fmtNat]; simp [h1]
  simp [fmtInt, h]

theorem rawLen_map (l : List TagValue) : rawLen (l.map wfOf) = (wireOf l).length := by
  induction l with
  | nil => rfl
  | cons tv r ih =>
    have e1 : wireOf (tv :: r) = tv.bytes ++ wireOf r := by simp [wireOf]
    simp only [rawLen, List.map_cons, List.sum_cons] at ih ⊢
    rw [e1, List.length_append, ← ih]; rfl

theorem rawSum_map (l : List TagValue) : rawSum (l.map wfOf) = (wireOf l).sum := by
  induction l with
  | nil => rfl
  | cons tv r ih =>
    have e1 : wireOf (tv :: r) = tv.bytes ++ wireOf r := by simp [wireOf]
    simp only [rawSum, List.map_cons, List.sum_cons] at ih ⊢
    rw [e1, List.sum_append, ← ih]; rfl

theorem wfScanned_snoc (f8 f9 f10 : WField) (mid : List WField) :
    wfScanned (f8 :: f9 :: (mid ++ [f10])) =
      (f8.tagText == t8 && f9.tagText == t9 && (mid.head?.map (·.tagText)) == some t35 && f10.tagText == t10 &&
       mid.all (fun f => f.tagText != t10 && f.tagText != t8 && f.tagText != t9) &&
       f9.val == fmtNat (rawLen mid) &&
       f10.val == digitsW 3 ((rawSum (f8 :: f9 :: mid)) % 256)) := by
  simp [wfScanned, List.reverse_append]


theorem length_le_wire (l : List TagValue) (h : ∀ tv ∈ l, CanonTV tv) : l.length ≤ (wireOf l).length := by
  induction l with
  | nil => simp
  | cons tv r ih =>
    have e1 : wireOf (tv :: r) = tv.bytes ++ wireOf r := by simp [wireOf]
    have hb : 1 ≤ tv.bytes.length := by
      have e := (h tv (by simp)).1
      have : tv.bytes = (TagValue.init tv.tag tv.value).bytes := by rw [← e]
      rw [this]; simp [TagValue.init]; omega
    have := ih (fun x hx => h x (by simp [hx]))
    rw [e1, List.length_append]; simp; omega

theorem fieldsLength_framed (u8 u9 u10 : TagValue) (mid : List TagValue) (h8 : u8.tag = 8) (h9 : u9.tag = 9) (h10 : u10.tag = 10) :
    fieldsLength (u8 :: u9 :: (mid ++ [u10])) = fieldsLength mid := by
  have e : u8 :: u9 :: (mid ++ [u10]) = [u8, u9] ++ mid ++ [u10] := by simp
  rw [e, fieldsLength_append, fieldsLength_append]
  simp [fieldsLength, List.filter_cons, h8, h9, h10]

/-- THE INDEPENDENT SCANNER ACCEPTS EVERY BUILT MESSAGE -/
theorem build_scans_wf (m : Message) (hb : Built m) (hc : Wired m) (tv8 : TagValue) (f35 : Field)
    (h8 : alFind m.header.lookup 8 = some (.owned [tv8])) (h35 : alFind m.header.lookup 35 = some f35)
    (bytes : Bytes) (m' : Message) (h : m.build Fixes.cur = .ok (bytes, m')) (hsmall : bytes.length < 9223372036854775808) :
    ∃ L : List TagValue, bytes = wireOf L ∧ scanFields bytes = some (L.map wfOf) ∧ wfScanned (L.map wfOf) = true := by
  obtain ⟨u9, u35, restH, frontT, u10, hbytes, hwm, _, _, _, h9eq, h10eq, hcanon, hclean⟩ :=
    build_wire' m hb hc tv8 f35 h8 h35 bytes m' h hsmall
  generalize hpre : restH ++ m.body.tvs m.fields ++ frontT = pre at hbytes hwm h9eq h10eq hcanon hclean
  have hall : ∀ tv ∈ tv8 :: u9 :: u35 :: (pre ++ [u10]), CanonTV tv ∧ tv.tag ≠ 212 := by
    intro tv htv
    refine ⟨hcanon tv htv, ?_⟩
    simp only [List.mem_cons, List.mem_append] at htv
    rcases htv with e | e | e | e | e
    · subst e; rw [hwm.tag8]; decide
    · subst e; rw [hwm.tag9]; decide
    · subst e; rw [hwm.tag35]; decide
    · exact (hwm.wpre tv e).2.2
    · simp at e; subst e; rw [hwm.tag10]; decide
  have hscan : scanFields bytes = some ((tv8 :: u9 :: u35 :: (pre ++ [u10])).map wfOf) := by
    unfold scanFields
    rw [hbytes]
    apply scanLoop_canon _ _ hall
    have := length_le_wire _ hcanon
    omega
  refine ⟨_, hbytes, hscan, ?_⟩
  have eL : (tv8 :: u9 :: u35 :: (pre ++ [u10])).map wfOf = wfOf tv8 :: wfOf u9 :: ((u35 :: pre).map wfOf ++ [wfOf u10]) := by simp
  rw [eL, wfScanned_snoc]
  have c8 : (wfOf tv8).tagText = t8 := by simp [wfOf, hwm.tag8, fmtInt_8, t8]
  have c9 : (wfOf u9).tagText = t9 := by simp [wfOf, hwm.tag9, fmtInt_9, t9]
  have c10 : (wfOf u10).tagText = t10 := by simp [wfOf, hwm.tag10, fmtInt_10, t10]
  have c35 : ((u35 :: pre).map wfOf).head?.map (·.tagText) = some t35 := by simp [wfOf, hwm.tag35, fmtInt_35, t35]
  have cmid : ((u35 :: pre).map wfOf).all (fun f => f.tagText != t10 && f.tagText != t8 && f.tagText != t9) = true := by
    rw [List.all_eq_true]
    intro f hf
    obtain ⟨tv, htv, rfl⟩ := List.mem_map.1 hf
    have hns := hclean tv htv
    have hin : inInt64 tv.tag :=
      (hcanon tv (by simp only [List.mem_cons, List.mem_append] at htv ⊢; rcases htv with e | e <;> simp [e])).2.2
    simp only [isSpecialTag, not_or] at hns
    have n10 : fmtInt tv.tag ≠ t10 := by
      intro e; rw [t10, ← fmtInt_10] at e; exact hns.2.2 (fmtInt_inj _ _ hin (by unfold inInt64; omega) e)
    have n8 : fmtInt tv.tag ≠ t8 := by
      intro e; rw [t8, ← fmtInt_8] at e; exact hns.1 (fmtInt_inj _ _ hin (by unfold inInt64; omega) e)
    have n9 : fmtInt tv.tag ≠ t9 := by
      intro e; rw [t9, ← fmtInt_9] at e; exact hns.2.1 (fmtInt_inj _ _ hin (by unfold inInt64; omega) e)
    simp [wfOf, n10, n8, n9]
  have hcl : ∀ tv ∈ u35 :: pre, tv.tag ≠ 8 ∧ tv.tag ≠ 9 ∧ tv.tag ≠ 10 := by
    intro tv htv; have := hclean tv htv; simp only [isSpecialTag, not_or] at this; exact this
  have clen : (wfOf u9).val = fmtNat (rawLen ((u35 :: pre).map wfOf)) := by
    have e1 : (wfOf u9).val = u9.value := rfl
    have e2 : u9.value = fmtNat (fieldsLength (tv8 :: u9 :: u35 :: (pre ++ [u10]))) := by
      have := congrArg TagValue.value h9eq; simpa [TagValue.init] using this
    have e3 : tv8 :: u9 :: u35 :: (pre ++ [u10]) = tv8 :: u9 :: ((u35 :: pre) ++ [u10]) := by simp
    rw [e1, e2, e3, fieldsLength_framed tv8 u9 u10 (u35 :: pre) hwm.tag8 hwm.tag9 hwm.tag10, rawLen_map,
      fieldsLength_eq_len (u35 :: pre) hcl]
  have csum : (wfOf u10).val = digitsW 3 ((rawSum (wfOf tv8 :: wfOf u9 :: (u35 :: pre).map wfOf)) % 256) := by
    have e1 : (wfOf u10).val = u10.value := rfl
    have e2 : u10.value = digitsW 3 ((wireOf (tv8 :: u9 :: u35 :: pre)).sum % 256) := by
      have := congrArg TagValue.value h10eq; simpa [TagValue.init] using this
    have e3 : wfOf tv8 :: wfOf u9 :: (u35 :: pre).map wfOf = (tv8 :: u9 :: u35 :: pre).map wfOf := by simp
    rw [e1, e2, e3, rawSum_map]
  rw [c8, c9, c10, c35, cmid, clen, csum]
  simp

end Qfx
