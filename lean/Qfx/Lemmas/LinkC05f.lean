/-
  C05 helper lemmas, part f: the invariant `K` through the dispatch of inbound messages, the stash drain, the state
  changes (`setState` / `drainIn` / `incoming` / `checkSessionTime`) and one whole event.
-/
import Qfx.Lemmas.LinkC05e
namespace Qfx.Link
open Qfx Qfx.Sess

abbrev TN : Obs → Prop := fun _ => True
abbrev TS : Store → Store → Prop := fun _ _ => True

theorem K_inSessionFixMsgIn {c : Ctx} (hc : CtxOK c) {s : Sess} (hk : K c s) {im : InMsg} (hp : PoolP c im) :
    K c (inSessionFixMsgIn s im).1 := by
  obtain ⟨m, rfl, hw, hn⟩ := hp
  unfold inSessionFixMsgIn
  simp only [toIn_kind]
  split
  · rename_i hkA
    have hkA' : m.kind = "A" := by simpa using hkA
    have h := (K_handleLogon hc hk hw (by rw [hkA']; decide) (by rw [hkA']; decide)).1
    generalize handleLogon s (toIn c.pcfg m) = r at h
    obtain ⟨s', o⟩ := r
    cases o with
    | some e => exact (sext_sendInReplyTo s' ((mkOut "5" []).inReplyTo (toIn c.pcfg m)) (outOK_logout.re _)).K h
    | none => exact h
  · split
    · rename_i hk5
      have hk5' : m.kind = "5" := by simpa using hk5
      exact K_handleLogout hc hk hw (by rw [hk5']; decide) (by rw [hk5']; decide)
    · split
      · rename_i hk2
        exact K_handleResendRequest hc hk hw (by simpa using hk2)
      · split
        · rename_i hk4
          exact K_handleSequenceReset hc hk hw (by simpa using hk4)
        · rename_i hk4
          have hk4' : m.kind ≠ "4" := by simpa using hk4
          split
          · rename_i hk1
            have hk1' : m.kind = "1" := by simpa using hk1
            exact K_handleTestRequest hc hk hw (by rw [hk1']; decide) hk4'
          · exact K_generic hc hk hw hn hk4'

theorem hout_inSession {c : Ctx} {s : Sess} {im : InMsg} (hp : PoolP c im) (hs : StashOK (PoolP c) s.st) :
    HOut TN TS (PoolP c) s (inSessionFixMsgIn s im) :=
  hout_inSessionFixMsgIn s im (poolHyp_triv _ _ im hp) (cfgHyp_triv _) hs

theorem K_drainStash {c : Ctx} (hc : CtxOK c) (fuel : Nat) (s : Sess) (stash : List (Int × InMsg)) (last : SState) (hk : K c s)
    (hst : ∀ p ∈ stash, PoolP c p.2) : K c (drainStash fuel s stash last).1 := by
  induction fuel generalizing s stash last with
  | zero => exact hk
  | succ n ih =>
    unfold drainStash
    split
    · exact hk
    · simp only []
      rename_i nn m hf
      have hm : PoolP c m := hst (nn, m) (List.mem_of_find?_eq_some hf)
      have h1 := K_inSessionFixMsgIn hc hk hm
      generalize inSessionFixMsgIn s m = r at h1
      obtain ⟨s', nx⟩ := r
      simp only [] at h1 ⊢
      split
      · exact h1
      · exact ih _ _ _ h1 (fun p hp => hst p (List.mem_filter.1 hp).1)

theorem K_sRR_eq {c : Ctx} {s : Sess} {b e : Int} {r : Sess × Int × Int} (hr : sendResendRequest s b e = r) (hk : K c s) : K c r.1 := by
  rw [← hr]; exact (sext_sendResendRequest s b e).K hk

theorem K_drain_eq {c : Ctx} (hc : CtxOK c) {fuel : Nat} {s : Sess} {stash : List (Int × InMsg)} {last : SState}
    {r : Sess × SState × List (Int × InMsg)} (hr : drainStash fuel s stash last = r) (hk : K c s)
    (hst : ∀ p ∈ stash, PoolP c p.2) : K c r.1 := by
  rw [← hr]; exact K_drainStash hc fuel s stash last hk hst

theorem K_resendFixMsgIn {c : Ctx} (hc : CtxOK c) {s : Sess} (hk : K c s) (stash : List (Int × InMsg)) (cur fin : Int) {im : InMsg}
    (hp : PoolP c im) (hs : StashOK (PoolP c) s.st) (hst : ∀ p ∈ stash, PoolP c p.2) :
    K c (resendFixMsgIn s stash cur fin im).1 := by
  unfold resendFixMsgIn
  have h1 := K_inSessionFixMsgIn hc hk hp
  have h2 := (hout_inSession hp hs).stash
  generalize inSessionFixMsgIn s im = r at h1 h2
  obtain ⟨s', nx⟩ := r
  simp only [] at h1 h2 ⊢
  repeat' split
  all_goals (try dsimp only)
  all_goals first
    | exact h1
    | exact (sext_sendResendRequest _ _ _).K h1
    | exact K_sRR_eq (by assumption) h1
    | exact K_drain_eq hc (by assumption) h1 (by split <;> first | exact h2 | exact hst)

theorem K_shutdown_false {c : Ctx} {s : Sess} (im : InMsg) (hk : K c s) : K c (shutdownWithReason s im false).1 := by
  unfold shutdownWithReason
  simp only [Bool.false_eq_true, if_false]
  exact (sext_dropAndSend s _ (outOK_logout.re im)).K hk

theorem K_logonFixMsgIn {c : Ctx} (hc : CtxOK c) {s : Sess} (hk : K c s) {im : InMsg} (hp : PoolP c im) :
    K c (logonFixMsgIn s im).1 := by
  obtain ⟨m, rfl, hw, hn⟩ := hp
  unfold logonFixMsgIn
  split
  · exact hk
  · rename_i hkA
    have hkA' : m.kind = "A" := by rw [toIn_kind] at hkA; simpa using hkA
    have h := K_handleLogon hc hk hw (by rw [hkA']; decide) (by rw [hkA']; decide)
    generalize handleLogon s (toIn c.pcfg m) = r at h
    obtain ⟨s', o⟩ := r
    obtain ⟨h1, h2⟩ := h
    simp only [] at h1 h2
    split
    · rename_i heq; cases heq; exact h1
    · rename_i heq; cases heq
      rcases h2 _ rfl with ⟨a, b, hr⟩ | ⟨a, b, hr⟩ <;> cases hr
    · rename_i heq; cases heq; exact K_shutdown_false _ h1
    · rename_i heq; cases heq
      exact (sext_sendResendRequest _ _ _).K h1
    · rename_i heq; cases heq; exact h1

theorem K_fixMsgInCore {c : Ctx} (hc : CtxOK c) {s : Sess} (hk : K c s) {im : InMsg} (hp : PoolP c im) (hs : StashOK (PoolP c) s.st) :
    K c (fixMsgInCore s im).1 := by
  unfold fixMsgInCore
  split
  · exact hk
  · exact hk
  · exact K_logonFixMsgIn hc hk hp
  · have h1 := K_inSessionFixMsgIn hc hk hp
    generalize inSessionFixMsgIn s im = r at h1
    obtain ⟨s', nx⟩ := r
    dsimp only
    split <;> exact h1
  · exact K_inSessionFixMsgIn hc hk hp
  · exact K_inSessionFixMsgIn hc hk hp
  · rename_i st c' f heq
    exact K_resendFixMsgIn hc hk _ _ _ hp hs (by have := hs; rw [heq] at this; exact this)
  · rename_i st c' f heq
    exact K_resendFixMsgIn hc hk _ _ _ hp hs (by have := hs; rw [heq] at this; exact this)

theorem K_discMid {c : Ctx} (hc : CtxOK c) {s : Sess} (hk : K c s) : K c (discMid s) := by
  unfold discMid
  simp only []
  generalize hs1 : (if (s.st.loggedOn || match s.st with | SState.logout => true | SState.logon => s.cfg.initiator | x => false) = true
      then s.emit Obs.onLogout else s) = s1
  have h1 : SExt s s1 := by rw [← hs1]; sx_peel
  have hro : s1.cfg.resetOnDisconnect = false := by rw [h1.cfg, hk.cfg]; exact hc.nr.2.2
  simp only [hro, Bool.false_eq_true, if_false]
  have h2 : SExt s (if s1.out = true then (s1.setOut false).emit Obs.closed else s1) := by sx_peel
  exact h2.K hk

abbrev GoodT (c : Ctx) := Good TN TS (PoolP c)

theorem K_setSt {c : Ctx} {s : Sess} (h : K c s) (st : SState) : K c (s.setSt st) := (xpeel_setSt st (SExt.refl s)).K h
theorem K_closeInbox {c : Ctx} {s : Sess} (h : K c s) : K c s.closeInbox := (xpeel_closeInbox (SExt.refl s)).K h
theorem K_setInbox {c : Ctx} {s : Sess} (h : K c s) (ib : List InMsg) : K c (s.setInbox ib) := (xpeel_setInbox ib (SExt.refl s)).K h

theorem K_mutual {c : Ctx} (hc : CtxOK c) : ∀ fuel : Nat,
    (∀ s next, K c s → PoolInv (PoolP c) s → StashOK (PoolP c) next → K c (setState fuel s next)) ∧
    (∀ s, K c s → PoolInv (PoolP c) s → K c (drainIn fuel s)) ∧
    (∀ s m, K c s → PoolInv (PoolP c) s → (∀ x, m = some x → PoolP c x) → K c (incoming fuel s m)) ∧
    (∀ s a, K c s → PoolInv (PoolP c) s → K c (checkSessionTime fuel s a true)) := by
  intro fuel
  induction fuel with
  | zero =>
    refine ⟨?_, ?_, ?_, ?_⟩
    · intro s next h _ _; unfold setState; exact K_setSt h next
    · intro s h _; unfold drainIn; exact h
    · intro s m h _ _; unfold incoming; exact h
    · intro s a h _; unfold checkSessionTime; exact h
  | succ n ih =>
    obtain ⟨ihS, ihD, ihI, ihC⟩ := ih
    obtain ⟨rS, rD, rI, rC⟩ := rel_mutual (N := TN) (S := TS) (P := PoolP c) c.cfg (poolHyp_triv _ _) (cfgHyp_triv _) n
    refine ⟨?_, ?_, ?_, ?_⟩
    · intro s next h hp hn
      unfold setState
      simp only []
      split
      · generalize hx : (if s.st.connected = true then (drainIn n (discMid (drainIn n s))).closeInbox else s) = x
        have hxK : K c x := by
          rw [← hx]; split
          · have g1 := rD s h.cfg hp
            have k1 := ihD s h hp
            have g2 := g1.relF (relF_discMid _ (cfgHyp_triv _))
            have k2 := K_discMid hc k1
            have k3 := ihD _ k2 g2.2
            exact K_closeInbox k3
          · exact h
        have hx2 : K c (if x.pendingStop = true then x.setStopped else x) := by
          have : SExt x (if x.pendingStop = true then x.setStopped else x) := by sx_peel
          exact this.K hxK
        exact K_setSt hx2 next
      · exact K_setSt h next
    · intro s h hp
      unfold drainIn
      split
      · exact h
      · split
        · exact h
        · rename_i m rest heq
          have hm : PoolP c m := hp.1 m (by rw [heq]; exact List.mem_cons_self)
          have hrest : ∀ x ∈ rest, PoolP c x := fun x hx => hp.1 x (by rw [heq]; exact List.mem_cons_of_mem _ hx)
          have g1 : GoodT c s (s.setInbox rest) := (Good.refl hp).setInbox rest hrest
          have k1 : K c (s.setInbox rest) := K_setInbox h rest
          have hmm : ∀ x, some m = some x → PoolP c x := by intro x hx; cases hx; exact hm
          have k2 := ihI _ (some m) k1 g1.2 hmm
          have g2 := rI _ (some m) k1.cfg g1.2 hmm
          exact ihD _ k2 g2.2
    · intro s m h hp hm
      unfold incoming
      simp only []
      have k1 := ihC s true h hp
      have g1 := rC s true true h.cfg hp (Or.inl rfl)
      generalize checkSessionTime n s true true = s1 at k1 g1
      split
      · exact k1
      · cases m with
        | none => exact (SExt.emit _ _ rfl (by intro _; simp)).K k1
        | some m =>
          simp only []
          have hmm : PoolP c m := hm m rfl
          have kf := K_fixMsgInCore hc k1 hmm g1.2.2
          have hf := hout_fixMsgInCore (N := TN) (S := TS) s1 m (poolHyp_triv _ _ m hmm) (poolHyp_triv _ _) (cfgHyp_triv _) g1.2.2
          generalize fixMsgInCore s1 m = r at kf hf
          obtain ⟨s2, nx⟩ := r
          obtain ⟨hfr, hfs⟩ := hf
          have g2 := g1.relF hfr
          have k3 := ihS s2 nx kf g2.2 hfs
          exact (SExt.emit _ _ rfl (by intro _; simp)).K k3
    · intro s a h hp
      unfold checkSessionTime
      simp only []
      split
      · have g1 : GoodT c s (if s.st.loggedOn = true then sendLogout s else s) := (Good.refl hp).relF (by rel_peel)
        have k1 : K c (if s.st.loggedOn = true then sendLogout s else s) := by
          have : SExt s (if s.st.loggedOn = true then sendLogout s else s) := by sx_peel
          exact this.K h
        exact ihS _ _ k1 g1.2 (stashOK_plain _ rfl)
      · generalize hx : (if (!s.st.sessionTime) = true then setState n s SState.latent else s) = x
        have hxK : K c x := by
          rw [← hx]; split
          · exact ihS _ _ h hp (stashOK_plain _ rfl)
          · exact h
        simp only [Bool.not_true, Bool.false_eq_true, if_false]
        exact hxK

theorem K_ist_eq {c : Ctx} {s : Sess} {e : TimerEv} {r : Sess × Bool} (hr : inSessionTimeout s e = r) (hk : K c s) : K c r.1 := by
  rw [← hr]; exact (sext_inSessionTimeout s e).K hk

theorem K_timeoutCore {c : Ctx} {s : Sess} (hk : K c s) (e : TimerEv) : K c (timeoutCore s e).1 := by
  unfold timeoutCore
  repeat' split
  all_goals (try dsimp only)
  all_goals first
    | exact hk
    | exact (sext_inSessionTimeout s e).K hk
    | exact K_ist_eq (by assumption) hk

theorem K_connect {c : Ctx} (hc : CtxOK c) {s : Sess} (hk : K c s) : K c (connect s).1 := by
  have h1 : s.cfg.resetOnDisconnect = false := by rw [hk.cfg]; exact hc.nr.2.2
  have h2 : s.cfg.resetOnLogon = false := by rw [hk.cfg]; exact hc.nr.1
  unfold connect
  split
  · exact hk
  · split
    · simp only [h1, Bool.false_eq_true, if_false]; exact hk
    · simp only []
      split
      · exact K_setSt ((xpeel_openConn (SExt.refl s)).K hk) _
      · generalize hx : (if s.openConn.cfg.refreshOnLogon = true then s.openConn.emit Obs.refresh else s.openConn) = x
        have hX : SExt s x := by rw [← hx]; sx_peel
        have hxc : x.cfg.resetOnLogon = false := by rw [hX.cfg]; exact h2
        simp only [hxc, Bool.false_eq_true, if_false]
        have hnr : NoResetCfg x.cfg := by rw [hX.cfg, hk.cfg]; exact hc.nr
        rw [shouldSendReset_false x hnr]
        exact K_setSt ((xpeel_sendLogonInReplyTo hX).K hk) _

/-- the session events the link model uses, with inbound messages written by the peer -/
def LinkEv (c : Ctx) : Ev → Prop
  | .connect | .timeout _ | .disconnected | .flush => True
  | .incomingMsg (some im) => PoolP c im
  | _ => False

theorem K_stepCore {c : Ctx} (hc : CtxOK c) (s : Sess) (e : Ev) (he : LinkEv c e) (hk : K c s) (hp : PoolInv (PoolP c) s) :
    K c (stepCore s e).1 := by
  obtain ⟨hS, hD, hI, hC⟩ := K_mutual hc (fuelOf s)
  obtain ⟨rS, rD, rI, rC⟩ := rel_mutual (N := TN) (S := TS) (P := PoolP c) c.cfg (poolHyp_triv _ _) (cfgHyp_triv _) (fuelOf s)
  unfold stepCore
  simp only []
  cases e with
  | connect => exact K_connect hc hk
  | incomingMsg m =>
    cases m with
    | none => exact he.elim
    | some im => exact hI s (some im) hk hp (by intro x hx; cases hx; exact he)
  | arrive m => exact he.elim
  | pop => exact he.elim
  | timeout ev =>
    dsimp only
    have k1 := hC s true hk hp
    have g1 := rC s true true hk.cfg hp (Or.inl rfl)
    have k2 := K_timeoutCore k1 ev
    have h2 := hout_timeoutCore (N := TN) (S := TS) (P := PoolP c) _ ev g1.2.2
    generalize timeoutCore (checkSessionTime (fuelOf s) s true true) ev = r at k2 h2
    obtain ⟨s2, nx⟩ := r
    have g2 := g1.relF h2.rel
    exact hS s2 nx k2 g2.2 h2.stash
  | disconnected =>
    dsimp only; split
    · exact hS _ _ hk hp (stashOK_plain _ rfl)
    · exact hk
  | stop => exact he.elim
  | send m => exact he.elim
  | flush =>
    dsimp only
    have k1 := hC s true hk hp
    split
    · exact (sext_sendQueued _).K k1
    · exact (xpeel_setToSend_nil (SExt.refl _)).K k1
  | sessionTime r sm => exact he.elim
  | resetTime now => exact he.elim

end Qfx.Link
