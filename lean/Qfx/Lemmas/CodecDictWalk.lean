/-
  Dictionary-guided parse (`parseGroup`, fixed code) of a group whose nested groups are flat, the member fields in ANY arrangement
  the parser accepts (`Walk2`): several entries, each with leaf members and any number of nested group instances, return from a
  nested group to the members of the enclosing one (the D6 pop), one nested group directly after another.
-/
import Qfx.Lemmas.CodecDictNested
namespace Qfx
open Qfx.Spec

variable {d : Dicts}

/-- `G` is a repeating group of message type `mt` with (non-empty) member list `C` — nothing said about nesting -/
def OuterGroup (d : Dicts) (mt : Bytes) (G : Tag) (C : List DNode) : Prop :=
  (∃ msgs fs nG, d.app = some msgs ∧ alFindB msgs mt = some fs ∧ dfind fs G = some nG ∧ nG.children = C) ∧ C.isEmpty = false

theorem NestedGroup.outer {mt : Bytes} {G N : Tag} {C CN : List DNode} (hg : NestedGroup d mt G N C CN) : OuterGroup d mt G C := by
  obtain ⟨msgs, fs, nG, nN, hap, hfs, hnG, hcG, _, _⟩ := hg.defd
  exact ⟨⟨msgs, fs, nG, hap, hfs, hnG, hcG⟩, hg.neC⟩

theorem outer_walks {mt : Bytes} {G : Tag} {C : List DNode} (hg : OuterGroup d mt G C) (fields : List TagValue)
    (hd : FieldMap) (t35 : TagValue) (hmt : MTInv fields hd t35) (hv : t35.value = mt) :
    isNumInGroupField d fields hd [G] = true ∧ getGroupFields d fields hd [G] = C := by
  obtain ⟨⟨msgs, fs, nG, hap, hfs, hnG, hcG⟩, hne'⟩ := hg
  have hmf : msgFields d fields hd = some fs := by simp only [msgFields, hap, hmt.getBytes, hv, hfs]
  have hne : nG.children.isEmpty = false := by rw [hcG]; exact hne'
  have hCne : C ≠ [] := by intro e; rw [e] at hne'; exact absurd hne' (by simp)
  exact ⟨by simp [isNumInGroupField, hmf, pathWalk, hnG, hne], by simp [getGroupFields, hmf, pathWalk, hnG, hne, hcG, hCne]⟩

theorem outer_member_leaf {mt : Bytes} {G : Tag} {C : List DNode} (hg : OuterGroup d mt G C) (t35 : TagValue)
    (hv : t35.value = mt) (t : Tag) (hleaf : pathWalk C [t] = none) (fields : List TagValue) (hd : FieldMap) (hmt : MTInv fields hd t35) :
    isNumInGroupField d fields hd ([G] ++ [t]) = false := by
  obtain ⟨⟨msgs, fs, nG, hap, hfs, hnG, hcG⟩, _⟩ := hg
  have hmf : msgFields d fields hd = some fs := by simp only [msgFields, hap, hmt.getBytes, hv, hfs]
  have : pathWalk fs [G, t] = none := by simp only [pathWalk, hnG, hcG]; exact hleaf
  simp [isNumInGroupField, hmf, this]

/-- AFTER THE FIX (D6): inside the nested group `[G, N]`, the count field of a nested group `N'` of `G` (a further instance of `N`
    in the next entry of `G`, or another nested group) pops to `G` and enters `[G, N']` -/
theorem grpSwitch_fixed_restart {mt : Bytes} {G N N' : Tag} {C CN CN' : List DNode} (hg' : NestedGroup d mt G N' C CN')
    (fields : List TagValue) (idx j : Nat) (c : PCore) (tv t35 : TagValue)
    (hmt : MTInv fields c.header t35) (hv : t35.value = mt) (htag : tv.tag = N')
    (hmN : isGroupMember tv.tag CN = false)
    (hh : isHeaderField d tv.tag = false) (ht : isTrailerField d tv.tag = false) (hng : NoGroupTag d tv.tag) :
    grpSwitch Fixes.cur d fields idx tv j [G, N] CN c = .ok ({ c with trailerBytes := c.rawBytes }, some (.grp j [G, N'] CN')) := by
  subst htag
  obtain ⟨_, hgf⟩ := nested_walks hg' fields c.header t35 hmt hv
  obtain ⟨hnum, hgfN⟩ := nested_start_walk hg' t35 hv fields c.header hmt
  have hmC : isGroupMember tv.tag C = true := by
    obtain ⟨_, _, _, nN, _, _, _, _, hnN, _⟩ := hg'.defd
    exact dfind_isMember C tv.tag nN hnN
  simp only [List.cons_append, List.nil_append] at hnum hgfN
  simp only [grpSwitch, hmN, hh, ht, isNum_false d _ _ tv.tag hng, Fixes.cur, if_true, Bool.false_eq_true, if_false,
    List.reverse_cons, List.reverse_nil, List.nil_append, List.cons_append, popToMember, hgf, hmC, hnum, hgfN]

/-- position in the walk through a depth-2 group: among the members of `G`, or inside the nested group `N` (members `CN`) -/
inductive GState where
  | outer
  | inner (N : Tag) (CN : List DNode)

def GState.mode (j : Nat) (G : Tag) (C : List DNode) : GState → Mode
  | .outer => .grp j [G] C
  | .inner N CN => .grp j [G, N] CN

def GState.OK (d : Dicts) (mt : Bytes) (G : Tag) (C : List DNode) : GState → Prop
  | .outer => OuterGroup d mt G C
  | .inner N CN => NestedGroup d mt G N C CN

/-- the member fields of a group `G` whose nested groups are flat, in ANY arrangement the parser accepts: leaf members of `G`,
    counts of nested groups, members of the current nested group, back to a leaf member of `G`, on to the next nested count -/
inductive Walk2 (d : Dicts) (mt : Bytes) (G : Tag) (C : List DNode) : GState → List TagValue → GState → Prop where
  | nil (s : GState) : Walk2 d mt G C s [] s
  | leaf {tv r s} : IsWire tv → isGroupMember tv.tag C = true → pathWalk C [tv.tag] = none →
      Walk2 d mt G C .outer r s → Walk2 d mt G C .outer (tv :: r) s
  | start {tv r s CN} : IsWire tv → NestedGroup d mt G tv.tag C CN →
      Walk2 d mt G C (.inner tv.tag CN) r s → Walk2 d mt G C .outer (tv :: r) s
  | inner {tv r s N CN} : IsWire tv → isGroupMember tv.tag CN = true →
      Walk2 d mt G C (.inner N CN) r s → Walk2 d mt G C (.inner N CN) (tv :: r) s
  | pop {tv r s N CN} : IsWire tv → isGroupMember tv.tag CN = false → isGroupMember tv.tag C = true → pathWalk C [tv.tag] = none →
      isHeaderField d tv.tag = false → isTrailerField d tv.tag = false → NoGroupTag d tv.tag →
      Walk2 d mt G C .outer r s → Walk2 d mt G C (.inner N CN) (tv :: r) s
  | restart {tv r s N CN CN'} : IsWire tv → isGroupMember tv.tag CN = false → NestedGroup d mt G tv.tag C CN' →
      isHeaderField d tv.tag = false → isTrailerField d tv.tag = false → NoGroupTag d tv.tag →
      Walk2 d mt G C (.inner tv.tag CN') r s → Walk2 d mt G C (.inner N CN) (tv :: r) s

theorem Walk2.wire {mt : Bytes} {G : Tag} {C : List DNode} {s s' : GState} {M : List TagValue} (h : Walk2 d mt G C s M s') :
    ∀ tv ∈ M, IsWire tv := by
  induction h with
  | nil s => intro tv h; cases h
  | leaf hw _ _ _ ih | start hw _ _ ih | inner hw _ _ ih | pop hw _ _ _ _ _ _ _ ih | restart hw _ _ _ _ _ _ ih =>
    intro x hx; rcases List.mem_cons.1 hx with e | e
    · subst e; exact hw
    · exact ih x e

/-- one generic step shape: all member steps leave the loop state as `{c with rawBytes, trailerBytes := raw'}` -/
theorem parseLoop_grp_step (fields : List TagValue) (idx j : Nat) (c : PCore) (tv : TagValue) (raw' : Bytes) (tags tags' : List Tag) (gf gf' : List DNode)
    (hidx : idx < fields.length) (hex : extractField c.rawBytes = (raw', .ok tv))
    (hsw : grpSwitch Fixes.cur d (fields.set idx tv) idx tv j tags gf { c with rawBytes := raw' } =
      .ok ({ ({ c with rawBytes := raw' } : PCore) with trailerBytes := raw' }, some (.grp j tags' gf'))) :
    parseLoop Fixes.cur d (.grp j tags gf) fields idx c =
      parseLoop Fixes.cur d (.grp j tags' gf') (fields.set idx tv) (idx + 1) { c with rawBytes := raw', trailerBytes := raw' } := by
  rw [parseLoop]
  simp only [hidx, dite_true, hex, hsw]

theorem walk2_loop {mt : Bytes} {G : Tag} {C : List DNode} (t35 : TagValue) (hv : t35.value = mt) (j : Nat)
    {s s' : GState} {M : List TagValue} (hw : Walk2 d mt G C s M s') :
    ∀ (fields : List TagValue) (idx : Nat) (c : PCore) (tail : Bytes),
    s.OK d mt G C → MTInv fields c.header t35 → 3 ≤ idx → c.rawBytes = wireOf M ++ tail → idx + M.length ≤ fields.length →
    parseLoop Fixes.cur d (s.mode j G C) fields idx c =
      parseLoop Fixes.cur d (s'.mode j G C) (setRange fields idx M) (idx + M.length) (memState c M tail) ∧ s'.OK d mt G C := by
  induction hw with
  | nil s => intro fields idx c tail hok _ _ _ _; exact ⟨by simp [setRange, memState], hok⟩
  | @leaf tv r s hwire hmem hleaf _ ih =>
    intro fields idx c tail hok hmt hi hraw hlen
    have hex : extractField c.rawBytes = (wireOf r ++ tail, .ok tv) := by
      rw [hraw]
      have : wireOf (tv :: r) ++ tail = tv.bytes ++ (wireOf r ++ tail) := by simp [wireOf, List.append_assoc]
      rw [this]; exact extractField_wire tv _ hwire
    have hlen' : idx < fields.length := by simp at hlen; omega
    have hmt' : MTInv (fields.set idx tv) c.header t35 := hmt.set idx tv hi
    have h1 := parseLoop_member_gen (d := d) fields idx j c tv _ [G] C hlen' hex hmem (outer_member_leaf hok t35 hv tv.tag hleaf _ _ hmt')
    obtain ⟨h2, hok'⟩ := ih (fields.set idx tv) (idx + 1) { c with rawBytes := wireOf r ++ tail, trailerBytes := wireOf r ++ tail } tail
      hok hmt' (by omega) rfl (by simp at hlen ⊢; omega)
    refine ⟨?_, hok'⟩
    show parseLoop Fixes.cur d (.grp j [G] C) fields idx c = _
    rw [h1]
    show parseLoop Fixes.cur d (GState.outer.mode j G C) _ _ _ = _
    rw [h2]
    have e : idx + 1 + r.length = idx + (tv :: r).length := by simp; omega
    simp only [setRange, e]
    congr 1
    cases r with
    | nil => simp [memState, wireOf]
    | cons y ys => simp [memState]
  | @start tv r s CN hwire hg _ ih =>
    intro fields idx c tail hok hmt hi hraw hlen
    have hex : extractField c.rawBytes = (wireOf r ++ tail, .ok tv) := by
      rw [hraw]
      have : wireOf (tv :: r) ++ tail = tv.bytes ++ (wireOf r ++ tail) := by simp [wireOf, List.append_assoc]
      rw [this]; exact extractField_wire tv _ hwire
    have hlen' : idx < fields.length := by simp at hlen; omega
    have hmt' : MTInv (fields.set idx tv) c.header t35 := hmt.set idx tv hi
    obtain ⟨hnumN, hgfN⟩ := nested_start_walk hg t35 hv _ c.header hmt'
    have hmemN : isGroupMember tv.tag C = true := by
      obtain ⟨_, _, _, nN, _, _, _, _, hnN, _⟩ := hg.defd
      exact dfind_isMember C tv.tag nN hnN
    have h1 := parseLoop_nested_start (d := d) fields idx j c tv _ [G] C CN hlen' hex hmemN hnumN hgfN
    obtain ⟨h2, hok'⟩ := ih (fields.set idx tv) (idx + 1) { c with rawBytes := wireOf r ++ tail, trailerBytes := wireOf r ++ tail } tail
      hg hmt' (by omega) rfl (by simp at hlen ⊢; omega)
    refine ⟨?_, hok'⟩
    show parseLoop Fixes.cur d (.grp j [G] C) fields idx c = _
    rw [h1]
    show parseLoop Fixes.cur d ((GState.inner tv.tag CN).mode j G C) _ _ _ = _
    rw [h2]
    have e : idx + 1 + r.length = idx + (tv :: r).length := by simp; omega
    simp only [setRange, e]
    congr 1
    cases r with
    | nil => simp [memState, wireOf]
    | cons y ys => simp [memState]
  | @inner tv r s N CN hwire hmem _ ih =>
    intro fields idx c tail hok hmt hi hraw hlen
    have hex : extractField c.rawBytes = (wireOf r ++ tail, .ok tv) := by
      rw [hraw]
      have : wireOf (tv :: r) ++ tail = tv.bytes ++ (wireOf r ++ tail) := by simp [wireOf, List.append_assoc]
      rw [this]; exact extractField_wire tv _ hwire
    have hlen' : idx < fields.length := by simp at hlen; omega
    have hmt' : MTInv (fields.set idx tv) c.header t35 := hmt.set idx tv hi
    have h1 := parseLoop_member_gen (d := d) fields idx j c tv _ [G, N] CN hlen' hex hmem (nested_inner_leaf hok t35 hv tv.tag _ _ hmt')
    obtain ⟨h2, hok'⟩ := ih (fields.set idx tv) (idx + 1) { c with rawBytes := wireOf r ++ tail, trailerBytes := wireOf r ++ tail } tail
      hok hmt' (by omega) rfl (by simp at hlen ⊢; omega)
    refine ⟨?_, hok'⟩
    show parseLoop Fixes.cur d (.grp j [G, N] CN) fields idx c = _
    rw [h1]
    show parseLoop Fixes.cur d ((GState.inner N CN).mode j G C) _ _ _ = _
    rw [h2]
    have e : idx + 1 + r.length = idx + (tv :: r).length := by simp; omega
    simp only [setRange, e]
    congr 1
    cases r with
    | nil => simp [memState, wireOf]
    | cons y ys => simp [memState]
  | @pop tv r s N CN hwire hmN hmC hleaf hh ht hng _ ih =>
    intro fields idx c tail hok hmt hi hraw hlen
    have hex : extractField c.rawBytes = (wireOf r ++ tail, .ok tv) := by
      rw [hraw]
      have : wireOf (tv :: r) ++ tail = tv.bytes ++ (wireOf r ++ tail) := by simp [wireOf, List.append_assoc]
      rw [this]; exact extractField_wire tv _ hwire
    have hlen' : idx < fields.length := by simp at hlen; omega
    have hmt' : MTInv (fields.set idx tv) c.header t35 := hmt.set idx tv hi
    have hsw := grpSwitch_fixed_parent_member hok (fields.set idx tv) idx j { c with rawBytes := wireOf r ++ tail } tv t35 hmt' hv hmN hmC
      (outer_member_leaf hok.outer t35 hv tv.tag hleaf _ _ hmt') hh ht hng
    have h1 := parseLoop_grp_step (d := d) fields idx j c tv _ [G, N] [G] CN C hlen' hex hsw
    obtain ⟨h2, hok'⟩ := ih (fields.set idx tv) (idx + 1) { c with rawBytes := wireOf r ++ tail, trailerBytes := wireOf r ++ tail } tail
      hok.outer hmt' (by omega) rfl (by simp at hlen ⊢; omega)
    refine ⟨?_, hok'⟩
    show parseLoop Fixes.cur d (.grp j [G, N] CN) fields idx c = _
    rw [h1]
    show parseLoop Fixes.cur d (GState.outer.mode j G C) _ _ _ = _
    rw [h2]
    have e : idx + 1 + r.length = idx + (tv :: r).length := by simp; omega
    simp only [setRange, e]
    congr 1
    cases r with
    | nil => simp [memState, wireOf]
    | cons y ys => simp [memState]
  | @restart tv r s N CN CN' hwire hmN hg' hh ht hng _ ih =>
    intro fields idx c tail hok hmt hi hraw hlen
    have hex : extractField c.rawBytes = (wireOf r ++ tail, .ok tv) := by
      rw [hraw]
      have : wireOf (tv :: r) ++ tail = tv.bytes ++ (wireOf r ++ tail) := by simp [wireOf, List.append_assoc]
      rw [this]; exact extractField_wire tv _ hwire
    have hlen' : idx < fields.length := by simp at hlen; omega
    have hmt' : MTInv (fields.set idx tv) c.header t35 := hmt.set idx tv hi
    have hsw := grpSwitch_fixed_restart (N := N) (CN := CN) hg' (fields.set idx tv) idx j { c with rawBytes := wireOf r ++ tail } tv t35 hmt' hv rfl hmN hh ht hng
    have h1 := parseLoop_grp_step (d := d) fields idx j c tv _ [G, N] [G, tv.tag] CN CN' hlen' hex hsw
    obtain ⟨h2, hok'⟩ := ih (fields.set idx tv) (idx + 1) { c with rawBytes := wireOf r ++ tail, trailerBytes := wireOf r ++ tail } tail
      hg' hmt' (by omega) rfl (by simp at hlen ⊢; omega)
    refine ⟨?_, hok'⟩
    show parseLoop Fixes.cur d (.grp j [G, N] CN) fields idx c = _
    rw [h1]
    show parseLoop Fixes.cur d ((GState.inner tv.tag CN').mode j G C) _ _ _ = _
    rw [h2]
    have e : idx + 1 + r.length = idx + (tv :: r).length := by simp; omega
    simp only [setRange, e]
    congr 1
    cases r with
    | nil => simp [memState, wireOf]
    | cons y ys => simp [memState]


/-- CheckSum closes the group, whatever the tag stack -/
theorem parseLoop_exit_10_gen (fields : List TagValue) (idx j : Nat) (c : PCore) (tv g0 : TagValue) (raw' : Bytes) (tags : List Tag) (gf : List DNode)
    (hidx : idx < fields.length) (hj : (fields.set idx tv)[j]? = some g0) (hex : extractField c.rawBytes = (raw', .ok tv))
    (hmem : isGroupMember tv.tag gf = false) (hh : isHeaderField d tv.tag = false) (h10 : tv.tag = 10) :
    parseLoop Fixes.cur d (.grp j tags gf) fields idx c =
      finishParse (fields.set idx tv)
        { c with rawBytes := raw', body := c.body.add g0.tag (.view j (idx - j)),
                 trailer := c.trailer.add tv.tag (.view idx 1), foundTrailer := true } := by
  rw [parseLoop]
  simp only [hidx, dite_true, hex]
  have hidxR : idxR (fields.set idx tv) j = .ok g0 := by simp [idxR, hj]
  have ht : isTrailerField d tv.tag = true := by rw [h10]; simp [isTrailerField, Tag.isTrailer, staticTrailerTags]
  simp only [grpSwitch, hmem, hh, ht, Fixes.cur, if_true, Bool.false_eq_true, if_false, addDm, hidxR, tailStep_10 _ _ _ h10]

/-- the member list the parser is looking at in a state -/
def GState.members (C : List DNode) : GState → List DNode
  | .outer => C
  | .inner _ CN => CN

/-- from the start of the main loop to the end of the group's member fields (any depth-2 arrangement) -/
theorem parse_to_walk2 {mt : Bytes} {G : Tag} {C : List DNode} (hg : OuterGroup d mt G C)
    (t8 t9 t35 g0 : TagValue) (preA M : List TagValue) (s' : GState) (hW : Walk2 d mt G C .outer M s') (Z : Bytes) (f0 : List TagValue)
    (hv : t35.value = mt) (h35 : t35.tag = 35) (h9 : t9.tag = 9) (h8 : t8.tag = 8)
    (hpre : PlainFields d preA) (hg0 : IsWire g0) (hG : g0.tag = G)
    (hGh : isHeaderField d G = false) (hGt : isTrailerField d G = false)
    (hf2 : f0[2]? = some t35) (hlen : 3 + preA.length + 1 + M.length ≤ f0.length) :
    ∃ cM : PCore,
      parseLoop Fixes.cur d .main f0 3 (ndInit t8 t9 t35 (wireOf preA ++ (g0.bytes ++ (wireOf M ++ Z)))) =
        parseLoop Fixes.cur d (s'.mode (3 + preA.length) G C) (setRange f0 3 (preA ++ g0 :: M)) (3 + preA.length + 1 + M.length) cM ∧
      cM.header = (runNDD d 3 preA (g0.bytes ++ (wireOf M ++ Z)) (ndInit t8 t9 t35 (wireOf preA ++ (g0.bytes ++ (wireOf M ++ Z))))).header ∧
      cM.body = (runNDD d 3 preA (g0.bytes ++ (wireOf M ++ Z)) (ndInit t8 t9 t35 (wireOf preA ++ (g0.bytes ++ (wireOf M ++ Z))))).body ∧
      cM.trailer = (runNDD d 3 preA (g0.bytes ++ (wireOf M ++ Z)) (ndInit t8 t9 t35 (wireOf preA ++ (g0.bytes ++ (wireOf M ++ Z))))).trailer ∧
      cM.xmlDataLen = 0 ∧ cM.xmlDataMsg = false ∧ cM.rawBytes = Z ∧ s'.OK d mt G C := by
  generalize hc0 : ndInit t8 t9 t35 (wireOf preA ++ (g0.bytes ++ (wireOf M ++ Z))) = c0
  have hraw0 : c0.rawBytes = wireOf preA ++ (g0.bytes ++ (wireOf M ++ Z)) := by rw [← hc0]; rfl
  have hx0 : c0.xmlDataLen = 0 := by rw [← hc0]; rfl
  have hxm0 : c0.xmlDataMsg = false := by rw [← hc0]; rfl
  have h35find0 : alFind c0.header.lookup 35 = some (.view 2 1) := by
    rw [← hc0]; simp [ndInit, FieldMap.add, FieldMap.empty, alInsert, alFind, h8, h9, h35]
  have hP1 := parseLoop_prefixD (d := d) Fixes.cur preA f0 3 c0 (g0.bytes ++ (wireOf M ++ Z))
    (fun tv h => ⟨(hpre tv h).1, (hpre tv h).2.1, (hpre tv h).2.2.1⟩) (fun tv h => (hpre tv h).2.2.2.2.2) hx0 hraw0 (by omega)
  generalize hc1 : runNDD d 3 preA (g0.bytes ++ (wireOf M ++ Z)) c0 = c1 at hP1 ⊢
  have hraw1 : c1.rawBytes = g0.bytes ++ (wireOf M ++ Z) := by rw [← hc1]; exact runNDD_raw' _ _ _ _ hraw0
  have hx1 : c1.xmlDataLen = 0 := by rw [← hc1, runNDD_xmlLen]; exact hx0
  have hxm1 : c1.xmlDataMsg = false := by rw [← hc1, runNDD_xml]; exact hxm0
  have h35find1 : alFind c1.header.lookup 35 = some (.view 2 1) := by
    rw [← hc1, runNDD_header_find 35 preA 3 _ c0 (fun tv h => (hpre tv h).2.2.2.2.1)]; exact h35find0
  have hidx1 : 3 + preA.length < (setRange f0 3 preA).length := by rw [setRange_length]; omega
  have hex1 : extractField c1.rawBytes = (wireOf M ++ Z, .ok g0) := by rw [hraw1]; exact extractField_wire g0 _ hg0
  have hmt2 : MTInv ((setRange f0 3 preA).set (3 + preA.length) g0) c1.header t35 :=
    (MTInv.setRange ⟨h35find1, hf2⟩ 3 preA (by omega)).set _ _ (by omega)
  obtain ⟨hnumG, hgfG⟩ := outer_walks hg _ c1.header t35 hmt2 hv
  have hP2 := parseLoop_enter_group (d := d) (setRange f0 3 preA) (3 + preA.length) c1 g0 (wireOf M ++ Z) C hidx1 hx1 hex1
    (by rw [hG]; exact hGh) (by rw [hG]; exact hGt) (by rw [hG]; exact hnumG) (by rw [hG]; exact hgfG)
  rw [hG] at hP2
  obtain ⟨hP3, hok⟩ := walk2_loop (d := d) t35 hv (3 + preA.length) hW ((setRange f0 3 preA).set (3 + preA.length) g0) (3 + preA.length + 1)
    { c1 with rawBytes := wireOf M ++ Z, foundBody := true, trailerBytes := wireOf M ++ Z } Z hg hmt2 (by omega) rfl
    (by simp [setRange_length]; omega)
  refine ⟨memState { c1 with rawBytes := wireOf M ++ Z, foundBody := true, trailerBytes := wireOf M ++ Z } M Z, ?_, ?_⟩
  · rw [hP1, hP2]
    show parseLoop Fixes.cur d (GState.outer.mode (3 + preA.length) G C) _ _ _ = _
    rw [hP3]
    have e1 : (setRange f0 3 preA).set (3 + preA.length) g0 = setRange f0 3 (preA ++ [g0]) := setRange_snoc _ _ _ _
    have e2 : setRange (setRange f0 3 (preA ++ [g0])) (3 + preA.length + 1) M = setRange f0 3 (preA ++ g0 :: M) := by
      have := setRange_append f0 3 (preA ++ [g0]) M
      simp only [List.length_append, List.length_singleton, List.append_assoc, List.singleton_append] at this
      rw [this]; congr 1
    rw [e1, e2]
  · obtain ⟨k1, k2, k3, k4, k5, _⟩ := memState_keeps { c1 with rawBytes := wireOf M ++ Z, foundBody := true, trailerBytes := wireOf M ++ Z } M Z
    exact ⟨k1, k2, k3, by rw [k4]; exact hx1, by rw [k5]; exact hxm1, memState_raw _ _ _ rfl, hok⟩

/-- PARSE WITH THE DICTIONARY, GROUP WITH NESTED GROUPS IN ANY ARRANGEMENT, FOLLOWED BY BODY FIELDS:
    `8, 9, 35, plain…, G=<n>, <Walk2 members>, z0, plain…, 10` -/
theorem parse_dict_walk2_mid {mt : Bytes} {G : Tag} {C : List DNode} (hg : OuterGroup d mt G C)
    (t8 t9 t35 g0 z0 t10 : TagValue) (preA M postB : List TagValue) (s' : GState) (hW : Walk2 d mt G C .outer M s')
    (hw8 : IsWire t8) (hw9 : IsWire t9) (hw35 : IsWire t35) (hw10 : IsWire t10)
    (h8 : t8.tag = 8) (h9 : t9.tag = 9) (h35 : t35.tag = 35) (h10 : t10.tag = 10) (hv : t35.value = mt)
    (hpre : PlainFields d preA) (hg0 : IsWire g0) (hG : g0.tag = G)
    (hGh : isHeaderField d G = false) (hGt : isTrailerField d G = false)
    (hz : PlainFields d (z0 :: postB)) (hzmC : isGroupMember z0.tag C = false) (hzmS : isGroupMember z0.tag (s'.members C) = false)
    (hzh : isHeaderField d z0.tag = false) (hzt : isTrailerField d z0.tag = false)
    (hzG : ∀ tv ∈ z0 :: postB, tv.tag ≠ G)
    (hng10 : NoGroupTag d 10) (hh10 : isHeaderField d 10 = false)
    (hbl : atoi t9.value = .ok ((fieldsLength (t8 :: t9 :: t35 :: ((preA ++ g0 :: M) ++ (z0 :: postB ++ [t10]))) : Nat) : Int)) :
    ∃ m, parseMessage Fixes.cur d (wireOf (t8 :: t9 :: t35 :: ((preA ++ g0 :: M) ++ (z0 :: postB ++ [t10])))) = .ok m ∧
      m.fields = t8 :: t9 :: t35 :: ((preA ++ g0 :: M) ++ (z0 :: postB ++ [t10])) ∧
      alFind m.body.lookup G = some (.view (3 + preA.length) (1 + M.length)) ∧
      ((∀ tv ∈ postB, tv.tag ≠ z0.tag) → alFind m.body.lookup z0.tag = some (.view (3 + preA.length + 1 + M.length) 1)) := by
  have hz0 := hz z0 (by simp)
  have hrestW : ∀ tv ∈ (preA ++ g0 :: M) ++ (z0 :: postB ++ [t10]), IsWire tv := by
    intro tv htv
    simp only [List.mem_append, List.mem_cons, List.mem_singleton] at htv
    rcases htv with (h | e | h) | (e | h) | e
    · exact (hpre tv h).1
    · subst e; exact hg0
    · exact hW.wire tv h
    · subst e; exact hz0.1
    · exact (hz tv (by simp [h])).1
    · simp at e; subst e; exact hw10
  rw [parseMessage_lead Fixes.cur t8 t9 t35 _ hw8 hw9 hw35 hrestW h8 h9 h35]
  have hwire : wireOf ((preA ++ g0 :: M) ++ (z0 :: postB ++ [t10])) =
      wireOf preA ++ (g0.bytes ++ (wireOf M ++ (z0.bytes ++ (wireOf postB ++ (t10.bytes ++ []))))) := by
    simp [wireOf, List.append_assoc]
  rw [hwire]
  have hlenR : ((preA ++ g0 :: M) ++ (z0 :: postB ++ [t10])).length = preA.length + 1 + M.length + 1 + postB.length + 1 := by
    simp; omega
  obtain ⟨cM, hP, hch, hcb, hct, hcx, hcxm, hcraw, hok⟩ := parse_to_walk2 hg t8 t9 t35 g0 preA M s' hW
    (z0.bytes ++ (wireOf postB ++ (t10.bytes ++ [])))
    ([t8, t9, t35] ++ List.replicate ((preA ++ g0 :: M) ++ (z0 :: postB ++ [t10])).length TagValue.zero) hv h35 h9 h8 hpre hg0 hG hGh hGt
    (by simp) (by simp [hlenR]; omega)
  rw [hP]
  generalize hF3 : setRange ([t8, t9, t35] ++ List.replicate ((preA ++ g0 :: M) ++ (z0 :: postB ++ [t10])).length TagValue.zero) 3 (preA ++ g0 :: M) = F3
  have hF3len : F3.length = 3 + (preA.length + 1 + M.length + 1 + postB.length + 1) := by
    rw [← hF3, setRange_length]; simp [hlenR]; omega
  have hk : 3 + preA.length + 1 + M.length < F3.length := by omega
  have hjF3 : F3[3 + preA.length]? = some g0 := by
    rw [← hF3]; exact setRange_getElem_self _ 3 preA g0 M (by simp [hlenR]; omega)
  have hj : (F3.set (3 + preA.length + 1 + M.length) z0)[3 + preA.length]? = some g0 := by
    rw [List.getElem?_set_ne (by omega)]; exact hjF3
  have hex : extractField cM.rawBytes = (wireOf postB ++ (t10.bytes ++ []), .ok z0) := by
    rw [hcraw]; exact extractField_wire z0 _ hz0.1
  have hmtM : MTInv (F3.set (3 + preA.length + 1 + M.length) z0) cM.header t35 := by
    refine MTInv.set ?_ _ _ (by omega)
    rw [← hF3]
    refine MTInv.setRange ⟨?_, by simp⟩ 3 _ (by omega)
    rw [hch, runNDD_header_find 35 preA 3 _ _ (fun tv h => (hpre tv h).2.2.2.2.1)]
    simp [ndInit, FieldMap.add, FieldMap.empty, alInsert, alFind, h8, h9, h35]
  have hexit : parseLoop Fixes.cur d (s'.mode (3 + preA.length) G C) F3 (3 + preA.length + 1 + M.length) cM =
      parseLoop Fixes.cur d .main (F3.set (3 + preA.length + 1 + M.length) z0) (3 + preA.length + 1 + M.length + 1)
        (ndTail { cM with rawBytes := wireOf postB ++ (t10.bytes ++ []), trailerBytes := wireOf postB ++ (t10.bytes ++ []),
                          body := (cM.body.add g0.tag (.view (3 + preA.length) (3 + preA.length + 1 + M.length - (3 + preA.length)))).add z0.tag (.view (3 + preA.length + 1 + M.length) 1) }) := by
    cases s' with
    | outer => exact parseLoop_exit_body F3 _ (3 + preA.length) cM z0 g0 _ G C hk hj hex hzmC hzh hzt hz0.2.2.2.2.2 hz0.2.1 hz0.2.2.1
    | inner N CN =>
      exact parseLoop_exit_nested_body hok F3 _ (3 + preA.length) cM z0 g0 t35 _ hk hmtM hv hj hex hzmS hzmC hzh hzt hz0.2.2.2.2.2 hz0.2.1 hz0.2.2.1
  rw [hexit]
  have hc4def : ∃ c4 : PCore, ndTail { cM with rawBytes := wireOf postB ++ (t10.bytes ++ []), trailerBytes := wireOf postB ++ (t10.bytes ++ []), body := (cM.body.add g0.tag (.view (3 + preA.length) (3 + preA.length + 1 + M.length - (3 + preA.length)))).add z0.tag (.view (3 + preA.length + 1 + M.length) 1) } = c4 := ⟨_, rfl⟩
  obtain ⟨c4, hc4⟩ := hc4def
  rw [hc4]
  have hc4h : c4.header = cM.header := by rw [← hc4, (ndTail_raw _).2.2.2.1]
  have hc4b : c4.body = (cM.body.add g0.tag (.view (3 + preA.length) (3 + preA.length + 1 + M.length - (3 + preA.length)))).add z0.tag
        (.view (3 + preA.length + 1 + M.length) 1) := by rw [← hc4, (ndTail_raw _).2.2.2.2.1]
  have hc4x : c4.xmlDataLen = 0 := by rw [← hc4, (ndTail_raw _).2.1]; exact hcx
  have hc4xm : c4.xmlDataMsg = false := by rw [← hc4, (ndTail_raw _).2.2.1]; exact hcxm
  have hc4raw : c4.rawBytes = wireOf postB ++ (t10.bytes ++ []) := by rw [← hc4, (ndTail_raw _).1]
  rw [parseLoop_ndD Fixes.cur postB _ (3 + preA.length + 1 + M.length + 1) c4 t10 []
    (fun tv h => ⟨(hz tv (by simp [h])).1, (hz tv (by simp [h])).2.1, (hz tv (by simp [h])).2.2.1⟩)
    (fun tv h => (hz tv (by simp [h])).2.2.2.2.2) (by rw [h10]; exact hng10) hw10 h10 hc4x hc4raw
    (by simp; omega)]
  have hFeq : setRange (F3.set (3 + preA.length + 1 + M.length) z0) (3 + preA.length + 1 + M.length + 1) (postB ++ [t10]) =
      t8 :: t9 :: t35 :: ((preA ++ g0 :: M) ++ (z0 :: postB ++ [t10])) := by
    rw [← hF3]
    have e1 : 3 + preA.length + 1 + M.length = 3 + (preA ++ g0 :: M).length := by simp; omega
    rw [e1, setRange_snoc]
    have e2 : 3 + (preA ++ g0 :: M).length + 1 = 3 + ((preA ++ g0 :: M) ++ [z0]).length := by simp; omega
    rw [e2, ← setRange_append]
    have e3 : ((preA ++ g0 :: M) ++ [z0]) ++ (postB ++ [t10]) = (preA ++ g0 :: M) ++ (z0 :: postB ++ [t10]) := by simp
    rw [e3]
    have := setRange_replicate TagValue.zero ((preA ++ g0 :: M) ++ (z0 :: postB ++ [t10])) [t8, t9, t35]
    simpa using this
  rw [hFeq]
  generalize hC5 : ndSwitchD d (3 + preA.length + 1 + M.length + 1 + postB.length) t10
      { (runNDD d (3 + preA.length + 1 + M.length + 1) postB (t10.bytes ++ []) c4) with rawBytes := [] } = C5
  have hC5hb := ndSwitchD_10 (d := d) (3 + preA.length + 1 + M.length + 1 + postB.length) t10
      { (runNDD d (3 + preA.length + 1 + M.length + 1) postB (t10.bytes ++ []) c4) with rawBytes := [] } h10 hh10
  rw [hC5] at hC5hb
  have e9 : alFind C5.header.lookup 9 = some (.view 1 1) := by
    rw [hC5hb.1]
    show alFind (runNDD d _ postB _ c4).header.lookup 9 = _
    rw [runNDD_header_find 9 postB _ _ c4 (fun tv h => (hz tv (by simp [h])).2.2.2.1), hc4h, hch,
      runNDD_header_find 9 preA 3 _ _ (fun tv h => (hpre tv h).2.2.2.1)]
    simp [ndInit, FieldMap.add, FieldMap.empty, alInsert, alFind, h8, h9, h35]
  have hxm5 : C5.xmlDataMsg = false := by
    rw [← hC5, (ndSwitchD_raw _ _ _).2.2]
    show (runNDD d _ postB _ c4).xmlDataMsg = false
    rw [runNDD_xml]; exact hc4xm
  rw [finish_ok _ C5 t9 e9 (by simp) hbl hxm5]
  refine ⟨_, rfl, rfl, ?_, ?_⟩
  · show alFind (finishAdjust C5).body.lookup G = _
    rw [(finishAdjust_keeps _).2.2.1, hC5hb.2]
    show alFind ((runNDD d _ postB _ c4).sec .b).lookup G = _
    rw [runNDD_find_absent G .b postB _ _ c4 (fun tv h => hzG tv (by simp [h]))]
    show alFind c4.body.lookup G = _
    rw [hc4b]
    simp only [FieldMap.add]
    rw [alFind_insert_other _ _ _ _ (fun e => hzG z0 (by simp) e.symm), hG, alFind_insert_self]
    congr 2; omega
  · intro hpz
    show alFind (finishAdjust C5).body.lookup z0.tag = _
    rw [(finishAdjust_keeps _).2.2.1, hC5hb.2]
    show alFind ((runNDD d _ postB _ c4).sec .b).lookup z0.tag = _
    rw [runNDD_find_absent z0.tag .b postB _ _ c4 hpz]
    show alFind c4.body.lookup z0.tag = _
    rw [hc4b]
    simp only [FieldMap.add]
    exact alFind_insert_self _ _ _

/-- the same with the group LAST in the body: CheckSum closes it, at whatever nesting level the walk stands -/
theorem parse_dict_walk2_last {mt : Bytes} {G : Tag} {C : List DNode} (hg : OuterGroup d mt G C)
    (t8 t9 t35 g0 t10 : TagValue) (preA M : List TagValue) (s' : GState) (hW : Walk2 d mt G C .outer M s')
    (hw8 : IsWire t8) (hw9 : IsWire t9) (hw35 : IsWire t35) (hw10 : IsWire t10)
    (h8 : t8.tag = 8) (h9 : t9.tag = 9) (h35 : t35.tag = 35) (h10 : t10.tag = 10) (hv : t35.value = mt)
    (hpre : PlainFields d preA) (hg0 : IsWire g0) (hG : g0.tag = G)
    (hGh : isHeaderField d G = false) (hGt : isTrailerField d G = false)
    (h10m : isGroupMember 10 (s'.members C) = false) (hh10 : isHeaderField d 10 = false)
    (hbl : atoi t9.value = .ok ((fieldsLength (t8 :: t9 :: t35 :: ((preA ++ g0 :: M) ++ [t10])) : Nat) : Int)) :
    ∃ m, parseMessage Fixes.cur d (wireOf (t8 :: t9 :: t35 :: ((preA ++ g0 :: M) ++ [t10]))) = .ok m ∧
      m.fields = t8 :: t9 :: t35 :: ((preA ++ g0 :: M) ++ [t10]) ∧
      alFind m.body.lookup G = some (.view (3 + preA.length) (1 + M.length)) := by
  have hrestW : ∀ tv ∈ (preA ++ g0 :: M) ++ [t10], IsWire tv := by
    intro tv htv
    simp only [List.mem_append, List.mem_cons, List.mem_singleton] at htv
    rcases htv with (h | e | h) | e
    · exact (hpre tv h).1
    · subst e; exact hg0
    · exact hW.wire tv h
    · simp at e; subst e; exact hw10
  rw [parseMessage_lead Fixes.cur t8 t9 t35 _ hw8 hw9 hw35 hrestW h8 h9 h35]
  have hwire : wireOf ((preA ++ g0 :: M) ++ [t10]) = wireOf preA ++ (g0.bytes ++ (wireOf M ++ (t10.bytes ++ []))) := by
    simp [wireOf, List.append_assoc]
  rw [hwire]
  have hlenR : ((preA ++ g0 :: M) ++ [t10]).length = preA.length + 1 + M.length + 1 := by simp; omega
  obtain ⟨cM, hP, hch, hcb, hct, hcx, hcxm, hcraw, hok⟩ := parse_to_walk2 hg t8 t9 t35 g0 preA M s' hW (t10.bytes ++ [])
    ([t8, t9, t35] ++ List.replicate ((preA ++ g0 :: M) ++ [t10]).length TagValue.zero) hv h35 h9 h8 hpre hg0 hG hGh hGt
    (by simp) (by simp [hlenR]; omega)
  rw [hP]
  generalize hF3 : setRange ([t8, t9, t35] ++ List.replicate ((preA ++ g0 :: M) ++ [t10]).length TagValue.zero) 3 (preA ++ g0 :: M) = F3
  have hF3len : F3.length = 3 + (preA.length + 1 + M.length + 1) := by rw [← hF3, setRange_length]; simp [hlenR]; omega
  have hk : 3 + preA.length + 1 + M.length < F3.length := by omega
  have hjF3 : F3[3 + preA.length]? = some g0 := by
    rw [← hF3]; exact setRange_getElem_self _ 3 preA g0 M (by simp [hlenR]; omega)
  have hj : (F3.set (3 + preA.length + 1 + M.length) t10)[3 + preA.length]? = some g0 := by
    rw [List.getElem?_set_ne (by omega)]; exact hjF3
  have hex : extractField cM.rawBytes = ([], .ok t10) := by rw [hcraw]; exact extractField_wire t10 [] hw10
  have hexit : parseLoop Fixes.cur d (s'.mode (3 + preA.length) G C) F3 (3 + preA.length + 1 + M.length) cM =
      finishParse (F3.set (3 + preA.length + 1 + M.length) t10)
        { cM with rawBytes := [], body := cM.body.add g0.tag (.view (3 + preA.length) (3 + preA.length + 1 + M.length - (3 + preA.length))),
                  trailer := cM.trailer.add t10.tag (.view (3 + preA.length + 1 + M.length) 1), foundTrailer := true } := by
    cases s' with
    | outer => exact parseLoop_exit_10_gen F3 _ (3 + preA.length) cM t10 g0 [] [G] C hk hj hex (by rw [h10]; exact h10m) (by rw [h10]; exact hh10) h10
    | inner N CN => exact parseLoop_exit_10_gen F3 _ (3 + preA.length) cM t10 g0 [] [G, N] CN hk hj hex (by rw [h10]; exact h10m) (by rw [h10]; exact hh10) h10
  rw [hexit]
  have e9 : alFind cM.header.lookup 9 = some (.view 1 1) := by
    rw [hch, runNDD_header_find 9 preA 3 _ _ (fun tv h => (hpre tv h).2.2.2.1)]
    simp [ndInit, FieldMap.add, FieldMap.empty, alInsert, alFind, h8, h9, h35]
  have hFeq : F3.set (3 + preA.length + 1 + M.length) t10 = t8 :: t9 :: t35 :: ((preA ++ g0 :: M) ++ [t10]) := by
    rw [← hF3]
    have e1 : 3 + preA.length + 1 + M.length = 3 + (preA ++ g0 :: M).length := by simp; omega
    rw [e1, setRange_snoc]
    have := setRange_replicate TagValue.zero ((preA ++ g0 :: M) ++ [t10]) [t8, t9, t35]
    simpa using this
  rw [hFeq]
  have hfin := finish_ok (t8 :: t9 :: t35 :: ((preA ++ g0 :: M) ++ [t10]))
    { cM with rawBytes := [], body := cM.body.add g0.tag (.view (3 + preA.length) (3 + preA.length + 1 + M.length - (3 + preA.length))),
              trailer := cM.trailer.add t10.tag (.view (3 + preA.length + 1 + M.length) 1), foundTrailer := true }
    t9 e9 (by simp) hbl hcxm
  rw [hfin]
  refine ⟨_, rfl, rfl, ?_⟩
  show alFind (finishAdjust _).body.lookup G = _
  rw [(finishAdjust_keeps _).2.2.1]
  simp only [FieldMap.add, hG]
  rw [alFind_insert_self]
  congr 2; omega

end Qfx
