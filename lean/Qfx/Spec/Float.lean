/-
  Qfx.Spec.Float — what a float text MEANS and what "correctly read / correctly written" means, stated on exact
  rationals and independent of the model's rounding function (`F64.roundOrd`) and of its writer:

  * the text's rational: integer part, fractional part (`floatNum b / floatDen b`, sign `floatNeg b`);
  * `Nearest num den n`: the double with ordinal `n` is at least as close to `num/den` as both neighbouring doubles,
    and on a tie its mantissa is even — cross-multiplied `Nat` inequalities against `F64.scaled` (the definition
    of a bit pattern's value);
  * `Overflows`: at or beyond the midpoint between the largest finite double and 2^1024;
  * the monitor clauses for `float read` / `float write`.
-/
import Qfx.Spec.Values
import Qfx.Model.Float
namespace Qfx.Spec
open Qfx Qfx.F64

/-! ## the rational denoted by a text of the float grammar -/

def floatBodyOf (b : Bytes) : Bytes :=
  match b with
  | 45 :: r => r
  | r => r

def floatNeg (b : Bytes) : Bool :=
  match b with
  | 45 :: _ => true
  | _ => false

/-- digits after the decimal point -/
def floatFrac (b : Bytes) : Bytes := ((floatBodyOf b).dropWhile isDigit).drop 1

/-- numerator: integer part shifted left by the number of decimals, plus the decimals -/
def floatNum (b : Bytes) : Nat :=
  digitsVal ((floatBodyOf b).takeWhile isDigit) * 10 ^ (floatFrac b).length + digitsVal (floatFrac b)

def floatDen (b : Bytes) : Nat := 10 ^ (floatFrac b).length

/-! ## nearest double, ties to even -/

def dist (a b : Nat) : Nat := (a - b) + (b - a)

/-- |num/den − value(n)| up to the common positive factor `den · 2^1074` -/
def distTo (num den n : Nat) : Nat := dist (2 ^ 1074 * num) (scaled n * den)

/-- no neighbour is closer; a neighbour equally close ⇒ `n` has an even mantissa (`n` even).
    Exponent range unbounded above (see `F64.scaled`). -/
def Nearest (num den n : Nat) : Prop :=
  (distTo num den n ≤ distTo num den (n + 1) ∧ (distTo num den n = distTo num den (n + 1) → n % 2 = 0)) ∧
  (n = 0 ∨ (distTo num den n ≤ distTo num den (n - 1) ∧ (distTo num den n = distTo num den (n - 1) → n % 2 = 0)))

instance (num den n : Nat) : Decidable (Nearest num den n) := by unfold Nearest; infer_instance

/-- … and it is a finite double -/
def IsNearest (num den n : Nat) : Prop := n < infOrd ∧ Nearest num den n

instance (num den n : Nat) : Decidable (IsNearest num den n) := by unfold IsNearest; infer_instance

/-- a 64-bit pattern is the correct reading of `± num/den` (the sign of the text is kept, also on zero) -/
def IsNearestBits (neg : Bool) (num den bits : Nat) : Prop :=
  bits = mkBits neg (ordOf bits) ∧ IsNearest num den (ordOf bits)

instance (neg : Bool) (num den bits : Nat) : Decidable (IsNearestBits neg num den bits) := by
  unfold IsNearestBits; infer_instance

/-- `num/den` is at or above the midpoint of the largest finite double and 2^1024 (it rounds out of range) -/
def Overflows (num den : Nat) : Bool :=
  decide ((scaled (infOrd - 1) + scaled infOrd) * den ≤ 2 * (2 ^ 1074 * num))

/-! ## monitor: `float read <text>  =>  ok <bits> | err` -/

def bitsOfHex? (h : String) : Option Nat :=
  match fromHex h with
  | some bs => if bs.length = 8 then some (bs.foldl (fun acc x => 256 * acc + x) 0) else none
  | none => none

def monFloatRead (b : Bytes) (obs : List String) : List String :=
  match obs with
  | ["ok", h] =>
      if !FloatGrammar b then ["float_accepts_nongrammar"] else
      (match bitsOfHex? h with
       | some bits =>
          if decide (IsNearestBits (floatNeg b) (floatNum b) (floatDen b) bits) then []
          else if negOf bits != floatNeg b then ["float_value_wrong_sign"]
          else ["float_value_not_nearest{" ++ (if (floatFrac b).isEmpty then "whole" else "fraction") ++ "}"]
       | none => ["unparsed_observation"])
  | ["err"] => if FloatGrammar b && !Overflows (floatNum b) (floatDen b) then ["float_rejects_grammar"] else []
  | ["panic"] => ["panic{op=float.read}"]
  | _ => ["unparsed_observation"]

/-! ## monitor: `float write <bits>  =>  <text>` -/

/-- remove trailing zeros of `D` (at most `fuel`), counting them -/
def stripT : Nat → Nat → Nat → Nat × Nat
  | 0, D, r => (D, r)
  | fuel + 1, D, r => if D ≠ 0 ∧ D % 10 = 0 then stripT fuel (D / 10) (r + 1) else (D, r)

/-- `%f`-canonical form: no redundant leading zero, no trailing decimal zero, digits on both sides of a point -/
def floatCanonForm (b : Bytes) : Bool :=
  let r := floatBodyOf b
  let ip := r.takeWhile isDigit
  let rest := r.dropWhile isDigit
  !ip.isEmpty && (ip == [48] || ip.head? != some 48) &&
  (rest.isEmpty || (!(rest.drop 1).isEmpty && (rest.drop 1).getLast? != some 48))

def monFloatWrite (bits : Nat) (obs : List String) : List String :=
  match obs with
  | ["panic"] => ["panic{op=float.write}"]
  | [h] =>
    (match fromHex h with
     | none => ["unparsed_observation"]
     | some t =>
        if !FloatGrammar t then ["float_write_nongrammar"] else
        let n := ordOf bits
        let num := floatNum t
        let den := floatDen t
        -- significant digits D (k of them): value = D * 10^r / den
        let (D, r) := stripT t.length num 0
        (if decide (IsNearestBits (floatNeg t) num den bits) then [] else ["float_write_read"]) ++
        (if floatCanonForm t then [] else ["float_write_not_canonical"]) ++
        (if D < 10 then [] else
           if decide (Nearest (D / 10 * 10 ^ (r + 1)) den n) || decide (Nearest ((D / 10 + 1) * 10 ^ (r + 1)) den n)
           then ["float_write_not_shortest"] else []) ++
        (if D = 0 then [] else
           let d0 := dist (2 ^ 1074 * (D * 10 ^ r)) (scaled n * den)
           -- a text of as many digits that ALSO reads back to the value and is strictly closer to it
           -- (the interval of texts reading back is not symmetric around a power of two: a closer text may not read back)
           if (dist (2 ^ 1074 * ((D + 1) * 10 ^ r)) (scaled n * den) < d0 && decide (Nearest ((D + 1) * 10 ^ r) den n))
              || (dist (2 ^ 1074 * ((D - 1) * 10 ^ r)) (scaled n * den) < d0 && decide (Nearest ((D - 1) * 10 ^ r) den n))
           then ["float_write_not_closest"] else []))
  | _ => ["unparsed_observation"]

end Qfx.Spec
