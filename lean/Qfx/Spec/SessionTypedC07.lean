/-
  Qfx.Spec.SessionTypedC07 — the predicates the C07 theorems are about.
-/
import Qfx.Spec.SessionTyped
namespace Qfx.Sess
open Qfx

/-- continuity of the message store: same epoch (no reset happened), every stored message is still stored (the old
    association list is a suffix of the new one), neither counter moved backwards -/
structure StoreMono (a b : Store) : Prop where
  epoch : b.epoch = a.epoch
  msgs : a.msgs <:+ b.msgs
  sender : a.sender ≤ b.sender
  target : a.target ≤ b.target

/-- ResetOnLogon / ResetOnLogout / ResetOnDisconnect are off -/
def NoResetFlags (cfg : Cfg) : Prop := cfg.resetOnLogon = false ∧ cfg.resetOnLogout = false ∧ cfg.resetOnDisconnect = false

/-- no reset option is configured: the three flags are off and there is no ResetSeqTime -/
def NoResetOptions (cfg : Cfg) : Prop := NoResetFlags cfg ∧ cfg.resetSeqTime = none

/-- an inbound message that does not negotiate a reset: not a Logon carrying ResetSeqNumFlag=Y -/
def NoResetIn (m : InMsg) : Prop := kindOf m = "A" → logonResetFlag m = false

/-- an event that neither negotiates nor forces a reset: no inbound / outbound Logon with 141=Y, no "new session" clock tick
    (CheckResetTime ticks are allowed: without a configured ResetSeqTime — `NoResetOptions` — they do nothing) -/
def NoResetEv : Ev → Prop
  | .incomingMsg (some m) => NoResetIn m
  | .arrive m => NoResetIn m
  | .send m => (m.kind == "A" && m.f.get? 141 == some "Y") = false
  | .sessionTime _ same => same = true
  | _ => True

end Qfx.Sess
