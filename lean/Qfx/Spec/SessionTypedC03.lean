/-
  Qfx.Spec.SessionTypedC03 — what the C03 theorems speak about: the pure *plan* of a replay (the list of messages
  `resendMessages` hands to `enqueueAndSend`, in order), the coverage chain of a reply, the clipping rule.
-/
import Qfx.Model.Session
namespace Qfx.Sess
open Qfx

/-- one element of a reply to a ResendRequest -/
inductive Rep
  /-- SequenceReset-GapFill numbered `a` with NewSeqNo `b`: covers `[a, b)` -/
  | gap (a b : Int)
  /-- the stored message `m`, found under the number `n`, resent: covers `[n, n+1)` -/
  | msg (n : Int) (m : OutMsg)
  deriving Repr, Inhabited, DecidableEq

/-- the message put on the wire for an element -/
def Rep.out : Rep → OutMsg
  | .gap a b => gapFill a b
  | .msg _ m => resent m

/-- the same with the header of a reply to the ResendRequest being answered: a gap fill carries `l` as tag 369
    (`none`: option off, or the request's MsgSeqNum unreadable); a resent message keeps the header it was stored with -/
def Rep.outR (l : Option Int) : Rep → OutMsg
  | .gap a b => { gapFill a b with last := l }
  | .msg _ m => resent m

def Rep.lo : Rep → Int
  | .gap a _ => a
  | .msg n _ => n
def Rep.hi : Rep → Int
  | .gap _ b => b
  | .msg n _ => n + 1

/-- the gap fill emitted when the cursor `a` lags behind `b` -/
def closeGap (a b : Int) : List Rep := if a != b then [Rep.gap a b] else []

/-- the walk of `resendLoop` over the stored messages of the range, as a pure function:
    (elements produced so far, first number not yet covered, next number after the last one visited) -/
def replayReps : Int → Int → List (Int × OutMsg) → List Rep × Int × Int
  | seqNum, next, [] => ([], seqNum, next)
  | seqNum, _, (n, m) :: rest =>
    if isAdminKind m.kind then replayReps seqNum (n + 1) rest
    else if m.f.get? 9003 == some "n" then replayReps seqNum (n + 1) rest
    else
      let r := replayReps (n + 1) (n + 1) rest
      (closeGap seqNum n ++ Rep.msg n m :: r.1, r.2)

/-- the plan of `resendLoop`: messages in the order they are enqueued, and the two cursors at the end -/
def replayPlan (seqNum next : Int) (l : List (Int × OutMsg)) : List OutMsg × Int × Int :=
  ((replayReps seqNum next l).1.map Rep.out, (replayReps seqNum next l).2)

def replayPlanR (l : Option Int) (seqNum next : Int) (lst : List (Int × OutMsg)) : List OutMsg × Int × Int :=
  ((replayReps seqNum next lst).1.map (Rep.outR l), (replayReps seqNum next lst).2)

/-- the walk plus the closing gap fill -/
def closeReps (r : List Rep × Int × Int) : List Rep := r.1 ++ closeGap r.2.1 r.2.2

/-- the whole reply of `resendMessages` to the (already clipped) range `[b, e]` -/
def replyReps (persist : Bool) (st : Store) (b e : Int) : List Rep :=
  if e < b then []
  else if !persist then [Rep.gap b (e + 1)]
  else closeReps (replayReps b b (st.range b e))

def replyPlan (persist : Bool) (st : Store) (b e : Int) : List OutMsg := (replyReps persist st b e).map Rep.out

/-- the reply as enqueued: `replyPlan` with tag 369 = `l` on the gap fills (equal to `replyPlan` for `l = none`) -/
def replyPlanR (l : Option Int) (persist : Bool) (st : Store) (b e : Int) : List OutMsg := (replyReps persist st b e).map (Rep.outR l)

/-- `enqueueAndSend` of each message in turn -/
def enqAll (s : Sess) (l : List OutMsg) : Sess := l.foldl enqueueAndSend s

/-- EndSeqNo as `handleResendRequest` uses it: "to the end" (0 from FIX.4.2 on, 999999 up to FIX.4.2) and anything
    at or beyond the next number to be used mean the last number used -/
def isInfinity (cfg : Cfg) (e : Int) : Bool := (cfg.bs ≥ 2 && e == 0) || (cfg.bs ≤ 2 && e == 999999)
def clipEnd (cfg : Cfg) (sender e : Int) : Int := if isInfinity cfg e || e ≥ sender then sender - 1 else e

/-- a coverage chain: the elements cover `[a, c)` without holes or overlaps, each a non-empty interval -/
inductive Chain : Int → List Rep → Int → Prop
  | nil (a : Int) : Chain a [] a
  | cons {a c : Int} {r : Rep} {rest : List Rep} (hlo : r.lo = a) (hne : r.lo < r.hi) (h : Chain r.hi rest c) : Chain a (r :: rest) c

/-- the stored messages an application replay consists of: application kind, not declined -/
def replayable (p : Int × OutMsg) : Bool := !isAdminKind p.2.kind && resendable p.2

def Rep.msg? : Rep → Option (Int × OutMsg)
  | .msg n m => some (n, m)
  | .gap _ _ => none

/-- store well-formedness the replay relies on: every stored message is filed under its own MsgSeqNum -/
def Store.Filed (st : Store) : Prop := ∀ p ∈ st.msgs, p.2.seq = p.1

/-- every number of `[lo, hi]` is in the store -/
def Store.HoldsAll (st : Store) (lo hi : Int) : Prop := ∀ n, lo ≤ n → n ≤ hi → (st.lookup n).isSome = true

end Qfx.Sess
