/-
  Qfx.Spec.TimeRange — the windows a schedule configuration describes, declaratively,
  and the C18 monitor (in-range = member of some window; same-range = both in one window).
-/
import Qfx.Model.TimeRange
namespace Qfx.TR

/-- daily configuration: the window that OPENS on civil day `D` (if that weekday is enabled) -/
def Range.dailyWindow (r : Range) (D : Int) : Option (Int × Int) :=
  if r.isInWeekdays (wdOfDay D) then
    some (D * 86400 + r.startS, (if r.startS < r.endS then D else D + 1) * 86400 + r.endS)
  else none

/-- weekly configuration: the window that opens on civil day `D` (if `D` is the start day) -/
def Range.weeklyWindow (r : Range) (sd ed : Int) (D : Int) : Option (Int × Int) :=
  if wdOfDay D = sd then
    let span : Int := if sd = ed then (if r.startS < r.endS then 0 else 7) else (ed - sd) % 7
    some (D * 86400 + r.startS, (D + span) * 86400 + r.endS)
  else none

def Range.window (r : Range) (D : Int) : Option (Int × Int) :=
  match r.startDay, r.endDay with
  | some sd, some ed => r.weeklyWindow sd ed D
  | _, _ => r.dailyWindow D

/-- declarative: `t` lies in the (closed) window opening on some day -/
def InRange (r : Range) (t : Int) : Prop := ∃ D lo hi, r.window D = some (lo, hi) ∧ lo ≤ t ∧ t ≤ hi
def Same (r : Range) (a b : Int) : Prop :=
  ∃ D lo hi, r.window D = some (lo, hi) ∧ lo ≤ a ∧ a ≤ hi ∧ lo ≤ b ∧ b ≤ hi

/-- executable enumeration used by the monitor: only the last 8 opening days can contain `t` -/
def candidates (t : Int) : List Int := (List.range 9).map (fun (k : Nat) => dayOf t - Int.ofNat k)

def inRangeSpec (r : Range) (t : Int) : Bool :=
  (candidates t).any fun D => match r.window D with
    | some (lo, hi) => decide (lo ≤ t ∧ t ≤ hi)
    | none => false

def sameSpec (r : Range) (a b : Int) : Bool :=
  (candidates a).any fun D => match r.window D with
    | some (lo, hi) => decide (lo ≤ a ∧ a ≤ hi ∧ lo ≤ b ∧ b ≤ hi)
    | none => false

/-- within one second of an edge of some nearby window (the property does not judge these instants) -/
def nearEdge (r : Range) (t : Int) : Bool :=
  ((List.range 10).map (fun (k : Nat) => dayOf t + 1 - Int.ofNat k)).any fun D => match r.window D with
    | some (lo, hi) => decide ((lo - 1 ≤ t ∧ t ≤ lo + 1) ∨ (hi - 1 ≤ t ∧ t ≤ hi + 1))
    | none => false

def monAt (r : Range) (t : Int) (obs : List String) : List String :=
  if nearEdge r t then [] else
  match obs with
  | ["in", v] => if v == (if inRangeSpec r t then "y" else "n") then []
                 else [if inRangeSpec r t then "in_range_missed{kind=" ++ (if r.startDay.isSome then "weekly" else "daily") ++ "}"
                       else "in_range_spurious{kind=" ++ (if r.startDay.isSome then "weekly" else "daily") ++ "}"]
  | ["panic"] => ["panic{op=at}"]
  | _ => ["unparsed_observation"]

def monPair (r : Range) (a b : Int) (obs : List String) : List String :=
  if nearEdge r a || nearEdge r b then [] else
  match obs with
  | ["same", v] => if v == (if sameSpec r a b then "y" else "n") then []
                   else [if sameSpec r a b then "same_range_missed" else "same_range_spurious"]
  | ["panic"] => ["panic{op=pair}"]
  | _ => ["unparsed_observation"]

end Qfx.TR
