/-
  Qfx.Spec.SessionTypedC04 — the predicates and small functions the C04 / C20 theorems are stated with
  (over the model's typed observations; ghost-free: nothing here changes or instruments the model).
-/
import Qfx.Model.Session
namespace Qfx.Sess
open Qfx

def wiresOf (l : List Obs) : List OutMsg := l.filterMap fun o => match o with | .wire m => some m | _ => none
def isRR (m : OutMsg) : Bool := m.kind == "2"
/-- number of ResendRequests written during the current event or still queued -/
def rrCount (s : Sess) : Nat := (wiresOf s.log).countP isRR + s.toSend.countP isRR

/-- frame + ResendRequest budget -/
structure Q (k : Nat) (s s' : Sess) : Prop where
  st : s'.st = s.st
  cfg : s'.cfg = s.cfg
  inbox : s'.inbox = s.inbox
  inboxOpen : s'.inboxOpen = s.inboxOpen
  out : s'.out = s.out
  rr : rrCount s' ≤ rrCount s + k

/-- EndSeqNo of a ResendRequest for `[b, e]`: the chunk end when a chunk size smaller than the gap is configured, else "infinity" -/
def chunkEnd (cfg : Cfg) (b e : Int) : Int :=
  if cfg.chunk ≠ 0 ∧ b + cfg.chunk - 1 < e then b + cfg.chunk - 1 else infinityEnd cfg
/-- the end of the chunk currently requested (0 = the whole rest was requested) -/
def chunkCur (cfg : Cfg) (b e : Int) : Int :=
  if cfg.chunk ≠ 0 ∧ b + cfg.chunk - 1 < e then b + cfg.chunk - 1 else 0
def rrMsg (cfg : Cfg) (b e : Int) : OutMsg := mkOut "2" [(7, toString b), (16, toString (chunkEnd cfg b e))]

/-- kinds whose MsgSeqNum is checked against the expected number before anything else happens -/
structure SeqGated (m : InMsg) : Prop where
  notLogon : kindOf m ≠ "A"
  notLogout : kindOf m ≠ "5"
  notResend : kindOf m ≠ "2"
  gapFill : kindOf m = "4" → getBool m 123 = .val true

def persistObs (cfg : Cfg) (m : OutMsg) : Obs := if cfg.persist then .saved m.seq m.kind (resendable m) else .incS

/-- the message as `prepMessageForSend` sends it: header filled (tag 369 when the option is on), numbered -/
def numbered (s : Sess) (m : OutMsg) : OutMsg := { stamp s m with seq := s.store.sender }

structure AdminSent (s : Sess) (m : OutMsg) (s' : Sess) : Prop where
  st : s'.st = s.st
  cfg : s'.cfg = s.cfg
  hb : s'.hb = s.hb
  target : s'.store.target = s.store.target
  sender : s'.store.sender = s.store.sender + 1
  queue : s'.toSend = if s.out then [] else s.toSend ++ [numbered s m]
  log : s'.log.reverse = s.log.reverse ++ persistObs s.cfg (numbered s m) ::
          (if s.out then (s.toSend ++ [numbered s m]).map Obs.wire else [])
  out : s'.out = s.out
  inbox : s'.inbox = s.inbox
  inboxOpen : s'.inboxOpen = s.inboxOpen

/-- ResendRequests visible after an event: written during it or still queued -/
def rrAfter (r : Sess × List Obs × String) : Nat := (wiresOf r.2.1).countP isRR + r.1.toSend.countP isRR

/-- what the application sees of a message (C01's deliveries, plus the administrative callback) -/
def cbObs (s : Sess) (m : InMsg) : Obs :=
  if isAdminKind (kindOf m) then .fromAdmin (kindOf m) (seqText m) else .fromApp (seqText m) s.store.target

/-- kinds handled by the default branch of `inSessionFixMsgIn`: application messages, Heartbeat, Reject, … -/
structure PlainKind (m : InMsg) : Prop where
  notLogon : kindOf m ≠ "A"
  notLogout : kindOf m ≠ "5"
  notResend : kindOf m ≠ "2"
  notSeqReset : kindOf m ≠ "4"
  notTestReq : kindOf m ≠ "1"

structure Kept (s s' : Sess) : Prop where
  st : s'.st = s.st
  cfg : s'.cfg = s.cfg
  target : s'.store.target = s.store.target

/-- `Drained s st s' st'`: from `s` with stash `st`, entries were taken one at a time — each numbered exactly the number
    expected at that moment — and handed to the in-session handler, ending in `s'` with `st'` left -/
inductive Drained : Sess → List (Int × InMsg) → Sess → List (Int × InMsg) → Prop
  | done (s : Sess) (st : List (Int × InMsg)) : Drained s st s st
  | step {s s1 s2 : Sess} {st st2 : List (Int × InMsg)} {nx : SState} (n : Int) (m : InMsg)
      (hmem : (n, m) ∈ st) (hn : n = s.store.target) (hproc : inSessionFixMsgIn s m = (s1, nx))
      (hrest : Drained s1 (st.filter (·.1 != n)) s2 st2) : Drained s st s2 st2

/-- a message that will be accepted when its number is the expected one: plain kind, identity gates passed, no empty
    field, not refused by the application -/
structure Clean (s : Sess) (n : Int) (m : InMsg) : Prop where
  kind : PlainKind m
  bs : checkBeginString s m = none
  comp : checkCompID s m = none
  seq : getInt m 34 = .val n
  valid : validate s.cfg m = none
  accepted : callbackVerdict m = none

/-- hand one message to the application and consume its number -/
def deliver (s : Sess) (m : InMsg) : Sess := incrTarget (s.emit (cbObs s m))

/-- what the application saw, oldest first -/
def callbacks (l : List Obs) : List Obs :=
  l.reverse.filter fun o => match o with | .fromApp _ _ | .fromAdmin _ _ => true | _ => false

/-- the callbacks of a run of deliveries starting at expected number `t` -/
def cbList (t : Int) : List InMsg → List Obs
  | [] => []
  | m :: ms => (if isAdminKind (kindOf m) then Obs.fromAdmin (kindOf m) (seqText m) else Obs.fromApp (seqText m) t) :: cbList (t + 1) ms

/-! the bookkeeping of `resendFixMsgIn` after the in-session handler, cut into named pieces (`resendFixMsgIn_eq` in
    Lemmas/SessC04.lean proves that the model function is exactly this) -/

/-- the stash the recovery state sees afterwards: `processReject` stores into the *current* state's map -/
def sharedStash (s : Sess) (nx : SState) (stash : List (Int × InMsg)) : List (Int × InMsg) :=
  match nx, curResend s with
  | .resend st' _ _, some _ => st'
  | _, _ => stash

def chunkPart (s : Sess) (stash : List (Int × InMsg)) (fin : Int) : Sess × SState :=
  let (s, c, f) := sendResendRequest s s.store.target fin
  (s, .resend stash c f)

def drainPart (s : Sess) (nx : SState) (stash : List (Int × InMsg)) : Sess × SState :=
  let shared := (curResend s).isSome
  match drainStash (stash.length + 1) s stash nx with
  | (s, .resend st' c f, rest) => (s, .resend (if shared then rest else st') c f)
  | (s, nx, _) => (s, nx)

def gapFillFlag (m : InMsg) : Bool := match getBool m 123 with | .val b => b | _ => false

/-- the bookkeeping of `resendFixMsgIn` after the in-session handler has run and left the session logged on (same text,
    cut into named pieces) -/
def resendBook (s : Sess) (nx : SState) (stash : List (Int × InMsg)) (cur fin : Int) (m : InMsg) : Sess × SState :=
  if cur != 0 && cur < s.store.target then chunkPart s stash fin
  else
    match getBool m 123 with
    | .garbled => (s, .latent)
    | _ =>
      if gapFillFlag m && cur != 0 && cur == s.store.target then chunkPart s stash fin
      else if fin ≥ s.store.target then (s, .resend stash cur fin)
      else drainPart s nx stash

/-! budgets: how many ResendRequests an event may create -/

/-- 1 for a ResendRequest, 0 for anything else -/
def rrK (m : OutMsg) : Nat := if isRR m then 1 else 0

/-- budget of one inbound message: one ResendRequest, none in a recovery state with everything requested -/
def inBudget (s : Sess) : Nat :=
  match curResend s with
  | some (_, cur, _) => if cur ≠ 0 then 1 else 0
  | none => 1

/-- how many ResendRequests an event may create: one for an inbound message outside a fully requested recovery, whatever
    the application itself submits, nothing otherwise -/
def evBudget (s : Sess) : Ev → Nat
  | .incomingMsg (some _) => inBudget s
  | .send m => rrK m
  | _ => 0

/-! histories -/

def histObs (s : Sess) : List Ev → List Obs
  | [] => []
  | e :: es => (step s e).2.1 ++ histObs (step s e).1 es
def histEnd (s : Sess) : List Ev → Sess
  | [] => s
  | e :: es => histEnd (step s e).1 es
/-- the sum of the budgets of the events of a history, each taken in the state it meets -/
def histBudget (s : Sess) : List Ev → Nat
  | [] => 0
  | e :: es => evBudget s e + histBudget (step s e).1 es

end Qfx.Sess
