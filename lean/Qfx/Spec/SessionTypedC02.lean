/-
  Qfx.Spec.SessionTypedC02 — the sequential C02 monitor over the session model's typed observations (`Qfx.Sess.Obs`).

  `S`     = the next outbound number as reconstructed from the store mutations seen so far;
  `saved` = every (number, MsgType, resendable) the store was asked to save so far (whole trace);
  `ok`    = no clause violated so far:
    * `saved n …` happens exactly at `n = S`, after which `S = n + 1`; `incS` (persistence off) advances `S` by one
      without storing; `reset` puts `S` back to 1;
    * with persistence on, every first-time write to the connection (PossDupFlag ≠ Y) of a message numbered `n`
      comes after the store saved a message with that number, MsgType and resend verdict.
-/
import Qfx.Model.Session
namespace Qfx.Sess.C02
open Qfx Qfx.Sess

structure G2 where
  S : Int
  ok : Bool
  saved : List (Int × String × Bool)
  deriving Repr

/-- a first-time transmission: PossDupFlag is not Y -/
def firstTime (m : OutMsg) : Bool := m.f.get? 43 != some "Y"

/-- the message is a replay, or the store has been asked to save it -/
def covered (g : G2) (m : OutMsg) : Bool :=
  !firstTime m || g.saved.contains (m.seq, m.kind, resendable m)

def g2Step (persist : Bool) (g : G2) : Obs → G2
  | .saved n k r => { g with S := g.S + 1, ok := g.ok && decide (n = g.S), saved := (n, k, r) :: g.saved }
  | .incS => { g with S := g.S + 1 }
  | .reset => { g with S := 1 }
  | .wire m => { g with ok := g.ok && (!persist || covered g m) }
  | _ => g

def G2.init (s0 : Int) : G2 := { S := s0, ok := true, saved := [] }

/-- the sequential C02 verdict on a whole observation trace, and the reconstructed next outbound number -/
def c02SeqAccepts (persist : Bool) (s0 : Int) (trace : List Obs) : Bool :=
  (trace.foldl (g2Step persist) (G2.init s0)).ok

def c02SeqSender (persist : Bool) (s0 : Int) (trace : List Obs) : Int :=
  (trace.foldl (g2Step persist) (G2.init s0)).S

/-! ### per-epoch version: wire order and "still in the store" -/

/-- `lastFirst` = the number of the last first-time message written in this epoch (0 = none), `savedE` = what the store
    has been asked to save since the last reset.  Clauses: first-time messages are written in strictly increasing number
    order within an epoch; with persistence a first-time write of number n / MsgType k / resend verdict r happens while
    the store holds (n, k, r), i.e. it was saved since the last reset. -/
structure G3 where
  ok : Bool
  lastFirst : Int
  savedE : List (Int × String × Bool)
  deriving Repr

def g3Step (persist : Bool) (g : G3) : Obs → G3
  | .saved n k r => { g with savedE := (n, k, r) :: g.savedE }
  | .reset => { g with lastFirst := 0, savedE := [] }
  | .wire m =>
    if firstTime m then
      { g with ok := g.ok && decide (g.lastFirst < m.seq) && (!persist || g.savedE.contains (m.seq, m.kind, resendable m)),
               lastFirst := m.seq }
    else g
  | _ => g

def G3.init : G3 := { ok := true, lastFirst := 0, savedE := [] }

def c02SeqEpochAccepts (persist : Bool) (trace : List Obs) : Bool :=
  (trace.foldl (g3Step persist) G3.init).ok

end Qfx.Sess.C02
