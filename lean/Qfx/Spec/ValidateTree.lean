/-
  Qfx.Spec.ValidateTree — instance trees (fields and repeating groups) and their conformance to a field definition.

  `Inst`      what a generator builds from a definition: a plain field, or a group = counter field + entries, every entry a
              list of member instances (members may be groups again);
  `Inst.wire` the wire fields of an instance, in order (what the parser hands to the validator in `PMsg.fields`);
  `InstOK fd i`      `i` is an instance of `fd`: same tag; a group's counter reads as the number of entries; every entry
                     starts with the delimiter (first member definition) and is `EntryOK`;
  `EntryOK defs is`  the members `is` follow the member definitions `defs` in order, optional definitions may be skipped;
  `EntryMissing d defs is`  as `EntryOK`, except that exactly one REQUIRED definition `d` has no instance;
  `EntrySwapped a q defs is` as `EntryOK`, except that two adjacent plain members are swapped (`a` the displaced one);
  `FDef.TagsNodup`   all tags of the definition tree (counter included) pairwise distinct;
  `FDef.maxWidth`    the longest member list in the definition tree (for the fuel budget of the walk).
-/
import Qfx.Spec.Validate
namespace Qfx.Dict

/-- all tags of the definition tree, the counter included, are pairwise distinct -/
def FDef.TagsNodup (fd : FDef) : Prop := fd.allTags.Nodup

mutual
/-- the longest member list in the definition tree -/
def FDef.maxWidth : FDef → Nat
  | .mk _ _ fs _ => max fs.length (maxWidthL fs)
def maxWidthL : List FDef → Nat
  | [] => 0
  | f :: r => max f.maxWidth (maxWidthL r)
end

end Qfx.Dict

namespace Qfx.Validate
open Qfx Qfx.Dict

inductive Inst where
  | fld (tag : Nat) (value : Bytes)
  | grp (tag : Nat) (count : Bytes) (entries : List (List Inst))

def Inst.tag : Inst → Nat
  | .fld t _ => t
  | .grp t _ _ => t

/-- the value of the instance's first wire field (a group: the counter) -/
def Inst.headValue : Inst → Bytes
  | .fld _ v => v
  | .grp _ c _ => c

mutual
def Inst.wire : Inst → List TV
  | .fld t v => [⟨t, v⟩]
  | .grp t c es => ⟨t, c⟩ :: wireLL es
def wireL : List Inst → List TV
  | [] => []
  | i :: is => i.wire ++ wireL is
def wireLL : List (List Inst) → List TV
  | [] => []
  | e :: es => wireL e ++ wireLL es
end

mutual
inductive InstOK : FDef → Inst → Prop
  | fld {fd : FDef} {t : Nat} {v : Bytes} : fd.tag = t → fd.isGroup = false → InstOK fd (.fld t v)
  | grp {fd : FDef} {t : Nat} {c : Bytes} {es : List (List Inst)} {d0 : FDef} {ds : List FDef} :
      fd.tag = t → fd.fields = d0 :: ds → readCount c = some (es.length : Int) →
      (∀ e ∈ es, ∃ i0 r, e = i0 :: r ∧ i0.tag = d0.tag) →
      (∀ e ∈ es, EntryOK (d0 :: ds) e) → InstOK fd (.grp t c es)
inductive EntryOK : List FDef → List Inst → Prop
  | nil {defs : List FDef} : (∀ d ∈ defs, d.req = false) → EntryOK defs []
  | skip {d : FDef} {ds : List FDef} {i : Inst} {is : List Inst} :
      d.req = false → EntryOK ds (i :: is) → i.tag ≠ d.tag → EntryOK (d :: ds) (i :: is)
  | take {d : FDef} {ds : List FDef} {i : Inst} {is : List Inst} :
      InstOK d i → EntryOK ds is → EntryOK (d :: ds) (i :: is)
end

/-- the members follow `defs` as in `EntryOK`, except that the REQUIRED definition `d` has no instance
    (`miss`: the members that follow conform to the definitions after `d`) -/
inductive EntryMissing (d : FDef) : List FDef → List Inst → Prop
  | miss {ds : List FDef} {is : List Inst} : d.req = true → EntryOK ds is → EntryMissing d (d :: ds) is
  | skip {c : FDef} {cs : List FDef} {is : List Inst} :
      c.req = false → EntryMissing d cs is → EntryMissing d (c :: cs) is
  | take {c : FDef} {cs : List FDef} {i : Inst} {is : List Inst} :
      InstOK c i → EntryMissing d cs is → EntryMissing d (c :: cs) (i :: is)

/-- the members follow `defs` as in `EntryOK` up to two ADJACENT PLAIN members that come in the wrong order: the entry
    `… a b q` conforms, the wire has `… b a q` (`a`: the displaced field, `q`: the members after the pair) -/
inductive EntrySwapped (a : TV) (q : List Inst) : List FDef → List Inst → Prop
  | swap {cs : List FDef} {tb : Nat} {vb : Bytes} : EntryOK cs (.fld a.tag a.value :: .fld tb vb :: q) →
      EntrySwapped a q cs (.fld tb vb :: .fld a.tag a.value :: q)
  | skip {c : FDef} {cs : List FDef} {is : List Inst} :
      c.req = false → EntrySwapped a q cs is → EntrySwapped a q (c :: cs) is
  | take {c : FDef} {cs : List FDef} {i : Inst} {is : List Inst} :
      InstOK c i → EntrySwapped a q cs is → EntrySwapped a q (c :: cs) (i :: is)

/-- the first field of the list, if any, has a tag outside `S` -/
def HeadNotIn (S : List Nat) (l : List TV) : Prop := ∀ f r, l = f :: r → f.tag ∉ S

end Qfx.Validate
