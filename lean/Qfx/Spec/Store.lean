/-
  Qfx.Spec.Store — what C16 and C17 demand, as decidable monitors over observations of the implementation.

  C16: every answer of a store equals the answer of the abstract store `AStore` (Qfx.Model.Store) on the same
       history (counters, messages byte-identical / ascending / within range, reset, creation time renewed only by
       reset; refresh and reopen change nothing).
  C17: see `monRecovered` — the recovery monitor.
-/
import Qfx.Model.Store
namespace Qfx.Spec.Store
open Qfx Qfx.Store

/-! ## C16 -/

def opName : Op → String
  | .setS _ => "setS" | .setT _ => "setT" | .incS => "incS" | .incT => "incT"
  | .save .. => "save" | .saveIncr .. => "saveIncr" | .get .. => "get" | .iter .. => "iter"
  | .refresh => "refresh" | .reset => "reset" | .reopen => "reopen"

/-- saves strictly ascending within an epoch (the quantifier of C16): `hi` = highest sequence number saved so far -/
def ascendingOk (hi : Option Nat) : Op → Bool
  | .save n _ => (match hi with | some h => decide (h < n) | none => true)
  | .saveIncr n _ => (match hi with | some h => decide (h < n) | none => true)
  | _ => true

def hiAfter (hi : Option Nat) : Op → Option Nat
  | .save n _ => some n
  | .saveIncr n _ => some n
  | .reset => none
  | _ => hi

/-- the monitor of one observed operation against the abstract store before it: violated clauses -/
def monOp (s : AStore) (o : Op) (got : Obs) : List String :=
  let want := (s.step o).2
  let ctx := "{op=" ++ opName o ++ "}"
  (if got.ok ≠ want.ok then ["return_differs" ++ ctx] else [])
  ++ (if got.sender ≠ want.sender ∨ got.target ≠ want.target then ["counters_differ" ++ ctx] else [])
  ++ (if got.renewed ≠ want.renewed then ["creation_time_differs" ++ ctx] else [])
  ++ (if got.msgs ≠ want.msgs then ["messages_differ" ++ ctx] else [])

/-- a freshly opened store on fresh backing: counters 1/1, a new creation time, no messages -/
def monOpen (got : Obs) : List String :=
  (if got.ok ≠ true then ["return_differs{op=open}"] else [])
  ++ (if got.sender ≠ 1 ∨ got.target ≠ 1 then ["counters_differ{op=open}"] else [])
  ++ (if got.renewed ≠ true then ["creation_time_differs{op=open}"] else [])

/-! monitor sensitivity: each clause rejects a trace violating exactly it -/
example : monOp {} (.setS 5) ⟨true, 5, 1, false, []⟩ = [] := by decide
example : monOp {} (.setS 5) ⟨true, 4, 1, false, []⟩ = ["counters_differ{op=setS}"] := by decide
example : monOp {} (.setS 5) ⟨false, 5, 1, false, []⟩ = ["return_differs{op=setS}"] := by decide
example : monOp { msgs := [(1, [65]), (2, [66])] } (.get 1 2) ⟨true, 1, 1, false, [[65], [66]]⟩ = [] := by decide
example : monOp { msgs := [(1, [65]), (2, [66])] } (.get 1 2) ⟨true, 1, 1, false, [[66], [65]]⟩ = ["messages_differ{op=get}"] := by decide
example : monOp { msgs := [(1, [65]), (2, [66])] } (.get 2 2) ⟨true, 1, 1, false, [[65], [66]]⟩ = ["messages_differ{op=get}"] := by decide
example : monOp { sender := 7 } .reset ⟨true, 1, 1, false, []⟩ = ["creation_time_differs{op=reset}"] := by decide
example : monOp { sender := 7 } .reopen ⟨true, 1, 1, false, []⟩ = ["counters_differ{op=reopen}"] := by decide
example : monOp { sender := 7 } .refresh ⟨true, 7, 1, true, []⟩ = ["creation_time_differs{op=refresh}"] := by decide

/-! ## C17 — the recovery monitor

  Observation of a fresh store opened on a crash image (harness family `crash`): did the open succeed, both counters,
  `GetMessages` over the whole range, `GetMessages(n, n)` for some probed numbers.  Context: the abstract store before
  (`pre`) and after (`post`) the interrupted operation, the message being saved if any, every (number, bytes) pair ever
  handed to a save in this epoch.  The window `{after, in, cut, mode}` names the two primitives around the crash point as
  reported by the hook of the real store; it is the seed-independent context of a finding. -/

structure RecObs where
  ok : Bool                 -- the store could be opened
  prev : String             -- last completed primitive (`start` if none)
  cur : String              -- primitive in flight / next (`end` if the operation had finished)
  cut : String              -- `none` (between primitives) | `mid` (inside the write `cur`)
  mode : String             -- process | power
  sender : Int
  target : Int
  allEnd : String           -- ok | err | panic
  all : List Bytes
  qs : List (Nat × String × List Bytes)
  deriving Repr, DecidableEq, Inhabited

def RecObs.windowInner (r : RecObs) : String :=
  if r.cut = "mid" then "in=" ++ r.cur ++ ",cut=mid,mode=" ++ r.mode
  else "after=" ++ r.prev ++ ",in=" ++ r.cur ++ ",cut=none,mode=" ++ r.mode
def RecObs.window (r : RecObs) : String := "{" ++ r.windowInner ++ "}"

def values (m : MsgMap) : List Bytes := m.map (·.2)
def lookupMsg (m : MsgMap) (n : Nat) : Option Bytes := (m.find? fun p => p.1 == n).map (·.2)

/-- clause names only (the driver appends the window) -/
def monRecovered (pre post : AStore) (inflight : Option (Nat × Bytes)) (saved : List (Nat × Bytes)) (r : RecObs) : List String :=
  if !r.ok then ["reopen_fails"] else
  let genuine := fun (n : Nat) (x : Bytes) => saved.any fun p => p.1 == n && p.2 == x
  let genuineAny := fun (x : Bytes) => saved.any fun p => p.2 == x
  -- every message whose save had completed is returned intact
  let lostAll := r.allEnd ≠ "ok" ∨ (r.all ≠ values pre.msgs ∧ r.all ≠ values post.msgs ∧ r.all.all genuineAny)
  let lostQ := r.qs.any fun q =>
    match lookupMsg pre.msgs q.1, lookupMsg post.msgs q.1 with
    | some m, some m' => m == m' && !(q.2.1 == "ok" && q.2.2 == [m])
    | _, _ => false
  -- each recovered counter equals its value before or after the interrupted operation
  let ctr := (r.sender ≠ pre.sender ∧ r.sender ≠ post.sender) ∨ (r.target ≠ pre.target ∧ r.target ≠ post.target)
  -- the recovered outbound counter says n was used ⇒ message n is retrievable intact
  let used := match inflight with
    | some (n, m) => decide (pre.sender ≠ post.sender ∧ r.sender = post.sender) &&
        r.qs.any fun q => q.1 == n && !(q.2.1 == "ok" && q.2.2 == [m])
    | none => false
  -- no torn or foreign bytes are ever returned for a sequence number
  let torn := (r.qs.any fun q => q.2.2.any fun x => !genuine q.1 x) || r.all.any fun x => !genuineAny x
  (if lostAll ∨ lostQ then ["completed_saves_lost"] else [])
  ++ (if ctr then ["counter_neither_before_nor_after"] else [])
  ++ (if used then ["used_not_retrievable"] else [])
  ++ (if torn then ["torn_or_foreign_bytes"] else [])

/-- after a recovery: nothing a later retrieval returns for numbers in [b, e] may be torn or foreign -/
def monForeignRange (saved : List (Nat × Bytes)) (b e : Int) (msgs : List Bytes) : Bool :=
  msgs.any fun x => !(saved.any fun p => inRange b e p.1 && p.2 == x)

/-! monitor sensitivity -/
private def pre2 : AStore := { sender := 3, target := 1, msgs := [(1, [65]), (2, [66])] }
private def post3 : AStore := { sender := 4, target := 1, msgs := [(1, [65]), (2, [66]), (3, [67, 67])] }
private def saved3 : List (Nat × Bytes) := [(1, [65]), (2, [66]), (3, [67, 67])]
private def goodRec : RecObs := ⟨true, "write-header", "write-body", "none", "process", 3, 1, "ok", [[65], [66]], [(3, "ok", [])]⟩
example : monRecovered pre2 post3 (some (3, [67, 67])) saved3 goodRec = [] := by decide
example : monRecovered pre2 post3 (some (3, [67, 67])) saved3 { goodRec with ok := false } = ["reopen_fails"] := by decide
example : monRecovered pre2 post3 (some (3, [67, 67])) saved3 { goodRec with allEnd := "err", all := [[65]] } = ["completed_saves_lost"] := by decide
example : monRecovered pre2 post3 (some (3, [67, 67])) saved3 { goodRec with all := [[65]] } = ["completed_saves_lost"] := by decide
example : monRecovered pre2 post3 (some (3, [67, 67])) saved3 { goodRec with sender := 13 } = ["counter_neither_before_nor_after"] := by decide
example : monRecovered pre2 post3 (some (3, [67, 67])) saved3 { goodRec with sender := 4 } = ["used_not_retrievable"] := by decide
example : monRecovered pre2 post3 (some (3, [67, 67])) saved3 { goodRec with qs := [(3, "ok", [[67]])] } = ["torn_or_foreign_bytes"] := by decide
example : monRecovered pre2 post3 (some (3, [67, 67])) saved3 { goodRec with qs := [(2, "ok", [[65]])] } = ["completed_saves_lost", "torn_or_foreign_bytes"] := by decide

end Qfx.Spec.Store
