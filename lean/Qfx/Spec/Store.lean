/-
  Qfx.Spec.Store — what C16 and C17 demand, as decidable monitors over observations of the implementation.

  C16: every answer of a store equals the answer of the abstract store `AStore` (Qfx.Model.Store) on the same
       history (counters, messages byte-identical / ascending / within range, reset, creation time renewed only by
       reset; refresh and reopen change nothing).
  C17: see `monRecovered` — the recovery monitor.
-/
import Qfx.Model.Store
namespace Qfx.Spec.Store
open Qfx Qfx.Store

/-! ## C16 -/

def opName : Op → String
  | .setS _ => "setS" | .setT _ => "setT" | .incS => "incS" | .incT => "incT"
  | .save .. => "save" | .saveIncr .. => "saveIncr" | .get .. => "get" | .iter .. => "iter"
  | .refresh => "refresh" | .reset => "reset" | .reopen => "reopen"

/-- saves strictly ascending within an epoch (the quantifier of C16): `hi` = highest sequence number saved so far -/
def ascendingOk (hi : Option Nat) : Op → Bool
  | .save n _ => (match hi with | some h => decide (h < n) | none => true)
  | .saveIncr n _ => (match hi with | some h => decide (h < n) | none => true)
  | _ => true

def hiAfter (hi : Option Nat) : Op → Option Nat
  | .save n _ => some n
  | .saveIncr n _ => some n
  | .reset => none
  | _ => hi

/-- the monitor of one observed operation against the abstract store before it: violated clauses -/
def monOp (s : AStore) (o : Op) (got : Obs) : List String :=
  let want := (s.step o).2
  let ctx := "{op=" ++ opName o ++ "}"
  (if got.ok ≠ want.ok then ["return_differs" ++ ctx] else [])
  ++ (if got.sender ≠ want.sender ∨ got.target ≠ want.target then ["counters_differ" ++ ctx] else [])
  ++ (if got.renewed ≠ want.renewed then ["creation_time_differs" ++ ctx] else [])
  ++ (if got.msgs ≠ want.msgs then ["messages_differ" ++ ctx] else [])

/-- a freshly opened store on fresh backing: counters 1/1, a new creation time, no messages -/
def monOpen (got : Obs) : List String :=
  (if got.ok ≠ true then ["return_differs{op=open}"] else [])
  ++ (if got.sender ≠ 1 ∨ got.target ≠ 1 then ["counters_differ{op=open}"] else [])
  ++ (if got.renewed ≠ true then ["creation_time_differs{op=open}"] else [])

/-! monitor sensitivity: each clause rejects a trace violating exactly it -/
example : monOp {} (.setS 5) ⟨true, 5, 1, false, []⟩ = [] := by decide
example : monOp {} (.setS 5) ⟨true, 4, 1, false, []⟩ = ["counters_differ{op=setS}"] := by decide
example : monOp {} (.setS 5) ⟨false, 5, 1, false, []⟩ = ["return_differs{op=setS}"] := by decide
example : monOp { msgs := [(1, [65]), (2, [66])] } (.get 1 2) ⟨true, 1, 1, false, [[65], [66]]⟩ = [] := by decide
example : monOp { msgs := [(1, [65]), (2, [66])] } (.get 1 2) ⟨true, 1, 1, false, [[66], [65]]⟩ = ["messages_differ{op=get}"] := by decide
example : monOp { msgs := [(1, [65]), (2, [66])] } (.get 2 2) ⟨true, 1, 1, false, [[65], [66]]⟩ = ["messages_differ{op=get}"] := by decide
example : monOp { sender := 7 } .reset ⟨true, 1, 1, false, []⟩ = ["creation_time_differs{op=reset}"] := by decide
example : monOp { sender := 7 } .reopen ⟨true, 1, 1, false, []⟩ = ["counters_differ{op=reopen}"] := by decide
example : monOp { sender := 7 } .refresh ⟨true, 7, 1, true, []⟩ = ["creation_time_differs{op=refresh}"] := by decide

end Qfx.Spec.Store
