/-
  Qfx.Spec.Framer — what the frames of a byte stream ARE, as a function of the whole stream
  (no buffer, no reader, no chunks), the grammar of a well-formed frame, and the C12 monitor.

  `framesWhole s`: repeatedly
     skip to the first "8=";  from there find the first SOH "9=", read the digits up to the next SOH as BodyLength n
     (empty / not an integer / ≤ 0 / end offset beyond `int` ⇒ the stream ends with a length error);
     the frame ends with the first SOH "10=" at or after (position of that SOH) + n and the first SOH after it;
     a search that runs off the end of the stream ends the stream with `eof`.
-/
import Qfx.Model.Framer
namespace Qfx.Spec
open Qfx Qfx.Framer

/-- first occurrence of `d` in `s` at or after `off` -/
def findFrom (off : Nat) (d s : Bytes) : Option Nat :=
  if off ≤ s.length then (indexOf d (s.drop off)).map (· + off) else none

/-- `s` starts at a BeginString marker: the offset where the search for the trailer starts
    (`guarded = false`: the arithmetic before the `fix:` commit, which can wrap to a negative offset) -/
def bodyEnd (guarded : Bool) (ee : String) (s : Bytes) : Res Int :=
  match findFrom 0 dLen s with
  | none => .err ee
  | some li =>
    match findFrom (li + 3) dSOH s with
    | none => .err ee
    | some off =>
      if off = li + 3 then .err "No length given"
      else
        match atoi ((s.take off).drop (li + 3)) with
        | .ok n =>
          if n ≤ 0 then .err "Invalid length"
          else if guarded && decide (wrap64 ((off : Int) + n) < (off : Int)) then .err "Invalid length"
          else .ok (wrap64 ((off : Int) + n))
        | .err x => .err x
        | .fault w => .fault w

/-- one frame and the rest of the stream -/
def nextFrame (guarded : Bool) (ee : String) (s : Bytes) : Res (Bytes × Bytes) :=
  match findFrom 0 dBegin s with
  | none => .err ee
  | some start =>
    let s1 := s.drop start
    match bodyEnd guarded ee s1 with
    | .ok be =>
      if be < 0 then .fault "slice bounds out of range"
      else
        match findFrom be.toNat dCk s1 with
        | none => .err ee
        | some e1 =>
          match findFrom (e1 + 1) dSOH s1 with
          | none => .err ee
          | some e2 => .ok (s1.take (e2 + 1), s1.drop (e2 + 1))
    | .err x => .err x
    | .fault w => .fault w

theorem nextFrame_shorter {g : Bool} {ee : String} {s m r : Bytes} (h : nextFrame g ee s = .ok (m, r)) : r.length < s.length := by
  unfold nextFrame at h
  split at h
  · cases h
  · rename_i start hs
    simp only at h
    split at h
    · split at h
      · cases h
      · split at h
        · cases h
        · split at h
          · cases h
          · rename_i e2 he2
            simp only [Res.ok.injEq, Prod.mk.injEq] at h
            rw [← h.2]
            simp only [List.length_drop]
            unfold findFrom at he2
            split at he2
            · rename_i hle
              simp only [List.length_drop] at hle
              omega
            · cases he2
    · cases h
    · cases h

/-- frames of the whole stream and how it ends -/
def framesWholeG (guarded : Bool) (ee : String) (s : Bytes) : Out :=
  match h : nextFrame guarded ee s with
  | .ok (m, r) => let o := framesWholeG guarded ee r; { o with frames := m :: o.frames }
  | .err c => { frames := [], end_ := .err c }
  | .fault w => { frames := [], end_ := .fault w }
termination_by s.length
decreasing_by exact nextFrame_shorter h

/-- `ee`: the error the reader ends with (what a search that runs off the end of the stream reports) -/
def framesWholeE (ee : String) (s : Bytes) : Out := framesWholeG true ee s
/-- … for a stream that ends with io.EOF -/
def framesWhole (s : Bytes) : Out := framesWholeE "eof" s

/-! ## a well-formed frame (what the framer needs of a well-formed message; the CheckSum VALUE is not looked at)

    "8=" v SOH "9=" digits SOH body "10=" ck SOH   with  v, ck free of SOH,  digits = decimal |body|,
    body non-empty and ending with SOH. -/

def noSOH (b : Bytes) : Bool := b.all (· ≠ 1)

/-- split at the first SOH -/
def splitSOH : Bytes → Option (Bytes × Bytes)
  | [] => none
  | x :: xs => if x = 1 then some ([], xs) else (splitSOH xs).map fun ar => (x :: ar.1, ar.2)

def wfShape (m : Bytes) : Bool :=
  match m with
  | 56 :: 61 :: r1 =>
    match splitSOH r1 with
    | some (_, 57 :: 61 :: r2) =>
      match splitSOH r2 with
      | some (ds, r3) =>
        !ds.isEmpty && ds.all isDigit &&
        (let n := digitsVal ds
         decide (0 < n) &&
         (let body := r3.take n
          let tr := r3.drop n
          body.getLast? == some 1 &&
          (match tr with
           | 49 :: 48 :: 61 :: r4 =>
             (match splitSOH r4 with
              | some (_, []) => true
              | _ => false)
           | _ => false)))
      | none => false
    | _ => false
  | _ => false

/-- the length bound only says that the frame's offsets fit Go's `int` -/
def wfFrame (m : Bytes) : Bool := decide (m.length < 9223372036854775807) && wfShape m

/-- no BeginString marker -/
def noBegin (j : Bytes) : Bool := (indexOf dBegin j).isNone

/-- junk₀ m₁ junk₁ m₂ junk₂ … : the leading separator and every message with the separator that follows it -/
structure Parts where
  j0 : Bytes
  ms : List (Bytes × Bytes)

def Parts.stream (ps : Parts) : Bytes := ps.j0 ++ (ps.ms.map fun mj => mj.1 ++ mj.2).flatten
def Parts.msgs (ps : Parts) : List Bytes := ps.ms.map (·.1)
/-- every message a well-formed frame, every separator (as a whole) free of "8=" -/
def Parts.ok (ps : Parts) : Bool := noBegin ps.j0 && ps.ms.all fun mj => wfFrame mj.1 && noBegin mj.2

/-- tokens of a `parts` op (`true` = message): consecutive junk tokens form ONE separator -/
def mkParts : List (Bool × Bytes) → Parts
  | [] => ⟨[], []⟩
  | (false, j) :: r => let p := mkParts r; { p with j0 := j ++ p.j0 }
  | (true, m) :: r => let p := mkParts r; ⟨[], (m, p.j0) :: p.ms⟩

/-! ## the monitor -/

def endClass : End → String
  | .err c => if c = "eof" then "eof" else if c = "io" then "io" else "length"
  | .fault _ => "panic"

structure MonState where
  stream : Bytes := []
  parts : Option Parts := none                   -- the decomposition claimed for the stream, once verified (`Parts.ok`)
  ref : Option (List Bytes × String) := none      -- the first reading of this stream (frames, end class)
  spec : Out := framesWhole stream                 -- what the whole-stream spec says (computed once per stream)

/-- clauses violated by one observed reading (`frames`, `end_`) of the current stream.
    `viaLoop`: observed through `readLoop`, which only logs the error.  -/
def monRead (st : MonState) (opName : String) (viaLoop : Bool) (ee : String) (frames : List Bytes) (end_ : String) : List String :=
  if end_ = "panic" ∨ end_ = "hang" then
    -- context: does the arithmetic of the ORIGINAL jumpLength (no overflow guard) explain it?
    let cause := match (framesWholeG false ee st.stream).end_ with
      | .fault _ => "bodylength-end-offset-overflows-int"
      | .err _ => "unexplained"
    ["c09_framer_" ++ end_ ++ "{cause=" ++ cause ++ "}"]
  else
    let spec := if ee = "eof" then st.spec else framesWholeE ee st.stream
    let c1 := if frames ≠ spec.frames then ["c12_frames_differ_from_whole_stream_spec{op=" ++ opName ++ "}"]
              else if ¬ viaLoop ∧ end_ ≠ endClass spec.end_ then ["c12_end_differs_from_whole_stream_spec{op=" ++ opName ++ "}"]
              else []
    let c2 := match st.ref with
      | some (f0, e0) =>
        if frames ≠ f0 then ["c12_chunk_dependent{what=frames,op=" ++ opName ++ "}"]
        -- the whole reading ended with io.EOF; a reader that ends with `ee` must end the same way, `ee` in place of EOF
        else if ¬ viaLoop ∧ end_ ≠ (if e0 = "eof" then ee else e0) then ["c12_chunk_dependent{what=end,op=" ++ opName ++ "}"]
        else []
      | none => []
    let c3 := match st.parts with
      | some ps => if frames ≠ ps.msgs then ["c12_not_exactly_the_messages{op=" ++ opName ++ "}"] else []
      | none => []
    c1 ++ c2 ++ c3

end Qfx.Spec
