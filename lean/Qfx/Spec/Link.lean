/-
  Qfx.Spec.Link — C05 monitor: what each side's application received is, at every moment, a PREFIX of what the other
  side's application successfully submitted (in order, exactly once, nothing that was not sent); once the link has
  settled (marker `settled`) the two lists are equal.
-/
import Qfx.Model.Link
namespace Qfx.Link

def isPrefix : List String → List String → Bool
  | [], _ => true
  | _ :: _, [] => false
  | x :: xs, y :: ys => x == y && isPrefix xs ys

/-- safety clause on the four ghost lists -/
def safe (sentA sentB dlvA dlvB : List String) : Bool := isPrefix dlvB sentA && isPrefix dlvA sentB

def classify (dlv sent : List String) : String :=
  if isPrefix dlv sent then "ok"
  else if dlv.any (fun p => !sent.contains p) then "not-sent"
  else if dlv.eraseDups.length != dlv.length then "duplicate"
  else "order-or-gap"

def monLink (settled : Bool) (sentA sentB dlvA dlvB : List String) : List String :=
  (if isPrefix dlvB sentA then [] else ["C05.delivery_not_prefix{to=B,kind=" ++ classify dlvB sentA ++ "}"])
  ++ (if isPrefix dlvA sentB then [] else ["C05.delivery_not_prefix{to=A,kind=" ++ classify dlvA sentB ++ "}"])
  ++ (if settled && isPrefix dlvB sentA && dlvB.length != sentA.length then ["C05.not_all_delivered_after_settle{to=B}"] else [])
  ++ (if settled && isPrefix dlvA sentB && dlvA.length != sentB.length then ["C05.not_all_delivered_after_settle{to=A}"] else [])

end Qfx.Link
