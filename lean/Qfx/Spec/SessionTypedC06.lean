/-
  Qfx.Spec.SessionTypedC06 — the predicates the C06 theorems are about: the session-level gate as facts about
  the fields of an inbound message (no reference to the model's check functions).
-/
import Qfx.Spec.SessionTyped
namespace Qfx.Sess
open Qfx

/-- BeginString (8) is present and equals the session's -/
def BeginOK (cfg : Cfg) (m : InMsg) : Prop := m.f.get? 8 = some (bsName cfg.bs)

/-- SenderCompID (49) / TargetCompID (56) are present, non-empty and mirror the session identity -/
def CompOK (cfg : Cfg) (m : InMsg) : Prop :=
  m.f.get? 49 = some cfg.target ∧ m.f.get? 56 = some cfg.sender ∧ cfg.target.isEmpty = false ∧ cfg.sender.isEmpty = false

/-- SendingTime (52) is a timestamp strictly within ±120 s of the clock -/
def TimeOK (m : InMsg) : Prop := ∃ d, getTime m 52 = .val d ∧ -120 < d ∧ d < 120

/-- no field with an empty value (what the default validator with its default settings insists on, besides field order) -/
def NoEmpty (m : InMsg) : Prop := ∀ p ∈ m.f, p.2.isEmpty = false

/-- message validation: the configured validator (`cfg.validator`: the five settings and the data dictionaries, if any;
    `Qfx.Validate`, the validator model of C15, run on the parsed message) has no objection -/
def Valid (cfg : Cfg) (m : InMsg) : Prop := validate cfg m = none

/-- the part of the gate that is a function of the configuration and the message only -/
structure GateMsg (cfg : Cfg) (m : InMsg) : Prop where
  begin : BeginOK cfg m
  comp : CompOK cfg m
  valid : Valid cfg m

/-- the SendingTime clause: checked unless disabled or a replay is in progress -/
def TimeGate (s : Sess) (m : InMsg) : Prop := s.cfg.skipLatency = true ∨ (curResend s).isSome = true ∨ TimeOK m

/-- the callback observation for `m` (FromAdmin for administrative kinds, FromApp otherwise) -/
def cbObs (s : Sess) (m : InMsg) : Obs :=
  if isAdminKind (kindOf m) then .fromAdmin (kindOf m) (seqText m) else .fromApp (seqText m) s.store.target

/-- observations that are application / administrative callbacks or the logon notification -/
def isCb : Obs → Bool
  | .fromApp .. | .fromAdmin .. | .onLogon => true
  | _ => false

/-- C06 gate monitor over typed observations, relative to a pool `P` of inbound messages (those that were ever handed to
    the session): every callback / logon notification is about some message of the pool that passes the message-level
    gate.  FromAdmin for a Logon happens before the session-level checks (only validation is guaranteed). -/
def gateObs (cfg : Cfg) (P : InMsg → Prop) : Obs → Prop
  | .fromApp seq _ => ∃ m, P m ∧ seqText m = seq ∧ isAdminKind (kindOf m) = false ∧ GateMsg cfg m
  | .fromAdmin k seq => ∃ m, P m ∧ seqText m = seq ∧ kindOf m = k ∧ Valid cfg m ∧ (k ≠ "A" → GateMsg cfg m)
  | .onLogon => ∃ m, P m ∧ kindOf m = "A" ∧ GateMsg cfg m ∧ callbackVerdict m = none
  | _ => True

/-- the inbound messages of a history -/
def msgsOf : List Ev → List InMsg
  | [] => []
  | .incomingMsg (some m) :: es => m :: msgsOf es
  | .arrive m :: es => m :: msgsOf es
  | _ :: es => msgsOf es

end Qfx.Sess
