/-
  Qfx.Spec.SessionTypedC08 — the C08 trace-shape automaton over the model's typed observations (mirror of `c08Item` /
  `C08St` in Spec/Session.lean).  A trace is the sequence of observations of a history with a marker `connected`
  in front of the observations of every successful `Ev.connect` (that is where a connection starts).
-/
import Qfx.Model.Session
namespace Qfx.Sess
open Qfx

inductive Obs8
  | connected
  | obs (o : Obs)
  deriving Repr, Inhabited, DecidableEq

/-- a first-time application message: not an administrative kind, not an engine-generated business reject,
    not a replay (PossDupFlag = Y) -/
def appFirst (m : OutMsg) : Bool := !isAdminKind m.kind && m.kind != "j" && m.f.get? 43 != some "Y"

structure G8 where
  /-- a connection is open -/
  conn : Bool := false
  /-- nothing has been written on it yet -/
  fresh : Bool := true
  /-- a Logout has been written on it -/
  sentLogout : Bool := false
  /-- the logon notification has been given on it -/
  handshake : Bool := false
  /-- between the logon notification and the logout notification -/
  cb : Bool := false
  /-- the logout notification has been given on it -/
  notified : Bool := false
  ok : Bool := true
  deriving Repr, DecidableEq, Inhabited

/-- the clauses:
    * `wire`: only on an open connection; the first one of a connection is a Logon or a Logout; a first-time application
      message only after the logon notification of this connection and not after a Logout was written on it;
    * `fromApp`: only between the logon notification and the logout notification;
    * `onLogout`: at most one per connection;
    * `closed`: only with the notification flag down (the logged-on period has been ended by its logout notification);
    * `connected`: only with no connection open and the notification flag down. -/
def c8Step (g : G8) : Obs8 → G8
  | .connected =>
    { conn := true, fresh := true, sentLogout := false, handshake := false, cb := g.cb, notified := false,
      ok := g.ok && !g.conn && !g.cb }
  | .obs (.wire m) =>
    { g with fresh := false, sentLogout := g.sentLogout || m.kind == "5",
             ok := g.ok && g.conn && (!g.fresh || m.kind == "A" || m.kind == "5")
                   && (!appFirst m || (g.handshake && !g.sentLogout)) }
  | .obs .onLogon => { g with cb := true, handshake := true }
  | .obs .onLogout => { g with cb := false, notified := true, ok := g.ok && !g.notified }
  | .obs (.fromApp _ _) => { g with ok := g.ok && g.cb }
  | .obs .closed => { g with conn := false, ok := g.ok && !g.cb }
  | .obs _ => g

def G8.init : G8 := {}

/-- the C08 verdict on a whole trace -/
def c08Accepts (trace : List Obs8) : Bool := (trace.foldl c8Step G8.init).ok

/-- the observations of one event, with the connection marker -/
def obs8Of (e : Ev) (r : Sess × List Obs × String) : List Obs8 :=
  (match e with
   | .connect => if r.2.2 == "ok" then [Obs8.connected] else []
   | _ => []) ++ r.2.1.map Obs8.obs

/-- the marked trace of a history -/
def traceOf8 (s : Sess) : List Ev → List Obs8
  | [] => []
  | e :: es => obs8Of e (step s e) ++ traceOf8 (step s e).1 es

/-- the application hands the session application messages (what `SendToTarget` is for; the correspondence drives
    kind "D" only) -/
def appSend : Ev → Bool
  | .send m => !isAdminKind m.kind
  | _ => true

end Qfx.Sess
