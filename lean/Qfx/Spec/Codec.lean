/-
  Qfx.Spec.Codec — what C10 / C11 / C13 demand, written independently of the model's FieldMap / parser:

  * an independent tag=value scanner (`scanFields`: split on SOH, then at the first `=`; a field that follows
    `212=<n>` is `tag=` + n bytes + SOH) and the well-formedness predicates on its output;
  * the abstract message (`Abs`): per section a finite map tag ↦ latest value, updated by the API operations in the
    obvious way (set overwrites, remove deletes, clear empties, copy is the identity);
  * the canonical flattening of a repeating-group instance under its template;
  * the ideal dictionary-guided grouping of wire fields (recursive descent over the dictionary tree);
  * the monitors: one observed implementation operation ↦ list of violated clause signatures.
-/
import Qfx.Model.Message
namespace Qfx.Spec
open Qfx

/-! ## scanner -/

structure WField where
  tagText : Bytes
  val : Bytes
  raw : Bytes
  deriving Repr, DecidableEq, Inhabited

/-- value of a string of 1–9 digits, else 0 -/
def smallNat (b : Bytes) : Nat :=
  if b.isEmpty || b.length > 9 || !b.all isDigit then 0 else digitsVal b

/-- numeric tag: optional '-', then 1–18 digits -/
def tagNum (b : Bytes) : Option Int :=
  match b with
  | 45 :: ds => if ds.isEmpty || ds.length > 18 || !ds.all isDigit then none else some (-(digitsVal ds : Int))
  | ds => if ds.isEmpty || ds.length > 18 || !ds.all isDigit then none else some (digitsVal ds : Int)

def scanLoop : Nat → Bytes → Nat → Option (List WField)
  | 0, _, _ => none
  | _ + 1, [], _ => some []
  | fuel + 1, b, xml =>
    let endIdx : Option Nat :=
      if xml > 0 then
        (match indexByte b cEq with
         | some eq => if eq + 1 + xml < b.length ∧ b[eq + 1 + xml]? = some SOH then some (eq + 1 + xml) else none
         | none => none)
      else indexByte b SOH
    match endIdx with
    | none => none
    | some e =>
      let raw := b.take (e + 1)
      match indexByte raw cEq with
      | none => none
      | some 0 => none
      | some eq =>
        let f : WField := { tagText := raw.take eq, val := (raw.take e).drop (eq + 1), raw := raw }
        (scanLoop fuel (b.drop (e + 1)) (if f.tagText = [50, 49, 50] then smallNat f.val else 0)).map (f :: ·)

def scanFields (b : Bytes) : Option (List WField) := scanLoop (b.length + 1) b 0

def rawLen (fs : List WField) : Nat := (fs.map (·.raw.length)).sum
def rawSum (fs : List WField) : Nat := (fs.map (·.raw.sum)).sum

def t8 : Bytes := [56]
def t9 : Bytes := [57]
def t35 : Bytes := [51, 53]
def t10 : Bytes := [49, 48]

/-- 8, 9, 35 first; a single 10, last; no further 8 / 9; BodyLength = bytes between the 9 field and the 10 field;
    CheckSum = byte sum before the 10 field, mod 256, three digits -/
def wfScanned (fs : List WField) : Bool :=
  match fs with
  | f8 :: f9 :: rest =>
    (match rest.reverse with
     | f10 :: midRev =>
       let mid := midRev.reverse
       f8.tagText == t8 && f9.tagText == t9 && (mid.head?.map (·.tagText)) == some t35 && f10.tagText == t10 &&
       mid.all (fun f => f.tagText != t10 && f.tagText != t8 && f.tagText != t9) &&
       f9.val == fmtNat (rawLen mid) &&
       f10.val == digitsW 3 ((rawSum (f8 :: f9 :: mid)) % 256)
     | [] => false)
  | _ => false

def wireWF (b : Bytes) : Bool :=
  match scanFields b with
  | some fs => wfScanned fs
  | none => false

/-! ## abstract message -/

inductive AVal where
  | plain (v : Bytes)
  | cooked                       -- BodyLength / CheckSum as set by build: the value is what the length / checksum clauses say
  | grp (tmpl : List Item) (entries : List (List GFld))
  deriving Repr, Inhabited

structure Abs where
  h : List (Tag × AVal)
  b : List (Tag × AVal)
  t : List (Tag × AVal)
  deriving Repr, Inhabited

def Abs.empty : Abs := { h := [], b := [], t := [] }

def Abs.sec (a : Abs) : Sec → List (Tag × AVal)
  | .h => a.h | .b => a.b | .t => a.t

def Abs.withSec (a : Abs) (s : Sec) (l : List (Tag × AVal)) : Abs :=
  match s with
  | .h => { a with h := l } | .b => { a with b := l } | .t => { a with t := l }

def Abs.set (a : Abs) (s : Sec) (t : Tag) (v : AVal) : Abs := a.withSec s (alInsert (a.sec s) t v)
def Abs.remove (a : Abs) (s : Sec) (t : Tag) : Abs := a.withSec s (alErase (a.sec s) t)
def Abs.clear (a : Abs) (s : Sec) : Abs := a.withSec s []
/-- `build` cooks BodyLength and CheckSum -/
def Abs.cook (a : Abs) : Abs := (a.set .h 9 .cooked).set .t 10 .cooked

/-! ## canonical flattening of a group instance -/

def lastFld : List GFld → Tag → Option GFld
  | [], _ => none
  | f :: r, t =>
    match lastFld r t with
    | some x => some x
    | none => (match f with
               | .fld t' _ => if t' = t then some f else none
               | .grp t' _ _ => if t' = t then some f else none)

def _root_.Qfx.GFld.tag : GFld → Tag
  | .fld t _ => t
  | .grp t _ _ => t

mutual
  /-- fields of one entry in template order, each tag once with its latest value -/
  def flatEntry (e : List GFld) : List Item → List GFld → List (Tag × Bytes)
    | [], _ => []
    | it :: r, all =>
      (match lastFldIn e it.tag with
       | some x => x
       | none => []) ++ flatEntry e r all
  /-- the latest setter call for `t` in `e`, flattened -/
  def lastFldIn : List GFld → Tag → Option (List (Tag × Bytes))
    | [], _ => none
    | f :: r, t =>
      match lastFldIn r t with
      | some x => some x
      | none =>
        (match f with
         | .fld t' v => if t' = t then some [(t', v)] else none
         | .grp t' tm es => if t' = t then some ((t', fmtNat es.length) :: flatEntries tm es) else none)
  def flatEntries (tmpl : List Item) : List (List GFld) → List (Tag × Bytes)
    | [] => []
    | e :: es => flatEntry e tmpl e ++ flatEntries tmpl es
end

def flatVal (t : Tag) : AVal → List (Tag × Option Bytes)
  | .plain v => [(t, some v)]
  | .cooked => [(t, none)]
  | .grp tm es => ((t, fmtNat es.length) :: flatEntries tm es).map (fun p => (p.1, some p.2))

def flatSec (l : List (Tag × AVal)) : List (Tag × Option Bytes) := l.flatMap (fun p => flatVal p.1 p.2)

/-- every field the message holds (value `none` = cooked) -/
def Abs.flat (a : Abs) : List (Tag × Option Bytes) := flatSec a.h ++ flatSec a.b ++ flatSec a.t

/-! ### preconditions under which a group must read back (C13) -/

mutual
  def allTmplTags : List Item → List Tag
    | [] => []
    | .elem t :: r => t :: allTmplTags r
    | .group t tm :: r => t :: (allTmplTags tm ++ allTmplTags r)
end

mutual
  /-- every entry carries the delimiter, uses template tags only, nested instances use the template's nested template -/
  def entryOK (tmpl : List Item) : List GFld → Bool
    | [] => true
    | .fld t _ :: r => (match findItem tmpl t with | some (.elem _) => true | _ => false) && entryOK tmpl r
    | .grp t tm es :: r =>
      (match findItem tmpl t with
       | some (.group _ tm') => tmplEq tm tm'
       | _ => false) && entriesOK tm es && entryOK tmpl r
  def entriesOK (tmpl : List Item) : List (List GFld) → Bool
    | [] => true
    | e :: es =>
      (match tmpl with
       | d :: _ => (match d with | .elem _ => true | _ => false) && (e.any (fun f => f.tag = d.tag))
       | [] => false) && entryOK tmpl e && entriesOK tmpl es
  def tmplEq : List Item → List Item → Bool
    | [], [] => true
    | .elem a :: r, .elem b :: r' => a == b && tmplEq r r'
    | .group a ta :: r, .group b tb :: r' => a == b && tmplEq ta tb && tmplEq r r'
    | _, _ => false
end

def nodupTags : List Tag → Bool
  | [] => true
  | t :: r => !r.contains t && nodupTags r

/-! ### expected observation of `getgrp` -/

mutual
  def obsEntry (e : List GFld) : List Item → List String
    | [] => []
    | it :: r => (match obsLast e it.tag with | some x => x | none => []) ++ obsEntry e r
  def obsLast : List GFld → Tag → Option (List String)
    | [], _ => none
    | f :: r, t =>
      match obsLast r t with
      | some x => some x
      | none =>
        (match f with
         | .fld t' v => if t' = t then some [s!"f:{t'}:{toHex v}"] else none
         | .grp t' tm es => if t' = t then some (s!"g:{t'}:{es.length}" :: obsEntries tm es) else none)
  def obsEntries (tmpl : List Item) : List (List GFld) → List String
    | [] => []
    | e :: es => ("[" :: obsEntry e tmpl) ++ ["]"] ++ obsEntries tmpl es
end

def expectGrpObs (tmpl : List Item) (es : List (List GFld)) : List String :=
  "grp" :: toString es.length :: obsEntries tmpl es

/-! ## section of a tag, ideal grouping of wire fields -/

def secOf (d : Dicts) (t : Tag) : Sec :=
  if isHeaderField d t then .h else if isTrailerField d t then .t else .b

mutual
  /-- consume the members of a group whose member definitions are `children` (recursive descent); returns the rest -/
  def consumeGroup (d : Dicts) : Nat → List DNode → List (Tag × WField) → List (Tag × WField)
    | 0, _, fs => fs
    | _ + 1, _, [] => []
    | fuel + 1, children, (t, f) :: rest =>
      if isHeaderField d t || isTrailerField d t then (t, f) :: rest
      else
        match children.find? (fun n => n.tag = t) with
        | none => (t, f) :: rest
        | some n =>
          if n.children.isEmpty then consumeGroup d fuel children rest
          else consumeGroup d fuel children (consumeGroup d fuel n.children rest)
end

/-- top-level fields (those that must be retrievable by tag from their section): group members are dropped -/
def topLevel (d : Dicts) (msgDef : Option (List DNode)) : Nat → List (Tag × WField) → List (Tag × WField)
  | 0, _ => []
  | _ + 1, [] => []
  | fuel + 1, (t, f) :: rest =>
    (t, f) ::
      (match secOf d t, msgDef with
       | .b, some defs =>
         (match defs.find? (fun n => n.tag = t) with
          | some n => if n.children.isEmpty then topLevel d msgDef fuel rest
                      else topLevel d msgDef fuel (consumeGroup d (rest.length + 1) n.children rest)
          | none => topLevel d msgDef fuel rest)
       | _, _ => topLevel d msgDef fuel rest)

def sortInts (l : List Int) : List Int := l.mergeSort (fun a b => decide (a ≤ b))

def dedup : List Int → List Int
  | [] => []
  | x :: r => if r.contains x then dedup r else x :: dedup r

def csvOf (l : List Int) : String := if l.isEmpty then "-" else ",".intercalate (l.map toString)

/-! ## monitor state and clauses -/

structure MonSt where
  /-- the abstract message the API calls have produced (none: no claim, e.g. after mutating a parsed message) -/
  abs : Option Abs
  /-- after reparse: the message was rebuilt from the wire in this mode; `abs` still says what must be found -/
  parsedFrom : Option String
  /-- after `parse`: the wire, its mode, the dictionaries -/
  wire : Option (Bytes × String × Dicts)
  tdefs : List (String × (List Tag × List Tag))
  adefs : List (String × List (Bytes × List DNode))
  /-- the abstract message of the copy taken by `fork` (none: no fork, or no claim) -/
  side : Option Abs := none
  deriving Inhabited

def MonSt.init : MonSt := { abs := some Abs.empty, parsedFrom := none, wire := none, tdefs := [], adefs := [] }

def modeKind (mode : String) : String := (mode.splitOn ":").headD "n"

def dictsOf (tdefs : List (String × (List Tag × List Tag))) (adefs : List (String × List (Bytes × List DNode)))
    (mode : String) : Option Dicts :=
  let adict (a : String) : List (Bytes × List DNode) :=
    (adefs.filter (fun p => p.1 = a)).flatMap (·.2)
  match mode.splitOn ":" with
  | ["n"] => some Dicts.none
  | ["a", a] => some { transport := none, app := some (adict a) }
  | ["ta", t, a] =>
    (match tdefs.find? (fun p => p.1 = t) with
     | some (_, ht) => some { transport := some ht, app := some (adict a) }
     | none => none)
  | _ => none

/-- C10 clauses on the bytes of a built message -/
def monBuild (a : Abs) (bytes : Bytes) : List String :=
  match scanFields bytes with
  | none => ["unscannable"]
  | some fs =>
    let got : List (Option Int × Bytes) := fs.map (fun f => (tagNum f.tagText, f.val))
    let exp := a.cook.flat
    -- each set field exactly once with its latest value, no removed field (values of 9 / 10: see below)
    let strip (p : Option Int × Bytes) : Option Int × Option Bytes :=
      if p.1 = some 9 ∨ p.1 = some 10 then (p.1, none) else (p.1, some p.2)
    let gotS := got.map strip
    let expS : List (Option Int × Option Bytes) := exp.map (fun p => (some p.1, if p.1 = 9 ∨ p.1 = 10 then none else p.2))
    let once :=
      if gotS.isPerm expS then []
      else
        let dup := gotS.any (fun g => gotS.count g > expS.count g ∧ expS.count g > 0)
        let extra := gotS.any (fun g => expS.count g = 0)
        let missing := expS.any (fun e => gotS.count e < expS.count e)
        ["once_each{" ++ (if dup then "dup" else "") ++ (if extra then "extra" else "") ++ (if missing then "missing" else "") ++ "}"]
    let tags := got.map (·.1)
    let hasT (t : Int) := exp.any (fun p => p.1 = t)
    -- 8, 9, 35 first (those that are set; 9 always is)
    let lead : List (Option Int) := ([8, 9, 35].filter hasT).map some
    let first3 := if tags.take lead.length == lead then [] else ["first3"]
    -- header fields before body fields before trailer fields, 10 last
    let nH := (flatSec a.cook.h).length
    let nB := (flatSec a.cook.b).length
    let hT := (flatSec a.cook.h).map (fun p => some p.1)
    let bT := (flatSec a.cook.b).map (fun p => some p.1)
    let tT := (flatSec a.cook.t).map (fun p => some p.1)
    let sections :=
      if (tags.take nH).isPerm hT && ((tags.drop nH).take nB).isPerm bT && (tags.drop (nH + nB)).isPerm tT then []
      else ["sections"]
    let last10 := if tags.getLast? == some (some 10) then [] else ["checksum_last"]
    -- BodyLength = byte count between the BodyLength field and the CheckSum field; CheckSum = sum mod 256, 3 digits
    let i9 := tags.idxOf (some 9)
    let i10 := tags.idxOf (some 10)
    let between := (fs.take i10).drop (i9 + 1)
    let bl := match fs[i9]? with
              | some f => if f.val == fmtNat (rawLen between) then [] else ["bodylength"]
              | none => ["bodylength"]
    let cs := match fs[i10]? with
              | some f => if f.val == digitsW 3 (rawSum (fs.take i10) % 256) then [] else ["checksum"]
              | none => ["checksum"]
    once ++ first3 ++ sections ++ last10 ++ bl ++ cs

/-- is the abstract message one for which the built bytes must re-parse (C10 "parsing those bytes …")?
    leading fields present, tags in their proper section, values SOH-free, no XMLDataLen -/
def reparsable (d : Dicts) (a : Abs) : Bool :=
  let a := a.cook
  let fl := a.flat
  a.h.any (fun p => p.1 = 8) && a.h.any (fun p => p.1 = 35) &&
  (flatSec a.h).all (fun p => p.1 ≠ 212) &&
  fl.all (fun p => p.1 > 0 && (match p.2 with | some v => !v.contains SOH | none => true)) &&
  a.h.all (fun p => secOf d p.1 == .h) && a.t.all (fun p => secOf d p.1 == .t) &&
  -- body: the group members too must be body tags ("tags in the proper section")
  (flatSec a.b).all (fun p => secOf d p.1 == .b) &&
  -- inside header / trailer groups the members are parsed as separate fields: keep to plain values there
  a.h.all (fun p => match p.2 with | .grp _ _ => false | _ => true) &&
  a.t.all (fun p => match p.2 with | .grp _ _ => false | _ => true)

/-- may a body group of `a` be claimed to read back?  template tags distinct, entries well formed, no other body /
    trailer tag of the message inside the template (a following field with a template tag is inherently ambiguous) -/
def groupClaimable (a : Abs) (gt : Tag) (tmpl : List Item) (es : List (List GFld)) : Bool :=
  let tt := allTmplTags tmpl
  nodupTags (gt :: tt) && entriesOK tmpl es && tt.all (fun t => t > 0) &&
  (a.cook.b ++ a.cook.t ++ a.cook.h).all (fun p => p.1 = gt || !tt.contains p.1) &&
  tt.all (fun t => !Tag.isHeader t && !Tag.isTrailer t)

/-- tags carried by members of the groups of `a` (a top-level field with such a tag is shadowed when the members are
    parsed as separate fields: no claim about it) -/
def memberTags (a : Abs) : List Tag :=
  (a.h ++ a.b ++ a.t).flatMap (fun p => match p.2 with
    | .grp tm es => allTmplTags tm ++ (flatEntries tm es).map (·.1)
    | _ => [])

def hasNested : List Item → Bool
  | [] => false
  | .elem _ :: r => hasNested r
  | .group _ _ :: _ => true

def parseF (s : String) : Option (List (Int × Bytes × Nat)) :=
  (s.splitOn ",").mapM (fun e =>
    match e.splitOn ":" with
    | [t, v, n] => (match t.toInt?, fromHex v, n.toNat? with
                    | some t, some v, some n => some (t, v, n)
                    | _, _, _ => none)
    | _ => none)

mutual
  /-- does some repeating group of these definitions list CheckSum (10) among its members?  (`parseGroup` would then take the
      CheckSum field for a group member and reject the message: no acceptance claim under such a dictionary) -/
  def tenMemberNodes : List DNode → Bool
    | [] => false
    | n :: r => tenMemberNode n || tenMemberNodes r
  def tenMemberNode : DNode → Bool
    | .mk _ c => c.any (fun x => x.tag = 10) || tenMemberNodes c
end

def tenMember (d : Dicts) : Bool :=
  match d.app with
  | some msgs => msgs.any (fun p => tenMemberNodes p.2)
  | none => false

/-- C11 clauses for one `parse` of `w` -/
def monParse (d : Dicts) (mode : String) (w : Bytes) (obs : List String) : List String :=
  let k := modeKind mode
  let panic := if obs == ["panic"] then ["no_panic{op=parse}"] else []
  let isOk := obs.head? == some "ok"
  match scanFields w with
  | none => panic
  | some fs =>
    let tn := fs.map (fun f => tagNum f.tagText)
    let firstOK := tn.take 3 == [some 8, some 9, some 35]
    let order := if !firstOK && isOk then ["rejects_order"] else []
    let nums : List Int := tn.filterMap id
    let single (t : Int) := nums.count t == 1
    let shape := firstOK && tn.all Option.isSome && tn.getLast? == some (some 10) && single 8 && single 9 && single 10 && single 35
    let mid := (fs.drop 2).dropLast
    let declared : Option Int := (fs[1]?).bind (fun f => tagNum f.val)
    let lenOK := declared == some (rawLen mid : Int)
    let hasXml := nums.contains 212
    -- an XMLDataLen that starts a length-delimited extraction (a positive number; long digit strings: no claim) changes the
    -- framing of what follows; one that does not (0, negative, not a number) leaves an ordinary message, length checked as any
    let extracts := fs.any fun f => tagNum f.tagText == some 212 && (smallNat f.val > 0 || f.val.length > 9)
    let len := if shape && !extracts && !lenOK && isOk then ["rejects_length"] else []
    -- XMLData: claimed only when every field that READS 212 is spelled `212` (the scanner frames the data field by that text, the parser by the number)
    let wf := shape && lenOK && !tenMember d &&
      (!hasXml || (fs.all (fun f => tagNum f.tagText != some 212 || f.tagText == [50, 49, 50]) &&
                   fs.any (fun f => tagNum f.tagText = some 212 ∧ smallNat f.val > 0 ∧ secOf d 212 == .h)))
    -- XML: only the canonical use is claimed (212 directly followed by its 213)
    let acc := if wf && !isOk && obs != ["panic"] then [s!"accepts_wf\{dict={k}}"] else []
    let faithful :=
      if wf && isOk then
        match obs with
        | ["ok", "F", f, "B", _, "H", h, "D", b, "T", t] =>
          let pad := countByte w SOH - fs.length
          let expF : List (Int × Bytes × Nat) :=
            fs.map (fun f => ((tagNum f.tagText).getD 0, f.val, f.raw.length)) ++ List.replicate pad (0, [], 0)
          let c1 := if parseF f == some expF then [] else ["fields_faithful"]
          let msgDef := match d.app with
                        | some msgs => (fs[2]?).bind (fun f => alFindB msgs f.val)
                        | none => none
          let tl := topLevel d msgDef (fs.length + 1) ((fs.map (fun f => ((tagNum f.tagText).getD 0, f))))
          let keys (s : Sec) := csvOf (sortInts (dedup ((tl.filter (fun p => secOf d p.1 == s)).map (·.1))))
          let nested := match msgDef with
                        | some defs => defs.any (fun n => nums.contains n.tag && n.children.any (fun c => !c.children.isEmpty && nums.contains c.tag))
                        | none => false
          let c2 := if h == keys .h && b == keys .b && t == keys .t then []
                    else [s!"parsed_sections\{dict={k},nested={if nested then "y" else "n"}}"]
          c1 ++ c2
        | _ => ["fields_faithful"]
      else []
    panic ++ order ++ len ++ acc ++ faithful

/-- expected `get` on a parsed wire: last top-level occurrence of the tag in its section -/
def expectGet (d : Dicts) (w : Bytes) (s : Sec) (t : Tag) : Option (Option Bytes) :=
  if tenMember d then none else   -- a dictionary that lists CheckSum inside a group: no claim (C11_checksum_member_swallowed)
  match scanFields w with
  | none => none
  | some fs =>
    let msgDef := match d.app with
                  | some msgs => (fs[2]?).bind (fun f => alFindB msgs f.val)
                  | none => none
    let tl := topLevel d msgDef (fs.length + 1) ((fs.map (fun f => ((tagNum f.tagText).getD 0, f))))
    some (((tl.filter (fun p => p.1 = t ∧ secOf d p.1 == s)).getLast?).map (·.2.val))

end Qfx.Spec
