/-
  Qfx.Spec.Conc — the monitor of property C02 over an event trace (`Qfx.Conc.Ev`).

  The same function judges (a) every trace of the lock-level model, for ALL schedules (theorem `C02_all_schedules`),
  and (b) the event list observed on the real engine by the stress harness (driver family `conc-mon`).

  Clauses (signature = the string in `Except.error`):
    C02.consecutive          a number is handed out that is not the next unused one (gap or repeat)
    C02.sender_next          after handing out n the store's next outbound number is not n + 1
    C02.wire_order           a first-time message is written to the connection out of increasing order (per epoch)
    C02.persist_before_wire  (persistence on) a first-time write of n is not preceded by the store saving n
    C02.replay_exclusive     a first-time message is written between the replayed messages of one ResendRequest answer
    C02.replay_lock          a second replay starts while one is in progress
-/
import Qfx.Model.Conc
namespace Qfx.Conc

structure MState where
  cur       : Nat          -- the next unused outbound number (= store.sender)
  saved     : List Nat     -- numbers saved in this epoch
  lastFirst : Nat          -- the last first-time number written in this epoch (0 = none)
  rid       : Nat          -- number of replays started
  rheld     : Bool         -- a replay is in progress
  inRegion  : Bool         -- … and its first replayed message has been written
  deriving Repr, DecidableEq

def minit (n0 : Nat) : MState :=
  { cur := n0, saved := [], lastFirst := 0, rid := 0, rheld := false, inRegion := false }

def mstep (persistOn : Bool) (m : MState) : Ev → Except String MState
  | .assign n snew sv =>
      if n ≠ m.cur then .error "C02.consecutive"
      else if snew ≠ n + 1 then .error "C02.sender_next"
      else .ok { m with cur := snew, saved := if sv then m.saved ++ [n] else m.saved }
  | .reset => .ok { m with cur := 1, saved := [], lastFirst := 0 }
  | .wire n .first =>
      if ¬ (m.lastFirst < n) then .error "C02.wire_order"
      else if persistOn ∧ n ∉ m.saved then .error "C02.persist_before_wire"
      else if m.inRegion then .error "C02.replay_exclusive"
      else .ok { m with lastFirst := n }
  | .wire _ (.dup r) =>
      .ok { m with inRegion := m.inRegion || (m.rheld && r == m.rid) }
  | .lockR =>
      if m.rheld then .error "C02.replay_lock"
      else .ok { m with rid := m.rid + 1, rheld := true, inRegion := false }
  | .unlockR => .ok { m with rheld := false, inRegion := false }

def mrun (persistOn : Bool) : MState → List Ev → Except String MState
  | m, [] => .ok m
  | m, e :: es => match mstep persistOn m e with
      | .ok m' => mrun persistOn m' es
      | .error c => .error c

/-- the monitor: no clause is violated anywhere in the trace -/
def MonitorC02 (persistOn : Bool) (n0 : Nat) (tr : List Ev) : Bool :=
  match mrun persistOn (minit n0) tr with
  | .ok _ => true
  | .error _ => false

/-- the first violated clause, for the driver -/
def monitorVerdict (persistOn : Bool) (n0 : Nat) (tr : List Ev) : Option String :=
  match mrun persistOn (minit n0) tr with
  | .ok _ => none
  | .error c => some c

/-- the monitor's view of the store at the end of the trace -/
def monitorFinal (persistOn : Bool) (n0 : Nat) (tr : List Ev) : Option (Nat × List Nat) :=
  match mrun persistOn (minit n0) tr with
  | .ok m => some (m.cur, m.saved)
  | .error _ => none

end Qfx.Conc
