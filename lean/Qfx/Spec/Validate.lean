/-
  Qfx.Spec.Validate — what C15 demands of the validator's verdict, and the monitor evaluated on the real validator.

  The generator says what it did to a conforming instance (`Kind` + the tag it touched); the spec says, per kind,
    `expected k`   the SET of (reason, RefTagID) the FIX session-reject table allows for that defect
                   (a set where FIX is not specific, so that the monitor never demands more than the property), and
    `checks k s`   whether the validator settings `s` leave that check switched on (otherwise nothing is demanded).

  Readings (each can be challenged):
  * unknown MsgType: reason 11, RefTagID absent or 35.
  * member out of order inside a group entry: FIX names reason 15; a validator may equally see the entry as ended and
    report the displaced field as not defined (2), a required member as missing (1), the count as wrong (16) or the
    tag as out of order (14); any RefTagID.  Demanded only when unknown fields are not tolerated.
  * a required member missing inside a group entry is only visible to the walk, i.e. under RejectInvalidMessage.
  * user-defined tags (≥ 5000) are governed by CheckUserDefinedFields, others by AllowUnknownMessageFields.

  (the recognisers for `parse_sectioning` (D6), `transport_msgtype_enum`, `multiple_value_enum` and the `grptail` hint belonged
   to defects that are now fixed in the repo; a recurrence shows up as an ordinary clause failure)
-/
import Qfx.Model.Validate
namespace Qfx.Validate
open Qfx Qfx.Dict

inductive Kind where
  | conforming
  | unknownMsgType
  | requiredMissing (inGroup : Bool)
  | notDefinedForType
  | notInDictionary
  | emptyValue
  | badEnum
  | badFormat
  | groupCount
  | memberOrder
  | sectionOrder
  | duplicateTag
  deriving DecidableEq, Repr

def Kind.name : Kind → String
  | .conforming => "conforming"
  | .unknownMsgType => "unknown_msgtype"
  | .requiredMissing _ => "required_missing"
  | .notDefinedForType => "not_defined_for_type"
  | .notInDictionary => "not_in_dictionary"
  | .emptyValue => "empty_value"
  | .badEnum => "bad_enum"
  | .badFormat => "bad_format"
  | .groupCount => "group_count"
  | .memberOrder => "member_order"
  | .sectionOrder => "section_order"
  | .duplicateTag => "duplicate_tag"

/-- is (reason, ref) an allowed identification of defect `k` planted at tag `t`? -/
def expected (k : Kind) (t : Nat) (r : Reject) : Bool :=
  match k with
  | .conforming => false
  | .unknownMsgType => r.reason == 11 && (r.ref == none || r.ref == some 35)
  | .requiredMissing _ => r == ⟨1, some t⟩
  | .notDefinedForType => r == ⟨2, some t⟩
  | .notInDictionary => r == ⟨0, some t⟩
  | .emptyValue => r == ⟨4, some t⟩
  | .badEnum => r == ⟨5, some t⟩
  | .badFormat => r == ⟨6, some t⟩
  | .groupCount => r == ⟨16, some t⟩
  | .memberOrder => [15, 14, 16, 1, 2].contains r.reason
  | .sectionOrder => r == ⟨14, some t⟩
  | .duplicateTag => r == ⟨13, some t⟩

def undefinedTolerated (s : Settings) (t : Nat) : Bool :=
  if t < userDefinedTagMin then s.allowUnknown else !s.checkUserDefined

/-- do the settings leave the check for defect `k` (planted at tag `t`) switched on? -/
def checks (k : Kind) (t : Nat) (s : Settings) : Bool :=
  match k with
  | .conforming => false
  | .unknownMsgType => true
  | .requiredMissing inGroup => if inGroup then s.rejectInvalid else true
  | .notDefinedForType => s.rejectInvalid && !undefinedTolerated s t
  | .notInDictionary => s.rejectInvalid && !undefinedTolerated s t
  | .emptyValue => s.checkHaveValues || s.rejectInvalid
  | .badEnum => s.rejectInvalid
  | .badFormat => s.rejectInvalid
  | .groupCount => s.rejectInvalid
  | .memberOrder => s.rejectInvalid && !s.allowUnknown
  | .sectionOrder => s.checkOrder
  | .duplicateTag => s.rejectInvalid

/-- the validator's verdict as observed -/
inductive Obs where
  | accept
  | reject (r : Reject)
  | panic
  | parseError
  deriving DecidableEq, Repr

/-- the dictionary `validateFields` consults for tag `t` -/
def dictFor (app : VDict) (tr : Option VDict) (mt : Bytes) (t : Nat) : VDict :=
  match tr with
  | none => app
  | some d => if isAdminMsgType mt || isHeaderTag t || isTrailerTag t then d else app

/-- known defects of the unchanged tree, recognised by what the implementation said (not by what was planted) -/
def knownSignature (app : VDict) (tr : Option VDict) (m : PMsg) (o : Obs) : Option String :=
  -- D6 (dictionary-guided parser filing body fields inside a group) is fixed in the repo (d0a429c); its recogniser is
  -- gone with it, so a recurrence is judged like any other outcome
  let _ := (app, tr, m, o)
  none

def obsCtx : Obs → String
  | .accept => "accept"
  | .reject r => "reason" ++ toString r.reason
  | .panic => "panic"
  | .parseError => "parse-error"

/--
  The C15 monitor on one validated message.  Clauses:
    accepts{…}            a conforming instance was not accepted
    defect_<kind>{…}      a planted single defect, with its check switched on, was accepted or named otherwise
    no_panic              the validator panicked
  plus the known-defect signatures of `knownSignature`.
-/
def monValid (app : VDict) (tr : Option VDict) (s : Settings) (k : Kind) (t : Nat) (m : PMsg) (o : Obs)
    (ctx : String := "") : List String :=
  match o with
  | .panic => ["no_panic"]
  | _ =>
    match knownSignature app tr m o with
    | some sig => [sig]
    | none =>
      match k with
      | .conforming => if o == .accept then [] else ["accepts{" ++ obsCtx o ++ "}"]
      | _ =>
        if !checks k t s then []
        else
          match o with
          | .reject r => if expected k t r then [] else ["defect_" ++ k.name ++ "{" ++ obsCtx o ++ ctx ++ "}"]
          | _ => ["defect_" ++ k.name ++ "{" ++ obsCtx o ++ ctx ++ "}"]

end Qfx.Validate
