/-
  Qfx.Spec.Session — the monitors of the session properties (C01 C03 C04 C06 C07 C08 C20), as decidable
  functions over an observed trace.  A trace is a list of events; an event is the operation that was
  applied (with the inbound message's fields, if any) and the ordered observations it produced
  (wire writes, application callbacks, store mutations, timer arms, close) plus the counters / state name
  read afterwards.  The same functions are evaluated on implementation traces (driver `sess-mon`) and are
  what the theorems in Props/C01 … speak about on model traces.

  Every clause is read permissively (it never demands more than properties.jsonl states); where a clause
  judges the reaction to one inbound message it only judges *clean* messages with a single defect.
-/
import Qfx.Spec.SessionTyped
import Qfx.Spec.SessionTypedC02
import Qfx.Spec.SessionTypedC08
import Qfx.Spec.Validate
namespace Qfx.SessSpec
open Qfx Qfx.Sess

inductive Item
  | wire (kind : String) (seq : String) (f : Fields)
  | fromApp (seq : String) (t : Int)
  | fromAdmin (kind seq : String)
  | onLogon | onLogout
  | armPeer (ms : Int)
  | closed
  | store (w : List String)
  deriving Repr, Inhabited, BEq

structure After where
  status : String := "ok"
  S : Int := 1
  T : Int := 1
  st : String := "Latent"
  stash : List Int := []
  cur : Int := 0
  fin : Int := 0
  q : Nat := 0
  ib : Nat := 0
  stopped : Bool := false
  deriving Repr, Inhabited

/-- what was applied -/
inductive Op
  | cfg (c : Cfg) (s0 t0 : Int)
  | connect | msgIn (m : InMsg) | garbage | arrive (m : InMsg) | pop
  | timeout (e : TimerEv) | disc | stop | send (f : Fields) | flush | stime (w : String)
  | rtime (now : Int)
  deriving Inhabited

/-- what the generator says about the validity of an inbound message (C15's vocabulary): `conforming`, or the single defect
    it planted and the tag it touched; absent = the generator makes no claim -/
abbrev Plant := Option (Qfx.Validate.Kind × Nat)

structure Event where
  op : Op
  items : List Item
  after : After
  /-- the annotation of the inbound message of an `in` / `arrive` op -/
  plant : Plant := none
  deriving Inhabited

/-! ## helpers -/

def numeric? (s : String) : Option Int :=
  match readInt (strBytes s) with | .ok i => some i | _ => none

def fget (f : Fields) (t : Nat) : Option String := Fields.get? f t

def inRecovery (st : String) : Bool := st == "Resend" || st == "Pending:Resend"
def isPending (st : String) : Bool := st == "Pending:InSession" || st == "Pending:Resend"
def stLoggedOn (st : String) : Bool := st == "InSession" || st == "Resend" || isPending st
def stConnected (st : String) : Bool := stLoggedOn st || st == "Logon" || st == "Logout"

/-- a message a conforming peer could have sent, as far as the session-level header goes -/
structure HeaderView where
  beginOK : Bool
  sndOK : Bool          -- 49 present, equal to the session's TargetCompID
  tgtOK : Bool
  timeOK : Bool         -- 52 is a timestamp within the latency window
  timePresent : Bool
  timeValid : Bool
  seq : Option Int
  seqPresent : Bool
  noEmpty : Bool
  possDup : Option Bool -- none = absent or garbled
  possDupGarbled : Bool
  verdict : Bool        -- scripted callback would reject
  validOK : Bool        -- the configured validator certainly accepts (as far as the generator's claim goes)

/-- `plant`: the generator's claim about the message (`plantOf`).  With a dictionary configured only a message claimed
    `conforming` is known to pass validation; without one (and without a claim) the absence of empty values decides, as the
    messages the generator does not annotate keep header, body and trailer fields in order. -/
def viewOf (cfg : Cfg) (m : InMsg) (plant : Plant := none) : HeaderView :=
  let t := getTime m 52
  { beginOK := fget m.f 8 == some (bsName cfg.bs)
    sndOK := fget m.f 49 == some cfg.target
    tgtOK := fget m.f 56 == some cfg.sender
    timeOK := match t with | .val d => decide (-120 < d ∧ d < 120) | _ => false
    timePresent := (fget m.f 52).isSome
    timeValid := match t with | .val _ => true | _ => false
    seq := match getInt m 34 with | .val n => some n | _ => none
    seqPresent := (fget m.f 34).isSome
    noEmpty := m.f.all (fun p => !p.2.isEmpty)
    possDup := match getBool m 43 with | .val b => some b | _ => none
    possDupGarbled := match getBool m 43 with | .garbled => true | _ => false
    verdict := (callbackVerdict m).isSome
    validOK := match plant with
      | some (k, _) => k == .conforming
      | none => cfg.validator.app.isNone }

def HeaderView.clean (v : HeaderView) : Bool :=
  v.beginOK && v.sndOK && v.tgtOK && v.timeOK && v.seq.isSome && v.noEmpty && v.validOK && !v.possDupGarbled && !v.verdict

/-- kinds whose MsgSeqNum is checked against the expected number before anything else happens (C04's reading) -/
def gatedKind (m : InMsg) : Bool :=
  let k := kindOf m
  if k == "2" || k == "5" || k == "A" then false
  else if k == "4" then fget m.f 123 == some "Y"
  else true

def wires (items : List Item) : List (String × String × Fields) :=
  items.filterMap fun i => match i with | .wire k s f => some (k, s, f) | _ => none

def wireKinds (items : List Item) : List String := (wires items).map (·.1)

/-! ## monitor state -/

structure M where
  cfg : Cfg := {}
  started : Bool := false
  prev : After := {}
  -- C01
  T : Int := 1                       -- next expected inbound number, tracked through store events
  S : Int := 1
  last : Option Int := none          -- last delivered number in this epoch
  expectInc : Bool := false
  g1 : G1 := G1.init 1                -- the typed C01 monitor of the theorems (Spec/SessionTyped.lean), run on the same items
  g2 : Qfx.Sess.C02.G2 := Qfx.Sess.C02.G2.init 1      -- the typed sequential C02 monitor (theorem C02_seq)
  g8 : Qfx.Sess.G8 := {}                               -- the typed C08 automaton (theorem C08_trace_shape)
  -- C08
  connOpen : Bool := false
  wiresOnConn : Nat := 0
  sentLogout : Bool := false
  handshake : Bool := false
  cbLoggedOn : Bool := false
  afterLogoutCb : Bool := false
  sentResetOnConn : Bool := false    -- C07: we wrote a Logon carrying 141=Y on the current connection
  lastRtime : Option Int := none     -- C07: the clock of the previous CheckResetTime call (ResetSeqTime configured)
  ourResetPending : Bool := false    -- C07: our own reset Logon is out and no Logon has been accepted since (= sentReset)
  -- C04 / C20
  fromLogonGap : Bool := false
  /-- C04 ghost: the last number of the gap a ResendRequest is outstanding for (independent of the engine's own state) -/
  gapEnd : Option Int := none
  hb : Int := 0
  inbox : List InMsg := []
  inboxP : List Plant := []          -- C06: the generator's annotations of the buffered messages (parallel to `inbox`)
  -- C03: what has been handed to the store in this epoch: seq, kind, resendable, payload id
  stored : List (Int × String × Bool × Option String) := []
  lastSendPayload : String := ""
  deriving Inhabited

def opName : Op → String
  | .cfg .. => "cfg" | .connect => "connect" | .msgIn _ => "in" | .garbage => "garbage" | .arrive _ => "arrive" | .pop => "pop"
  | .timeout _ => "timeout" | .disc => "disc" | .stop => "stop" | .send _ => "send" | .flush => "flush" | .stime _ => "stime"
  | .rtime _ => "rtime"

/-- the inbound message this event processed first, if any -/
def inboundOf (ms : M) : Op → Option InMsg
  | .msgIn m => some m
  | .pop => ms.inbox.head?
  | _ => none

/-- the annotation of the inbound message this event processed first -/
def plantOf (ms : M) (e : Event) : Plant :=
  match e.op with
  | .msgIn _ => e.plant
  | .pop => ms.inboxP.head?.join
  | _ => none

/-- an observed item as the model's typed observation (what the theorems' monitors consume) -/
def toObs : Item → Option Obs
  | .wire k sq f => some (.wire { kind := k, seq := (numeric? sq).getD 0, f := f })
  | .fromApp sq t => some (.fromApp sq t)
  | .fromAdmin k sq => some (.fromAdmin k sq)
  | .onLogon => some .onLogon
  | .onLogout => some .onLogout
  | .armPeer ms => some (.armPeer ms)
  | .closed => some .closed
  | .store ["reset"] => some .reset
  | .store ["incT"] => some .incT
  | .store ["incS"] => some .incS
  | .store ["refresh"] => some .refresh
  | .store ["setT", n] => n.toInt?.map Obs.setT
  | .store ["save", n, k, r] => n.toInt?.map fun n => Obs.saved n k (r == "y")
  | .store _ => none

/-! ## C01: in order, exactly once, at the expected number, advance by one -/

structure C01St where
  T : Int
  last : Option Int
  expectInc : Bool
  bad : List String

def c01Item (s : C01St) : Item → C01St
  | .store ["reset"] => { s with T := 1, last := none, expectInc := false }
  | .store ["incT"] => { s with T := s.T + 1, expectInc := false }
  | .store ["setT", n] =>
    match n.toInt? with
    | some n =>
      let bad := (if n < s.T then ["C01.target_moved_back{by=set}"] else []) ++ (if s.expectInc then ["C01.advance_not_by_one"] else [])
      { s with T := n, expectInc := false, bad := s.bad ++ bad }
    | none => { s with bad := s.bad ++ ["unparsed_observation"] }
  | .fromApp seq t =>
    let bad1 := if s.expectInc then ["C01.delivered_without_advance"] else []
    let (bad2, last) := match numeric? seq with
      | some n =>
        ((if n != s.T || t != s.T then ["C01.delivered_not_at_expected"] else [])
         ++ (match s.last with | some l => if n ≤ l then ["C01.not_strictly_increasing"] else [] | none => []), some n)
      | none => (["C01.delivered_without_number"], s.last)
    { s with last := last, expectInc := true, bad := s.bad ++ bad1 ++ bad2 }
  | _ => s

def c01 (ms : M) (e : Event) : List String × Int × Option Int :=
  let s := e.items.foldl c01Item { T := ms.T, last := ms.last, expectInc := false, bad := [] }
  -- the expected number is consumed only by the message that carries it: a well-formed inbound message numbered
  -- otherwise never makes the first change of the expected number an advance by one
  let firstIsInc := (e.items.filterMap fun i => match i with
    | .store ["incT"] => some true
    | .store ("setT" :: _) => some false
    | .store ["reset"] => some false
    | _ => none).head? == some true
  let badAdv := match inboundOf ms e.op with
    | some m =>
      let v := viewOf ms.cfg m (plantOf ms e)
      (match v.seq with
       | some n =>
         -- (a message the engine rejects, or answers with a Logout, is consumed with its number whatever it is; those
         -- answers take a new outbound number, replays and gap fills do not: excluded)
         let refused := e.items.any fun i => match i with
           | .store ("save" :: _) => true
           | .store ["incS"] => true
           | _ => false
         -- (buffered messages drained at a disconnect inside this event consume their own numbers: excluded)
         let buffered := match e.op with | .pop => ms.inbox.drop 1 | _ => ms.inbox
         -- (kept early messages delivered from the stash inside this event consume their own numbers: excluded)
         (if v.clean && n != ms.T && firstIsInc && !refused && buffered.isEmpty && ms.prev.stash.isEmpty then ["C01.expected_advanced_without_its_message"] else [])
         -- a message numbered BELOW the expected number (a duplicate) never consumes the expected number, whatever the engine
         -- answers (nothing, a Reject, a Logout): Logon / SequenceReset / Logout / ResendRequest are processed whatever their
         -- number (a malformed ResendRequest is rejected and consumed like any rejected message): excluded
         ++ (if v.clean && n < ms.T && firstIsInc && buffered.isEmpty && ms.prev.stash.isEmpty
                && !(["A", "4", "5", "2"].contains (kindOf m)) then ["C01.expected_advanced_by_a_duplicate"] else [])
       | none => [])
    | none => []
  let bad := s.bad ++ (if s.expectInc then ["C01.delivered_without_advance"] else [])
                   ++ (if s.T != e.after.T then ["C01.untracked_target_change"] else []) ++ badAdv
  (bad, e.after.T, s.last)

/-! ## C04: one exact ResendRequest per gap, early messages kept, nothing deliverable left behind -/

def infinity (cfg : Cfg) : Int := if cfg.bs < 2 then 999999 else 0

def expectedEnd (cfg : Cfg) (b gapEnd : Int) : Int :=
  if cfg.chunk != 0 && b + cfg.chunk - 1 < gapEnd then b + cfg.chunk - 1 else infinity cfg

/-- walk the items tracking the expected number, collect (7, 16, T at emission) of every ResendRequest written or queued -/
def rrWithT (T0 : Int) (items : List Item) : List (Option Int × Option Int × Int) :=
  (items.foldl (fun (acc : Int × List (Option Int × Option Int × Int)) i =>
    match i with
    | .store ["reset"] => (1, acc.2)
    | .store ["incT"] => (acc.1 + 1, acc.2)
    | .store ["setT", n] => ((n.toInt?).getD acc.1, acc.2)
    | .wire "2" _ f => (acc.1, acc.2 ++ [((fget f 7).bind numeric?, (fget f 16).bind numeric?, acc.1)])
    | _ => acc) (T0, [])).2

/-- drop the wire writes of messages that were already queued before the event (sendQueued writes the old queue
    first, in order) — unless the event starts by dropping the queue (Logon / Logout-on-refusal via dropAndSend) -/
def dropOldWires (q : Nat) (items : List Item) : List Item :=
  let first := (wires items).head?.map (·.1)
  if first == some "A" then items else
  (items.foldl (fun (acc : Nat × List Item) i => match i with
    | .wire .. => if acc.1 > 0 then (acc.1 - 1, acc.2) else (0, acc.2 ++ [i])
    | _ => (acc.1, acc.2 ++ [i])) (q, [])).2

def c04 (ms : M) (e : Event) : List String :=
  let cfg := ms.cfg
  let prev := ms.prev
  let rrs := rrWithT ms.T (dropOldWires prev.q e.items)
  let recBefore := inRecovery prev.st
  let inb := inboundOf ms e.op
  let pend := if isPending prev.st then "y" else "n"
  -- (a) requests
  let badReq : List String := rrs.flatMap fun (b7, e16, t) =>
    if recBefore then
      if prev.cur == 0 then ["C04.duplicate_request{state=" ++ prev.st ++ "}"]
      else if b7 != some t then ["C04.chunk_request_wrong_begin"]
      else if e16 != some (expectedEnd cfg t prev.fin) then ["C04.chunk_request_wrong_end"] else []
    else
      match inb with
      | some m =>
        (match (viewOf cfg m (plantOf ms e)).seq with
         | some n =>
           if prev.st == "InSession" || prev.st == "Pending:InSession" || prev.st == "Logon" then
             if b7 != some t || !(n > t) then ["C04.request_wrong_begin"]
             else if e16 != some (expectedEnd cfg t (n - 1)) then ["C04.request_wrong_end"] else []
           else []
         | none => [])
      | none => []
  let badCount := if rrs.length > 1 then ["C04.more_than_one_request"] else []
  -- the message that reveals the gap is AHEAD of the expected number: it is kept (or, a ResendRequest / SequenceReset, acted
  -- upon), never consumed — once our request has left, the expected number stays where the gap begins
  let badConsumed : List String :=
    if !recBefore && (prev.st == "InSession" || prev.st == "Pending:InSession") && !rrs.isEmpty then
      let afterRR := ((dropOldWires prev.q e.items).dropWhile fun i => match i with | .wire "2" _ _ => false | _ => true).drop 1
      if afterRR.any (fun i => i == .store ["incT"]) then ["C04.expected_advanced_after_gap_detected"] else []
    else []
  -- the same for the peer's own ResendRequest arriving ahead of the expected number (crossing recoveries), in every logged-on
  -- state: it is answered, the gap it reveals is (or stays) requested, and the expected number does not move
  let badConsumed := badConsumed ++ (match e.op, inb with
    | .msgIn _, some m =>
      let v := viewOf cfg m (plantOf ms e)
      (match v.seq with
       | some n =>
         -- (a malformed request is rejected and consumed like any rejected message: only well-formed ones are judged)
         if kindOf m == "2" && n > ms.T && stLoggedOn prev.st && prev.stash.isEmpty && ms.inbox.isEmpty
            && ((fget m.f 7).bind numeric?).isSome && ((fget m.f 16).bind numeric?).isSome
            && v.beginOK && v.sndOK && v.tgtOK && v.noEmpty && v.validOK && !v.possDupGarbled && !v.verdict
            && e.items.any (fun i => i == .store ["incT"]) && !(e.items.any fun i => i == .store ["reset"])
         then ["C04.expected_advanced_by_early_resend_request"] else []
       | none => [])
    | _, _ => [])
  -- (b) the early message is kept
  let badKeep : List String := match inb with
    | some m =>
      let v := viewOf cfg m (plantOf ms e)
      (match v.seq with
       | some n =>
         if v.clean && gatedKind m && n > ms.T && stLoggedOn prev.st && inRecovery e.after.st
            && (wireKinds e.items).all (fun k => k != "3" && k != "j" && k != "5")
            && !(e.after.stash.contains n)
         then ["C04.early_message_not_kept{origin=" ++ (if ms.fromLogonGap then "logon-gap" else "message-gap") ++ ",pending=" ++ pend ++ "}"]
         else []
       | none => [])
    | none => []
  -- (c) leaving recovery for normal operation: nothing that is next in sequence stays behind
  let processed (n : Int) : Bool := e.items.any fun i => match i with
    | .fromApp sq _ => numeric? sq == some n
    | .fromAdmin _ sq => numeric? sq == some n
    | _ => false
  let badLeft := if recBefore && e.after.st == "InSession" && prev.stash.contains e.after.T && !processed e.after.T
                 then ["C04.kept_message_not_delivered"] else []
  -- (d) while a gap is being recovered (a ResendRequest is out, the expected number has not passed the gap, same connection,
  -- no chunking) no further ResendRequest goes out — whatever the engine's own bookkeeping says about its state
  let badSecond := match ms.gapEnd with
    | some g => if cfg.chunk == 0 && !rrs.isEmpty && ms.T ≤ g && stLoggedOn prev.st && !recBefore then ["C04.second_request_during_recovery"] else []
    | none => []
  badReq ++ badCount ++ badConsumed ++ badKeep ++ badLeft ++ badSecond

/-! ## C06: the gate in front of the application, the mandated reactions, the shape of Rejects -/

def reversePairs : List (Nat × Nat) := [(50, 57), (57, 50), (142, 143), (143, 142), (115, 128), (128, 115), (116, 129), (129, 116)]
def reversePairs41 : List (Nat × Nat) := [(144, 145), (145, 144)]

/-- Does C15 demand that the configured validator rejects a message into which defect `k` was planted at tag `t`?
    With a dictionary this is the declarative `Qfx.Validate.checks` (which settings switch the check for `k` off); without
    one the validator is `validateFieldContent` alone: empty values and section order, under their two settings. -/
def validationDemanded (v : VCfg) (k : Qfx.Validate.Kind) (t : Nat) : Bool :=
  if v.app.isSome then Qfx.Validate.checks k t v.settings
  else match k with
    | .emptyValue => v.settings.checkHaveValues
    | .sectionOrder => v.settings.checkOrder
    | _ => false

/-- is the Reject `f` (35=3) an allowed identification of defect `k` at `t` (C15's `expected`), as far as the BeginString
    lets a Reject say it: from FIX.4.2 on 371 (RefTagID) and 373 (SessionRejectReason, left out by FIX.4.2 above 11) -/
def rejectNames (cfg : Cfg) (k : Qfx.Validate.Kind) (t : Nat) (f : Fields) : Bool :=
  if cfg.bs < 2 then true else
  let ref : Option Nat := (fget f 371).bind (·.toNat?)
  match (fget f 373).bind (·.toNat?) with
  | some r => Qfx.Validate.expected k t ⟨r, ref⟩
  | none => cfg.bs == 2 && [12, 13, 14, 15, 16, 17].any fun r => Qfx.Validate.expected k t ⟨r, ref⟩

def c06 (ms : M) (e : Event) : List String :=
  let cfg := ms.cfg
  let prev := ms.prev
  match inboundOf ms e.op with
  | none => []
  | some m =>
    if !(stLoggedOn prev.st || prev.st == "Logon") then [] else
    let loggedOn := stLoggedOn prev.st
    let v := viewOf cfg m (plantOf ms e)
    let k := kindOf m
    let mySeq := (fget m.f 34).getD "-"
    -- callbacks about THIS message: its own callback precedes everything the message itself causes (its Reject, its advance
    -- of the expected number); callbacks after the first advance of the event belong to messages drained from the stash
    -- (which may carry the very number of a message that has just been rejected and consumed)
    let own := e.items.takeWhile fun i => match i with
      | .store ["incT"] => false
      | .store ("setT" :: _) => false
      | _ => true
    let reached := own.any fun i => match i with
      | .fromApp s _ => s == mySeq && !isAdminKind k      -- (FromApp is never about an administrative message: a stash drain)
      | .fromAdmin kk s => kk != "A" && s == mySeq && kk == k
      | .onLogon => k == "A"
      | _ => false
    -- validation precedes every callback, FromAdmin of a Logon included
    let reachedV := reached || own.any fun i => match i with
      | .fromAdmin kk s => kk == "A" && k == "A" && s == mySeq
      | _ => false
    let replay := prev.st == "Resend" || (cfg.lookThroughPending && prev.st == "Pending:Resend")
    let vs := cfg.validator.settings
    let plant := plantOf ms e
    -- the validator spec (C15) evaluated on what the generator planted, under the configured settings
    let demanded : Option (Qfx.Validate.Kind × Nat) := match plant with
      | some (pk, pt) => if validationDemanded cfg.validator pk pt then some (pk, pt) else none
      | none => none
    let emptyChecked := vs.checkHaveValues || (cfg.validator.app.isSome && vs.rejectInvalid)
    let gate : List String :=
      (if !(reached && loggedOn) then [] else
        (if !v.beginOK then ["C06.gate_bypassed{check=beginstring}"] else [])
        ++ (if !(v.sndOK && v.tgtOK) then ["C06.gate_bypassed{check=compid}"] else [])
        ++ (if !(cfg.skipLatency || replay || v.timeOK) then ["C06.gate_bypassed{check=sendingtime}"] else []))
      ++ (if reachedV && ((!v.noEmpty && emptyChecked) || demanded.isSome) then ["C06.gate_bypassed{check=validation}"] else [])
    -- validation: a message that gets as far as the validator (session-level header in order, its number the expected one
    -- where the number is checked first; a SequenceReset with an unreadable GapFillFlag is refused before) …
    let headerOK := v.beginOK && v.sndOK && v.tgtOK && (cfg.skipLatency || replay || v.timeOK) && v.seq.isSome && !v.possDupGarbled
    let gf := fget m.f 123
    let atValidator := headerOK && (if gatedKind m then v.seq == some prev.T else true)
      && (k != "4" || gf == none || gf == some "Y" || gf == some "N")
    -- … and conforms, or carries a defect whose check the configured settings switch off (RejectInvalidMessage=N,
    -- AllowUnknownMsgFields=Y, ValidateUserDefinedFields=N, ValidateFieldsOutOfOrder=N, ValidateFieldsHaveValues=N; no
    -- dictionary to check against), is not rejected by validation: it reaches its callback (a Logon of a FIXT session
    -- without DefaultApplVerID is refused before)
    let acceptable : Option String := match plant with
      | none => none
      | some (pk, _) =>
        if !atValidator then none
        else if pk == .conforming then some "C06.validation_rejects_conforming"
        else if demanded.isNone then some ("C06.validation_rejects_tolerated{defect=" ++ pk.name ++ "}")
        else none
    let badAccept : List String := match acceptable with
      | none => []
      | some c => if k == "A" && cfg.bs == 5 && (fget m.f 1137).isNone then [] else if reachedV then [] else [c]
    -- (before the handshake only a Logon is looked at)
    if !loggedOn then gate ++ (if k == "A" then badAccept else []) else
    -- reactions, judged in plain InSession state for directly handed messages whose only defect is the one named
    let ws := wires (dropOldWires prev.q e.items)
    let kinds := ws.map (·.1)
    let rejReason (r : String) : Bool := match ws.head? with
      | some (_, _, f) => if cfg.bs ≥ 2 then fget f 373 == some r else true
      | none => false
    let rejTag (t : String) : Bool := match ws.head? with
      | some (kk, _, f) => kk == "3" && (if cfg.bs ≥ 2 then fget f 371 == some t else true)
      | none => false
    let tUnchanged := e.after.T == prev.T
    let others := v.noEmpty && !v.possDupGarbled
    let isRej (kk : String) : Bool := kk == "3"
    let react : List String :=
      if prev.st != "InSession" || !(match e.op with | .msgIn _ => true | _ => false) || !gatedKind m then [] else
      if !v.beginOK && v.sndOK && v.tgtOK && others then
        (if kinds == ["5"] && tUnchanged then [] else ["C06.reaction_wrong{defect=beginstring}"])
      else if v.beginOK && !(v.sndOK && v.tgtOK) && (fget m.f 49).isSome && (fget m.f 56).isSome
              && fget m.f 49 != some "" && fget m.f 56 != some "" then
        (if kinds.length == 2 && (kinds.head?.map isRej).getD false && kinds.getLast? == some "5" && rejReason "9" && tUnchanged then []
         else ["C06.reaction_wrong{defect=compid}"])
      else if v.beginOK && v.sndOK && v.tgtOK && !cfg.skipLatency && v.timeValid && !v.timeOK then
        (if kinds.length == 2 && (kinds.head?.map isRej).getD false && kinds.getLast? == some "5" && rejReason "10" && tUnchanged then []
         else ["C06.reaction_wrong{defect=sendingtime}"])
      else if v.clean then
        (match v.seq with
         | some n => if n < prev.T && v.possDup != some true then
                       (if kinds == ["5"] && tUnchanged then [] else ["C06.reaction_wrong{defect=toolow}"])
                     else []
         | none => [])
      else if v.beginOK && v.tgtOK && (fget m.f 49).isNone then
        (if kinds == ["3"] && rejTag "49" then [] else ["C06.reaction_wrong{defect=field49}"])
      else if v.beginOK && v.sndOK && (fget m.f 56).isNone then
        (if kinds == ["3"] && rejTag "56" then [] else ["C06.reaction_wrong{defect=field56}"])
      -- present but EMPTY: a plain Reject naming the field (reason 4), not the wrong-CompID treatment
      else if v.beginOK && v.tgtOK && fget m.f 49 == some "" && (m.f.filter (fun p => p.2.isEmpty)).length == 1 then
        (if kinds == ["3"] && rejTag "49" && rejReason "4" then [] else ["C06.reaction_wrong{defect=field49-empty}"])
      else if v.beginOK && v.sndOK && fget m.f 56 == some "" && (m.f.filter (fun p => p.2.isEmpty)).length == 1 then
        (if kinds == ["3"] && rejTag "56" && rejReason "4" then [] else ["C06.reaction_wrong{defect=field56-empty}"])
      else if v.beginOK && v.sndOK && v.tgtOK && !cfg.skipLatency && !v.timeValid && fget m.f 52 != some "" then
        (if kinds == ["3"] && rejTag "52" then [] else ["C06.reaction_wrong{defect=field52}"])
      else if v.beginOK && v.sndOK && v.tgtOK && (cfg.skipLatency || v.timeOK) && v.seq.isNone && fget m.f 34 != some "" then
        (if kinds == ["3"] && rejTag "34" then [] else ["C06.reaction_wrong{defect=field34}"])
      else []
    -- … and carries a defect the validator spec rejects under the configured settings is answered with a Reject naming the
    -- planted (reason, tag) where C15 fixes them, and consumes its sequence number (a Logon is answered with a Logout)
    let validation : List String :=
      match plant with
      | none => []
      | some (pk, pt) =>
        if !atValidator || demanded.isNone || k == "A" then []
        else
          (match ws.head? with
           | some ("3", _, f) =>
             (if rejectNames cfg pk pt f then [] else ["C06.validation_reject_misnamed{defect=" ++ pk.name ++ "}"])
             ++ (if e.after.T ≥ prev.T + 1 || e.items.contains (.store ["reset"]) then [] else ["C06.validation_reject_not_consumed"])
           | _ => ["C06.validation_not_rejected{defect=" ++ pk.name ++ "}"])
    -- shape of Rejects that answer this message
    -- (a replayed Reject — 43=Y — answers an older message; while a message with the same number waits in the stash a Reject
    --  quoting that number may answer the stashed one, drained within this event: not judged)
    let shape : List String := ws.flatMap fun (kk, _, f) =>
      if !(kk == "3" || kk == "j") || fget f 43 == some "Y" then [] else
      match v.seq with
      | none => []
      | some n =>
        if prev.stash.contains n then [] else
        if fget f 45 != some (toString n) then
          (if (fget f 45).isNone then ["C06.reject_without_refseq"] else [])      -- a Reject for a drained message quotes that one
        else
          let pairs := reversePairs ++ (if fget m.f 8 != some "FIX.4.0" then reversePairs41 else [])
          if pairs.all (fun (src, dst) =>
               match fget m.f src with
               | some x => if x.isEmpty then (fget f dst).isNone else fget f dst == some x
               | none => (fget f dst).isNone)
             && fget f 49 == some cfg.sender && fget f 56 == some cfg.target
          then [] else ["C06.reject_routing_not_reversed"]
    -- a Reject written before this message is counted answers THIS message: it quotes this message's own number
    -- (nothing is kept in the stash under that number, the Reject is not a replay, the queue held nothing older)
    let refSeq : List String := (wires (dropOldWires prev.q own)).flatMap fun (kk, _, f) =>
      if !(kk == "3" || kk == "j") || fget f 43 == some "Y" || !prev.stash.isEmpty || prev.q != 0 then [] else
      match v.seq, fget f 45 with
      | some n, some r => if r == toString n then [] else ["C06.reject_refseq_wrong"]
      | _, _ => []
    gate ++ react ++ badAccept ++ validation ++ shape ++ refSeq

/-! ## C07: resets only when agreed; forward-only SequenceReset; reset Logon numbering -/

/-- EnableNextExpectedMsgSeqNum (no property speaks about tag 789: the option is tied by the correspondence; this helper only
    keeps C20's tracking of the heartbeat interval exact).  Our next outbound number as the acceptor's `sendLogonInReplyTo`
    compares the peer's tag 789 with it: before the reply, after a reset the Logon causes (ResetOnLogon, an honoured ResetSeqNumFlag).  A reply carrying 141=Y resets the store once more on its way
    out (prepMessageForSend): that reset, the last one before the reply is saved, is not counted. -/
def senderAtLogon (S0 : Int) (items : List Item) : Int :=
  let pre := items.takeWhile fun i => match i with
    | .store ("save" :: _) => false
    | .store ["incS"] => false
    | .wire .. => false
    | .onLogon => false
    | _ => true
  let resets := (pre.filter fun i => i == .store ["reset"]).length
  let replyResets := match (wires items).head? with
    | some (k, _, f) => k == "A" && fget f 141 == some "Y"
    | none => false
  if resets > (if replyResets then 1 else 0) then 1 else S0

/-- tag 789 of an inbound Logon when it is a number -/
def peer789 (m : InMsg) : Option Int := (fget m.f 789).bind numeric?

def c07 (ms : M) (e : Event) : List String :=
  let cfg := ms.cfg
  let prev := ms.prev
  let resets := e.items.filter fun i => match i with | .store ["reset"] => true | _ => false
  let inb := inboundOf ms e.op
  let accepted0 := e.items.contains .onLogon
  let inKind := (inb.map kindOf).getD ""
  let drained := ms.inbox.any fun m => kindOf m == "A" || kindOf m == "5"
  let logonWithFlagIn := (inb.map fun m => kindOf m == "A" && fget m.f 141 == some "Y").getD false
                         || ms.inbox.any (fun m => kindOf m == "A" && fget m.f 141 == some "Y")
  let logonWithFlagOut := (wires e.items).any (fun (k, _, f) => k == "A" && fget f 141 == some "Y")
                          || (e.items.any fun i => match i with | .store ("save" :: _ :: "A" :: _) => true | _ => false) && cfg.bs ≥ 1
  let disconnects := (!stConnected e.after.st && stConnected prev.st) || e.items.contains .closed || e.after.status == "nottime"
  -- ResetSeqTime: the reset instant of the day lies in (previous check, this check] and there is a connection
  let rtCrossed : Bool := match e.op, cfg.resetSeqTime, ms.lastRtime with
    | .rtime now, some rs, some last => stConnected prev.st && crossedReset rs last now
    | _, _, _ => false
  let isRtime : Bool := match e.op with | .rtime _ => true | _ => false
  let justified :=
    if isRtime then rtCrossed else
    logonWithFlagIn || logonWithFlagOut
    || (cfg.resetOnLogon && ((match e.op with | .connect => true | _ => false) || inKind == "A" || drained))
    || (cfg.resetOnLogout && (inKind == "5" || drained))
    || (cfg.resetOnDisconnect && disconnects)
    || (match e.op with | .stime "new" => true | _ => false)
  let badReset := if !resets.isEmpty && !justified then ["C07.unjustified_reset{op=" ++ opName e.op ++ "}"] else []
  -- FIX.4.0 has no ResetSeqNumFlag
  let echoOfPeer := (inb.map fun m => kindOf m == "A" && fget m.f 141 == some "Y").getD false
  -- (only where `shouldSendReset` decides: the property text is silent about FIX.4.0 on the ResetSeqTime path, where
  --  CheckResetTime sends the flag whatever the BeginString — remark in Props/C07.lean)
  let bad40 := if cfg.bs == 0 && !echoOfPeer && !isRtime && (wires e.items).any (fun (k, _, f) => k == "A" && (fget f 141).isSome)
               then ["C07.reset_flag_in_fix40"] else []
  -- ResetSeqTime applies (crossing while logged on): store reset, our Logon is number 1 and carries 141=Y, and the
  -- counters are as after numbering from 1 with that Logon as outbound 1
  let badRtime : List String :=
    if !isRtime then [] else
    if rtCrossed && stLoggedOn prev.st then
      (if !resets.isEmpty && (wires e.items).any (fun (k, sq, f) => k == "A" && sq == "1" && fget f 141 == some "Y")
          && e.after.S == 2 && e.after.T == 1 then [] else ["C07.reset_time_not_applied"])
    else if !rtCrossed then
      -- no crossing / no connection / first call / not configured: nothing is sent, the store is not touched
      (if (wires e.items).isEmpty && !(e.items.any fun i => match i with | .store _ => true | _ => false)
          && e.after.S == prev.S && e.after.T == prev.T then [] else ["C07.reset_time_spurious"])
    else []
  -- the echo of our own reset Logon must not reset again (anchor `sentReset`)
  let badEchoReset := match inb with
    | some m =>
      if kindOf m == "A" && fget m.f 141 == some "Y" && ms.ourResetPending && accepted0 && (viewOf cfg m (plantOf ms e)).clean && !resets.isEmpty
         && !(cfg.resetOnLogon && !cfg.initiator) && stLoggedOn prev.st      -- (before the handshake a Logon is a request)
      then ["C07.echo_of_own_reset_resets_again{role=" ++ (if cfg.initiator then "initiator" else "acceptor") ++ "}"] else []
    | none => []
  -- the reply to an accepted reset Logon is number 1 and echoes the flag
  let accepted := e.items.contains .onLogon
  let badEcho := match inb with
    | some m =>
      -- (not when the Logon is the peer's answer to our own reset Logon in an established session: nothing is replied then)
      if kindOf m == "A" && fget m.f 141 == some "Y" && accepted && !cfg.initiator && (viewOf cfg m (plantOf ms e)).clean
         && !(ms.ourResetPending && stLoggedOn prev.st) then
        (match (wires e.items).find? (fun w => w.1 == "A") with
         | some (_, s, f) => if s == "1" && fget f 141 == some "Y" then [] else ["C07.reset_logon_reply_wrong"]
         | none => ["C07.reset_logon_reply_wrong"])
      else []
    | none => []
  -- a received reset Logon that is not the echo of ours resets both counters
  let badHonour := match inb with
    | some m =>
      if kindOf m == "A" && fget m.f 141 == some "Y" && accepted && (viewOf cfg m (plantOf ms e)).clean && !ms.sentResetOnConn
         && !(wires e.items).any (fun w => w.1 == "A" && fget w.2.2 141 == some "Y" && cfg.initiator) then
        (if resets.isEmpty then ["C07.reset_logon_not_honoured"] else [])
      else []
    | none => []
  -- SequenceReset can only move forward
  let badBack := e.items.flatMap fun i => match i with
    | .store ["setT", _] => []
    | _ => []
  let badSeqReset := match e.op, inb with
    | .msgIn _, some m =>
      let v := viewOf cfg m (plantOf ms e)
      if kindOf m == "4" && v.beginOK && v.sndOK && v.tgtOK && (cfg.skipLatency || v.timeOK || inRecovery prev.st) && v.noEmpty && v.validOK && !v.verdict
         && prev.st == "InSession" && fget m.f 123 != some "Y" && (fget m.f 123 == none || fget m.f 123 == some "N") then
        (match (fget m.f 36).bind numeric? with
         | some n =>
           if n < prev.T then
             (if e.after.T == prev.T && (wires e.items).any (fun (k, _, f) => k == "3" && (cfg.bs < 2 || fget f 373 == some "5")) then []
              else ["C07.lower_newseqno_not_rejected"])
           else if e.after.T != n then ["C07.seqreset_not_applied"] else []
         | none => [])
      else []
    | _, _ => []
  let badS := if (e.items.foldl (fun (s : Int) i => match i with
      | .store ["reset"] => 1
      | .store ("save" :: _) => s + 1
      | .store ["incS"] => s + 1
      | _ => s) ms.S) != e.after.S then ["C07.untracked_sender_change"] else []
  -- ResetOnLogout / ResetOnDisconnect return both counters to 1 exactly at logout / disconnect, whatever they were
  let badLogoutReset := match e.op, inb with
    | .msgIn _, some m =>
      if cfg.resetOnLogout && kindOf m == "5" && (viewOf cfg m (plantOf ms e)).clean && (stLoggedOn prev.st || prev.st == "Logout")
         && (resets.isEmpty || e.after.S != 1 || e.after.T != 1) then ["C07.reset_on_logout_missing"] else []
    | _, _ => []
  let badDiscReset :=
    if cfg.resetOnDisconnect && stConnected prev.st && !stConnected e.after.st
       && (resets.isEmpty || e.after.S != 1 || e.after.T != 1) then ["C07.reset_on_disconnect_missing"] else []
  -- a reset a received Logon asks for (its ResetSeqNumFlag, or ResetOnLogon) is agreed to only once the Logon got past the
  -- validator and the application (FromAdmin): the store is not touched before that — a refused Logon leaves the history alone
  let earlyReset := match e.op, inb with
    | .msgIn _, some m =>
      if kindOf m == "A" && !(cfg.resetOnDisconnect && disconnects) then   -- (a disconnect-time reset is not this Logon's)
        let pre := e.items.takeWhile fun i => i != .store ["reset"]
        if pre.length < e.items.length
           && !(pre.any fun i => match i with | .fromAdmin "A" _ => true | .wire .. => true | .closed => true | .onLogout => true | _ => false)
        then ["C07.reset_before_logon_verified"] else []
      else []
    | _, _ => []
  badReset ++ bad40 ++ badRtime ++ badEchoReset ++ badEcho ++ badHonour ++ badBack ++ badSeqReset ++ badS ++ badLogoutReset ++ badDiscReset
  ++ earlyReset

/-! ## C08: the shape of a connection -/

structure C08St where
  connOpen : Bool
  wiresOnConn : Nat
  sentLogout : Bool
  handshake : Bool
  cbLoggedOn : Bool
  afterLogoutCb : Bool
  bad : List String

def c08Item (s : C08St) : Item → C08St
  | .wire k _ f =>
    let isApp := !isAdminKind k && k != "j"      -- engine-generated business rejects are not the application's traffic
    let first := fget f 43 != some "Y"
    let bad :=
      (if !s.connOpen then ["C08.write_without_connection"] else [])
      ++ (if s.wiresOnConn == 0 && k != "A" && k != "5" then ["C08.first_message_not_logon_or_logout"] else [])
      ++ (if isApp && first && !s.handshake then ["C08.app_before_logon_completed"] else [])
      ++ (if isApp && first && s.sentLogout then ["C08.app_after_logout_sent"] else [])
    { s with wiresOnConn := s.wiresOnConn + 1, sentLogout := s.sentLogout || k == "5", bad := s.bad ++ bad }
  | .onLogon => { s with cbLoggedOn := true, handshake := true, afterLogoutCb := false }
  | .onLogout => { s with cbLoggedOn := false, afterLogoutCb := true }
  | .fromApp _ _ =>
    if s.cbLoggedOn then s
    else { s with bad := s.bad ++ ["C08.delivery_outside_logon{" ++ (if s.afterLogoutCb then "after=onLogout" else "before=onLogon") ++ "}"] }
  | .closed =>
    { s with connOpen := false, bad := s.bad ++ (if s.cbLoggedOn then ["C08.connection_closed_without_logout_notification"] else []) }
  | _ => s

def c08 (ms : M) (e : Event) : C08St :=
  let s0 : C08St := { connOpen := ms.connOpen, wiresOnConn := ms.wiresOnConn, sentLogout := ms.sentLogout, handshake := ms.handshake,
                      cbLoggedOn := ms.cbLoggedOn, afterLogoutCb := ms.afterLogoutCb, bad := [] }
  let s0 := match e.op with
    | .connect => if e.after.status == "ok" then { s0 with connOpen := true, wiresOnConn := 0, sentLogout := false, handshake := false } else s0
    | _ => s0
  let s := e.items.foldl c08Item s0
  if !stConnected e.after.st && s.cbLoggedOn then { s with bad := s.bad ++ ["C08.logged_on_period_without_logout_notification"], cbLoggedOn := false } else s

/-! ## C20: keep-alive -/

def c20 (ms : M) (e : Event) (hbAfter : Int) : List String :=
  let cfg := ms.cfg
  let prev := ms.prev
  let kinds := wireKinds (dropOldWires prev.q e.items)
  let count (k : String) := (kinds.filter (· == k)).length
  let armed (ms' : Int) := e.items.contains (.armPeer ms')
  match e.op with
  | .timeout .needHeartbeat =>
    -- our own silence running out says nothing about the peer: the silence measured for the TestRequest / the dead-peer
    -- disconnect must not start over (re-arming the peer timer here postpones the disconnect of a dead peer)
    (if e.items.any (fun i => match i with | .armPeer _ => true | _ => false) then ["C20.peer_timer_rearmed_without_receive"] else [])
    ++
    (if prev.st == "InSession" || prev.st == "Resend" then (if count "0" == 1 then [] else ["C20.heartbeat_not_sent"])
    else if isPending prev.st then (if count "0" == 0 then [] else ["C20.heartbeat_while_test_request_pending"])
    else [])
  | .timeout .peerTimeout =>
    if prev.st == "InSession" || prev.st == "Resend" then
      (if count "1" == 1 then [] else ["C20.test_request_not_sent"])
      ++ (if armed (1200 * ms.hb) then [] else ["C20.peer_timer_not_rearmed"])
      ++ (if e.after.st == "Pending:" ++ prev.st then [] else ["C20.not_pending_after_test_request"])
    else if isPending prev.st then
      (if e.items.contains .onLogout && e.after.st == "Latent" then [] else ["C20.dead_peer_not_disconnected"])
      ++ (if count "1" == 0 then [] else ["C20.second_test_request"])
    else []
  | .garbage =>
    -- a framed message that does not parse is still something RECEIVED: the silence measured by the peer timer starts over
    if stConnected prev.st && e.after.status == "ok" && stConnected e.after.st then
      (if armed (1200 * ms.hb) then [] else ["C20.peer_timer_not_rearmed_on_receive{unparsable}"]) else []
  | op =>
    match inboundOf ms op with
    | none => []
    | some m =>
      let v := viewOf cfg m (plantOf ms e)
      let arm := if stConnected prev.st && e.after.status == "ok" then
                   (if armed (1200 * hbAfter) then [] else ["C20.peer_timer_not_rearmed_on_receive"]) else []
      let cancel := if isPending prev.st && isPending e.after.st then ["C20.pending_not_cancelled_by_inbound"] else []
      let disturbed :=
        if prev.st == "Pending:Resend" && v.clean && gatedKind m then
          (if (wireKinds e.items).contains "2" && prev.cur == 0 then ["C20.recovery_disturbed{by=duplicate-request}"] else [])
          ++ (if e.after.st == "Resend" && !(prev.stash.all fun k => e.after.stash.contains k || k < e.after.T) then ["C20.recovery_disturbed{by=stash-lost}"] else [])
        else []
      let echo :=
        if kindOf m == "1" && v.clean && stLoggedOn prev.st && v.seq == some ms.T && (match e.op with | .msgIn _ => true | _ => false) then
          (match fget m.f 112 with
           | some id =>
             let echoes := ((wires e.items).filter fun (k, _, f) => k == "0" && fget f 112 == some id).length
             let testReqs := (e.items.filter fun i => match i with | .fromAdmin "1" _ => true | _ => false).length
             if 1 ≤ echoes && echoes ≤ testReqs && e.after.T ≥ ms.T + 1 then []
             else ["C20.test_request_not_echoed"]
           | none => [])
        else []
      -- a TestRequest that arrives AHEAD of the expected number is kept for later, not answered now: its answer is due when
      -- it is processed in sequence (once), so no Heartbeat carrying its id may leave in this event
      let early :=
        if kindOf m == "1" && v.clean && stLoggedOn prev.st && (match e.op with | .msgIn _ => true | _ => false) then
          (match v.seq, fget m.f 112 with
           | some sq, some id =>
             if sq > ms.T && ((wires e.items).any fun (k, _, f) => k == "0" && fget f 112 == some id)
             then ["C20.test_request_answered_out_of_sequence"] else []
           | _, _ => [])
        else []
      arm ++ cancel ++ disturbed ++ echo ++ early

/-! ## C03: the reply to a ResendRequest -/

structure Walk where
  cursor : Int
  bad : List String

def c03 (ms : M) (e : Event) : List String :=
  let cfg := ms.cfg
  let prev := ms.prev
  match e.op, inboundOf ms e.op with
  | .msgIn _, some m =>
    let v := viewOf cfg m (plantOf ms e)
    if kindOf m != "2" || !stLoggedOn prev.st || !(v.beginOK && v.sndOK && v.tgtOK && v.noEmpty && v.validOK && !v.verdict)
       || !(cfg.skipLatency || v.timeOK || prev.st == "Resend") then [] else
    match (fget m.f 7).bind numeric?, (fget m.f 16).bind numeric? with
    | some b, some e16 =>
      if b < 1 then [] else        -- numbers below 1 do not exist; the property's ranges start at 1
      let last := ms.S - 1
      let eff := if (cfg.bs ≥ 2 && e16 == 0) || (cfg.bs ≤ 2 && e16 == 999999) || e16 > last then last else e16
      let reply := (wires e.items).filter fun (_, _, f) => fget f 43 == some "Y"
      let persistTag := if cfg.persist then "on" else "off"
      if b > eff then
        (if reply.isEmpty then [] else ["C03.reply_outside_range{range=empty-or-inverted,persist=" ++ persistTag ++ "}"])
      else
        let resendableAt (n : Int) : Option (String × Option String) :=       -- kind, payload of a stored, resendable application message
          match ms.stored.find? (fun x => x.1 == n) with
          | some (_, k, r, p) => if !isAdminKind k && r then some (k, p) else none
          | none => none
        let w := reply.foldl (fun (w : Walk) (k, s, f) =>
          match numeric? s with
          | none => { w with bad := w.bad ++ ["C03.reply_without_number"] }
          | some n =>
            let b0 := if n != w.cursor then ["C03.not_contiguous"] else []
            if k == "4" then
              (match (fget f 36).bind numeric? with
               | some nx =>
                 let b1 := if fget f 123 != some "Y" then ["C03.gap_not_marked_gapfill"] else []
                 let b2 := if nx ≤ n then ["C03.gapfill_not_forward"] else []
                 let b3 := if cfg.persist && ((List.range (nx - n).toNat).any fun (i : Nat) => (resendableAt (n + Int.ofNat i)).isSome)
                           then ["C03.application_message_gapfilled"] else []
                 { cursor := nx, bad := w.bad ++ b0 ++ b1 ++ b2 ++ b3 }
               | none => { w with bad := w.bad ++ ["C03.gapfill_without_newseqno"] })
            else
              let b1 := match resendableAt n with
                | some (kk, p) => if kk == k && (p.isNone || fget f 9000 == p) then [] else ["C03.replayed_message_differs"]
                | none => ["C03.replayed_message_not_stored"]
              let b2 := if (fget f 122).isNone then ["C03.replay_without_origsendingtime"] else []
              -- (the harness compares tag 122 of the replay with tag 52 of the message as it was handed to the store: "!" = differs)
              let b3 := if fget f 122 == some "!" then ["C03.origsendingtime_not_original"] else []
              { cursor := n + 1, bad := w.bad ++ b0 ++ b1 ++ b2 ++ b3 }) { cursor := b, bad := [] }
        w.bad ++ (if w.cursor != eff + 1 then ["C03.cover_ends_wrong{persist=" ++ persistTag ++ "}"] else [])
    | _, _ => []
  | _, _ => []

/-! ## the combined step -/

def storedAfter (ms : M) (e : Event) : List (Int × String × Bool × Option String) :=
  e.items.foldl (fun acc i => match i with
    | .store ["reset"] => []
    | .store ["save", n, k, r] =>
      (match n.toInt? with
       | some n => (n, k, r == "y", (match e.op with | .send _ => some ms.lastSendPayload | _ => none)) :: acc.filter (·.1 != n)
       | none => acc)
    | _ => acc) ms.stored

def monitorStep (ms : M) (e : Event) : M × List String :=
  match e.op with
  | .cfg c s0 t0 =>
    ({ cfg := c, started := true, prev := e.after, T := t0, S := s0, g1 := G1.init t0, g2 := Qfx.Sess.C02.G2.init s0, hb := if c.initiator || c.hbOverride then c.hb else 0 }, [])
  | _ =>
    let panic := if e.after.status == "panic" then ["C09.panic{op=" ++ opName e.op ++ "}"] else []
    if e.after.status == "panic" then (ms, panic) else
    let ms := match e.op with
      | .send f => { ms with lastSendPayload := (fget f 9000).getD "" }
      | _ => ms
    -- when the event disconnects with messages still buffered, those are processed too (through the old state);
    -- the clauses that attribute a reaction to the event's own inbound message do not judge such events
    let drained := ms.prev.ib > 0 && e.after.ib == 0 && !(match e.op with | .pop => ms.prev.ib == 1 | _ => false)
    let (b01, t', last') := c01 ms e
    -- the theorem's own predicate (C01_inorder_exactly_once) on the implementation's observations
    let g1' := (e.items.filterMap toObs).foldl g1Step ms.g1
    let b01 := b01 ++ (if ms.g1.ok && !(g1'.ok && !g1'.expectInc) && b01.isEmpty then ["C01.theorem_monitor_rejects"] else [])
    -- the typed monitors of C02_seq and C08_trace_shape on the same observations
    let obsT := e.items.filterMap toObs
    let g2' := obsT.foldl (Qfx.Sess.C02.g2Step ms.cfg.persist) ms.g2
    let b02 := if ms.g2.ok && !g2'.ok then ["C02.theorem_monitor_rejects{layer=sequential}"] else []
    -- the bytes stored under a number stay the bytes that were sent under it (the harness keeps its own copy of every save
    -- and re-reads the store after every event)
    let b02 := b02 ++ (if e.items.any (fun i => match i with | .store ("mutated" :: _) => true | _ => false)
                       then ["C02.stored_bytes_changed_after_save"] else [])
    let g8a := match e.op with
      | .connect => if e.after.status == "ok" then Qfx.Sess.c8Step ms.g8 .connected else ms.g8
      | _ => ms.g8
    let g8' := (obsT.map Qfx.Sess.Obs8.obs).foldl Qfx.Sess.c8Step g8a
    let b04 := if drained then [] else c04 ms e
    let b06 := if drained then [] else c06 ms e
    let b07 := if drained then [] else c07 ms e
    let s08 := c08 ms e
    let b08t := if ms.g8.ok && !g8'.ok && s08.bad.isEmpty then ["C08.theorem_monitor_rejects"] else []
    -- heartbeat interval in force after this event: an acceptor takes 108 from an accepted Logon unless overridden
    let hb' := match inboundOf ms e.op with
      | some m =>
        let h := (match (fget m.f 108).bind numeric? with | some h => h | none => ms.hb)
        if kindOf m == "A" && !ms.cfg.initiator && !ms.cfg.hbOverride && (e.items.contains .onLogon || (e.items.any fun i => match i with | .wire "A" _ _ => true | _ => false)) then h
        -- (a Logon refused because its tag 789 is ahead of us has got as far as the acceptor's reply: the interval is adopted
        --  there — the property does not say whether it should be; the timer decides which interval is in force)
        else if kindOf m == "A" && !ms.cfg.initiator && !ms.cfg.hbOverride && ms.cfg.nextExpected
                && (e.items.any fun i => match i with | .fromAdmin "A" _ => true | _ => false)
                && (match peer789 m with | some x => decide (x > senderAtLogon ms.S e.items) | none => false)
                && e.items.contains (.armPeer (1200 * h)) then h
        else ms.hb
      | none => ms.hb
    let lastArm := (e.items.filterMap fun i => match i with | .armPeer x => some x | _ => none).getLast?
    let hb' := if drained then (match lastArm with | some x => x / 1200 | none => hb') else hb'
    let b20 := if drained then [] else c20 ms e hb'
    let b03 := if drained then [] else c03 ms e
    let inbox' := match e.op with
      | .arrive m => if e.after.status == "ok" then ms.inbox ++ [m] else ms.inbox
      | .pop => ms.inbox.drop 1
      | _ => ms.inbox
    let inbox' := if e.after.ib == 0 then [] else inbox'
    let inboxP' := match e.op with
      | .arrive _ => if e.after.status == "ok" then ms.inboxP ++ [e.plant] else ms.inboxP
      | .pop => ms.inboxP.drop 1
      | _ => ms.inboxP
    let inboxP' := if e.after.ib == 0 then [] else inboxP'
    let ms' : M := { ms with
      prev := e.after, T := t', S := e.after.S, last := last', expectInc := false, g1 := g1', g2 := g2', g8 := g8',
      connOpen := s08.connOpen, wiresOnConn := s08.wiresOnConn, sentLogout := s08.sentLogout, handshake := s08.handshake,
      cbLoggedOn := s08.cbLoggedOn, afterLogoutCb := s08.afterLogoutCb,
      sentResetOnConn :=
        (match e.op with | .connect => (if e.after.status == "ok" then false else ms.sentResetOnConn) | _ => ms.sentResetOnConn)
        || (wires e.items).any (fun w => w.1 == "A" && fget w.2.2 141 == some "Y"),
      lastRtime := (match e.op with
        | .rtime now => if ms.cfg.resetSeqTime.isSome then some now else ms.lastRtime
        | _ => ms.lastRtime),
      ourResetPending :=
        (let wroteReset := (wires e.items).any (fun w => w.1 == "A" && fget w.2.2 141 == some "Y")
         -- (`sentReset` is lowered exactly when a Logon gets as far as the logon notification)
         let gotLogon := (match inboundOf ms e.op with | some m => kindOf m == "A" | none => false) && e.items.contains .onLogon
         let isConnect := (match e.op with | .connect => true | _ => false) && e.after.status == "ok"
         if !stConnected e.after.st then false
         else if gotLogon then false
         else if wroteReset then true
         else if isConnect then false
         else ms.ourResetPending),
      fromLogonGap := if ms.prev.st == "Logon" && inRecovery e.after.st then true
                      else if !inRecovery e.after.st then false else ms.fromLogonGap,
      gapEnd :=
        (let rrs := rrWithT ms.T (dropOldWires ms.prev.q e.items)
         let resetSeen := e.items.any fun i => match i with | .store ["reset"] => true | _ => false
         if !stLoggedOn e.after.st || resetSeen then none
         else match ms.gapEnd with
           | some g => if t' > g then none else some g
           | none =>
             if rrs.isEmpty then none
             else match (inboundOf ms e.op).bind (fun m => (viewOf ms.cfg m (plantOf ms e)).seq) with
               | some n => if n > t' then some (n - 1) else none
               | none => none),
      hb := hb', inbox := inbox', inboxP := inboxP', stored := storedAfter ms e }
    (ms', panic ++ b01 ++ b02 ++ b03 ++ b04 ++ b06 ++ b07 ++ s08.bad ++ b08t ++ b20)

end Qfx.SessSpec
