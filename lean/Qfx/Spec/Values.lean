/-
  Qfx.Spec.Values — the FIX grammars of the value types, written independently of the
  model's scanners, and the C14 monitor (a decidable predicate on one observed operation).
-/
import Qfx.Model.Values
namespace Qfx.Spec
open Qfx

/-! ## grammars (FIX: int = optional '-' then one or more digits; Boolean = Y | N;
    float = optional '-', digits with an optional decimal point, at least one digit;
    UTCTimestamp = YYYYMMDD-HH:MM:SS[.sss[sss[sss]]] with calendar-valid fields) -/

def allDigitsNE (ds : Bytes) : Bool := !ds.isEmpty && ds.all isDigit

def IntGrammar (b : Bytes) : Bool :=
  match b with
  | 45 :: ds => allDigitsNE ds
  | ds => allDigitsNE ds

/-- the mathematical value of a text in `IntGrammar` -/
def intVal (b : Bytes) : Int :=
  match b with
  | 45 :: ds => - (digitsVal ds : Int)
  | ds => (digitsVal ds : Int)

def numDigits (b : Bytes) : Nat := (b.filter isDigit).length

def BoolGrammar (b : Bytes) : Bool := b == [89] || b == [78]

def floatBody (b : Bytes) : Bool :=
  let ip := b.takeWhile isDigit
  match b.dropWhile isDigit with
  | [] => !ip.isEmpty
  | c :: fp => c == 46 && fp.all isDigit && (!ip.isEmpty || !fp.isEmpty)

def FloatGrammar (b : Bytes) : Bool :=
  match b with
  | 45 :: r => floatBody r
  | r => floatBody r

/-- character class required at position `i` of a timestamp text (strict FIX: '.' before the fraction) -/
def tsClassAt (i : Nat) (c : Nat) : Bool :=
  if i = 8 then c == 45 else if i = 11 || i = 14 then c == 58 else if i = 17 then c == 46 else isDigit c

def tsShape : Nat → Bytes → Bool
  | _, [] => true
  | i, c :: cs => tsClassAt i c && tsShape (i + 1) cs

def slice (b : Bytes) (i n : Nat) : Bytes := (b.drop i).take n

structure TsFields where
  y : Nat
  mo : Nat
  d : Nat
  h : Nat
  mi : Nat
  s : Nat
  frac : Nat
  fracDigits : Nat

def tsFields (b : Bytes) : TsFields :=
  { y := digitsVal (slice b 0 4), mo := digitsVal (slice b 4 2), d := digitsVal (slice b 6 2),
    h := digitsVal (slice b 9 2), mi := digitsVal (slice b 12 2), s := digitsVal (slice b 15 2),
    frac := digitsVal (b.drop 18), fracDigits := b.length - 18 }

def tsLenOK (n : Nat) : Bool := n == 17 || n == 21 || n == 24 || n == 27

/-- strict grammar; `maxSec` = 59 for "must accept", 60 for "may accept" (leap second, read permissively) -/
def TsGrammar (maxSec : Nat) (b : Bytes) : Bool :=
  tsLenOK b.length && tsShape 0 b &&
  (let f := tsFields b
   1 ≤ f.mo && f.mo ≤ 12 && 1 ≤ f.d && f.d ≤ daysIn f.mo f.y && f.h < 24 && f.mi < 60 && f.s ≤ maxSec)

def pow10 : Nat → Nat
  | 0 => 1
  | n + 1 => 10 * pow10 n

/-! ## C14 monitor: one observed implementation operation ↦ list of violated clauses (empty = ok) -/

def inputClass (b : Bytes) : String :=
  if b.isEmpty then "empty" else if b.all isDigit then "digits" else "other"

def monInt (b : Bytes) (obs : List String) : List String :=
  match obs with
  | ["ok", v] =>
      if !IntGrammar b then ["int_accepts_nongrammar{input=" ++ inputClass b ++ "}"]
      else if numDigits b ≤ 18 && v.toInt? != some (intVal b) then ["int_wrong_value{digits<=18}"]
      else []
  | ["err"] => if IntGrammar b then ["int_rejects_grammar"] else []
  | ["panic"] => ["panic{op=int.read,input=" ++ inputClass b ++ "}"]
  | _ => ["unparsed_observation"]

def monIntWrite (v : Int) (obs : List String) : List String :=
  match obs with
  | [h] => match fromHex h with
      | some b => if IntGrammar b && intVal b == v && (b.head? != some 48 || b == [48]) && b.take 2 != [45, 48]
                  then [] else ["int_write_not_canonical"]
      | none => ["unparsed_observation"]
  | _ => ["unparsed_observation"]

def monBool (b : Bytes) (obs : List String) : List String :=
  match obs with
  | ["ok", v] => if b == [89] && v == "y" || b == [78] && v == "n" then [] else ["bool_accepts_nongrammar"]
  | ["err"] => if BoolGrammar b then ["bool_rejects_grammar"] else []
  | ["panic"] => ["panic{op=bool.read}"]
  | _ => ["unparsed_observation"]

-- float: the monitors `monFloatRead` / `monFloatWrite` (grammar AND value) are in Qfx.Spec.Float

def precDigits? : String → Option Nat
  | "s" => some 0 | "ms" => some 3 | "us" => some 6 | "ns" => some 9 | _ => none

def monTsRead (b : Bytes) (obs : List String) : List String :=
  match obs with
  | ["ok", y, mo, d, h, mi, s, ns, p] =>
      if !TsGrammar 60 b then
        ["ts_accepts_nongrammar{sep=" ++ (if (b.drop 17).head? == some 44 then "comma" else "other") ++ "}"]
      else
        let f := tsFields b
        let fd := if b.length == 17 then 0 else f.fracDigits
        let nsv := if b.length == 17 then 0 else f.frac * pow10 (9 - fd)
        if y.toNat? == some f.y && mo.toNat? == some f.mo && d.toNat? == some f.d && h.toNat? == some f.h
           && mi.toNat? == some f.mi && s.toNat? == some f.s && ns.toNat? == some nsv && precDigits? p == some fd
        then [] else ["ts_wrong_value"]
  | ["err"] => if TsGrammar 59 b then ["ts_rejects_grammar"] else []
  | ["panic"] => ["panic{op=ts.read}"]
  | _ => ["unparsed_observation"]

/-- written text must be in the grammar and decode to the input truncated to the precision -/
def monTsWrite (p : String) (t : List Nat) (obs : List String) : List String :=
  match precDigits? p, t, obs with
  | some fd, [y, mo, d, h, mi, s, ns], [hx] =>
      (match fromHex hx with
       | some b =>
          let f := tsFields b
          let want := ns / pow10 (9 - fd)
          if TsGrammar 59 b && b.length == (if fd == 0 then 17 else 18 + fd) && f.y == y && f.mo == mo && f.d == d
             && f.h == h && f.mi == mi && f.s == s && (fd == 0 || f.frac == want)
          then [] else ["ts_write_wrong"]
       | none => ["unparsed_observation"])
  | _, _, ["panic"] => ["panic{op=ts.write}"]
  | _, _, _ => ["unparsed_observation"]

end Qfx.Spec
