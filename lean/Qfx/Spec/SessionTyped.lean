/-
  Qfx.Spec.SessionTyped — monitors over the model's typed observations (`Qfx.Sess.Obs`).  These are the predicates the
  session theorems are about; the driver `sess-mon` parses the implementation's observation lines into the same
  `Obs` values and runs the same functions on them.
-/
import Qfx.Model.Session
namespace Qfx.Sess
open Qfx

/-- C01 monitor: `T` = the next expected inbound number as reconstructed from the store mutations, `last` = the last
    number delivered to the application in this epoch, `expectInc` = a delivery happened and the advance by one is
    still due, `ok` = no clause violated so far:
    * a delivery happens only with no advance pending, exactly at `T` (both the message's number and the store value
      read inside the callback), and above every earlier delivery of the epoch;
    * the next change of the expected number after a delivery is `+1`;
    * a SequenceReset only moves the expected number forward; only `reset` starts a new epoch. -/
structure G1 where
  T : Int
  last : Option Int
  expectInc : Bool
  ok : Bool
  deriving Repr

def g1Step (g : G1) : Obs → G1
  | .reset => { g with T := 1, last := none, expectInc := false }
  | .incT => { g with T := g.T + 1, expectInc := false }
  | .setT n => { g with T := n, expectInc := false, ok := g.ok && decide (g.T ≤ n) && !g.expectInc }
  | .fromApp seq t =>
    match readInt (strBytes seq) with
    | .ok n => { g with last := some n, expectInc := true,
                        ok := g.ok && !g.expectInc && decide (n = g.T) && decide (t = g.T)
                              && (match g.last with | some l => decide (l < n) | none => true) }
    | _ => { g with expectInc := true, ok := false }
  | _ => g


def G1.init (t0 : Int) : G1 := { T := t0, last := none, expectInc := false, ok := true }

/-- the C01 verdict on a whole observation trace -/
def c01Accepts (t0 : Int) (trace : List Obs) : Bool :=
  let g := trace.foldl g1Step (G1.init t0)
  g.ok && !g.expectInc

end Qfx.Sess
