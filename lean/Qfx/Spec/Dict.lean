/-
  Qfx.Spec.Dict — what a loaded dictionary must say (C19), declaratively, plus the executable form the
  monitor evaluates on the real loader's dump.

  Declarative part (no recursion budget, no memo table, no reference to the builder):
    `FieldNum a n t`    a `<field name=n number=t>` is declared
    `CompDef a n ms`    a `<component name=n>` with members `ms` is declared
    `ReachM a ms t`     tag `t` is reachable from the member list `ms` through fields, groups and components
    `ReqM a ms t`       `t` is directly required in `ms`, or required in a required component of `ms`, recursively
                        (a required group contributes its counter field; its members are the group's own business)
    `Expands a ms fs`   `fs` is `ms` in declaration order with components expanded in place; a group carries its
                        expanded members and a required-set `rq` with `x ∈ rq ↔ ReqM a gms x`
    `Reach a mt t`, `Req a mt t`, `Dangling a`

  Executable part: `expandSpec` (naive expansion with a recursion budget, first declaration wins) and the monitor
  clauses `monLoad`, `monMsg`, `monTypes`.
-/
import Qfx.Model.Dict
namespace Qfx.Dict

section
variable {ν : Type}

def FieldNum (a : Ast ν) (n : ν) (t : Nat) : Prop := ∃ f ∈ a.fields, f.name = n ∧ f.num = t
def CompDef (a : Ast ν) (n : ν) (cms : List (Member ν)) : Prop := (n, cms) ∈ a.comps
def MsgDef (a : Ast ν) (mt : ν) (ms : List (Member ν)) : Prop := (mt, ms) ∈ a.msgs

inductive ReachM (a : Ast ν) : List (Member ν) → Nat → Prop
  | field {n r rest t} : FieldNum a n t → ReachM a (.field n r :: rest) t
  | group {n r gms rest t} : FieldNum a n t → ReachM a (.group n r gms :: rest) t
  | inGroup {n r gms rest t} : ReachM a gms t → ReachM a (.group n r gms :: rest) t
  | comp {n r cms rest t} : CompDef a n cms → ReachM a cms t → ReachM a (.comp n r :: rest) t
  | tail {m rest t} : ReachM a rest t → ReachM a (m :: rest) t

inductive ReqM (a : Ast ν) : List (Member ν) → Nat → Prop
  | field {n rest t} : FieldNum a n t → ReqM a (.field n true :: rest) t
  | group {n gms rest t} : FieldNum a n t → ReqM a (.group n true gms :: rest) t
  | comp {n cms rest t} : CompDef a n cms → ReqM a cms t → ReqM a (.comp n true :: rest) t
  | tail {m rest t} : ReqM a rest t → ReqM a (m :: rest) t

inductive Expands (a : Ast ν) : List (Member ν) → List FDef → Prop
  | nil : Expands a [] []
  | field {n r rest t fs} : FieldNum a n t → Expands a rest fs → Expands a (.field n r :: rest) (.mk t r [] [] :: fs)
  | group {n r gms rest t ks rq fs} : FieldNum a n t → Expands a gms ks → (∀ x, x ∈ rq ↔ ReqM a gms x) →
      Expands a rest fs → Expands a (.group n r gms :: rest) (.mk t r ks rq :: fs)
  | comp {n r cms rest cs fs} : CompDef a n cms → Expands a cms cs → Expands a rest fs →
      Expands a (.comp n r :: rest) (cs ++ fs)

/-- tag `t` is reachable in message type `mt` -/
def Reach (a : Ast ν) (mt : ν) (t : Nat) : Prop := ∃ ms, MsgDef a mt ms ∧ ReachM a ms t
/-- tag `t` is required in message type `mt` -/
def Req (a : Ast ν) (mt : ν) (t : Nat) : Prop := ∃ ms, MsgDef a mt ms ∧ ReqM a ms t

/-- every name used in a member list (also inside groups) is declared -/
inductive RefsOK (a : Ast ν) : List (Member ν) → Prop
  | nil : RefsOK a []
  | field {n r rest t} : FieldNum a n t → RefsOK a rest → RefsOK a (.field n r :: rest)
  | group {n r gms rest t} : FieldNum a n t → RefsOK a gms → RefsOK a rest → RefsOK a (.group n r gms :: rest)
  | comp {n r rest cms} : CompDef a n cms → RefsOK a rest → RefsOK a (.comp n r :: rest)

/-- all member lists of the file: components, messages, header, trailer -/
def Ast.bodies (a : Ast ν) : List (List (Member ν)) :=
  a.comps.map (·.2) ++ a.msgs.map (·.2) ++ a.header.toList ++ a.trailer.toList

/-- the file references an undefined field or component somewhere -/
def Dangling (a : Ast ν) : Prop := ∃ ms ∈ a.bodies, ¬ RefsOK a ms

/-- names are unique within their table (what makes "the field named n" meaningful) -/
structure WFNames (a : Ast ν) : Prop where
  fieldNames : a.fields.Pairwise (fun x y => x.name ≠ y.name)
  fieldNums : a.fields.Pairwise (fun x y => x.num ≠ y.num)
  compNames : a.comps.Pairwise (fun x y => x.1 ≠ y.1)
  msgTypes : a.msgs.Pairwise (fun x y => x.1 ≠ y.1)

end

/-! ## executable form -/
section
variable {ν : Type} [DecidableEq ν]

def specFieldNum (a : Ast ν) (n : ν) : Option Nat := (a.fields.find? (fun f => f.name == n)).map (·.num)
def specComp (a : Ast ν) (n : ν) : Option (List (Member ν)) := (a.comps.find? (fun c => c.1 == n)).map (·.2)
def specMsg (a : Ast ν) (mt : ν) : Option (List (Member ν)) := (a.msgs.find? (fun c => c.1 == mt)).map (·.2)

/-- naive expansion: the flattened members in order and the required tags; `none` = dangling reference or budget exhausted -/
def expandSpec (a : Ast ν) : Nat → List (Member ν) → Option (List FDef × List Nat)
  | 0, _ => none
  | _ + 1, [] => some ([], [])
  | f + 1, .field n r :: rest =>
    match specFieldNum a n with
    | none => none
    | some t =>
      match expandSpec a f rest with
      | none => none
      | some (fs, rq) => some (.mk t r [] [] :: fs, if r then t :: rq else rq)
  | f + 1, .group n r gms :: rest =>
    match specFieldNum a n with
    | none => none
    | some t =>
      match expandSpec a f gms with
      | none => none
      | some (ks, krq) =>
        match expandSpec a f rest with
        | none => none
        | some (fs, rq) => some (.mk t r ks krq :: fs, if r then t :: rq else rq)
  | f + 1, .comp n r :: rest =>
    match specComp a n with
    | none => none
    | some cms =>
      match expandSpec a f cms with
      | none => none
      | some (cs, crq) =>
        match expandSpec a f rest with
        | none => none
        | some (fs, rq) => some (cs ++ fs, if r then crq ++ rq else rq)

/-- direct references of a member list resolve (decidable form of `RefsOK`) -/
def refsOKB (a : Ast ν) : Nat → List (Member ν) → Bool
  | 0, _ => false
  | _ + 1, [] => true
  | f + 1, .field n _ :: rest => (specFieldNum a n).isSome && refsOKB a f rest
  | f + 1, .group n _ gms :: rest => (specFieldNum a n).isSome && refsOKB a f gms && refsOKB a f rest
  | f + 1, .comp n _ :: rest => (specComp a n).isSome && refsOKB a f rest

def danglingB (a : Ast ν) : Bool := a.bodies.any (fun ms => !refsOKB a (membersSize ms + 1) ms)

/-- no component reaches itself: every declared component expands within the budget -/
def acyclicB (a : Ast ν) : Bool := a.comps.all (fun c => (expandSpec a (a.size + 1) c.2).isSome)

def distinctB {α β} [DecidableEq β] (key : α → β) : List α → Bool
  | [] => true
  | x :: r => r.all (fun y => key x ≠ key y) && distinctB key r

def wfNamesB (a : Ast ν) : Bool :=
  distinctB (·.name) a.fields && distinctB (·.num) a.fields && distinctB (·.1) a.comps && distinctB (·.1) a.msgs

/-! ### canonical forms shared by the monitor and the driver -/

def insertSorted (x : Nat) : List Nat → List Nat
  | [] => [x]
  | y :: r => if x < y then x :: y :: r else if x = y then y :: r else y :: insertSorted x r

def dedupSorted : List Nat → List Nat
  | [] => []
  | [x] => [x]
  | x :: y :: r => if x = y then dedupSorted (y :: r) else x :: dedupSorted (y :: r)

/-- sorted, duplicate-free list of the members of `l` (how a Go `TagSet` is printed) -/
def canonSet (l : List Nat) : List Nat := dedupSorted (l.mergeSort (fun a b => decide (a ≤ b)))

def sameSet (l₁ l₂ : List Nat) : Bool := canonSet l₁ == canonSet l₂

mutual
/-- same tags, own flags and member order (required sets of groups are compared by `sameReq`) -/
def FDef.sameShape : FDef → FDef → Bool
  | .mk t r fs _, .mk t' r' fs' _ => t == t' && r == r' && sameShapeL fs fs'
def sameShapeL : List FDef → List FDef → Bool
  | [], [] => true
  | f :: r, f' :: r' => f.sameShape f' && sameShapeL r r'
  | _, _ => false
end

mutual
/-- required sets of corresponding groups agree (shapes assumed equal) -/
def FDef.sameReq : FDef → FDef → Bool
  | .mk _ _ fs rq, .mk _ _ fs' rq' => sameSet rq rq' && sameReqL fs fs'
def sameReqL : List FDef → List FDef → Bool
  | [], [] => true
  | f :: r, f' :: r' => f.sameReq f' && sameReqL r r'
  | _, _ => false
end

/-- what the real loader said about one message / header / trailer -/
structure MsgDump where
  tags : List Nat
  req : List Nat
  fmapOK : Bool
  flat : List FDef

/-- outcome of loading -/
inductive LoadObs (ν : Type) where
  | loaded (msgTypes : List ν) (hdr trl : Bool)
  | refused
  | crash

/--
  C19 on the `ast`/`file` line.  Clauses:
    refuses_dangling   the file has an undefined reference but was loaded
    loads_wellformed   unique names, no undefined reference, acyclic — but refused
    messages           the set of loaded message types / presence of header, trailer differs from the file
  (a crash on cyclic components is reported as `c09_cyclic_components`, a clause of C09)
-/
def monLoad (a : Ast ν) (obs : LoadObs ν) : List String :=
  let dang := danglingB a
  let wf := wfNamesB a && !dang && acyclicB a
  match obs with
  | .loaded mts h t =>
    (if wfNamesB a && dang then ["refuses_dangling{loaded}"] else []) ++
    (if wf && !(mts.all (fun m => (specMsg a m).isSome) && a.msgs.all (fun m => mts.contains m.1)
                && h == a.header.isSome && t == a.trailer.isSome)
      then ["messages"] else [])
  | .refused => if wf then ["loads_wellformed{refused}"] else []
  | .crash => (if wf then ["loads_wellformed{crash}"] else []) ++
              (if !acyclicB a && !dang then ["c09_cyclic_components{crash}"] else [])

def setDiffCtx (spec got : List Nat) : String :=
  let extra := got.any (fun x => !spec.contains x)
  let missing := spec.any (fun x => !got.contains x)
  (if extra then "extra" else "") ++ (if extra && missing then "+" else "") ++ (if missing then "missing" else "")

/--
  C19 on a `msg`/`header`/`trailer` line, for a file with unique names (`fuel = a.size + 1`): the dump against the SPEC expansion of the
  member list `ms`.  Clauses: fields, required, group_order, group_required, fields_map.
-/
def monMsg (a : Ast ν) (fuel : Nat) (ms : List (Member ν)) (d : MsgDump) : List String :=
  match expandSpec a fuel ms with
  | none => []          -- not a well-formed file: `monLoad` has spoken
  | some (fs, rq) =>
    let specTags := canonSet (fs.flatMap FDef.allTags)
    let specReq := canonSet rq
    (if specTags != canonSet d.tags then ["fields{" ++ setDiffCtx specTags d.tags ++ "}"] else []) ++
    (if specReq != canonSet d.req then ["required{" ++ setDiffCtx specReq d.req ++ "}"] else []) ++
    (if !sameShapeL fs d.flat then ["group_order"] else
      if !sameReqL fs d.flat then ["group_required"] else []) ++
    (if !d.fmapOK then ["fields_map"] else [])

/-- one entry of the `types` dump -/
structure TypeDump (ν : Type) where
  tag : Nat
  name : ν
  type : ν
  enums : List ν

/-- C19 on the `types` line: every declared field has its declared name, type and exactly its declared enum values -/
def monTypes (a : Ast ν) (ok : Bool) (ds : List (TypeDump ν)) : List String :=
  (if !ok then ["types_enums{byname}"] else []) ++
  (if ds.length != a.fields.length then ["types_enums{count}"] else []) ++
  (if a.fields.all (fun f => ds.any (fun d => d.tag == f.num && d.name == f.name && d.type == f.type
        && d.enums.all (f.enums.contains ·) && f.enums.all (d.enums.contains ·)))
    then [] else ["types_enums{entry}"])

end
end Qfx.Dict
