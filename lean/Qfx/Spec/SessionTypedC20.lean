/-
  Qfx.Spec.SessionTypedC20 — the state predicates the C20 theorems are stated with.
-/
import Qfx.Spec.SessionTypedC04
namespace Qfx.Sess
open Qfx

/-- normal operation or gap recovery, no TestRequest outstanding -/
def C20Active (st : SState) : Prop := st = .inSession ∨ ∃ stash cur fin, st = .resend stash cur fin
/-- a TestRequest is outstanding -/
def C20Pending (st : SState) : Prop := st = .pendingIn ∨ ∃ stash cur fin, st = .pendingResend stash cur fin

/-- the pending wrapper of a state: same stash, same chunk end, same gap end -/
def pendingOf : SState → SState
  | .inSession => .pendingIn
  | .resend stash cur fin => .pendingResend stash cur fin
  | st => st

end Qfx.Sess
