/-
  Qfx.Model.Bytes — byte strings, decimal text, hex for the line protocol.

  Bytes are modelled as `List Nat` (every theorem quantifying over all `List Nat`
  covers all byte strings; the driver only ever feeds values < 256).
  Mirrors: fix_int.go (atoi / parseUInt), strconv.AppendInt / Itoa, fmt %0Nd.
-/
namespace Qfx

abbrev Byte := Nat
abbrev Bytes := List Nat

def SOH : Nat := 1
def cEq : Nat := 61      -- '='
def cMinus : Nat := 45   -- '-'
def c0 : Nat := 48
def c9 : Nat := 57

/-- outcome of a Go call: value, Go `error`, or a run-time panic (index out of range, nil map …) -/
inductive Res (α : Type) where
  | ok (a : α)
  | err (class_ : String)
  | fault (what : String)
  deriving Repr, DecidableEq, Inhabited

namespace Res
def isOk {α} : Res α → Bool | ok _ => true | _ => false
def isFault {α} : Res α → Bool | fault _ => true | _ => false
def bind {α β} (r : Res α) (f : α → Res β) : Res β :=
  match r with | ok a => f a | err e => err e | fault w => fault w
instance : Monad Res where
  pure := Res.ok
  bind := Res.bind
end Res

/-! ## decimal text -/

def isDigit (b : Nat) : Bool := decide (48 ≤ b ∧ b ≤ 57)

/-- `strconv.Itoa` for naturals: ASCII codes of the decimal digits, most significant first -/
def fmtNat (n : Nat) : Bytes :=
  if n < 10 then [48 + n] else fmtNat (n / 10) ++ [48 + n % 10]
decreasing_by omega

/-- exactly `w` decimal digits of `n` (fmt `%0wd` when `n < 10^w`) -/
def digitsW : Nat → Nat → Bytes
  | 0, _ => []
  | w + 1, n => digitsW w (n / 10) ++ [48 + n % 10]

/-- value of a digit string (no check), left fold as in `parseUInt` -/
def digitsVal (d : Bytes) : Nat := d.foldl (fun acc c => 10 * acc + (c - 48)) 0

/-- `strconv.AppendInt(nil, v, 10)` -/
def fmtInt (v : Int) : Bytes :=
  if v < 0 then cMinus :: fmtNat v.natAbs else fmtNat v.natAbs

/-- left-pad with '0' to width `w` (fmt `%0wd` for non-negative values) -/
def padZero (w : Nat) (d : Bytes) : Bytes := List.replicate (w - d.length) c0 ++ d

/-- two's-complement reduction of an unbounded integer into Go's `int` (64 bit) -/
def wrap64 (x : Int) : Int := (x + 9223372036854775808) % 18446744073709551616 - 9223372036854775808

def inInt64 (x : Int) : Prop := -9223372036854775808 ≤ x ∧ x ≤ 9223372036854775807
instance (x : Int) : Decidable (inInt64 x) := by unfold inInt64; infer_instance

/-- fix_int.go `parseUInt`: empty ⇒ error, non-digit ⇒ error, value accumulated with 64-bit wrap-around -/
def parseUIntLoop : Bytes → Int → Res Int
  | [], n => .ok n
  | c :: cs, n => if isDigit c then parseUIntLoop cs (wrap64 (n * 10 + ((c : Int) - 48))) else .err "invalid format"

def parseUInt (d : Bytes) : Res Int :=
  if d.isEmpty then .err "empty bytes" else parseUIntLoop d 0

/-- fix_int.go `atoi` (after the `fix:` guarding the empty slice; `atoiUnguarded` is the pinned original) -/
def atoi (d : Bytes) : Res Int :=
  match d with
  | [] => parseUInt []
  | c :: cs => if c = cMinus then (match parseUInt cs with
                                  | .ok n => .ok (wrap64 (-n))
                                  | r => r)
               else parseUInt d

/-- the original `atoi`, which reads `d[0]` unguarded -/
def atoiUnguarded (d : Bytes) : Res Int :=
  match d with
  | [] => .fault "index out of range [0] with length 0"
  | _ => atoi d

/-! ## hex for the line protocol (`-` is the empty string) -/

def hexDigit (n : Nat) : Char := if n < 10 then Char.ofNat (48 + n) else Char.ofNat (87 + n)

def toHex (b : Bytes) : String :=
  if b.isEmpty then "-" else String.ofList (b.flatMap fun x => [hexDigit (x / 16 % 16), hexDigit (x % 16)])

def hexVal (c : Char) : Option Nat :=
  if '0' ≤ c ∧ c ≤ '9' then some (c.toNat - 48)
  else if 'a' ≤ c ∧ c ≤ 'f' then some (c.toNat - 87)
  else if 'A' ≤ c ∧ c ≤ 'F' then some (c.toNat - 55)
  else none

def fromHexChars : List Char → Option Bytes
  | [] => some []
  | [_] => none
  | a :: b :: rest => do
      let x ← hexVal a
      let y ← hexVal b
      let r ← fromHexChars rest
      pure ((16 * x + y) :: r)

def fromHex (s : String) : Option Bytes :=
  if s = "-" then some [] else fromHexChars s.toList

def asciiOf (s : String) : Bytes := s.toList.map Char.toNat
def strOf (b : Bytes) : String := String.ofList (b.map Char.ofNat)

end Qfx
