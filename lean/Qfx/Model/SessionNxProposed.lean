/-
  Qfx.Model.SessionNxProposed — NOT the code.  `EnableNextExpectedMsgSeqNum` as session.go would behave WITH the patch
  notes/nx_proposed.diff (five changes, notes/proofs_b_nx.md observations 1–5).  Nothing depends on this file: no theorem, no
  driver, no check.  It is kept because this variant agreed with the patched tree on 340 000 operations of the `sess`
  correspondence (branch verif-nx of the scratch repository, not merged anywhere).
-/
import Qfx.Model.Session
namespace Qfx.Sess.NxProposed
open Qfx Qfx.Sess

/-- own Logon: the inbound number expected once it is out (1 when it resets) -/
def nxOwn (s : Sess) (reset : Bool) : Option Int :=
  if s.cfg.nextExpected then some (if reset then 1 else s.store.target) else none

def logonMsg (s : Sess) (reset : Bool) : OutMsg := logonMsgX s reset (nxOwn s reset)
def sendLogonInReplyTo (s : Sess) (reset : Bool) : Sess := dropAndSend s (logonMsg s reset)

/-- the implied gap fill: to the number we really use next, with and without persistence -/
def nxEval (s : Sess) (m : InMsg) (ns : Int) : Sess :=
  if s.cfg.nextExpected && !(m.f.has 141) then
    match peerNext m with
    | some n => if n != ns then enqueueAndSend s (gapFillRe s m n s.store.sender) else s
    | none => s
  else s

def logonFinish (s : Sess) (m : InMsg) (ns : Int) : Sess × Option LogonErr :=
  let s := nxEval (((s.setSentReset false).emit (.armPeer (1200 * s.hb))).emit .onLogon) m ns
  match checkTooHigh s m with
  | some r => (s, some (.rej r))
  | none => (incrTarget s, none)

/-- the initiator refuses a Logon (without tag 141) whose 789 is ahead of it, as the acceptor does -/
def logonRefuses (s : Sess) (m : InMsg) (flag : Bool) : Bool :=
  (if s.cfg.initiator then !(m.f.has 141) else !(flag && s.sentReset && s.st.loggedOn)) && nxRefuses s m

/-- `ns` is read after a reset the Logon causes -/
def logonTail (s : Sess) (m : InMsg) : Sess × Option LogonErr :=
  if logonRefuses s m (logonResetFlag m) then (logonRefused s m, some (.rej .rejectLogon))
  else logonFinish (logonReply s m (logonResetFlag m)) m s.store.sender

def handleLogon (s : Sess) (m : InMsg) : Sess × Option LogonErr :=
  if s.cfg.bs == 5 && !(m.f.has 1137) then (s, some .other) else
  let s := if !s.cfg.initiator && s.cfg.refreshOnLogon then s.emit .refresh else s
  match verifyAppImpl s m with
  | (s, some r) => (s, some (.rej r))
  | (s, none) =>
    let resetStore := (if s.cfg.initiator then false else s.cfg.resetOnLogon) || (logonResetFlag m && !s.sentReset)
    let s := if resetStore then dropAndReset s else s
    match verifySelect s m false true false with
    | (s, some r) => (s, some (.rej r))
    | (s, none) => logonTail s m

end Qfx.Sess.NxProposed
