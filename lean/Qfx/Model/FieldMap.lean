/-
  Qfx.Model.FieldMap — field_map.go, kept exactly as Go keeps it: an order list `tags` AND a lookup
  map, which are two views of the same field set that the code must keep in step (C10).

  * a `Field` is Go's `field []TagValue`.  A field created by a setter owns its list; a field created
    by the parser is a *view* `fields[start : start+len]` into the message's field array `arr`, whose
    capacity runs to the end of that array (`RepeatingGroup.Read` relies on `tv[1:cap(tv)]`).
  * the lookup map is an association list with unique keys; results that depend on Go's map
    iteration order are sums (`length`, `total`) or are sorted before comparison (`Tags()`).
  * `sort.Sort` is `List.mergeSort` with the Go comparator (a strict order on distinct tags for the
    header / body / trailer comparators, so the sorted list is unique).

  The functions named `…Orig` are the code as it was before the `fix:` commits recorded in
  known_findings.json (D5 Remove, D16 CopyInto, D17 getOrCreate); the unsuffixed ones follow the fixed code.
-/
import Qfx.Model.TagValue
namespace Qfx

inductive Field where
  | owned (items : List TagValue)
  | view (start len : Nat)
  deriving Repr, DecidableEq, Inhabited

/-- `f[0:len(f)]` -/
def Field.items (arr : List TagValue) : Field → List TagValue
  | .owned l => l
  | .view s n => (arr.drop s).take n

/-- `f[0:cap(f)]` -/
def Field.full (arr : List TagValue) : Field → List TagValue
  | .owned l => l
  | .view s _ => arr.drop s

/-- `f[0]` -/
def Field.head (arr : List TagValue) (f : Field) : Res TagValue := idxR (f.items arr) 0

/-! ## orderings (`tagOrder`) -/

inductive OrdKind where
  | normal
  | header
  | trailer
  | group (tmpl : List Tag)
  deriving Repr, DecidableEq, Inhabited

/-- `headerFieldOrdering`'s inner `ordering` (math.MaxUint32 for everything but 8, 9, 35) -/
def headerRank (t : Tag) : Nat :=
  if t = 8 then 1 else if t = 9 then 2 else if t = 35 then 3 else 4294967295

/-- position map of `groupTagOrder`: a later duplicate in the template overwrites; MaxInt32 if absent -/
def groupRankAux : List Tag → Nat → Tag → Nat → Nat
  | [], _, _, acc => acc
  | x :: xs, i, t, acc => groupRankAux xs (i + 1) t (if x = t then i else acc)

def groupRank (tmpl : List Tag) (t : Tag) : Nat := groupRankAux tmpl 0 t 2147483647

/-- `compare(i, j)`: true iff tag `i` must be written before tag `j` -/
def OrdKind.less : OrdKind → Tag → Tag → Bool
  | .normal, i, j => decide (i < j)
  | .header, i, j =>
      if headerRank i < headerRank j then true
      else if headerRank i > headerRank j then false
      else decide (i < j)
  | .trailer, i, j => if i = 10 then false else if j = 10 then true else decide (i > j)
  | .group tmpl, i, j => decide (groupRank tmpl i < groupRank tmpl j)

/-- `sort.Sort(m)` -/
def sortTags (o : OrdKind) (tags : List Tag) : List Tag :=
  tags.mergeSort (fun a b => !o.less b a)

/-! ## association list = Go map -/

def alFind {β} : List (Tag × β) → Tag → Option β
  | [], _ => none
  | (k, v) :: r, t => if k = t then some v else alFind r t

def alInsert {β} : List (Tag × β) → Tag → β → List (Tag × β)
  | [], t, v => [(t, v)]
  | (k, x) :: r, t, v => if k = t then (k, v) :: r else (k, x) :: alInsert r t v

def alErase {β} : List (Tag × β) → Tag → List (Tag × β)
  | [], _ => []
  | (k, x) :: r, t => if k = t then alErase r t else (k, x) :: alErase r t

def alKeys {β} (l : List (Tag × β)) : List Tag := l.map (·.1)

/-! ## FieldMap -/

structure FieldMap where
  tags : List Tag
  lookup : List (Tag × Field)
  ord : OrdKind
  deriving Repr, DecidableEq, Inhabited

def FieldMap.empty (o : OrdKind) : FieldMap := { tags := [], lookup := [], ord := o }

def FieldMap.has (m : FieldMap) (t : Tag) : Bool := (alFind m.lookup t).isSome

/-- `add` (parser): append to `tags` only when the map misses -/
def FieldMap.add (m : FieldMap) (t : Tag) (f : Field) : FieldMap :=
  { m with tags := if (alFind m.lookup t).isSome then m.tags else m.tags ++ [t],
           lookup := alInsert m.lookup t f }

/-- result of `getOrCreate` + `initField`: the new map, plus, when the existing field is a view, the
    write `arr[start] := tv` that `f[0].init` performs on the message's field array -/
structure SetRes where
  fm : FieldMap
  arrWrite : Option (Nat × TagValue)

/-- ORIGINAL `getOrCreate`+`initField` (D17): on a hit `f = f[:1]` re-slices only the local copy, the map keeps
    the old length, so the stale members of a group field stay behind the rewritten first element. -/
def FieldMap.setTVOrig (m : FieldMap) (tv : TagValue) : Res SetRes :=
  match alFind m.lookup tv.tag with
  | some (.owned (_ :: rest)) => .ok ⟨{ m with lookup := alInsert m.lookup tv.tag (.owned (tv :: rest)) }, none⟩
  | some (.owned []) => .fault "slice bounds out of range [:1] with capacity 0"
  | some (.view s _) => .ok ⟨m, some (s, tv)⟩
  | none => .ok ⟨{ m with lookup := alInsert m.lookup tv.tag (.owned [tv]), tags := m.tags ++ [tv.tag] }, none⟩

/-- `getOrCreate`+`initField` after the fix: the map entry is replaced by the one-element field -/
def FieldMap.setTV (m : FieldMap) (tv : TagValue) : Res SetRes :=
  match alFind m.lookup tv.tag with
  | some (.owned (_ :: _)) => .ok ⟨{ m with lookup := alInsert m.lookup tv.tag (.owned [tv]) }, none⟩
  | some (.owned []) => .fault "slice bounds out of range [:1] with capacity 0"
  | some (.view s _) => .ok ⟨{ m with lookup := alInsert m.lookup tv.tag (.view s 1) }, some (s, tv)⟩
  | none => .ok ⟨{ m with lookup := alInsert m.lookup tv.tag (.owned [tv]), tags := m.tags ++ [tv.tag] }, none⟩

/-- `SetBytes` / `SetString` / `Set`: `init(tag, value)` -/
def FieldMap.setBytes (m : FieldMap) (t : Tag) (v : Bytes) : Res SetRes := m.setTV (TagValue.init t v)
def FieldMap.setBytesOrig (m : FieldMap) (t : Tag) (v : Bytes) : Res SetRes := m.setTVOrig (TagValue.init t v)

/-- `SetGroup(field)`: the map entry becomes `field.Write()` -/
def FieldMap.setGroup (m : FieldMap) (t : Tag) (tvs : List TagValue) : FieldMap :=
  { m with tags := if (alFind m.lookup t).isSome then m.tags else m.tags ++ [t],
           lookup := alInsert m.lookup t (.owned tvs) }

/-- ORIGINAL `Remove` (D5): deletes only from the map -/
def FieldMap.removeOrig (m : FieldMap) (t : Tag) : FieldMap := { m with lookup := alErase m.lookup t }

/-- `Remove` after the fix: also drops (the first occurrence of) the tag from the order list -/
def FieldMap.remove (m : FieldMap) (t : Tag) : FieldMap :=
  { m with lookup := alErase m.lookup t, tags := m.tags.erase t }

/-- `Clear` -/
def FieldMap.clear (m : FieldMap) : FieldMap := { m with tags := [], lookup := [] }

def cloneHeads (arr : List TagValue) : List (Tag × Field) → Res (List (Tag × Field))
  | [] => .ok []
  | (k, f) :: r =>
    match f.head arr with
    | .ok tv => (match cloneHeads arr r with
                 | .ok r' => .ok ((k, Field.owned [tv]) :: r')
                 | .err e => .err e
                 | .fault w => .fault w)
    | .err e => .err e
    | .fault w => .fault w

/-- ORIGINAL `CopyInto` (D16): clones `f[0]` only, copies `tags` verbatim -/
def FieldMap.copyOrig (arr : List TagValue) (m : FieldMap) : Res FieldMap :=
  match cloneHeads arr m.lookup with
  | .ok l => .ok { tags := m.tags, lookup := l, ord := m.ord }
  | .err e => .err e
  | .fault w => .fault w

/-- `CopyInto` after the fix: clones the whole field -/
def FieldMap.copy (arr : List TagValue) (m : FieldMap) : FieldMap :=
  { tags := m.tags, lookup := m.lookup.map (fun p => (p.1, Field.owned (p.2.items arr))), ord := m.ord }

def fieldBytes (arr : List TagValue) (f : Field) : Bytes := ((f.items arr).map (·.bytes)).flatten

/-- the loop of `write`: tags missing from the map are skipped -/
def writeTags (arr : List TagValue) (lookup : List (Tag × Field)) : List Tag → Bytes
  | [] => []
  | t :: ts =>
    (match alFind lookup t with
     | some f => fieldBytes arr f
     | none => []) ++ writeTags arr lookup ts

/-- `write`: sorts `tags` in place (the sorted order persists), then writes -/
def FieldMap.write (arr : List TagValue) (m : FieldMap) : Bytes × FieldMap :=
  let st := sortTags m.ord m.tags
  (writeTags arr m.lookup st, { m with tags := st })

/-- `total`: byte sum over the lookup map, skipping TagValues whose tag is 10 -/
def FieldMap.total (arr : List TagValue) (m : FieldMap) : Nat :=
  (m.lookup.map (fun p => (((p.2.items arr).filter (fun tv => tv.tag ≠ 10)).map TagValue.total).sum)).sum

/-- `length`: byte count over the lookup map, skipping TagValues whose tag is 8, 9 or 10 -/
def FieldMap.length (arr : List TagValue) (m : FieldMap) : Nat :=
  (m.lookup.map (fun p => (((p.2.items arr).filter
      (fun tv => tv.tag ≠ 8 ∧ tv.tag ≠ 9 ∧ tv.tag ≠ 10)).map TagValue.length).sum)).sum

/-- `GetBytes` : `f[0].value` -/
def FieldMap.getBytes (arr : List TagValue) (m : FieldMap) (t : Tag) : Res Bytes :=
  match alFind m.lookup t with
  | none => .err "missing"
  | some f => (match f.head arr with
               | .ok tv => .ok tv.value
               | .err e => .err e
               | .fault w => .fault w)

/-- `GetInt` -/
def FieldMap.getInt (arr : List TagValue) (m : FieldMap) (t : Tag) : Res Int :=
  match m.getBytes arr t with
  | .ok b => (match atoi b with
              | .ok v => .ok v
              | .err _ => .err "format"
              | .fault w => .fault w)
  | .err e => .err e
  | .fault w => .fault w

end Qfx
