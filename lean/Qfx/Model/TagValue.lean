/-
  Qfx.Model.TagValue — tag_value.go, function by function.

  Go slices are lists; every Go index / slice expression of the modelled code is an explicit
  `idxR` / `sliceR` that yields `Res.fault` exactly when Go would panic (or read past `len`).
  `Tag` is Go's `type Tag int`: an `Int` (a tag parsed from the wire may be negative: `-5=x`).
-/
import Qfx.Model.Bytes
namespace Qfx

abbrev Tag := Int

/-- Go `b[i]` -/
def idxR {α} (b : List α) (i : Nat) : Res α :=
  match b[i]? with
  | some x => .ok x
  | none => .fault "index out of range"

/-- Go `b[lo:hi]` (with `hi ≤ len`: reading inside spare capacity counts as a fault, DESIGN §4) -/
def sliceR {α} (b : List α) (lo hi : Nat) : Res (List α) :=
  if lo ≤ hi ∧ hi ≤ b.length then .ok ((b.take hi).drop lo) else .fault "slice bounds out of range"

/-- `bytes.IndexByte` -/
def indexByte : Bytes → Nat → Option Nat
  | [], _ => none
  | x :: xs, c => if x = c then some 0 else (indexByte xs c).map (· + 1)

/-- `bytes.Count(b, []byte{c})` -/
def countByte (b : Bytes) (c : Nat) : Nat := (b.filter (· = c)).length

structure TagValue where
  tag : Tag
  value : Bytes
  bytes : Bytes
  deriving Repr, DecidableEq, Inhabited

/-- the zero value of the Go struct (what `make([]TagValue, n)` holds) -/
def TagValue.zero : TagValue := { tag := 0, value := [], bytes := [] }

/-- `TagValue.init`: `<tag>=<value><SOH>` -/
def TagValue.init (tag : Tag) (value : Bytes) : TagValue :=
  { tag := tag, value := value, bytes := fmtInt tag ++ [cEq] ++ value ++ [SOH] }

/-- `bytesTotal` -/
def bytesTotal (b : Bytes) : Nat := b.sum

def TagValue.total (tv : TagValue) : Nat := bytesTotal tv.bytes
def TagValue.length (tv : TagValue) : Nat := tv.bytes.length

/-- the separator search of `TagValue.parse`: positions 1–4 first (in that order) when `len ≥ 5`,
    else / otherwise `IndexByte`; `-1` and `0` are errors -/
def findSep (raw : Bytes) : Res Nat :=
  let fast : Option Nat :=
    if raw.length ≥ 5 then
      if raw[1]? = some cEq then some 1
      else if raw[2]? = some cEq then some 2
      else if raw[3]? = some cEq then some 3
      else if raw[4]? = some cEq then some 4
      else none
    else none
  match fast with
  | some s => .ok s
  | none =>
    match indexByte raw cEq with
    | none => .err "no ="
    | some 0 => .err "no tag"
    | some s => .ok s

/-- `TagValue.parse`: tag via `atoi(raw[:sep])`, value = `raw[sep+1 : n-1]` (the last byte is *assumed*
    to be the delimiter), bytes = the whole raw slice -/
def TagValue.parse (raw : Bytes) : Res TagValue :=
  match findSep raw with
  | .err e => .err e
  | .fault w => .fault w
  | .ok sep =>
    match sliceR raw 0 sep with
    | .err e => .err e
    | .fault w => .fault w
    | .ok tagB =>
      match atoi tagB with
      | .err e => .err e
      | .fault w => .fault w
      | .ok tag =>
        match sliceR raw (sep + 1) (raw.length - 1) with
        | .err e => .err e
        | .fault w => .fault w
        | .ok value => .ok { tag := tag, value := value, bytes := raw }

end Qfx
