/-
  Qfx.Model.Settings — the section-pointer automaton of settings.go ParseSettings.  Lines are classified by five regular
  expressions (comment/blank, [DEFAULT], [SESSION], key=value, anything else); `key=value` dereferences the pointer to
  the current section.  The regular expressions and AddSession's validation are not modelled (executed only).
-/
import Qfx.Model.Bytes
namespace Qfx.Settings
open Qfx

inductive Line | skip | default_ | session | setting | other
  deriving Repr, DecidableEq, Inhabited

inductive Ptr | nil | global | sess
  deriving Repr, DecidableEq, Inhabited

/-- one line; `guarded` = after the `fix:` that rejects a setting outside any section -/
def stepLine (guarded : Bool) (p : Ptr) : Line → Res Ptr
  | .skip => .ok p
  | .default_ => .ok .global
  | .session => .ok .sess
  | .setting =>
    match p with
    | .nil => if guarded then .err "setting outside of a section" else .fault "nil pointer dereference"
    | p => .ok p
  | .other => .err "error parsing line"

def run (guarded : Bool) : Ptr → List Line → Res Ptr
  | p, [] => .ok p
  | p, l :: ls =>
    match stepLine guarded p l with
    | .ok p' => run guarded p' ls
    | .err e => .err e
    | .fault w => .fault w

end Qfx.Settings
