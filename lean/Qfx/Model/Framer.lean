/-
  Qfx.Model.Framer — the stream framer, parser.go, function by function.

  State of the Go parser:   bigBuffer []byte, buffer []byte (a window into bigBuffer), reader io.Reader.
  Model state `P`:
    big    = len(p.bigBuffer)                       (= its capacity: it is always `make([]byte, n)`)
    buf    = the contents of p.buffer               (len(p.buffer) = buf.length)
    spare  = cap(p.buffer) - len(p.buffer)          (the window always runs to the end of bigBuffer, so
                                                     re-slicing `p.buffer[k:]` keeps `spare` and drops k bytes)
    rd     = the io.Reader: the chunks it has not served yet + whether it reports io.EOF together with the
             last bytes or on a separate (0, EOF) call
  Every Go slice expression whose bounds are not syntactically safe is an explicit check that yields `.fault`
  (Go would panic, or read stale bytes between len and cap).  A read into a zero-length slice is a fault too:
  the reader would answer (0, nil) and `findIndexAfterOffset` would spin for ever.
  Offsets are `Int` where Go computes them from the wire (`offset + length`, 64-bit wrap-around), `Nat` where
  they come out of a search.
-/
import Qfx.Model.Bytes
namespace Qfx.Framer
open Qfx

/-- parser.go `defaultBufSize` -/
def defaultBufSize : Nat := 4096

/-- the three needles; in parser.go the SOH bytes of `"\x019="` are written raw -/
def dBegin : Bytes := [56, 61]          -- "8="
def dLen : Bytes := [1, 57, 61]         -- SOH "9="
def dCk : Bytes := [1, 49, 48, 61]      -- SOH "10="
def dSOH : Bytes := [1]                 -- SOH

/-- `bytes.Index(s, d)`: index of the first occurrence of `d` in `s` -/
def indexOf (d : Bytes) : Bytes → Option Nat
  | [] => if d.isEmpty then some 0 else none
  | x :: xs => if d.isPrefixOf (x :: xs) then some 0 else (indexOf d xs).map (· + 1)

/-! ## the reader -/

structure Reader where
  chunks : List Bytes     -- what successive Read calls will hand out (a chunk larger than the room is served in pieces)
  eofd : Bool             -- true: the last bytes are returned together with the final error
  endErr : String := "eof" -- the error the reader ends with: io.EOF ("eof") or a connection error ("io")
  deriving Repr

/-- `Read(p)` with `len(p) = room > 0`: (bytes delivered, err != nil, reader afterwards) -/
def Reader.read (r : Reader) (room : Nat) : Bytes × Bool × Reader :=
  match r.chunks with
  | [] => ([], true, r)                                    -- (0, r.endErr)
  | c :: cs =>
    let k := min c.length room
    let rest := if k = c.length then cs else c.drop k :: cs
    (c.take k, r.eofd && rest.isEmpty, { r with chunks := rest })

/-- termination measure of the refill loops: every Read either fails or lowers it -/
def Reader.weight (r : Reader) : Nat := (r.chunks.map (fun c => c.length + 1)).sum

/-! ## the parser -/

structure P where
  big : Nat
  buf : Bytes
  spare : Nat
  rd : Reader
  deriving Repr

/-- `newParser(reader)` : nil buffers -/
def P.init (rd : Reader) : P := { big := 0, buf := [], spare := 0, rd := rd }

/-- unread + buffered bytes: what `readLoop` still has to go through -/
def P.weight (p : P) : Nat := p.buf.length + p.rd.weight

/-- first half of parser.go `readMore`: make room when `len(p.buffer) == cap(p.buffer)` -/
def grow (p : P) : P :=
  if p.spare = 0 then                                    -- len(p.buffer) == cap(p.buffer)
    if p.big = 0 then                                    -- first use: newBuffer = bigBuffer[0:0]; copy copies len(newBuffer) = 0 bytes
      { p with big := defaultBufSize, buf := [], spare := defaultBufSize }
    else if 2 * p.buf.length ≤ p.big then                -- shift to the front: bigBuffer[0:len(buffer)]
      { p with spare := p.big - p.buf.length }
    else                                                 -- reallocate twice the size
      { p with big := 2 * p.buf.length, spare := p.buf.length }
  else p

/-- second half of `readMore`: `n, e := p.reader.Read(p.buffer[len:cap]); p.buffer = p.buffer[:len+n]` -/
def fill (p : P) : Res (Nat × Bool × P) :=
  if p.spare = 0 then .fault "zero-length read: no progress"
  else
    let r := p.rd.read p.spare
    -- n ≤ room by the io.Reader contract, so the re-slice is in range
    .ok (r.1.length, r.2.1, { p with buf := p.buf ++ r.1, spare := p.spare - r.1.length, rd := r.2.2 })

/-- parser.go `readMore` : `(n, err != nil, p)` -/
def readMore (p : P) : Res (Nat × Bool × P) := fill (grow p)

theorem grow_rd (p : P) : (grow p).rd = p.rd := by
  unfold grow; split
  · split
    · rfl
    · split <;> rfl
  · rfl

theorem read_weight (r : Reader) (room : Nat) (hroom : 0 < room) :
    (r.read room).2.2.weight + (r.read room).1.length ≤ r.weight ∧
    (((r.read room).1.length = 0 ∧ (r.read room).2.1 = true) ∨ (r.read room).2.2.weight < r.weight) := by
  unfold Reader.read
  cases hc : r.chunks with
  | nil => simp [Reader.weight, hc]
  | cons c cs =>
    simp only [Reader.weight, hc, List.map_cons, List.sum_cons, List.length_take]
    split
    · constructor
      · omega
      · right; omega
    · rename_i hk
      simp only [List.map_cons, List.sum_cons, List.length_drop]
      constructor
      · omega
      · right; omega

theorem grow_buf_le (p : P) : (grow p).buf.length ≤ p.buf.length := by
  unfold grow; split
  · split
    · simp
    · split <;> simp
  · simp

theorem readMore_weight {p : P} {n : Nat} {e : Bool} {p' : P} (h : readMore p = .ok (n, e, p')) :
    p'.weight ≤ p.weight ∧ ((n = 0 ∧ e = true) ∨ p'.rd.weight < p.rd.weight) := by
  unfold readMore fill at h
  split at h
  · cases h
  · rename_i hsp
    simp only [Res.ok.injEq, Prod.mk.injEq] at h
    obtain ⟨hn, he, hp⟩ := h
    subst hp hn he
    simp only [P.weight, List.length_append]
    have hb := grow_buf_le p
    rw [← grow_rd p]
    have := read_weight (grow p).rd (grow p).spare (by omega)
    constructor
    · omega
    · exact this.2

/-- the loop of `findIndexAfterOffset` for an offset that is not negative -/
def findIdx (offset : Nat) (delim : Bytes) (p : P) : Res (Nat × P) :=
  if offset > p.buf.length then
    match h : readMore p with
    | .ok (n, e, p') =>
      if hne : n = 0 ∧ e = true then .err p.rd.endErr else findIdx offset delim p'
    | .err x => .err x
    | .fault w => .fault w
  else
    match indexOf delim (p.buf.drop offset) with         -- bytes.Index(p.buffer[offset:], delim)
    | some i => .ok (i + offset, p)
    | none =>
      match h : readMore p with
      | .ok (n, e, p') =>
        if hne : n = 0 ∧ e = true then .err p.rd.endErr else findIdx offset delim p'
      | .err x => .err x
      | .fault w => .fault w
termination_by p.rd.weight
decreasing_by
  all_goals
    rcases (readMore_weight h).2 with h1 | h1
    · exact absurd h1 hne
    · exact h1

/-- parser.go `findIndexAfterOffset`: a negative offset passes the `offset > len` test and panics in `p.buffer[offset:]` -/
def findIndexAfterOffset (offset : Int) (delim : Bytes) (p : P) : Res (Nat × P) :=
  if offset < 0 then .fault "slice bounds out of range" else findIdx offset.toNat delim p

/-- parser.go `findStart` -/
def findStart (p : P) : Res (Nat × P) := findIndexAfterOffset 0 dBegin p

/-- parser.go `findEndAfterOffset` -/
def findEndAfterOffset (offset : Int) (p : P) : Res (Nat × P) :=
  match findIndexAfterOffset offset dCk p with
  | .ok (index, p1) =>
    match findIndexAfterOffset ((index : Int) + 1) dSOH p1 with
    | .ok (index2, p2) => .ok (index2 + 1, p2)
    | .err x => .err x
    | .fault w => .fault w
  | .err x => .err x
  | .fault w => .fault w

/-- parser.go `jumpLength`; `guarded = true` is the code after the `fix:` commit (a BodyLength whose end offset
    overflows `int` is an invalid length), `guarded = false` the original arithmetic. -/
def jumpLengthG (guarded : Bool) (p : P) : Res (Int × P) :=
  match findIndexAfterOffset 0 dLen p with
  | .ok (li, p1) =>
    let lengthIndex := li + 3
    match findIndexAfterOffset lengthIndex dSOH p1 with
    | .ok (offset, p2) =>
      if offset = lengthIndex then .err "No length given"
      else if ¬ (lengthIndex ≤ offset ∧ offset ≤ p2.buf.length) then .fault "slice bounds out of range"
      else
        match atoi ((p2.buf.take offset).drop lengthIndex) with    -- atoi(p.buffer[lengthIndex:offset])
        | .ok length =>
          if length ≤ 0 then .err "Invalid length"
          else if guarded && decide (wrap64 ((offset : Int) + length) < (offset : Int)) then .err "Invalid length"
          else .ok (wrap64 ((offset : Int) + length), p2)
        | .err x => .err x
        | .fault w => .fault w
    | .err x => .err x
    | .fault w => .fault w
  | .err x => .err x
  | .fault w => .fault w

/-- parser.go `ReadMessage` -/
def readMessageG (guarded : Bool) (p : P) : Res (Bytes × P) :=
  match findStart p with
  | .ok (start, p1) =>
    if start > p1.buf.length then .fault "slice bounds out of range"      -- p.buffer = p.buffer[start:]
    else
      let p2 : P := { p1 with buf := p1.buf.drop start }
      match jumpLengthG guarded p2 with
      | .ok (index, p3) =>
        match findEndAfterOffset index p3 with
        | .ok (index, p4) =>
          if index > p4.buf.length then .fault "slice bounds out of range"  -- p.buffer[:index], p.buffer[index:]
          else .ok (p4.buf.take index, { p4 with buf := p4.buf.drop index })
        | .err x => .err x
        | .fault w => .fault w
      | .err x => .err x
      | .fault w => .fault w
  | .err x => .err x
  | .fault w => .fault w

def jumpLength := jumpLengthG true
def readMessage := readMessageG true
/-- the tree before the `fix:` commit -/
def jumpLengthOrig := jumpLengthG false
def readMessageOrig := readMessageG false

/-- how a stream ends for `readLoop`: the first error of `ReadMessage` (or a panic) -/
inductive End where
  | err (c : String)
  | fault (w : String)
  deriving Repr, DecidableEq

structure Out where
  frames : List Bytes
  end_ : End
  deriving Repr, DecidableEq

/-! ### `readLoop` terminates: a successful `ReadMessage` shortens buffered + unread bytes -/

theorem findIdx_weight (offset : Nat) (delim : Bytes) (p : P) {i : Nat} {p' : P}
    (h : findIdx offset delim p = .ok (i, p')) : p'.weight ≤ p.weight := by
  fun_induction findIdx offset delim p with
  | case1 p hgt n e p1 hrm hne => simp at h
  | case2 p hgt n e p1 hrm hne ih => exact Nat.le_trans (ih h) (readMore_weight hrm).1
  | case3 p hgt x hrm => simp at h
  | case4 p hgt w hrm => simp at h
  | case5 p hle j hidx => simp only [Res.ok.injEq, Prod.mk.injEq] at h; rw [← h.2]; exact Nat.le_refl _
  | case6 p hle hidx n e p1 hrm hne => simp at h
  | case7 p hle hidx n e p1 hrm hne ih => exact Nat.le_trans (ih h) (readMore_weight hrm).1
  | case8 p hle hidx x hrm => simp at h
  | case9 p hle hidx w hrm => simp at h

theorem findIndexAfterOffset_weight {offset : Int} {delim : Bytes} {p : P} {i : Nat} {p' : P}
    (h : findIndexAfterOffset offset delim p = .ok (i, p')) : p'.weight ≤ p.weight := by
  unfold findIndexAfterOffset at h
  split at h
  · cases h
  · exact findIdx_weight _ _ _ h

theorem findEndAfterOffset_weight {offset : Int} {p : P} {i : Nat} {p' : P}
    (h : findEndAfterOffset offset p = .ok (i, p')) : p'.weight ≤ p.weight ∧ 1 ≤ i := by
  unfold findEndAfterOffset at h
  split at h
  · rename_i index p1 h1
    split at h
    · rename_i index2 p2 h2
      simp only [Res.ok.injEq, Prod.mk.injEq] at h
      rw [← h.2, ← h.1]
      exact ⟨Nat.le_trans (findIndexAfterOffset_weight h2) (findIndexAfterOffset_weight h1), by omega⟩
    · cases h
    · cases h
  · cases h
  · cases h

theorem jumpLengthG_weight {g : Bool} {p : P} {i : Int} {p' : P}
    (h : jumpLengthG g p = .ok (i, p')) : p'.weight ≤ p.weight := by
  unfold jumpLengthG at h
  split at h
  · rename_i li p1 h1
    simp only at h
    split at h
    · rename_i offset p2 h2
      have hw := Nat.le_trans (findIndexAfterOffset_weight h2) (findIndexAfterOffset_weight h1)
      split at h
      · cases h
      · split at h
        · cases h
        · split at h
          · split at h
            · cases h
            · split at h
              · cases h
              · simp only [Res.ok.injEq, Prod.mk.injEq] at h
                rw [← h.2]; exact hw
          · cases h
          · cases h
    · cases h
    · cases h
  · cases h
  · cases h

theorem readMessageG_weight {g : Bool} {p : P} {m : Bytes} {p' : P}
    (h : readMessageG g p = .ok (m, p')) : p'.weight < p.weight := by
  unfold readMessageG findStart at h
  split at h
  · rename_i start p1 h1
    split at h
    · cases h
    · rename_i hstart
      simp only at h
      split at h
      · rename_i index p3 h3
        split at h
        · rename_i index' p4 h4
          split at h
          · cases h
          · rename_i hidx
            simp only [Res.ok.injEq, Prod.mk.injEq] at h
            have w1 := findIndexAfterOffset_weight h1
            have w3 := jumpLengthG_weight h3
            have w4 := findEndAfterOffset_weight h4
            rw [← h.2]
            simp only [P.weight, List.length_drop] at w1 w3 w4 ⊢
            omega
        · cases h
        · cases h
      · cases h
      · cases h
  · cases h
  · cases h

/-- connection.go `readLoop` over the parser: frames delivered until the first error -/
def runG (guarded : Bool) (p : P) : Out :=
  match h : readMessageG guarded p with
  | .ok (m, p') => let o := runG guarded p'; { o with frames := m :: o.frames }
  | .err c => { frames := [], end_ := .err c }
  | .fault w => { frames := [], end_ := .fault w }
termination_by p.weight
decreasing_by exact readMessageG_weight h

/-- the frames (and the terminal error) the parser extracts from a reader -/
def framesReadG (guarded : Bool) (rd : Reader) : Out := runG guarded (P.init rd)
def framesRead := framesReadG true

/-- … from a reader that serves `cs` and ends with io.EOF -/
def framesChunkedG (guarded : Bool) (eofd : Bool) (cs : List Bytes) : Out :=
  framesReadG guarded { chunks := cs, eofd := eofd }

def framesChunked := framesChunkedG true
def framesChunkedOrig := framesChunkedG false

end Qfx.Framer
