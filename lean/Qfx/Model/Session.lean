/-
  Qfx.Model.Session — the session state machine of quickfix, function by function:
  session.go, session_state.go (incl. CheckResetTime / ResetSeqTime), in_session.go, resend_state.go, logon_state.go, logout_state.go,
  pending_timeout.go, latent_state.go, not_session_time.go, memory_store.go (as the abstract store).

  EnableLastMsgSeqNumProcessed (header tag 369) is `OutMsg.last`, filled by `stamp` at the start of `prep`
  (fillDefaultHeader): the MsgSeqNum of the message replied to (`OutMsg.inReplyTo`), else NextTargetMsgSeqNum-1.
  Inbound messages are ordered (tag, value) lists (the harness builds the bytes from the same list);
  outbound messages are `OutMsg` (MsgType, MsgSeqNum, other observed fields).  Application callbacks are
  scripted by fields of the messages themselves (9001 inbound verdict, 9002 ToApp verdict, 9003 ToApp on
  resend).  The clock enters as relations only: `@n` time tokens are `now + n` seconds; the one absolute clock is the
  argument of `Ev.resetTime` (CheckResetTime), in seconds since a UTC midnight, chosen by the harness.
  Deliberately NOT tidied: the places where Go inspects `session.State` by type switch
  (`verifySelect`, `processReject`), `onDisconnect` draining the inbound channel through the old state, etc.
-/
import Qfx.Model.Values
import Qfx.Model.Validate
namespace Qfx.Sess
open Qfx

/-! ## configuration, messages -/

/-- the validator `sessionFactory.newSession` builds (session_factory.go l.96–180): the five `ValidatorSettings`
    (ValidateFieldsOutOfOrder, RejectInvalidMessage, AllowUnknownMessageFields, CheckUserDefinedFields,
    ValidateFieldsHaveValues) and the dictionaries — `app = none`: `NewValidator(settings, nil, nil)`, the default validator;
    `app = some d, tr = none`: setting `DataDictionary`; both: `TransportDataDictionary` + `AppDataDictionary` (FIXT.1.1).
    The same dictionaries guide the parser (`ParseMessageWithDataDictionary` in `stateMachine.Incoming`). -/
structure VCfg where
  app : Option Validate.VDict := none
  tr : Option Validate.VDict := none
  settings : Validate.Settings := Validate.defaultSettings

instance : Inhabited VCfg := ⟨{}⟩
instance : Repr VCfg := ⟨fun v _ =>
  Std.Format.text ("validator(" ++ (if v.app.isSome then "app" else "-") ++ "," ++ (if v.tr.isSome then "tr" else "-") ++ ",")
    ++ repr v.settings ++ Std.Format.text ")"⟩

structure Cfg where
  initiator : Bool := false
  bs : Nat := 2                 -- 0..4 = FIX.4.0..FIX.4.4, 5 = FIXT.1.1 (ordered as Go compares the strings)
  sender : String := "SND"
  target : String := "TGT"
  chunk : Nat := 0
  resetOnLogon : Bool := false
  resetOnLogout : Bool := false
  resetOnDisconnect : Bool := false
  refreshOnLogon : Bool := false
  persist : Bool := true
  skipLatency : Bool := false
  hb : Int := 30                -- configured HeartBtInt (seconds); acceptors without override start at 0
  hbOverride : Bool := false
  applVer : String := ""
  /-- after the `fix:` the type switches on session.State look through pendingTimeout -/
  lookThroughPending : Bool := true
  /-- ResetSeqTime: seconds of the (UTC) day at which the numbers are reset by a mid-connection Logon; `none` = not enabled -/
  resetSeqTime : Option Nat := none
  /-- EnableLastMsgSeqNumProcessed: every outbound header carries tag 369 -/
  lastSeqProcessed : Bool := false
  /-- the message validator (settings + data dictionaries) -/
  validator : VCfg := {}
  /-- EnableNextExpectedMsgSeqNum: the Logons we send carry tag 789, the peer's 789 is evaluated by `handleLogon` -/
  nextExpected : Bool := false
  deriving Repr, Inhabited

def bsName : Nat → String
  | 0 => "FIX.4.0" | 1 => "FIX.4.1" | 2 => "FIX.4.2" | 3 => "FIX.4.3" | 4 => "FIX.4.4" | _ => "FIXT.1.1"

abbrev Fields := List (Nat × String)

def Fields.get? (f : Fields) (t : Nat) : Option String := (f.find? (·.1 == t)).map (·.2)
def Fields.has (f : Fields) (t : Nat) : Bool := f.any (·.1 == t)
def Fields.set (f : Fields) (t : Nat) (v : String) : Fields :=
  if f.has t then f.map (fun p => if p.1 == t then (t, v) else p) else f ++ [(t, v)]

/-- inbound message: wire-ordered fields without 9 and 10 -/
structure InMsg where
  f : Fields
  deriving Repr, Inhabited, BEq

structure OutMsg where
  kind : String          -- 35
  seq : Int              -- 34
  f : Fields             -- further fields
  /-- header tag 369 (LastMsgSeqNumProcessed), set by `fillDefaultHeader` when the option is on -/
  last : Option Int := none
  /-- the message is built in reply to an inbound message (`inReplyTo ≠ nil`); `last` then holds that message's
      MsgSeqNum when it is readable -/
  re : Bool := false
  deriving Repr, Inhabited, BEq, DecidableEq

def isAdminKind (k : String) : Bool :=
  k == "0" || k == "A" || k == "1" || k == "2" || k == "3" || k == "4" || k == "5"

/-! ## field readers (FieldMap.GetField / GetInt / GetTime outcomes) -/

inductive Got (α : Type) | missing | garbled | val (a : α)
  deriving Repr, Inhabited

def strBytes (s : String) : Bytes := s.toList.map Char.toNat

def getInt (m : InMsg) (t : Nat) : Got Int :=
  match m.f.get? t with
  | none => .missing
  | some v => match readInt (strBytes v) with
    | .ok i => .val i
    | _ => .garbled

def getBool (m : InMsg) (t : Nat) : Got Bool :=
  match m.f.get? t with
  | none => .missing
  | some v => match readBool (strBytes v) with
    | .ok b => .val b
    | _ => .garbled

/-- time tokens: `@n` = now + n seconds (a valid UTCTimestamp on the wire); anything else is not a timestamp -/
def getTime (m : InMsg) (t : Nat) : Got Int :=
  match m.f.get? t with
  | none => .missing
  | some v => match v.toList with
    | '@' :: r => match (String.ofList r).toInt? with
      | some i => .val i
      | none => .garbled
    | _ => .garbled

def kindOf (m : InMsg) : String := (m.f.get? 35).getD ""

/-- `…InReplyTo(msg, inReplyTo)` with `inReplyTo ≠ nil`: remember the MsgSeqNum of the message replied to (GetInt; an
    unreadable number leaves the tag out) -/
def OutMsg.inReplyTo (o : OutMsg) (m : InMsg) : OutMsg :=
  { o with re := true, last := match getInt m 34 with | .val n => some n | _ => none }

/-! ## rejects -/

inductive Rej
  | tooHigh (recv exp : Int)
  | tooLow (recv exp : Int)
  | badBeginString
  | plain (reason : Nat) (refTag : Option Nat) (business : Bool)
  | rejectLogon
  deriving Repr, Inhabited

def reqMissing (t : Nat) : Rej := .plain 1 (some t) false
def noValue (t : Nat) : Rej := .plain 4 (some t) false
def badFormat (t : Nat) : Rej := .plain 6 (some t) false
/-- FieldMap.GetField on an absent tag: ConditionallyRequiredFieldMissing (a business reject, reason 8... encoded as 8) -/
def condMissing (t : Nat) : Rej := .plain 8 (some t) true

/-! ## state -/

inductive SState
  | latent | notSessionTime | logon | logout | inSession
  | resend (stash : List (Int × InMsg)) (cur fin : Int)
  | pendingIn
  | pendingResend (stash : List (Int × InMsg)) (cur fin : Int)
  deriving Repr, Inhabited

def SState.loggedOn : SState → Bool
  | .inSession | .resend .. | .pendingIn | .pendingResend .. => true
  | _ => false
def SState.connected : SState → Bool
  | .latent | .notSessionTime => false
  | _ => true
def SState.sessionTime : SState → Bool
  | .notSessionTime => false
  | _ => true
def SState.name : SState → String
  | .latent => "Latent" | .notSessionTime => "NotSessionTime" | .logon => "Logon" | .logout => "Logout"
  | .inSession => "InSession" | .resend .. => "Resend" | .pendingIn => "Pending:InSession" | .pendingResend .. => "Pending:Resend"

structure Store where
  sender : Int := 1
  target : Int := 1
  msgs : List (Int × OutMsg) := []     -- association list, latest binding first
  epoch : Nat := 0
  deriving Repr, Inhabited

def Store.reset (st : Store) : Store := { sender := 1, target := 1, msgs := [], epoch := st.epoch + 1 }
def Store.lookup (st : Store) (n : Int) : Option OutMsg := (st.msgs.find? (·.1 == n)).map (·.2)

inductive Obs
  | wire (m : OutMsg)                 -- written to the connection (followed by re-arming the heartbeat timer)
  | fromApp (seq : String) (targetAtCall : Int)
  | fromAdmin (kind : String) (seq : String)
  | onLogon | onLogout
  | armPeer (ms : Int)
  | closed
  -- mutations of the message store, in their order relative to everything else
  | reset | saved (seq : Int) (kind : String) (resendable : Bool) | incS | incT | setT (n : Int) | refresh
  deriving Repr, Inhabited, DecidableEq, BEq

structure Sess where
  cfg : Cfg
  st : SState := .latent
  store : Store := {}
  toSend : List OutMsg := []
  out : Bool := false              -- messageOut ≠ nil
  inboxOpen : Bool := false        -- messageIn ≠ nil
  inbox : List InMsg := []         -- buffered, not yet processed (none = garbage marker handled by the driver)
  sentReset : Bool := false
  pendingStop : Bool := false
  stopped : Bool := false
  hb : Int := 0
  log : List Obs := []             -- observations of the current event, newest first
  /-- lastCheckedResetSeqTime (seconds on the harness clock); `none` = the zero time.Time -/
  lastCheckedReset : Option Int := none
  /-- tag 369 of the gap fills answering the ResendRequest being processed (generateSequenceReset's `inReplyTo`) -/
  replyLast : Option Int := none
  deriving Inhabited

def Sess.emit (s : Sess) (o : Obs) : Sess := { s with log := o :: s.log }

/-! named field updates (keeps unfolded terms small in proofs) -/
def Sess.setToSend (s : Sess) (q : List OutMsg) : Sess := { s with toSend := q }
def Sess.setSt (s : Sess) (st : SState) : Sess := { s with st := st }
def Sess.setOut (s : Sess) (b : Bool) : Sess := { s with out := b }
def Sess.setInbox (s : Sess) (ib : List InMsg) : Sess := { s with inbox := ib }
def Sess.closeInbox (s : Sess) : Sess := { s with inboxOpen := false, inbox := [] }
def Sess.setSentReset (s : Sess) (b : Bool) : Sess := { s with sentReset := b }
def Sess.setPendingStop (s : Sess) : Sess := { s with pendingStop := true }
def Sess.setStopped (s : Sess) : Sess := { s with stopped := true }
def Sess.setHb (s : Sess) (h : Int) : Sess := { s with hb := h }
def Sess.setTarget (s : Sess) (n : Int) : Sess := { s with store := { s.store with target := n } }
def Sess.clearLog (s : Sess) : Sess := { s with log := [] }
def Sess.setLastChecked (s : Sess) (now : Int) : Sess := { s with lastCheckedReset := some now }
def Sess.setReplyLast (s : Sess) (v : Option Int) : Sess := { s with replyLast := v }
def Sess.openConn (s : Sess) : Sess := { s with out := true, inboxOpen := true, inbox := [], sentReset := false }

/-- store mutations are observed (the harness wraps the real store) -/
def Sess.storeReset (s : Sess) : Sess := { s with store := s.store.reset }.emit .reset

def resendable (m : OutMsg) : Bool := m.f.get? 9003 != some "n"

def Sess.persistOut (s : Sess) (seq : Int) (m : OutMsg) : Sess :=
  if s.cfg.persist then
    { s with store := { s.store with msgs := (seq, m) :: s.store.msgs, sender := s.store.sender + 1 } }.emit
      (.saved seq m.kind (resendable m))
  else { s with store := { s.store with sender := s.store.sender + 1 } }.emit .incS

/-! ## sending -/

/-- sendQueued: with a connection every queued message is written in order (each write re-arms the heartbeat
    timer); without one the queue is kept -/
def sendQueued (s : Sess) : Sess :=
  if s.out then { s with log := (s.toSend.map Obs.wire).reverse ++ s.log, toSend := [] } else s

/-- not logged on: `queueForSend(msg)` — the `inReplyTo` argument is dropped there (prepMessageForSend(msg, nil)) -/
def OutMsg.asNew (m : OutMsg) : OutMsg := { m with re := false }

/-- fillDefaultHeader's tag 369: off ⇒ absent; in reply to a message ⇒ that message's MsgSeqNum (already in `last`);
    otherwise the last inbound number consumed, `NextTargetMsgSeqNum() - 1`, read before anything else happens.
    The reply marker is consumed here: messages that have been through `prep` all have `re = false`. -/
def stamp (s : Sess) (m : OutMsg) : OutMsg :=
  { m with re := false,
           last := if s.cfg.lastSeqProcessed then (if m.re then m.last else some (s.store.target - 1)) else none }

@[simp] theorem asNew_kind (m : OutMsg) : m.asNew.kind = m.kind := rfl
@[simp] theorem asNew_f (m : OutMsg) : m.asNew.f = m.f := rfl
@[simp] theorem asNew_seq (m : OutMsg) : m.asNew.seq = m.seq := rfl
@[simp] theorem inReplyTo_kind (o : OutMsg) (m : InMsg) : (o.inReplyTo m).kind = o.kind := rfl
@[simp] theorem inReplyTo_f (o : OutMsg) (m : InMsg) : (o.inReplyTo m).f = o.f := rfl
@[simp] theorem inReplyTo_seq (o : OutMsg) (m : InMsg) : (o.inReplyTo m).seq = o.seq := rfl
@[simp] theorem stamp_kind (s : Sess) (m : OutMsg) : (stamp s m).kind = m.kind := rfl
@[simp] theorem stamp_f (s : Sess) (m : OutMsg) : (stamp s m).f = m.f := rfl
@[simp] theorem stamp_seq (s : Sess) (m : OutMsg) : (stamp s m).seq = m.seq := rfl
/-- tag 369 of a message sent in reply to `m`: `m`'s MsgSeqNum if readable (option on) -/
theorem stamp_last_reply (s : Sess) (o : OutMsg) (m : InMsg) :
    (stamp s (o.inReplyTo m)).last =
      if s.cfg.lastSeqProcessed then (match getInt m 34 with | .val n => some n | _ => none) else none := rfl
/-- tag 369 of a message not sent in reply to anything: the last inbound number consumed (option on) -/
theorem stamp_last_new (s : Sess) (o : OutMsg) (h : o.re = false) :
    (stamp s o).last = if s.cfg.lastSeqProcessed then some (s.store.target - 1) else none := by
  unfold stamp; simp [h]
theorem stamp_congr (s s' : Sess) (m : OutMsg) (h1 : s'.cfg = s.cfg) (h2 : s'.store.target = s.store.target) :
    stamp s' m = stamp s m := by unfold stamp; rw [h1, h2]
/-- option off: the header is the one the message was built with (no tag 369) -/
theorem stamp_off (s : Sess) (m : OutMsg) (h : s.cfg.lastSeqProcessed = false) (hl : m.last = none) (hr : m.re = false) :
    stamp s m = m := by
  unfold stamp; simp only [h, Bool.false_eq_true, if_false]; cases m; simp_all

/-- prepMessageForSend after fillDefaultHeader: number, callbacks, Logon-reset, persist.  `none` = the application refused (ToApp error) -/
def prepCore (s : Sess) (m : OutMsg) : Option OutMsg × Sess :=
  let seq := s.store.sender
  if isAdminKind m.kind then
    let (s, seq) :=
      if m.kind == "A" && m.f.get? 141 == some "Y" then
        let s := s.storeReset.setSentReset true
        (s, s.store.sender)
      else (s, seq)
    let m := { m with seq := seq }
    (some m, s.persistOut seq m)
  else
    if m.f.get? 9002 == some "dns" then (none, s)
    else
      let m := { m with seq := seq }
      (some m, s.persistOut seq m)

/-- prepMessageForSend -/
def prep (s : Sess) (m : OutMsg) : Option OutMsg × Sess := prepCore s (stamp s m)

def queueForSend (s : Sess) (m : OutMsg) : Sess :=
  match prep s m with
  | (none, s) => s
  | (some m, s) => s.setToSend (s.toSend ++ [m])

def sendInReplyTo (s : Sess) (m : OutMsg) : Sess :=
  if !s.st.loggedOn then queueForSend s m.asNew
  else match prep s m with
    | (none, s) => s
    | (some m, s) => sendQueued (s.setToSend (s.toSend ++ [m]))

def dropAndSend (s : Sess) (m : OutMsg) : Sess :=
  match prep s m with
  | (none, s) => s
  | (some m, s) => sendQueued (s.setToSend [m])

/-- EnqueueBytesAndSend (after `fix:` 7049454: not logged on ⇒ the queued first-time messages are dropped first) -/
def enqueueAndSend (s : Sess) (m : OutMsg) : Sess :=
  let s := if !s.st.loggedOn then s.setToSend [] else s
  sendQueued (s.setToSend (s.toSend ++ [m]))

def dropAndReset (s : Sess) : Sess := (s.setToSend []).storeReset

def mkOut (kind : String) (f : Fields) : OutMsg := { kind := kind, seq := 0, f := f }

/-- tag 789 (NextExpectedMsgSeqNum) of an inbound Logon as `Body.GetInt` reads it (absent and unreadable are alike to the code) -/
def peerNext (m : InMsg) : Option Int := match getInt m 789 with | .val n => some n | _ => none

def nxTag : Option Int → Fields
  | some n => [(789, toString n)]
  | none => []

/-- the Logon of `sendLogonInReplyTo` with `nx` in tag 789 -/
def logonMsgX (s : Sess) (reset : Bool) (nx : Option Int) : OutMsg :=
  mkOut "A" ([(108, toString s.hb)] ++ (if reset then [(141, "Y")] else [])
             ++ (if s.cfg.applVer.isEmpty then [] else [(1137, s.cfg.applVer)]) ++ nxTag nx)

/-- tag 789 of a Logon sent on our own account (`inReplyTo = nil`: connect, ResetSeqTime): `NextTargetMsgSeqNum() + 1`, read
    before `prepMessageForSend` resets the store for a Logon carrying 141=Y (session.go l.203–205; the code as it is — see
    notes/proofs_b_nx.md, observation 1) -/
def nxOwn (s : Sess) : Option Int := if s.cfg.nextExpected then some (s.store.target + 1) else none

/-- tag 789 of the acceptor's reply: only when the Logon answered carries a readable 789; `NextTargetMsgSeqNum() + 1` —
    the number expected once the Logon being answered is counted -/
def nxReply (s : Sess) (m : InMsg) : Option Int :=
  if s.cfg.nextExpected && (peerNext m).isSome then some (s.store.target + 1) else none

def logonMsg (s : Sess) (reset : Bool) : OutMsg := logonMsgX s reset (nxOwn s)

/-- the Logon answering `m` -/
def logonMsgRe (s : Sess) (reset : Bool) (m : InMsg) : OutMsg := logonMsgX s reset (nxReply s m)

def sendLogonInReplyTo (s : Sess) (reset : Bool) : Sess := dropAndSend s (logonMsg s reset)

/-- sendLogonInReplyTo(reset, msg) with `msg ≠ nil`: the acceptor's answer to a Logon -/
def sendLogonRe (s : Sess) (reset : Bool) (m : InMsg) : Sess := dropAndSend s ((logonMsgRe s reset m).inReplyTo m)

/-- the peer's tag 789 is above `n` (EnableNextExpectedMsgSeqNum on, 789 readable) -/
def nxAbove (cfg : Cfg) (m : InMsg) (n : Int) : Bool :=
  cfg.nextExpected && (match peerNext m with | some x => decide (x > n) | none => false)

/-- `sendLogonInReplyTo(_, msg)` refuses (RejectLogon) when the peer's 789 is above our next outbound number:
    "we can't resend what we never sent" -/
def nxRefuses (s : Sess) (m : InMsg) : Bool := nxAbove s.cfg m s.store.sender

def shouldSendReset (s : Sess) : Bool :=
  if s.cfg.bs < 1 then false
  else (s.cfg.resetOnLogon || s.cfg.resetOnDisconnect || s.cfg.resetOnLogout) && s.store.target == 1 && s.store.sender == 1

def sendLogout (s : Sess) : Sess := sendInReplyTo s (mkOut "5" [])

/-- initiateLogout: Logout + (a LogoutTimeout timer the harness injects itself) -/
def initiateLogout (s : Sess) : Sess := sendLogout s

def infinityEnd (cfg : Cfg) : Int := if cfg.bs < 2 then 999999 else 0

/-- sendResendRequest(beginSeq, endSeq): returns (currentResendRangeEnd, resendRangeEnd) -/
def sendResendRequest (s : Sess) (b e : Int) : Sess × Int × Int :=
  let endSeqNo := if s.cfg.chunk != 0 then b + s.cfg.chunk - 1 else e
  let (cur, endSeqNo) := if endSeqNo < e then (endSeqNo, endSeqNo) else (0, infinityEnd s.cfg)
  (sendInReplyTo s (mkOut "2" [(7, toString b), (16, toString endSeqNo)]), cur, e)

/-! ## reverse routing and Reject construction (message.go reverseRoute, session.go doReject) -/

def reverseRoute (m : InMsg) : Fields :=
  let cp (src dst : Nat) : Fields :=
    match m.f.get? src with
    | some v => if v.isEmpty then [] else [(dst, v)]
    | none => []
  cp 49 56 ++ cp 50 57 ++ cp 142 143 ++ cp 56 49 ++ cp 57 50 ++ cp 143 142
  ++ cp 115 128 ++ cp 116 129 ++ cp 128 115 ++ cp 129 116
  ++ (match m.f.get? 8 with
      | some b => if b != "FIX.4.0" then cp 144 145 ++ cp 145 144 else []
      | none => [])

/-- the fields of the Reject other than routing; 49/56 are overwritten by fillDefaultHeader -/
def rejectMsg (cfg : Cfg) (m : InMsg) (reason : Nat) (refTag : Option Nat) (business : Bool) : OutMsg :=
  let routing := (reverseRoute m).filter (fun p => p.1 != 49 && p.1 != 56)
  let refSeq : Fields := match getInt m 34 with
    | .val i => [(45, toString i)]
    | _ => []
  if cfg.bs ≥ 2 then
    let refType : Fields := [(372, kindOf m)]
    if business then
      mkOut "j" (routing ++ [(380, toString reason)] ++ refType ++ refSeq)
    else
      let rs : Fields := if reason > 11 && cfg.bs == 2 then [] else [(373, toString reason)]
      let rt : Fields := match refTag with | some t => [(371, toString t)] | none => []
      mkOut "3" (routing ++ rs ++ rt ++ refType ++ refSeq)
  else
    mkOut "3" (routing ++ refSeq)

def doReject (s : Sess) (m : InMsg) (reason : Nat) (refTag : Option Nat) (business : Bool) : Sess :=
  sendInReplyTo s ((rejectMsg s.cfg m reason refTag business).inReplyTo m)

/-! ## verification (session.go verifySelect and the checks) -/

/-- is the *current* state literally a resendState (what the Go type switches see)?  With
    `lookThroughPending` a pendingTimeout wrapping a resendState counts too. -/
def curResend (s : Sess) : Option (List (Int × InMsg) × Int × Int) :=
  match s.st with
  | .resend st c f => some (st, c, f)
  | .pendingResend st c f => if s.cfg.lookThroughPending then some (st, c, f) else none
  | _ => none

def checkBeginString (s : Sess) (m : InMsg) : Option Rej :=
  match m.f.get? 8 with
  | none => some (reqMissing 8)
  | some b => if b != bsName s.cfg.bs then some .badBeginString else none

def checkCompID (s : Sess) (m : InMsg) : Option Rej :=
  match m.f.get? 49, m.f.get? 56 with
  | none, _ => some (reqMissing 49)
  | _, none => some (reqMissing 56)
  | some snd, some tgt =>
    if tgt.isEmpty then some (noValue 56)
    else if snd.isEmpty then some (noValue 49)
    else if s.cfg.sender != tgt || s.cfg.target != snd then some (.plain 9 none false)
    else none

def checkSendingTime (s : Sess) (m : InMsg) : Option Rej :=
  if s.cfg.skipLatency then none else
  match getTime m 52 with
  | .missing => some (reqMissing 52)
  | .garbled => some (badFormat 52)
  | .val d => if d ≤ -120 || d ≥ 120 then some (.plain 10 none false) else none

def checkTooLow (s : Sess) (m : InMsg) : Option Rej :=
  match getInt m 34 with
  | .missing => some (reqMissing 34)
  | .garbled => some (badFormat 34)
  | .val n => if n < s.store.target then some (.tooLow n s.store.target) else none

def checkTooHigh (s : Sess) (m : InMsg) : Option Rej :=
  match getInt m 34 with
  | .missing => some (reqMissing 34)
  | .garbled => some (badFormat 34)
  | .val n => if n > s.store.target then some (.tooHigh n s.store.target) else none

/-! ### message validation (validation.go through `Qfx.Validate`, the validator model of C15)

The validator reads a parsed `*Message`: `msg.fields` in wire order — which includes BodyLength (9) behind the first field
and CheckSum (10) at the end, both absent from `InMsg` — and the three field maps filled by the parser.  The dictionaries
of this family have no repeating groups, so the parser (`doParsing`) files every field by its tag class alone:
`isHeaderField` / `isTrailerField` (tag.go, or a member of the transport dictionary's header / trailer), body otherwise. -/

/-- a timestamp the harness could have written for an `@n` token (any in-grammar value behaves alike) -/
def tsOnWire : Bytes := [50, 48, 50, 52, 48, 51, 48, 52, 45, 48, 48, 58, 48, 48, 58, 48, 48, 46, 48, 48, 48]

/-- the bytes of a value on the wire: the harness replaces `@n` (n a decimal number) by the UTCTimestamp now+n -/
def wireValue (v : String) : Bytes :=
  match v.toList with
  | '@' :: r => if (String.ofList r).toInt?.isSome then tsOnWire else strBytes v
  | _ => strBytes v

def tvOf (p : Nat × String) : Validate.TV := { tag := p.1, value := wireValue p.2 }

/-- `msg.fields`: BodyLength is the second field of every message that parses, CheckSum the last (their values are in
    their types' grammars; the validator looks at nothing else) -/
def wireFields (m : InMsg) : List Validate.TV :=
  match m.f with
  | [] => [{ tag := 9, value := [48] }, { tag := 10, value := [48, 48, 48] }]
  | p :: r => tvOf p :: { tag := 9, value := [48] } :: (r.map tvOf ++ [{ tag := 10, value := [48, 48, 48] }])

/-- message.go isHeaderField(tag, transportDataDictionary) -/
def isHeaderField (tr : Option Validate.VDict) (t : Nat) : Bool :=
  Validate.isHeaderTag t ||
    (match tr with
     | some d => (match d.header with | some h => (h.field? t).isSome | none => false)
     | none => false)

/-- message.go isTrailerField(tag, transportDataDictionary) -/
def isTrailerField (tr : Option Validate.VDict) (t : Nat) : Bool :=
  Validate.isTrailerTag t ||
    (match tr with
     | some d => (match d.trailer with | some h => (h.field? t).isSome | none => false)
     | none => false)

/-- the parsed message the validator sees (`tr`: the session's transport dictionary, nil unless FIXT.1.1) -/
def toPMsg (tr : Option Validate.VDict) (m : InMsg) : Validate.PMsg :=
  let fs := wireFields m
  let tags := fs.map (·.tag)
  { fields := fs
    hdr := tags.filter (isHeaderField tr)
    body := tags.filter (fun t => !isHeaderField tr t && !isTrailerField tr t)
    trl := tags.filter (fun t => !isHeaderField tr t && isTrailerField tr t) }

/-- `s.Validator.Validate(msg)`: fixValidator with a nil dictionary (`validateFIX(nil, …)`: only `validateFieldContent`),
    fixValidator / fixtValidator with dictionaries (`Qfx.Validate.validate`) -/
def runValidator (v : VCfg) (m : InMsg) : Validate.V Unit :=
  let pm := toPMsg v.tr m
  match v.app with
  | none =>
    if !pm.hdr.contains 35 then Validate.rej 1 35
    else Validate.validateFieldContent pm v.settings.checkHaveValues v.settings.checkOrder
  | some app => Validate.validate app v.tr v.settings pm

/-- a MessageRejectError of the validator as the session sees it: a session-level reject (never a business reject);
    a panic of the validator (a dictionary type outside `validateField`'s switch, a dictionary without header or trailer —
    not produced by the configurations of this family) is kept apart as reason 99 -/
def rejOfV : Validate.V Unit → Option Rej
  | .ok _ => none
  | .error (.reject r) => some (.plain r.reason r.ref false)
  | .error _ => some (.plain 99 none false)

/-- the verdict of the configured validator on an inbound message -/
def validate (cfg : Cfg) (m : InMsg) : Option Rej := rejOfV (runValidator cfg.validator m)

/-- whatever the validator objects to reaches the session as a plain session-level reject (reason, RefTagID) -/
theorem validate_plain {cfg : Cfg} {m : InMsg} {r : Rej} (h : validate cfg m = some r) :
    ∃ reason t, r = .plain reason t false := by
  unfold validate rejOfV at h
  split at h
  · cases h
  · cases h; exact ⟨_, _, rfl⟩
  · cases h; exact ⟨_, _, rfl⟩

/-- the scripted application: verdict carried in tag 9001 of the inbound message -/
def callbackVerdict (m : InMsg) : Option Rej :=
  match m.f.get? 9001 with
  | some "rej" => some (.plain 5 (some 9001) false)
  | some "brej" => some (.plain 3 none true)
  | some "rlogon" => some .rejectLogon
  | _ => none

def seqText (m : InMsg) : String := (m.f.get? 34).getD "-"

/-- verifyMsgAgainstAppImpl: validator, then FromAdmin / FromApp (observed) -/
def verifyAppImpl (s : Sess) (m : InMsg) : Sess × Option Rej :=
  match validate s.cfg m with
  | some r => (s, some r)
  | none =>
    let k := kindOf m
    let s := if isAdminKind k then s.emit (.fromAdmin k (seqText m)) else s.emit (.fromApp (seqText m) s.store.target)
    (s, callbackVerdict m)

def verifySelect (s : Sess) (m : InMsg) (tooHigh tooLow appImpl : Bool) : Sess × Option Rej :=
  match checkBeginString s m with
  | some r => (s, some r)
  | none =>
  match checkCompID s m with
  | some r => (s, some r)
  | none =>
  match (if (curResend s).isSome then none else checkSendingTime s m) with
  | some r => (s, some r)
  | none =>
  match (if tooLow then checkTooLow s m else none) with
  | some r => (s, some r)
  | none =>
  match (if tooHigh then checkTooHigh s m else none) with
  | some r => (s, some r)
  | none => if appImpl then verifyAppImpl s m else (s, none)

/-! ## in-session handlers (in_session.go) -/

def incrTarget (s : Sess) : Sess := (s.setTarget (s.store.target + 1)).emit .incT

def stashInsert (st : List (Int × InMsg)) (n : Int) (m : InMsg) : List (Int × InMsg) :=
  (n, m) :: st.filter (·.1 != n)

def doTargetTooLow (s : Sess) (m : InMsg) : Sess × SState :=
  match getBool m 43 with
  | .garbled => (doReject s m 6 (some 43) false, .inSession)
  | pd =>
    let possDup := match pd with | .val b => b | _ => false
    if !possDup then (initiateLogout s, .logout)
    else match getTime m 122 with
      | .missing => (doReject s m 1 (some 122) false, .inSession)
      | .garbled => (doReject s m 6 (some 122) false, .inSession)
      | .val orig =>
        match getTime m 52 with
        | .missing => (incrTarget (doReject s m 8 (some 52) true), .inSession)      -- processReject default branch
        | .garbled => (incrTarget (doReject s m 6 (some 52) false), .inSession)
        | .val st => if st < orig then (initiateLogout (doReject s m 10 none false), .logout) else (s, .inSession)

def processReject (s : Sess) (m : InMsg) (r : Rej) : Sess × SState :=
  match r with
  | .tooHigh recv exp =>
    match curResend s with
    | some (st, c, f) => (s, .resend (stashInsert st recv m) c f)
    | none =>
      let (s, c, f) := sendResendRequest s exp (recv - 1)
      (s, .resend (stashInsert [] recv m) c f)
  | .tooLow _ _ => doTargetTooLow s m
  | .badBeginString => (initiateLogout s, .logout)
  | .rejectLogon => (incrTarget (doReject s m 0 none false), .inSession)
  | .plain reason refTag business =>
    if reason == 9 || reason == 10 then (initiateLogout (doReject s m reason refTag business), .logout)
    else (incrTarget (doReject s m reason refTag business), .inSession)

def gapFill (b e : Int) : OutMsg := { kind := "4", seq := b, f := [(36, toString e), (43, "Y"), (122, "+"), (123, "Y")] }

/-- generateSequenceReset(b, e, inReplyTo): the gap fill with the header of a reply to the ResendRequest being answered
    (tag 369 = its MsgSeqNum, kept in `replyLast` while the request is processed) -/
def gapFillR (s : Sess) (b e : Int) : OutMsg := { gapFill b e with last := s.replyLast }

/-- resendMessages over the stored range; `resent m` = original fields + PossDup + OrigSendingTime -/
def resent (m : OutMsg) : OutMsg := { m with f := (m.f.set 43 "Y").set 122 "+" }

def resendLoop (s : Sess) (seqNum nextSeqNum : Int) : List (Int × OutMsg) → Sess × Int × Int
  | [] => (s, seqNum, nextSeqNum)
  | (n, m) :: rest =>
    if isAdminKind m.kind then resendLoop s seqNum (n + 1) rest
    else if m.f.get? 9003 == some "n" then resendLoop s seqNum (n + 1) rest
    else
      let s := if seqNum != n then enqueueAndSend s (gapFillR s seqNum n) else s
      let s := enqueueAndSend s (resent m)
      resendLoop s (n + 1) (n + 1) rest

/-- IterateMessages(b, e) of the memory store: ascending over the integer range, existing numbers only -/
def Store.range (st : Store) (b e : Int) : List (Int × OutMsg) :=
  if e < b then [] else
  ((List.range (e - b + 1).toNat).filterMap fun (k : Nat) =>
    let n : Int := b + Int.ofNat k
    (st.lookup n).map fun m => (n, m))

def resendMessages (s : Sess) (b e : Int) : Sess :=
  if e < b then s            -- after `fix:` 0fb72e5: nothing for an empty or inverted range
  else if !s.cfg.persist then enqueueAndSend s (gapFillR s b (e + 1))
  else
    let (s, seqNum, next) := resendLoop s b b (s.store.range b e)
    if seqNum != next then enqueueAndSend s (gapFillR s seqNum next) else s

def handleLogout (s : Sess) (m : InMsg) : Sess × SState :=
  match verifySelect s m false false true with
  | (s, some r) => processReject s m r
  | (s, none) =>
    let s := if s.st.loggedOn then sendInReplyTo s ((mkOut "5" []).inReplyTo m) else s
    if s.cfg.resetOnLogout then (dropAndReset s, .latent)
    else if (checkTooLow s m).isSome then (s, .latent)
    else if (checkTooHigh s m).isSome then (s, .latent)
    else (incrTarget s, .latent)

def handleTestRequest (s : Sess) (m : InMsg) : Sess × SState :=
  match verifySelect s m true true true with
  | (s, some r) => processReject s m r
  | (s, none) =>
    let s := match m.f.get? 112 with
      | some id => sendInReplyTo s ((mkOut "0" [(112, id)]).inReplyTo m)
      | none => s
    (incrTarget s, .inSession)

def handleSequenceReset (s : Sess) (m : InMsg) : Sess × SState :=
  match getBool m 123 with
  | .garbled => processReject s m (badFormat 123)
  | g =>
    let gf := match g with | .val b => b | _ => false
    match verifySelect s m gf gf true with
    | (s, some r) => processReject s m r
    | (s, none) =>
      match getInt m 36 with
      | .val n =>
        if n > s.store.target then ((s.setTarget n).emit (.setT n), .inSession)
        else if n < s.store.target then (doReject s m 5 none false, .inSession)
        else (s, .inSession)
      | _ => (s, .inSession)

/-- tag 369 of a message built by `fillDefaultHeader(_, inReplyTo = m)` -/
def replyLastOf (s : Sess) (m : InMsg) : Option Int :=
  if s.cfg.lastSeqProcessed then (match getInt m 34 with | .val n => some n | _ => none) else none

def handleResendRequest (s : Sess) (m : InMsg) : Sess × SState :=
  match verifySelect s m false false true with
  | (s, some r) => processReject s m r
  | (s, none) =>
    match getInt m 7 with
    | .val b =>
      (match getInt m 16 with
       | .val e =>
         let expected := s.store.sender
         let e := if (s.cfg.bs ≥ 2 && e == 0) || (s.cfg.bs ≤ 2 && e == 999999) || e ≥ expected then expected - 1 else e
         let s := resendMessages (s.setReplyLast (replyLastOf s m)) b e
         if (checkTooLow s m).isSome then (s, .inSession)
         else if (checkTooHigh s m).isSome then (s, .inSession)
         else (incrTarget s, .inSession)
       | _ => processReject s m (reqMissing 16))
    | _ => processReject s m (reqMissing 7)

/-- session.handleLogon; `Except`-like: left = error class -/
inductive LogonErr | rej (r : Rej) | other
  deriving Repr, Inhabited

/-- the acceptor's part of handleLogon as it was before `fix:` cbdc133: every Logon is answered — also the peer's answer
    to the reset Logon the acceptor sent itself (ResetSeqTime), with a second reset Logon numbered 1 -/
def logonReplyOrig (s : Sess) (m : InMsg) (flag : Bool) : Sess :=
  if !s.cfg.initiator then
    let s := if !s.cfg.hbOverride then (match getInt m 108 with | .val h => s.setHb h | _ => s) else s
    sendLogonRe s flag m
  else s

/-- the acceptor's part of handleLogon: adopt the peer's HeartBtInt unless overridden, reply with a Logon — unless, in an
    established session, the Logon carries ResetSeqNumFlag=Y while `sentReset` is up: that is the peer's answer to the
    reset Logon we sent ourselves, not a logon request (after `fix:` cbdc133) -/
def logonReply (s : Sess) (m : InMsg) (flag : Bool) : Sess :=
  if !s.cfg.initiator then
    let s := if !s.cfg.hbOverride then (match getInt m 108 with | .val h => s.setHb h | _ => s) else s
    if flag && s.sentReset && s.st.loggedOn then s else sendLogonRe s flag m
  else s

/-- the implied gap fill of handleLogon: `generateSequenceReset(b, e, *msg)` — a SequenceReset-GapFill with PossDupFlag whose
    header is that of a reply to the Logon (tag 369) -/
def gapFillRe (s : Sess) (m : InMsg) (b e : Int) : OutMsg := { gapFill b e with last := replyLastOf s m }

theorem nxAbove_off (cfg : Cfg) (m : InMsg) (n : Int) (h : cfg.nextExpected = false) : nxAbove cfg m n = false := by
  unfold nxAbove; rw [h]; rfl
theorem nxAbove_absent (cfg : Cfg) (m : InMsg) (n : Int) (h : peerNext m = none) : nxAbove cfg m n = false := by
  unfold nxAbove; rw [h]; simp
theorem nxRefuses_off (s : Sess) (m : InMsg) (h : s.cfg.nextExpected = false) : nxRefuses s m = false := nxAbove_off _ m _ h
theorem nxRefuses_absent (s : Sess) (m : InMsg) (h : peerNext m = none) : nxRefuses s m = false := nxAbove_absent _ m _ h

theorem Fields.has_of_get? (f : Fields) (t : Nat) (v : String) (h : f.get? t = some v) : f.has t = true := by
  unfold Fields.get? at h
  unfold Fields.has
  cases hf : f.find? (·.1 == t) with
  | none => rw [hf] at h; cases h
  | some p =>
    have h1 : (p.1 == t) = true := List.find?_some (p := fun x : Nat × String => x.1 == t) hf
    exact List.any_eq_true.2 ⟨p, List.mem_of_find?_eq_some hf, h1⟩

/-- handleLogon's evaluation of the peer's tag 789 (session.go l.581–596; only when the Logon has no tag 141 at all): `ns` is
    `nextSenderMsgNumAtLogonReceived` — our next outbound number when the Logon ARRIVED: before a reset the Logon causes,
    before our reply.  A readable 789 different from `ns`: with persistence `generateSequenceReset(789, ns + 1, msg)` — nothing
    is replayed, the store is not read; without, the error `targetTooHigh{789, ns}`.  (The code as it is: notes/proofs_b_nx.md,
    observations 2–5.) -/
def nxEval (s : Sess) (m : InMsg) (ns : Int) : Sess × Option Rej :=
  if s.cfg.nextExpected && !(m.f.has 141) then
    match peerNext m with
    | some n =>
      if n != ns then
        if s.cfg.persist then (enqueueAndSend s (gapFillRe s m n (ns + 1)), none)
        else (s, some (.tooHigh n ns))
      else (s, none)
    | none => (s, none)
  else (s, none)

/-- the end of handleLogon: arm the peer timer, notify, the peer's 789, gap check, consume the Logon's number -/
def logonFinish (s : Sess) (m : InMsg) (ns : Int) : Sess × Option LogonErr :=
  match nxEval (((s.setSentReset false).emit (.armPeer (1200 * s.hb))).emit .onLogon) m ns with
  | (s, some r) => (s, some (.rej r))
  | (s, none) =>
    match checkTooHigh s m with
    | some r => (s, some (.rej r))
    | none => (incrTarget s, none)

def logonResetFlag (m : InMsg) : Bool := match getBool m 141 with | .val b => b | _ => false

/-- does the acceptor's `sendLogonInReplyTo(_, msg)` return RejectLogon instead of answering (peer's 789 above our next outbound
    number, session.go l.195–198)?  An initiator never refuses. -/
def logonRefuses (s : Sess) (m : InMsg) (flag : Bool) : Bool :=
  !s.cfg.initiator && !(flag && s.sentReset && s.st.loggedOn) && nxRefuses s m

/-- what handleLogon has done by then: the acceptor has adopted the peer's HeartBtInt -/
def logonRefused (s : Sess) (m : InMsg) : Sess :=
  if !s.cfg.initiator && !s.cfg.hbOverride then (match getInt m 108 with | .val h => s.setHb h | _ => s) else s

/-- handleLogon once the Logon has passed the checks: the acceptor's reply (or its refusal), then `logonFinish` -/
def logonTail (s : Sess) (m : InMsg) (ns : Int) : Sess × Option LogonErr :=
  if logonRefuses s m (logonResetFlag m) then (logonRefused s m, some (.rej .rejectLogon))
  else logonFinish (logonReply s m (logonResetFlag m)) m ns

/-- the configurations in which the evaluation of the peer's tag 789 never ends in an error: the option off, or message
    persistence on (without persistence a 789 different from our number is reported as `targetTooHigh{789, our outbound number}`) -/
def NxNoErr (cfg : Cfg) : Prop := cfg.nextExpected = false ∨ cfg.persist = true

theorem nxEval_noErr (s : Sess) (m : InMsg) (ns : Int) (h : NxNoErr s.cfg) : (nxEval s m ns).2 = none := by
  unfold nxEval
  rcases h with h | h
  · rw [h]; rfl
  · rw [h]; simp only [if_true]; repeat' split
    all_goals rfl

/-! the option off (`EnableNextExpectedMsgSeqNum=N`, the default): nothing of the above happens -/
theorem nxEval_off (s : Sess) (m : InMsg) (ns : Int) (h : s.cfg.nextExpected = false) : nxEval s m ns = (s, none) := by
  unfold nxEval; rw [h]; rfl
theorem logonRefuses_off (s : Sess) (m : InMsg) (flag : Bool) (h : s.cfg.nextExpected = false) : logonRefuses s m flag = false := by
  unfold logonRefuses; rw [nxRefuses_off s m h, Bool.and_false]
theorem logonTail_off (s : Sess) (m : InMsg) (ns : Int) (h : s.cfg.nextExpected = false) :
    logonTail s m ns = logonFinish (logonReply s m (logonResetFlag m)) m ns := by
  unfold logonTail; rw [logonRefuses_off s m _ h]; rfl
theorem nxOwn_off (s : Sess) (h : s.cfg.nextExpected = false) : nxOwn s = none := by unfold nxOwn; rw [h]; rfl
theorem nxReply_off (s : Sess) (m : InMsg) (h : s.cfg.nextExpected = false) : nxReply s m = none := by unfold nxReply; rw [h]; rfl

def handleLogon (s0 : Sess) (m : InMsg) : Sess × Option LogonErr :=
  if s0.cfg.bs == 5 && !(m.f.has 1137) then (s0, some .other) else
  let s := if !s0.cfg.initiator && s0.cfg.refreshOnLogon then s0.emit .refresh else s0
  match verifyAppImpl s m with
  | (s, some r) => (s, some (.rej r))
  | (s, none) =>
    let resetStore := (if s.cfg.initiator then false else s.cfg.resetOnLogon) || (logonResetFlag m && !s.sentReset)
    let s := if resetStore then dropAndReset s else s
    match verifySelect s m false true false with
    | (s, some r) => (s, some (.rej r))
    | (s, none) => logonTail s m s0.store.sender      -- (nextSenderMsgNumAtLogonReceived, read before everything else)

def inSessionFixMsgIn (s : Sess) (m : InMsg) : Sess × SState :=
  let k := kindOf m
  if k == "A" then
    match handleLogon s m with
    | (s, some _) => (sendInReplyTo s ((mkOut "5" []).inReplyTo m), .logout)      -- initiateLogoutInReplyTo("", msg)
    | (s, none) => (s, .inSession)
  else if k == "5" then handleLogout s m
  else if k == "2" then handleResendRequest s m
  else if k == "4" then handleSequenceReset s m
  else if k == "1" then handleTestRequest s m
  else
    match verifySelect s m true true true with
    | (s, some r) => processReject s m r
    | (s, none) => (incrTarget s, .inSession)

/-- the stash drain of resendState.FixMsgIn: while the message numbered `target` is stashed, process it -/
def drainStash (fuel : Nat) (s : Sess) (stash : List (Int × InMsg)) (last : SState) : Sess × SState × List (Int × InMsg) :=
  match fuel with
  | 0 => (s, last, stash)
  | fuel + 1 =>
    match stash.find? (·.1 == s.store.target) with
    | none => (s, last, stash)
    | some (n, m) =>
      let stash := stash.filter (·.1 != n)
      let (s, nx) := inSessionFixMsgIn s m
      if !nx.loggedOn then (s, nx, stash) else drainStash fuel s stash nx

def resendFixMsgIn (s : Sess) (stash : List (Int × InMsg)) (cur fin : Int) (m : InMsg) : Sess × SState :=
  let (s, nx) := inSessionFixMsgIn s m
  if !nx.loggedOn then (s, nx) else
  -- `s` (the receiver) shares its stash map with whatever processReject stored into the *current* state's map
  let stash := match nx, curResend s with
    | .resend st' _ _, some _ => st'      -- processReject reused the current resend state: same map, new entry visible
    | _, _ => stash
  if cur != 0 && cur < s.store.target then
    let (s, c, f) := sendResendRequest s s.store.target fin
    (s, .resend stash c f)
  else
    match getBool m 123 with
    | .garbled => (s, .latent)
    | g =>
      let gf := match g with | .val b => b | _ => false
      if gf && cur != 0 && cur == s.store.target then
        let (s, c, f) := sendResendRequest s s.store.target fin
        (s, .resend stash c f)
      else if fin ≥ s.store.target then (s, .resend stash cur fin)
      else
        let shared := (curResend s).isSome
        match drainStash (stash.length + 1) s stash nx with
        | (s, .resend st' c f, rest) => (s, .resend (if shared then rest else st') c f)   -- unreachable in practice
        | (s, nx, _) => (s, nx)

def shutdownWithReason (s : Sess) (m : InMsg) (incr : Bool) : Sess × SState :=
  let s := dropAndSend s ((mkOut "5" []).inReplyTo m)
  ((if incr then incrTarget s else s), .latent)

def logonFixMsgIn (s : Sess) (m : InMsg) : Sess × SState :=
  if kindOf m != "A" then (s, .latent) else
  match handleLogon s m with
  | (s, none) => (s, .inSession)
  | (s, some (.rej .rejectLogon)) => shutdownWithReason s m true
  | (s, some (.rej (.tooLow _ _))) => shutdownWithReason s m false
  | (s, some (.rej (.tooHigh recv exp))) =>
    let (s, c, f) := sendResendRequest s exp (recv - 1)
    (s, .resend [] c f)
  | (s, some _) => (s, .latent)

def fixMsgInCore (s : Sess) (m : InMsg) : Sess × SState :=
  match s.st with
  | .latent => (s, .latent)
  | .notSessionTime => (s, .notSessionTime)
  | .logon => logonFixMsgIn s m
  | .logout =>
    let (s, nx) := inSessionFixMsgIn s m
    (match nx with | .latent => (s, .latent) | _ => (s, .logout))
  | .inSession | .pendingIn => inSessionFixMsgIn s m
  | .resend st c f | .pendingResend st c f => resendFixMsgIn s st c f m

/-! ## state changes (session_state.go) -/

/-- handleDisconnectState between the two drains: logout notification, onDisconnect's reset and close -/
def discMid (s : Sess) : Sess :=
  let doOnLogout := s.st.loggedOn || (match s.st with | .logout => true | .logon => s.cfg.initiator | _ => false)
  let s := if doOnLogout then s.emit .onLogout else s
  let s := if s.cfg.resetOnDisconnect then dropAndReset s else s
  if s.out then (s.setOut false).emit .closed else s

mutual
/-- setState with handleDisconnectState / onDisconnect.  After `fix:` 69a603a the buffered inbound messages are
    processed first, through the still-current state and with the connection still in place (a nested disconnect
    finishes the job); then the logout notification, reset-on-disconnect, close; the second drain is what is left
    of the original one. -/
def setState (fuel : Nat) (s : Sess) (next : SState) : Sess :=
  match fuel with
  | 0 => s.setSt next
  | fuel + 1 =>
    if !next.connected then
      let s := if s.st.connected then (drainIn fuel (discMid (drainIn fuel s))).closeInbox else s
      let s := if s.pendingStop then s.setStopped else s
      s.setSt next
    else s.setSt next

def drainIn (fuel : Nat) (s : Sess) : Sess :=
  match fuel with
  | 0 => s
  | fuel + 1 =>
    if !s.inboxOpen then s else
    match s.inbox with
    | [] => s
    | m :: rest => drainIn fuel (incoming fuel (s.setInbox rest) (some m))

/-- stateMachine.Incoming; `none` = bytes that do not parse -/
def incoming (fuel : Nat) (s : Sess) (m : Option InMsg) : Sess :=
  match fuel with
  | 0 => s
  | fuel + 1 =>
    let s := checkSessionTime fuel s true true
    if !s.st.connected then s else
    let s := match m with
      | none => s
      | some m => let (s, nx) := fixMsgInCore s m; setState fuel s nx
    s.emit (.armPeer (1200 * s.hb))

def checkSessionTime (fuel : Nat) (s : Sess) (inRange same : Bool) : Sess :=
  match fuel with
  | 0 => s
  | fuel + 1 =>
    if !inRange then
      let s := if s.st.loggedOn then sendLogout s else s       -- ShutdownNow
      setState fuel s .notSessionTime
    else
      let s := if !s.st.sessionTime then setState fuel s .latent else s
      if !same then
        let s := if s.st.loggedOn then sendLogout s else s
        let s := dropAndReset s
        setState fuel s .latent
      else s
end

/-- the reset instant of the day `now` lies in: time.Date(now's Y-M-D, ResetSeqTime's h:m:s) in UTC, as seconds on the
    same clock as `now` (whose origin is a midnight) -/
def resetInstant (rs : Nat) (now : Int) : Int := now / 86400 * 86400 + rs

/-- lastChecked.Before(resetSeqTimeToday) && !now.Before(resetSeqTimeToday) -/
def crossedReset (rs : Nat) (last now : Int) : Bool :=
  decide (last < resetInstant rs now) && decide (resetInstant rs now ≤ now)

/-- stateMachine.CheckResetTime: not enabled ⇒ nothing; the first call and every call without a connection only
    record the clock; otherwise a Logon with ResetSeqNumFlag is sent when today's reset instant lies in
    (last check, now] -/
def checkResetTime (s : Sess) (now : Int) : Sess :=
  match s.cfg.resetSeqTime with
  | none => s
  | some rs =>
    match s.lastCheckedReset with
    | none => s.setLastChecked now
    | some last =>
      if !s.st.connected then s.setLastChecked now
      else
        let s := if crossedReset rs last now then sendLogonInReplyTo s true else s
        s.setLastChecked now

def fuelOf (s : Sess) : Nat := 4 * s.inbox.length + 8

inductive TimerEv | needHeartbeat | peerTimeout | logonTimeout | logoutTimeout
  deriving Repr, DecidableEq, Inhabited

def inSessionTimeout (s : Sess) (e : TimerEv) : Sess × Bool :=   -- (state, became pending)
  match e with
  | .needHeartbeat => (sendInReplyTo s (mkOut "0" []), false)
  | .peerTimeout =>
    let s := sendInReplyTo s (mkOut "1" [(112, "TEST")])
    (s.emit (.armPeer (1200 * s.hb)), true)
  | _ => (s, false)

def timeoutCore (s : Sess) (e : TimerEv) : Sess × SState :=
  match s.st with
  | .inSession =>
    let (s, p) := inSessionTimeout s e
    (s, if p then .pendingIn else .inSession)
  | .resend st c f =>
    let (s, p) := inSessionTimeout s e
    (s, if p then .pendingResend st c f else .resend st c f)
  | .pendingIn => (s, if e == .peerTimeout then .latent else .pendingIn)
  | .pendingResend st c f => (s, if e == .peerTimeout then .latent else .pendingResend st c f)
  | .logon => (s, if e == .logonTimeout then .latent else .logon)
  | .logout => (s, if e == .logoutTimeout then .latent else .logout)
  | st => (s, st)

inductive Ev
  | connect
  | incomingMsg (m : Option InMsg)        -- Incoming called directly
  | arrive (m : InMsg)                    -- buffered in the inbound channel
  | pop                                   -- the run loop takes the next buffered message
  | timeout (e : TimerEv)
  | disconnected
  | stop
  | send (m : OutMsg)                     -- SendToTarget (queueForSend)
  | flush                                 -- SendAppMessages
  | sessionTime (inRange same : Bool)     -- CheckSessionTime with a chosen clock
  | resetTime (now : Int)                 -- CheckResetTime with a chosen clock (seconds since a midnight, UTC)
  deriving Inhabited

def connect (s : Sess) : Sess × String :=
  if s.st.connected then (s, "already")
  else if !s.st.sessionTime then
    -- handleDisconnectState on a non-connected state: no OnLogout, onDisconnect's reset only
    let s := if s.cfg.resetOnDisconnect then dropAndReset s else s
    (s, "nottime")
  else
    let s := s.openConn
    if !s.cfg.initiator then (s.setSt .logon, "ok")
    else
      let s := if s.cfg.refreshOnLogon then s.emit .refresh else s
      let s := if s.cfg.resetOnLogon then dropAndReset s else s
      let s := sendLogonInReplyTo s (shouldSendReset s)
      (s.setSt .logon, "ok")

def stopNext (s : Sess) : Sess × SState :=
  match s.st with
  | .inSession | .resend .. | .pendingIn | .pendingResend .. => (initiateLogout s, .logout)
  | .logon => (s, .latent)
  | st => (s, st)

/-- one event on a session whose observation log is empty: new state (log = observations, newest first) and a status word -/
def stepCore (s : Sess) (e : Ev) : Sess × String :=
  let fuel := fuelOf s
    match e with
    | .connect => connect s
    | .incomingMsg m => (incoming fuel s m, "ok")
    | .arrive m => if s.inboxOpen then (s.setInbox (s.inbox ++ [m]), "ok") else (s, "noconn")
    | .pop =>
      if !s.inboxOpen then (s, "none") else
      (match s.inbox with
       | [] => (s, "none")
       | m :: rest => (incoming fuel (s.setInbox rest) (some m), "ok"))
    | .timeout ev =>
      let s := checkSessionTime fuel s true true
      let (s, nx) := timeoutCore s ev
      (setState fuel s nx, "ok")
    | .disconnected => ((if s.st.connected then setState fuel s .latent else s), "ok")
    | .stop =>
      let s := s.setPendingStop
      let (s, nx) := stopNext s
      (setState fuel s nx, "ok")
    | .send m => (match prep s m with
        | (none, s) => (s, "refused")
        | (some m, s) => (s.setToSend (s.toSend ++ [m]), "ok"))
    | .flush =>
      let s := checkSessionTime fuel s true true
      ((if s.st.loggedOn then sendQueued s else s.setToSend []), "ok")
    | .sessionTime r sm => (checkSessionTime fuel s r sm, "ok")
    | .resetTime now => (checkResetTime s now, "ok")

/-- one event; returns the new state, the observations in order, and a status word for the op -/
def step (s : Sess) (e : Ev) : Sess × List Obs × String :=
  let r := stepCore s.clearLog e
  (r.1.clearLog, r.1.log.reverse, r.2)

def initSess (cfg : Cfg) (sender target : Int) : Sess :=
  { cfg := cfg, store := { sender := sender, target := target },
    hb := if cfg.initiator || cfg.hbOverride then cfg.hb else 0 }

end Qfx.Sess
