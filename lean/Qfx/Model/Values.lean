/-
  Qfx.Model.Values — FIX value types (fix_int.go, fix_boolean.go, fix_float.go (syntax; values in Model/Float.lean),
  fix_utc_timestamp.go via Go's time.Parse/Format for the four FIX layouts, fix_string.go, fix_bytes.go).
-/
import Qfx.Model.Bytes
namespace Qfx

/-! ## boolean -/
def readBool (b : Bytes) : Res Bool :=
  if b = [89] then .ok true else if b = [78] then .ok false else .err "invalid bool"
def writeBool (v : Bool) : Bytes := if v then [89] else [78]

/-! ## int -/
def readInt (b : Bytes) : Res Int := atoi b
def writeInt (v : Int) : Bytes := fmtInt v

/-! ## string / bytes : identity -/
def readStr (b : Bytes) : Res Bytes := .ok b
def writeStr (b : Bytes) : Bytes := b

/-! ## float: the syntax here; the value read / the text written are in Qfx.Model.Float.
  `FIXFloat.Read` = `strconv.ParseFloat` succeeds ∧ every byte ∈ [0-9.-].
  On the whitelist alphabet ParseFloat's syntax is: optional leading '-', digits with at most one '.',
  at least one digit, nothing else (no exponent, no inf/nan/hex/underscore: those need other letters).
  Range overflow (≥ 2^1024 − 2^970) makes ParseFloat fail: `F64.readFloat`. -/
def cDot : Nat := 46

/-- scanner state: digits seen?, dot seen? — mirrors strconv.readFloat's loop on the whitelisted alphabet -/
def floatScan : Bytes → Bool → Bool → Bool
  | [], sawDigits, _ => sawDigits
  | c :: cs, sawDigits, sawDot =>
      if c = cDot then (if sawDot then false else floatScan cs sawDigits true)
      else if isDigit c then floatScan cs true sawDot
      else false

def acceptFloat (b : Bytes) : Bool :=
  match b with
  | [] => false
  | c :: cs => if c = cMinus then floatScan cs false false else floatScan b false false

/-! ## UTC timestamp -/
inductive Prec | seconds | millis | micros | nanos
  deriving Repr, DecidableEq, Inhabited

structure Ts where
  y : Nat
  mo : Nat
  d : Nat
  h : Nat
  mi : Nat
  s : Nat
  ns : Nat
  deriving Repr, DecidableEq, Inhabited

def isLeap (y : Nat) : Bool := y % 4 = 0 && (y % 100 ≠ 0 || y % 400 = 0)

def daysIn (mo y : Nat) : Nat :=
  if mo = 2 then (if isLeap y then 29 else 28)
  else if mo = 4 ∨ mo = 6 ∨ mo = 9 ∨ mo = 11 then 30 else 31

def Ts.valid (t : Ts) : Bool :=
  t.y ≤ 9999 && 1 ≤ t.mo && t.mo ≤ 12 && 1 ≤ t.d && t.d ≤ daysIn t.mo t.y
  && t.h < 24 && t.mi < 60 && t.s < 60 && t.ns < 1000000000

def Prec.fracDigits : Prec → Nat
  | .seconds => 0 | .millis => 3 | .micros => 6 | .nanos => 9

def Prec.len (p : Prec) : Nat := if p.fracDigits = 0 then 17 else 18 + p.fracDigits

def Prec.unit : Prec → Nat
  | .seconds => 1000000000 | .millis => 1000000 | .micros => 1000 | .nanos => 1

/-- truncate to written precision -/
def Ts.trunc (t : Ts) (p : Prec) : Ts := { t with ns := t.ns / p.unit * p.unit }

def pad (w n : Nat) : Bytes := digitsW w n

/-- `t.UTC().Format(layout)` for the four FIX layouts -/
def writeTs (p : Prec) (t : Ts) : Bytes :=
  pad 4 t.y ++ pad 2 t.mo ++ pad 2 t.d ++ [45] ++ pad 2 t.h ++ [58] ++ pad 2 t.mi ++ [58] ++ pad 2 t.s
  ++ (if p.fracDigits = 0 then [] else [46] ++ pad p.fracDigits (t.ns / p.unit))

/-- fixed-width all-digit number (time.Parse `getnum` fixed / 4-digit year / fraction digits) -/
def fixedNum (b : Bytes) : Option Nat := if b.all isDigit then some (digitsVal b) else none

def precOfLen (n : Nat) : Option Prec :=
  if n = 17 then some .seconds else if n = 21 then some .millis
  else if n = 24 then some .micros else if n = 27 then some .nanos else none

/-- `FIXUTCTimestamp.Read`: length selects the layout, then `time.Parse`.
    `sepOK` says which fraction separators are accepted: Go's time.Parse takes '.' and ','. -/
def readTsWith (sepOK : Nat → Bool) (b : Bytes) : Res (Ts × Prec) :=
  match precOfLen b.length with
  | none => .err "invalid timestamp length"
  | some p =>
    match fixedNum (b.take 4), fixedNum ((b.drop 4).take 2), fixedNum ((b.drop 6).take 2),
          fixedNum ((b.drop 9).take 2), fixedNum ((b.drop 12).take 2), fixedNum ((b.drop 15).take 2) with
    | some y, some mo, some d, some h, some mi, some s =>
      if b.drop 8 |>.take 1 |> (· ≠ [45]) then .err "parse" else
      if b.drop 11 |>.take 1 |> (· ≠ [58]) then .err "parse" else
      if b.drop 14 |>.take 1 |> (· ≠ [58]) then .err "parse" else
      let fracOK : Option Nat :=
        if p.fracDigits = 0 then some 0 else
          match b.drop 17 with
          | sep :: ds => if sepOK sep then fixedNum ds else none
          | [] => none
      match fracOK with
      | none => .err "parse"
      | some f =>
        if mo < 1 ∨ 12 < mo then .err "month out of range" else
        if 24 ≤ h then .err "hour out of range" else
        if 60 ≤ mi then .err "minute out of range" else
        if 60 ≤ s then .err "second out of range" else
        if d < 1 ∨ daysIn mo y < d then .err "day out of range" else
        .ok ({ y := y, mo := mo, d := d, h := h, mi := mi, s := s, ns := f * p.unit }, p)
    | _, _, _, _, _, _ => .err "parse"

/-- the pinned original: whatever time.Parse takes, i.e. '.' or ',' (Go ≥ 1.17) -/
def readTsOrig (b : Bytes) : Res (Ts × Prec) := readTsWith (fun c => c = 46 || c = 44) b

/-- current code (after `fix:` f9667b3): only '.' -/
def readTs (b : Bytes) : Res (Ts × Prec) := readTsWith (fun c => c = 46) b

end Qfx
