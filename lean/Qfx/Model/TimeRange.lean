/-
  Qfx.Model.TimeRange — internal/time_range.go in a fixed-offset zone.
  An instant is its civil time in the range's zone, as whole seconds since the civil epoch
  (1970-01-01 00:00:00 local, a Thursday): `t : Int`.  `time.Date(..).AddDate(0,0,k)` in a
  fixed-offset zone is plain arithmetic on days.  DST zones are outside this model (DESIGN §12).
-/
namespace Qfx.TR

structure Range where
  startS : Int            -- startTime.d in seconds, 0 ≤ · < 86400
  endS : Int              -- endTime.d
  weekdays : List Int     -- empty = every day; Go time.Weekday numbering (Sunday = 0)
  startDay : Option Int
  endDay : Option Int
  deriving Repr, DecidableEq

def dayOf (t : Int) : Int := t / 86400
def todOf (t : Int) : Int := t % 86400
/-- Go `t.Weekday()`; civil day 0 is a Thursday (4) -/
def wdOfDay (d : Int) : Int := (d + 4) % 7
def weekday (t : Int) : Int := wdOfDay (dayOf t)

def Range.isInWeekdays (r : Range) (day : Int) : Bool :=
  r.weekdays.isEmpty || r.weekdays.contains day

/-- Go's `%` truncates toward zero: `Int.tmod` -/
def addWeekdayOffsetOrig (day offset : Int) : Int := Int.tmod (day + offset) 7
/-- after `fix:` (weekday offset wraps into 0..6) -/
def addWeekdayOffset (day offset : Int) : Int := Int.tmod (day + offset + 7) 7

def Range.isInTimeRangeWith (awo : Int → Int → Int) (r : Range) (t : Int) : Bool :=
  let ts := todOf t
  if r.startS < r.endS then
    if r.isInWeekdays (weekday t) then decide (r.startS ≤ ts ∧ ts ≤ r.endS) else false
  else if ts ≤ r.endS then r.isInWeekdays (awo (weekday t) (-1))
  else if ts ≥ r.startS then r.isInWeekdays (weekday t)
  else false

def Range.isInTimeRange (r : Range) (t : Int) : Bool := r.isInTimeRangeWith addWeekdayOffset t

def Range.isInWeekRangeWith (awo : Int → Int → Int) (r : Range) (sd ed : Int) (t : Int) : Bool :=
  let day := weekday t
  if sd = ed then
    if day = sd then r.isInTimeRangeWith awo t
    else if r.startS < r.endS then false else true
  else
    if (if sd < ed then (day < sd ∨ ed < day) else (ed < day ∧ day < sd)) then false
    else if day = sd then decide (todOf t ≥ r.startS)
    else if day = ed then decide (todOf t ≤ r.endS)
    else true

def Range.isInRangeWith (awo : Int → Int → Int) (r : Range) (t : Int) : Bool :=
  match r.startDay, r.endDay with
  | some sd, some ed => r.isInWeekRangeWith awo sd ed t
  | _, _ => r.isInTimeRangeWith awo t

def Range.isInRange (r : Range) (t : Int) : Bool := r.isInRangeWith addWeekdayOffset t

/-- the `sessionEnd` instant `IsInSameRange` computes from the earlier instant -/
def Range.sessionEnd (r : Range) (t1 : Int) : Int :=
  let t1Time := todOf t1
  let dayOffset : Int :=
    match r.endDay with
    | none => if r.startS ≥ r.endS ∧ t1Time ≥ r.startS then 1 else 0
    | some ed =>
      if ed < weekday t1 then 7 + (ed - weekday t1)
      else if weekday t1 = ed then (if r.endS ≤ t1Time then 7 else 0)
      else ed - weekday t1
  (dayOf t1 + dayOffset) * 86400 + r.endS

/-- `IsInSameRange` for whole-second instants -/
def Range.isInSameRangeWith (awo : Int → Int → Int) (r : Range) (a b : Int) : Bool :=
  if !(r.isInRangeWith awo a && r.isInRangeWith awo b) then false else
  let t1 := if b < a then b else a
  let t2 := if b < a then a else b
  decide (t2 < r.sessionEnd t1)

def Range.isInSameRange (r : Range) (a b : Int) : Bool := r.isInSameRangeWith addWeekdayOffset a b

/-- configurations the factory can build -/
def Range.wf (r : Range) : Prop :=
  0 ≤ r.startS ∧ r.startS < 86400 ∧ 0 ≤ r.endS ∧ r.endS < 86400
  ∧ (∀ w ∈ r.weekdays, 0 ≤ w ∧ w < 7)
  ∧ (∀ d, r.startDay = some d → 0 ≤ d ∧ d < 7) ∧ (∀ d, r.endDay = some d → 0 ≤ d ∧ d < 7)
  ∧ (r.startDay.isSome = r.endDay.isSome)
  ∧ (r.startDay.isSome → r.weekdays = [])   -- the factory refuses Weekdays together with StartDay/EndDay

end Qfx.TR
