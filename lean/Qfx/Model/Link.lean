/-
  Qfx.Model.Link — two engines (A initiator, B acceptor), each a `Qfx.Sess.Sess`, joined by two FIFO links that can
  lose everything in flight, with engine restart on the persistent store (C05).  The links carry `OutMsg`s; what one
  side writes is what the other side receives (`toIn`).
-/
import Qfx.Model.Session
namespace Qfx.Link
open Qfx Qfx.Sess

/-- what the peer receives for a written message: header of the writer, SendingTime "now", the other fields -/
def toIn (cfg : Cfg) (m : OutMsg) : InMsg :=
  let dup : Fields := match m.f.get? 43 with | some v => [(43, v)] | none => []
  let orig : Fields := if m.f.has 122 then [(122, "@0")] else []
  let rest := m.f.filter (fun p => p.1 != 43 && p.1 != 122)
  { f := [(8, bsName cfg.bs), (35, m.kind), (49, cfg.sender), (56, cfg.target), (34, toString m.seq), (52, "@0")] ++ dup ++ orig ++ rest }

structure LSt where
  a : Sess
  b : Sess
  a2b : List OutMsg := []
  b2a : List OutMsg := []
  sentA : List String := []      -- payload ids whose send call returned nil, in order
  sentB : List String := []
  dlvA : List String := []       -- payload ids handed to FromApp, in order
  dlvB : List String := []
  rcvA : List (String × String) := []   -- (MsgSeqNum text, payload) of application messages that reached A's session
  rcvB : List (String × String) := []
  deriving Inhabited

inductive Side | A | B deriving Repr, DecidableEq, Inhabited

inductive LEv
  | connect
  | send (side : Side) (payload : String)
  | deliver (to : Side)                 -- the oldest in-flight message reaches `to`
  | cut                                 -- everything in flight is lost, both ends see the disconnect
  | restart (side : Side)
  | timer (side : Side) (e : TimerEv)
  | flush (side : Side)
  deriving Inhabited

def wiresOf (obs : List Obs) : List OutMsg := obs.filterMap fun o => match o with | .wire m => some m | _ => none
def deliveredSeqs (obs : List Obs) : List String := obs.filterMap fun o => match o with | .fromApp sq _ => some sq | _ => none

def payloadOf (rcv : List (String × String)) (sq : String) : String :=
  match rcv.find? (·.1 == sq) with | some p => p.2 | none => "?"

/-- apply a session event on one side, route its writes, record its deliveries -/
def onSide (l : LSt) (side : Side) (e : Ev) : LSt × String :=
  match side with
  | .A =>
    let (a', obs, status) := step l.a e
    ({ l with a := a', a2b := l.a2b ++ wiresOf obs, dlvA := l.dlvA ++ (deliveredSeqs obs).map (payloadOf l.rcvA) }, status)
  | .B =>
    let (b', obs, status) := step l.b e
    ({ l with b := b', b2a := l.b2a ++ wiresOf obs, dlvB := l.dlvB ++ (deliveredSeqs obs).map (payloadOf l.rcvB) }, status)

def noteRcv (rcv : List (String × String)) (m : InMsg) : List (String × String) :=
  match m.f.get? 9000, m.f.get? 34 with
  | some p, some sq => (sq, p) :: rcv.filter (·.1 != sq)
  | _, _ => rcv

def restartSess (s : Sess) : Sess :=
  { cfg := s.cfg, store := s.store, hb := if s.cfg.initiator || s.cfg.hbOverride then s.cfg.hb else 0 }

def lstep (l : LSt) (e : LEv) : LSt × String :=
  match e with
  | .connect =>
    let (l, s1) := onSide l .A .connect
    let (l, s2) := onSide l .B .connect
    (l, s1 ++ "," ++ s2)
  | .send side p =>
    let (l', status) := onSide l side (.send { kind := "D", seq := 0, f := [(9000, p)] })
    if status == "ok" then
      (match side with | .A => { l' with sentA := l'.sentA ++ [p] } | .B => { l' with sentB := l'.sentB ++ [p] }, status)
    else (l', status)
  | .deliver .B =>
    (match l.a2b with
     | [] => (l, "none")
     | m :: rest =>
       let im := toIn l.a.cfg m
       let l := { l with a2b := rest, rcvB := noteRcv l.rcvB im }
       onSide l .B (.incomingMsg (some im)))
  | .deliver .A =>
    (match l.b2a with
     | [] => (l, "none")
     | m :: rest =>
       let im := toIn l.b.cfg m
       let l := { l with b2a := rest, rcvA := noteRcv l.rcvA im }
       onSide l .A (.incomingMsg (some im)))
  | .cut =>
    let l := { l with a2b := [], b2a := [] }
    let (l, _) := onSide l .A .disconnected
    let (l, _) := onSide l .B .disconnected
    ({ l with a2b := [], b2a := [] }, "ok")
  | .restart .A => ({ l with a := restartSess l.a, rcvA := [] }, "ok")
  | .restart .B => ({ l with b := restartSess l.b, rcvB := [] }, "ok")
  | .timer side ev => onSide l side (.timeout ev)
  | .flush side => onSide l side .flush

def linkInit (cfgA cfgB : Cfg) : LSt := { a := initSess cfgA 1 1, b := initSess cfgB 1 1 }

end Qfx.Link
