/-
  Qfx.Model.Validate — the message validator (C15; C06 reads its verdict).

  Mirrors validation.go: `fixValidator.Validate`, `fixtValidator.Validate`, `validateFIX`, `validateFIXT`, `validateMsgType`,
  `validateRequired`, `validateRequiredFieldMap`, `validateFieldContent`, `validateFields`, `validateField`,
  `checkFieldNotDefined`, `validateWalk`, `validateVisitField`, `validateVisitGroupField`; tag.go `IsHeader`/`IsTrailer`;
  msg_type.go `isAdminMessageType`.

  The parsed message is an abstraction of what the Go validator reads from a `*Message`:
    `fields`  the wire fields in order (`msg.fields`),
    `hdr`/`body`/`trl`  the tags present in `msg.Header` / `msg.Body` / `msg.Trailer` (what `FieldMap.Has` answers).
  The sectioning is produced by the parser (`ParseMessageWithDataDictionary`, codec family); here it is an input.

  Dictionaries are `VDict`s: message definitions as built by `Qfx.Dict` (C19), field types by tag with the value
  prototype chosen by `validateField`'s type switch (`none` = a type outside the switch: Go calls `Read` on a nil
  interface and panics).

  Abstractions:
  * `validateRequiredFieldMap` ranges over a Go map: when several required tags are missing Go reports an arbitrary one;
    the model reports the SMALLEST (the harness canonicalises the observation the same way).
  * MsgType is the value of the first `35=` field (Go: `Header.GetString(35)`; equal unless 35 is repeated).
  * `validateVisitGroupField` and `validateWalk` loop until the fields are consumed; the model recursion is on `fuel`
    (`validate` supplies more than the loops can use); `fuelOut` is never produced for that budget on any run so far.
-/
import Qfx.Model.Dict
import Qfx.Model.Values
namespace Qfx.Validate
open Qfx Qfx.Dict

/-- the `FieldValue` prototype `validateField` instantiates for a dictionary type -/
inductive Proto where
  | str | bool | int | ts | float
  deriving DecidableEq, Repr

/-- validateField's `switch fieldType.Type` -/
def protoOfType (t : String) : Option Proto :=
  if t ∈ ["MULTIPLESTRINGVALUE", "MULTIPLEVALUESTRING", "MULTIPLECHARVALUE", "CHAR", "CURRENCY", "DATA", "MONTHYEAR",
          "LOCALMKTDATE", "DATE", "EXCHANGE", "LANGUAGE", "XMLDATA", "COUNTRY", "UTCTIMEONLY", "UTCDATEONLY", "UTCDATE",
          "TZTIMEONLY", "TZTIMESTAMP", "STRING"] then some .str
  else if t = "BOOLEAN" then some .bool
  else if t ∈ ["LENGTH", "DAYOFMONTH", "NUMINGROUP", "SEQNUM", "INT"] then some .int
  else if t ∈ ["UTCTIMESTAMP", "TIME"] then some .ts
  else if t ∈ ["QTY", "QUANTITY", "AMT", "PRICE", "PRICEOFFSET", "PERCENTAGE", "FLOAT"] then some .float
  else none

/-- datadictionary.FieldType as the validator reads it (`multi`: one of the three multiple-value types; spec side only) -/
structure FType where
  proto : Option Proto
  enums : List Bytes
  multi : Bool := false

structure VDict where
  msg? : Bytes → Option MDef
  header : Option MDef
  trailer : Option MDef
  ftype : Nat → Option FType

/-- quickfix.ValidatorSettings -/
structure Settings where
  checkOrder : Bool        -- CheckFieldsOutOfOrder
  rejectInvalid : Bool     -- RejectInvalidMessage
  allowUnknown : Bool      -- AllowUnknownMessageFields
  checkUserDefined : Bool  -- CheckUserDefinedFields
  checkHaveValues : Bool   -- CheckFieldsHaveValues
  deriving DecidableEq, Repr

def defaultSettings : Settings :=
  { checkOrder := true, rejectInvalid := true, allowUnknown := false, checkUserDefined := true, checkHaveValues := true }

structure TV where
  tag : Nat
  value : Bytes
  deriving DecidableEq, Repr

structure PMsg where
  fields : List TV
  hdr : List Nat
  body : List Nat
  trl : List Nat

/-- MessageRejectError: (RejectReason, RefTagID) -/
structure Reject where
  reason : Nat
  ref : Option Nat
  deriving DecidableEq, Repr

inductive Stop where
  | reject (r : Reject)
  | panic
  | fuelOut
  deriving DecidableEq, Repr

abbrev V := Except Stop

def rej {α} (reason : Nat) (tag : Nat) : V α := .error (.reject ⟨reason, some tag⟩)

/-! ## static tag classes (tag.go) -/

def headerTags : List Nat :=
  [8, 9, 35, 49, 56, 115, 128, 90, 34, 50, 142, 57, 143, 116, 144, 129, 145, 43, 97, 52, 122, 212, 213, 347, 369, 370,
   1128, 1129, 627, 1156, 91, 628, 629, 630]
def trailerTags : List Nat := [93, 89, 10]

def isHeaderTag (t : Nat) : Bool := headerTags.contains t
def isTrailerTag (t : Nat) : Bool := trailerTags.contains t

/-- msg_type.go isAdminMessageType: "0" "A" "1" "2" "3" "4" "5" -/
def isAdminMsgType (m : Bytes) : Bool := [[48], [65], [49], [50], [51], [52], [53]].contains m

def userDefinedTagMin : Nat := 5000

/-- validation.go checkFieldNotDefined: true = an undefined tag is tolerated -/
def checkFieldNotDefined (s : Settings) (t : Nat) : Bool :=
  if t < userDefinedTagMin then s.allowUnknown else !s.checkUserDefined

/-! ## the rules -/

/-- validateMsgType -/
def validateMsgType (d : VDict) (mt : Bytes) : V Unit :=
  match d.msg? mt with
  | some _ => .ok ()
  | none => .error (.reject ⟨11, none⟩)

def minTag : List Nat → Option Nat
  | [] => none
  | x :: r => match minTag r with | none => some x | some y => some (if x ≤ y then x else y)

/-- validateRequiredFieldMap (canonical: smallest missing tag) -/
def validateRequiredFieldMap (required : List Nat) (present : List Nat) : V Unit :=
  match minTag (required.filter (fun t => !present.contains t)) with
  | none => .ok ()
  | some t => rej 1 t

/-- validateRequired -/
def validateRequired (tr app : VDict) (mt : Bytes) (m : PMsg) : V Unit :=
  match tr.header, app.msg? mt, tr.trailer with
  | some h, some b, some t => do
    validateRequiredFieldMap h.reqTags m.hdr
    validateRequiredFieldMap b.reqTags m.body
    validateRequiredFieldMap t.reqTags m.trl
  | _, _, _ => .error .panic       -- nil *MessageDef dereferenced

/-- validateFieldContent's loop -/
def fieldContentLoop (haveValues order : Bool) : List TV → Bool → Bool → V Unit
  | [], _, _ => .ok ()
  | f :: rest, inHeader, inTrailer =>
    if haveValues && f.value.isEmpty then rej 4 f.tag
    else if inHeader && isHeaderTag f.tag then fieldContentLoop haveValues order rest inHeader inTrailer
    else if inHeader && !isHeaderTag f.tag then fieldContentLoop haveValues order rest false (isTrailerTag f.tag)
    else if !inHeader && isHeaderTag f.tag && order then rej 14 f.tag
    else if isTrailerTag f.tag then fieldContentLoop haveValues order rest inHeader true
    else if inTrailer && !isTrailerTag f.tag && order then rej 14 f.tag
    else fieldContentLoop haveValues order rest inHeader inTrailer

/-- the loop before the `fix:` (a trailer field directly behind the header did not start the trailer) -/
def fieldContentLoopOrig (haveValues order : Bool) : List TV → Bool → Bool → V Unit
  | [], _, _ => .ok ()
  | f :: rest, inHeader, inTrailer =>
    if haveValues && f.value.isEmpty then rej 4 f.tag
    else if inHeader && isHeaderTag f.tag then fieldContentLoopOrig haveValues order rest inHeader inTrailer
    else if inHeader && !isHeaderTag f.tag then fieldContentLoopOrig haveValues order rest false inTrailer
    else if !inHeader && isHeaderTag f.tag && order then rej 14 f.tag
    else if isTrailerTag f.tag then fieldContentLoopOrig haveValues order rest inHeader true
    else if inTrailer && !isTrailerTag f.tag && order then rej 14 f.tag
    else fieldContentLoopOrig haveValues order rest inHeader inTrailer

/-- validateFieldContent -/
def validateFieldContent (m : PMsg) (haveValues order : Bool) : V Unit :=
  if !haveValues && !order then .ok () else fieldContentLoop haveValues order m.fields true false

/-- `prototype.Read(value)` succeeds -/
def protoReads (p : Proto) (v : Bytes) : Bool :=
  match p with
  | .str => true
  | .bool => (readBool v).isOk
  | .int => (readInt v).isOk
  | .ts => (readTs v).isOk
  | .float => acceptFloat v

/-- `bytes.Split(value, " ")` -/
def splitOn32 : Bytes → Bytes → List Bytes
  | [], cur => [cur.reverse]
  | c :: r, cur => if c = 32 then cur.reverse :: splitOn32 r [] else splitOn32 r (c :: cur)

/-- the enumeration check of validateField (after the `fix:`): the whole value is declared, or the field has a
    multiple-value type and every space separated token is declared -/
def enumOK (ft : FType) (v : Bytes) : Bool :=
  ft.enums.isEmpty || ft.enums.contains v || (ft.multi && (splitOn32 v []).all (fun tok => ft.enums.contains tok))

/-- the enumeration check on the unchanged tree (D13): one token -/
def enumOKOrig (ft : FType) (v : Bytes) : Bool := ft.enums.isEmpty || ft.enums.contains v

/-- validateField, parametrised by the enumeration check -/
def validateFieldWith (ok : FType → Bytes → Bool) (d : VDict) (s : Settings) (f : TV) : V Unit :=
  if f.value.isEmpty then rej 4 f.tag
  else
    match d.ftype f.tag with
    | none => if !checkFieldNotDefined s f.tag then rej 0 f.tag else .ok ()
    | some ft =>
      if !ok ft f.value then rej 5 f.tag
      else
        match ft.proto with
        | none => .error .panic
        | some p => if protoReads p f.value then .ok () else rej 6 f.tag

/-- validateField (fixed tree) -/
def validateField (d : VDict) (s : Settings) (f : TV) : V Unit := validateFieldWith enumOK d s f

/-- validateField on the unchanged tree (D13) -/
def validateFieldOrig (d : VDict) (s : Settings) (f : TV) : V Unit := validateFieldWith enumOKOrig d s f

/-- validateFields (after the `fix:` — MsgType (35) is validateMsgType's business, not the transport enumeration's) -/
def validateFields (tr app : VDict) (s : Settings) : List TV → V Unit
  | [] => .ok ()
  | f :: rest =>
    if f.tag = 35 then validateFields tr app s rest
    else do
      validateField (if isHeaderTag f.tag || isTrailerTag f.tag then tr else app) s f
      validateFields tr app s rest

/-- validateFields on the unchanged tree: 35 is checked against the transport dictionary like any header field, D13 check -/
def validateFieldsOrig (tr app : VDict) (s : Settings) : List TV → V Unit
  | [] => .ok ()
  | f :: rest => do
    validateFieldOrig (if isHeaderTag f.tag || isTrailerTag f.tag then tr else app) s f
    validateFieldsOrig tr app s rest

/-- `int(numInGroup)` after `numInGroup.Read(value)` -/
def readCount (v : Bytes) : Option Int :=
  match readInt v with
  | .ok n => some n
  | _ => none

mutual
/-- validateVisitField: returns the remaining fields.  `tc`: the `fix:` that checks the members not yet reached when the
    delimiter of the next entry restarts the member list (`tc = false` is the unchanged tree) -/
def visitFieldW (tc : Bool) : Nat → FDef → List TV → V (List TV)
  | 0, _, _ => .error .fuelOut
  | fuel + 1, fd, stack =>
    if fd.isGroup then visitGroupW tc fuel fd stack
    else .ok (stack.drop 1)

/-- validateVisitGroupField -/
def visitGroupW (tc : Bool) : Nat → FDef → List TV → V (List TV)
  | 0, _, _ => .error .fuelOut
  | _ + 1, _, [] => .error .panic                      -- fieldStack[0] of an empty slice (unreachable from validateWalk)
  | fuel + 1, fd, cnt :: stack =>
    match readCount cnt.value with
    | none => rej 6 cnt.tag
    | some n =>
      match groupLoopW tc fuel fd stack [] 0 with
      | .error e => .error e
      | .ok (stack', count) =>
        if (count : Int) ≠ n then rej 16 cnt.tag else .ok stack'

/-- the `for len(fieldStack) > 0` loop: remaining child definitions, entries seen so far -/
def groupLoopW (tc : Bool) : Nat → FDef → List TV → List FDef → Nat → V (List TV × Nat)
  | 0, _, _, _, _ => .error .fuelOut
  | _ + 1, _, [], _, count => .ok ([], count)
  | fuel + 1, fd, f :: stack, childDefs, count =>
    let start := match fd.fields with | d :: _ => f.tag == d.tag | [] => false
    match (if start && tc then childDefs.find? (·.req) else none) with
    | some c => rej 1 c.tag                             -- a required member of the previous entry was not reached
    | none =>
      let childDefs := if start then fd.fields else childDefs
      let count := if start then count + 1 else count
      match childDefs with
      | [] => .ok (f :: stack, count)                     -- group complete
      | c :: cs =>
        if f.tag == c.tag then
          match visitFieldW tc fuel c (f :: stack) with
          | .error e => .error e
          | .ok stack' => groupLoopW tc fuel fd stack' cs count
        else if c.req then rej 1 c.tag
        else groupLoopW tc fuel fd (f :: stack) cs count
end

/-- the walk of the fixed tree -/
abbrev visitField := visitFieldW true
abbrev visitGroup := visitGroupW true
abbrev groupLoop := groupLoopW true
/-- the walk of the unchanged tree -/
abbrev visitFieldOrig := visitFieldW false

/-- validateWalk's loop -/
def walkLoop (tr app : VDict) (s : Settings) (body : MDef) : Nat → List TV → List Nat → V Unit
  | 0, _, _ => .error .fuelOut
  | _ + 1, [], _ => .ok ()
  | fuel + 1, f :: rest, seen =>
    let mdef? := if isHeaderTag f.tag then tr.header else if isTrailerTag f.tag then tr.trailer else some body
    match mdef? with
    | none => .error .panic
    | some mdef =>
      if seen.contains f.tag then rej 13 f.tag
      else
        match mdef.field? f.tag with
        | none =>
          if !checkFieldNotDefined s f.tag then rej 2 f.tag
          else walkLoop tr app s body fuel rest (f.tag :: seen)
        | some fd =>
          match visitField fuel fd (f :: rest) with
          | .error e => .error e
          | .ok rest' => walkLoop tr app s body fuel rest' (f.tag :: seen)

/-- a budget no run of the loops can exhaust: every step consumes a field or a child definition -/
def walkFuel (m : PMsg) : Nat := (m.fields.length + 2) * 4000 + 16

/-- validateWalk -/
def validateWalk (tr app : VDict) (s : Settings) (mt : Bytes) (m : PMsg) : V Unit :=
  match app.msg? mt with
  | none => .error .panic
  | some body => walkLoop tr app s body (walkFuel m) m.fields []

/-- validateFIX (d ≠ nil) and validateFIXT (both ≠ nil): the same pipeline over (transport, app) -/
def validatePipeline (tr app : VDict) (s : Settings) (mt : Bytes) (m : PMsg) : V Unit := do
  validateMsgType app mt
  validateRequired tr app mt m
  validateFieldContent m s.checkHaveValues s.checkOrder
  if s.rejectInvalid then
    validateFields tr app s m.fields
    validateWalk tr app s mt m

/-- MsgType of the parsed message -/
def PMsg.msgType (m : PMsg) : Option Bytes := (m.fields.find? (fun f => f.tag == 35)).map (·.value)

/-- fixValidator.Validate (`tr = none`) / fixtValidator.Validate (`tr = some _`); the application dictionary is present -/
def validate (app : VDict) (tr : Option VDict) (s : Settings) (m : PMsg) : V Unit :=
  if !m.hdr.contains 35 then rej 1 35
  else
    match m.msgType with
    | none => .error .panic
    | some mt =>
      match tr with
      | none => validatePipeline app app s mt m
      | some t => if isAdminMsgType mt then validatePipeline t t s mt m else validatePipeline t app s mt m

end Qfx.Validate
