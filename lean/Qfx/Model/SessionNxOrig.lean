/-
  Qfx.Model.SessionNxOrig — `EnableNextExpectedMsgSeqNum` as the code was BEFORE the `fix:` commits 9b6c1a0 (tag 789 of our own
  Logon), eef4b78 (no persistence), fb22495 (NewSeqNo), 9431a2e (ResetOnLogon), 732dac2 (initiator, 789 ahead).  This model agreed
  with that code on every operation of the correspondence runs (0 disagreements on 300 000 operations); it is kept for the
  witnesses of the five defects (Props/C07.lean).
-/
import Qfx.Model.Session
namespace Qfx.Sess

def logonMsgOrig (s : Sess) (reset : Bool) : OutMsg := logonMsgX s reset (nxOwnOrig s)

/-- the initiator's Logon at connect, as it was -/
def sendLogonOrig (s : Sess) (reset : Bool) : Sess := dropAndSend s (logonMsgOrig s reset)

/-- a readable 789 different from `ns` (our next outbound number when the Logon ARRIVED: before a reset, before the reply):
    with persistence a gap fill from the peer's 789 to `ns + 1`; without, the error `targetTooHigh{789, ns}` -/
def nxEvalOrig (s : Sess) (m : InMsg) (ns : Int) : Sess × Option Rej :=
  if s.cfg.nextExpected && !(m.f.has 141) then
    match peerNext m with
    | some n =>
      if n != ns then
        if s.cfg.persist then (enqueueAndSend s (gapFillRe s m n (ns + 1)), none)
        else (s, some (.tooHigh n ns))
      else (s, none)
    | none => (s, none)
  else (s, none)

def logonFinishOrig (s : Sess) (m : InMsg) (ns : Int) : Sess × Option LogonErr :=
  let s := ((s.setSentReset false).emit (.armPeer (1200 * s.hb))).emit .onLogon
  match nxEvalOrig s m ns with
  | (s, some r) => (s, some (.rej r))
  | (s, none) =>
    match checkTooHigh s m with
    | some r => (s, some (.rej r))
    | none => (incrTarget s, none)

def logonRefusesOrig (s : Sess) (m : InMsg) (flag : Bool) : Bool :=
  !s.cfg.initiator && !(flag && s.sentReset && s.st.loggedOn) && nxRefuses s m

def logonTailOrig (s : Sess) (m : InMsg) (ns : Int) : Sess × Option LogonErr :=
  if logonRefusesOrig s m (logonResetFlag m) then (logonRefused s m, some (.rej .rejectLogon))
  else logonFinishOrig (logonReply s m (logonResetFlag m)) m ns

def handleLogonNxOrig (s0 : Sess) (m : InMsg) : Sess × Option LogonErr :=
  if s0.cfg.bs == 5 && !(m.f.has 1137) then (s0, some .other) else
  let s := if !s0.cfg.initiator && s0.cfg.refreshOnLogon then s0.emit .refresh else s0
  match verifyAppImpl s m with
  | (s, some r) => (s, some (.rej r))
  | (s, none) =>
    let resetStore := (if s.cfg.initiator then false else s.cfg.resetOnLogon) || (logonResetFlag m && !s.sentReset)
    let s := if resetStore then dropAndReset s else s
    match verifySelect s m false true false with
    | (s, some r) => (s, some (.rej r))
    | (s, none) => logonTailOrig s m s0.store.sender

/-- logonState.FixMsgIn over the original handleLogon -/
def logonFixMsgInNxOrig (s : Sess) (m : InMsg) : Sess × SState :=
  if kindOf m != "A" then (s, .latent) else
  match handleLogonNxOrig s m with
  | (s, none) => (s, .inSession)
  | (s, some (.rej .rejectLogon)) => shutdownWithReason s m true
  | (s, some (.rej (.tooLow _ _))) => shutdownWithReason s m false
  | (s, some (.rej (.tooHigh recv exp))) =>
    let (s, c, f) := sendResendRequest s exp (recv - 1)
    (s, .resend [] c f)
  | (s, some _) => (s, .latent)

end Qfx.Sess
