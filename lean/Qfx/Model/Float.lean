/-
  Qfx.Model.Float — fix_float.go with the VALUES: `FIXFloat.Read` = `strconv.ParseFloat(s, 64)` + the character
  filter, `FIXFloat.Write` = `strconv.FormatFloat(f, 'f', -1, 64)`.

  IEEE-754 binary64 as exact arithmetic on `Nat`.  A double is its 64-bit pattern `bits : Nat`
  (`math.Float64bits`): `bits = sign * 2^63 + n`, where the *ordinal* `n = biasedExponent * 2^52 + fraction`
  orders the non-negative doubles (0 = +0, 1 = smallest subnormal, …, `infOrd - 1` = largest finite,
  `infOrd` = +Inf).  Every finite double is an integer multiple of 2^-1074, so its exact value is
  `scaled n / 2^1074` with `scaled n : Nat`; all comparisons with a decimal text `num / den` are
  cross-multiplied `Nat` inequalities.  Core Lean only.

  What strconv does internally (Eisel–Lemire, Ryū, the multi-precision fallbacks) is NOT mirrored line by line:
  the model computes what the documentation of strconv promises — `ParseFloat`: "the nearest floating-point
  number rounded using IEEE754 unbiased rounding", range error beyond the largest finite value;
  `FormatFloat(…, -1, 64)`: "the smallest number of digits necessary to represent the value uniquely",
  of those the closest to the value, printed positionally — and the correspondence check runs both on the same inputs.
-/
import Qfx.Model.Values
namespace Qfx.F64
open Qfx

/-- 2^52 (notations, so that the literals are visible to `omega`/`decide`) -/
scoped notation "P52" => (4503599627370496 : Nat)
/-- 2^53 -/
scoped notation "P53" => (9007199254740992 : Nat)
/-- 2^63: the sign bit -/
scoped notation "signBit" => (9223372036854775808 : Nat)
/-- ordinal of +Inf = 2047 * 2^52: the first non-finite ordinal -/
scoped notation "infOrd" => (9218868437227405312 : Nat)

/-- exact value of the non-negative double with ordinal `n`, times 2^1074.
    biased exponent 0: subnormal `fraction * 2^-1074`; otherwise `(2^52 + fraction) * 2^(e - 1075)`.
    The same formula is used for `e ≥ 2047` ("as though the exponent range were unbounded", IEEE-754 §7.4:
    `scaled infOrd = 2^1024 * 2^1074` is the overflow threshold's upper neighbour). -/
def scaled (n : Nat) : Nat :=
  if n / P52 = 0 then n else (P52 + n % P52) * 2 ^ (n / P52 - 1)

def ordOf (bits : Nat) : Nat := bits % signBit
def negOf (bits : Nat) : Bool := decide (bits / signBit % 2 = 1)
def mkBits (neg : Bool) (n : Nat) : Nat := (if neg then signBit else 0) + n

/-- the correctly rounded (nearest, ties to even) ordinal of the non-negative rational `num / den` (`den > 0`),
    exponent range unbounded above.  `F` = ⌊q·2^1074⌋; keep its 53 leading bits `M` (all of it when it has fewer:
    subnormals and the first binade have spacing 2^-1074), compare `q` with the midpoint `(M + 1/2)·2^sh`. -/
def roundOrd (num den : Nat) : Nat :=
  -- (literal factors are written on the LEFT of a product: the kernel's `Nat.mul` recurses on the right argument)
  let Q := 2 ^ 1074 * num
  let F := Q / den
  let sh := F.log2 + 1 - 53
  let M := F / 2 ^ sh
  let n0 := P52 * sh + M
  let mid := (2 * M + 1) * 2 ^ sh * den
  if 2 * Q < mid then n0 else if mid < 2 * Q then n0 + 1 else if M % 2 = 0 then n0 else n0 + 1

/-- `roundNearestEven`: the bit pattern of the correctly rounded double of `± num / den`;
    `none` = beyond the largest finite double (ParseFloat reports a range error, `Read` fails) -/
def roundNearestEven (neg : Bool) (num den : Nat) : Option Nat :=
  if roundOrd num den < infOrd then some (mkBits neg (roundOrd num den)) else none

/-- sign, digits and scale of a text of the float grammar: value = ± mag / 10^scale.
    (strconv.readFloat: optional '-', digits before and after at most one '.') -/
def textNeg (b : Bytes) : Bool := b.head? == some cMinus
def textBody (b : Bytes) : Bytes := if textNeg b then b.drop 1 else b
def textMag (b : Bytes) : Nat :=
  digitsVal ((textBody b).takeWhile (· ≠ cDot) ++ ((textBody b).dropWhile (· ≠ cDot)).drop 1)
def textScale (b : Bytes) : Nat := (((textBody b).dropWhile (· ≠ cDot)).drop 1).length

/-- `FIXFloat.Read` followed by `math.Float64bits`: "-0" is read as -0.0 (sign bit set), underflow gives ±0 without
    an error, overflow is ParseFloat's range error -/
def readFloat (b : Bytes) : Res Nat :=
  if acceptFloat b then
    match roundNearestEven (textNeg b) (textMag b) (10 ^ textScale b) with
    | some bits => .ok bits
    | none => .err "value out of range"
  else .err "invalid syntax"

/-! ### Write: shortest digits that read back, closest to the value, printed positionally ('f', -1) -/

/-- the value as an exact decimal: `scaled n / 2^1074 = exactW n / 10^(exactJ n)`.
    `exactM` = the full mantissa, `exactSh` = the exponent above the first binade (`scaled n = exactM n * 2^(exactSh n)`) -/
def exactM (n : Nat) : Nat := if n / P52 = 0 then n else P52 + n % P52
def exactSh (n : Nat) : Nat := n / P52 - 1
def exactW (n : Nat) : Nat :=
  if 1074 ≤ exactSh n then exactM n * 2 ^ (exactSh n - 1074) else exactM n * 5 ^ (1074 - exactSh n)
def exactJ (n : Nat) : Nat := if 1074 ≤ exactSh n then 0 else 1074 - exactSh n

/-- the text `x * 10^c / 10^J` reads back as the double with ordinal `n` -/
def candOk (n J x c : Nat) : Bool := roundOrd (x * 10 ^ c) (10 ^ J) == n

/-- of the two candidates around `W` the closer one, the even one when equally close
    (Ryū's last step: "if middle digit is 5 and all trimmed digits were zero then round to even") -/
def pickCloser (W lo c : Nat) : Nat :=
  if W - lo * 10 ^ c < (lo + 1) * 10 ^ c - W || (W - lo * 10 ^ c == (lo + 1) * 10 ^ c - W && lo % 2 == 0) then lo else lo + 1

/-- candidates with `k` significant digits: the decimal expansion `W` (of `L` digits) cut after `k` digits, and that
    plus one unit of the last kept place; a candidate qualifies when it reads back to `n`. Result: digits and the
    number of dropped places. -/
def tryK (n W J L k : Nat) : Option (Nat × Nat) :=
  if candOk n J (W / 10 ^ (L - k)) (L - k) && candOk n J (W / 10 ^ (L - k) + 1) (L - k) then
    some (pickCloser W (W / 10 ^ (L - k)) (L - k), L - k)
  else if candOk n J (W / 10 ^ (L - k)) (L - k) then some (W / 10 ^ (L - k), L - k)
  else if candOk n J (W / 10 ^ (L - k) + 1) (L - k) then some (W / 10 ^ (L - k) + 1, L - k)
  else none

/-- the first `k` (from `k` upward, `fuel` tries) with a qualifying candidate; all digits otherwise -/
def shortestFrom (n W J L : Nat) : Nat → Nat → Nat × Nat
  | 0, _ => (W, 0)
  | fuel + 1, k => match tryK n W J L k with
      | some r => r
      | none => shortestFrom n W J L fuel (k + 1)

/-- shortest digits `D` and dropped places `c`: the value is written as `D * 10^c / 10^(exactJ n)`; 17 digits always suffice -/
def shortest (n : Nat) : Nat × Nat :=
  shortestFrom n (exactW n) (exactJ n) (fmtNat (exactW n)).length 17 1

/-- drop trailing zeros of `D` while decimals remain -/
def stripZ : Nat → Nat → Nat × Nat
  | D, 0 => (D, 0)
  | D, s + 1 => if D % 10 = 0 then stripZ (D / 10) s else (D, s + 1)

/-- integer part, and `s > 0` decimals after a point -/
def renderFrac (p : Nat × Nat) : Bytes :=
  if p.2 = 0 then fmtNat p.1 else fmtNat (p.1 / 10 ^ p.2) ++ [cDot] ++ digitsW p.2 (p.1 % 10 ^ p.2)

/-- `%f` with the minimal number of decimals for the value `p.1 * 10^p.2 / 10^J` -/
def renderPos (p : Nat × Nat) (J : Nat) : Bytes :=
  if J ≤ p.2 then fmtNat (p.1 * 10 ^ (p.2 - J)) else renderFrac (stripZ p.1 (J - p.2))

/-- `FIXFloat.Write` of the non-negative finite double with ordinal `n` (zero is written "0": no digits, no decimals) -/
def writeOrd (n : Nat) : Bytes := renderPos (shortest n) (exactJ n)

def writeFloat (bits : Nat) : Bytes :=
  (if negOf bits then [cMinus] else []) ++ writeOrd (ordOf bits)

end Qfx.F64
