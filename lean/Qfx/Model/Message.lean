/-
  Qfx.Model.Message — message.go: Message API (setters on the three sections, CopyInto), `build` = `cook` + three
  `write`s, `buildWithBodyBytes`, and `doParsing` with its loop state (`rawBytes`, `fieldIndex`, `trailerBytes`,
  `foundBody`, `foundTrailer`, `xmlDataLen`, `xmlDataMsg`), `parseGroup`, `isNumInGroupField`, `getGroupFields`.

  `Fixes` selects between the code as it was on the unchanged tree (`Fixes.orig`) and the code after the
  `fix:` commits of this family (`Fixes.cur`, what the correspondence runs against); every theorem says which one it
  is about, the defects are pinned by `decide`d witnesses on `Fixes.orig`.

  Parsing: `doParsing`'s main loop and `parseGroup`'s loop are one loop here (`Mode.main` / `Mode.grp`), because
  both extract exactly one field per iteration at the next index of the message's field array; the Go index check
  `fields[fieldIndex]` is the loop's termination argument (`fields.length - idx`).
  The dictionaries are *inputs*: the transport dictionary contributes the key sets of `Header.Fields` and
  `Trailer.Fields`, the application dictionary the `Fields` tree of each message type (`DNode`).
  Only a fresh `Message` is modelled as the target of a parse (no reuse of a previous `fields` array).
-/
import Qfx.Model.Group
namespace Qfx

structure Fixes where
  d2 : Bool   -- doParsing: running out of fields is a parse error instead of an index panic
  d3 : Bool   -- extractXMLDataField: a length beyond the buffer is a parse error instead of a slice panic
  d5 : Bool   -- FieldMap.Remove also drops the tag from the order list
  d6 : Bool   -- parseGroup: a field after a nested group is attributed to the innermost enclosing group that has it
  d7 : Bool   -- parseGroup: trailerBytes is not advanced over the header/trailer field that ends the group
  d16 : Bool  -- FieldMap.CopyInto clones the whole field
  d17 : Bool  -- getOrCreate stores the re-sliced one-element field
  deriving Repr, DecidableEq

def Fixes.orig : Fixes := ⟨false, false, false, false, false, false, false⟩

/-- the code the correspondence currently runs against (one flag per `fix:` commit of this family) -/
def Fixes.cur : Fixes := ⟨true, true, true, true, true, true, true⟩

/-! ## static tag sets (tag.go `IsHeader`, `IsTrailer`) — compared with the implementation by the `static` op -/

def staticHeaderTags : List Tag :=
  [8, 9, 35, 49, 56, 115, 128, 90, 34, 50, 142, 57, 143, 116, 144, 129, 145, 43, 97, 52, 122, 212, 213, 347, 369,
   370, 1128, 1129, 627, 1156, 91, 628, 629, 630]

def staticTrailerTags : List Tag := [93, 89, 10]

def Tag.isHeader (t : Tag) : Bool := staticHeaderTags.contains t
def Tag.isTrailer (t : Tag) : Bool := staticTrailerTags.contains t

/-! ## dictionaries as the parser sees them -/

inductive DNode where
  | mk (tag : Tag) (children : List DNode)
  deriving Repr, Inhabited

def DNode.tag : DNode → Tag | .mk t _ => t
def DNode.children : DNode → List DNode | .mk _ c => c

structure Dicts where
  /-- transport dictionary: keys of `Header.Fields`, keys of `Trailer.Fields` -/
  transport : Option (List Tag × List Tag)
  /-- application dictionary: `Messages[msgType].Fields` -/
  app : Option (List (Bytes × List DNode))
  deriving Inhabited

def Dicts.none : Dicts := { transport := Option.none, app := Option.none }

def isHeaderField (d : Dicts) (t : Tag) : Bool :=
  t.isHeader || (match d.transport with | some (h, _) => h.contains t | Option.none => false)

def isTrailerField (d : Dicts) (t : Tag) : Bool :=
  t.isTrailer || (match d.transport with | some (_, tr) => tr.contains t | Option.none => false)

/-- map lookup in `newFields[ff.Tag()] = ff` built by a loop: the last definition of a tag wins -/
def dfind : List DNode → Tag → Option DNode
  | [], _ => Option.none
  | n :: r, t => match dfind r t with
                 | some x => some x
                 | Option.none => if n.tag = t then some n else Option.none

/-- the common walk of `isNumInGroupField` / `getGroupFields`: path elements that are not found are skipped -/
def pathWalk : List DNode → List Tag → Option (List DNode)
  | _, [] => Option.none
  | fields, [t] =>
    (match dfind fields t with
     | some n => if n.children.isEmpty then Option.none else some n.children
     | Option.none => Option.none)
  | fields, t :: t2 :: r =>
    (match dfind fields t with
     | some n => pathWalk n.children (t2 :: r)
     | Option.none => pathWalk fields (t2 :: r))

def alFindB {β} : List (Bytes × β) → Bytes → Option β
  | [], _ => Option.none
  | (k, v) :: r, t => if k = t then some v else alFindB r t

/-- `appDataDictionary.Messages[msg.msgTypeNoLock()].Fields` -/
def msgFields (d : Dicts) (arr : List TagValue) (header : FieldMap) : Option (List DNode) :=
  match d.app with
  | Option.none => Option.none
  | some msgs =>
    match header.getBytes arr 35 with
    | .ok mt => alFindB msgs mt
    | _ => Option.none

def isNumInGroupField (d : Dicts) (arr : List TagValue) (header : FieldMap) (tags : List Tag) : Bool :=
  match msgFields d arr header with
  | some fs => (pathWalk fs tags).isSome
  | Option.none => false

def getGroupFields (d : Dicts) (arr : List TagValue) (header : FieldMap) (tags : List Tag) : List DNode :=
  match msgFields d arr header with
  | some fs => (match pathWalk fs tags with | some c => c | Option.none => [])
  | Option.none => []

def isGroupMember (t : Tag) (fields : List DNode) : Bool := fields.any (fun n => n.tag = t)

/-! ## Message -/

structure Message where
  header : FieldMap
  body : FieldMap
  trailer : FieldMap
  /-- `Message.fields`: the field array of a parsed message (validation order; views point into it) -/
  fields : List TagValue
  bodyBytes : Bytes
  /-- `rawMessage` (nil for a message built through the API) -/
  raw : Option Bytes
  deriving Repr, Inhabited

def Message.new : Message :=
  { header := FieldMap.empty .header, body := FieldMap.empty .normal, trailer := FieldMap.empty .trailer,
    fields := [], bodyBytes := [], raw := Option.none }

inductive Sec where | h | b | t
  deriving Repr, DecidableEq, Inhabited

def Message.sec (m : Message) : Sec → FieldMap
  | .h => m.header | .b => m.body | .t => m.trailer

def Message.withSec (m : Message) (s : Sec) (fm : FieldMap) : Message :=
  match s with
  | .h => { m with header := fm } | .b => { m with body := fm } | .t => { m with trailer := fm }

/-- `SetBytes` / `SetString` / `SetField` / `Set` on one section -/
def Message.setBytes (fx : Fixes) (m : Message) (s : Sec) (t : Tag) (v : Bytes) : Res Message :=
  match (if fx.d17 then (m.sec s).setBytes t v else (m.sec s).setBytesOrig t v) with
  | .ok r =>
    let m' := m.withSec s r.fm
    (match r.arrWrite with
     | some (i, tv) => .ok { m' with fields := m'.fields.set i tv }
     | Option.none => .ok m')
  | .err e => .err e
  | .fault w => .fault w

def Message.setInt (fx : Fixes) (m : Message) (s : Sec) (t : Tag) (v : Int) : Res Message :=
  m.setBytes fx s t (fmtInt v)

def Message.setBool (fx : Fixes) (m : Message) (s : Sec) (t : Tag) (v : Bool) : Res Message :=
  m.setBytes fx s t (if v then [89] else [78])

def Message.remove (fx : Fixes) (m : Message) (s : Sec) (t : Tag) : Message :=
  m.withSec s (if fx.d5 then (m.sec s).remove t else (m.sec s).removeOrig t)

def Message.clear (m : Message) (s : Sec) : Message := m.withSec s (m.sec s).clear

def Message.setGroup (m : Message) (s : Sec) (t : Tag) (tmpl : List Item) (entries : List (List GFld)) : Res Message :=
  match writeGroup t tmpl entries with
  | .ok tvs => .ok (m.withSec s ((m.sec s).setGroup t tvs))
  | .err e => .err e
  | .fault w => .fault w

def copyFM (fx : Fixes) (arr : List TagValue) (fm : FieldMap) : Res FieldMap :=
  if fx.d16 then .ok (fm.copy arr) else fm.copyOrig arr

/-- `m.CopyInto(NewMessage())` -/
def Message.copy (fx : Fixes) (m : Message) : Res Message :=
  match copyFM fx m.fields m.header, copyFM fx m.fields m.body, copyFM fx m.fields m.trailer with
  | .ok h, .ok b, .ok t =>
    .ok { header := h, body := b, trailer := t, bodyBytes := m.bodyBytes,
          fields := m.fields.map (fun tv => TagValue.init tv.tag tv.value), raw := Option.none }
  | .fault w, _, _ => .fault w
  | _, .fault w, _ => .fault w
  | _, _, .fault w => .fault w
  | _, _, _ => .err "copy"

/-- `cook`: BodyLength then CheckSum through the normal setters -/
def Message.cook (fx : Fixes) (m : Message) (bodyLen bodyTotal : Nat) : Res Message :=
  let bodyLength := m.header.length m.fields + bodyLen + m.trailer.length m.fields
  match m.setInt fx .h 9 bodyLength with
  | .ok m1 =>
    let checkSum := (m1.header.total m1.fields + bodyTotal + m1.trailer.total m1.fields) % 256
    m1.setBytes fx .t 10 (digitsW 3 checkSum)
  | .err e => .err e
  | .fault w => .fault w

def Message.writeAll (m : Message) (body : Option Bytes) : Bytes × Message :=
  let (hb, h') := m.header.write m.fields
  let (tb, t') := m.trailer.write m.fields
  match body with
  | some bb => (hb ++ bb ++ tb, { m with header := h', trailer := t' })
  | Option.none =>
    let (bb, b') := m.body.write m.fields
    (hb ++ bb ++ tb, { m with header := h', body := b', trailer := t' })

/-- `build` -/
def Message.build (fx : Fixes) (m : Message) : Res (Bytes × Message) :=
  match m.cook fx (m.body.length m.fields) (m.body.total m.fields) with
  | .ok m1 => .ok (m1.writeAll Option.none)
  | .err e => .err e
  | .fault w => .fault w

/-- `buildWithBodyBytes` -/
def Message.buildWithBodyBytes (fx : Fixes) (m : Message) (bodyBytes : Bytes) : Res (Bytes × Message) :=
  match m.cook fx bodyBytes.length (bytesTotal bodyBytes) with
  | .ok m1 => .ok (m1.writeAll (some bodyBytes))
  | .err e => .err e
  | .fault w => .fault w

/-- `Bytes()` / `String()`: the raw buffer of a parsed message (even after mutation), else `build` -/
def Message.bytes (fx : Fixes) (m : Message) : Res (Bytes × Message) :=
  match m.raw with
  | some r => .ok (r, m)
  | Option.none => m.build fx

/-! ## parsing -/

/-- `extractField`: (remaining bytes, parse result) -/
def extractField (buffer : Bytes) : Bytes × Res TagValue :=
  match indexByte buffer SOH with
  | Option.none => (buffer, .err "no trailing delim")
  | some e =>
    match sliceR buffer 0 (e + 1) with
    | .ok raw => (buffer.drop (e + 1), TagValue.parse raw)
    | .err x => (buffer, .err x)
    | .fault w => (buffer, .fault w)

/-- `extractXMLDataField`: the field ends `dataLen + 1` bytes after the first `=` -/
def extractXMLDataField (fx : Fixes) (buffer : Bytes) (dataLen : Int) : Bytes × Res TagValue :=
  match indexByte buffer cEq with
  | Option.none => (buffer, .err "no trailing delim")
  | some e =>
    let endIndex : Int := (e : Int) + dataLen + 1
    if endIndex + 1 > (buffer.length : Int) ∨ endIndex < 0 then
      (buffer, if fx.d3 then .err "xml data length beyond the message" else .fault "slice bounds out of range")
    else
      let k := (endIndex + 1).toNat
      (buffer.drop k, TagValue.parse (buffer.take k))

structure PCore where
  header : FieldMap
  body : FieldMap
  trailer : FieldMap
  bodyBytes : Bytes
  rawBytes : Bytes
  trailerBytes : Bytes
  foundBody : Bool
  foundTrailer : Bool
  xmlDataLen : Int
  xmlDataMsg : Bool
  deriving Repr, Inhabited

inductive Mode where
  | main
  | grp (dmStart : Nat) (tags : List Tag) (gfields : List DNode)
  deriving Inhabited

/-- the `switch` of the main loop for the field just stored at `idx`; `some mode` = `parseGroup` was entered -/
def mainSwitch (fx : Fixes) (d : Dicts) (fields : List TagValue) (idx : Nat) (tv : TagValue) (c : PCore) : PCore × Option Mode :=
  if isHeaderField d tv.tag then ({ c with header := c.header.add tv.tag (.view idx 1) }, Option.none)
  else if isTrailerField d tv.tag then
    ({ c with trailer := c.trailer.add tv.tag (.view idx 1), foundTrailer := true }, Option.none)
  else if isNumInGroupField d fields c.header [tv.tag] then
    ({ c with foundBody := true, trailerBytes := if fx.d7 then c.rawBytes else c.trailerBytes },
     some (.grp idx [tv.tag] (getGroupFields d fields c.header [tv.tag])))
  else
    ({ c with foundBody := true, trailerBytes := c.rawBytes, body := c.body.add tv.tag (.view idx 1) }, Option.none)

/-- `Body.add(dm)` with `dm = fields[dmStart : idx]` -/
def addDm (fields : List TagValue) (dmStart idx : Nat) (c : PCore) : Res PCore :=
  match idxR fields dmStart with
  | .ok t0 => .ok { c with body := c.body.add t0.tag (.view dmStart (idx - dmStart)) }
  | .err e => .err e
  | .fault w => .fault w

/-- after the fix of D6: pop nested levels until the tag is a member of an enclosing group -/
def popToMember (d : Dicts) (fields : List TagValue) (header : FieldMap) (t : Tag) : List Tag → Option (List Tag × List DNode)
  | [] => Option.none
  | _ :: r =>
    -- `_ :: r` is the reversed tag stack; its parent level is `r`
    match r with
    | [] => Option.none
    | _ =>
      let gf := getGroupFields d fields header r.reverse
      if isGroupMember t gf then some (r.reverse, gf) else popToMember d fields header t r

/-- one iteration of `parseGroup` for the field now at `idx` (`c.rawBytes` already advanced);
    `some mode` = continue inside `parseGroup`, `none` = `break` -/
def grpSwitch (fx : Fixes) (d : Dicts) (fields : List TagValue) (idx : Nat) (tv : TagValue)
    (dmStart : Nat) (tags : List Tag) (gfields : List DNode) (c : PCore) : Res (PCore × Option Mode) :=
  let cT := if fx.d7 then c else { c with trailerBytes := c.rawBytes }     -- ORIGINAL: advanced after every field
  let cB := { c with trailerBytes := c.rawBytes }
  if isGroupMember tv.tag gfields then
    if isNumInGroupField d fields c.header (tags ++ [tv.tag]) then
      .ok (cB, some (.grp dmStart (tags ++ [tv.tag]) (getGroupFields d fields c.header (tags ++ [tv.tag]))))
    else .ok (cB, some (.grp dmStart tags gfields))
  else if isHeaderField d tv.tag then
    match addDm fields dmStart idx cT with
    | .ok c1 => .ok ({ c1 with header := c1.header.add tv.tag (.view idx 1) }, Option.none)
    | .err e => .err e
    | .fault w => .fault w
  else if isTrailerField d tv.tag then
    match addDm fields dmStart idx cT with
    | .ok c1 => .ok ({ c1 with trailer := c1.trailer.add tv.tag (.view idx 1), foundTrailer := true }, Option.none)
    | .err e => .err e
    | .fault w => .fault w
  else if isNumInGroupField d fields c.header [tv.tag] then
    match addDm fields dmStart idx cB with
    | .ok c1 => .ok (c1, some (.grp idx (if fx.d6 then [tv.tag] else tags) (getGroupFields d fields c.header [tv.tag])))
    | .err e => .err e
    | .fault w => .fault w
  else if fx.d6 then
    match popToMember d fields c.header tv.tag tags.reverse with
    | some (tags', gf) =>
      if isNumInGroupField d fields c.header (tags' ++ [tv.tag]) then
        .ok (cB, some (.grp dmStart (tags' ++ [tv.tag]) (getGroupFields d fields c.header (tags' ++ [tv.tag]))))
      else .ok (cB, some (.grp dmStart tags' gf))
    | Option.none =>
      match addDm fields dmStart idx cB with
      | .ok c1 => .ok ({ c1 with body := c1.body.add tv.tag (.view idx 1) }, Option.none)
      | .err e => .err e
      | .fault w => .fault w
  else
    let searchTags := if tags.length > 1 then tags.dropLast else [tv.tag]
    if isNumInGroupField d fields c.header searchTags then
      .ok (cB, some (.grp dmStart tags (getGroupFields d fields c.header searchTags)))
    else
      match addDm fields dmStart idx cB with
      | .ok c1 => .ok ({ c1 with body := c1.body.add tv.tag (.view idx 1) }, Option.none)
      | .err e => .err e
      | .fault w => .fault w

/-- `getIntNoLock(tagXMLDataLen)` with the error dropped (`xmlDataLen, _ = …`): 0 on any error -/
def xmlLenOf (fields : List TagValue) (header : FieldMap) : Res Int :=
  match header.getInt fields 212 with
  | .ok v => .ok v
  | .err _ => .ok 0
  | .fault w => .fault w

/-- the statements of the main loop after its `switch`; `true` = `break` (tag 10) -/
def tailStep (fields : List TagValue) (tv : TagValue) (c : PCore) : Res (PCore × Bool) :=
  if tv.tag = 10 then .ok (c, true)
  else
    let c1 := if c.foundBody then c else { c with bodyBytes := c.rawBytes }
    if tv.tag = 212 then
      match xmlLenOf fields c1.header with
      | .ok v => .ok ({ c1 with xmlDataLen := v }, false)
      | .err e => .err e
      | .fault w => .fault w
    else .ok (c1, false)

/-- the bodyBytes / trailerBytes adjustments after the loop -/
def finishAdjust (c : PCore) : PCore :=
  let c1 := if c.foundTrailer && !c.foundBody then { c with trailerBytes := c.rawBytes, bodyBytes := [] } else c
  if c1.bodyBytes.length > c1.trailerBytes.length
  then { c1 with bodyBytes := c1.bodyBytes.take (c1.bodyBytes.length - c1.trailerBytes.length) } else c1

/-- Σ length of every entry of the field array except tags 8, 9, 10 -/
def fieldsLength (fields : List TagValue) : Nat :=
  ((fields.filter (fun tv => tv.tag ≠ 8 ∧ tv.tag ≠ 9 ∧ tv.tag ≠ 10)).map TagValue.length).sum

/-- the part of `doParsing` after the loop -/
def finishParse (fields : List TagValue) (c : PCore) : Res (List TagValue × PCore) :=
  let c2 := finishAdjust c
  match c2.header.getInt fields 9 with
  | .ok bl => if ((fieldsLength fields : Nat) : Int) ≠ bl ∧ !c2.xmlDataMsg then .err "incorrect message length" else .ok (fields, c2)
  | .err e => .err e
  | .fault w => .fault w

/-- the loop finds no field left at `idx`.  In `doParsing` (after the fix of D2) that is the error "message ends without CheckSum"; the
    unchanged code indexed past the array.  In `parseGroup` the fixed code does `Body.add(dm); return`, and back in `doParsing` the
    statements after the `switch` look at the field parsed LAST (`mp.parsedFieldBytes`): CheckSum ends the loop normally (possible only
    when the dictionary lists 10 inside a repeating group), anything else goes round to the bound check. -/
def outOfFields (fx : Fixes) (mode : Mode) (fields : List TagValue) (idx : Nat) (c : PCore) : Res (List TagValue × PCore) :=
  if fx.d2 then
    match mode with
    | .main => .err "message ends without CheckSum"
    | .grp dmStart _ _ =>
      (match addDm fields dmStart idx c with
       | .ok c1 =>
         (match fields[idx - 1]? with
          | some last => if last.tag = 10 then finishParse fields c1 else .err "message ends without CheckSum"
          | Option.none => .err "message ends without CheckSum")
       | .err e => .err e
       | .fault w => .fault w)
  else .fault "index out of range (fields[fieldIndex])"

/-- the loop(s) of `doParsing` / `parseGroup` from field index `idx` on -/
def parseLoop (fx : Fixes) (d : Dicts) (mode : Mode) (fields : List TagValue) (idx : Nat) (c : PCore) :
    Res (List TagValue × PCore) :=
  if h : idx < fields.length then
    match mode with
    | .main =>
      let ex := if c.xmlDataLen > 0 then extractXMLDataField fx c.rawBytes c.xmlDataLen else extractField c.rawBytes
      let c0 := if c.xmlDataLen > 0 then { c with xmlDataLen := 0, xmlDataMsg := true } else c
      match ex.2 with
      | .err e => .err e
      | .fault w => .fault w
      | .ok tv =>
        let fields' := fields.set idx tv
        match mainSwitch fx d fields' idx tv { c0 with rawBytes := ex.1 } with
        | (c1, some m) => parseLoop fx d m fields' (idx + 1) c1
        | (c1, Option.none) =>
          match tailStep fields' tv c1 with
          | .ok (c2, true) => finishParse fields' c2
          | .ok (c2, false) => parseLoop fx d .main fields' (idx + 1) c2
          | .err e => .err e
          | .fault w => .fault w
    | .grp dmStart tags gfields =>
      let ex := extractField c.rawBytes
      match ex.2 with
      | .fault w => .fault w
      | r =>
        let tv : TagValue := match r with | .ok tv => tv | _ => fields[idx]
        let fields' := fields.set idx tv
        match grpSwitch fx d fields' idx tv dmStart tags gfields { c with rawBytes := ex.1 } with
        | .ok (c1, some m) => parseLoop fx d m fields' (idx + 1) c1
        | .ok (c1, Option.none) =>
          (match tailStep fields' tv c1 with
           | .ok (c2, true) => finishParse fields' c2
           | .ok (c2, false) => parseLoop fx d .main fields' (idx + 1) c2
           | .err e => .err e
           | .fault w => .fault w)
        | .err e => .err e
        | .fault w => .fault w
  else outOfFields fx mode fields idx c
termination_by fields.length - idx
decreasing_by all_goals (simp only [List.length_set]; omega)

/-- `extractSpecificField` into `fields[idx]` + `Header.add` -/
def extractSpecific (fx : Fixes) (expected : Tag) (fields : List TagValue) (idx : Nat) (raw : Bytes) (header : FieldMap) :
    Res (List TagValue × Bytes × FieldMap) :=
  if idx < fields.length then
    match extractField raw with
    | (_, .err e) => .err e
    | (_, .fault w) => .fault w
    | (rem, .ok tv) =>
      if tv.tag ≠ expected then .err "fields out of order"
      else .ok (fields.set idx tv, rem, header.add tv.tag (.view idx 1))
  else if fx.d2 then .err "message ends without CheckSum" else .fault "index out of range (fields[fieldIndex])"

/-- `ParseMessageWithDataDictionary` into a fresh message -/
def parseMessage (fx : Fixes) (d : Dicts) (raw : Bytes) : Res Message :=
  let fieldCount := countByte raw SOH
  if fieldCount = 0 then .err "no fields" else
  let fields0 := List.replicate fieldCount TagValue.zero
  match extractSpecific fx 8 fields0 0 raw (FieldMap.empty .header) with
  | .err e => .err e
  | .fault w => .fault w
  | .ok (f1, r1, h1) =>
    match extractSpecific fx 9 f1 1 r1 h1 with
    | .err e => .err e
    | .fault w => .fault w
    | .ok (f2, r2, h2) =>
      match extractSpecific fx 35 f2 2 r2 h2 with
      | .err e => .err e
      | .fault w => .fault w
      | .ok (f3, r3, h3) =>
        let c : PCore := { header := h3, body := FieldMap.empty .normal, trailer := FieldMap.empty .trailer,
                           bodyBytes := [], rawBytes := r3, trailerBytes := [], foundBody := false,
                           foundTrailer := false, xmlDataLen := 0, xmlDataMsg := false }
        match parseLoop fx d .main f3 3 c with
        | .err e => .err e
        | .fault w => .fault w
        | .ok (fields, c') =>
          .ok { header := c'.header, body := c'.body, trailer := c'.trailer, fields := fields,
                bodyBytes := c'.bodyBytes, raw := some raw }

end Qfx
