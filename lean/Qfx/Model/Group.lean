/-
  Qfx.Model.Group — repeating_group.go: templates (nested inductive), `Write`, `Read`.

  * `Write`: `<tag>=<count>` then, per entry, the entry's fields in template order (the entry is a
    FieldMap with `groupTagOrder`; `sortedTags` + lookup, exactly as `FieldMap.write`).
  * `Read` is delimiter driven and walks `tv[1:cap(tv)]`: the argument here is the field's full
    extent `f[0:cap(f)]` (for a parsed message: the rest of the message's field array).  An item that
    is not in the template ends the group; a new entry starts at each delimiter (first template item);
    the entry's lookup stores the *rest of the array* (`tvRange`) under the tag; items seen before the
    first delimiter go to a scratch entry that is never part of the result.
  * recursion: `Read` of a nested group is called from the loop of its parent.  The model threads one
    `fuel` counter down the call chain (loop iteration or nested call = 1); every step consumes at least
    one element, so `2·len + 4` is never exhausted (`fuel` running out is reported as `err "fuel"`,
    which the correspondence would expose as a disagreement).
-/
import Qfx.Model.FieldMap
namespace Qfx

inductive Item where
  | elem (tag : Tag)
  | group (tag : Tag) (tmpl : List Item)
  deriving Repr, Inhabited

def Item.tag : Item → Tag
  | .elem t => t
  | .group t _ => t

def tmplTags (tmpl : List Item) : List Tag := tmpl.map Item.tag

/-- `findItemInGroupTemplate` -/
def findItem : List Item → Tag → Option Item
  | [], _ => none
  | it :: r, t => if it.tag = t then some it else findItem r t

/-! ## Write -/

/-- what the API calls put into one repeating group: per entry the list of setter calls in call order -/
inductive GFld where
  | fld (tag : Tag) (value : Bytes)
  | grp (tag : Tag) (tmpl : List Item) (entries : List (List GFld))
  deriving Repr, Inhabited

/-- the TagValues of one entry: sorted tags, then lookup (all fields of an entry are owned) -/
def collectTags (lookup : List (Tag × Field)) : List Tag → List TagValue
  | [] => []
  | t :: ts =>
    (match alFind lookup t with
     | some f => f.items []
     | none => []) ++ collectTags lookup ts

def entryTVs (fm : FieldMap) : List TagValue := collectTags fm.lookup (sortTags fm.ord fm.tags)

def countTV (tag : Tag) (n : Nat) : TagValue := TagValue.init tag (fmtNat n)

mutual
  /-- the setter calls of one entry applied to a fresh `Group` FieldMap -/
  def buildEntry : List GFld → FieldMap → Res FieldMap
    | [], fm => .ok fm
    | .fld t v :: r, fm =>
      (match fm.setBytes t v with
       | .ok s => buildEntry r s.fm
       | .err e => .err e
       | .fault w => .fault w)
    | .grp t tm es :: r, fm =>
      (match writeEntries tm es with
       | .ok tvs => buildEntry r (fm.setGroup t (countTV t es.length :: tvs))
       | .err e => .err e
       | .fault w => .fault w)
  /-- the entries part of `RepeatingGroup.Write` -/
  def writeEntries (tmpl : List Item) : List (List GFld) → Res (List TagValue)
    | [] => .ok []
    | e :: es =>
      (match buildEntry e (FieldMap.empty (.group (tmplTags tmpl))) with
       | .ok fm => (match writeEntries tmpl es with
                    | .ok r => .ok (entryTVs fm ++ r)
                    | .err e => .err e
                    | .fault w => .fault w)
       | .err e => .err e
       | .fault w => .fault w)
end

/-- `RepeatingGroup.Write` -/
def writeGroup (tag : Tag) (tmpl : List Item) (entries : List (List GFld)) : Res (List TagValue) :=
  match writeEntries tmpl entries with
  | .ok tvs => .ok (countTV tag entries.length :: tvs)
  | .err e => .err e
  | .fault w => .fault w

/-! ## Read -/

/-- one `Group` produced by `Read`: tags in arrival order and tag ↦ `tvRange` -/
structure GEntry where
  tags : List Tag
  lookup : List (Tag × List TagValue)
  deriving Repr, Inhabited

def GEntry.empty : GEntry := { tags := [], lookup := [] }

def GEntry.put (g : GEntry) (t : Tag) (range : List TagValue) : GEntry :=
  { tags := g.tags ++ [t], lookup := alInsert g.lookup t range }

/-- close the current entry -/
def finishGroups (done : List GEntry) (cur : Option GEntry) : List GEntry :=
  match cur with
  | some g => done ++ [g]
  | none => done

mutual
  /-- the `for len(tv) > 0` loop of `Read` -/
  def readLoop : Nat → List Item → List TagValue → List GEntry → Option GEntry →
      Res (List TagValue × List GEntry)
    | 0, _, _, _, _ => .err "fuel"
    | fuel + 1, tmpl, tv, done, cur =>
      match tv with
      | [] => .ok ([], finishGroups done cur)
      | t0 :: rest =>
        match findItem tmpl t0.tag with
        | none => .ok (tv, finishGroups done cur)
        | some it =>
          let step (tv' : List TagValue) : Res (List TagValue × List GEntry) :=
            match tmpl with
            | [] => .fault "index out of range [0] with length 0"     -- f.template[0]
            | d :: _ =>
              if t0.tag = d.tag then
                readLoop fuel tmpl tv' (finishGroups done cur) (some (GEntry.empty.put t0.tag tv))
              else
                readLoop fuel tmpl tv' done (cur.map (fun g => g.put t0.tag tv))
          match it with
          | .elem _ => step rest
          | .group _ gtm =>
            match readGroup fuel gtm tv with
            | .ok (tv', _) => step tv'
            | .err e => .err e
            | .fault w => .fault w
  /-- `RepeatingGroup.Read(tv)` with `tv = f[0:cap(f)]` -/
  def readGroup : Nat → List Item → List TagValue → Res (List TagValue × List GEntry)
    | 0, _, _ => .err "fuel"
    | fuel + 1, tmpl, tv =>
      match tv with
      | [] => .fault "index out of range [0] with length 0"
      | t0 :: rest =>
        match atoi t0.value with
        | .err _ => .err "6"
        | .fault w => .fault w
        | .ok n =>
          if n = 0 then .ok (rest, [])
          else
            match readLoop fuel tmpl rest [] none with
            | .ok (tv', groups) =>
              if (groups.length : Int) ≠ n then .err "15" else .ok (tv', groups)
            | .err e => .err e
            | .fault w => .fault w
end

def readFuel (tv : List TagValue) : Nat := 2 * tv.length + 4

/-- `FieldMap.GetGroup` on the field's full extent -/
def getGroup (tmpl : List Item) (full : List TagValue) : Res (List GEntry) :=
  match readGroup (readFuel full) tmpl full with
  | .ok (_, gs) => .ok gs
  | .err e => .err e
  | .fault w => .fault w

end Qfx
