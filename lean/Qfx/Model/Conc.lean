/-
  Qfx.Model.Conc — lock-level model of the outbound path of a quickfix session (property C02).

  Go code mirrored (session.go, session_state.go, in_session.go):
    queueForSend, sendInReplyTo, dropAndSendInReplyTo, dropAndReset, EnqueueBytesAndSend,
    stateMachine.SendAppMessages, inSession.resendMessages, prepMessageForSend, persist, sendQueued, dropQueued.

  Threads.  Thread 0 is the session goroutine (`session.run`): a list of `SCall`s.  Thread i+1 is a foreign goroutine:
  any sequence of `SendToTarget` (`queueForSend`) and `ResetSession` (ShutdownNow's Logout through `sendInReplyTo`
  on the caller's goroutine, then `dropAndReset`) calls.  Every entry point is a PROGRAM: a list
  of atomic `Step`s at lock granularity.  `readSeq` (local register := store.sender) and `persistIncr`/`incrOnly`
  (hand the register's number out, store.sender + 1) are deliberately SEPARATE steps, so two threads that are not
  serialised by `sendMutex` can read the same number (see the witness in Props/C02.lean).

  Semantics.  `step1 s t`: thread `t` is scheduled; if its next step is enabled it executes it atomically, otherwise
  nothing happens.  `lockS` is enabled iff nobody holds `sendMutex`; `rlockR` iff `resendMutex` has no writer;
  `lockR` iff it has neither writer nor readers.  (Go's RWMutex additionally blocks new readers while a writer
  waits: that only removes schedules.)  `run s sched` folds `step1` over an arbitrary schedule (list of thread ids).

  The programs are tied to the source by the regenerated lock skeletons `Qfx.Gen.skel_*` (Props/C02.lean).
  Core Lean only.
-/
namespace Qfx.Conc

/-- first-time transmission, or a replayed one (PossDup=Y) enqueued while `rcount = r` (the r-th `resendMutex.Lock`) -/
inductive Tag
  | first
  | dup (r : Nat)
  deriving DecidableEq, Repr

structure QEntry where
  num : Nat
  tag : Tag
  deriving DecidableEq, Repr

inductive Step
  | rlockR | runlockR            -- resendMutex.RLock / RUnlock
  | lockR | unlockR              -- resendMutex.Lock / Unlock
  | lockS | unlockS              -- sendMutex.Lock / Unlock
  | readSeq                      -- seqNum := store.NextSenderMsgSeqNum()
  | storeReset                   -- store.Reset()
  | persistIncr                  -- store.SaveMessageAndIncrNextSenderMsgSeqNum(seqNum, bytes)
  | incrOnly                     -- store.IncrNextSenderMsgSeqNum()            (DisableMessagePersist)
  | enqueue                      -- s.toSend = append(s.toSend, msgBytes)      (the message built under `seqNum`)
  | enqueueDup (n : Nat)         -- s.toSend = append(s.toSend, msg)           (replayed message / gap fill number n)
  | flush (lim : Option Nat)     -- sendQueued: `none` = everything, `some k` = at most k (channel full / disconnected)
  | dropQ                        -- dropQueued
  | notify                       -- notifyMessageOut (non-blocking wake-up, no shared state of the model)
  deriving DecidableEq, Repr

/-- observable events (the trace the monitor `MonitorC02` reads) -/
inductive Ev
  | assign (n snew : Nat) (saved : Bool)   -- number n handed out; store.sender afterwards; stored or only counted
  | reset                                  -- store.Reset()
  | wire (n : Nat) (tag : Tag)             -- bytes handed to the connection
  | lockR | unlockR                        -- replay region
  deriving DecidableEq, Repr

structure Thread where
  todo : List Step      -- program counter: the steps still to execute
  reg  : Nat            -- the local `seqNum`
  deriving Repr

structure State where
  sender    : Nat               -- store.NextSenderMsgSeqNum
  persisted : List Nat          -- numbers under which the store holds a message (this epoch)
  queue     : List QEntry       -- session.toSend
  wire      : List QEntry       -- what reached the connection, in order
  holderS   : Option Nat        -- sendMutex
  writerR   : Option Nat        -- resendMutex, writer
  readersR  : List Nat          -- resendMutex, readers
  rcount    : Nat               -- number of resendMutex.Lock so far
  th        : Nat → Thread
  trace     : List Ev

def upd (f : Nat → Thread) (t : Nat) (v : Thread) : Nat → Thread :=
  fun u => if u = t then v else f u

def wireEv (e : QEntry) : Ev := Ev.wire e.num e.tag

/-- effect of one enabled step of thread `t` with register `reg` on the shared state, and the new register;
    `none` = the step is blocked -/
def act (s : State) (t : Nat) (reg : Nat) : Step → Option (State × Nat)
  | .rlockR   => if s.writerR = none then some ({ s with readersR := t :: s.readersR }, reg) else none
  | .runlockR => some ({ s with readersR := s.readersR.erase t }, reg)
  | .lockR    => if s.writerR = none ∧ s.readersR = [] then
                   some ({ s with writerR := some t, rcount := s.rcount + 1, trace := s.trace ++ [Ev.lockR] }, reg)
                 else none
  | .unlockR  => some ({ s with writerR := none, trace := s.trace ++ [Ev.unlockR] }, reg)
  | .lockS    => if s.holderS = none then some ({ s with holderS := some t }, reg) else none
  | .unlockS  => some ({ s with holderS := none }, reg)
  | .readSeq  => some (s, s.sender)
  | .storeReset => some ({ s with sender := 1, persisted := [], trace := s.trace ++ [Ev.reset] }, reg)
  | .persistIncr =>
      some ({ s with persisted := s.persisted ++ [reg], sender := s.sender + 1,
                     trace := s.trace ++ [Ev.assign reg (s.sender + 1) true] }, reg)
  | .incrOnly =>
      some ({ s with sender := s.sender + 1, trace := s.trace ++ [Ev.assign reg (s.sender + 1) false] }, reg)
  | .enqueue      => some ({ s with queue := s.queue ++ [⟨reg, Tag.first⟩] }, reg)
  | .enqueueDup n => some ({ s with queue := s.queue ++ [⟨n, Tag.dup s.rcount⟩] }, reg)
  | .flush lim =>
      let k := lim.getD s.queue.length
      some ({ s with queue := s.queue.drop k, wire := s.wire ++ s.queue.take k,
                     trace := s.trace ++ (s.queue.take k).map wireEv }, reg)
  | .dropQ  => some ({ s with queue := [] }, reg)
  | .notify => some (s, reg)

/-- thread `t` is scheduled once -/
def step1 (s : State) (t : Nat) : State :=
  match (s.th t).todo with
  | [] => s
  | st :: rest =>
    match act s t (s.th t).reg st with
    | none => s
    | some (s', reg') => { s' with th := upd s.th t ⟨rest, reg'⟩ }

/-- an arbitrary schedule -/
def run (s : State) : List Nat → State
  | [] => s
  | t :: ts => run (step1 s t) ts

/-- initial state from raw thread programs -/
def initRaw (n0 : Nat) (progs : Nat → List Step) : State :=
  { sender := n0, persisted := [], queue := [], wire := [], holderS := none, writerR := none, readersR := [],
    rcount := 0, th := fun t => ⟨progs t, 0⟩, trace := [] }

/-! ### the entry points as programs -/

/-- prepMessageForSend: read the number; a Logon with ResetSeqNumFlag resets the store and reads again; persist -/
def prog_prep (persist reset : Bool) : List Step :=
  [Step.readSeq] ++ (if reset then [Step.storeReset, Step.readSeq] else []) ++
  [if persist then Step.persistIncr else Step.incrOnly]

def prog_queueForSend (persist : Bool) : List Step :=
  [Step.rlockR, Step.lockS] ++ prog_prep persist false ++ [Step.enqueue, Step.notify, Step.unlockS, Step.runlockR]

def prog_sendInReplyTo (persist : Bool) (lim : Option Nat) : List Step :=
  [Step.rlockR, Step.lockS] ++ prog_prep persist false ++ [Step.enqueue, Step.flush lim, Step.unlockS, Step.runlockR]

def prog_dropAndReset : List Step :=
  [Step.lockS, Step.dropQ, Step.storeReset, Step.unlockS]

def prog_dropAndSendInReplyTo (persist reset : Bool) (lim : Option Nat) : List Step :=
  [Step.lockS] ++ prog_prep persist reset ++ [Step.dropQ, Step.enqueue, Step.flush lim, Step.unlockS]

/-- EnqueueBytesAndSend(msg): not logged on ⇒ the queue is dropped first -/
def prog_enqueueBytesAndSend (loggedOn : Bool) (n : Nat) (lim : Option Nat) : List Step :=
  [Step.lockS] ++ (if loggedOn then [] else [Step.dropQ]) ++ [Step.enqueueDup n, Step.flush lim, Step.unlockS]

/-- stateMachine.SendAppMessages: logged on ⇒ non-blocking flush, else drop -/
def prog_sendAppMessages (loggedOn : Bool) (lim : Option Nat) : List Step :=
  [Step.lockS] ++ (if loggedOn then [Step.flush lim] else [Step.dropQ]) ++ [Step.unlockS]

/-- one replayed message (or gap fill) of a replay: logged-on flag, number, how much the flush gets out -/
structure Item where
  loggedOn : Bool
  num : Nat
  lim : Option Nat
  deriving Repr

/-- inSession.resendMessages with message persistence: resendMutex.Lock; EnqueueBytesAndSend per item; Unlock -/
def prog_resendMessages (items : List Item) : List Step :=
  [Step.lockR] ++ items.flatMap (fun it => prog_enqueueBytesAndSend it.loggedOn it.num it.lim) ++ [Step.unlockR]

/-- what the session goroutine does to the send path -/
inductive SCall
  | queueForSend                                            -- sendInReplyTo while not logged on
  | sendInReplyTo (lim : Option Nat)                        -- heartbeat, test request, reject, logout, resend request …
  | dropAndSendInReplyTo (reset : Bool) (lim : Option Nat)  -- Logon (reset = ResetSeqNumFlag), Logout from the logon state
  | sendAppMessages (loggedOn : Bool) (lim : Option Nat)    -- the messageEvent wake-up
  | dropAndReset                                            -- ResetOnLogout / ResetOnDisconnect / Logon with 141=Y received
  | enqueueBytesAndSend (loggedOn : Bool) (n : Nat) (lim : Option Nat)  -- gap fill outside resendMutex (DisableMessagePersist)
  | resendMessages (items : List Item)                      -- answer to a ResendRequest
  deriving Repr

def SCall.prog (persist : Bool) : SCall → List Step
  | .queueForSend => prog_queueForSend persist
  | .sendInReplyTo lim => prog_sendInReplyTo persist lim
  | .dropAndSendInReplyTo reset lim => prog_dropAndSendInReplyTo persist reset lim
  | .sendAppMessages l lim => prog_sendAppMessages l lim
  | .dropAndReset => prog_dropAndReset
  | .enqueueBytesAndSend l n lim => prog_enqueueBytesAndSend l n lim
  | .resendMessages items => prog_resendMessages items

/-- session.send / sendInReplyTo with both branches: not logged on ⇒ `queueForSend` -/
def prog_sendInReplyToFull (persist loggedOn : Bool) (lim : Option Nat) : List Step :=
  if loggedOn then prog_sendInReplyTo persist lim else prog_queueForSend persist

/-- what `session.State.ShutdownNow(session)` does on the CALLER's goroutine: nothing (latent / connected but not
    logged on), or `sendLogout` = `sendInReplyTo` of a Logout, whose own IsLoggedOn test picks the branch -/
inductive Shutdown
  | nothing
  | logout (loggedOn : Bool) (lim : Option Nat)
  deriving Repr

def prog_shutdownNow (persist : Bool) : Shutdown → List Step
  | .nothing => []
  | .logout l lim => prog_sendInReplyToFull persist l lim

/-- the public `quickfix.ResetSession` (registry.go), run by whoever calls it: ShutdownNow, then dropAndReset -/
def prog_resetSession (persist : Bool) (sd : Shutdown) : List Step :=
  prog_shutdownNow persist sd ++ prog_dropAndReset

/-- what a goroutine other than the session's may do to the send path: `SendToTarget` and `ResetSession` -/
inductive ACall
  | queueForSend
  | resetSession (sd : Shutdown)
  deriving Repr

def ACall.prog (persist : Bool) : ACall → List Step
  | .queueForSend => prog_queueForSend persist
  | .resetSession sd => prog_resetSession persist sd

/-- `k` calls of SendToTarget -/
def sends (k : Nat) : List ACall := List.replicate k ACall.queueForSend

/-- thread programs built from the entry points: thread 0 = session goroutine, thread i+1 = a foreign goroutine
    (application sender, operator, …) running any sequence of `ACall`s -/
def compile (persist : Bool) (sess : List SCall) (apps : Nat → List ACall) : Nat → List Step
  | 0 => sess.flatMap (SCall.prog persist)
  | i + 1 => (apps i).flatMap (ACall.prog persist)

def init (persist : Bool) (n0 : Nat) (sess : List SCall) (apps : Nat → List ACall) : State :=
  initRaw n0 (compile persist sess apps)

/-! ### reading the regenerated lock skeletons (`Qfx.Gen.skel_*`, tokens of harness/extract.go) as programs

`ofTok fn o tok`: the steps a skeleton token of function `fn` stands for, given the run-time choices `o` of one call
(branches of the Go code: ResetSeqNumFlag, IsLoggedOn, how far the channel accepts).  An unknown token has no
reading (`none`), so a new kind of protected action in the source breaks the obligation instead of being ignored. -/

inductive Fn
  | queueForSend | sendInReplyTo | dropAndSendInReplyTo | dropAndReset | enqueueBytesAndSend | sendAppMessages
  deriving DecidableEq, Repr

structure Opts where
  persist  : Bool := true         -- !DisableMessagePersist
  reset    : Bool := false        -- Logon carrying ResetSeqNumFlag=Y
  loggedOn : Bool := true         -- session.IsLoggedOn()
  lim      : Option Nat := none   -- how much sendQueued gets out
  num      : Nat := 0             -- number of the replayed message handed to EnqueueBytesAndSend

def ofTok (fn : Fn) (o : Opts) : String → Option (List Step)
  | "rlockR"   => some [Step.rlockR]
  | "runlockR" => some [Step.runlockR]
  | "lockS"    => some [Step.lockS]
  | "unlockS"  => some [Step.unlockS]
  | "prep"     => some (prog_prep o.persist o.reset)
  | "enqueue"  => some [if fn = .enqueueBytesAndSend then Step.enqueueDup o.num else Step.enqueue]
  | "notify"   => some [Step.notify]
  | "storeReset" => some [Step.storeReset]
  | "flush"    => some (if fn = .sendAppMessages ∧ o.loggedOn = false then [] else [Step.flush o.lim])
  | "dropQ"    => some (if (fn = .sendAppMessages ∨ fn = .enqueueBytesAndSend) ∧ o.loggedOn = true then [] else [Step.dropQ])
  | _ => none

/-- the program a skeleton denotes -/
def expand (fn : Fn) (o : Opts) : List String → Option (List Step)
  | [] => some []
  | tok :: rest => match ofTok fn o tok, expand fn o rest with
      | some a, some b => some (a ++ b)
      | _, _ => none

/-- prepMessageForSend's skeleton read with the same options: the `storeReset; readSeq` pair is the ResetSeqNumFlag
    branch, `persist` is one of the two store calls of `session.persist` -/
def expandPrep (persistSkel : List String) (o : Opts) : List String → Option (List Step)
  | ["readSeq", "storeReset", "readSeq", "persist"] =>
      -- (the two store calls are the two branches of one `if`: which of them is written first is a matter of style)
      if persistSkel = ["storeSaveIncr", "storeIncrSender"] ∨ persistSkel = ["storeIncrSender", "storeSaveIncr"] then
        some ([Step.readSeq] ++ (if o.reset then [Step.storeReset, Step.readSeq] else []) ++
              [if o.persist then Step.persistIncr else Step.incrOnly])
      else none
  | _ => none

/-- sendInReplyTo's skeleton: `if !IsLoggedOn { return queueForSend }`, then the locked branch -/
def expandSendInReplyTo (o : Opts) : List String → Option (List Step)
  | "callQueueForSend" :: rest => if o.loggedOn then expand .sendInReplyTo o rest else some (prog_queueForSend o.persist)
  | _ => none

/-- ResetSession's skeleton and the call chain behind `ShutdownNow`: the logged-on states send a Logout through
    sendLogout → sendLogoutInReplyTo → sendInReplyTo, every other implementation is empty, and these are all the
    implementations there are -/
def resetSessionShapeOK (resetSession shutdownLoggedOn shutdownNotLoggedOn shutdownLatent sendLogout sendLogoutInReplyTo
    impls : List String) : Bool :=
  resetSession == ["callShutdownNow", "callDropAndReset"] &&
  shutdownLoggedOn == ["callSendLogout"] && shutdownNotLoggedOn == [] && shutdownLatent == [] &&
  sendLogout == ["callSendLogoutInReplyTo"] && sendLogoutInReplyTo == ["callSendInReplyTo"] &&
  impls == ["connectedNotLoggedOn", "latentState", "loggedOn"]

/-- resendMessages' skeleton: before `lockR` only the gap fill of the no-persistence path, between `lockR` and
    `unlockR` nothing but calls that end in EnqueueBytesAndSend, `unlockR` last -/
def resendShapeOK (genSeqResetSkel : List String) : List String → Bool
  | toks =>
    genSeqResetSkel == ["callEnqueueBytesAndSend"] &&
    (match toks.span (· != "lockR") with
     | (pre, "lockR" :: post) =>
        pre.all (· == "callGenerateSequenceReset") &&
        (match post.reverse with
         | "unlockR" :: mid => mid.all (fun t => t == "callGenerateSequenceReset" || t == "callEnqueueBytesAndSend" || t == "iterate")
         | _ => false)
     | _ => false)

end Qfx.Conc
