/-
  Qfx.Model.Decimal — fix_decimal.go over shopspring/decimal v1.4.0 (`NewFromString` without exponent notation,
  `StringFixed` = `Round` half away from zero + fixed number of decimals) and fix_udecimal.go over quagmt/udecimal
  (`Trunc(scale).StringFixed(scale)`), on values with a non-positive exponent: value = ± mag / 10^scale.
  Not modelled: exponent notation (`1e5`), negative `Scale`, udecimal's 19-digit precision limit.
-/
import Qfx.Model.Bytes
namespace Qfx.Dec
open Qfx

structure Dec where
  neg : Bool
  mag : Nat
  scale : Nat
  deriving Repr, DecidableEq, Inhabited

/-- `strconv.ParseInt(s, 10, _)` / `big.Int.SetString(s, 10)` on the digits: optional sign, at least one digit -/
def parseSigned (b : Bytes) : Option (Bool × Nat) :=
  match b with
  | 45 :: ds => if !ds.isEmpty && ds.all isDigit then some (true, digitsVal ds) else none
  | 43 :: ds => if !ds.isEmpty && ds.all isDigit then some (false, digitsVal ds) else none
  | ds => if !ds.isEmpty && ds.all isDigit then some (false, digitsVal ds) else none

/-- `decimal.NewFromString` for texts without `e`/`E` -/
def readDec (b : Bytes) : Res Dec :=
  let a := b.takeWhile (· ≠ 46)
  match b.dropWhile (· ≠ 46) with
  | [] =>
    (match parseSigned a with
     | some (n, m) => .ok { neg := n && m != 0, mag := m, scale := 0 }
     | none => .err "can't convert")
  | _ :: frac =>
    if frac.contains 46 then .err "too many .s" else
    match parseSigned (a ++ frac) with
    | some (n, m) => .ok { neg := n && m != 0, mag := m, scale := frac.length }
    | none => .err "can't convert"

/-- `Decimal.Round(places)`: half away from zero, looking at one digit beyond `places` (truncation before that) -/
def roundDec (d : Dec) (s : Nat) : Dec :=
  if d.scale = s then d else
  let x := if s + 1 ≥ d.scale then d.mag * 10 ^ (s + 1 - d.scale) else d.mag / 10 ^ (d.scale - (s + 1))
  let y := (x + 5) / 10
  { neg := d.neg && y != 0, mag := y, scale := s }

/-- udecimal `Trunc(scale)` then padding: toward zero -/
def truncDec (d : Dec) (s : Nat) : Dec :=
  if s ≥ d.scale then { d with mag := d.mag * 10 ^ (s - d.scale), scale := s }
  else { neg := d.neg, mag := d.mag / 10 ^ (d.scale - s), scale := s }

/-- the text of a value that already has exactly `d.scale` decimals (`Decimal.string(false)`) -/
def render (d : Dec) : Bytes :=
  (if d.neg && d.mag != 0 then [45] else []) ++
  (if d.scale = 0 then fmtNat d.mag else fmtNat (d.mag / 10 ^ d.scale) ++ [46] ++ digitsW d.scale (d.mag % 10 ^ d.scale))

/-- `FIXDecimal.Write` -/
def writeDec (d : Dec) (s : Nat) : Bytes := render (roundDec d s)

/-- `FIXUDecimal.Write` -/
def writeUDec (d : Dec) (s : Nat) : Bytes := render (truncDec d s)

end Qfx.Dec
