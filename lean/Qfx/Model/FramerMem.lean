/-
  Qfx.Model.FramerMem — the three buffer primitives of parser.go at the level of the backing array:
  `bigBuffer` is a byte array WITH its stale contents, `buffer` is the window [lo, lo+len) of it
  (cap(buffer) = len(bigBuffer) − lo).  `Qfx/Lemmas/FramerMem.lean` proves that `Qfx.Framer.grow`, `fill` and the
  re-slicings `buffer[k:]` of `Qfx.Model.Framer` are exactly the images of these under `M.toP`
  (contents of the window, spare capacity, length of bigBuffer): shifting to the front, reallocating and reading
  into `buffer[len:cap]` never disturb the bytes of the window.
-/
import Qfx.Model.Framer
namespace Qfx.Framer

structure M where
  mem : Bytes      -- p.bigBuffer, stale bytes included
  lo : Nat         -- where p.buffer starts in p.bigBuffer
  len : Nat        -- len(p.buffer)
  rd : Reader

/-- contents of `p.buffer` -/
def M.window (m : M) : Bytes := (m.mem.drop m.lo).take m.len

def M.toP (m : M) : P :=
  { big := m.mem.length, buf := m.window, spare := m.mem.length - m.lo - m.len, rd := m.rd }

/-- first half of `readMore` on the array: `copy(newBuffer, p.buffer)` is a memmove to index 0 -/
def growM (m : M) : M :=
  if m.mem.length - m.lo - m.len = 0 then
    if m.mem.length = 0 then { m with mem := List.replicate defaultBufSize 0, lo := 0, len := 0 }
    else if 2 * m.len ≤ m.mem.length then { m with mem := m.window ++ m.mem.drop m.len, lo := 0 }
    else { m with mem := m.window ++ List.replicate m.len 0, lo := 0 }
  else m

/-- second half of `readMore`: the reader writes `bs` at bigBuffer[lo+len …], then `buffer = buffer[:len+n]` -/
def fillM (m : M) : Res (Nat × Bool × M) :=
  let room := m.mem.length - m.lo - m.len
  if room = 0 then .fault "zero-length read: no progress"
  else
    let r := m.rd.read room
    .ok (r.1.length, r.2.1,
      { m with mem := m.mem.take (m.lo + m.len) ++ r.1 ++ m.mem.drop (m.lo + m.len + r.1.length),
               len := m.len + r.1.length, rd := r.2.2 })

/-- `p.buffer = p.buffer[k:]` -/
def sliceM (k : Nat) (m : M) : M := { m with lo := m.lo + k, len := m.len - k }

end Qfx.Framer

namespace Qfx.Framer

/-! ## the whole parser on the backing array (same control flow as Qfx.Model.Framer, `m.window` for `p.buffer`) -/

def M.init (rd : Reader) : M := { mem := [], lo := 0, len := 0, rd := rd }

def readMoreM (m : M) : Res (Nat × Bool × M) := fillM (growM m)

theorem growM_rd (m : M) : (growM m).rd = m.rd := by
  unfold growM; split
  · split
    · rfl
    · split <;> rfl
  · rfl

theorem readMoreM_weight {m : M} {n : Nat} {e : Bool} {m' : M} (h : readMoreM m = .ok (n, e, m')) :
    (n = 0 ∧ e = true) ∨ m'.rd.weight < m.rd.weight := by
  unfold readMoreM fillM at h
  simp only at h
  split at h
  · cases h
  · rename_i hroom
    simp only [Res.ok.injEq, Prod.mk.injEq] at h
    obtain ⟨hn, he, hm⟩ := h
    subst hm hn he
    simp only
    rw [← growM_rd m]
    exact (read_weight (growM m).rd _ (by omega)).2

def findIdxM (offset : Nat) (delim : Bytes) (m : M) : Res (Nat × M) :=
  if offset > m.len then
    match h : readMoreM m with
    | .ok (n, e, m') =>
      if hne : n = 0 ∧ e = true then .err m.rd.endErr else findIdxM offset delim m'
    | .err x => .err x
    | .fault w => .fault w
  else
    match indexOf delim (m.window.drop offset) with
    | some i => .ok (i + offset, m)
    | none =>
      match h : readMoreM m with
      | .ok (n, e, m') =>
        if hne : n = 0 ∧ e = true then .err m.rd.endErr else findIdxM offset delim m'
      | .err x => .err x
      | .fault w => .fault w
termination_by m.rd.weight
decreasing_by
  all_goals
    rcases readMoreM_weight h with h1 | h1
    · exact absurd h1 hne
    · exact h1

def findIndexAfterOffsetM (offset : Int) (delim : Bytes) (m : M) : Res (Nat × M) :=
  if offset < 0 then .fault "slice bounds out of range" else findIdxM offset.toNat delim m

def findEndAfterOffsetM (offset : Int) (m : M) : Res (Nat × M) :=
  match findIndexAfterOffsetM offset dCk m with
  | .ok (index, m1) =>
    match findIndexAfterOffsetM ((index : Int) + 1) dSOH m1 with
    | .ok (index2, m2) => .ok (index2 + 1, m2)
    | .err x => .err x
    | .fault w => .fault w
  | .err x => .err x
  | .fault w => .fault w

def jumpLengthGM (guarded : Bool) (m : M) : Res (Int × M) :=
  match findIndexAfterOffsetM 0 dLen m with
  | .ok (li, m1) =>
    let lengthIndex := li + 3
    match findIndexAfterOffsetM lengthIndex dSOH m1 with
    | .ok (offset, m2) =>
      if offset = lengthIndex then .err "No length given"
      else if ¬ (lengthIndex ≤ offset ∧ offset ≤ m2.len) then .fault "slice bounds out of range"
      else
        match atoi ((m2.window.take offset).drop lengthIndex) with
        | .ok length =>
          if length ≤ 0 then .err "Invalid length"
          else if guarded && decide (wrap64 ((offset : Int) + length) < (offset : Int)) then .err "Invalid length"
          else .ok (wrap64 ((offset : Int) + length), m2)
        | .err x => .err x
        | .fault w => .fault w
    | .err x => .err x
    | .fault w => .fault w
  | .err x => .err x
  | .fault w => .fault w

def readMessageGM (guarded : Bool) (m : M) : Res (Bytes × M) :=
  match findIndexAfterOffsetM 0 dBegin m with
  | .ok (start, m1) =>
    if start > m1.len then .fault "slice bounds out of range"
    else
      let m2 := sliceM start m1
      match jumpLengthGM guarded m2 with
      | .ok (index, m3) =>
        match findEndAfterOffsetM index m3 with
        | .ok (index, m4) =>
          if index > m4.len then .fault "slice bounds out of range"
          else .ok (m4.window.take index, sliceM index m4)     -- the frame is COPIED out (bytes.Buffer.Write)
        | .err x => .err x
        | .fault w => .fault w
      | .err x => .err x
      | .fault w => .fault w
  | .err x => .err x
  | .fault w => .fault w

def M.weight (m : M) : Nat := m.len + m.rd.weight

/-- `readLoop` on the array-level parser.  The `no progress` guard only makes the definition total without repeating the
    weight lemmas; `runGM_eq` (Lemmas/FramerMem) shows it never fires. -/
def runGM (guarded : Bool) (m : M) : Out :=
  match readMessageGM guarded m with
  | .ok (fr, m') =>
    if m'.weight < m.weight then let o := runGM guarded m'; { o with frames := fr :: o.frames }
    else { frames := [], end_ := .fault "no progress" }
  | .err c => { frames := [], end_ := .err c }
  | .fault w => { frames := [], end_ := .fault w }
termination_by m.weight

def framesReadM (rd : Reader) : Out := runGM true (M.init rd)

end Qfx.Framer
