/-
  Qfx.Model.FramerMem — the three buffer primitives of parser.go at the level of the backing array:
  `bigBuffer` is a byte array WITH its stale contents, `buffer` is the window [lo, lo+len) of it
  (cap(buffer) = len(bigBuffer) − lo).  `Qfx/Lemmas/FramerMem.lean` proves that `Qfx.Framer.grow`, `fill` and the
  re-slicings `buffer[k:]` of `Qfx.Model.Framer` are exactly the images of these under `M.toP`
  (contents of the window, spare capacity, length of bigBuffer): shifting to the front, reallocating and reading
  into `buffer[len:cap]` never disturb the bytes of the window.
-/
import Qfx.Model.Framer
namespace Qfx.Framer

structure M where
  mem : Bytes      -- p.bigBuffer, stale bytes included
  lo : Nat         -- where p.buffer starts in p.bigBuffer
  len : Nat        -- len(p.buffer)
  rd : Reader

/-- contents of `p.buffer` -/
def M.window (m : M) : Bytes := (m.mem.drop m.lo).take m.len

def M.toP (m : M) : P :=
  { big := m.mem.length, buf := m.window, spare := m.mem.length - m.lo - m.len, rd := m.rd }

/-- first half of `readMore` on the array: `copy(newBuffer, p.buffer)` is a memmove to index 0 -/
def growM (m : M) : M :=
  if m.mem.length - m.lo - m.len = 0 then
    if m.mem.length = 0 then { m with mem := List.replicate defaultBufSize 0, lo := 0, len := 0 }
    else if 2 * m.len ≤ m.mem.length then { m with mem := m.window ++ m.mem.drop m.len, lo := 0 }
    else { m with mem := m.window ++ List.replicate m.len 0, lo := 0 }
  else m

/-- second half of `readMore`: the reader writes `bs` at bigBuffer[lo+len …], then `buffer = buffer[:len+n]` -/
def fillM (m : M) : Res (Nat × Bool × M) :=
  let room := m.mem.length - m.lo - m.len
  if room = 0 then .fault "zero-length read: no progress"
  else
    let r := m.rd.read room
    .ok (r.1.length, r.2.1,
      { m with mem := m.mem.take (m.lo + m.len) ++ r.1 ++ m.mem.drop (m.lo + m.len + r.1.length),
               len := m.len + r.1.length, rd := r.2.2 })

/-- `p.buffer = p.buffer[k:]` -/
def sliceM (k : Nat) (m : M) : M := { m with lo := m.lo + k, len := m.len - k }

end Qfx.Framer
